(* The boolean oracles of C09, C10 and C14 (`Corr/Oracles.v`: `only_order_b`, `derive_b`,
   `erased_eqb`/`erase_bindings`, `names_b`), which `bin/check` evaluates on the struct
   definitions parsed back from the REAL implementation's output (`or_only_order`, `or_derive`,
   `or_orthogonal`, `or_names` of `Corr/CoreCorr.v`), are proved `= true` of the model's own
   output, for every tree and every option value, from the Prop-level theorems of
   Proofs/RenderProofs.v (C10), Proofs/OrderProofs.v (C09), Proofs/StructNameProofs.v (C14).
   Like Proofs/ReflectProofs.v this file imports Corr (definitions only).
   `bound`, `erase_field`, `erase_bindings` exist both in RenderProofs and in Oracles, `lastn`
   and `count_formatted` both in StructNameProofs and in Oracles: always written qualified. *)
From Coq Require Import String Lia Permutation.
From XSG.Model Require Import Strings Chars Convert Necessity Element Render.
From XSG.Proofs Require Import StringsProofs ElementProofs RenderProofs OrderProofs ReflectProofs
     StructNameProofs.
From XSG.Corr Require Import Common Oracles CoreCorr.
Local Open Scope list_scope.

(* ====================================================================== *)
(* 1. the boolean equalities are reflexive                                 *)
(* ====================================================================== *)
Lemma list_eqb_refl {A} (eqb : A -> A -> bool) (l : list A) :
  (forall x, eqb x x = true) -> list_eqb eqb l l = true.
Proof.
  intros H. induction l as [|x l IH]; [reflexivity|].
  cbn [list_eqb]. now rewrite H, IH.
Qed.

Lemma option_eqb_refl {A} (eqb : A -> A -> bool) (x : option A) :
  (forall a, eqb a a = true) -> option_eqb eqb x x = true.
Proof. intros H. destruct x as [a|]; [apply H|reflexivity]. Qed.

Lemma ty_eqb_refl t : ty_eqb t t = true.
Proof. destruct t as [|n]; [reflexivity|apply str_eqb_refl]. Qed.

Lemma pfield_eqb_refl f : pfield_eqb f f = true.
Proof.
  unfold pfield_eqb.
  now rewrite (option_eqb_refl str_eqb _ str_eqb_refl), str_eqb_refl, wrap_eqb_refl, ty_eqb_refl.
Qed.

Lemma erased_eqb_refl a : erased_eqb a a = true.
Proof.
  unfold erased_eqb. apply list_eqb_refl. intros x.
  rewrite str_eqb_refl. cbn [andb]. apply list_eqb_refl. intros f.
  now rewrite str_eqb_refl, wrap_eqb_refl, ty_eqb_refl.
Qed.

(* ====================================================================== *)
(* 2. C10: derive_b, erased_eqb                                            *)
(* ====================================================================== *)
(* whatever the name table and the path prefix *)
Lemma derive_b_render_at o tbl e pth : derive_b o (map erase (render_abs_at o tbl e pth)) = true.
Proof.
  unfold derive_b. apply forallb_forall. intros p Hp.
  apply in_map_iff in Hp. destruct Hp as [d [<- Hd]].
  pose proof (render_at_derive o tbl e pth) as H. rewrite Forall_forall in H.
  unfold erase. cbn [ps_derive]. rewrite (H d Hd).
  apply option_eqb_refl. exact str_eqb_refl.
Qed.

Theorem derive_b_render o e : derive_b o (map erase (render_abs o e)) = true.
Proof. apply derive_b_render_at. Qed.

(* what the oracle keeps of a struct is a projection of what C10_orthogonal keeps *)
Definition proj_bindings (x : str * list (fkind * str * str * wrap * tyname))
  : str * list (str * wrap * tyname) :=
  (fst x, map (fun t => (snd (fst (fst t)), snd (fst t), snd t)) (snd x)).

Lemma erase_bindings_erase (l : list structdef) :
  Oracles.erase_bindings (map erase l) = map proj_bindings (map RenderProofs.erase_bindings l).
Proof.
  unfold Oracles.erase_bindings. rewrite !map_map. apply map_ext. intros d.
  unfold proj_bindings, RenderProofs.erase_bindings, erase. cbn [ps_name ps_fields fst snd].
  rewrite !map_map. reflexivity.
Qed.

Theorem erased_eqb_render o1 o2 e :
  sort o1 = sort o2 ->
  erased_eqb (Oracles.erase_bindings (map erase (render_abs o1 e)))
             (Oracles.erase_bindings (map erase (render_abs o2 e))) = true.
Proof.
  intros H. rewrite !erase_bindings_erase, (render_orthogonal o1 o2 e H).
  apply erased_eqb_refl.
Qed.

(* ====================================================================== *)
(* 3. C09: only_order_b                                                    *)
(* ====================================================================== *)
Lemma Forall2_In_l {A B} (R : A -> B -> Prop) l1 l2 x :
  Forall2 R l1 l2 -> In x l1 -> exists y, In y l2 /\ R x y.
Proof.
  induction 1 as [|a b l1 l2 Hab _ IH]; intros Hx; [destruct Hx|].
  destruct Hx as [->|Hx].
  - exists b. split; [now left|exact Hab].
  - destruct (IH Hx) as [y [Hy Hr]]. exists y. split; [now right|exact Hr].
Qed.

Lemma incl_b_perm (l1 l2 : list field) :
  Permutation l1 l2 ->
  forallb (fun f => existsb (pfield_eqb f) (map Oracles.erase_field l2)) (map Oracles.erase_field l1)
  = true.
Proof.
  intros Hp. apply forallb_forall. intros f Hf. apply existsb_exists.
  exists f. split; [|apply pfield_eqb_refl].
  eapply Permutation_in; [apply Permutation_map, Hp|exact Hf].
Qed.

(* the same fields up to their order *)
Lemma same_fields_perm (l1 l2 : list field) :
  Permutation l1 l2 ->
  same_fields (map Oracles.erase_field l1) (map Oracles.erase_field l2) = true.
Proof.
  intros Hp. unfold same_fields.
  rewrite !map_length, (Permutation_length Hp), Nat.eqb_refl.
  rewrite (incl_b_perm _ _ Hp), (incl_b_perm _ _ (Permutation_sym Hp)). reflexivity.
Qed.

(* the Prop-level relation of C09 implies the oracle *)
Lemma only_order_b_SUO (l1 l2 : list structdef) :
  SameUpToOrder l1 l2 -> only_order_b (map erase l1) (map erase l2) = true.
Proof.
  intros HS. unfold only_order_b.
  rewrite !map_length, (SUO_length _ _ HS), Nat.eqb_refl. cbn [andb].
  destruct HS as (l & Hp & Hf).
  apply forallb_forall. intros p Hp1.
  apply in_map_iff in Hp1. destruct Hp1 as [d [<- Hd]].
  destruct (Forall2_In_l _ _ _ d Hf (Permutation_in _ Hp Hd)) as [d2 [Hd2 (Hde & Hn & Hfs)]].
  apply existsb_exists. exists (erase d2). split; [now apply in_map|].
  unfold erase. cbn [ps_name ps_derive ps_fields].
  rewrite Hn, Hde, str_eqb_refl, (option_eqb_refl str_eqb _ str_eqb_refl).
  cbn [andb]. now apply same_fields_perm.
Qed.

Lemma only_order_b_render_at o1 o2 tbl e pth :
  same_but_sort o1 o2 ->
  only_order_b (map erase (render_abs_at o1 tbl e pth)) (map erase (render_abs_at o2 tbl e pth)) = true.
Proof. intros H. apply only_order_b_SUO. now apply render_at_only_order. Qed.

Theorem only_order_b_render o1 o2 e :
  text_identifier o1 = text_identifier o2 /\ attribute_prefix o1 = attribute_prefix o2
  /\ derive o1 = derive o2 ->
  only_order_b (map erase (render_abs o1 e)) (map erase (render_abs o2 e)) = true.
Proof. intros H. apply only_order_b_SUO. now apply render_only_order. Qed.

(* ====================================================================== *)
(* 4. C14: names_b                                                         *)
(* ====================================================================== *)
(* --- the two copies of the vocabulary are the same --- *)
Lemma count_formatted_same x e : Oracles.count_formatted x e = StructNameProofs.count_formatted x e.
Proof. reflexivity. Qed.

Lemma lastn_same {A} m (l : list A) : Oracles.lastn m l = StructNameProofs.lastn m l.
Proof. reflexivity. Qed.

(* --- the boolean shape tests --- *)
Lemma is_prefix_app a b : is_prefix a (a ++ b) = Some b.
Proof.
  induction a as [|x a IH]; [now destruct b|].
  cbn [app is_prefix]. now rewrite N.eqb_refl.
Qed.

Lemma shape_with_intro m pth sfx :
  forallb a_digit sfx = true ->
  shape_with m pth (List.concat (map to_pascal_case (StructNameProofs.lastn m pth)) ++ sfx) = true.
Proof.
  intros H. unfold shape_with. rewrite lastn_same, is_prefix_app. exact H.
Qed.

Lemma shape_ok_intro m pth sfx :
  (1 <= m <= List.length pth)%nat -> forallb a_digit sfx = true ->
  shape_ok pth (List.concat (map to_pascal_case (StructNameProofs.lastn m pth)) ++ sfx) = true.
Proof.
  intros Hm H. unfold shape_ok. apply existsb_exists. exists m.
  split; [apply in_seq; lia|now apply shape_with_intro].
Qed.

(* --- the oracle's pairing walk, with the recursive call abstracted --- *)
Definition triple := (list str * element * pstruct)%type.

Section PWalk.
  Context (pg : element -> list pstruct -> option (list triple * list pstruct)).
  Fixpoint pwalk (cs : list (nec * element)) (acc : list triple) (ps : list pstruct) {struct cs}
    : option (list triple * list pstruct) :=
    match cs with
    | [] => Some (acc, ps)
    | c :: cs' =>
        if contains_only_text (snd c) then pwalk cs' acc ps
        else match pg (snd c) ps with
             | Some (l, ps') => pwalk cs' (acc ++ l) ps'
             | None => None end
    end.
End PWalk.

Lemma pair_go_unfold e pth p rest :
  pair_go e pth (p :: rest)
  = pwalk (fun x ps => pair_go x (pth ++ [ename e]) ps) (echildren e)
          [(pth ++ [ename e], e, p)] rest.
Proof. destruct e as [n t x k a ch q]. reflexivity. Qed.

(* what is recorded about a (path, node, struct) triple produced below the node `e` rendered
   under the path prefix `pth`: its path is pth ++ q for a struct path q of e, the node carries
   the last name of q, and the struct is named by the table entry read at that path *)
Definition paired (tbl : name_table) (e : element) (pth : path) (t : triple) : Prop :=
  exists q, spath e q /\ fst (fst t) = pth ++ q /\ ename (snd (fst t)) = last q []
            /\ ps_name (snd t) = name_at tbl (pth ++ q).

Definition head_triple (o : options) (tbl : name_table) (e : element) (pth : path) : triple :=
  (pth ++ [ename e], sort_tree_by (order_of o) e, erase (head_struct o tbl e pth)).

Lemma paired_head o tbl e pth : paired tbl e pth (head_triple o tbl e pth).
Proof.
  exists [ename e]. split; [apply sp_here|]. unfold head_triple. cbn [fst snd last].
  split; [reflexivity|]. split; [apply ename_sort_tree_by|reflexivity].
Qed.

Lemma paired_child tbl e pth c t :
  In c (echildren e) -> contains_only_text (snd c) = false ->
  paired tbl (snd c) (pth ++ [ename e]) t -> paired tbl e pth t.
Proof.
  intros Hc Hot (q & Hq & Hp & Hn & Hnm).
  exists (ename e :: q). split; [now apply (sp_child e c q)|].
  rewrite <- app_assoc in Hp, Hnm. cbn [app] in Hp, Hnm.
  split; [exact Hp|]. split; [|exact Hnm].
  rewrite last_cons_nonnil; [exact Hn|]. exact (proj1 (spath_last_count _ _ Hq)).
Qed.

(* the pairing of a node: the oracle consumes exactly the structs rendered for it, the first
   triple is the node's own, and every triple is `paired` *)
Definition pair_at (o : options) (tbl : name_table) (e : element) : Prop :=
  forall pth rest, exists L,
    pair_go (sort_tree_by (order_of o) e) pth (map erase (render_abs_at o tbl e pth) ++ rest)
    = Some (head_triple o tbl e pth :: L, rest)
    /\ Forall (paired tbl e pth) L.

Lemma pwalk_children o tbl path1 (l : list (nec * element)) :
  Forall (fun c => pair_at o tbl (snd c)) l ->
  forall acc rest, exists L,
    pwalk (fun x ps => pair_go x path1 ps) (map (st_child (order_of o)) l) acc
          (map erase (flat_map (child_structs o tbl path1) l) ++ rest) = Some (acc ++ L, rest)
    /\ Forall (fun t => exists c, In c l /\ contains_only_text (snd c) = false
                                  /\ paired tbl (snd c) path1 t) L.
Proof.
  induction 1 as [|c l Hc Hl IH]; intros acc rest.
  - exists []. split; [cbn [map flat_map pwalk app]; now rewrite app_nil_r|constructor].
  - cbn [map flat_map pwalk].
    change (snd (st_child (order_of o) c)) with (sort_tree_by (order_of o) (snd c)).
    rewrite contains_only_text_sort_tree_by.
    destruct (contains_only_text (snd c)) eqn:E.
    + replace (child_structs o tbl path1 c) with (@nil structdef)
        by (unfold child_structs; now rewrite E).
      cbn [app]. destruct (IH acc rest) as [L [HL HF]]. exists L. split; [exact HL|].
      revert HF. apply Forall_impl. intros t (c' & Hin & H1 & H2).
      exists c'. split; [now right|]. split; assumption.
    + replace (child_structs o tbl path1 c) with (render_abs_at o tbl (snd c) path1)
        by (unfold child_structs; now rewrite E).
      rewrite map_app, <- app_assoc.
      destruct (Hc path1 (map erase (flat_map (child_structs o tbl path1) l) ++ rest))
        as [Lc [Hgo HFc]].
      rewrite Hgo.
      destruct (IH (acc ++ head_triple o tbl (snd c) path1 :: Lc) rest) as [L [HL HF]].
      exists ((head_triple o tbl (snd c) path1 :: Lc) ++ L). split.
      * rewrite HL, <- app_assoc. reflexivity.
      * apply Forall_app. split.
        -- assert (HFc' : Forall (paired tbl (snd c) path1) (head_triple o tbl (snd c) path1 :: Lc))
             by (constructor; [apply paired_head|exact HFc]).
           revert HFc'. apply Forall_impl. intros t Ht.
           exists c. split; [now left|]. split; assumption.
        -- revert HF. apply Forall_impl. intros t (c' & Hin & H1 & H2).
           exists c'. split; [now right|]. split; assumption.
Qed.

Lemma pair_go_render o tbl e : pair_at o tbl e.
Proof.
  induction e as [n t x k a ch p IH] using element_ind'. intros pth rest.
  remember (Elem n t x k a ch p) as e eqn:He.
  assert (IH' : Forall (fun c => pair_at o tbl (snd c)) (sorted_children o e)).
  { unfold sorted_children. apply isort_Forall. subst e. exact IH. }
  clear IH He.
  rewrite render_struct_shape. cbn [map app].
  rewrite pair_go_unfold, ename_sort_tree_by, echildren_sorted.
  change (fun c : nec * element =>
            if contains_only_text (snd c) then []
            else render_abs_at o tbl (snd c) (pth ++ [ename e]))
    with (child_structs o tbl (pth ++ [ename e])).
  destruct (pwalk_children o tbl (pth ++ [ename e]) _ IH' [head_triple o tbl e pth] rest)
    as [L [HL HF]].
  exists L. split; [exact HL|].
  revert HF. apply Forall_impl. intros t0 (c & Hin & Hot & Hp).
  apply (paired_child tbl e pth c); [|exact Hot|exact Hp].
  unfold sorted_children in Hin. now apply isort_in in Hin.
Qed.

(* for every name table, path prefix and continuation *)
Theorem render_at_pairs : forall o tbl e pth rest, exists L,
  pair_go (sort_tree_by (order_of o) e) pth (map erase (render_abs_at o tbl e pth) ++ rest)
  = Some (head_triple o tbl e pth :: L, rest)
  /\ Forall (paired tbl e pth) L.
Proof. intros o tbl e pth rest. apply pair_go_render. Qed.

(* --- the table: an entry at every struct path --- *)
Lemma spath_table_get e q :
  spath e q -> exists v, table_get (compute_struct_names e (compute_name_hints e)) q = Some v.
Proof.
  intros Hq.
  destruct (spath_entry (compute_name_hints e) _ _ (spath_sort_tree _ _ Hq) []
                        (reserved_struct_names, [])) as [u Hu].
  apply (table_get_some _ _ u). exact Hu.
Qed.

(* the test that names_b applies to every triple *)
Definition triple_ok (e : element) (t : triple) : bool :=
  let '(pth, nd, p) := t in
  shape_ok pth (ps_name p)
  && ((negb (Oracles.count_formatted (formatted_name nd) e =? 1)%nat) || shape_with 1 pth (ps_name p)).

Lemma paired_ok e t :
  paired (compute_struct_names e (compute_name_hints e)) e [] t -> triple_ok e t = true.
Proof.
  destruct t as [[pth nd] p]. intros (q & Hq & Hp & Hn & Hnm).
  cbn [fst snd app] in Hp, Hn, Hnm. subst pth.
  destruct (spath_table_get e q Hq) as [v Hv].
  unfold name_at in Hnm. rewrite Hv in Hnm.
  pose proof (table_get_in _ _ _ Hv) as Hin.
  unfold triple_ok. rewrite Hnm. apply andb_true_iff. split.
  - destruct (struct_name_shape e q v Hin) as (m & sfx & Hm & -> & Hs).
    apply shape_ok_intro; [exact Hm|now apply struct_name_suffix_digits].
  - destruct (Nat.eqb_spec (Oracles.count_formatted (formatted_name nd) e) 1) as [H1|_];
      [|reflexivity].
    cbn [negb orb]. unfold formatted_name in H1. rewrite Hn, count_formatted_same in H1.
    destruct (struct_name_unqualified e q v Hin H1) as (sfx & -> & Hs).
    pose proof (shape_with_intro 1 q sfx (struct_name_suffix_digits sfx Hs)) as Hw.
    rewrite (lastn_one q []) in Hw by exact (proj1 (spath_last_count _ _ Hq)).
    cbn [map List.concat] in Hw. rewrite app_nil_r in Hw. exact Hw.
Qed.

Lemma names_b_unfold o e ps :
  names_b o e ps
  = match pair_structs o e ps with
    | None => false
    | Some l =>
        forallb (triple_ok e) l
        && match l, ps with
           | (_, _, p) :: _, q :: _ => str_eqb (ps_name p) (ps_name q) && shape_with 1 [ename e] (ps_name q)
           | _, _ => false end
    end.
Proof. reflexivity. Qed.

Theorem names_b_render o e : names_b o e (map erase (render_abs o e)) = true.
Proof.
  rewrite names_b_unfold. unfold pair_structs.
  set (tbl := compute_struct_names e (compute_name_hints e)).
  change (render_abs o e) with (render_abs_at o tbl e []).
  destruct (pair_go_render o tbl e [] []) as [L [Hgo HF]].
  rewrite app_nil_r in Hgo. rewrite Hgo.
  apply andb_true_iff. split.
  - apply forallb_forall. intros t Ht. apply paired_ok. fold tbl.
    destruct Ht as [<-|Ht]; [apply paired_head|].
    rewrite Forall_forall in HF. now apply HF.
  - rewrite render_struct_shape. cbn [map]. unfold head_triple.
    rewrite str_eqb_refl. cbn [andb].
    destruct (struct_name_root_first o e) as (u & sfx & d & rest & Hget & _ & _ & Hu & Hs).
    unfold erase. cbn [ps_name head_struct sd_name app]. unfold struct_name_at. fold tbl in Hget.
    rewrite Hget, Hu.
    pose proof (shape_with_intro 1 [ename e] sfx (struct_name_suffix_digits sfx Hs)) as Hw.
    rewrite lastn_single in Hw by lia. cbn [map List.concat] in Hw. rewrite app_nil_r in Hw.
    exact Hw.
Qed.

(* the pairing itself: one triple per struct, in output order, the root's first *)
Theorem pair_structs_render o e :
  exists L, pair_structs o e (map erase (render_abs o e))
            = Some (head_triple o (compute_struct_names e (compute_name_hints e)) e [] :: L)
            /\ S (List.length L) = List.length (render_abs o e).
Proof.
  unfold pair_structs.
  set (tbl := compute_struct_names e (compute_name_hints e)).
  change (render_abs o e) with (render_abs_at o tbl e []).
  destruct (pair_go_render o tbl e [] []) as [L [Hgo HF]].
  rewrite app_nil_r in Hgo. exists L. rewrite Hgo. split; [reflexivity|].
  (* every struct is consumed once: count them on both sides *)
  clear HF.
  assert (G : forall x pth ps T r, pair_go x pth ps = Some (T, r) ->
                                   List.length ps = (List.length T + List.length r)%nat).
  { clear. induction x as [n t y k a ch p IH] using element_ind'. intros pth ps T r.
    destruct ps as [|p0 rest]; [discriminate|]. rewrite pair_go_unfold. cbn [echildren].
    set (path1 := pth ++ [ename (Elem n t y k a ch p)]). clearbody path1.
    enough (W : forall acc ps T r,
               pwalk (fun x ps => pair_go x path1 ps) ch acc ps = Some (T, r) ->
               (List.length acc + List.length ps = List.length T + List.length r)%nat).
    { intros H. specialize (W _ _ _ _ H). cbn [List.length] in *. unfold triple in *. lia. }
    induction IH as [|c l Hc _ IHl]; intros acc ps T0 r0; cbn [pwalk].
    - intros [= <- <-]. reflexivity.
    - destruct (contains_only_text (snd c)); [apply IHl|].
      destruct (pair_go (snd c) path1 ps) as [[l0 ps']|] eqn:E; [|discriminate].
      intros H. specialize (IHl _ _ _ _ H). specialize (Hc _ _ _ _ E).
      rewrite app_length in IHl. unfold triple in *. lia. }
  specialize (G _ _ _ _ _ Hgo). rewrite map_length in G. cbn [List.length] in G.
  unfold triple in *. lia.
Qed.

(* ====================================================================== *)
(* 5. the tests made by the check are the assumptions above                     *)
(* ====================================================================== *)
(* `or_orthogonal` (Corr/CoreCorr.v) compares every two renderings of a case unless
   `sort_eqb` says their sort options differ; `or_only_order` compares the renderings two by
   two, the harness rendering every option value under (Unsorted, XmlName).  The same loops over
   the model's renderings of a tree `e` under option values `os` (stated on the option values:
   a `doccase` carries 63-bit hashes, i.e. primitive integers) *)
Lemma sort_eqb_eq a b : sort_eqb a b = true -> a = b.
Proof. destruct a, b; simpl; congruence. Qed.

Theorem orthogonal_all_pairs e os :
  forallb (fun o1 =>
     forallb (fun o2 =>
        negb (sort_eqb (sort o1) (sort o2))
        || erased_eqb (Oracles.erase_bindings (map erase (render_abs o1 e)))
                      (Oracles.erase_bindings (map erase (render_abs o2 e)))) os) os = true.
Proof.
  apply forallb_forall. intros o1 _. apply forallb_forall. intros o2 _.
  destruct (sort_eqb (sort o1) (sort o2)) eqn:E; [|reflexivity].
  cbn [negb orb]. apply erased_eqb_render. now apply sort_eqb_eq.
Qed.

Definition set_sort (o : options) (x : sortby) : options :=
  {| text_identifier := text_identifier o; attribute_prefix := attribute_prefix o;
     derive := derive o; sort := x |}.
Definition both_sorts (os : list options) : list options :=
  flat_map (fun o => [set_sort o Unsorted; set_sort o XmlName]) os.

Theorem only_order_all_pairs e os :
  pairs_ok (fun o1 o2 => only_order_b (map erase (render_abs o1 e)) (map erase (render_abs o2 e)))
           (both_sorts os) = true.
Proof.
  unfold both_sorts. induction os as [|o os IH]; [reflexivity|].
  cbn [flat_map app pairs_ok]. rewrite IH, andb_true_r.
  apply only_order_b_render. repeat split.
Qed.

(* ====================================================================== *)
(* 6. examples                                                             *)
(* ====================================================================== *)
Local Open Scope string_scope.
Definition ot_node (n : string) (at_ : list string) (ch : list (nec * element)) (p : nat) : element :=
  Elem (s n) false true 1 (map (fun a => (Mand, s a)) at_) ch (Some p).
Definition ot_leaf (n : string) (p : nat) : element := Elem (s n) true true 1 [] [] (Some p).
(* `name` under two parents and `item` at two depths (qualified names), `foo-bar` / `FooBar`
   siblings (same PascalCase name: numeric suffix), `string` (reserved: suffix), `owner` once
   (unqualified), text, attributes, a text-only child; positions against name order *)
Definition ot_tree : element :=
  Elem (s "shop") true true 1 [(Mand, s "zone"); (Opt, s "area")]
    [ (Mand, ot_node "owner" [] [(Mand, ot_node "name" ["lang"] [] 0)] 3);
      (Mand, ot_node "item" ["id"]
               [ (Opt, ot_node "name" ["lang"] [] 1);
                 (Mand, ot_node "item" ["k"] [(Mand, ot_leaf "note" 0)] 0) ] 0);
      (Opt, ot_node "foo-bar" ["a"] [] 2);
      (Mand, ot_node "FooBar" ["b"] [] 1);
      (Mand, ot_node "string" ["c"] [] 5);
      (Opt, ot_leaf "note" 4) ] None.
Definition ot_sorted : options :=
  {| text_identifier := s "$text"; attribute_prefix := s "@";
     derive := s "Serialize, Deserialize"; sort := XmlName |}.

Example ex_ot_names :
  tree_names_ok ot_tree = true /\
  map sd_name (render_abs quick_xml_de ot_tree)
  = map s ["Shop"; "ShopItem"; "ItemItem"; "ItemName"; "ShopFooBar"; "ShopFooBar1"; "Owner";
           "OwnerName"; "String1"] /\
  map sd_name (render_abs ot_sorted ot_tree)
  = map s ["Shop"; "ShopFooBar"; "ShopFooBar1"; "ShopItem"; "ItemItem"; "ItemName"; "Owner";
           "OwnerName"; "String1"].
Proof. split; [|split]; vm_compute; reflexivity. Qed.

(* the pairing, sorted by name: paths and struct names in output order *)
Example ex_ot_pairing :
  option_map (map (fun t : triple => (fst (fst t), ps_name (snd t))))
             (pair_structs ot_sorted ot_tree (map erase (render_abs ot_sorted ot_tree)))
  = Some [ ([s "shop"], s "Shop"); ([s "shop"; s "FooBar"], s "ShopFooBar");
           ([s "shop"; s "foo-bar"], s "ShopFooBar1"); ([s "shop"; s "item"], s "ShopItem");
           ([s "shop"; s "item"; s "item"], s "ItemItem");
           ([s "shop"; s "item"; s "name"], s "ItemName");
           ([s "shop"; s "owner"], s "Owner"); ([s "shop"; s "owner"; s "name"], s "OwnerName");
           ([s "shop"; s "string"], s "String1") ].
Proof. vm_compute. reflexivity. Qed.

Example ex_ot_oracles :
  names_b quick_xml_de ot_tree (map erase (render_abs quick_xml_de ot_tree)) = true /\
  names_b ot_sorted ot_tree (map erase (render_abs ot_sorted ot_tree)) = true /\
  only_order_b (map erase (render_abs quick_xml_de ot_tree)) (map erase (render_abs ot_sorted ot_tree)) = true /\
  derive_b ot_sorted (map erase (render_abs ot_sorted ot_tree)) = true /\
  erased_eqb (Oracles.erase_bindings (map erase (render_abs quick_xml_de ot_tree)))
             (Oracles.erase_bindings (map erase (render_abs serde_xml_rs ot_tree))) = true.
Proof. repeat split; vm_compute; reflexivity. Qed.

(* --- every assumption that is kept is needed --- *)
(* C10_oracle_orthogonal: `sort o1 = sort o2` *)
Example ex_orthogonal_needs_sort :
  sort quick_xml_de <> sort ot_sorted /\
  erased_eqb (Oracles.erase_bindings (map erase (render_abs quick_xml_de ot_tree)))
             (Oracles.erase_bindings (map erase (render_abs ot_sorted ot_tree))) = false.
Proof. split; [discriminate|vm_compute; reflexivity]. Qed.

(* C09_oracle_only_order: each of the three equalities (the other two holding) *)
Definition opt_text (x : string) : options :=
  {| text_identifier := s x; attribute_prefix := s "@";
     derive := s "Serialize, Deserialize"; sort := XmlName |}.
Definition opt_derive (x : string) : options :=
  {| text_identifier := s "$text"; attribute_prefix := s "@"; derive := s x; sort := XmlName |}.
Definition opt_prefix (x : string) : options :=
  {| text_identifier := s "$text"; attribute_prefix := s x;
     derive := s "Serialize, Deserialize"; sort := XmlName |}.

Example ex_only_order_needs_text :
  only_order_b (map erase (render_abs quick_xml_de ot_tree)) (map erase (render_abs (opt_text "#text") ot_tree)) = false.
Proof. vm_compute. reflexivity. Qed.
Example ex_only_order_needs_prefix :
  only_order_b (map erase (render_abs quick_xml_de ot_tree)) (map erase (render_abs (opt_prefix "") ot_tree)) = false.
Proof. vm_compute. reflexivity. Qed.
Example ex_only_order_needs_derive :
  only_order_b (map erase (render_abs quick_xml_de ot_tree)) (map erase (render_abs (opt_derive "Debug") ot_tree)) = false.
Proof. vm_compute. reflexivity. Qed.

(* C14_oracle_names assumes nothing: neither `Uniq e` nor `tree_names_ok e` is needed.  A tree
   with a repeated attribute, two children `x` under one parent and a name that is no Rust
   identifier: the output is not well-formed Rust (two structs `RX1`), the names still pass *)
Definition ot_dup : element :=
  Elem (s "r") false true 1 [(Mand, s "a"); (Mand, s "a")]
    [ (Mand, ot_node "x" ["p"] [] 0);
      (Mand, ot_node "x" ["q"] [(Mand, ot_node "x" ["z"] [] 0); (Mand, ot_node "1 2" ["z"] [] 1)] 1) ] None.

Example ex_names_without_hypotheses :
  ~ Uniq ot_dup /\ tree_names_ok ot_dup = false /\
  map sd_name (render_abs quick_xml_de ot_dup) = map s ["R"; "RX1"; "RX1"; "RXX"; "12"] /\
  wf_b (map erase (render_abs quick_xml_de ot_dup)) = false /\
  names_b quick_xml_de ot_dup (map erase (render_abs quick_xml_de ot_dup)) = true.
Proof.
  split; [|repeat split; vm_compute; reflexivity].
  intros H. apply Uniq_inv in H. destruct H as [H _]. cbn in H.
  inversion H as [|? ? Hn _]; subst. apply Hn. now left.
Qed.

(* --- the oracles are not vacuous --- *)
Definition rename_struct (old new : string) (ps : list pstruct) : list pstruct :=
  map (fun p => if str_eqb (ps_name p) (s old) then PS (ps_derive p) (s new) (ps_fields p) else p) ps.

Example ex_oracles_reject :
  (* names_b: `owner` occurs once, qualifying it is refused; dropping the qualification of
     `ItemName` is accepted (the oracle asks for a shape, not for the minimal one); a name not
     built from the last components of the path, a suffix that is not a number, the structs in
     another order, a changed root name are refused.
     only_order_b: a renamed struct, a missing struct; derive_b: another derive string *)
  names_b quick_xml_de ot_tree (rename_struct "Owner" "ShopOwner" (map erase (render_abs quick_xml_de ot_tree))) = false /\
  names_b quick_xml_de ot_tree (rename_struct "ItemName" "Name" (map erase (render_abs quick_xml_de ot_tree))) = true /\
  names_b quick_xml_de ot_tree (rename_struct "ItemName" "ShopName" (map erase (render_abs quick_xml_de ot_tree))) = false /\
  names_b quick_xml_de ot_tree (rename_struct "String1" "String_1" (map erase (render_abs quick_xml_de ot_tree))) = false /\
  names_b quick_xml_de ot_tree (map erase (render_abs ot_sorted ot_tree)) = false /\
  names_b quick_xml_de ot_tree (rename_struct "Shop" "Root" (map erase (render_abs quick_xml_de ot_tree))) = false /\
  only_order_b (map erase (render_abs quick_xml_de ot_tree))
               (rename_struct "Owner" "ShopOwner" (map erase (render_abs ot_sorted ot_tree))) = false /\
  only_order_b (map erase (render_abs quick_xml_de ot_tree))
               (removelast (map erase (render_abs ot_sorted ot_tree))) = false /\
  derive_b (opt_derive "Debug") (map erase (render_abs ot_sorted ot_tree)) = false.
Proof. repeat split; vm_compute; reflexivity. Qed.
