(* The boolean oracles of C09, C10 and C14 (`Corr/Oracles.v`: `only_order_b`, `derive_b`,
   `erased_eqb`/`erase_bindings`, `names_b`), which `bin/check` evaluates on the struct
   definitions parsed back from the REAL implementation's output (`or_only_order`, `or_derive`,
   `or_orthogonal`, `or_names` of `Corr/CoreCorr.v`), are proved `= true` of the model's own
   output, for every tree and every option value, from the Prop-level theorems of
   Proofs/RenderProofs.v (C10), Proofs/OrderProofs.v (C09), Proofs/StructNameProofs.v (C14).
   Like Proofs/ReflectProofs.v this file imports Corr (definitions only).
   `bound`, `erase_field`, `erase_bindings` exist both in RenderProofs and in Oracles, `lastn`
   and `count_formatted` both in StructNameProofs and in Oracles: always written qualified. *)
From Coq Require Import String Lia Permutation.
From XSG.Model Require Import Strings Chars Convert Necessity Element Render.
From XSG.Proofs Require Import StringsProofs ElementProofs RenderProofs OrderProofs ReflectProofs
     StructNameProofs.
From XSG.Corr Require Import Common Oracles.
Local Open Scope list_scope.

(* ====================================================================== *)
(* 1. the boolean equalities are reflexive                                 *)
(* ====================================================================== *)
Lemma list_eqb_refl {A} (eqb : A -> A -> bool) (l : list A) :
  (forall x, eqb x x = true) -> list_eqb eqb l l = true.
Proof.
  intros H. induction l as [|x l IH]; [reflexivity|].
  cbn [list_eqb]. now rewrite H, IH.
Qed.

Lemma option_eqb_refl {A} (eqb : A -> A -> bool) (x : option A) :
  (forall a, eqb a a = true) -> option_eqb eqb x x = true.
Proof. intros H. destruct x as [a|]; [apply H|reflexivity]. Qed.

Lemma ty_eqb_refl t : ty_eqb t t = true.
Proof. destruct t as [|n]; [reflexivity|apply str_eqb_refl]. Qed.

Lemma pfield_eqb_refl f : pfield_eqb f f = true.
Proof.
  unfold pfield_eqb.
  now rewrite (option_eqb_refl str_eqb _ str_eqb_refl), str_eqb_refl, wrap_eqb_refl, ty_eqb_refl.
Qed.

Lemma erased_eqb_refl a : erased_eqb a a = true.
Proof.
  unfold erased_eqb. apply list_eqb_refl. intros x.
  rewrite str_eqb_refl. cbn [andb]. apply list_eqb_refl. intros f.
  now rewrite str_eqb_refl, wrap_eqb_refl, ty_eqb_refl.
Qed.

(* ====================================================================== *)
(* 2. C10: derive_b, erased_eqb                                            *)
(* ====================================================================== *)
(* whatever the name table and the path prefix *)
Lemma derive_b_render_at o tbl e pth : derive_b o (map erase (render_abs_at o tbl e pth)) = true.
Proof.
  unfold derive_b. apply forallb_forall. intros p Hp.
  apply in_map_iff in Hp. destruct Hp as [d [<- Hd]].
  pose proof (render_at_derive o tbl e pth) as H. rewrite Forall_forall in H.
  unfold erase. cbn [ps_derive]. rewrite (H d Hd).
  apply option_eqb_refl. exact str_eqb_refl.
Qed.

Theorem derive_b_render o e : derive_b o (map erase (render_abs o e)) = true.
Proof. apply derive_b_render_at. Qed.

(* what the oracle keeps of a struct is a projection of what C10_orthogonal keeps *)
Definition proj_bindings (x : str * list (fkind * str * str * wrap * tyname))
  : str * list (str * wrap * tyname) :=
  (fst x, map (fun t => (snd (fst (fst t)), snd (fst t), snd t)) (snd x)).

Lemma erase_bindings_erase (l : list structdef) :
  Oracles.erase_bindings (map erase l) = map proj_bindings (map RenderProofs.erase_bindings l).
Proof.
  unfold Oracles.erase_bindings. rewrite !map_map. apply map_ext. intros d.
  unfold proj_bindings, RenderProofs.erase_bindings, erase. cbn [ps_name ps_fields fst snd].
  rewrite !map_map. reflexivity.
Qed.

Theorem erased_eqb_render o1 o2 e :
  sort o1 = sort o2 ->
  erased_eqb (Oracles.erase_bindings (map erase (render_abs o1 e)))
             (Oracles.erase_bindings (map erase (render_abs o2 e))) = true.
Proof.
  intros H. rewrite !erase_bindings_erase, (render_orthogonal o1 o2 e H).
  apply erased_eqb_refl.
Qed.

(* ====================================================================== *)
(* 3. C09: only_order_b                                                    *)
(* ====================================================================== *)
Lemma Forall2_In_l {A B} (R : A -> B -> Prop) l1 l2 x :
  Forall2 R l1 l2 -> In x l1 -> exists y, In y l2 /\ R x y.
Proof.
  induction 1 as [|a b l1 l2 Hab _ IH]; intros Hx; [destruct Hx|].
  destruct Hx as [->|Hx].
  - exists b. split; [now left|exact Hab].
  - destruct (IH Hx) as [y [Hy Hr]]. exists y. split; [now right|exact Hr].
Qed.

Lemma incl_b_perm (l1 l2 : list field) :
  Permutation l1 l2 ->
  forallb (fun f => existsb (pfield_eqb f) (map Oracles.erase_field l2)) (map Oracles.erase_field l1)
  = true.
Proof.
  intros Hp. apply forallb_forall. intros f Hf. apply existsb_exists.
  exists f. split; [|apply pfield_eqb_refl].
  eapply Permutation_in; [apply Permutation_map, Hp|exact Hf].
Qed.

(* the same fields up to their order *)
Lemma same_fields_perm (l1 l2 : list field) :
  Permutation l1 l2 ->
  same_fields (map Oracles.erase_field l1) (map Oracles.erase_field l2) = true.
Proof.
  intros Hp. unfold same_fields.
  rewrite !map_length, (Permutation_length Hp), Nat.eqb_refl.
  rewrite (incl_b_perm _ _ Hp), (incl_b_perm _ _ (Permutation_sym Hp)). reflexivity.
Qed.

(* the Prop-level relation of C09 implies the oracle *)
Lemma only_order_b_SUO (l1 l2 : list structdef) :
  SameUpToOrder l1 l2 -> only_order_b (map erase l1) (map erase l2) = true.
Proof.
  intros HS. unfold only_order_b.
  rewrite !map_length, (SUO_length _ _ HS), Nat.eqb_refl. cbn [andb].
  destruct HS as (l & Hp & Hf).
  apply forallb_forall. intros p Hp1.
  apply in_map_iff in Hp1. destruct Hp1 as [d [<- Hd]].
  destruct (Forall2_In_l _ _ _ d Hf (Permutation_in _ Hp Hd)) as [d2 [Hd2 (Hde & Hn & Hfs)]].
  apply existsb_exists. exists (erase d2). split; [now apply in_map|].
  unfold erase. cbn [ps_name ps_derive ps_fields].
  rewrite Hn, Hde, str_eqb_refl, (option_eqb_refl str_eqb _ str_eqb_refl).
  cbn [andb]. now apply same_fields_perm.
Qed.

Lemma only_order_b_render_at o1 o2 tbl e pth :
  same_but_sort o1 o2 ->
  only_order_b (map erase (render_abs_at o1 tbl e pth)) (map erase (render_abs_at o2 tbl e pth)) = true.
Proof. intros H. apply only_order_b_SUO. now apply render_at_only_order. Qed.

Theorem only_order_b_render o1 o2 e :
  text_identifier o1 = text_identifier o2 /\ attribute_prefix o1 = attribute_prefix o2
  /\ derive o1 = derive o2 ->
  only_order_b (map erase (render_abs o1 e)) (map erase (render_abs o2 e)) = true.
Proof. intros H. apply only_order_b_SUO. now apply render_only_order. Qed.
