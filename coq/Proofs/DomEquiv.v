(* The document-level parser (`absorb`, Model/Dom.v) equals the event-level parser
   (`build_struct`, Model/Parser.v, the function tied to the Rust code) on the reader events
   of a document.  No hypothesis on the parent state (in particular no `Uniq`) is needed. *)
From XSG.Model Require Import Strings Necessity Element Parser Dom.
From XSG.Proofs Require Import StringsProofs NecessityProofs ElementProofs SkelProofs.
From Coq Require Import String.
From Coq Require Import List Lia.
Local Open Scope list_scope.

(* ---------- small facts ---------- *)
Lemma attr_keys_ok (a : list str) : attr_keys (map (fun x => AOk (ROk x)) a) = inr a.
Proof.
  induction a as [|x a IH]; [reflexivity|].
  cbn [map attr_keys]. now rewrite IH.
Qed.

Lemma events_of_forest_cons k ks :
  events_of_forest (k :: ks) = events_of k ++ events_of_forest ks.
Proof. reflexivity. Qed.

Lemma events_of_forest_app ks1 ks2 :
  events_of_forest (ks1 ++ ks2) = events_of_forest ks1 ++ events_of_forest ks2.
Proof. unfold events_of_forest. apply flat_map_app. Qed.

Lemma events_of_empty n a ks :
  events_of (NElem n true a ks) = [EEmpty (ROk n) (map (fun x => AOk (ROk x)) a)].
Proof. reflexivity. Qed.

(* ---------- the general (continuation) form ---------- *)
(* reading the events of a node / a forest, then going on with `rest`, is going on with `rest`
   from the state `absorb` computes (element and `known` list) *)
Definition node_ok (k : node) : Prop :=
  forall rest fuel root known,
    (length (events_of k ++ rest) < fuel)%nat ->
    build_struct fuel (events_of k ++ rest) root known
    = build_struct fuel rest (fst (absorb k root known)) (snd (absorb k root known)).

Definition forest_ok (ks : list node) : Prop :=
  forall rest fuel root known,
    (length (events_of_forest ks ++ rest) < fuel)%nat ->
    build_struct fuel (events_of_forest ks ++ rest) root known
    = build_struct fuel rest (fst (absorb_forest ks root known)) (snd (absorb_forest ks root known)).

Lemma forest_ok_of_Forall ks : Forall node_ok ks -> forest_ok ks.
Proof.
  induction 1 as [|k ks Hk Hks IH]; intros rest fuel root known Hlen; [reflexivity|].
  rewrite events_of_forest_cons, <- app_assoc in Hlen |- *.
  rewrite absorb_forest_cons.
  rewrite Hk by exact Hlen.
  apply IH. rewrite app_length in Hlen. lia.
Qed.

Lemma build_struct_node_k : forall k, node_ok k.
Proof.
  induction k as [n ef a ks IH| | |] using node_ind'; intros rest fuel root known Hlen.
  - apply forest_ok_of_Forall in IH.
    destruct fuel as [|f]; [lia|].
    rewrite absorb_elem, tag_open_eq. cbn [fst snd].
    destruct ef.
    + (* <n .../> *)
      rewrite events_of_empty in Hlen |- *. cbn [app length] in Hlen |- *.
      rewrite build_struct_S. unfold tag_step. rewrite attr_keys_ok.
      cbn [absorb_child].
      apply build_struct_fuel; lia.
    + (* <n ...> kids </n> *)
      rewrite events_of_elem in Hlen |- *.
      rewrite <- app_comm_cons, <- app_assoc in Hlen |- *.
      cbn [length] in Hlen.
      rewrite build_struct_S. unfold tag_step. rewrite attr_keys_ok.
      rewrite IH by lia.
      destruct f as [|f']; [lia|].
      rewrite (build_struct_S f' ([EEnd] ++ rest)). cbn [app absorb_child].
      apply build_struct_fuel; rewrite !app_length in Hlen; cbn [length] in Hlen; lia.
  - destruct fuel as [|f]; [lia|]. cbn [events_of app length] in Hlen |- *.
    rewrite build_struct_S. cbn [absorb fst snd]. apply build_struct_fuel; lia.
  - destruct fuel as [|f]; [lia|]. cbn [events_of app length] in Hlen |- *.
    rewrite build_struct_S. cbn [absorb fst snd]. apply build_struct_fuel; lia.
  - destruct fuel as [|f]; [lia|]. cbn [events_of app length] in Hlen |- *.
    rewrite build_struct_S. cbn [absorb fst snd]. apply build_struct_fuel; lia.
Qed.

(* one node, any continuation *)
Theorem build_struct_node : forall k rest fuel root known,
  (length (events_of k ++ rest) < fuel)%nat ->
  build_struct fuel (events_of k ++ rest) root known
  = build_struct fuel rest (fst (absorb k root known)) (snd (absorb k root known)).
Proof. exact build_struct_node_k. Qed.

(* a forest, any continuation (`rest` arbitrary: faulty events, unbalanced tags, anything) *)
Theorem build_struct_forest_k : forall ks rest fuel root known,
  (length (events_of_forest ks ++ rest) < fuel)%nat ->
  build_struct fuel (events_of_forest ks ++ rest) root known
  = build_struct fuel rest (fst (absorb_forest ks root known)) (snd (absorb_forest ks root known)).
Proof.
  intros ks. apply forest_ok_of_Forall. apply Forall_forall. intros k _. apply build_struct_node_k.
Qed.

(* ---------- 1. the statement of the task ---------- *)
Theorem build_struct_forest : forall ks rest fuel root known,
  (length (events_of_forest ks ++ rest) < fuel)%nat ->
  (rest = [] \/ exists r', rest = EEnd :: r') ->
  build_struct fuel (events_of_forest ks ++ rest) root known
  = match rest with
    | [] => Ok (fst (absorb_forest ks root known), [])
    | _ :: r' => Ok (fst (absorb_forest ks root known), r')
    end.
Proof.
  intros ks rest fuel root known Hlen Hrest.
  rewrite build_struct_forest_k by exact Hlen.
  destruct fuel as [|f]; [lia|]. rewrite build_struct_S.
  destruct Hrest as [->|[r' ->]]; reflexivity.
Qed.

(* whole input consumed: the form used by the entry points *)
Corollary build_struct_forest_all ks fuel root known :
  (length (events_of_forest ks) < fuel)%nat ->
  build_struct fuel (events_of_forest ks) root known = Ok (fst (absorb_forest ks root known), []).
Proof.
  intros Hlen.
  pose proof (build_struct_forest ks [] fuel root known) as H.
  rewrite app_nil_r in H. apply H; [exact Hlen|now left].
Qed.

(* ---------- 2. the entry points ---------- *)
Lemma remove_child_head c l : remove_child (c :: l) (ename (snd c)) = (Some c, l).
Proof. cbn [remove_child]. now rewrite str_eqb_refl. Qed.

Lemma take_root_first_child w rest :
  take_root (Ok (w, rest))
  = match first_child w with Some e => Ok e | None => Err NoRootError end.
Proof.
  cbn [take_root]. unfold first_child.
  destruct (echildren w) as [|c l]; [reflexivity|].
  now rewrite remove_child_head.
Qed.

Theorem into_struct_dom_ev : forall top,
  into_struct_ev (events_of_forest top)
  = match into_struct_dom top with Some e => Ok e | None => Err NoRootError end.
Proof.
  intros top. unfold into_struct_ev, into_struct_dom, fuel_for.
  rewrite build_struct_forest_all by lia. apply take_root_first_child.
Qed.

Theorem extend_struct_dom_ev : forall root top,
  extend_struct_ev root (events_of_forest top)
  = match extend_struct_dom root top with Some e => Ok e | None => Err NoRootError end.
Proof.
  intros root top. unfold extend_struct_ev, extend_struct_dom, fuel_for.
  rewrite build_struct_forest_all by lia. apply take_root_first_child.
Qed.

(* ---------- 3. sequences of documents ---------- *)
Definition of_opt (o : option element) : outcome element :=
  match o with Some e => Ok e | None => Err NoRootError end.

Lemma run_fold_ev docs : forall o,
  fold_left (fun acc x => match acc with
                          | Ok e => extend_struct_ev e x
                          | o => o end) (map events_of_forest docs) (of_opt o)
  = of_opt (fold_left (fun acc x => match acc with
                                    | Some e => extend_struct_dom e x
                                    | None => None end) docs o).
Proof.
  induction docs as [|d docs IH]; intros o; [reflexivity|].
  cbn [map fold_left]. destruct o as [e|]; cbn [of_opt].
  - rewrite extend_struct_dom_ev. apply (IH (extend_struct_dom e d)).
  - apply (IH None).
Qed.

Theorem run_dom_ev : forall docs,
  run_evs (map events_of_forest docs)
  = match run_dom docs with Some e => Ok e | None => Err NoRootError end.
Proof.
  intros [|d docs]; [reflexivity|].
  cbn [map run_evs run_dom]. rewrite into_struct_dom_ev.
  apply (run_fold_ev docs (into_struct_dom d)).
Qed.

(* ---------- 4. examples ---------- *)
(* <?xml?><!--c--><a x="" y=""><b/>text<c k=""><b/><![CDATA[..]]></c><!--c--><b z=""></b><c/></a><!--c--> *)
Definition ex_doc : list node :=
  [ NMisc; NMisc;
    NElem (s "a") false [s "x"; s "y"]
      [ NElem (s "b") true [] [];
        NText;
        NElem (s "c") false [s "k"] [NElem (s "b") true [] []; NCData];
        NMisc;
        NElem (s "b") false [s "z"] [];
        NElem (s "c") true [] [] ];
    NMisc ].
(* a second document with the same root, extending the first *)
Definition ex_doc2 : list node :=
  [ NElem (s "a") false [s "y"; s "w"]
      [ NElem (s "c") false [] [NElem (s "d") true [s "q"] []]; NText ] ].

Example ex_events :
  events_of_forest ex_doc =
  [ EMisc; EMisc;
    EStart (ROk (s "a")) [AOk (ROk (s "x")); AOk (ROk (s "y"))];
      EEmpty (ROk (s "b")) [];
      EText (ROk tt);
      EStart (ROk (s "c")) [AOk (ROk (s "k"))];
        EEmpty (ROk (s "b")) []; ECData (ROk tt);
      EEnd;
      EMisc;
      EStart (ROk (s "b")) [AOk (ROk (s "z"))]; EEnd;
      EEmpty (ROk (s "c")) [];
    EEnd;
    EMisc ].
Proof. vm_compute. reflexivity. Qed.

(* both sides evaluated, and the result is a genuine tree (not the None / Err case) *)
Example ex_into_struct :
  into_struct_ev (events_of_forest ex_doc)
  = match into_struct_dom ex_doc with Some e => Ok e | None => Err NoRootError end
  /\ exists e, into_struct_dom ex_doc = Some e /\ ename e = s "a"
               /\ map (fun c => ename (snd c)) (echildren e) = [s "b"; s "c"]
               /\ etext e = true.
Proof.
  split; [vm_compute; reflexivity|].
  eexists. split; [vm_compute; reflexivity|]. vm_compute. auto.
Qed.

Example ex_run :
  run_evs (map events_of_forest [ex_doc; ex_doc2])
  = match run_dom [ex_doc; ex_doc2] with Some e => Ok e | None => Err NoRootError end
  /\ exists e, run_dom [ex_doc; ex_doc2] = Some e /\ ecount e = 2.
Proof.
  split; [vm_compute; reflexivity|].
  eexists. split; vm_compute; reflexivity.
Qed.

(* theorem 1 on a concrete inner forest followed by the closing tag and more events:
   the hypotheses are satisfiable, and what comes back is the tail after the EEnd *)
Example ex_build_struct_forest :
  let ks := [NElem (s "b") true [] []; NText; NElem (s "c") false [s "k"] [NCData]] in
  let rest := [EEnd; EMisc; EStart (ROk (s "z")) []] in
  (length (events_of_forest ks ++ rest) < 20)%nat
  /\ (rest = [] \/ exists r', rest = EEnd :: r')
  /\ build_struct 20 (events_of_forest ks ++ rest) wrapper [s "b"]
     = Ok (fst (absorb_forest ks wrapper [s "b"]), [EMisc; EStart (ROk (s "z")) []]).
Proof.
  cbv zeta. split; [vm_compute; lia|]. split; [right; eexists; reflexivity|].
  vm_compute. reflexivity.
Qed.

(* no root element: both sides report it *)
Example ex_no_root :
  into_struct_ev (events_of_forest [NMisc; NText]) = Err NoRootError
  /\ into_struct_dom [NMisc; NText] = None.
Proof. split; vm_compute; reflexivity. Qed.

(* the side condition on `rest` in theorem 1 is what makes the right-hand side a value:
   with another continuation the general form `build_struct_forest_k` applies instead
   (here the continuation is a reader error, and the result is that error) *)
Example ex_other_rest :
  build_struct 20 (events_of_forest [NText] ++ [EErr 7 3]) wrapper [] = Err (QuickXmlError 7 3).
Proof. vm_compute. reflexivity. Qed.
