(* The document-level parser, unfolded: absorbing an element into a parent with unique
   child names = remove the same-named child, run the per-occurrence step on it
   (occ_child), append the result as Mandatory.  Plus frame lemmas. *)
From XSG.Model Require Import Strings Necessity Element Parser Dom Spec.
From XSG.Proofs Require Import StringsProofs NecessityProofs ElementProofs SpecProofs DemoteProofs ReprDefs.
From Coq Require Import Lia Permutation.

(* what absorbing never changes in the element that absorbs *)
Definition frame (e : element) := (ename e, estandalone e, ecount e, eattrs e, epos e).
Lemma frame_set_children e c : frame (set_children e c) = frame e. Proof. now destruct e. Qed.
Lemma frame_set_text e b : frame (set_text e b) = frame e. Proof. now destruct e. Qed.
Lemma frame_of_shell a b : shell a = shell b -> frame a = frame b.
Proof. unfold shell, frame. intros H. inversion H. reflexivity. Qed.

Lemma inner_go_eq : forall ks r kn,
  (fix go (ks : list node) (r : element) (kn : list str) {struct ks} : element :=
     match ks with
     | [] => r
     | k :: ks' => let (r', kn') := absorb k r kn in go ks' r' kn'
     end) ks r kn = fst (absorb_forest ks r kn).
Proof.
  induction ks as [|k ks IH]; intros r kn; simpl; auto.
  destruct (absorb k r kn) as [r' kn']. apply IH.
Qed.

Definition found_child (root : element) (n : str) := get_child (echildren root) n.
Definition others (root : element) (n : str) := snd (remove_child (echildren root) n).

Definition open_child (root : element) (n : str) (attrs : list str) (known : list str) : element :=
  match found_child root n with
  | Some c =>
      let c1 := merge_attr (snd c) (map (fun a => (Mand, a)) attrs) in
      let c2 := if mem n known then set_multiple c1 else c1 in
      increment c2
  | None =>
      let c1 := new_element n attrs in
      if mem n known then set_multiple c1 else c1
  end.

Lemma tag_open_eq root n attrs known ef :
  tag_open root n attrs known ef
  = ((if ef then ([], true) else snapshot (found_child root n)),
     set_children root (others root n), open_child root n attrs known).
Proof.
  unfold tag_open, open_child, found_child, others.
  pose proof (remove_child_fst (echildren root) n) as F.
  destruct (remove_child (echildren root) n) as [f r]. simpl in *. subst f. reflexivity.
Qed.

Lemma ename_open_child root n attrs known : ename (open_child root n attrs known) = n.
Proof.
  unfold open_child, found_child. destruct (get_child (echildren root) n) as [c|] eqn:G.
  - rewrite ename_increment. destruct (mem n known); rewrite ?ename_set_multiple, ename_merge_attr;
      destruct (get_child_some _ _ _ G) as [_ E]; exact E.
  - destruct (mem n known); rewrite ?ename_set_multiple; reflexivity.
Qed.

Definition demote (cc : list (str * N)) (c : element) : element :=
  fold_left set_child_optional (rev (to_optional c cc)) c.

(* the per-occurrence step on the child, independent of the rest of the parent *)
Definition occ_child (root : element) (n : str) (ef : bool) (attrs : list str) (kids : list node)
           (known : list str) : element :=
  let c0 := open_child root n attrs known in
  let c1 := if ef then c0 else fst (absorb_forest kids c0 []) in
  let c2 := with_pos (set_children root (others root n)) c1 in
  if ef then demote [] c2
  else match found_child root n with
       | Some c => demote (snap_of (echildren (snd c))) c2
       | None => c2
       end.

(* absorbing keeps name, standalone, count, attributes, position of the absorbing element *)
Lemma absorb_frame : forall nd root known, frame (fst (absorb nd root known)) = frame root.
Proof.
  intros nd root known. destruct nd as [n ef attrs kids| | |]; simpl; try apply frame_set_text; auto.
  rewrite tag_open_eq. simpl.
  unfold tag_close. simpl.
  set (child := if ef then _ else _).
  set (snap := if ef then _ else _).
  set (root1 := set_children root (others root n)).
  assert (F2 : frame (add_unique_child root1 child) = frame root).
  { unfold add_unique_child. destruct (get_child (echildren root1) (ename child)).
    - apply frame_set_children.
    - rewrite frame_set_children. apply frame_set_children. }
  destruct (snd snap); auto.
  unfold tag_optional_children. destruct (get_child _ n); auto. now rewrite frame_set_children.
Qed.
Lemma absorb_forest_frame : forall ks r kn, frame (fst (absorb_forest ks r kn)) = frame r.
Proof.
  induction ks as [|k ks IH]; intros r kn; simpl; auto.
  pose proof (absorb_frame k r kn) as F. destruct (absorb k r kn) as [r' kn']. simpl in F.
  rewrite IH. exact F.
Qed.
Lemma frame_ename a b : frame a = frame b -> ename a = ename b.
Proof. unfold frame. intros H; now inversion H. Qed.
Lemma frame_epos a b : frame a = frame b -> epos a = epos b.
Proof. unfold frame. intros H; now inversion H. Qed.
Lemma frame_estandalone a b : frame a = frame b -> estandalone a = estandalone b.
Proof. unfold frame. intros H; now inversion H. Qed.
Lemma frame_ecount a b : frame a = frame b -> ecount a = ecount b.
Proof. unfold frame. intros H; now inversion H. Qed.
Lemma frame_eattrs a b : frame a = frame b -> eattrs a = eattrs b.
Proof. unfold frame. intros H; now inversion H. Qed.

Lemma absorb_known nd root known :
  snd (absorb nd root known) = match nd with NElem n _ _ _ => known_add known n | _ => known end.
Proof.
  destruct nd as [n ef attrs kids| | |]; simpl; auto.
  rewrite tag_open_eq. reflexivity.
Qed.

Lemma absorb_elem_shape root n ef attrs kids known :
  NoDup (child_names (echildren root)) ->
  fst (absorb (NElem n ef attrs kids) root known)
  = set_children root (others root n ++ [(Mand, occ_child root n ef attrs kids known)]).
Proof.
  intros Hnd. simpl. rewrite tag_open_eq. simpl. rewrite inner_go_eq.
  unfold occ_child.
  set (c0 := open_child root n attrs known).
  set (c1 := if ef then c0 else fst (absorb_forest kids c0 [])).
  set (root1 := set_children root (others root n)).
  assert (N1 : ename c1 = n).
  { unfold c1. destruct ef; [apply ename_open_child|].
    rewrite (frame_ename _ _ (absorb_forest_frame kids c0 [])). apply ename_open_child. }
  assert (Hot : ~ In n (child_names (others root n))).
  { unfold others. rewrite remove_child_names. now apply remove_first_notin. }
  assert (A1 : add_unique_child root1 c1 = set_children root (others root n ++ [(Mand, with_pos root1 c1)])).
  { rewrite add_unique_child_fresh.
    - unfold root1. now rewrite echildren_set_children, set_children_twice.
    - unfold root1. rewrite echildren_set_children, N1. now apply get_child_none. }
  assert (TO : forall cc, tag_optional_children (add_unique_child root1 c1) n cc
                          = set_children root (others root n ++ [(Mand, demote cc (with_pos root1 c1))])).
  { intros cc. unfold tag_optional_children. rewrite A1, echildren_set_children.
    rewrite get_child_last; auto.
    2:{ unfold cname. simpl. now rewrite ename_with_pos. }
    rewrite update_first_last; auto.
    2:{ unfold cname. simpl. now rewrite ename_with_pos. }
    simpl. now rewrite set_children_twice. }
  unfold tag_close. destruct ef; simpl.
  - apply TO.
  - unfold found_child. destruct (get_child (echildren root) n) as [c|] eqn:G; simpl.
    + apply TO.
    + exact A1.
Qed.
