(* The document-level parser, unfolded: absorbing an element into a parent with unique
   child names = remove the same-named child, run the per-occurrence step on it
   (occ_child), append the result as Mandatory.  Plus frame lemmas. *)
From XSG.Model Require Import Strings Necessity Element Parser Dom Spec.
From XSG.Proofs Require Import StringsProofs NecessityProofs ElementProofs SpecProofs DemoteProofs SkelProofs ReprDefs.
From Coq Require Import Lia Permutation.

(* what absorbing never changes in the element that absorbs *)
Definition frame (e : element) := (ename e, estandalone e, ecount e, eattrs e, epos e).
Lemma frame_set_children e c : frame (set_children e c) = frame e. Proof. now destruct e. Qed.
Lemma frame_set_text e b : frame (set_text e b) = frame e. Proof. now destruct e. Qed.
Lemma frame_of_shell a b : shell a = shell b -> frame a = frame b.
Proof. unfold shell, frame. intros H. inversion H. reflexivity. Qed.
Lemma frame_ename a b : frame a = frame b -> ename a = ename b.
Proof. unfold frame. intros H; now inversion H. Qed.
Lemma frame_epos a b : frame a = frame b -> epos a = epos b.
Proof. unfold frame. intros H; now inversion H. Qed.
Lemma frame_estandalone a b : frame a = frame b -> estandalone a = estandalone b.
Proof. unfold frame. intros H; now inversion H. Qed.
Lemma frame_ecount a b : frame a = frame b -> ecount a = ecount b.
Proof. unfold frame. intros H; now inversion H. Qed.
Lemma frame_eattrs a b : frame a = frame b -> eattrs a = eattrs b.
Proof. unfold frame. intros H; now inversion H. Qed.

Lemma frame_add_unique_child e c : frame (add_unique_child e c) = frame e.
Proof.
  unfold add_unique_child. destruct (get_child (echildren e) (ename c)); auto.
  apply frame_set_children.
Qed.
Lemma frame_tag_optional_children e n cc : frame (tag_optional_children e n cc) = frame e.
Proof.
  unfold tag_optional_children. destruct (get_child (echildren e) n); auto. apply frame_set_children.
Qed.
Lemma frame_tag_close r n c snap : frame (tag_close r n c snap) = frame r.
Proof.
  unfold tag_close. destruct (snd snap); [rewrite frame_tag_optional_children|];
    apply frame_add_unique_child.
Qed.

(* absorbing keeps name, standalone, count, attributes, position of the absorbing element *)
Lemma absorb_frame nd root known : frame (fst (absorb nd root known)) = frame root.
Proof.
  destruct nd as [n ef attrs kids| | |]; [|apply frame_set_text|apply frame_set_text|reflexivity].
  rewrite absorb_elem, tag_open_eq. cbn [fst snd].
  rewrite frame_tag_close. apply frame_set_children.
Qed.
Lemma absorb_forest_frame : forall ks r kn, frame (fst (absorb_forest ks r kn)) = frame r.
Proof.
  induction ks as [|k ks IH]; intros r kn; [reflexivity|].
  rewrite absorb_forest_cons, IH. apply absorb_frame.
Qed.

(* the text flag: set by character data, never cleared *)
Lemma etext_set_children e c : etext (set_children e c) = etext e. Proof. now destruct e. Qed.
Lemma etext_add_unique_child e c : etext (add_unique_child e c) = etext e.
Proof.
  unfold add_unique_child. destruct (get_child (echildren e) (ename c)); auto.
  apply etext_set_children.
Qed.
Lemma etext_tag_close r n c snap : etext (tag_close r n c snap) = etext r.
Proof.
  unfold tag_close, tag_optional_children. destruct (snd snap).
  - destruct (get_child _ n); [rewrite etext_set_children|]; apply etext_add_unique_child.
  - apply etext_add_unique_child.
Qed.
Lemma absorb_text nd root known :
  etext (fst (absorb nd root known)) = etext root || is_chardata nd.
Proof.
  destruct nd as [n ef attrs kids| | |]; [|cbn [absorb fst is_chardata]..].
  - cbn [is_chardata]. rewrite absorb_elem, tag_open_eq. cbn [fst snd]. rewrite etext_tag_close.
    unfold open_root1. rewrite etext_set_children. now rewrite orb_false_r.
  - destruct root; cbn. now rewrite orb_true_r.
  - destruct root; cbn. now rewrite orb_true_r.
  - now rewrite orb_false_r.
Qed.
Lemma absorb_forest_text : forall ks r kn,
  etext (fst (absorb_forest ks r kn)) = etext r || existsb is_chardata ks.
Proof.
  induction ks as [|k ks IH]; intros r kn; [cbn; now rewrite orb_false_r|].
  rewrite absorb_forest_cons, IH, absorb_text. cbn [existsb]. now rewrite orb_assoc.
Qed.

Lemma absorb_known nd root known :
  snd (absorb nd root known) = match nd with NElem n _ _ _ => known_add known n | _ => known end.
Proof.
  destruct nd as [n ef attrs kids| | |]; auto. now rewrite absorb_elem.
Qed.

Definition demote (cc : list (str * N)) (c : element) : element :=
  fold_left set_child_optional (rev (to_optional c cc)) c.

(* the per-occurrence step on the child, independent of the rest of the parent *)
Definition occ_child (root : element) (n : str) (ef : bool) (attrs : list str) (kids : list node)
           (known : list str) : element :=
  let c1 := absorb_child ef kids (open_c0 root n attrs known) in
  let c2 := with_pos (open_root1 root n) c1 in
  if ef then demote [] c2
  else match get_child (echildren root) n with
       | Some c => demote (snap_of (echildren (snd c))) c2
       | None => c2
       end.

Lemma ename_absorb_child ef kids c0 : ename (absorb_child ef kids c0) = ename c0.
Proof.
  unfold absorb_child. destruct ef; auto. apply frame_ename, absorb_forest_frame.
Qed.

Lemma absorb_elem_shape root n ef attrs kids known :
  NoDup (child_names (echildren root)) ->
  fst (absorb (NElem n ef attrs kids) root known)
  = set_children root (snd (remove_child (echildren root) n)
                       ++ [(Mand, occ_child root n ef attrs kids known)]).
Proof.
  intros Hnd. rewrite absorb_elem, tag_open_eq. cbn [fst snd].
  unfold occ_child.
  set (c1 := absorb_child ef kids (open_c0 root n attrs known)).
  set (root1 := open_root1 root n).
  set (oth := snd (remove_child (echildren root) n)).
  assert (N1 : ename c1 = n).
  { unfold c1. rewrite ename_absorb_child. apply ename_open_c0. }
  assert (Hot : ~ In n (child_names oth)).
  { unfold oth. rewrite remove_child_names. now apply remove_first_notin. }
  assert (E1 : echildren root1 = oth) by (unfold root1, open_root1; apply echildren_set_children).
  assert (A1 : add_unique_child root1 c1 = set_children root (oth ++ [(Mand, with_pos root1 c1)])).
  { rewrite add_unique_child_fresh.
    - rewrite E1. unfold root1, open_root1. now rewrite set_children_twice.
    - rewrite E1, N1. now apply get_child_none. }
  assert (TO : forall cc, tag_optional_children (add_unique_child root1 c1) n cc
                          = set_children root (oth ++ [(Mand, demote cc (with_pos root1 c1))])).
  { intros cc. unfold tag_optional_children. rewrite A1, echildren_set_children.
    rewrite get_child_last; auto.
    2:{ unfold cname. cbn [snd]. now rewrite ename_with_pos. }
    rewrite update_first_last; auto.
    2:{ unfold cname. cbn [snd]. now rewrite ename_with_pos. }
    cbn [fst snd]. now rewrite set_children_twice. }
  unfold tag_close. destruct ef; cbn [fst snd].
  - apply TO.
  - destruct (get_child (echildren root) n) as [c|] eqn:G; cbn [snapshot fst snd].
    + apply TO.
    + exact A1.
Qed.
