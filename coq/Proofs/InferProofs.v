(* C03, final statements: the tree the parser builds from a sequence of documents, children put
   in `position` order, IS the tree `infer` computes from the DOM of the inputs (the oracle the
   differential check applies to the real implementation); and the readable, path-indexed
   reading of that fact (attributes / children / Option / Vec / text at every path).
   Builds on the representation invariant `Repr` (ReprDefs.v) proved for `run_dom` in
   ExactProofs.v (`run_dom_inv`). *)
From Coq Require Import Lia Permutation Sorted.
From XSG.Model Require Import Strings Necessity Element Parser Dom Spec Render.
From XSG.Proofs Require Import StringsProofs NecessityProofs ElementProofs SpecProofs SkelProofs
     ReprDefs ExactProofs RenderProofs NamingProofs DomEquiv.
Local Open Scope list_scope.
Local Open Scope nat_scope.

(* ====================================================================== *)
(* 1. sorted permutations are unique                                       *)
(* ====================================================================== *)
Lemma StronglySorted_impl_in {A} (R R' : A -> A -> Prop) l :
  (forall a b, In a l -> In b l -> R a b -> R' a b) -> StronglySorted R l -> StronglySorted R' l.
Proof.
  intros H S. induction S as [|x l S IH F]; constructor.
  - apply IH. intros a b Ha Hb. apply H; now right.
  - rewrite Forall_forall in F |- *. intros b Hb. apply H; [now left|now right|now apply F].
Qed.

Lemma StronglySorted_map {A B} (R : B -> B -> Prop) (f : A -> B) l :
  StronglySorted (fun a b => R (f a) (f b)) l -> StronglySorted R (map f l).
Proof.
  induction 1 as [|x l S IH F]; cbn [map]; constructor; auto.
  rewrite Forall_forall in F |- *. intros b Hb. apply in_map_iff in Hb.
  destruct Hb as [a [<- Ha]]. now apply F.
Qed.

(* two arrangements of the same items, both ascending for a relation that is antisymmetric
   on these items, are the same list *)
Lemma sorted_perm_unique {A} (R : A -> A -> Prop) (l1 : list A) : forall l2,
  (forall a b, In a l1 -> In b l1 -> R a b -> R b a -> a = b) ->
  Permutation l1 l2 -> StronglySorted R l1 -> StronglySorted R l2 -> l1 = l2.
Proof.
  induction l1 as [|x r1 IH]; intros l2 Anti P S1 S2.
  - apply Permutation_nil in P. now subst.
  - destruct l2 as [|y r2]; [apply Permutation_sym, Permutation_nil in P; discriminate|].
    apply StronglySorted_inv in S1. destruct S1 as [S1 F1].
    apply StronglySorted_inv in S2. destruct S2 as [S2 F2].
    rewrite Forall_forall in F1, F2.
    assert (Hy : In y (x :: r1)) by (eapply Permutation_in; [apply Permutation_sym; exact P|now left]).
    assert (Hx : In x (y :: r2)) by (eapply Permutation_in; [exact P|now left]).
    assert (E : x = y).
    { destruct Hy as [Hy|Hy]; [exact Hy|]. destruct Hx as [Hx|Hx]; [now symmetry|].
      apply Anti; [now left|now right|now apply F1|now apply F2]. }
    subst y. f_equal. apply IH; auto.
    + intros a b Ha Hb. apply Anti; now right.
    + eapply Permutation_cons_inv. exact P.
Qed.

(* ====================================================================== *)
(* 2. index of first appearance                                            *)
(* ====================================================================== *)
Lemma index_of_inj m m' l : In m l -> index_of m l = index_of m' l -> m = m'.
Proof.
  induction l as [|x l IH]; cbn [index_of In]; [tauto|]. intros Hin E.
  destruct (str_eqb_spec x m) as [Hm|Hm], (str_eqb_spec x m') as [Hm'|Hm']; try congruence.
  destruct Hin as [Hin|Hin]; [congruence|]. apply IH; auto.
Qed.

Lemma index_of_cons_other x m l : x <> m -> index_of m (x :: l) = S (index_of m l).
Proof. intros H. cbn [index_of]. destruct (str_eqb_spec x m); [congruence|reflexivity]. Qed.

Lemma index_of_sorted l :
  NoDup l -> StronglySorted (fun a b => index_of a l <= index_of b l) l.
Proof.
  induction l as [|x l IH]; intros Hnd; constructor.
  - inversion Hnd as [|? ? Hx Hl]; subst.
    eapply StronglySorted_impl_in; [|apply IH; exact Hl].
    intros a b Ha Hb Hab. cbn beta in *.
    rewrite !index_of_cons_other by (intros ->; tauto). lia.
  - apply Forall_forall. intros b _. cbn [index_of]. rewrite str_eqb_refl. lia.
Qed.

Lemma index_from_index_of (l : list str) : forall i,
  NoDup l -> index_from i l = map (fun n => (i + index_of n l, n)) l.
Proof.
  induction l as [|x l IH]; intros i Hnd; [reflexivity|].
  inversion Hnd as [|? ? Hx Hl]; subst. cbn [index_from map]. f_equal.
  - cbn [index_of]. rewrite str_eqb_refl. f_equal. lia.
  - rewrite (IH (S i) Hl). apply map_ext_in. intros n Hn.
    rewrite index_of_cons_other by (intros ->; tauto). f_equal. lia.
Qed.

(* ====================================================================== *)
(* 3. sorting by `position` a list whose positions are the indices in L    *)
(* ====================================================================== *)
Definition pos_is_index (L : list str) (c : nec * element) : Prop :=
  epos (snd c) = Some (index_of (cname c) L).

Lemma isort_by_index (ch : list (nec * element)) (L : list str) :
  NoDup L -> Permutation (child_names ch) L -> Forall (pos_is_index L) ch ->
  map cname (isort by_pos ch) = L.
Proof.
  intros HL P F.
  pose proof (isort_perm by_pos ch) as PS.
  pose proof (isort_strongly_sorted by_pos by_pos_total ch by_pos_trans) as SS.
  assert (FS : Forall (pos_is_index L) (isort by_pos ch)) by (eapply Permutation_Forall; eauto).
  assert (PN : Permutation (map cname (isort by_pos ch)) L).
  { eapply perm_trans; [|exact P]. apply Permutation_sym. unfold child_names. now apply Permutation_map. }
  apply (sorted_perm_unique (fun a b => index_of a L <= index_of b L)).
  - intros a b Ha _ H1 H2. apply (index_of_inj a b L); [|lia].
    eapply Permutation_in; [exact PN|exact Ha].
  - exact PN.
  - apply StronglySorted_map.
    eapply StronglySorted_impl_in; [|exact SS].
    rewrite Forall_forall in FS. intros a b Ha Hb. unfold lebR, by_pos.
    rewrite (FS a Ha), (FS b Hb). cbn [pos_leb]. apply Nat.leb_le.
  - now apply index_of_sorted.
Qed.

(* ====================================================================== *)
(* 4. depth of occurrences (the fuel of `infer_kids`)                      *)
(* ====================================================================== *)
Definition dmax (os : list node) : nat := fold_right Nat.max O (map depth os).

Lemma depth_elem n ef a ks : depth (NElem n ef a ks) = S (dmax ks).
Proof.
  cbn [depth]. f_equal. unfold dmax.
  induction ks as [|k ks IH]; [reflexivity|]. cbn [map fold_right]. now rewrite IH.
Qed.

Lemma dmax_le os f : dmax os <= f <-> Forall (fun o => depth o <= f) os.
Proof.
  unfold dmax. induction os as [|o os IH]; cbn [map fold_right].
  - split; [constructor|lia].
  - split.
    + intros H. constructor; [lia|]. apply IH. lia.
    + intros H. inversion H as [|? ? H1 H2]; subst. apply IH in H2. lia.
Qed.

Lemma depth_okids o k : In k (okids o) -> depth k < depth o.
Proof.
  destruct o as [n ef a ks| | |]; cbn [okids In]; try tauto.
  destruct ef; cbn [In]; [tauto|]. intros H. rewrite depth_elem.
  assert (D : dmax ks <= dmax ks) by lia. apply dmax_le in D.
  rewrite Forall_forall in D. apply D in H. lia.
Qed.

Lemma dmax_sub n os f : dmax os <= S f -> dmax (flat_map (kids_named n) os) <= f.
Proof.
  rewrite !dmax_le, !Forall_forall. intros H k Hk.
  apply in_flat_map in Hk. destruct Hk as [o [Ho Hk]].
  unfold kids_named in Hk. apply filter_In in Hk. destruct Hk as [Hk _].
  apply depth_okids in Hk. apply H in Ho. lia.
Qed.

Lemma dmax_zero_names os : dmax os <= 0 -> flat_map okidnames os = [].
Proof.
  rewrite dmax_le. induction 1 as [|o os Ho _ IH]; [reflexivity|].
  cbn [flat_map]. rewrite IH, app_nil_r.
  destruct o as [n ef a ks| | |]; try reflexivity. rewrite depth_elem in Ho. lia.
Qed.

(* ====================================================================== *)
(* 5. Repr e os  ==>  sort_tree e is the inferred element                  *)
(* ====================================================================== *)
(* one entry of `infer_kids (S f) os` *)
Definition mk_kid (f : nat) (os : list node) (p : nat * str) : nec * element :=
  let sub := flat_map (kids_named (snd p)) os in
  (if spec_mand (snd p) os then Mand else Opt,
   Elem (snd p) (existsb has_text sub) (spec_single (snd p) os) (N.of_nat (List.length sub))
        (spec_attrs sub) (infer_kids f sub) (Some (fst p))).

Lemma infer_kids_S f os :
  infer_kids (S f) os = map (mk_kid f os) (index_from 0 (names_of os)).
Proof. cbn [infer_kids]. apply map_ext. intros [i n]. reflexivity. Qed.

Lemma infer_kids_names f os : map cname (infer_kids (S f) os) = names_of os.
Proof.
  rewrite infer_kids_S, map_map.
  rewrite (index_from_index_of (names_of os) 0 (dedup_nodup _)), map_map.
  rewrite <- (map_id (names_of os)) at 2. apply map_ext. reflexivity.
Qed.

Lemma cname_sorted_child (c : nec * element) : cname (fst c, sort_tree (snd c)) = cname c.
Proof. unfold cname. cbn [snd]. apply ename_sort_tree. Qed.
Lemma epos_sort_tree e : epos (sort_tree e) = epos e.
Proof. destruct e. rewrite sort_tree_eq. reflexivity. Qed.

Lemma names_perm ch os :
  NoDup (child_names ch) -> (forall m, In m (child_names ch) <-> In m (flat_map okidnames os)) ->
  Permutation (child_names ch) (names_of os).
Proof.
  intros Hnd Hn. apply NoDup_Permutation; [exact Hnd|apply dedup_nodup|].
  intros x. unfold names_of. rewrite dedup_in. apply Hn.
Qed.

Lemma map_self_key {A B} (g : B -> A) (key : A -> B) l :
  Forall (fun c => c = g (key c)) l -> l = map g (map key l).
Proof. induction 1 as [|c l Hc _ IH]; cbn [map]; [reflexivity|]. now rewrite <- Hc, <- IH. Qed.

Theorem Repr_sort_tree : forall fuel e os,
  Repr e os -> dmax os <= fuel ->
  sort_tree e = Elem (ename e) (existsb has_text os) (estandalone e) (N.of_nat (List.length os))
                     (spec_attrs os) (infer_kids fuel os) (epos e).
Proof.
  induction fuel as [|f IH]; intros e os R D.
  - destruct (Repr_inv _ _ R) as (Rt & Rk & Ra & _ & Hn & _).
    destruct e as [n t x k a ch p]. cbn [etext ecount eattrs echildren ename estandalone epos] in *.
    rewrite sort_tree_eq. subst t k a.
    assert (E : ch = []).
    { destruct ch as [|c ch]; [reflexivity|]. exfalso.
      rewrite (dmax_zero_names os D) in Hn. apply (Hn (cname c)). now left. }
    subst ch. reflexivity.
  - destruct (Repr_inv _ _ R) as (Rt & Rk & Ra & Hnd & Hn & Hf).
    destruct e as [n t x k a ch p]. cbn [etext ecount eattrs echildren ename estandalone epos] in *.
    rewrite sort_tree_eq. subst t k a. f_equal.
    set (h := fun c : nec * element => (fst c, sort_tree (snd c))).
    set (L := names_of os).
    set (g := fun m : str => mk_kid f os (index_of m L, m)).
    (* every sorted child is the inferred entry for its name *)
    assert (G : Forall (fun c => c = g (cname c)) (map h ch)).
    { apply Forall_map. rewrite Forall_forall in Hf |- *. intros c Hc.
      destruct (Hf c Hc) as (T & S & P & Rc).
      unfold h. rewrite cname_sorted_child. unfold g, mk_kid. cbn [fst snd].
      rewrite (IH (snd c) _ Rc (dmax_sub _ _ _ D)). fold (cname c).
      rewrite S, P, T. reflexivity. }
    assert (PI : Forall (pos_is_index L) (map h ch)).
    { apply Forall_map. rewrite Forall_forall in Hf |- *. intros c Hc.
      destruct (Hf c Hc) as (_ & _ & P & _). unfold pos_is_index.
      unfold h. rewrite cname_sorted_child. cbn [snd]. now rewrite epos_sort_tree. }
    assert (PN : Permutation (child_names (map h ch)) L).
    { unfold child_names. rewrite map_map.
      rewrite (map_ext _ cname (fun c => cname_sorted_child c)). now apply names_perm. }
    pose proof (isort_by_index (map h ch) L (dedup_nodup _) PN PI) as EN.
    assert (GS : Forall (fun c => c = g (cname c)) (isort by_pos (map h ch))).
    { eapply Permutation_Forall; [apply isort_perm|exact G]. }
    rewrite (map_self_key g cname _ GS), EN.
    rewrite infer_kids_S. fold L.
    rewrite (index_from_index_of L 0 (dedup_nodup _)), map_map. reflexivity.
Qed.

Corollary Repr_sort_tree_infer e os fuel :
  Repr e os -> dmax os <= fuel -> echildren (sort_tree e) = infer_kids fuel os.
Proof. intros R D. now rewrite (Repr_sort_tree fuel e os R D). Qed.

(* children of the unsorted tree, listed in `position` order: the names in first-appearance order *)
Lemma isort_map_compat {A B} (lebA : A -> A -> bool) (lebB : B -> B -> bool) (h : A -> B) :
  (forall a b, lebB (h a) (h b) = lebA a b) ->
  forall l, isort lebB (map h l) = map h (isort lebA l).
Proof.
  intros H. induction l as [|x l IH]; [reflexivity|].
  cbn [map isort fold_right]. fold (isort lebB (map h l)). fold (isort lebA l). rewrite IH.
  generalize (isort lebA l) as r. induction r as [|y r IHr]; [reflexivity|].
  cbn [map insert]. rewrite H. destruct (lebA x y); cbn [map]; [reflexivity|]. now rewrite IHr.
Qed.

Lemma Repr_children_order e os :
  Repr e os -> map cname (isort by_pos (echildren e)) = names_of os.
Proof.
  intros R. destruct (Repr_inv _ _ R) as (_ & _ & _ & Hnd & Hn & Hf).
  apply isort_by_index; [apply dedup_nodup|now apply names_perm|].
  eapply Forall_impl; [|exact Hf]. intros c (_ & _ & P & _). exact P.
Qed.

(* ====================================================================== *)
(* 6. what `docs_ok` says                                                  *)
(* ====================================================================== *)
Definition is_elem (k : node) : bool := match k with NElem _ _ _ _ => true | _ => false end.

Lemma elem_names_filter d : elem_names (filter is_elem d) = elem_names d.
Proof.
  induction d as [|k d IH]; [reflexivity|].
  destruct k as [n ef a ks| | |]; cbn [filter is_elem]; try exact IH.
  change (elem_names (NElem n ef a ks :: filter is_elem d)) with (n :: elem_names (filter is_elem d)).
  change (elem_names (NElem n ef a ks :: d)) with (n :: elem_names d). now rewrite IH.
Qed.
Lemma named_filter m d : named m (filter is_elem d) = named m d.
Proof.
  unfold named. induction d as [|k d IH]; [reflexivity|].
  destruct k as [n ef a ks| | |]; cbn [filter is_elem is_elem_named]; try exact IH.
  destruct (str_eqb n m); now rewrite IH.
Qed.
Lemma doc_root_filter d : doc_root d = hd_error (filter is_elem d).
Proof.
  unfold doc_root. induction d as [|k d IH]; [reflexivity|].
  destruct k as [n ef a ks| | |]; cbn [find filter is_elem]; try exact IH. reflexivity.
Qed.

Lemma one_root d :
  List.length (filter is_elem d) = 1 ->
  exists n ef a ks, doc_root d = Some (NElem n ef a ks) /\ elem_names d = [n]
                    /\ named n d = [NElem n ef a ks].
Proof.
  intros H. rewrite doc_root_filter, <- elem_names_filter.
  assert (N : forall m, named m d = named m (filter is_elem d)) by (intros; now rewrite named_filter).
  destruct (filter is_elem d) as [|r [|r' l]] eqn:E; try discriminate.
  assert (Hr : is_elem r = true).
  { assert (In r (filter is_elem d)) by (rewrite E; now left). apply filter_In in H0. tauto. }
  destruct r as [n ef a ks| | |]; try discriminate.
  exists n, ef, a, ks. split; [reflexivity|]. split; [reflexivity|].
  rewrite N. unfold named. cbn [filter is_elem_named]. now rewrite str_eqb_refl.
Qed.

Definition same_name (r x : node) : bool :=
  match r, x with NElem a _ _ _, NElem b _ _ _ => str_eqb a b | _, _ => false end.

Lemma docs_ok_eq docs :
  docs_ok docs = forallb (fun d => (List.length (filter is_elem d) =? 1)) docs
                 && match doc_roots docs with [] => false | r :: rs => forallb (same_name r) rs end.
Proof. reflexivity. Qed.

Lemma doc_roots_cons d ds :
  doc_roots (d :: ds) = match doc_root d with Some r => [r] | None => [] end ++ doc_roots ds.
Proof. reflexivity. Qed.

Lemma docs_ok_rest m ef a ks ds :
  forallb (fun d => (List.length (filter is_elem d) =? 1)) ds = true ->
  forallb (same_name (NElem m ef a ks)) (doc_roots ds) = true ->
  Forall (fun p => elem_names p = [m]) ds /\ doc_roots ds = flat_map (named m) ds.
Proof.
  induction ds as [|d ds IH]; intros H1 H2; [split; [constructor|reflexivity]|].
  cbn [forallb] in H1. apply andb_true_iff in H1. destruct H1 as [Hd H1].
  apply Nat.eqb_eq in Hd. destruct (one_root d Hd) as (n & ef' & a' & ks' & R & En & Nn).
  rewrite doc_roots_cons, R in H2 |- *. cbn [app forallb same_name] in H2.
  apply andb_true_iff in H2. destruct H2 as [Hn H2]. apply str_eqb_eq in Hn. subst n.
  destruct (IH H1 H2) as [F E]. split; [constructor; auto|].
  cbn [flat_map app]. now rewrite Nn, E.
Qed.

Theorem docs_ok_inv docs :
  docs_ok docs = true ->
  exists m, docs <> [] /\ Forall (fun p => elem_names p = [m]) docs
            /\ doc_roots docs = flat_map (named m) docs
            /\ exists ef a ks rs, doc_roots docs = NElem m ef a ks :: rs.
Proof.
  rewrite docs_ok_eq. intros H. apply andb_true_iff in H. destruct H as [H1 H2].
  destruct docs as [|d ds]; [discriminate|].
  cbn [forallb] in H1. apply andb_true_iff in H1. destruct H1 as [Hd H1].
  apply Nat.eqb_eq in Hd. destruct (one_root d Hd) as (m & ef & a & ks & R & En & Nn).
  rewrite doc_roots_cons, R in H2 |- *. cbn [app] in H2 |- *.
  destruct (docs_ok_rest m ef a ks ds H1 H2) as [F E].
  exists m. split; [discriminate|]. split; [constructor; auto|]. split.
  - cbn [flat_map]. now rewrite Nn, E.
  - exists ef, a, ks, (doc_roots ds). reflexivity.
Qed.

Lemma infer_eq docs m ef a ks rs :
  doc_roots docs = NElem m ef a ks :: rs ->
  infer docs = Some (Elem m (existsb has_text (doc_roots docs)) true
                          (N.of_nat (List.length (doc_roots docs))) (spec_attrs (doc_roots docs))
                          (infer_kids (S (dmax (doc_roots docs))) (doc_roots docs)) (Some O)).
Proof. intros H. unfold infer. rewrite H. reflexivity. Qed.

(* ====================================================================== *)
(* 7. C03: the parser's tree is the inferred tree                          *)
(* ====================================================================== *)
(* the representation of the root occurrences, with the root's own fields *)
Theorem run_dom_roots docs :
  docs_ok docs = true -> Forall (Forall wf_node) docs ->
  exists e, run_dom docs = Some e /\ Repr e (doc_roots docs) /\ doc_roots docs <> []
            /\ epos e = Some O /\ estandalone e = true
            /\ exists ef a ks rs, doc_roots docs = NElem (ename e) ef a ks :: rs.
Proof.
  intros OK W. destruct (docs_ok_inv docs OK) as (m & Hne & Hm & Er & ef & a & ks & rs & E0).
  destruct (run_dom_inv docs m Hne W Hm) as (e & Hrun & (_ & _ & R & P & S & Nm)).
  exists e. split; [exact Hrun|]. rewrite Er. split; [exact R|]. rewrite <- Er.
  split; [rewrite E0; discriminate|]. split; [exact P|]. split; [exact S|].
  exists ef, a, ks, rs. now rewrite Nm.
Qed.

Theorem C03_exact_dom docs :
  docs_ok docs = true -> Forall (Forall wf_node) docs ->
  exists e, run_dom docs = Some e /\ infer docs = Some (sort_tree e).
Proof.
  intros OK W.
  destruct (run_dom_roots docs OK W) as (e & Hrun & R & _ & P & Sd & ef & a & ks & rs & E0).
  exists e. split; [exact Hrun|]. rewrite (infer_eq docs _ _ _ _ _ E0).
  rewrite (Repr_sort_tree (S (dmax (doc_roots docs))) e _ R) by lia.
  now rewrite P, Sd.
Qed.

(* event level = DOM level *)
Lemma run_evs_run_dom docs e :
  run_evs (map events_of_forest docs) = Ok e <-> run_dom docs = Some e.
Proof.
  rewrite run_dom_ev. destruct (run_dom docs) as [e'|]; split; intros H; try discriminate; congruence.
Qed.

Theorem C03_exact_events docs :
  docs_ok docs = true -> Forall (Forall wf_node) docs ->
  exists e, run_evs (map events_of_forest docs) = Ok e /\ infer docs = Some (sort_tree e).
Proof.
  intros OK W. destruct (C03_exact_dom docs OK W) as (e & Hrun & Hinf).
  exists e. split; [now apply run_evs_run_dom|exact Hinf].
Qed.

(* ====================================================================== *)
(* 8. path-indexed reading                                                 *)
(* ====================================================================== *)
Fixpoint desc (c : nec * element) (path : list str) : option (nec * element) :=
  match path with
  | [] => Some c
  | n :: p => match get_child (echildren (snd c)) n with Some d => desc d p | None => None end
  end.
(* the node at a path below the root (the root itself, conventionally Mandatory, for []) *)
Definition node_at (e : element) (path : list str) : option (nec * element) := desc (Mand, e) path.

Lemma desc_snoc c p n :
  desc c (p ++ [n]) = match desc c p with
                      | Some x => get_child (echildren (snd x)) n
                      | None => None end.
Proof.
  revert c. induction p as [|m p IH]; intros c; cbn [app desc].
  - destruct (get_child (echildren (snd c)) n); reflexivity.
  - destruct (get_child (echildren (snd c)) m); [apply IH|reflexivity].
Qed.
Lemma node_at_snoc e p n :
  node_at e (p ++ [n]) = match node_at e p with
                         | Some x => get_child (echildren (snd x)) n
                         | None => None end.
Proof. apply desc_snoc. Qed.

Lemma occs_snoc p n cur : occs (p ++ [n]) cur = flat_map (kids_named n) (occs p cur).
Proof. revert cur. induction p as [|m p IH]; intros cur; cbn [app occs]; [reflexivity|apply IH]. Qed.
Lemma occs_nil p : occs p [] = [].
Proof. induction p as [|m p IH]; cbn [occs flat_map]; auto. Qed.

Lemma Repr_child e os n c :
  Repr e os -> get_child (echildren e) n = Some c ->
  cname c = n /\ In n (flat_map okidnames os) /\ ChildOK os c.
Proof.
  intros R G. destruct (Repr_inv _ _ R) as (_ & _ & _ & _ & Hn & Hf).
  destruct (get_child_some _ _ _ G) as [Hin Hc]. rewrite Forall_forall in Hf.
  split; [exact Hc|]. split; [|now apply Hf].
  apply Hn. rewrite <- Hc. now apply in_map.
Qed.

Lemma desc_Repr p : forall c os x,
  Repr (snd c) os -> desc c p = Some x -> Repr (snd x) (occs p os).
Proof.
  induction p as [|n p IH]; intros c os x R H; cbn [desc occs] in *.
  - injection H as <-. exact R.
  - destruct (get_child (echildren (snd c)) n) as [d|] eqn:G; [|discriminate].
    destruct (Repr_child _ _ _ _ R G) as (Hc & _ & (_ & _ & _ & Rd)). rewrite Hc in Rd.
    exact (IH d _ x Rd H).
Qed.

Lemma desc_exists p : forall c os,
  Repr (snd c) os -> os <> [] -> (desc c p <> None <-> occs p os <> []).
Proof.
  induction p as [|n p IH]; intros c os R Hne; cbn [desc occs].
  - split; [auto|discriminate].
  - destruct (get_child (echildren (snd c)) n) as [d|] eqn:G.
    + destruct (Repr_child _ _ _ _ R G) as (Hc & Hin & (_ & _ & _ & Rd)). rewrite Hc in Rd.
      apply IH; [exact Rd|now apply flat_named_nonempty].
    + apply get_child_none in G. destruct (Repr_inv _ _ R) as (_ & _ & _ & _ & Hn & _).
      rewrite Hn in G. rewrite (flat_kids_named_absent _ _ G), occs_nil. tauto.
Qed.

(* --- the specification functions as quantified statements --- *)
Lemma spec_mand_iff n os : spec_mand n os = true <-> forall o, In o os -> kids_named n o <> [].
Proof.
  unfold spec_mand. rewrite forallb_forall. split; intros H o Ho; specialize (H o Ho).
  - destruct (kids_named n o); [discriminate|discriminate].
  - destruct (kids_named n o); [congruence|reflexivity].
Qed.
Lemma spec_single_iff n os :
  spec_single n os = true <-> forall o, In o os -> List.length (kids_named n o) <= 1.
Proof.
  unfold spec_single. rewrite forallb_forall. split; intros H o Ho; specialize (H o Ho).
  - now apply Nat.leb_le.
  - now apply Nat.leb_le.
Qed.
Lemma spec_attrs_names os : map snd (spec_attrs os) = dedup (flat_map oattrs os).
Proof. unfold spec_attrs. rewrite map_map. cbn [snd]. apply map_id. Qed.
Lemma spec_attrs_tag os t a :
  In (t, a) (spec_attrs os) -> (t = Mand <-> forall o, In o os -> In a (oattrs o)).
Proof.
  unfold spec_attrs. intros H. apply in_map_iff in H. destruct H as [b [E _]].
  injection E as Et Ea. subst b.
  destruct (forallb (fun o => mem a (oattrs o)) os) eqn:F; subst t.
  - rewrite forallb_forall in F. split; [|reflexivity]. intros _ o Ho. apply mem_spec. now apply F.
  - split; [discriminate|]. intros H. exfalso.
    assert (forallb (fun o => mem a (oattrs o)) os = true); [|congruence].
    apply forallb_forall. intros o Ho. apply mem_spec. now apply H.
Qed.
Lemma spec_attrs_in os a : In a (map snd (spec_attrs os)) <-> exists o, In o os /\ In a (oattrs o).
Proof. rewrite spec_attrs_names, dedup_in, in_flat_map. tauto. Qed.

Section Paths.
  Context (docs : list (list node)) (e : element).
  Context (OK : docs_ok docs = true) (W : Forall (Forall wf_node) docs) (Hrun : run_dom docs = Some e).

  Lemma root_Repr : Repr e (doc_roots docs) /\ doc_roots docs <> [].
  Proof.
    destruct (run_dom_roots docs OK W) as (e' & Hrun' & R & Hne & _).
    assert (e' = e) by congruence. subst e'. auto.
  Qed.

  (* the node at a path has absorbed exactly the occurrences of that path *)
  Theorem C03_node_repr_l p x : node_at e p = Some x -> Repr (snd x) (occs p (doc_roots docs)).
  Proof. intros H. apply (desc_Repr p (Mand, e) _ x); [apply root_Repr|exact H]. Qed.

  Theorem C03_node_exists_l p : node_at e p <> None <-> occs p (doc_roots docs) <> [].
  Proof. apply (desc_exists p (Mand, e)); apply root_Repr. Qed.

  Context (p : list str) (x : nec * element) (Hx : node_at e p = Some x).
  Let os := occs p (doc_roots docs).

  Theorem C03_attrs_exact_l :
    eattrs (snd x) = spec_attrs os
    /\ map snd (eattrs (snd x)) = dedup (flat_map oattrs os)
    /\ (forall t a, In (t, a) (eattrs (snd x)) -> (t = Mand <-> forall o, In o os -> In a (oattrs o))).
  Proof.
    destruct (Repr_inv _ _ (C03_node_repr_l p x Hx)) as (_ & _ & Ra & _). fold os in Ra.
    rewrite Ra. split; [reflexivity|]. split; [apply spec_attrs_names|apply spec_attrs_tag].
  Qed.

  Theorem C03_children_exact_l :
    NoDup (child_names (echildren (snd x)))
    /\ (forall n, get_child (echildren (snd x)) n <> None <-> In n (flat_map okidnames os))
    /\ (forall n, node_at e (p ++ [n]) = get_child (echildren (snd x)) n)
    /\ (forall n c, get_child (echildren (snd x)) n = Some c ->
          ename (snd c) = n /\ Repr (snd c) (occs (p ++ [n]) (doc_roots docs))).
  Proof.
    pose proof (C03_node_repr_l p x Hx) as R. fold os in R.
    destruct (Repr_inv _ _ R) as (_ & _ & _ & Hnd & Hn & _).
    split; [exact Hnd|]. split; [|split].
    - intros n. rewrite <- Hn. pose proof (get_child_none (echildren (snd x)) n) as GN.
      destruct (get_child (echildren (snd x)) n) as [c|] eqn:G.
      + split; [intros _|discriminate]. destruct (get_child_some _ _ _ G) as [Hin Hc].
        rewrite <- Hc. now apply in_map.
      + split; [congruence|]. intros Hin _. now apply (proj1 GN).
    - intros n. now rewrite node_at_snoc, Hx.
    - intros n c G. destruct (Repr_child _ _ _ _ R G) as (Hc & _ & (_ & _ & _ & Rc)).
      split; [exact Hc|]. rewrite occs_snoc. fold os. now rewrite <- Hc.
  Qed.

  Theorem C03_optional_iff_l n c :
    get_child (echildren (snd x)) n = Some c ->
    (fst c = Mand <-> forall o, In o os -> kids_named n o <> []).
  Proof.
    intros G. pose proof (C03_node_repr_l p x Hx) as R. fold os in R.
    destruct (Repr_child _ _ _ _ R G) as (Hc & _ & (T & _)). rewrite Hc in T.
    rewrite T, <- spec_mand_iff. unfold child_tag.
    destruct (spec_mand n os); split; congruence.
  Qed.

  Theorem C03_vec_iff_l n c :
    get_child (echildren (snd x)) n = Some c ->
    (estandalone (snd c) = true <-> forall o, In o os -> List.length (kids_named n o) <= 1).
  Proof.
    intros G. pose proof (C03_node_repr_l p x Hx) as R. fold os in R.
    destruct (Repr_child _ _ _ _ R G) as (Hc & _ & (_ & S & _)). rewrite Hc in S.
    rewrite S. apply spec_single_iff.
  Qed.

  Theorem C03_text_iff_l : etext (snd x) = true <-> exists o, In o os /\ has_text o = true.
  Proof.
    destruct (Repr_inv _ _ (C03_node_repr_l p x Hx)) as (Rt & _). fold os in Rt.
    rewrite Rt. apply existsb_exists.
  Qed.

  Theorem C03_count_exact_l : ecount (snd x) = N.of_nat (List.length os).
  Proof. now destruct (Repr_inv _ _ (C03_node_repr_l p x Hx)) as (_ & Rk & _). Qed.

  (* C09 at document level: first appearance in the supplied documents *)
  Theorem C09_first_appearance_attrs_l : map snd (eattrs (snd x)) = dedup (flat_map oattrs os).
  Proof. apply C03_attrs_exact_l. Qed.

  Theorem C09_first_appearance_children_l :
    map cname (isort by_pos (echildren (snd x))) = dedup (flat_map okidnames os).
  Proof. apply (Repr_children_order (snd x) os). apply (C03_node_repr_l p x Hx). Qed.
End Paths.

(* ====================================================================== *)
(* 9. examples                                                             *)
(* ====================================================================== *)
From Coq Require Import String.
(* <!--c--><r a="" b=""><x/><y>text</y><x k=""/></r><!--c-->   then
   <r b="" c=""><y/><z><w/></z><x/></r>
   children in different orders, `x` repeated, `z` (and attribute a, c, k) optional, text in `y` *)
Definition ex_d1 : list node :=
  [ NMisc;
    NElem (s "r") false [s "a"; s "b"]
      [ NElem (s "x") true [] [];
        NElem (s "y") false [] [NText];
        NElem (s "x") true [s "k"] [] ];
    NMisc ].
Definition ex_d2 : list node :=
  [ NElem (s "r") false [s "b"; s "c"]
      [ NElem (s "y") true [] [];
        NElem (s "z") false [] [NElem (s "w") true [] []];
        NElem (s "x") true [] [] ] ].
Definition ex_docs : list (list node) := [ex_d1; ex_d2].

Example ex_docs_hyps : docs_ok ex_docs = true /\ Forall (Forall wf_node) ex_docs.
Proof.
  split; [vm_compute; reflexivity|].
  unfold ex_docs, ex_d1, ex_d2.
  repeat (constructor; try (vm_compute; intuition discriminate)).
Qed.

(* both sides of C03_exact_dom evaluated; the parser's own child order (y, x, z: `x` was moved
   when it was re-inserted) differs from the position order (x, y, z) the oracle compares with *)
Example ex_exact :
  exists e, run_dom ex_docs = Some e /\ infer ex_docs = Some (sort_tree e)
    /\ map cname (echildren e) = [s "y"; s "x"; s "z"]
    /\ map (fun c => (fst c, cname c, estandalone (snd c), ecount (snd c), etext (snd c)))
           (echildren (sort_tree e))
       = [ (Mand, s "x", false, 3%N, false); (Mand, s "y", true, 2%N, true); (Opt, s "z", true, 1%N, false) ]
    /\ eattrs e = [ (Opt, s "a"); (Mand, s "b"); (Opt, s "c") ].
Proof.
  eexists. split; [vm_compute; reflexivity|]. split; [vm_compute; reflexivity|].
  vm_compute. auto.
Qed.

Example ex_exact_events :
  exists e, run_evs (map events_of_forest ex_docs) = Ok e /\ infer ex_docs = Some (sort_tree e).
Proof. eexists. split; vm_compute; reflexivity. Qed.

(* the path-indexed reading on the example: the node at r/z/w and the occurrences of r/x *)
Example ex_paths :
  exists e, run_dom ex_docs = Some e
    /\ (exists x, node_at e [s "z"; s "w"] = Some x /\ fst x = Mand /\ ecount (snd x) = 1%N)
    /\ occs [s "z"; s "w"] (doc_roots ex_docs) = [NElem (s "w") true [] []]
    /\ List.length (occs [s "x"] (doc_roots ex_docs)) = 3
    /\ node_at e [s "q"] = None /\ occs [s "q"] (doc_roots ex_docs) = [].
Proof.
  eexists. split; [vm_compute; reflexivity|].
  split; [eexists; split; [vm_compute; reflexivity|split; vm_compute; reflexivity]|].
  repeat split; vm_compute; reflexivity.
Qed.

(* `docs_ok` is needed: two documents with different roots — the parser keeps the first root and
   silently drops the second document's root, `infer` refuses *)
Example ex_not_ok :
  let docs := [[NElem (s "r") true [] []]; [NElem (s "q") true [] []]] in
  docs_ok docs = false /\ Forall (Forall wf_node) docs
  /\ (exists e, run_dom docs = Some e /\ ecount e = 1%N)
  /\ infer docs <> Some (match run_dom docs with Some e => sort_tree e | None => wrapper end).
Proof.
  cbv zeta. split; [vm_compute; reflexivity|]. split.
  - repeat (constructor; try (vm_compute; intuition discriminate)).
  - split; [eexists; split; vm_compute; reflexivity|]. vm_compute. discriminate.
Qed.

Example ex_first_appearance :
  docs_ok ex_docs = true /\ Forall (Forall wf_node) ex_docs /\
  exists e, run_dom ex_docs = Some e
    /\ map cname (echildren e) = [s "y"; s "x"; s "z"]
    /\ map cname (isort by_pos (echildren e)) = [s "x"; s "y"; s "z"]
    /\ dedup (flat_map okidnames (doc_roots ex_docs)) = [s "x"; s "y"; s "z"]
    /\ map snd (eattrs e) = [s "a"; s "b"; s "c"].
Proof.
  split; [apply ex_docs_hyps|]. split; [apply ex_docs_hyps|].
  eexists. split; [vm_compute; reflexivity|]. vm_compute. auto.
Qed.
