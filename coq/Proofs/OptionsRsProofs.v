(* The two presets of src/options.rs, translated from the current source (Generated/OptionsRs.v),
   are the presets of the model; and the known finding K1 stated for the translated preset. *)
From XSG.Model Require Import Strings Render Deser.
From XSG.Generated Require Import OptionsRs.
From XSG.Proofs Require Import DeserProofs.
From Coq Require Import String List.
Import ListNotations.

Lemma presets_rs_correct : quick_xml_de_rs = quick_xml_de /\ serde_xml_rs_rs = serde_xml_rs.
Proof. split; reflexivity. Qed.

(* serde-xml-rs delivers character data under `$value`; the preset of the SOURCE binds `$text` *)
Lemma source_text_key_mismatch : text_identifier serde_xml_rs_rs <> fl_text_key sx_flavour.
Proof. destruct presets_rs_correct as [_ E]. rewrite E. exact sx_text_key_mismatch. Qed.

(* the quick-xml preset of the source binds exactly the key quick_xml::de delivers *)
Lemma source_text_key_match : text_identifier quick_xml_de_rs = fl_text_key qx_flavour
                              /\ attribute_prefix quick_xml_de_rs = fl_attr_prefix qx_flavour.
Proof. split; reflexivity. Qed.
