From XSG.Model Require Import Strings.
From Coq Require Import Lia.

Lemma str_eqb_spec (a b : str) : reflect (a = b) (str_eqb a b).
Proof.
  revert b; induction a as [|x a IH]; intros [|y b]; simpl; try (constructor; congruence).
  destruct (N.eqb_spec x y) as [->|ne]; simpl.
  - destruct (IH b) as [->|ne]; constructor; congruence.
  - constructor; congruence.
Qed.

Lemma str_eqb_refl a : str_eqb a a = true.
Proof. destruct (str_eqb_spec a a); congruence. Qed.
Lemma str_eqb_eq a b : str_eqb a b = true <-> a = b.
Proof. destruct (str_eqb_spec a b); split; congruence. Qed.
Lemma str_eqb_neq a b : str_eqb a b = false <-> a <> b.
Proof. destruct (str_eqb_spec a b); split; congruence. Qed.
Lemma str_eqb_sym a b : str_eqb a b = str_eqb b a.
Proof. destruct (str_eqb_spec a b), (str_eqb_spec b a); congruence. Qed.

Lemma mem_spec x l : mem x l = true <-> In x l.
Proof.
  unfold mem. rewrite existsb_exists. split.
  - intros [y [H1 H2]]. apply str_eqb_eq in H2. congruence.
  - intros H. exists x. split; auto. apply str_eqb_refl.
Qed.
Lemma mem_false x l : mem x l = false <-> ~ In x l.
Proof. rewrite <- mem_spec. destruct (mem x l); split; congruence. Qed.
