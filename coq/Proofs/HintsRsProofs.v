(* C14, source level, name hints: running the terms GENERATED from src/element.rs
   (Generated/HintsRs.v: `fill_names_rs`, `minimal_different_lengths_rs`, `compute_name_hints_rs`)
   in the RustHints evaluator (on fuel) computes the model functions `fill_names`,
   `minimal_different_lengths`, `compute_name_hints` of Model/Render.v, for every tree and every
   fuel above a bound linear in the size of the tree (constant for minimal_different_lengths:
   the `for` loops are structural, only nesting consumes fuel). *)
From XSG.Model Require Import Strings Chars Convert Necessity Element Render RustHints.
From XSG.Generated Require Import HintsRs.
From XSG.Proofs Require Import StringsProofs ElementProofs NamingProofs NamesRsProofs.
From Coq Require Import String Lia List.
Import ListNotations.
Open Scope string_scope.
Open Scope list_scope.
Open Scope nat_scope.

Local Notation ev := (eval fill_names_rs minimal_different_lengths_rs).
Local Notation ex := (exec fill_names_rs minimal_different_lengths_rs).

Ltac peelh F := destruct F as [|F]; [exfalso; lia|].
Ltac lkh := cbn [lookup update String.eqb Ascii.eqb Bool.eqb].

(* ====================================================================== *)
(* 0. one-step unfoldings of the evaluator                                 *)
(* ====================================================================== *)

Lemma ex_seq F s1 s2 en :
  ex (S F) (SSeq s1 s2) en =
  match ex F s1 en with Some (en1, None) => ex F s2 en1 | r => r end.
Proof. reflexivity. Qed.
Lemma ex_skip F en : ex (S F) SSkip en = Some (en, None).
Proof. reflexivity. Qed.
Lemma ex_let F x e en :
  ex (S F) (SLet x e) en = match ev F e en with Some v => Some ((x, v) :: en, None) | None => None end.
Proof. reflexivity. Qed.
Lemma ex_pushfront F d e en :
  ex (S F) (SPushFront d e) en =
  match lookup d en, ev F e en with
  | Some (VDeque l), Some (VStr x) =>
      match update d (VDeque (x :: l)) en with Some en1 => Some (en1, None) | None => None end
  | _, _ => None end.
Proof. reflexivity. Qed.
Lemma ex_popfront F d en :
  ex (S F) (SPopFront d) en =
  match lookup d en with
  | Some (VDeque l) => match update d (VDeque (tl l)) en with Some en1 => Some (en1, None) | None => None end
  | _ => None end.
Proof. reflexivity. Qed.
Lemma ex_bucketadd F m k t en :
  ex (S F) (SBucketAdd m k t) en =
  match lookup m en, lookup k en, lookup t en with
  | Some (VBuckets b), Some (VStr kk), Some (VDeque tr) =>
      match update m (VBuckets (bucket_add b kk tr)) en with Some en1 => Some (en1, None) | None => None end
  | _, _, _ => None end.
Proof. reflexivity. Qed.
Lemma ex_pushempty F v en :
  ex (S F) (SPushEmpty v) en =
  match lookup v en with
  | Some (VStrs l) => match update v (VStrs (l ++ [[]])) en with Some en1 => Some (en1, None) | None => None end
  | _ => None end.
Proof. reflexivity. Qed.
Lemma ex_ifreturn F c e en :
  ex (S F) (SIfReturn c e) en =
  match ev F c en with
  | Some (VBool true) => match ev F e en with Some v => Some (en, Some v) | None => None end
  | Some (VBool false) => Some (en, None)
  | _ => None end.
Proof. reflexivity. Qed.
Lemma ex_ifelse F c t f en :
  ex (S F) (SIfElse c t f) en =
  match ev F c en with
  | Some (VBool true) => ex F t en
  | Some (VBool false) => ex F f en
  | _ => None end.
Proof. reflexivity. Qed.
Lemma ex_hintinsert F h k v en :
  ex (S F) (SHintInsert h k v) en =
  match lookup h en, lookup k en, ev F v en with
  | Some (VHints hh), Some (VStr kk), Some (VNat n) =>
      match update h (VHints (hh ++ [(kk, n)])) en with Some en1 => Some (en1, None) | None => None end
  | _, _, _ => None end.
Proof. reflexivity. Qed.
Lemma ex_getdeque F x vs j t f en :
  ex (S F) (SIfLetGetDeque x vs j t f) en =
  match lookup vs en, lookup j en with
  | Some (VDeques l), Some (VNat i) =>
      match nth_error l i with
      | Some d => ex F t ((x, VDeque d) :: en)
      | None => ex F f en end
  | _, _ => None end.
Proof. reflexivity. Qed.
Lemma ex_getitem F x d i t f en :
  ex (S F) (SIfLetGetItem x d i t f) en =
  match lookup d en, lookup i en with
  | Some (VDeque l), Some (VNat k) =>
      match nth_error l k with
      | Some it => ex F t ((x, VStr it) :: en)
      | None => ex F f en end
  | _, _ => None end.
Proof. reflexivity. Qed.
Lemma ex_pushstrat F v j e en :
  ex (S F) (SPushStrAt v j e) en =
  match lookup v en, lookup j en, lookup e en with
  | Some (VStrs l), Some (VNat i), Some (VStr x) =>
      match nth_error l i with
      | Some old => match update v (VStrs (set_nth i l (old ++ x))) en with
                    | Some en1 => Some (en1, None) | None => None end
      | None => None end
  | _, _, _ => None end.
Proof. reflexivity. Qed.

Lemma ev_var F x en : ev (S F) (EVar x) en = lookup x en.
Proof. reflexivity. Qed.
Lemma ev_nat F n en : ev (S F) (ENat n) en = Some (VNat n).
Proof. reflexivity. Qed.
Lemma ev_formatted F x en :
  ev (S F) (EFormattedName x) en =
  match lookup x en with Some (VElem e) => Some (VStr (formatted_name e)) | _ => None end.
Proof. reflexivity. Qed.
Lemma ev_len F x en :
  ev (S F) (ELen x) en =
  match lookup x en with
  | Some (VDeque l) | Some (VStrs l) => Some (VNat (List.length l))
  | Some (VDeques l) => Some (VNat (List.length l))
  | _ => None end.
Proof. reflexivity. Qed.
Lemma ev_minlen F x en :
  ev (S F) (EMinLen x) en =
  match lookup x en with
  | Some (VDeques l) =>
      Some (VNat (fold_right Nat.min (hd 0 (map (@List.length str) l)) (map (@List.length str) l)))
  | _ => None end.
Proof. reflexivity. Qed.
Lemma ev_maxlen F x en :
  ev (S F) (EMaxLen x) en =
  match lookup x en with
  | Some (VDeques l) => Some (VNat (fold_right Nat.max 0 (map (@List.length str) l)))
  | _ => None end.
Proof. reflexivity. Qed.
Lemma ev_distinct F x en :
  ev (S F) (EDistinct x) en =
  match lookup x en with Some (VStrs l) => Some (VNat (distinct_count l)) | _ => None end.
Proof. reflexivity. Qed.
Lemma ev_eqnat F a b en :
  ev (S F) (EEqNat a b) en =
  match ev F a en, ev F b en with
  | Some (VNat x), Some (VNat y) => Some (VBool (Nat.eqb x y))
  | _, _ => None end.
Proof. reflexivity. Qed.
Lemma ev_addone F a en :
  ev (S F) (EAddOne a) en = match ev F a en with Some (VNat x) => Some (VNat (S x)) | _ => None end.
Proof. reflexivity. Qed.

Lemma update_spec x v (en : env) w :
  lookup x en = Some w ->
  exists en', update x v en = Some en' /\ lookup x en' = Some v /\
              forall y, String.eqb x y = false -> lookup y en' = lookup y en.
Proof.
  induction en as [|[y u] en IH]; cbn [lookup update]; [discriminate|].
  destruct (String.eqb y x) eqn:E.
  - intros _. exists ((y, v) :: en). split; [reflexivity|]. cbn [lookup]. rewrite E.
    split; [reflexivity|]. intros z Hz. apply String.eqb_eq in E. subst y. rewrite Hz. reflexivity.
  - intros H. destruct (IH H) as [en' [H1 [H2 H3]]]. rewrite H1.
    exists ((y, u) :: en'). split; [reflexivity|]. cbn [lookup]. rewrite E.
    split; [exact H2|]. intros z Hz. rewrite (H3 z Hz). reflexivity.
Qed.

(* ====================================================================== *)
(* 1. fill_names_rs                                                        *)
(* ====================================================================== *)

Definition CALLC : stmt := SCallFillNames "child" "trace" "names".
Definition N4 : stmt := SSeq (SForChildren "child" "element" CALLC) (SPopFront "trace").
Definition N3 : stmt := SSeq (SBucketAdd "names" "name" "trace") N4.
Definition N2 : stmt := SSeq (SPushFront "trace" (EVar "name")) N3.
Definition NBODY : stmt := SSeq (SLet "name" (EFormattedName "element")) N2.

(* fails as soon as the translated source changes shape *)
Lemma fill_names_shape :
  fill_names_rs = {| fn_params := ["element"; "trace"; "names"]; fn_body := NBODY; fn_result := None |}.
Proof. reflexivity. Qed.

Definition envN (e : element) (t : list str) (b : buckets) : env :=
  [("element", VElem e); ("trace", VDeque t); ("names", VBuckets b)].

Lemma ex_callfill F el tr na en :
  ex (S F) (SCallFillNames el tr na) en =
  match lookup el en, lookup tr en, lookup na en with
  | Some (VElem e), Some (VDeque t), Some (VBuckets b) =>
      match ex F NBODY (envN e t b) with
      | Some (en', None) =>
          match lookup "trace" en', lookup "names" en' with
          | Some t', Some b' =>
              match update tr t' en with
              | Some e1 => match update na b' e1 with Some e2 => Some (e2, None) | None => None end
              | None => None end
          | _, _ => None end
      | _ => None end
  | _, _, _ => None end.
Proof. reflexivity. Qed.

Definition forc (F : nat) (x : string) (body : stmt) : list (nec * element) -> env -> option (env * option val) :=
  fix loop (items : list (nec * element)) (en : env) {struct items} : option (env * option val) :=
    match items with
    | [] => Some (en, None)
    | i :: r => match ex F body ((x, VElem (snd i)) :: en) with
                | Some (en', None) => loop r en'
                | r' => r' end
    end.
Lemma ex_forchildren F x el body en :
  ex (S F) (SForChildren x el body) en =
  match lookup el en with Some (VElem e) => forc F x body (echildren e) en | _ => None end.
Proof. reflexivity. Qed.
Lemma forc_cons F x body i r en :
  forc F x body (i :: r) en =
  match ex F body ((x, VElem (snd i)) :: en) with
  | Some (en', None) => forc F x body r en'
  | r' => r' end.
Proof. reflexivity. Qed.

Definition InvN (en : env) (t : list str) (b : buckets) : Prop :=
  lookup "trace" en = Some (VDeque t) /\ lookup "names" en = Some (VBuckets b).

Lemma InvN_cons en t b y v :
  String.eqb y "trace" = false -> String.eqb y "names" = false ->
  InvN en t b -> InvN ((y, v) :: en) t b.
Proof.
  intros E1 E2 (H1 & H2). unfold InvN. cbn [lookup]. rewrite E1, E2. auto.
Qed.
Lemma InvN_set_trace en t b t' :
  InvN en t b -> exists en', update "trace" (VDeque t') en = Some en' /\ InvN en' t' b.
Proof.
  intros (H1 & H2).
  destruct (update_spec "trace" (VDeque t') en _ H1) as [en' [U [L K]]].
  exists en'. split; [exact U|]. unfold InvN. rewrite (K "names" eq_refl). auto.
Qed.
Lemma InvN_set_names en t b b' :
  InvN en t b -> exists en', update "names" (VBuckets b') en = Some en' /\ InvN en' t b'.
Proof.
  intros (H1 & H2).
  destruct (update_spec "names" (VBuckets b') en _ H2) as [en' [U [L K]]].
  exists en'. split; [exact U|]. unfold InvN. rewrite (K "trace" eq_refl). auto.
Qed.

Definition nbody_ok (e : element) : Prop :=
  forall t b F, 6 * esize e + 4 <= F ->
  exists en', ex F NBODY (envN e t b) = Some (en', None) /\ InvN en' t (fill_names e t b).

Lemma callc_exec (c : nec * element) en t b F :
  nbody_ok (snd c) -> InvN en t b -> 6 * esize (snd c) + 5 <= F ->
  exists en', ex F CALLC (("child", VElem (snd c)) :: en) = Some (en', None) /\
              InvN en' t (fill_names (snd c) t b).
Proof.
  intros Hok HI HF.
  assert (HI1 : InvN (("child", VElem (snd c)) :: en) t b)
    by (apply InvN_cons; try reflexivity; exact HI).
  peelh F. unfold CALLC. rewrite ex_callfill.
  destruct (Hok t b F) as (en' & E & K1 & K2); [lia|].
  destruct (InvN_set_trace _ _ _ t HI1) as [e1 [U1 I1]].
  destruct (InvN_set_names _ _ _ (fill_names (snd c) t b) I1) as [e2 [U2 I2]].
  exists e2. split; [|exact I2].
  destruct HI1 as (L1 & L2). rewrite L1, L2.
  replace (lookup "child" (("child", VElem (snd c)) :: en)) with (Some (VElem (snd c))) by reflexivity.
  rewrite E, K1, K2, U1, U2. reflexivity.
Qed.

Lemma forc_loop t F : forall items : list (nec * element),
  Forall (fun c => nbody_ok (snd c)) items ->
  forall en b, InvN en t b -> 6 * sizes items + 5 <= F ->
  exists en', forc F "child" CALLC items en = Some (en', None) /\
              InvN en' t (fill_names_list t items b).
Proof.
  induction items as [|c items IH]; intros Hall en b HI HF.
  - exists en. split; [reflexivity|exact HI].
  - inversion Hall as [|c' items' Hc Hrest]; subst c' items'.
    assert (Es : sizes (c :: items) = esize (snd c) + sizes items) by reflexivity.
    destruct (callc_exec c en t b F Hc HI) as (en1 & E1 & HI1); [lia|].
    rewrite forc_cons, E1.
    destruct (IH Hrest en1 _ HI1) as (en2 & E2 & HI2); [lia|].
    exists en2. split; [exact E2|exact HI2].
Qed.

Lemma nbody_step e : Forall (fun c => nbody_ok (snd c)) (echildren e) -> nbody_ok e.
Proof.
  intros IH t b F HF.
  rewrite fill_names_eq. rewrite esize_eq in HF.
  set (nm := formatted_name e).
  do 10 peelh F.
  unfold NBODY, envN. rewrite ex_seq, ex_let, ev_formatted. lkh. fold nm.
  unfold N2. rewrite ex_seq, ex_pushfront, ev_var. lkh.
  unfold N3. rewrite ex_seq, ex_bucketadd. lkh.
  unfold N4. rewrite ex_seq, ex_forchildren. lkh.
  match goal with |- context [forc _ _ _ _ ?en0] => set (en_for := en0) end.
  assert (HI0 : InvN en_for (nm :: t) (bucket_add b nm (nm :: t))) by (split; reflexivity).
  destruct (forc_loop (nm :: t) (S (S (S (S (S F))))) (echildren e) IH en_for _ HI0) as (en1 & E1 & HI1); [lia|].
  rewrite E1.
  destruct (InvN_set_trace _ _ _ t HI1) as [en2 [U2 HI2]].
  exists en2. split; [|exact HI2].
  rewrite ex_popfront. destruct HI1 as (L1 & _). rewrite L1. cbn [tl]. rewrite U2. reflexivity.
Qed.

Lemma nbody_all e : nbody_ok e.
Proof. induction e using element_ind'. apply nbody_step. assumption. Qed.

(* a call of fill_names on any element, any trace, any buckets: the trace comes back unchanged,
   the buckets are those of the model *)
Theorem fill_names_rs_correct : forall e t b F,
  6 * esize e + 4 <= F ->
  exists en', ex F (fn_body fill_names_rs) [("element", VElem e); ("trace", VDeque t); ("names", VBuckets b)]
              = Some (en', None) /\
    lookup "trace" en' = Some (VDeque t) /\ lookup "names" en' = Some (VBuckets (fill_names e t b)).
Proof.
  intros e t b F HF. destruct (nbody_all e t b F HF) as (en' & E & L1 & L2).
  exists en'. rewrite fill_names_shape. cbn [fn_body]. auto.
Qed.

(* ====================================================================== *)
(* 2. minimal_different_lengths_rs                                         *)
(* ====================================================================== *)

Definition PUSHAT : stmt := SPushStrAt "buffer" "j" "item".
Definition GETI : stmt := SIfLetGetItem "item" "v" "i" PUSHAT SSkip.
Definition GETD : stmt := SIfLetGetDeque "v" "vecs" "j" GETI SSkip.
Definition FORE : stmt := SForEnumMut "j" "b" "buffer" (ELen "vecs") GETD.
Definition IFRET : stmt := SIfReturn (EEqNat (EDistinct "buffer") (ELen "vecs")) (EAddOne (EVar "i")).
Definition OBODY : stmt := SSeq FORE IFRET.
Definition M3 : stmt := SForRange "i" (EMinLen "vecs") OBODY.
Definition M2 : stmt := SSeq (SForRange "_" (ELen "vecs") (SPushEmpty "buffer")) M3.
Definition MBODY : stmt := SSeq (SLet "buffer" ENewStrs) M2.

(* fails as soon as the translated source changes shape *)
Lemma mdl_shape :
  minimal_different_lengths_rs =
  {| fn_params := ["vecs"]; fn_body := MBODY; fn_result := Some (EMaxLen "vecs") |}.
Proof. reflexivity. Qed.

Lemma ev_callmdl F x en :
  ev (S F) (ECallMdl x) en =
  match lookup x en with
  | Some (VDeques l) =>
      match ex F MBODY [("vecs", VDeques l)] with
      | Some (_, Some r) => Some r
      | Some (en', None) => ev F (EMaxLen "vecs") en'
      | None => None end
  | _ => None end.
Proof. reflexivity. Qed.

(* the counting loops (`for x in 0..n`, `iter_mut().enumerate().take(n)`), named *)
Definition forr (F : nat) (x : string) (body : stmt) : nat -> nat -> env -> option (env * option val) :=
  fix loop (k i : nat) (en : env) {struct k} : option (env * option val) :=
    match k with
    | O => Some (en, None)
    | S k' => match ex F body ((x, VNat i) :: en) with
              | Some (en', None) => loop k' (S i) en'
              | r => r end
    end.
Lemma ex_forrange F x n body en :
  ex (S F) (SForRange x n body) en =
  match ev F n en with Some (VNat k) => forr F x body k 0 en | _ => None end.
Proof. reflexivity. Qed.
Lemma ex_forenum F j b v n body en :
  ex (S F) (SForEnumMut j b v n body) en =
  match lookup v en, ev F n en with
  | Some (VStrs l), Some (VNat k) => forr F j body (Nat.min k (List.length l)) 0 en
  | _, _ => None end.
Proof. reflexivity. Qed.
Lemma forr_S F x body k i en :
  forr F x body (S k) i en =
  match ex F body ((x, VNat i) :: en) with
  | Some (en', None) => forr F x body k (S i) en'
  | r => r end.
Proof. reflexivity. Qed.

Definition InvM (en : env) (buf : list str) (vecs : list (list str)) : Prop :=
  lookup "buffer" en = Some (VStrs buf) /\ lookup "vecs" en = Some (VDeques vecs).
Definition InvC (en : env) (i : nat) (buf : list str) (vecs : list (list str)) : Prop :=
  lookup "i" en = Some (VNat i) /\ InvM en buf vecs.

Lemma InvM_cons en buf vecs y v :
  String.eqb y "buffer" = false -> String.eqb y "vecs" = false ->
  InvM en buf vecs -> InvM ((y, v) :: en) buf vecs.
Proof. intros E1 E2 (H1 & H2). unfold InvM. cbn [lookup]. rewrite E1, E2. auto. Qed.
Lemma InvC_cons en i buf vecs y v :
  String.eqb y "i" = false -> String.eqb y "buffer" = false -> String.eqb y "vecs" = false ->
  InvC en i buf vecs -> InvC ((y, v) :: en) i buf vecs.
Proof.
  intros E0 E1 E2 (H0 & H). split; [cbn [lookup]; rewrite E0; exact H0|].
  apply InvM_cons; assumption.
Qed.
Lemma InvM_set_buffer en buf vecs buf' :
  InvM en buf vecs -> exists en', update "buffer" (VStrs buf') en = Some en' /\ InvM en' buf' vecs.
Proof.
  intros (H1 & H2).
  destruct (update_spec "buffer" (VStrs buf') en _ H1) as [en' [U [L K]]].
  exists en'. split; [exact U|]. unfold InvM. rewrite (K "vecs" eq_refl). auto.
Qed.
Lemma InvC_set_buffer en i buf vecs buf' :
  InvC en i buf vecs -> exists en', update "buffer" (VStrs buf') en = Some en' /\ InvC en' i buf' vecs.
Proof.
  intros (H0 & H1 & H2).
  destruct (update_spec "buffer" (VStrs buf') en _ H1) as [en' [U [L K]]].
  exists en'. split; [exact U|]. unfold InvC, InvM.
  rewrite (K "vecs" eq_refl), (K "i" eq_refl). auto.
Qed.

(* ---------- (a) the first loop: one empty string per trace ---------- *)
Lemma push_loop F vecs : 1 <= F -> forall k i en buf, InvM en buf vecs ->
  exists en', forr F "_" (SPushEmpty "buffer") k i en = Some (en', None) /\
              InvM en' (buf ++ repeat [] k) vecs.
Proof.
  intros HF. peelh F. induction k as [|k IH]; intros i en buf HI.
  - exists en. split; [reflexivity|]. cbn [repeat]. rewrite app_nil_r. exact HI.
  - rewrite forr_S, ex_pushempty.
    assert (HI1 : InvM (("_", VNat i) :: en) buf vecs) by (apply InvM_cons; try reflexivity; exact HI).
    destruct (InvM_set_buffer _ _ _ (buf ++ [[]]) HI1) as [en1 [U1 I1]].
    destruct HI1 as (L1 & _). rewrite L1, U1.
    destruct (IH (S i) en1 _ I1) as (en2 & E2 & I2).
    exists en2. split; [exact E2|]. cbn [repeat].
    rewrite <- app_assoc in I2. exact I2.
Qed.

Lemma repeat_map_nil (vecs : list (list str)) :
  repeat ([] : str) (List.length vecs) = map (fun _ => []) vecs.
Proof. induction vecs as [|v vecs IH]; [reflexivity|]. cbn [List.length repeat map]. now rewrite IH. Qed.

(* ---------- (b) the column step ---------- *)
Definition step_col (i : nat) (vecs : list (list str)) (buf : list str) (j : nat) : list str :=
  set_nth j buf (nth j buf [] ++ nth i (nth j vecs []) []).
Fixpoint col_iter (i : nat) (vecs : list (list str)) (cnt j : nat) (buf : list str) : list str :=
  match cnt with
  | O => buf
  | S c => col_iter i vecs c (S j) (step_col i vecs buf j)
  end.

Lemma set_nth_length j : forall l x, List.length (set_nth j l x) = List.length l.
Proof.
  induction j as [|j IH]; intros [|y l] x; cbn [set_nth List.length]; try reflexivity.
  now rewrite IH.
Qed.
Lemma set_nth_same j : forall l, set_nth j l (nth j l []) = l.
Proof.
  induction j as [|j IH]; intros [|y l]; cbn [set_nth nth]; try reflexivity.
  now rewrite IH.
Qed.
Lemma set_nth_app (pre : list str) : forall y rest x,
  set_nth (List.length pre) (pre ++ y :: rest) x = pre ++ x :: rest.
Proof.
  induction pre as [|p pre IH]; intros y rest x; [reflexivity|].
  cbn [List.length app set_nth]. now rewrite IH.
Qed.
Lemma nth_app_mid {A} (pre : list A) y rest d : nth (List.length pre) (pre ++ y :: rest) d = y.
Proof. induction pre as [|p pre IH]; [reflexivity|]. cbn [List.length app nth]. exact IH. Qed.

Lemma step_col_length i vecs buf j : List.length (step_col i vecs buf j) = List.length buf.
Proof. unfold step_col. apply set_nth_length. Qed.

Lemma col_iter_app i : forall rest vrest pre vpre,
  List.length pre = List.length vpre -> List.length rest = List.length vrest ->
  col_iter i (vpre ++ vrest) (List.length rest) (List.length pre) (pre ++ rest) =
  pre ++ map (fun '(b, v) => b ++ nth i v []) (combine rest vrest).
Proof.
  induction rest as [|b rest IH]; intros vrest pre vpre Hp Hr.
  - reflexivity.
  - destruct vrest as [|v vrest]; [discriminate|].
    cbn [List.length col_iter combine map].
    assert (Es : step_col i (vpre ++ v :: vrest) (pre ++ b :: rest) (List.length pre)
                 = (pre ++ [b ++ nth i v []]) ++ rest).
    { unfold step_col. rewrite nth_app_mid. rewrite Hp at 2. rewrite nth_app_mid.
      rewrite set_nth_app, <- app_assoc. reflexivity. }
    rewrite Es.
    replace (vpre ++ v :: vrest) with ((vpre ++ [v]) ++ vrest) by (rewrite <- app_assoc; reflexivity).
    replace (S (List.length pre)) with (List.length (pre ++ [b ++ nth i v []]))
      by (rewrite app_length; cbn [List.length]; lia).
    rewrite (IH vrest (pre ++ [b ++ nth i v []]) (vpre ++ [v])).
    + rewrite <- app_assoc. reflexivity.
    + rewrite !app_length. cbn [List.length]. lia.
    + cbn [List.length] in Hr. lia.
Qed.

Lemma col_iter_all i vecs buf : List.length buf = List.length vecs ->
  col_iter i vecs (List.length buf) 0 buf = map (fun '(b, v) => b ++ nth i v []) (combine buf vecs).
Proof. intros H. exact (col_iter_app i buf vecs [] [] eq_refl H). Qed.

Lemma pushat_exec F en buf j it old :
  lookup "buffer" en = Some (VStrs buf) -> lookup "j" en = Some (VNat j) ->
  lookup "item" en = Some (VStr it) -> nth_error buf j = Some old ->
  exists en', ex (S F) PUSHAT en = Some (en', None) /\
              lookup "buffer" en' = Some (VStrs (set_nth j buf (old ++ it))) /\
              forall y, String.eqb "buffer" y = false -> lookup y en' = lookup y en.
Proof.
  intros Lb Lj Li En. unfold PUSHAT. rewrite ex_pushstrat, Lb, Lj, Li, En.
  destruct (update_spec "buffer" (VStrs (set_nth j buf (old ++ it))) en _ Lb) as [en' [U [L K]]].
  rewrite U. exists en'. auto.
Qed.

Lemma nth_str (l : list str) n x : nth_error l n = Some x -> @nth str n l [] = x.
Proof. apply nth_error_nth. Qed.
Lemma nth_str_none (l : list str) n : nth_error l n = None -> @nth str n l [] = [].
Proof. intros H. apply nth_overflow, nth_error_None, H. Qed.

(* one turn of `for (j, b) in buffer.iter_mut().enumerate().take(vecs.len())` *)
Lemma getd_step F en i buf vecs j :
  3 <= F -> InvC en i buf vecs -> j < List.length buf ->
  exists en', ex F GETD (("j", VNat j) :: en) = Some (en', None) /\
              InvC en' i (step_col i vecs buf j) vecs.
Proof.
  intros HF HI Hj. do 3 peelh F.
  assert (HI1 : InvC (("j", VNat j) :: en) i buf vecs) by (apply InvC_cons; try reflexivity; exact HI).
  unfold GETD. rewrite ex_getdeque.
  destruct HI1 as (Li & Lb & Lv). rewrite Lv.
  replace (lookup "j" (("j", VNat j) :: en)) with (Some (VNat j)) by reflexivity.
  unfold step_col.
  destruct (nth_error vecs j) as [d|] eqn:Ev.
  - rewrite (nth_error_nth _ _ [] Ev).
    set (en2 := ("v", VDeque d) :: ("j", VNat j) :: en).
    assert (HI2 : InvC en2 i buf vecs).
    { apply InvC_cons; try reflexivity. repeat split; assumption. }
    unfold GETI. rewrite ex_getitem.
    replace (lookup "v" en2) with (Some (VDeque d)) by reflexivity.
    destruct HI2 as (Li2 & Lb2 & Lv2). rewrite Li2.
    destruct (nth_error d i) as [it|] eqn:Ed.
    + rewrite (nth_str _ _ _ Ed).
      destruct (nth_error buf j) as [old|] eqn:Eb; [|apply nth_error_None in Eb; lia].
      rewrite (nth_str _ _ _ Eb).
      destruct (pushat_exec F (("item", VStr it) :: en2) buf j it old) as (en' & E & L & K);
        try reflexivity; try assumption.
      exists en'. split; [exact E|]. unfold InvC, InvM.
      rewrite (K "i" eq_refl), (K "vecs" eq_refl). repeat split; assumption.
    + rewrite (nth_str_none _ _ Ed), app_nil_r, set_nth_same.
      rewrite ex_skip. exists en2. split; [reflexivity|]. repeat split; assumption.
  - apply nth_error_None in Ev. rewrite (nth_overflow _ _ Ev).
    assert (En : forall A (d0 : A) k, nth k [] d0 = d0) by (intros A d0 [|k]; reflexivity).
    rewrite En, app_nil_r, set_nth_same, ex_skip.
    exists (("j", VNat j) :: en). split; [reflexivity|]. repeat split; assumption.
Qed.

Lemma col_loop F i vecs : 3 <= F -> forall cnt j en buf,
  InvC en i buf vecs -> j + cnt <= List.length buf ->
  exists en', forr F "j" GETD cnt j en = Some (en', None) /\
              InvC en' i (col_iter i vecs cnt j buf) vecs.
Proof.
  intros HF. induction cnt as [|cnt IH]; intros j en buf HI Hj.
  - exists en. split; [reflexivity|exact HI].
  - rewrite forr_S.
    destruct (getd_step F en i buf vecs j HF HI) as (en1 & E1 & I1); [lia|].
    rewrite E1.
    destruct (IH (S j) en1 _ I1) as (en2 & E2 & I2); [rewrite step_col_length; lia|].
    exists en2. split; [exact E2|exact I2].
Qed.

(* ---------- (c) the HashSet test ---------- *)
Lemma distinct_count_le l : distinct_count l <= List.length l.
Proof.
  induction l as [|x l IH]; [reflexivity|]. cbn [distinct_count List.length].
  destruct (mem x l); lia.
Qed.
Lemma distinct_count_all_distinct l :
  Nat.eqb (distinct_count l) (List.length l) = all_distinct l.
Proof.
  induction l as [|x l IH]; [reflexivity|]. cbn [distinct_count List.length all_distinct].
  pose proof (distinct_count_le l) as Hle.
  destruct (mem x l); cbn [negb andb].
  - apply Nat.eqb_neq. lia.
  - cbn [Nat.eqb]. exact IH.
Qed.
Lemma distinct_count_iff l : distinct_count l = List.length l <-> all_distinct l = true.
Proof. rewrite <- distinct_count_all_distinct. symmetry. apply Nat.eqb_eq. Qed.

Definition col_step (i : nat) (vecs : list (list str)) (buf : list str) : list str :=
  map (fun '(b, v) => b ++ nth i v []) (combine buf vecs).
Lemma col_step_length i vecs buf :
  List.length buf = List.length vecs -> List.length (col_step i vecs buf) = List.length vecs.
Proof. intros H. unfold col_step. rewrite map_length, combine_length. lia. Qed.

(* the body of `for i in 0..min_len` *)
Lemma obody_exec F en i buf vecs :
  6 <= F -> InvM en buf vecs -> List.length buf = List.length vecs ->
  exists en', ex F OBODY (("i", VNat i) :: en)
              = Some (en', if all_distinct (col_step i vecs buf) then Some (VNat (S i)) else None) /\
              InvM en' (col_step i vecs buf) vecs.
Proof.
  intros HF HI HL. do 3 peelh F.
  assert (HC : InvC (("i", VNat i) :: en) i buf vecs).
  { split; [reflexivity|]. apply InvM_cons; try reflexivity. exact HI. }
  unfold OBODY. rewrite ex_seq. unfold FORE. rewrite ex_forenum.
  pose proof HC as (_ & Lb & Lv). rewrite Lb.
  rewrite ev_len, Lv.
  replace (Nat.min (List.length vecs) (List.length buf)) with (List.length buf) by lia.
  destruct (col_loop (S F) i vecs ltac:(lia) (List.length buf) 0 _ buf HC) as (en1 & E1 & I1); [lia|].
  rewrite E1. rewrite col_iter_all in I1 by exact HL. fold (col_step i vecs buf) in I1.
  destruct I1 as (Li1 & Lb1 & Lv1).
  unfold IFRET. rewrite ex_ifreturn, ev_eqnat.
  peelh F. rewrite ev_distinct, ev_len, Lb1, Lv1.
  rewrite <- (col_step_length i vecs buf HL), distinct_count_all_distinct.
  exists en1. split; [|split; assumption].
  destruct (all_distinct (col_step i vecs buf)); [|reflexivity].
  rewrite ev_addone, ev_var, Li1. reflexivity.
Qed.

(* ---------- (d) the outer loop against mdl_loop ---------- *)
Lemma outer_loop F vecs maxlen : 6 <= F -> forall k i en buf,
  InvM en buf vecs -> List.length buf = List.length vecs ->
  exists en' o, forr F "i" OBODY k i en = Some (en', o) /\
    lookup "vecs" en' = Some (VDeques vecs) /\
    match o with
    | Some v => v = VNat (mdl_loop k i vecs buf maxlen)
    | None => mdl_loop k i vecs buf maxlen = maxlen
    end.
Proof.
  intros HF. induction k as [|k IH]; intros i en buf HI HL.
  - exists en, None. split; [reflexivity|]. split; [apply HI|reflexivity].
  - rewrite forr_S. cbn [mdl_loop]. fold (col_step i vecs buf).
    destruct (obody_exec F en i buf vecs HF HI HL) as (en1 & E1 & I1). rewrite E1.
    destruct (all_distinct (col_step i vecs buf)).
    + exists en1, (Some (VNat (S i))). split; [reflexivity|]. split; [apply I1|reflexivity].
    + apply (IH (S i) en1 _ I1). now apply col_step_length.
Qed.

Lemma mbody_exec F vecs : 9 <= F ->
  exists en' o, ex F MBODY [("vecs", VDeques vecs)] = Some (en', o) /\
    lookup "vecs" en' = Some (VDeques vecs) /\
    match o with
    | Some v => v = VNat (minimal_different_lengths vecs)
    | None => minimal_different_lengths vecs = fold_right Nat.max 0 (map (@List.length str) vecs)
    end.
Proof.
  intros HF. do 4 peelh F.
  unfold MBODY. rewrite ex_seq, ex_let.
  replace (ev (S (S F)) ENewStrs [("vecs", VDeques vecs)]) with (Some (VStrs [])) by reflexivity.
  unfold M2. rewrite ex_seq, ex_forrange, ev_len. lkh.
  assert (HI0 : InvM [("buffer", VStrs []); ("vecs", VDeques vecs)] [] vecs) by (split; reflexivity).
  destruct (push_loop (S F) vecs ltac:(lia) (List.length vecs) 0 _ _ HI0) as (en1 & E1 & I1).
  rewrite E1. cbn [app] in I1. rewrite repeat_map_nil in I1.
  unfold M3. rewrite ex_forrange, ev_minlen.
  pose proof I1 as (_ & Lv). rewrite Lv.
  unfold minimal_different_lengths. cbv zeta.
  apply (outer_loop (S F) vecs _ ltac:(lia) _ 0 en1 _ I1).
  now rewrite map_length.
Qed.

Definition fuel_mdl (vecs : list (list str)) : nat := 12.

Lemma ev_call_mdl F x en vecs :
  lookup x en = Some (VDeques vecs) -> 11 <= F ->
  ev F (ECallMdl x) en = Some (VNat (minimal_different_lengths vecs)).
Proof.
  intros Lx HF. peelh F. rewrite ev_callmdl, Lx.
  destruct (mbody_exec F vecs ltac:(lia)) as (en' & o & E & Lv & Ho). rewrite E.
  destruct o as [v|]; [now subst v|].
  peelh F. rewrite ev_maxlen, Lv, Ho. reflexivity.
Qed.

Theorem mdl_rs_correct : forall vecs fuel, fuel_mdl vecs <= fuel ->
  ev fuel (ECallMdl "x") [("x", VDeques vecs)] = Some (VNat (minimal_different_lengths vecs)).
Proof.
  intros vecs fuel H. unfold fuel_mdl in H. apply ev_call_mdl; [reflexivity|lia].
Qed.

(* ====================================================================== *)
(* 3. compute_name_hints_rs                                                *)
(* ====================================================================== *)

Definition HBODY : stmt :=
  SIfElse (EEqNat (ELen "traces") (ENat 1))
          (SHintInsert "trace_length" "name" (ENat 1))
          (SHintInsert "trace_length" "name" (ECallMdl "traces")).
Definition H4 : stmt :=
  SSeq (SLet "trace_length" ENewHints) (SForBuckets "name" "traces" "names" HBODY).
Definition H3 : stmt := SSeq (SCallFillNames "self" "trace" "names") H4.
Definition H2 : stmt := SSeq (SLet "names" ENewBuckets) H3.
Definition HCBODY : stmt := SSeq (SLet "trace" ENewDeque) H2.

(* fails as soon as the translated source changes shape *)
Lemma compute_hints_shape :
  compute_name_hints_rs =
  {| fn_params := ["self"]; fn_body := HCBODY; fn_result := Some (EVar "trace_length") |}.
Proof. reflexivity. Qed.

Definition forb (F : nat) (k t : string) (body : stmt) : buckets -> env -> option (env * option val) :=
  fix loop (items : buckets) (en : env) {struct items} : option (env * option val) :=
    match items with
    | [] => Some (en, None)
    | i :: r => match ex F body ((k, VStr (fst i)) :: (t, VDeques (snd i)) :: en) with
                | Some (en', None) => loop r en'
                | r' => r' end
    end.
Lemma ex_forbuckets F k t m body en :
  ex (S F) (SForBuckets k t m body) en =
  match lookup m en with Some (VBuckets b) => forb F k t body b en | _ => None end.
Proof. reflexivity. Qed.
Lemma forb_cons F k t body i r en :
  forb F k t body (i :: r) en =
  match ex F body ((k, VStr (fst i)) :: (t, VDeques (snd i)) :: en) with
  | Some (en', None) => forb F k t body r en'
  | r' => r' end.
Proof. reflexivity. Qed.

Definition hint_of (trs : list (list str)) : nat :=
  match trs with [_] => 1 | _ => minimal_different_lengths trs end.
Lemma hints_of_buckets_cons k trs r :
  hints_of_buckets ((k, trs) :: r) = (k, hint_of trs) :: hints_of_buckets r.
Proof. reflexivity. Qed.

Lemma hintinsert_exec F en acc k v n :
  lookup "trace_length" en = Some (VHints acc) -> lookup "name" en = Some (VStr k) ->
  ev F v en = Some (VNat n) ->
  exists en', ex (S F) (SHintInsert "trace_length" "name" v) en = Some (en', None) /\
              lookup "trace_length" en' = Some (VHints (acc ++ [(k, n)])).
Proof.
  intros Lh Ln Ev. rewrite ex_hintinsert, Lh, Ln, Ev.
  destruct (update_spec "trace_length" (VHints (acc ++ [(k, n)])) en _ Lh) as [en' [U [L K]]].
  rewrite U. exists en'. auto.
Qed.

(* one turn of `for (name, traces) in names.iter()` *)
Lemma hbody_exec F en acc k trs :
  13 <= F -> lookup "trace_length" en = Some (VHints acc) ->
  exists en', ex F HBODY (("name", VStr k) :: ("traces", VDeques trs) :: en) = Some (en', None) /\
              lookup "trace_length" en' = Some (VHints (acc ++ [(k, hint_of trs)])).
Proof.
  intros HF Lh. do 3 peelh F.
  set (en0 := ("name", VStr k) :: ("traces", VDeques trs) :: en).
  assert (L0 : lookup "trace_length" en0 = Some (VHints acc)) by exact Lh.
  assert (L1 : lookup "name" en0 = Some (VStr k)) by reflexivity.
  assert (L2 : lookup "traces" en0 = Some (VDeques trs)) by reflexivity.
  unfold HBODY. rewrite ex_ifelse, ev_eqnat, ev_len, ev_nat, L2.
  assert (Em : ev (S F) (ECallMdl "traces") en0 = Some (VNat (minimal_different_lengths trs)))
    by (apply ev_call_mdl; [exact L2|lia]).
  destruct trs as [|a [|b r]]; cbn [List.length Nat.eqb hint_of].
  - apply hintinsert_exec; assumption.
  - apply hintinsert_exec; try assumption. apply ev_nat.
  - apply hintinsert_exec; assumption.
Qed.

Lemma forb_loop F : 13 <= F -> forall items en acc,
  lookup "trace_length" en = Some (VHints acc) ->
  exists en', forb F "name" "traces" HBODY items en = Some (en', None) /\
              lookup "trace_length" en' = Some (VHints (acc ++ hints_of_buckets items)).
Proof.
  intros HF. induction items as [|[k trs] items IH]; intros en acc Lh.
  - exists en. split; [reflexivity|]. cbn. rewrite app_nil_r. exact Lh.
  - rewrite forb_cons. cbn [fst snd].
    destruct (hbody_exec F en acc k trs HF Lh) as (en1 & E1 & L1). rewrite E1.
    destruct (IH en1 _ L1) as (en2 & E2 & L2).
    exists en2. split; [exact E2|].
    rewrite hints_of_buckets_cons. rewrite <- app_assoc in L2. exact L2.
Qed.

Definition fuel_hints (e : element) : nat := 6 * esize e + 20.
Lemma fuel_hints_eq e : fuel_hints e = 6 * esize e + 20.
Proof. reflexivity. Qed.

Lemma fuel_hints_mdl_eq (e : element) (vecs : list (list str)) :
  fuel_hints e = 6 * esize e + 20 /\ fuel_mdl vecs = 12.
Proof. split; reflexivity. Qed.

Lemma hcbody_exec F e : 6 * esize e + 18 <= F ->
  exists en', ex F HCBODY [("self", VElem e)] = Some (en', None) /\
              lookup "trace_length" en' = Some (VHints (compute_name_hints e)).
Proof.
  intros HF. do 6 peelh F.
  unfold HCBODY. rewrite ex_seq, ex_let.
  replace (ev (S (S (S (S F)))) ENewDeque [("self", VElem e)]) with (Some (VDeque [])) by reflexivity.
  unfold H2. rewrite ex_seq, ex_let.
  replace (ev (S (S (S F))) ENewBuckets [("trace", VDeque []); ("self", VElem e)])
    with (Some (VBuckets [])) by reflexivity.
  unfold H3. rewrite ex_seq, ex_callfill. lkh.
  destruct (nbody_all e [] [] (S (S F))) as (en1 & E1 & K1 & K2); [lia|].
  rewrite E1, K1, K2. lkh.
  unfold H4. rewrite ex_seq, ex_let.
  match goal with |- context [ev (S F) ENewHints ?en0] =>
    replace (ev (S F) ENewHints en0) with (Some (VHints [])) by reflexivity end.
  rewrite ex_forbuckets. lkh.
  match goal with |- context [forb _ _ _ _ _ ?en0] => set (en_for := en0) end.
  destruct (forb_loop (S F) ltac:(lia) (fill_names e [] []) en_for [] eq_refl) as (en2 & E2 & L2).
  rewrite E2. exists en2. split; [reflexivity|exact L2].
Qed.

Lemma compute_hints_rs_correct_tight e fuel :
  6 * esize e + 18 <= fuel ->
  run_hints fill_names_rs minimal_different_lengths_rs fuel compute_name_hints_rs e
  = Some (compute_name_hints e).
Proof.
  intros HF. unfold run_hints. rewrite compute_hints_shape. cbn [fn_params fn_body fn_result].
  destruct (hcbody_exec fuel e HF) as (en' & E & L). rewrite E.
  peelh fuel. rewrite ev_var, L. reflexivity.
Qed.

Theorem compute_name_hints_rs_correct : forall e fuel, fuel_hints e <= fuel ->
  run_hints fill_names_rs minimal_different_lengths_rs fuel compute_name_hints_rs e
  = Some (compute_name_hints e).
Proof. intros e fuel H. apply compute_hints_rs_correct_tight. unfold fuel_hints in H. lia. Qed.

(* ---------- composition with the struct-name table (NamesRsProofs) ---------- *)
(* the hints computed by the translated compute_name_hints, fed to the translated
   compute_struct_names, give the model's table *)
Theorem names_from_source_hints : forall e fuel,
  Nat.max (fuel_hints e) (fuel_names e) <= fuel ->
  exists h t,
    run_hints fill_names_rs minimal_different_lengths_rs fuel compute_name_hints_rs e = Some h /\
    XSG.Model.RustNames.run_compute XSG.Generated.NamesRs.expand_name_rs
      XSG.Generated.NamesRs.fill_struct_names_rs fuel XSG.Generated.NamesRs.compute_struct_names_rs e h
    = Some t /\
    t = compute_struct_names e (compute_name_hints e).
Proof.
  intros e fuel H.
  exists (compute_name_hints e), (compute_struct_names e (compute_name_hints e)).
  split; [apply compute_name_hints_rs_correct; lia|].
  split; [apply compute_struct_names_rs_correct; lia|reflexivity].
Qed.

(* ---------- examples ---------- *)
Definition lf (n : String.string) : element := Elem (s n) false true 1 [(Mand, s "k")] [] None.
Definition charge : element := lf "charge".
Definition location : element := Elem (s "location") false true 1 [] [(Mand, charge)] None.
Definition locations : element :=
  Elem (s "locations") false true 1 [] [(Mand, location); (Mand, location)] None.
Definition ydtax : element := Elem (s "yd_tax") false true 1 [] [(Mand, charge)] None.
Definition car : element :=
  Elem (s "car") false true 1 []
       [(Mand, locations); (Mand, ydtax); (Mand, Elem (s "Car") false true 1 [] [(Mand, charge)] None)] None.

Example mdl_rs_example :
  fuel_mdl [[s "Charge"; s "Location"; s "Car"]; [s "Charge"; s "YdTax"; s "Car"]] <= 12 /\
  ev 12 (ECallMdl "x") [("x", VDeques [[s "Charge"; s "Location"; s "Car"]; [s "Charge"; s "YdTax"; s "Car"]])]
  = Some (VNat 2).
Proof. split; [vm_compute; lia|vm_compute; reflexivity]. Qed.

Example fill_names_rs_example :
  6 * esize car + 4 <= 64 /\ nbody_ok car /\
  exists en', ex 64 (fn_body fill_names_rs) [("element", VElem car); ("trace", VDeque [s "Root"]); ("names", VBuckets [])]
              = Some (en', None) /\ lookup "trace" en' = Some (VDeque [s "Root"]).
Proof.
  split; [vm_compute; lia|]. split; [apply nbody_all|].
  destruct (fill_names_rs_correct car [s "Root"] [] 64) as (en' & E & L & _); [vm_compute; lia|].
  exists en'. auto.
Qed.

Example compute_name_hints_rs_example :
  fuel_hints car <= 300 /\
  run_hints fill_names_rs minimal_different_lengths_rs 300 compute_name_hints_rs car
  = Some (compute_name_hints car) /\
  run_hints fill_names_rs minimal_different_lengths_rs 300 compute_name_hints_rs car
  = Some [(s "Car", 2); (s "Locations", 1); (s "Location", 3); (s "Charge", 4); (s "YdTax", 1)].
Proof. split; [vm_compute; lia|]. split; vm_compute; reflexivity. Qed.

Example names_from_source_hints_example :
  Nat.max (fuel_hints car) (fuel_names car) <= 500 /\
  exists h, run_hints fill_names_rs minimal_different_lengths_rs 500 compute_name_hints_rs car = Some h /\
    XSG.Model.RustNames.run_compute XSG.Generated.NamesRs.expand_name_rs
      XSG.Generated.NamesRs.fill_struct_names_rs 500 XSG.Generated.NamesRs.compute_struct_names_rs car h
    = Some (compute_struct_names car (compute_name_hints car)).
Proof.
  assert (H : Nat.max (fuel_hints car) (fuel_names car) <= 500) by (vm_compute; lia).
  split; [exact H|].
  destruct (names_from_source_hints car 500 H) as (h & t & E1 & E2 & ->).
  exists h. auto.
Qed.
