(* src/main.rs as translated by bin/translate_cli.py (Generated/CliRs.v) is `cli_run` of
   Model/Cli.v. *)
From XSG.Model Require Import Strings Necessity Element Parser Render Cli.
From XSG.Generated Require Import CliRs.
From Coq Require Import String List NArith.
Import ListNotations.
Open Scope list_scope.

(* what clap hands to `run`: an omitted flag is its default (src/args.rs) *)
Definition sort_arg_of (x : sortby) : sortby_arg :=
  match x with Unsorted => SAUnsorted | XmlName => SAName end.
Definition resolve (a : args) : config :=
  {| c_parser := match a_parser a with Some p => p | None => parser_default_rs end;
     c_derive := match a_derive a with Some d => d | None => derive_default_rs end;
     c_sort := match a_sort a with Some x => sort_arg_of x | None => sort_default_rs end;
     c_output := a_output a |}.

Lemma options_rs a :
  set_sort (options_derive_rs (parser_into_rs (c_parser (resolve a))) (c_derive (resolve a)))
           (sort_into_rs (c_sort (resolve a))) = opts_of a.
Proof.
  destruct a as [[[|]|] [d|] [[|]|] out]; reflexivity.
Qed.

Lemma header_rs : (s "use serde::{Deserialize, Serialize};" ++ nl ++ nl) = header.
Proof. reflexivity. Qed.

Lemma main_rs_correct a r create_ok : main_rs (resolve a) r create_ok = cli_run a r create_ok.
Proof.
  unfold main_rs, run_rs, cli_run. cbv zeta.
  destruct r as [|evs]; [reflexivity|].
  destruct (into_struct_ev evs) as [e| |]; try reflexivity.
  rewrite options_rs, header_rs.
  change (c_output (resolve a)) with (a_output a).
  destruct (a_output a); [destruct create_ok|]; reflexivity.
Qed.

(* run alone: Ok iff exit status 0, and a failing run has had no effect *)
Lemma run_rs_fail_no_effect c r create_ok eff :
  run_rs c r create_ok = (eff, false) -> eff = [].
Proof.
  unfold run_rs. cbv zeta.
  destruct r as [|evs]; [now intros [= <-]|].
  destruct (into_struct_ev evs) as [e| |]; try (now intros [= <-]).
  destruct (c_output c); [destruct create_ok|]; cbn [app]; intros H; inversion H; reflexivity.
Qed.

Lemma cli_source_example :
  let a := {| a_parser := Some PSerdeXmlRs; a_derive := Some (s "Debug"); a_sort := Some XmlName; a_output := true |} in
  let evs := [EStart (ROk (s "a")) [AOk (ROk (s "k"))]; EEnd] in
  main_rs (resolve a) (RText evs) true = cli_run a (RText evs) true
  /\ snd (main_rs (resolve a) (RText evs) true) = 0%N
  /\ List.length (fst (main_rs (resolve a) (RText evs) true)) = 2%nat
  /\ main_rs (resolve a) (RText evs) false = ([Stderr], 1%N)
  /\ main_rs (resolve a) RFail true = ([Stderr], 1%N)
  /\ main_rs (resolve a) (RText [EMisc]) true = ([Stderr], 1%N).
Proof. vm_compute. repeat split. Qed.
