(* C04, final assembly: the well-formedness oracle `wf_b` of Corr/Oracles.v (the check that the
   differential harness applies to the struct definitions parsed back from the REAL
   implementation's output) is true of the model's own output `map erase (render_abs o e)`,
   for every tree with unique sibling / attribute names (Uniq) whose names are acceptable XML
   names over the model's alphabet (tree_names_ok), and options whose attribute prefix and
   text identifier can be written inside a string literal.
   One Prop-level theorem per conjunct of wf_b, the meaning of the boolean (wf_b_spec), and the
   assembly (render_wf). *)
From Coq Require Import String Lia Permutation.
From XSG.Model Require Import Strings Chars Convert Necessity Element Render.
From XSG.Corr Require Import Common Oracles.
From XSG.Proofs Require Import StringsProofs ElementProofs RenderProofs IdentProofs
     StructTableProofs ConvertProofs StructNameProofs.
Open Scope list_scope.

(* ====================================================================== *)
(* 0. the legality predicates of ConvertProofs.v are those of Oracles.v    *)
(* ====================================================================== *)
Lemma ident_chars_ok_same x : Oracles.ident_chars_ok x = ConvertProofs.ident_chars_ok x.
Proof. reflexivity. Qed.
Lemma ident_ok_same x : Oracles.ident_ok x = ConvertProofs.ident_ok x.
Proof. reflexivity. Qed.
Lemma struct_name_ok_same x : Oracles.struct_name_ok x = ConvertProofs.struct_name_ok x.
Proof. reflexivity. Qed.

(* ====================================================================== *)
(* 1. small facts                                                          *)
(* ====================================================================== *)
Lemma nodup_b_spec (l : list str) : nodup_b str_eqb l = true <-> NoDup l.
Proof.
  induction l as [|x r IH]; cbn [nodup_b].
  - split; [constructor|reflexivity].
  - change (existsb (str_eqb x) r) with (mem x r).
    rewrite andb_true_iff, negb_true_iff, mem_false, IH. split.
    + intros [H1 H2]. now constructor.
    + intros H. inversion H; subst. auto.
Qed.

Lemma In_tl {A} (x : A) l : In x (tl l) -> In x l.
Proof. destruct l as [|a l]; [intros []|]. cbn [tl]. now right. Qed.

(* ---------- string literals ---------- *)
Definition lit_char (c : chr) : bool := negb (c =? 34)%N && negb (c =? 92)%N && negb (c =? 10)%N.

Lemma literal_ok_eq x : literal_ok x = forallb lit_char x.
Proof. reflexivity. Qed.

Lemma literal_ok_app a b : literal_ok (a ++ b) = literal_ok a && literal_ok b.
Proof. unfold literal_ok. apply forallb_app. Qed.

Lemma name_char_literal c : name_char_ok c = true -> lit_char c = true.
Proof.
  intros H. unfold lit_char.
  destruct (N.eqb_spec c 34) as [->|_]; [vm_compute in H; discriminate|].
  destruct (N.eqb_spec c 92) as [->|_]; [vm_compute in H; discriminate|].
  destruct (N.eqb_spec c 10) as [->|_]; [vm_compute in H; discriminate|].
  reflexivity.
Qed.

(* acceptable names contain no double quote, backslash or newline *)
Lemma name_ok_literal x : name_ok x = true -> literal_ok x = true.
Proof.
  intros H. destruct (name_ok_inv x H) as [Hall _]. rewrite literal_ok_eq.
  apply forallb_forall. intros c Hc. apply name_char_literal. exact (forallb_in _ _ _ Hall Hc).
Qed.

(* remove_namespace returns a suffix *)
Lemma after_colon_forallb (P : chr -> bool) l : forall r,
  after_colon l = Some r -> forallb P l = true -> forallb P r = true.
Proof.
  induction l as [|c l IH]; intros r; cbn [after_colon]; [discriminate|].
  cbn [forallb]. intros E H. apply andb_true_iff in H. destruct H as [_ H].
  destruct (c =? colon)%N; [injection E as <-; exact H|exact (IH r E H)].
Qed.

Lemma remove_namespace_forallb (P : chr -> bool) x :
  forallb P x = true -> forallb P (remove_namespace x) = true.
Proof.
  intros H. unfold remove_namespace. destruct (after_colon x) as [r|] eqn:E; [|exact H].
  exact (after_colon_forallb P x r E H).
Qed.

Lemma remove_namespace_literal x : literal_ok x = true -> literal_ok (remove_namespace x) = true.
Proof. apply remove_namespace_forallb. Qed.

(* ---------- tree_names_ok, unpacked ---------- *)
Lemma tree_names_ok_inv e : tree_names_ok e = true ->
  name_ok (ename e) = true
  /\ (forall a, In a (eattrs e) -> name_ok (snd a) = true)
  /\ (forall c, In c (echildren e) -> tree_names_ok (snd c) = true).
Proof.
  intros H. rewrite tree_names_ok_eq in H. apply andb_true_iff in H. destruct H as [H H3].
  apply andb_true_iff in H. destruct H as [H1 H2]. split; [exact H1|]. split.
  - intros a Ha. exact (forallb_in _ _ _ H2 Ha).
  - intros c Hc. exact (forallb_in _ _ _ H3 Hc).
Qed.

Lemma tree_names_ok_child e c : tree_names_ok e = true -> In c (echildren e) -> tree_names_ok (snd c) = true.
Proof. intros H. apply (tree_names_ok_inv e H). Qed.

(* every name on a struct path is acceptable *)
Lemma spath_names_ok e q : spath e q -> tree_names_ok e = true -> Forall (fun x => name_ok x = true) q.
Proof.
  intros H. induction H as [e|e c q Hin Hot Hq IH]; intros He.
  - constructor; [apply (tree_names_ok_inv e He)|constructor].
  - constructor; [apply (tree_names_ok_inv e He)|]. apply IH. exact (tree_names_ok_child e c He Hin).
Qed.

(* render_Forall (RenderProofs) with a hereditary invariant of the node threaded through *)
Lemma render_Forall_her (Q : element -> Prop) (P : structdef -> Prop) o tbl :
  (forall e c, Q e -> In c (echildren e) -> Q (snd c)) ->
  (forall e pth, Q e -> P (head_struct o tbl e pth)) ->
  forall e, Q e -> forall pth, Forall P (render_abs_at o tbl e pth).
Proof.
  intros Hher HP e. induction e as [n t x k a ch p IH] using element_ind'. intros HQ pth.
  rewrite render_struct_shape. constructor; [now apply HP|].
  apply Forall_flat_map. unfold sorted_children. apply isort_Forall. cbn [echildren].
  rewrite Forall_forall in IH. apply Forall_forall. intros c Hc.
  destruct (contains_only_text (snd c)); [constructor|]. apply IH; [exact Hc|].
  exact (Hher _ c HQ Hc).
Qed.

(* ====================================================================== *)
(* 2. conjunct 1: there is at least one struct                             *)
(* ====================================================================== *)
Theorem wf_nonempty o e : render_abs o e <> [].
Proof. unfold render_abs, render_abs_ord. rewrite render_struct_shape. discriminate. Qed.

(* ====================================================================== *)
(* 3. conjunct 3: every struct name is a legal, non-shadowing type name     *)
(*    (conjunct 2, pairwise distinct, is StructTableProofs.struct_names_unique) *)
(* ====================================================================== *)
Theorem wf_struct_names_legal o e :
  tree_names_ok e = true ->
  Forall (fun d => Oracles.struct_name_ok (sd_name d) = true) (render_abs o e).
Proof.
  intros He. apply Forall_forall. intros d Hd.
  destruct (every_struct_name_shape o e d Hd) as (pth & m & sfx & Hp & Hm & Hu & Hs & _).
  pose proof (struct_names_not_reserved o e) as Hr. rewrite Forall_forall in Hr.
  rewrite struct_name_ok_same.
  apply (ConvertProofs.struct_name_legal pth m sfx (sd_name d)).
  - exact (spath_names_ok e pth Hp He).
  - exact (Hr d Hd).
  - exact Hu.
  - destruct Hs as [Hs|[j [_ Hs]]]; [left; exact Hs|right; exists j; exact Hs].
  - exact Hm.
Qed.

(* ====================================================================== *)
(* 4. conjunct 4b: every field identifier is a legal identifier             *)
(*    (4a, pairwise distinct per struct, is StructTableProofs.field_idents) *)
(* ====================================================================== *)

(* a lookup of a key that is present returns one of the values bound to it (no uniqueness of
   the keys is needed: the last binding wins) *)
Lemma id_get_fold_cases n t m : forall acc,
  (exists v, In ((n, t), v) m /\ fold_left (id_get_step n t) m acc = Some v)
  \/ (~ In (n, t) (map fst m) /\ fold_left (id_get_step n t) m acc = acc).
Proof.
  induction m as [|[[k kt] v] m IH]; intros acc; [right; split; [intros []|reflexivity]|].
  cbn [fold_left]. destruct (IH (id_get_step n t acc ((k, kt), v))) as [[v' [Hin E]]|[Hnot E]].
  - left. exists v'. split; [right; exact Hin|exact E].
  - rewrite E. unfold id_get_step. destruct (str_eqb k n && idty_eqb kt t) eqn:K.
    + apply key_eqb_true in K. injection K as -> ->. left. exists v. split; [left|]; reflexivity.
    + right. split; [|reflexivity]. cbn [map fst]. intros [Hk|Hk]; [|exact (Hnot Hk)].
      apply key_eqb_true in Hk. congruence.
Qed.

Lemma id_getd_value m k : In k (map fst m) -> exists v, In (k, v) m /\ id_getd m k = v.
Proof.
  destruct k as [n t]. intros Hin. unfold id_getd. cbn [fst snd]. rewrite id_get_eq.
  destruct (id_get_fold_cases n t m None) as [[v [Hv E]]|[Hnot _]]; [|contradiction].
  exists v. rewrite E. split; [exact Hv|reflexivity].
Qed.

Lemma head_field_idents_legal o tbl e pth :
  tree_names_ok e = true ->
  Forall (fun f => Oracles.ident_ok (f_ident f) = true) (sd_fields (head_struct o tbl e pth)).
Proof.
  intros He. apply Forall_forall. intros f Hf.
  apply (in_map f_ident) in Hf. rewrite head_field_idents in Hf.
  apply in_map_iff in Hf. destruct Hf as [k [<- Hk]].
  apply field_keys_incl in Hk. rewrite <- id_new_keys in Hk.
  destruct (id_getd_value _ _ Hk) as [v [Hv ->]].
  rewrite ident_ok_same.
  exact (field_idents_legal_tree e He e (sub_here e) (k, v) Hv).
Qed.

Theorem wf_field_idents_legal_at o tbl e pth :
  tree_names_ok e = true ->
  Forall (fun d => Forall (fun f => Oracles.ident_ok (f_ident f) = true) (sd_fields d))
         (render_abs_at o tbl e pth).
Proof.
  intros He. revert pth.
  apply (render_Forall_her (fun x => tree_names_ok x = true)); [|intros x pth Hx|exact He].
  - intros x c Hx Hc. exact (tree_names_ok_child x c Hx Hc).
  - now apply head_field_idents_legal.
Qed.

Theorem wf_field_idents_legal o e :
  tree_names_ok e = true ->
  Forall (fun d => Forall (fun f => Oracles.ident_ok (f_ident f) = true) (sd_fields d)) (render_abs o e).
Proof. intros He. unfold render_abs, render_abs_ord. now apply wf_field_idents_legal_at. Qed.

(* ====================================================================== *)
(* 5. conjunct 4c: every rename can be written inside a string literal      *)
(* ====================================================================== *)
Definition rename_literal (f : field) : Prop :=
  match f_rename f with Some r => literal_ok r = true | None => True end.

Lemma head_renames_literal o tbl e pth :
  tree_names_ok e = true ->
  literal_ok (attribute_prefix o) = true -> literal_ok (text_identifier o) = true ->
  Forall rename_literal (sd_fields (head_struct o tbl e pth)).
Proof.
  intros He Hp Ht. destruct (tree_names_ok_inv e He) as (_ & Ha & Hc).
  rewrite head_struct_fields. apply Forall_app; split; [|apply Forall_app; split].
  - apply Forall_forall. intros f Hf. apply in_map_iff in Hf. destruct Hf as [a [<- Hin]].
    apply (Permutation_in _ (sorted_attrs_perm o e)) in Hin.
    pose proof (name_ok_literal _ (Ha a Hin)) as Hl.
    unfold rename_literal, attr_field. cbn [f_rename].
    match goal with |- match (if ?b then _ else _) with _ => _ end => destruct b end; [exact I|].
    rewrite literal_ok_app, Hp. cbn [andb].
    destruct (starts_with_xmlns (snd a)); [exact Hl|now apply remove_namespace_literal].
  - unfold text_fields. destruct (etext e); constructor; [|constructor].
    unfold rename_literal. cbn [f_rename]. exact Ht.
  - apply Forall_forall. intros f Hf. apply in_map_iff in Hf. destruct Hf as [c [<- Hin]].
    apply (Permutation_in _ (sorted_children_perm o e)) in Hin.
    destruct (tree_names_ok_inv _ (Hc c Hin)) as (Hn & _).
    unfold rename_literal, child_field. cbn [f_rename].
    match goal with |- match (if ?b then _ else _) with _ => _ end => destruct b end; [exact I|].
    apply remove_namespace_literal, name_ok_literal, Hn.
Qed.

Theorem wf_renames_literal_at o tbl e pth :
  tree_names_ok e = true ->
  literal_ok (attribute_prefix o) = true -> literal_ok (text_identifier o) = true ->
  Forall (fun d => Forall rename_literal (sd_fields d)) (render_abs_at o tbl e pth).
Proof.
  intros He Hp Ht. revert pth.
  apply (render_Forall_her (fun x => tree_names_ok x = true)); [|intros x pth Hx|exact He].
  - intros x c Hx Hc. exact (tree_names_ok_child x c Hx Hc).
  - now apply head_renames_literal.
Qed.

Theorem wf_renames_literal o e :
  tree_names_ok e = true ->
  literal_ok (attribute_prefix o) = true -> literal_ok (text_identifier o) = true ->
  Forall (fun d => Forall rename_literal (sd_fields d)) (render_abs o e).
Proof. intros He Hp Ht. unfold render_abs, render_abs_ord. now apply wf_renames_literal_at. Qed.

(* ====================================================================== *)
(* 6. conjunct 4d: every struct-typed field names a struct of the output    *)
(* ====================================================================== *)
Theorem wf_types_defined o e d f n :
  In d (render_abs o e) -> In f (sd_fields d) -> f_ty f = TyStruct n ->
  In n (map sd_name (render_abs o e)).
Proof.
  intros Hd Hf Ty. destruct (types_defined o e d f Hd Hf) as [E|[d' [Hd' E]]]; [congruence|].
  rewrite Ty in E. injection E as ->. apply in_map, In_tl, Hd'.
Qed.

(* ====================================================================== *)
(* 7. conjunct 5: every struct but the first is the type of exactly one     *)
(*    field, the first of none                                              *)
(* ====================================================================== *)
Definition occ (n : str) (l : list str) : nat := List.length (filter (fun m => str_eqb m n) l).

Lemma occ_cons n x l : occ n (x :: l) = ((if str_eqb x n then 1 else 0) + occ n l)%nat.
Proof. unfold occ. cbn [filter]. destruct (str_eqb x n); reflexivity. Qed.

Lemma occ_app n a b : occ n (a ++ b) = (occ n a + occ n b)%nat.
Proof. unfold occ. now rewrite filter_app, app_length. Qed.

Lemma occ_perm n l l' : Permutation l l' -> occ n l = occ n l'.
Proof.
  induction 1 as [|x l l' _ IH|x y l|l l' l'' _ IH1 _ IH2]; rewrite ?occ_cons; lia.
Qed.

Lemma occ_notin n l : ~ In n l -> occ n l = 0%nat.
Proof.
  induction l as [|x l IH]; intros H; [reflexivity|]. rewrite occ_cons.
  destruct (str_eqb_spec x n) as [->|_]; [exfalso; apply H; now left|].
  apply IH. intros Hc. apply H. now right.
Qed.

Lemma occ_in_nodup n l : NoDup l -> In n l -> occ n l = 1%nat.
Proof.
  induction l as [|x l IH]; intros Hnd Hin; [destruct Hin|]. rewrite occ_cons.
  inversion Hnd as [|? ? Hx Hl]; subst.
  destruct (str_eqb_spec x n) as [->|Hne].
  - now rewrite occ_notin.
  - destruct Hin as [E|Hin]; [congruence|]. now rewrite IH.
Qed.

(* the oracle's count, on the erased output, counts the references *)
Lemma count_fields_refs n fs :
  List.length (filter (fun f => ty_eqb (pf_ty f) (TyStruct n)) (map Oracles.erase_field fs))
  = occ n (flat_map field_refs fs).
Proof.
  induction fs as [|f fs IH]; [reflexivity|].
  cbn [map flat_map filter]. rewrite occ_app. unfold field_refs at 1.
  unfold Oracles.erase_field at 1. cbn [pf_ty].
  destruct (f_ty f) as [|x]; cbn [ty_eqb]; [exact IH|].
  rewrite occ_cons. destruct (str_eqb x n); cbn [List.length]; rewrite IH; reflexivity.
Qed.

Lemma count_uses_refs n ds : count_uses n (map erase ds) = occ n (struct_refs ds).
Proof.
  unfold count_uses, struct_refs. rewrite flat_map_map.
  induction ds as [|d ds IH]; [reflexivity|].
  cbn [flat_map]. rewrite filter_app, app_length, occ_app, IH. f_equal.
  cbn [erase ps_fields]. apply count_fields_refs.
Qed.

Theorem wf_used_once o e r others :
  Uniq e -> render_abs o e = r :: others ->
  Forall (fun d => count_uses (sd_name d) (map erase (r :: others)) = 1%nat) others
  /\ count_uses (sd_name r) (map erase (r :: others)) = 0%nat.
Proof.
  intros U E. pose proof (struct_names_unique o e U) as Hnd. pose proof (types_refs o e) as P.
  rewrite E in Hnd, P. cbn [tl map] in Hnd, P. inversion Hnd as [|? ? Hr Ho]; subst.
  split.
  - apply Forall_forall. intros d Hd. rewrite count_uses_refs, (occ_perm _ _ _ P).
    apply occ_in_nodup; [exact Ho|now apply in_map].
  - rewrite count_uses_refs, (occ_perm _ _ _ P). now apply occ_notin.
Qed.

(* ====================================================================== *)
(* 8. what the boolean oracle says                                          *)
(* ====================================================================== *)
Definition pfield_wf (names : list str) (f : pfield) : Prop :=
  Oracles.ident_ok (pf_ident f) = true
  /\ (forall r, pf_rename f = Some r -> literal_ok r = true)
  /\ (forall n, pf_ty f = TyStruct n -> In n names).

Definition WF (ps : list pstruct) : Prop :=
  ps <> []
  /\ NoDup (map ps_name ps)
  /\ Forall (fun p => Oracles.struct_name_ok (ps_name p) = true) ps
  /\ Forall (fun p => NoDup (map pf_ident (ps_fields p))
                      /\ Forall (pfield_wf (map ps_name ps)) (ps_fields p)) ps
  /\ (forall r others, ps = r :: others ->
        Forall (fun p => count_uses (ps_name p) ps = 1%nat) others
        /\ count_uses (ps_name r) ps = 0%nat).

Lemma pfield_wf_b names f :
  Oracles.ident_ok (pf_ident f)
  && match pf_rename f with Some r => literal_ok r | None => true end
  && match pf_ty f with TyString => true | TyStruct n => mem n names end = true
  <-> pfield_wf names f.
Proof.
  unfold pfield_wf. rewrite !andb_true_iff. split.
  - intros [[H1 H2] H3]. split; [exact H1|]. split.
    + intros r E. rewrite E in H2. exact H2.
    + intros n E. rewrite E in H3. now apply mem_spec.
  - intros (H1 & H2 & H3). split; [split; [exact H1|]|].
    + destruct (pf_rename f) as [r|]; [now apply H2|reflexivity].
    + destruct (pf_ty f) as [|n]; [reflexivity|]. apply mem_spec. now apply H3.
Qed.

Lemma uses_b_spec (ps0 : list pstruct) r others :
  forallb (fun p => (count_uses (ps_name p) ps0 =? 1)%nat) others
  && (count_uses (ps_name r) ps0 =? 0)%nat = true
  <-> Forall (fun p => count_uses (ps_name p) ps0 = 1%nat) others
      /\ count_uses (ps_name r) ps0 = 0%nat.
Proof.
  rewrite andb_true_iff, forallb_forall, Forall_forall, Nat.eqb_eq.
  split; intros [H1 H2]; (split; [|exact H2]); intros p Hp; apply Nat.eqb_eq; now apply H1.
Qed.

Theorem wf_b_spec ps : wf_b ps = true <-> WF ps.
Proof.
  unfold wf_b, WF. cbv zeta. rewrite !andb_true_iff.
  assert (E1 : negb (is_nil ps) = true <-> ps <> []).
  { destruct ps; cbn; split; congruence. }
  assert (E3 : forallb Oracles.struct_name_ok (map ps_name ps) = true
               <-> Forall (fun p => Oracles.struct_name_ok (ps_name p) = true) ps).
  { rewrite forallb_forall, Forall_forall. split.
    - intros H p Hp. apply H. now apply in_map.
    - intros H x Hx. apply in_map_iff in Hx. destruct Hx as [p [<- Hp]]. now apply H. }
  assert (E4 : forallb (fun p => nodup_b str_eqb (map pf_ident (ps_fields p))
                 && forallb (fun f => Oracles.ident_ok (pf_ident f)
                                      && match pf_rename f with Some r => literal_ok r | None => true end
                                      && match pf_ty f with TyString => true
                                                       | TyStruct n => mem n (map ps_name ps) end)
                            (ps_fields p)) ps = true
               <-> Forall (fun p => NoDup (map pf_ident (ps_fields p))
                                    /\ Forall (pfield_wf (map ps_name ps)) (ps_fields p)) ps).
  { rewrite forallb_forall, Forall_forall. split; intros H p Hp; specialize (H p Hp).
    - apply andb_true_iff in H. destruct H as [H1 H2]. split; [now apply nodup_b_spec|].
      apply Forall_forall. intros f Hf. apply pfield_wf_b.
      rewrite forallb_forall in H2. exact (H2 f Hf).
    - destruct H as [H1 H2]. apply andb_true_iff. split; [now apply nodup_b_spec|].
      apply forallb_forall. intros f Hf. apply pfield_wf_b.
      rewrite Forall_forall in H2. exact (H2 f Hf). }
  assert (E5 : match ps with
               | [] => false
               | r :: others => forallb (fun p => (count_uses (ps_name p) ps =? 1)%nat) others
                                && (count_uses (ps_name r) ps =? 0)%nat
               end = true
               <-> (ps <> [] /\ forall r others, ps = r :: others ->
                      Forall (fun p => count_uses (ps_name p) ps = 1%nat) others
                      /\ count_uses (ps_name r) ps = 0%nat)).
  { destruct ps as [|r others].
    - split; [discriminate|intros [H _]; congruence].
    - rewrite uses_b_spec. split.
      + intros H. split; [discriminate|]. intros r' o' E. injection E as <- <-. exact H.
      + intros [_ H]. exact (H r others eq_refl). }
  rewrite E1, nodup_b_spec, E3, E4, E5. tauto.
Qed.

(* ====================================================================== *)
(* 9. the assembly                                                         *)
(* ====================================================================== *)
Lemma names_erase ds : map ps_name (map erase ds) = map sd_name ds.
Proof. rewrite map_map. apply map_ext. reflexivity. Qed.

Lemma idents_erase fs : map pf_ident (map Oracles.erase_field fs) = map f_ident fs.
Proof. rewrite map_map. apply map_ext. reflexivity. Qed.

Theorem render_WF o e :
  Uniq e -> tree_names_ok e = true ->
  literal_ok (attribute_prefix o) = true -> literal_ok (text_identifier o) = true ->
  WF (map erase (render_abs o e)).
Proof.
  intros U He Hp Ht. unfold WF. rewrite names_erase.
  split; [|split; [|split; [|split]]].
  - intros H. apply map_eq_nil in H. exact (wf_nonempty o e H).
  - exact (struct_names_unique o e U).
  - apply Forall_forall. intros p Hin. apply in_map_iff in Hin. destruct Hin as [d [<- Hd]].
    pose proof (wf_struct_names_legal o e He) as H. rewrite Forall_forall in H. exact (H d Hd).
  - apply Forall_forall. intros p Hin. apply in_map_iff in Hin. destruct Hin as [d [<- Hd]].
    cbn [erase ps_fields]. rewrite idents_erase. split.
    + pose proof (field_idents o e U) as H. rewrite Forall_forall in H. exact (H d Hd).
    + apply Forall_forall. intros pf Hpf. apply in_map_iff in Hpf. destruct Hpf as [f [<- Hf]].
      unfold pfield_wf, Oracles.erase_field. cbn [pf_ident pf_rename pf_ty]. split; [|split].
      * pose proof (wf_field_idents_legal o e He) as H. rewrite Forall_forall in H.
        specialize (H d Hd). rewrite Forall_forall in H. exact (H f Hf).
      * intros r Er. pose proof (wf_renames_literal o e He Hp Ht) as H. rewrite Forall_forall in H.
        specialize (H d Hd). rewrite Forall_forall in H. specialize (H f Hf).
        unfold rename_literal in H. rewrite Er in H. exact H.
      * intros n Ty. exact (wf_types_defined o e d f n Hd Hf Ty).
  - intros r others E. destruct (render_abs o e) as [|d0 ds] eqn:R; [discriminate|].
    cbn [map] in E. injection E as <- <-.
    destruct (wf_used_once o e d0 ds U R) as [H1 H2]. split; [|exact H2].
    apply Forall_forall. intros p Hin. apply in_map_iff in Hin. destruct Hin as [d [<- Hd]].
    rewrite Forall_forall in H1. exact (H1 d Hd).
Qed.

Theorem render_wf o e :
  Uniq e -> tree_names_ok e = true ->
  literal_ok (attribute_prefix o) = true -> literal_ok (text_identifier o) = true ->
  wf_b (map erase (render_abs o e)) = true.
Proof. intros U He Hp Ht. apply wf_b_spec. now apply render_WF. Qed.

(* ====================================================================== *)
(* 10. the hypotheses are satisfiable, and needed                           *)
(* ====================================================================== *)

(* prefixed names (xs:self, xs:type, a:b, xmlns:xs), keywords (type, fn, self), names that
   collide after conversion (Foo / foo, the attribute and the child `type`, xs:type / type),
   a struct called String, an attribute called text next to character data *)
Definition wf_ex_tree : element :=
  Elem (s "xs:self") true true 1 [(Mand, s "xmlns:xs"); (Opt, s "xs:type"); (Mand, s "type"); (Opt, s "text")]
    [ (Mand, Elem (s "Foo") false true 1 [(Mand, s "fn")]
               [(Mand, Elem (s "string") false false 2 [(Opt, s "text")] [] (Some 0%nat))] (Some 0%nat));
      (Opt, Elem (s "foo") true false 3 [(Mand, s "a:b")] [] (Some 1%nat));
      (Mand, Elem (s "type") true true 1 [] [] (Some 2%nat));
      (Mand, Elem (s "xs:type") true true 1 [] [] (Some 3%nat)) ] None.

Lemma wf_ex_Uniq : Uniq wf_ex_tree.
Proof. repeat constructor; cbn; intuition discriminate. Qed.

Example wf_example :
  Uniq wf_ex_tree /\ tree_names_ok wf_ex_tree = true
  /\ literal_ok (attribute_prefix quick_xml_de) = true /\ literal_ok (text_identifier quick_xml_de) = true
  /\ wf_b (map erase (render_abs quick_xml_de wf_ex_tree)) = true
  /\ map (fun d => (sd_name d, map f_ident (sd_fields d))) (render_abs quick_xml_de wf_ex_tree)
     = [ (s "XsSelf", [s "xmlns_xs"; s "xs_type_attr"; s "xs_self_type_attr"; s "text"; s "text_content";
                       s "foo"; s "foo_1"; s "xs_self_type"; s "xs_type"]);
         (s "XsSelfFoo", [s "foo_fn"; s "string"]);
         (s "String1", [s "text"]);
         (s "XsSelfFoo1", [s "a_b"; s "text"]) ].
Proof.
  split; [exact wf_ex_Uniq|]. repeat split; vm_compute; reflexivity.
Qed.

(* the hypothesis on names is needed: a child <1a> gives the field identifier `1a`, a root <_>
   the empty struct name *)
Example wf_needs_names :
  let e1 := Elem (s "r") false true 1 [] [(Mand, Elem (s "1a") true true 1 [] [] (Some 0%nat))] None in
  let e2 := Elem (s "_") false true 1 [(Mand, s "k")] [] None in
  Uniq e1 /\ tree_names_ok e1 = false /\ wf_b (map erase (render_abs quick_xml_de e1)) = false
  /\ Uniq e2 /\ tree_names_ok e2 = false /\ wf_b (map erase (render_abs quick_xml_de e2)) = false.
Proof.
  cbv zeta. repeat split; try (vm_compute; reflexivity); repeat constructor; cbn; intuition discriminate.
Qed.

(* Uniq is needed: two children with one name get one identifier *)
Example wf_needs_Uniq :
  let c := Elem (s "a") true true 1 [] [] None in
  let e := Elem (s "r") false true 1 [] [(Mand, c); (Mand, c)] None in
  tree_names_ok e = true /\ wf_b (map erase (render_abs quick_xml_de e)) = false.
Proof. vm_compute. split; reflexivity. Qed.

(* the hypotheses on the options are needed: a quote in the attribute prefix / text identifier
   ends the string literal of the rename *)
Example wf_needs_literal_options :
  let e := Elem (s "r") true true 1 [(Mand, s "k")] [] None in
  let o1 := {| text_identifier := s "$text"; attribute_prefix := [34%N]; derive := []; sort := Unsorted |} in
  let o2 := {| text_identifier := [34%N]; attribute_prefix := s "@"; derive := []; sort := Unsorted |} in
  Uniq e /\ tree_names_ok e = true
  /\ wf_b (map erase (render_abs o1 e)) = false /\ wf_b (map erase (render_abs o2 e)) = false.
Proof.
  cbv zeta. repeat split; try (vm_compute; reflexivity); repeat constructor; cbn; intuition discriminate.
Qed.
