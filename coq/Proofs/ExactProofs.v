(* C03: the parser's tree represents exactly the occurrences it has absorbed.
   Mid is preserved by absorbing one more kid (nested induction on the document); closing an
   occurrence (demotion against the snapshot) turns Mid into Repr. *)
From XSG.Model Require Import Strings Necessity Element Parser Dom Spec.
From XSG.Proofs Require Import StringsProofs NecessityProofs ElementProofs SpecProofs DemoteProofs
     SkelProofs ReprDefs AbsorbShape.
From Coq Require Import Lia Permutation.

(* ---------- small list facts ---------- *)
Lemma flat_named_nonempty m os : In m (flat_map okidnames os) -> flat_map (kids_named m) os <> [].
Proof.
  intros H E. apply in_flat_map in H. destruct H as [o [Ho Hm]].
  assert (K : kids_named m o = []).
  { clear Hm. induction os as [|x os IH]; [destruct Ho|]. cbn [flat_map] in E.
    apply app_eq_nil in E. destruct E as [E1 E2]. destruct Ho as [->|Ho]; auto. }
  rewrite kids_named_eq in K. apply named_nil_iff in K. apply K. exact Hm.
Qed.
Lemma named_nonempty m ks : In m (elem_names ks) -> named m ks <> [].
Proof. intros H E. apply named_nil_iff in E. tauto. Qed.
Lemma named_nil_notin m ks : named m ks = [] -> ~ In m (elem_names ks).
Proof. apply named_nil_iff. Qed.

Lemma known_add_in known n x : In x (known_add known n) <-> In x known \/ x = n.
Proof.
  unfold known_add. destruct (mem n known) eqn:E.
  - apply mem_spec in E. split; [tauto|]. intros [H| ->]; auto.
  - rewrite in_app_iff. cbn. intuition.
Qed.

Lemma elem_names_snoc ks k :
  elem_names (ks ++ [k]) = elem_names ks ++ match k with NElem m _ _ _ => [m] | _ => [] end.
Proof. rewrite elem_names_app. cbn. now rewrite app_nil_r. Qed.
Lemma named_snoc m ks k : named m (ks ++ [k]) = named m ks ++ (if is_elem_named m k then [k] else []).
Proof. rewrite named_app. cbn. destruct (is_elem_named m k); reflexivity. Qed.
Lemma chardata_snoc ks k : chardata (ks ++ [k]) = chardata ks || is_chardata k.
Proof. rewrite chardata_app. cbn. destruct k; cbn; now rewrite ?orb_false_r. Qed.

Lemma index_of_dedup_app_in m a b : In m a -> index_of m (dedup (a ++ b)) = index_of m (dedup a).
Proof. intros H. rewrite dedup_app. apply index_of_app_in. now apply dedup_in. Qed.

Lemma length_dedup_names (names l : list str) :
  NoDup names -> (forall x, In x names <-> In x l) -> length (dedup l) = length names.
Proof.
  intros Hnd H. symmetry. apply nodup_same_length; auto; [apply dedup_nodup|].
  intros x. rewrite dedup_in. apply H.
Qed.
Lemma index_of_dedup_new m l : ~ In m l -> index_of m (dedup (l ++ [m])) = length (dedup l).
Proof.
  intros H. rewrite dedup_app. rewrite index_of_app_notin by (now rewrite dedup_in).
  cbn. replace (mem m l) with false by (symmetry; now apply mem_false). cbn.
  rewrite str_eqb_refl. lia.
Qed.

(* ---------- MidChild under one more kid of another name / a non-element kid ---------- *)
Lemma MidChild_other os done k d :
  (forall m, match k with NElem n _ _ _ => n = m | _ => False end -> m <> cname d) ->
  In (cname d) (flat_map okidnames os ++ elem_names done) ->
  MidChild os done d -> MidChild os (done ++ [k]) d.
Proof.
  intros Hk Hin (R & P & S & T1 & T2). unfold MidChild.
  assert (E : named (cname d) (done ++ [k]) = named (cname d) done).
  { rewrite named_snoc. destruct k as [n ef a kk| | |]; cbn; try now rewrite app_nil_r.
    destruct (str_eqb_spec n (cname d)) as [H|H]; [exfalso; now apply (Hk (cname d))|].
    now rewrite app_nil_r. }
  rewrite E. repeat split; auto.
  rewrite P. f_equal. rewrite elem_names_snoc, app_assoc. symmetry. now apply index_of_dedup_app_in.
Qed.

(* ---------- opening an occurrence ---------- *)
Lemma ChildOK_MidChild os d : ChildOK os d -> MidChild os [] d.
Proof.
  intros (T & S & P & R). unfold MidChild. cbn [named filter length Nat.leb].
  rewrite !app_nil_r, andb_true_r. repeat split; auto. congruence.
Qed.

Lemma Repr_MidKids e os : Repr e os -> MidKids e os [].
Proof.
  intros H. destruct (Repr_inv _ _ H) as (_ & _ & _ & Hnd & Hn & Hf).
  split; [exact Hnd|]. split.
  - intros m. rewrite Hn. cbn. tauto.
  - eapply Forall_impl; [|exact Hf]. apply ChildOK_MidChild.
Qed.

Lemma etext_set_multiple e : etext (set_multiple e) = etext e. Proof. now destruct e. Qed.
Lemma etext_increment e : etext (increment e) = etext e. Proof. now destruct e. Qed.
Lemma etext_merge_attr e l : etext (merge_attr e l) = etext e. Proof. now destruct e. Qed.
Lemma ecount_set_multiple e : ecount (set_multiple e) = ecount e. Proof. now destruct e. Qed.
Lemma ecount_increment e : ecount (increment e) = ecount e + 1. Proof. now destruct e. Qed.
Lemma ecount_merge_attr e l : ecount (merge_attr e l) = ecount e. Proof. now destruct e. Qed.
Lemma estandalone_set_multiple e : estandalone (set_multiple e) = false. Proof. now destruct e. Qed.
Lemma estandalone_increment e : estandalone (increment e) = estandalone e. Proof. now destruct e. Qed.
Lemma estandalone_merge_attr e l : estandalone (merge_attr e l) = estandalone e. Proof. now destruct e. Qed.
Lemma epos_set_multiple e : epos (set_multiple e) = epos e. Proof. now destruct e. Qed.
Lemma epos_increment e : epos (increment e) = epos e. Proof. now destruct e. Qed.
Lemma epos_merge_attr e l : epos (merge_attr e l) = epos e. Proof. now destruct e. Qed.

Definition sub_occs (m : str) (os done : list node) : list node :=
  flat_map (kids_named m) os ++ named m done.

Lemma open_found c os done m a known d :
  NoDup a -> MidKids c os done -> get_child (echildren c) m = Some d ->
  let k := NElem m false a [] in
  Mid (open_c0 c m a known) (sub_occs m os done) [] (spec_attrs (sub_occs m os done ++ [k])).
Proof.
  intros Ha (Hnd & Hn & Hf) G k.
  destruct (get_child_some _ _ _ G) as [Hin Hc].
  rewrite Forall_forall in Hf. destruct (Hf d Hin) as (R & _). rewrite Hc in R.
  fold (sub_occs m os done) in R.
  assert (Hne : sub_occs m os done <> []).
  { assert (In m (child_names (echildren c))) by (rewrite <- Hc; now apply in_map).
    apply Hn in H. unfold sub_occs. intros E. apply app_eq_nil in E. destruct E as [E1 E2].
    destruct H as [H|H]; [now apply flat_named_nonempty in H | now apply named_nonempty in H]. }
  destruct (Repr_inv _ _ R) as (Rt & Rk & Ra & _).
  unfold open_c0. rewrite G. unfold Mid.
  rewrite etext_increment, ecount_increment, eattrs_increment.
  split; [|split; [|split]].
  - destruct (mem m known); rewrite ?etext_set_multiple, etext_merge_attr, Rt; cbn; now rewrite orb_false_r.
  - destruct (mem m known); rewrite ?ecount_set_multiple, ecount_merge_attr, Rk; lia.
  - transitivity (merge_necessity str_eqb (spec_attrs (sub_occs m os done)) (map (fun x => (Mand, x)) a)).
    + destruct (mem m known); rewrite ?eattrs_set_multiple, eattrs_merge_attr, Ra; reflexivity.
    + apply (spec_attrs_snoc (sub_occs m os done) k); auto.
  - assert (MK : MidKids (snd d) (sub_occs m os done) []) by now apply Repr_MidKids.
    destruct MK as (K1 & K2 & K3).
    assert (E : echildren (increment (if mem m known then set_multiple (merge_attr (snd d) (map (fun x => (Mand, x)) a))
                                      else merge_attr (snd d) (map (fun x => (Mand, x)) a))) = echildren (snd d)).
    { rewrite echildren_increment. destruct (mem m known); rewrite ?echildren_set_multiple; apply echildren_merge_attr. }
    unfold MidKids. rewrite E. auto.
Qed.

Lemma open_new c os done m a known :
  NoDup a -> MidKids c os done -> get_child (echildren c) m = None ->
  let k := NElem m false a [] in
  sub_occs m os done = [] /\ Mid (open_c0 c m a known) [] [] (spec_attrs [k]).
Proof.
  intros Ha (Hnd & Hn & Hf) G k.
  assert (Hm : ~ In m (flat_map okidnames os) /\ ~ In m (elem_names done)).
  { apply get_child_none in G. split; intros H; apply G, Hn; auto. }
  destruct Hm as [H1 H2]. split.
  - unfold sub_occs. rewrite (flat_kids_named_absent _ _ H1). apply named_nil_iff. exact H2.
  - unfold open_c0. rewrite G. unfold Mid.
    assert (E : forall e, echildren e = [] -> MidKids e [] []).
    { intros e He. unfold MidKids. rewrite He. split; [constructor|]. split; [|constructor].
      intros x. cbn. tauto. }
    rewrite spec_attrs_single by exact Ha. cbn [oattrs k].
    destruct (mem m known).
    + rewrite etext_set_multiple, ecount_set_multiple, eattrs_set_multiple.
      split; [reflexivity|]. split; [reflexivity|]. split; [now apply new_element_attrs_nodup|apply E; reflexivity].
    + split; [reflexivity|]. split; [reflexivity|]. split; [now apply new_element_attrs_nodup|apply E; reflexivity].
Qed.

(* ---------- closing an occurrence: demotion against the snapshot ---------- *)
Lemma demote_perm cc c :
  NoDup (child_names (echildren c)) ->
  shell (demote cc c) = shell c
  /\ Permutation (echildren (demote cc c)) (map (retag (to_optional c cc)) (echildren c)).
Proof.
  intros Hnd. unfold demote. destruct (demote_spec (rev (to_optional c cc)) c Hnd) as [S P].
  split; auto. eapply perm_trans; [exact P|]. apply Permutation_refl'. apply map_ext. apply retag_rev.
Qed.

Lemma in_nodup_same l (x d : nec * element) :
  NoDup (child_names l) -> In x l -> In d l -> cname d = cname x -> d = x.
Proof.
  intros Hnd Hx Hd E. pose proof (get_child_in_nodup l x Hnd Hx) as G1.
  pose proof (get_child_in_nodup l d Hnd Hd) as G2. rewrite E in G2. congruence.
Qed.

Lemma in_to_optional_nodup c cc x :
  NoDup (child_names (echildren c)) -> In x (echildren c) ->
  (In (cname x) (to_optional c cc) <->
   (snap_get cc (cname x) = Some (ecount (snd x)) \/ (fst x = Mand /\ snap_get cc (cname x) = None))).
Proof.
  intros Hnd Hx. rewrite in_to_optional. split.
  - intros (d & Hd & Hc & H). assert (d = x) by (eapply in_nodup_same; eauto). subst d. exact H.
  - intros H. exists x. auto.
Qed.

Lemma child_tag_snoc m os k :
  child_tag m (os ++ [k]) = if spec_mand m os && negb (is_nil (kids_named m k)) then Mand else Opt.
Proof. unfold child_tag. now rewrite spec_mand_snoc. Qed.

Lemma close_children c2 os k L :
  MidKids c2 os (okids k) ->
  (forall x, In x (echildren c2) -> fst (retag L x) = child_tag (cname x) (os ++ [k])) ->
  forall ch, Permutation ch (map (retag L) (echildren c2)) ->
  NoDup (child_names ch)
  /\ (forall m, In m (child_names ch) <-> In m (flat_map okidnames (os ++ [k])))
  /\ Forall (ChildOK (os ++ [k])) ch.
Proof.
  intros (Hnd & Hn & Hf) Htag ch P.
  assert (Pn : Permutation (child_names ch) (child_names (echildren c2))).
  { rewrite <- (child_names_retag L (echildren c2)). unfold child_names. apply Permutation_map. exact P. }
  split; [|split].
  - eapply Permutation_NoDup; [apply Permutation_sym; exact Pn|exact Hnd].
  - intros m. rewrite flat_map_snoc, in_app_iff, okidnames_eq, <- Hn. split; intros H.
    + eapply Permutation_in; [exact Pn|exact H].
    + eapply Permutation_in; [apply Permutation_sym; exact Pn|exact H].
  - eapply Permutation_Forall; [apply Permutation_sym; exact P|].
    apply Forall_map. rewrite Forall_forall in Hf |- *. intros x Hx.
    destruct (Hf x Hx) as (R & Pp & S & _). unfold ChildOK.
    rewrite cname_retag, snd_retag. split; [now apply Htag|]. split; [|split].
    + rewrite S, spec_single_snoc, kids_named_eq. reflexivity.
    + rewrite Pp. unfold names_of. now rewrite flat_map_snoc, okidnames_eq.
    + now rewrite flat_map_snoc, kids_named_eq.
Qed.

Lemma fst_retag L x : fst (retag L x) = if mem (cname x) L then Opt else fst x.
Proof. unfold retag. destruct (mem (cname x) L); reflexivity. Qed.

Lemma count_Repr e os : Repr e os -> ecount e = N.of_nat (length os).
Proof. intros H. now destruct (Repr_inv _ _ H) as (_ & Hk & _). Qed.

(* a repeated occurrence written `<x>..</x>`: the snapshot of the Mandatory children *)
Lemma tag_rule_found c2 os k chb :
  os <> [] ->
  NoDup (child_names chb) ->
  (forall m, In m (child_names chb) <-> In m (flat_map okidnames os)) ->
  Forall (ChildOK os) chb ->
  MidKids c2 os (okids k) ->
  forall x, In x (echildren c2) ->
  fst (retag (to_optional c2 (snap_of chb)) x) = child_tag (cname x) (os ++ [k]).
Proof.
  intros Hne Bnd Bn Bf (Hnd & Hn & Hf) x Hx.
  rewrite Forall_forall in Hf. destruct (Hf x Hx) as (R & _ & _ & T1 & T2).
  set (m := cname x) in *. set (cur := named m (okids k)) in *.
  rewrite fst_retag, child_tag_snoc, kids_named_eq. fold m cur.
  assert (Cnt : ecount (snd x) = N.of_nat (length (flat_map (kids_named m) os) + length cur)).
  { rewrite (count_Repr _ _ R), app_length. reflexivity. }
  pose proof (snap_get_spec chb m Bnd) as SG.
  pose proof (in_to_optional_nodup c2 (snap_of chb) x Hnd Hx) as IO. fold m in IO.
  destruct (get_child chb m) as [d0|] eqn:G0.
  - destruct (get_child_some _ _ _ G0) as [Hin0 Hc0].
    rewrite Forall_forall in Bf. destruct (Bf d0 Hin0) as (T0 & _ & _ & R0). rewrite Hc0 in T0, R0.
    pose proof (count_Repr _ _ R0) as Cnt0.
    destruct (fst d0) eqn:F0.
    + (* was Optional: not in the snapshot *)
      assert (SM : spec_mand m os = false).
      { unfold child_tag in T0. destruct (spec_mand m os); [discriminate|reflexivity]. }
      rewrite SM. cbn [andb].
      destruct (mem m (to_optional c2 (snap_of chb))) eqn:E; [reflexivity|].
      apply mem_false in E. rewrite IO, SG in E.
      destruct cur as [|q cur'] eqn:Ecur.
      * rewrite T2 by reflexivity. now rewrite <- T0.
      * exfalso. apply E. right. split; auto. apply T1. discriminate.
    + (* was Mandatory: in the snapshot with its old count *)
      assert (SM : spec_mand m os = true).
      { unfold child_tag in T0. destruct (spec_mand m os); [reflexivity|discriminate]. }
      rewrite SM. cbn [andb].
      destruct cur as [|q cur'] eqn:Ecur; cbn [is_nil negb].
      * replace (mem m (to_optional c2 (snap_of chb))) with true; [reflexivity|].
        symmetry. apply mem_spec. apply IO. rewrite SG. left.
        f_equal. rewrite Cnt, Cnt0. cbn [length]. f_equal. lia.
      * replace (mem m (to_optional c2 (snap_of chb))) with false; [apply T1; discriminate|].
        symmetry. apply mem_false. rewrite IO, SG.
        intros [H|[_ H]]; [|discriminate]. injection H as H. rewrite Cnt, Cnt0 in H. cbn [length] in H. lia.
  - (* new in this occurrence *)
    assert (Hnot : ~ In m (flat_map okidnames os)).
    { apply get_child_none in G0. rewrite <- Bn. exact G0. }
    rewrite (spec_mand_absent m os Hne Hnot). cbn [andb].
    assert (Hcur : cur <> []).
    { assert (In m (child_names (echildren c2))) by (apply in_map; exact Hx).
      apply Hn in H. destruct H as [H|H]; [tauto|]. now apply named_nonempty. }
    replace (mem m (to_optional c2 (snap_of chb))) with true; [reflexivity|].
    symmetry. apply mem_spec. apply IO. rewrite SG. right. auto.
Qed.

(* `<x/>`: checked against an empty snapshot, nothing read *)
Lemma tag_rule_empty c2 os k :
  okids k = [] -> MidKids c2 os [] ->
  forall x, In x (echildren c2) ->
  fst (retag (to_optional c2 []) x) = child_tag (cname x) (os ++ [k]).
Proof.
  intros Hk (Hnd & Hn & Hf) x Hx.
  rewrite Forall_forall in Hf. destruct (Hf x Hx) as (_ & _ & _ & _ & T2).
  rewrite fst_retag, child_tag_snoc, kids_named_eq, Hk. cbn [named filter is_nil negb]. rewrite andb_false_r.
  destruct (mem (cname x) (to_optional c2 [])) eqn:E; [reflexivity|].
  apply mem_false in E. rewrite (in_to_optional_nodup c2 _ x Hnd Hx) in E.
  cbn [named filter] in T2. destruct (fst x) eqn:F; [reflexivity|].
  exfalso. apply E. right. split; reflexivity.
Qed.

(* the first occurrence written `<x>..</x>`: no check, every child was seen and is Mandatory *)
Lemma tag_rule_first c2 k :
  MidKids c2 [] (okids k) ->
  forall x, In x (echildren c2) -> fst x = child_tag (cname x) ([] ++ [k]).
Proof.
  intros (Hnd & Hn & Hf) x Hx.
  rewrite Forall_forall in Hf. destruct (Hf x Hx) as (_ & _ & _ & T1 & _).
  rewrite child_tag_snoc, kids_named_eq. cbn [spec_mand forallb andb].
  assert (Hcur : named (cname x) (okids k) <> []).
  { assert (In (cname x) (child_names (echildren c2))) by (apply in_map; exact Hx).
    apply Hn in H. destruct H as [[]|H]. now apply named_nonempty. }
  rewrite (T1 Hcur). destruct (named (cname x) (okids k)); [congruence|reflexivity].
Qed.

(* ---------- accessors through with_pos / demote / absorb_child ---------- *)
Lemma shell_with_pos_but_pos r c :
  ename (with_pos r c) = ename c /\ etext (with_pos r c) = etext c
  /\ estandalone (with_pos r c) = estandalone c /\ ecount (with_pos r c) = ecount c
  /\ eattrs (with_pos r c) = eattrs c /\ echildren (with_pos r c) = echildren c.
Proof. unfold with_pos. destruct (epos c); [tauto|]. destruct c; cbn. tauto. Qed.
Lemma epos_with_pos r c :
  epos (with_pos r c) = match epos c with Some p => Some p | None => Some (length (echildren r)) end.
Proof. unfold with_pos. destruct (epos c) eqn:E; [exact E|]. now destruct c. Qed.

Lemma shell_inv a b : shell a = shell b ->
  ename a = ename b /\ etext a = etext b /\ estandalone a = estandalone b /\ ecount a = ecount b
  /\ eattrs a = eattrs b /\ epos a = epos b.
Proof. unfold shell. intros H. inversion H. tauto. Qed.

Lemma Repr_close c3 c1 os k :
  etext c3 = etext c1 -> ecount c3 = ecount c1 -> eattrs c3 = eattrs c1 ->
  etext c1 = existsb has_text os || chardata (okids k) ->
  ecount c1 = N.of_nat (S (length os)) -> eattrs c1 = spec_attrs (os ++ [k]) ->
  NoDup (child_names (echildren c3))
  /\ (forall m, In m (child_names (echildren c3)) <-> In m (flat_map okidnames (os ++ [k])))
  /\ Forall (ChildOK (os ++ [k])) (echildren c3) ->
  Repr c3 (os ++ [k]).
Proof.
  intros E1 E2 E3 T K A (Hnd & Hn & Hf). apply Repr_make; auto.
  - rewrite E1, T, existsb_snoc, has_text_eq. reflexivity.
  - rewrite E2, K, app_length. cbn [length]. f_equal. lia.
  - congruence.
Qed.

Lemma map_retag_nil l : map (retag []) l = l.
Proof. rewrite <- (map_id l) at 2. apply map_ext. intros d. apply retag_nil. Qed.

(* closing: from the state after the kids have been read to the representation of one more occurrence *)
Lemma close_occ c2 os k chb_opt :
  etext c2 = existsb has_text os || chardata (okids k) ->
  ecount c2 = N.of_nat (S (length os)) -> eattrs c2 = spec_attrs (os ++ [k]) ->
  MidKids c2 os (okids k) ->
  match chb_opt with
  | Some chb => (* a check is made against this snapshot source (None inside = `<x/>`) *)
      match chb with
      | Some ch => os <> [] /\ NoDup (child_names ch)
                   /\ (forall m, In m (child_names ch) <-> In m (flat_map okidnames os))
                   /\ Forall (ChildOK os) ch
      | None => okids k = []
      end
  | None => os = []
  end ->
  Repr (match chb_opt with
        | Some (Some ch) => demote (snap_of ch) c2
        | Some None => demote [] c2
        | None => c2 end) (os ++ [k]).
Proof.
  intros T K A MK Hc. pose proof MK as (Hnd & _ & _).
  destruct chb_opt as [[ch|]|].
  - destruct Hc as (Hne & Bnd & Bn & Bf).
    destruct (demote_perm (snap_of ch) c2 Hnd) as [S P].
    destruct (shell_inv _ _ S) as (_ & S2 & _ & S4 & S5 & _).
    eapply Repr_close; eauto.
    apply (close_children c2 os k (to_optional c2 (snap_of ch))); [exact MK| |exact P].
    now apply tag_rule_found.
  - destruct (demote_perm [] c2 Hnd) as [S P].
    destruct (shell_inv _ _ S) as (_ & S2 & _ & S4 & S5 & _).
    eapply Repr_close; eauto.
    apply (close_children c2 os k (to_optional c2 [])); [exact MK| |exact P].
    apply tag_rule_empty; auto. now rewrite Hc in MK.
  - subst os. eapply Repr_close; eauto.
    eapply (close_children c2 [] k []); [exact MK| |now rewrite map_retag_nil].
    intros x Hx. rewrite retag_nil. now apply (tag_rule_first c2 k).
Qed.

Lemma spec_attrs_snoc_ext os k k' : oattrs k = oattrs k' -> spec_attrs (os ++ [k]) = spec_attrs (os ++ [k']).
Proof.
  intros E. unfold spec_attrs. rewrite !flat_map_snoc, E. apply map_ext. intros a.
  now rewrite !forallb_snoc, E.
Qed.

(* ---------- the step: absorbing one more kid preserves the in-flight invariant ---------- *)
Definition StepOK (k : node) : Prop := forall c os done known,
  MidKids c os done -> (forall m, In m known <-> In m (elem_names done)) ->
  MidKids (fst (absorb k c known)) os (done ++ [k]).

Lemma known_after k c known done :
  (forall m, In m known <-> In m (elem_names done)) ->
  forall m, In m (snd (absorb k c known)) <-> In m (elem_names (done ++ [k])).
Proof.
  intros H m. rewrite absorb_known, elem_names_snoc, in_app_iff.
  destruct k as [n ef a kk| | |]; cbn; rewrite ?known_add_in, H; intuition.
Qed.

Lemma forest_step ks :
  Forall StepOK ks ->
  forall r os done known,
  MidKids r os done -> (forall m, In m known <-> In m (elem_names done)) ->
  MidKids (fst (absorb_forest ks r known)) os (done ++ ks).
Proof.
  induction 1 as [|k ks Hk Hks IH]; intros r os done known MK Kn.
  - cbn. now rewrite app_nil_r.
  - rewrite absorb_forest_cons.
    replace (done ++ k :: ks) with ((done ++ [k]) ++ ks) by (now rewrite <- app_assoc).
    apply IH; [now apply Hk|]. now apply known_after.
Qed.

Lemma MidKids_nontext k c os done known :
  (match k with NElem _ _ _ _ => False | _ => True end) ->
  MidKids c os done -> MidKids (fst (absorb k c known)) os (done ++ [k]).
Proof.
  intros Hk (Hnd & Hn & Hf).
  assert (E : echildren (fst (absorb k c known)) = echildren c).
  { destruct k; try contradiction; cbn [absorb fst]; auto using echildren_set_text. }
  assert (E1 : elem_names (done ++ [k]) = elem_names done).
  { rewrite elem_names_snoc. destruct k; try contradiction; now rewrite app_nil_r. }
  unfold MidKids. rewrite E, E1. split; [exact Hnd|]. split; [exact Hn|].
  rewrite Forall_forall in Hf |- *. intros x Hx.
  apply MidChild_other; auto.
  - intros m Hm. destruct k; contradiction.
  - apply in_or_app. apply Hn. now apply in_map.
Qed.

Lemma remove_first_in_iff n l x : NoDup l -> (In x (remove_first n l) <-> In x l /\ x <> n).
Proof.
  intros Hnd. split.
  - intros H. split; [now apply remove_first_incl in H|]. intros ->. now apply (remove_first_notin n l Hnd).
  - intros [H1 H2]. now apply remove_first_other.
Qed.

Lemma ename_demote cc c : NoDup (child_names (echildren c)) -> ename (demote cc c) = ename c.
Proof. intros H. destruct (demote_perm cc c H) as [S _]. now destruct (shell_inv _ _ S). Qed.

Lemma frame_absorb_child ef kk c0 : frame (absorb_child ef kk c0) = frame c0.
Proof. unfold absorb_child. destruct ef; auto. apply absorb_forest_frame. Qed.

Lemma step_elem m ef a kk :
  NoDup a -> Forall StepOK kk -> StepOK (NElem m ef a kk).
Proof.
  intros Ha IHkk c os done known MK Kn. pose proof MK as (Hnd & Hn & Hf).
  rewrite (absorb_elem_shape c m ef a kk known Hnd).
  set (k := NElem m ef a kk).
  set (oth := snd (remove_child (echildren c) m)).
  set (d' := occ_child c m ef a kk known).
  set (os' := sub_occs m os done).
  (* ---- the state of the child after its kids have been read ---- *)
  set (c0 := open_c0 c m a known).
  set (c1 := absorb_child ef kk c0).
  set (c2 := with_pos (open_root1 c m) c1).
  assert (OK : okids k = if ef then [] else kk) by (unfold k; cbn; now destruct ef).
  assert (Mid0 : Mid c0 os' [] (spec_attrs (os' ++ [k]))).
  { destruct (get_child (echildren c) m) as [d|] eqn:G.
    - rewrite (spec_attrs_snoc_ext os' k (NElem m false a [])) by reflexivity.
      apply (open_found c os done m a known d); auto.
    - destruct (open_new c os done m a known Ha MK G) as [E M0]. unfold os'. rewrite E.
      rewrite (spec_attrs_snoc_ext [] k (NElem m false a [])) by reflexivity. exact M0. }
  destruct Mid0 as (T0 & K0 & A0 & MK0).
  assert (F1 : frame c1 = frame c0) by apply frame_absorb_child.
  assert (MK1 : MidKids c1 os' (okids k)).
  { rewrite OK. unfold c1, absorb_child. destruct ef; [exact MK0|].
    apply (forest_step kk IHkk c0 os' [] []); auto. intros x. cbn. tauto. }
  assert (T1 : etext c1 = existsb has_text os' || chardata (okids k)).
  { rewrite OK. unfold c1, absorb_child. destruct ef; [exact T0|].
    rewrite absorb_forest_text, T0. cbn [chardata existsb]. now rewrite orb_false_r. }
  destruct (shell_with_pos_but_pos (open_root1 c m) c1) as (W1 & W2 & W3 & W4 & W5 & W6).
  fold c2 in W1, W2, W3, W4, W5, W6.
  assert (MK2 : MidKids c2 os' (okids k)) by (unfold MidKids; rewrite W6; exact MK1).
  assert (T2 : etext c2 = existsb has_text os' || chardata (okids k)) by congruence.
  assert (K2 : ecount c2 = N.of_nat (S (length os'))).
  { rewrite W4, (frame_ecount _ _ F1). exact K0. }
  assert (A2 : eattrs c2 = spec_attrs (os' ++ [k])).
  { rewrite W5, (frame_eattrs _ _ F1). exact A0. }
  assert (Hnd2 : NoDup (child_names (echildren c2))) by apply MK2.
  (* ---- d' and its shell ---- *)
  assert (Dshell : shell d' = shell c2 /\ Repr d' (os' ++ [k])).
  { unfold d', occ_child. fold c0 c1 c2. destruct ef.
    - split; [apply (demote_perm [] c2 Hnd2)|].
      apply (close_occ c2 os' k (Some None)); auto.
    - destruct (get_child (echildren c) m) as [d|] eqn:G.
      + split; [apply (demote_perm _ c2 Hnd2)|].
        destruct (get_child_some _ _ _ G) as [Hin Hc].
        rewrite Forall_forall in Hf. destruct (Hf d Hin) as (R & _). rewrite Hc in R. fold (sub_occs m os done) in R. fold os' in R.
        destruct (Repr_inv _ _ R) as (_ & _ & _ & Bnd & Bn & Bf).
        apply (close_occ c2 os' k (Some (Some (echildren (snd d))))); auto.
        split; [|auto].
        assert (In m (child_names (echildren c))) by (rewrite <- Hc; now apply in_map).
        apply Hn in H. unfold os', sub_occs. intros E. apply app_eq_nil in E. destruct E as [E1 E2].
        destruct H as [H|H]; [now apply flat_named_nonempty in H | now apply named_nonempty in H].
      + split; [reflexivity|].
        apply (close_occ c2 os' k None); auto.
        destruct (open_new c os done m a known Ha MK G) as [E _]. exact E. }
  destruct Dshell as [DS DR].
  destruct (shell_inv _ _ DS) as (D1 & _ & D3 & _ & _ & D6).
  assert (Nd' : ename d' = m).
  { rewrite D1, W1, (frame_ename _ _ F1). apply ename_open_c0. }
  assert (Hot : ~ In m (child_names oth)).
  { unfold oth. rewrite remove_child_names. now apply remove_first_notin. }
  assert (Noth : child_names oth = remove_first m (child_names (echildren c))) by apply remove_child_names.
  unfold MidKids. rewrite echildren_set_children, child_names_app. cbn [child_names map]. change (cname (Mand, d')) with (ename d').
  rewrite Nd'. split; [|split].
  - apply nodup_snoc; auto. rewrite Noth. now apply remove_first_nodup.
  - intros x. rewrite in_app_iff, Noth, (remove_first_in_iff _ _ _ Hnd), Hn, elem_names_snoc, in_app_iff.
    unfold k. cbn [In]. destruct (str_eqb_spec x m) as [->|Hx]; [tauto|]. intuition congruence.
  - apply Forall_app. split.
    + rewrite Forall_forall in Hf |- *. intros x Hx.
      assert (Hxc : In x (echildren c)) by (eapply remove_child_incl; exact Hx).
      apply MidChild_other; auto.
      * intros n Hn' E. unfold k in Hn'. subst n. apply Hot. rewrite E. now apply in_map.
      * apply in_or_app. apply Hn. now apply in_map.
    + constructor; [|constructor]. unfold MidChild. unfold cname. cbn [fst snd]. rewrite Nd'.
      assert (Ecur : named m (done ++ [k]) = named m done ++ [k]).
      { rewrite named_snoc. unfold k at 1. cbn [is_elem_named]. now rewrite str_eqb_refl. }
      rewrite Ecur. split; [|split; [|split; [|split]]].
      * rewrite app_assoc. exact DR.
      * (* position *)
        rewrite D6. unfold c2. rewrite epos_with_pos, (frame_epos _ _ F1). unfold c0, open_c0.
        rewrite elem_names_snoc. unfold k at 1. rewrite app_assoc.
        destruct (get_child (echildren c) m) as [d|] eqn:G.
        -- destruct (get_child_some _ _ _ G) as [Hin Hc].
           rewrite Forall_forall in Hf. destruct (Hf d Hin) as (_ & P & _). rewrite Hc in P.
           rewrite epos_increment.
           assert (EP : epos (if mem m known then set_multiple (merge_attr (snd d) (map (fun x => (Mand, x)) a))
                              else merge_attr (snd d) (map (fun x => (Mand, x)) a)) = epos (snd d)).
           { destruct (mem m known); rewrite ?epos_set_multiple; apply epos_merge_attr. }
           rewrite EP, P. f_equal. symmetry. apply index_of_dedup_app_in.
           apply in_or_app. apply Hn. rewrite <- Hc. now apply in_map.
        -- assert (EP : epos (if mem m known then set_multiple (new_element m a) else new_element m a) = None)
             by (destruct (mem m known); reflexivity).
           rewrite EP. f_equal. unfold open_root1. rewrite echildren_set_children.
           rewrite (remove_child_none _ _ G).
           assert (Hm : ~ In m (flat_map okidnames os ++ elem_names done)).
           { apply get_child_none in G. intros H. apply in_app_or in H. apply G, Hn. exact H. }
           rewrite (index_of_dedup_new _ _ Hm).
           rewrite <- (map_length cname (echildren c)). fold (child_names (echildren c)).
           symmetry. apply length_dedup_names; auto. intros x. rewrite in_app_iff. apply Hn.
      * (* standalone *)
        rewrite D3, W3, (frame_estandalone _ _ F1). unfold c0, open_c0.
        destruct (mem m known) eqn:Ekn.
        -- assert (Hdone : named m done <> []).
           { apply named_nonempty. apply Kn. now apply mem_spec. }
           replace (length (named m done ++ [k]) <=? 1)%nat with false.
           2:{ symmetry. apply Nat.leb_gt. rewrite app_length. cbn [length].
               destruct (named m done); [congruence|cbn [length]; lia]. }
           rewrite andb_false_r.
           destruct (get_child (echildren c) m); [rewrite estandalone_increment|]; apply estandalone_set_multiple.
        -- assert (Hdone : named m done = []).
           { apply named_nil_iff. rewrite <- Kn. now apply mem_false. }
           rewrite Hdone. cbn [app length Nat.leb]. rewrite andb_true_r.
           destruct (get_child (echildren c) m) as [d|] eqn:G.
           ++ destruct (get_child_some _ _ _ G) as [Hin Hc].
              rewrite Forall_forall in Hf. destruct (Hf d Hin) as (_ & _ & S & _). rewrite Hc, Hdone in S.
              rewrite estandalone_increment, estandalone_merge_attr, S. cbn [length Nat.leb]. now rewrite andb_true_r.
           ++ cbn [estandalone new_element]. symmetry. apply spec_single_absent.
              apply get_child_none in G. intros H. apply G, Hn. now left.
      * reflexivity.
      * intros E. apply app_eq_nil in E. destruct E as [_ E]. discriminate.
Qed.

Theorem step_all k : wf_node k -> StepOK k.
Proof.
  induction k as [m ef a kk IH| | |] using node_ind'; intros W.
  - inversion W as [? ? ? ? Ha Wk| | |]; subst. apply step_elem; auto.
    rewrite Forall_forall in IH, Wk |- *. intros x Hx. apply IH; auto.
  - intros c os done known MK _. now apply MidKids_nontext.
  - intros c os done known MK _. now apply MidKids_nontext.
  - intros c os done known MK _. now apply MidKids_nontext.
Qed.

Lemma forest_step_wf ks r os done known :
  Forall wf_node ks -> MidKids r os done -> (forall m, In m known <-> In m (elem_names done)) ->
  MidKids (fst (absorb_forest ks r known)) os (done ++ ks).
Proof.
  intros W. apply forest_step. eapply Forall_impl; [|exact W]. intros k. apply step_all.
Qed.

(* ---------- whole documents ---------- *)
(* a list with exactly the member m and no duplicates *)
Lemma nodup_singleton (l : list str) m : NoDup l -> (forall x, In x l <-> x = m) -> l = [m].
Proof.
  intros Hnd H. destruct l as [|a l].
  - exfalso. apply (proj2 (H m) eq_refl).
  - assert (a = m) by (apply H; now left). subst a. destruct l as [|b l]; auto.
    assert (b = m) by (apply H; right; now left). subst b.
    inversion Hnd as [|? ? Hx _]. exfalso. apply Hx. now left.
Qed.

Definition virt (top : list node) : node := NElem (ename wrapper) false [] top.
Lemma okidnames_virt top : okidnames (virt top) = elem_names top. Proof. reflexivity. Qed.
Lemma kids_named_virt m top : kids_named m (virt top) = named m top. Proof. reflexivity. Qed.

Definition DocsInv (e : element) (m : str) (prev : list (list node)) : Prop :=
  prev <> [] /\ Forall (fun p => elem_names p = [m]) prev
  /\ Repr e (flat_map (named m) prev) /\ epos e = Some 0%nat /\ estandalone e = true /\ ename e = m.

Lemma flat_map_map_comp {A B C} (f : A -> B) (g : B -> list C) l : flat_map g (map f l) = flat_map (fun x => g (f x)) l.
Proof. induction l as [|x l IH]; cbn; [reflexivity|now rewrite IH]. Qed.

Lemma names_single m prev :
  prev <> [] -> Forall (fun p => elem_names p = [m]) prev ->
  forall x, In x (flat_map elem_names prev) <-> x = m.
Proof.
  intros Hne Hf x. rewrite in_flat_map. split.
  - intros [p [Hp Hx]]. rewrite Forall_forall in Hf. rewrite (Hf p Hp) in Hx. destruct Hx as [<-|[]]. reflexivity.
  - intros ->. destruct prev as [|p prev]; [congruence|]. exists p. split; [now left|].
    inversion Hf as [|? ? Hp _]. rewrite Hp. now left.
Qed.

Lemma single_named m p : elem_names p = [m] -> length (named m p) = 1%nat.
Proof.
  intros H. induction p as [|k p IH]; [discriminate|].
  destruct k as [n ef a kk| | |]; try (apply IH; exact H).
  change (elem_names (NElem n ef a kk :: p)) with (n :: elem_names p) in H.
  injection H as -> Hp.
  change (named m (NElem m ef a kk :: p)) with (if str_eqb m m then NElem m ef a kk :: named m p else named m p).
  rewrite str_eqb_refl.
  assert (E : named m p = []) by (apply named_nil_iff; rewrite Hp; cbn; tauto). now rewrite E.
Qed.

Lemma spec_single_virt m prev :
  Forall (fun p => elem_names p = [m]) prev -> spec_single m (map virt prev) = true.
Proof.
  intros Hf. unfold spec_single. rewrite forallb_forall. intros o Ho.
  apply in_map_iff in Ho. destruct Ho as [p [<- Hp]]. rewrite kids_named_virt.
  rewrite Forall_forall in Hf. rewrite (single_named m p (Hf p Hp)). reflexivity.
Qed.
Lemma spec_mand_virt m prev :
  Forall (fun p => elem_names p = [m]) prev -> spec_mand m (map virt prev) = true.
Proof.
  intros Hf. unfold spec_mand. rewrite forallb_forall. intros o Ho.
  apply in_map_iff in Ho. destruct Ho as [p [<- Hp]]. rewrite kids_named_virt.
  rewrite Forall_forall in Hf. pose proof (single_named m p (Hf p Hp)) as L.
  destruct (named m p); [discriminate|reflexivity].
Qed.

(* the wrapper after the top-level nodes of one more document have been read *)
Lemma wrapper_after w osv top m :
  MidKids w osv top ->
  (forall x, In x (flat_map okidnames osv) \/ In x (elem_names top) <-> x = m) ->
  exists x, echildren w = [x] /\ cname x = m /\ MidChild osv top x.
Proof.
  intros (Hnd & Hn & Hf) Hm.
  assert (E : child_names (echildren w) = [m]).
  { apply nodup_singleton; auto. intros x. now rewrite Hn. }
  destruct (echildren w) as [|x [|y l]]; try discriminate.
  exists x. injection E as E. split; [reflexivity|]. split; [exact E|]. now inversion Hf.
Qed.

Lemma MidKids_wrapper : MidKids wrapper [] [].
Proof. split; [constructor|]. split; [|constructor]. intros x. cbn. tauto. Qed.

Lemma dedup_head m l : dedup (m :: l) = m :: filter (fun y => negb (str_eqb m y)) (dedup l).
Proof. reflexivity. Qed.

Theorem into_struct_dom_inv top m :
  Forall wf_node top -> elem_names top = [m] ->
  exists e, into_struct_dom top = Some e /\ DocsInv e m [top].
Proof.
  intros W Hm. unfold into_struct_dom.
  pose proof (forest_step_wf top wrapper [] [] [] W MidKids_wrapper (fun x => iff_refl _)) as MK.
  cbn [app] in MK.
  destruct (wrapper_after _ _ _ m MK) as (x & Ex & Cx & (R & P & S & _)).
  { intros y. rewrite Hm. cbn. intuition. }
  unfold first_child. rewrite Ex. exists (snd x). split; [reflexivity|].
  rewrite Cx in R, P, S. cbn [flat_map app] in R, P, S.
  split; [discriminate|]. split; [repeat constructor; exact Hm|]. split; [|split; [|split]].
  - cbn [flat_map]. now rewrite app_nil_r.
  - rewrite P, Hm. cbn. now rewrite str_eqb_refl.
  - rewrite S, (single_named m top Hm). reflexivity.
  - exact Cx.
Qed.

Theorem extend_struct_dom_inv e m prev top :
  DocsInv e m prev -> Forall wf_node top -> elem_names top = [m] ->
  exists e', extend_struct_dom e top = Some e' /\ DocsInv e' m (prev ++ [top]).
Proof.
  intros (Hne & Hp & R & P & S & Nm) W Hm. unfold extend_struct_dom.
  set (osv := map virt prev).
  assert (Eok : flat_map okidnames osv = flat_map elem_names prev).
  { unfold osv. rewrite flat_map_map_comp. reflexivity. }
  assert (Ekn : flat_map (kids_named m) osv = flat_map (named m) prev).
  { unfold osv. rewrite flat_map_map_comp. reflexivity. }
  assert (W0 : add_unique_child wrapper e = set_children wrapper [(Mand, e)]).
  { rewrite add_unique_child_fresh by reflexivity. cbn [echildren wrapper new_element app].
    unfold with_pos. now rewrite P. }
  assert (MK0 : MidKids (add_unique_child wrapper e) osv []).
  { rewrite W0. unfold MidKids. rewrite echildren_set_children. cbn [child_names map]. unfold cname at 1 2. cbn [snd].
    rewrite Nm. split; [repeat constructor; cbn; tauto|]. split.
    - intros x. rewrite Eok, (names_single m prev Hne Hp). cbn. intuition.
    - constructor; [|constructor]. unfold MidChild, cname. cbn [fst snd named filter length Nat.leb].
      rewrite Nm, !app_nil_r, andb_true_r, Ekn, Eok. split; [exact R|]. split; [|split; [|split]].
      + rewrite P. f_equal. destruct prev as [|p prev']; [congruence|]. cbn [flat_map].
        inversion Hp as [|? ? Hp1 _]. rewrite Hp1. cbn [app]. rewrite dedup_head. cbn. now rewrite str_eqb_refl.
      + rewrite S. symmetry. now apply spec_single_virt.
      + congruence.
      + intros _. unfold child_tag, osv. now rewrite spec_mand_virt. }
  pose proof (forest_step_wf top _ osv [] [] W MK0 (fun x => iff_refl _)) as MK.
  cbn [app] in MK.
  destruct (wrapper_after _ _ _ m MK) as (x & Ex & Cx & (R' & P' & S' & _)).
  { intros y. rewrite Eok, (names_single m prev Hne Hp), Hm. cbn. intuition. }
  unfold first_child. rewrite Ex. exists (snd x). split; [reflexivity|].
  rewrite Cx in R', P', S'. rewrite Ekn in R'. rewrite Eok in P'.
  split; [destruct prev; discriminate|]. split; [apply Forall_app; split; auto|]. split; [|split; [|split]].
  - rewrite flat_map_snoc. exact R'.
  - rewrite P'. f_equal. destruct prev as [|p prev']; [congruence|]. cbn [flat_map].
    inversion Hp as [|? ? Hp1 _]. rewrite Hp1. cbn [app]. rewrite dedup_head. cbn. now rewrite str_eqb_refl.
  - rewrite S', (single_named m top Hm). unfold osv. rewrite spec_single_virt by exact Hp. reflexivity.
  - exact Cx.
Qed.

Theorem run_dom_inv docs m :
  docs <> [] -> Forall (Forall wf_node) docs -> Forall (fun p => elem_names p = [m]) docs ->
  exists e, run_dom docs = Some e /\ DocsInv e m docs.
Proof.
  intros Hne W Hm. destruct docs as [|d r]; [congruence|]. cbn [run_dom].
  inversion W as [|? ? Wd Wr]; subst. inversion Hm as [|? ? Hd Hr]; subst.
  destruct (into_struct_dom_inv d m Wd Hd) as (e0 & E0 & I0). rewrite E0.
  clear E0 W Hm Hne Wd Hd.
  change (d :: r) with ([d] ++ r). generalize dependent e0. generalize [d] as prev.
  induction r as [|x r IH]; intros prev e0 I0.
  - rewrite app_nil_r. exists e0. auto.
  - inversion Wr as [|? ? Wx Wr']; subst. inversion Hr as [|? ? Hx Hr']; subst.
    cbn [fold_left].
    destruct (extend_struct_dom_inv e0 m prev x I0 Wx Hx) as (e1 & E1 & I1). rewrite E1.
    replace (prev ++ x :: r) with ((prev ++ [x]) ++ r) by (now rewrite <- app_assoc).
    apply IH; auto.
Qed.
