(* C02 / C13: the structs the renderer emits are accepted by the model of the two external
   deserializers (Model/Deser.v: quick_xml::de = qx_flavour, serde-xml-rs = sx_flavour) for
   every source document, and the value holds the document's attribute values and text.
   Part 1: vocabulary on valued documents (`vnode`): effective kids, hereditary predicates
           (wf_vnode, data_oriented = the property's hypothesis, no_text_beside = what the proofs
           use, known_k3_b = the known class K3, adjacent_doc), bridge to the erased document.
   Part 2: character data (`piece_runs`, `text_runs` for both readers), white space, and
           data_oriented -> no_text_beside (serde-xml-rs outright, quick_xml::de outside K3).
   Part 3: `de_as` unfolded into named pieces (`field_val`, `collect`, `unknown_ok`).
   Part 4: the fields of the struct of a tree node, at `field` level; the key spaces.
   Part 5: the main induction (one section for both flavours).
   Part 6: C02 (quick-xml preset).   Part 7: C13 (serde-xml-rs preset), known finding K1.
   Part 8: examples, the witness of the known finding K3. *)
From Coq Require Import String Lia Permutation.
From XSG.Model Require Import Strings Chars Convert Necessity Element Parser Dom Spec Render Deser.
From XSG.Proofs Require Import StringsProofs NecessityProofs ElementProofs SpecProofs SkelProofs
     ReprDefs ExactProofs RenderProofs ReflectProofs StructTableProofs AdmitProofs.
From XSG.Corr Require Import Common Oracles.
Open Scope list_scope.

(* ====================================================================== *)
(* Part 1. valued documents                                                *)
(* ====================================================================== *)

(* ---------- nested induction principle ---------- *)
Section VnodeInd.
  Context (P : vnode -> Prop)
          (He : forall n ef attrs ks, Forall P ks -> P (VElem n ef attrs ks))
          (Ht : forall t, P (VText t)) (Hc : forall t, P (VCData t)) (Hm : P VMisc).
  Fixpoint vnode_ind' (v : vnode) : P v :=
    match v with
    | VElem n ef attrs ks =>
        He n ef attrs ks
           ((fix go (l : list vnode) : Forall P l :=
               match l with
               | [] => Forall_nil _
               | k :: r => Forall_cons k (vnode_ind' k) (go r)
               end) ks)
    | VText t => Ht t | VCData t => Hc t | VMisc => Hm
    end.
End VnodeInd.

(* the content of `<x/>` (empty form) is empty, whatever the fourth component *)
Definition eff {A} (ef : bool) (ks : list A) : list A := if ef then [] else ks.

Lemma eff_map {A B} (f : A -> B) ef ks : eff ef (map f ks) = map f (eff ef ks).
Proof. now destruct ef. Qed.
Lemma eff_incl {A} ef (ks : list A) x : In x (eff ef ks) -> In x ks.
Proof. destruct ef; [intros []|auto]. Qed.

Lemma erase_v_elem n ef attrs ks :
  erase_v (VElem n ef attrs ks) = NElem n ef (map fst attrs) (map erase_v ks).
Proof.
  reflexivity.
Qed.

Lemma okids_erase n ef attrs ks :
  okids (erase_v (VElem n ef attrs ks)) = map erase_v (eff ef ks).
Proof. rewrite erase_v_elem, okids_elem. now destruct ef. Qed.

(* ---------- hereditary boolean predicates ---------- *)
(* `deep`: also below an empty-form element (needed only to match `wf_node`) *)
Fixpoint vforallb (deep : bool) (p : bool -> list (str * str) -> list vnode -> bool) (v : vnode) : bool :=
  match v with
  | VElem _ ef attrs kids0 =>
      p ef attrs kids0
      && (if ef && negb deep then true else
          (fix go (ks : list vnode) : bool :=
             match ks with [] => true | k :: r => vforallb deep p k && go r end) kids0)
  | _ => true
  end.

Lemma vforallb_elem deep p n ef attrs ks :
  vforallb deep p (VElem n ef attrs ks) = true <->
  p ef attrs ks = true
  /\ Forall (fun k => vforallb deep p k = true) (if ef && negb deep then [] else ks).
Proof.
  cbn [vforallb]. rewrite andb_true_iff.
  assert (G : forall l,
    (fix go (ks : list vnode) : bool :=
       match ks with [] => true | k :: r => vforallb deep p k && go r end) l = true
    <-> Forall (fun k => vforallb deep p k = true) l).
  { induction l as [|k l IH]; [split; auto|]. rewrite andb_true_iff, IH. split.
    - intros [H1 H2]. now constructor.
    - intros H. inversion H; subst. now split. }
  destruct (ef && negb deep).
  - split; intros [H _]; split; auto.
  - now rewrite G.
Qed.

(* attribute names of every element pairwise distinct *)
Definition wf_vnode_b : vnode -> bool :=
  vforallb true (fun _ attrs _ => nodup_b str_eqb (map fst attrs)).
Definition wf_vnode (v : vnode) : Prop := wf_vnode_b v = true.

(* character data that is only white space *)
Definition blank_kid (k : vnode) : bool :=
  match k with VText t | VCData t => is_nil (trim_start t) | _ => true end.
Definition is_vcdata (k : vnode) : bool := match k with VCData _ => true | _ => false end.

(* THE PROPERTY'S HYPOTHESIS: no element mixes non-whitespace text with child elements, i.e. an
   element that has a child element has only blank character data *)
Definition data_oriented_b : vnode -> bool :=
  vforallb false (fun ef _ kids0 => is_nil (velems (eff ef kids0)) || forallb blank_kid (eff ef kids0)).
Definition data_oriented (v : vnode) : Prop := data_oriented_b v = true.

(* what the proofs need: an element that has a child element delivers no character data
   (`vb`: as the reader of the flavour delivers it) *)
Definition no_text_beside_b (vb : bool) : vnode -> bool :=
  vforallb false (fun ef _ kids0 => is_nil (velems (eff ef kids0)) || is_nil (text_runs vb (eff ef kids0))).
Definition no_text_beside (vb : bool) (v : vnode) : Prop := no_text_beside_b vb v = true.

(* known finding K3 (quick_xml::de only): somewhere (not below an empty-form element) an element
   has a child element and a CDATA section *)
Definition known_k3_b (v : vnode) : bool :=
  negb (vforallb false (fun ef _ kids0 =>
                          negb (has_velem (eff ef kids0) && existsb is_vcdata (eff ef kids0))) v).

(* the occurrences of each child key are adjacent *)
Definition adjacent_b : vnode -> bool :=
  vforallb false (fun ef _ kids0 =>
                    let ekeys := flat_map vkey (eff ef kids0) in
                    forallb (fun b => adjacent b ekeys) ekeys).
Definition adjacent_doc (v : vnode) : Prop := adjacent_b v = true.

Lemma wf_vnode_elem n ef attrs ks :
  wf_vnode (VElem n ef attrs ks) <-> NoDup (map fst attrs) /\ Forall wf_vnode ks.
Proof.
  unfold wf_vnode, wf_vnode_b. rewrite vforallb_elem. rewrite andb_false_r.
  split; intros [H1 H2]; (split; [|exact H2]).
  - now apply nodup_b_NoDup.
  - now apply NoDup_nodup_b.
Qed.

Lemma forallb_blank_kid ks :
  forallb blank_kid ks = true <->
  (forall t, In (VText t) ks \/ In (VCData t) ks -> is_nil (trim_start t) = true).
Proof.
  rewrite forallb_forall. split.
  - intros H t [Ht|Ht]; exact (H _ Ht).
  - intros H k Hk. destruct k as [m ef a kk|t|t|]; cbn [blank_kid]; try reflexivity;
      apply H; [now left|now right].
Qed.

Lemma data_oriented_elem n ef attrs ks :
  data_oriented (VElem n ef attrs ks) <->
  (velems (eff ef ks) <> [] ->
   forall t, In (VText t) (eff ef ks) \/ In (VCData t) (eff ef ks) -> is_nil (trim_start t) = true)
  /\ Forall data_oriented (eff ef ks).
Proof.
  unfold data_oriented, data_oriented_b. rewrite vforallb_elem. rewrite andb_true_r.
  fold (eff ef ks). rewrite <- forallb_blank_kid.
  split; intros [H1 H2]; (split; [|exact H2]).
  - intros Hv. destruct (velems (eff ef ks)); [now destruct Hv|]. exact H1.
  - destruct (velems (eff ef ks)); [reflexivity|]. cbn [is_nil orb]. apply H1. discriminate.
Qed.

Lemma no_text_beside_elem vb n ef attrs ks :
  no_text_beside vb (VElem n ef attrs ks) <->
  (velems (eff ef ks) <> [] -> text_runs vb (eff ef ks) = [])
  /\ Forall (no_text_beside vb) (eff ef ks).
Proof.
  unfold no_text_beside, no_text_beside_b. rewrite vforallb_elem. rewrite andb_true_r.
  fold (eff ef ks).
  split; intros [H1 H2]; (split; [|exact H2]).
  - intros Hv. destruct (velems (eff ef ks)); [now destruct Hv|]. cbn [is_nil orb] in H1.
    now destruct (text_runs vb (eff ef ks)).
  - destruct (velems (eff ef ks)); [reflexivity|]. rewrite H1 by discriminate. reflexivity.
Qed.

Lemma known_k3_elem n ef attrs ks :
  known_k3_b (VElem n ef attrs ks) =
  (has_velem (eff ef ks) && existsb is_vcdata (eff ef ks)) || existsb known_k3_b (eff ef ks).
Proof.
  unfold known_k3_b at 1. cbn [vforallb]. rewrite negb_andb, negb_involutive. f_equal.
  rewrite andb_true_r. destruct ef; [reflexivity|]. unfold eff.
  induction ks as [|k l IH]; [reflexivity|].
  cbn [existsb]. rewrite negb_andb, <- IH. reflexivity.
Qed.

Lemma known_k3_false_elem n ef attrs ks :
  known_k3_b (VElem n ef attrs ks) = false <->
  (velems (eff ef ks) <> [] -> forall t, ~ In (VCData t) (eff ef ks))
  /\ Forall (fun k => known_k3_b k = false) (eff ef ks).
Proof.
  rewrite known_k3_elem, orb_false_iff. unfold has_velem.
  assert (A : existsb known_k3_b (eff ef ks) = false
              <-> Forall (fun k => known_k3_b k = false) (eff ef ks)).
  { rewrite Forall_forall. split.
    - intros H k Hk. destruct (known_k3_b k) eqn:E; [|reflexivity].
      rewrite <- H. symmetry. apply existsb_exists. now exists k.
    - intros H. destruct (existsb known_k3_b (eff ef ks)) eqn:E; [|reflexivity].
      apply existsb_exists in E. destruct E as [k [Hk E]]. now rewrite (H k Hk) in E. }
  rewrite A.
  split; intros [H1 H2]; (split; [|exact H2]).
  - intros Hv t Ht. destruct (velems (eff ef ks)); [now destruct Hv|]. cbn [is_nil negb andb] in H1.
    assert (G : existsb is_vcdata (eff ef ks) = true)
      by (apply existsb_exists; exists (VCData t); split; [exact Ht|reflexivity]).
    rewrite G in H1. discriminate H1.
  - destruct (velems (eff ef ks)); [reflexivity|]. cbn [is_nil negb andb].
    destruct (existsb is_vcdata (eff ef ks)) eqn:E; [|reflexivity].
    apply existsb_exists in E. destruct E as [k [Hk E]].
    destruct k as [m kef a kk|t|t|]; try discriminate E.
    exfalso. apply (H1 ltac:(discriminate) t Hk).
Qed.

Lemma adjacent_doc_elem n ef attrs ks :
  adjacent_doc (VElem n ef attrs ks) <->
  (forall b, In b (flat_map vkey (eff ef ks)) -> adjacent b (flat_map vkey (eff ef ks)) = true)
  /\ Forall adjacent_doc (eff ef ks).
Proof.
  unfold adjacent_doc, adjacent_b. rewrite vforallb_elem. rewrite andb_true_r.
  fold (eff ef ks). cbv zeta. rewrite forallb_forall. reflexivity.
Qed.

Lemma wf_vnode_erase v : wf_vnode v -> wf_node (erase_v v).
Proof.
  induction v as [n ef attrs ks IH| | |] using vnode_ind'; intros H;
    [|constructor|constructor|constructor].
  rewrite erase_v_elem. apply wf_vnode_elem in H. destruct H as [H1 H2].
  constructor; [exact H1|].
  apply Forall_map. rewrite Forall_forall in *. intros k Hk. apply IH; auto.
Qed.

(* ---------- bridge: element kids of a valued element and of its erasure ---------- *)
Definition vnames (ks : list vnode) : list str :=
  flat_map (fun k => match k with VElem m _ _ _ => [m] | _ => [] end) ks.
Definition vchardata (ks : list vnode) : bool :=
  existsb (fun k => match k with VText _ | VCData _ => true | _ => false end) ks.
(* the element kids whose key is b *)
Definition keyed (b : str) (ks : list vnode) : list vnode :=
  filter (fun k => match k with VElem m _ _ _ => str_eqb (elem_key m) b | _ => false end) ks.

Lemma elem_names_erase ks : elem_names (map erase_v ks) = vnames ks.
Proof.
  induction ks as [|k ks IH]; [reflexivity|].
  destruct k as [m ef a kk|t|t|]; cbn [map]; try exact IH.
  rewrite erase_v_elem. change (m :: elem_names (map erase_v ks) = m :: vnames ks). now rewrite IH.
Qed.

Lemma chardata_erase ks : chardata (map erase_v ks) = vchardata ks.
Proof.
  induction ks as [|k ks IH]; [reflexivity|].
  destruct k as [m ef a kk|t|t|]; cbn [map]; try rewrite erase_v_elem;
    unfold chardata, vchardata in *; cbn [existsb erase_v]; now rewrite IH.
Qed.

Lemma vkeys_vnames ks : flat_map vkey ks = map elem_key (vnames ks).
Proof.
  induction ks as [|k ks IH]; [reflexivity|].
  destruct k as [m ef a kk|t|t|]; cbn [flat_map vkey app]; try exact IH.
  unfold vnames. cbn [flat_map app map]. now rewrite IH.
Qed.

Lemma keyed_length b ks :
  List.length (keyed b ks)
  = List.length (filter (fun x => str_eqb (remove_namespace x) b) (vnames ks)).
Proof.
  induction ks as [|k ks IH]; [reflexivity|].
  destruct k as [m ef a kk|t|t|]; try exact IH.
  change (vnames (VElem m ef a kk :: ks)) with (m :: vnames ks).
  change (keyed b (VElem m ef a kk :: ks))
    with (if str_eqb (remove_namespace m) b then VElem m ef a kk :: keyed b ks else keyed b ks).
  cbn [filter]. destruct (str_eqb (remove_namespace m) b); cbn [List.length]; now rewrite IH.
Qed.

Lemma keyed_count b ks : List.length (keyed b ks) = count_local b (map erase_v ks).
Proof.
  unfold count_local. change (kid_names (map erase_v ks)) with (elem_names (map erase_v ks)).
  rewrite elem_names_erase. apply keyed_length.
Qed.

Lemma velems_nil_vnames ks : velems ks = [] <-> vnames ks = [].
Proof.
  induction ks as [|k ks IH]; [split; auto|].
  destruct k as [m ef a kk|t|t|]; cbn; try exact IH. split; discriminate.
Qed.

Lemma in_vnames ks m : In m (vnames ks) <-> exists ef a kk, In (VElem m ef a kk) ks.
Proof.
  unfold vnames. rewrite in_flat_map. split.
  - intros [k [Hk Hm]]. destruct k as [m' ef a kk|t|t|]; [|destruct Hm|destruct Hm|destruct Hm].
    destruct Hm as [<-|[]]. now exists ef, a, kk.
  - intros (ef & a & kk & H). exists (VElem m ef a kk). split; [exact H|now left].
Qed.

(* the root element *)
Lemma doc_root_erase vd : doc_root (map erase_v vd) = option_map erase_v (vdoc_root vd).
Proof.
  unfold doc_root, vdoc_root.
  induction vd as [|k vd IH]; [reflexivity|].
  destruct k as [m ef a kk|t|t|]; cbn [map find]; try exact IH.
  rewrite erase_v_elem. reflexivity.
Qed.

Lemma flat_map_nil_in {A B} (f : A -> list B) l : (forall x, In x l -> f x = []) -> flat_map f l = [].
Proof.
  induction l as [|x l IH]; intros H; [reflexivity|].
  cbn [flat_map]. rewrite (H x) by now left. apply IH. intros y Hy. apply H. now right.
Qed.

(* ====================================================================== *)
(* Part 2. character data                                                  *)
(* ====================================================================== *)

(* without child elements there is exactly one run *)
Lemma piece_runs_single ks : forall cur, velems ks = [] -> exists r, piece_runs ks cur = [r].
Proof.
  induction ks as [|k ks IH]; intros cur H; [now exists cur|].
  destruct k as [m ef a kk|t|t|]; cbn [piece_runs]; [discriminate H| | |]; apply IH; exact H.
Qed.

Lemma run_out_length vb r : (List.length (run_out vb r) <= 1)%nat.
Proof.
  unfold run_out. destruct (if vb then run_text r else run_text_joined r); cbn [List.length]; lia.
Qed.

Lemma run_out_nil vb : run_out vb [] = [].
Proof. destruct vb; reflexivity. Qed.

Lemma text_runs_single vb ks : velems ks = [] -> (List.length (text_runs vb ks) <= 1)%nat.
Proof.
  intros H. unfold text_runs. destruct (piece_runs_single ks [] H) as [r ->].
  cbn [flat_map]. rewrite app_nil_r. apply run_out_length.
Qed.

(* the announced consequence of data-orientation (through `no_text_beside`): at most one run per
   element *)
Lemma data_oriented_runs vb ks :
  (velems ks <> [] -> text_runs vb ks = []) -> (List.length (text_runs vb ks) <= 1)%nat.
Proof.
  intros H. destruct (velems ks) as [|k l] eqn:E.
  - now apply text_runs_single.
  - rewrite H by discriminate. cbn [List.length]. lia.
Qed.

(* without Text / CDATA pieces every run is empty *)
Lemma piece_runs_nochar ks : forall cur r,
  vchardata ks = false -> In r (piece_runs ks cur) -> r = cur \/ r = [].
Proof.
  induction ks as [|k ks IH]; intros cur r H Hin.
  - destruct Hin as [<-|[]]. now left.
  - destruct k as [m ef a kk|t|t|]; cbn [piece_runs] in Hin;
      unfold vchardata in H; cbn [existsb orb] in H; try discriminate H.
    + destruct Hin as [<-|Hin]; [now left|]. right.
      destruct (IH [] r H Hin) as [E|E]; exact E.
    + apply (IH cur r H Hin).
Qed.

Lemma text_runs_chardata vb ks : text_runs vb ks <> [] -> vchardata ks = true.
Proof.
  intros H. destruct (vchardata ks) eqn:E; [reflexivity|]. exfalso. apply H.
  unfold text_runs. apply flat_map_nil_in. intros r Hr.
  destruct (piece_runs_nochar ks [] r E Hr) as [-> | ->]; apply run_out_nil.
Qed.

(* the content of a String-typed element holds its (at most one) run *)
Lemma text_of_holds vb ks :
  (List.length (text_runs vb ks) <= 1)%nat -> incl (text_runs vb ks) [text_of vb ks].
Proof.
  unfold text_of. destruct (text_runs vb ks) as [|r [|r' l]]; cbn [List.length]; intros H.
  - intros x [].
  - cbn [List.concat]. rewrite app_nil_r. apply incl_refl.
  - lia.
Qed.

(* ---------- white space ---------- *)
Lemma trim_start_nil_iff x : trim_start x = [] <-> forallb is_ws x = true.
Proof.
  induction x as [|c x IH]; [split; reflexivity|].
  cbn [trim_start forallb]. destruct (is_ws c); cbn [andb]; [exact IH|]. split; discriminate.
Qed.

Lemma blank_iff x : is_nil (trim_start x) = true <-> forallb is_ws x = true.
Proof.
  rewrite <- trim_start_nil_iff. destruct (trim_start x); split; intros H; auto; discriminate H.
Qed.

Lemma trim_start_app_ws x y : forallb is_ws x = true -> trim_start (x ++ y) = trim_start y.
Proof.
  induction x as [|c x IH]; intros H; [reflexivity|].
  cbn [forallb] in H. apply andb_true_iff in H. destruct H as [Hc Hx].
  cbn [app trim_start]. rewrite Hc. now apply IH.
Qed.

Lemma trim_end_nil : trim_end [] = [].
Proof. reflexivity. Qed.

Lemma forallb_ws_rev x : forallb is_ws x = true -> forallb is_ws (rev x) = true.
Proof.
  intros H. apply forallb_forall. intros c Hc. apply in_rev in Hc.
  rewrite forallb_forall in H. now apply H.
Qed.

Lemma trim_end_ws x : forallb is_ws x = true -> trim_end x = [].
Proof.
  intros H. unfold trim_end. apply forallb_ws_rev, trim_start_nil_iff in H. now rewrite H.
Qed.

Lemma trim_end_app_ws x y : forallb is_ws y = true -> trim_end (x ++ y) = trim_end x.
Proof.
  intros H. unfold trim_end. rewrite rev_app_distr.
  now rewrite (trim_start_app_ws _ _ (forallb_ws_rev _ H)).
Qed.

Lemma trim_ws x : forallb is_ws x = true -> trim x = [].
Proof. intros H. unfold trim. apply trim_start_nil_iff in H. now rewrite H. Qed.

Lemma trim_nil_iff x : trim x = [] <-> forallb is_ws x = true.
Proof.
  split; [|apply trim_ws]. unfold trim, trim_end. intros H.
  assert (G : trim_start (rev (trim_start x)) = []).
  { rewrite <- (rev_involutive (trim_start (rev (trim_start x)))), H. reflexivity. }
  destruct (trim_start x) as [|c r] eqn:E; [now apply trim_start_nil_iff|].
  exfalso.
  (* trim_start x = c :: r starts with a non-blank character, which survives at the end *)
  assert (Hc : is_ws c = false).
  { clear G H. induction x as [|d x IH]; [discriminate E|]. cbn [trim_start] in E.
    destruct (is_ws d) eqn:Ed; [now apply IH|]. injection E as -> _. exact Ed. }
  apply trim_start_nil_iff in G. rewrite forallb_forall in G.
  assert (Hin : In c (rev (c :: r))) by (apply in_rev; rewrite rev_involutive; now left).
  specialize (G c Hin). rewrite Hc in G. discriminate G.
Qed.

Lemma concat_ws (l : list str) :
  (forall x, In x l -> forallb is_ws x = true) -> forallb is_ws (List.concat l) = true.
Proof.
  induction l as [|x l IH]; intros H; [reflexivity|].
  cbn [List.concat]. rewrite forallb_app, (H x) by now left.
  apply IH. intros y Hy. apply H. now right.
Qed.

(* ---------- the pieces of the runs come from the kids ---------- *)
Lemma piece_runs_forall (P : bool * str -> Prop) ks : forall cur,
  Forall P cur ->
  (forall t, In (VText t) ks -> P (true, t)) -> (forall t, In (VCData t) ks -> P (false, t)) ->
  Forall (Forall P) (piece_runs ks cur).
Proof.
  induction ks as [|k ks IH]; intros cur Hcur Ht Hc.
  - cbn [piece_runs]. constructor; [exact Hcur|constructor].
  - assert (Ht' : forall t, In (VText t) ks -> P (true, t)) by (intros t H; apply Ht; now right).
    assert (Hc' : forall t, In (VCData t) ks -> P (false, t)) by (intros t H; apply Hc; now right).
    destruct k as [m ef a kk|t|t|]; cbn [piece_runs].
    + constructor; [exact Hcur|]. apply IH; auto.
    + apply IH; auto. apply Forall_app. split; [exact Hcur|]. constructor; [|constructor].
      apply Ht. now left.
    + apply IH; auto. apply Forall_app. split; [exact Hcur|]. constructor; [|constructor].
      apply Hc. now left.
    + apply IH; auto.
Qed.

(* a run of blank pieces delivers nothing to serde-xml-rs ... *)
Lemma run_joined_blank ps :
  Forall (fun p => is_nil (trim_start (snd p)) = true) ps -> run_out false ps = [].
Proof.
  intros H. unfold run_out, run_text_joined. cbv zeta. rewrite trim_ws; [reflexivity|].
  apply concat_ws. intros x Hx. apply in_map_iff in Hx. destruct Hx as [p [<- Hp]].
  rewrite Forall_forall in H. apply blank_iff. now apply H.
Qed.

(* ... and a run of blank Text pieces delivers nothing to quick_xml::de *)
Lemma drop_blank_all ps :
  Forall (fun p => fst p = true /\ is_nil (trim_start (snd p)) = true) ps -> drop_blank ps = [].
Proof.
  induction ps as [|[b t] ps IH]; intros H; [reflexivity|].
  inversion H as [|? ? [Hb Ht] Hr]; subst. cbn [fst snd] in Hb, Ht. subst b.
  cbn [drop_blank]. rewrite Ht. now apply IH.
Qed.

Lemma run_text_blank ps :
  Forall (fun p => fst p = true /\ is_nil (trim_start (snd p)) = true) ps -> run_out true ps = [].
Proof. intros H. unfold run_out, run_text. now rewrite (drop_blank_all ps H). Qed.

(* the property's hypothesis gives what the proofs need: for serde-xml-rs outright ... *)
Lemma data_oriented_sx : forall v, data_oriented v -> no_text_beside false v.
Proof.
  induction v as [n ef attrs ks IH| | |] using vnode_ind'; intros H; try reflexivity.
  apply data_oriented_elem in H. destruct H as [H1 H2].
  apply no_text_beside_elem. split.
  - intros Hv. specialize (H1 Hv). unfold text_runs. apply flat_map_nil_in. intros r Hr.
    apply run_joined_blank.
    assert (G : Forall (Forall (fun p : bool * str => is_nil (trim_start (snd p)) = true))
                       (piece_runs (eff ef ks) [])).
    { apply piece_runs_forall; [constructor| |]; intros t Ht; cbn [snd]; apply H1; [now left|now right]. }
    rewrite Forall_forall in G. now apply G.
  - rewrite Forall_forall in *. intros k Hk. apply IH; [exact (eff_incl ef ks k Hk)|now apply H2].
Qed.

(* ... for quick_xml::de outside the known class K3 (no CDATA section beside a child element) *)
Lemma data_oriented_qx : forall v, data_oriented v -> known_k3_b v = false -> no_text_beside true v.
Proof.
  induction v as [n ef attrs ks IH| | |] using vnode_ind'; intros H K; try reflexivity.
  apply data_oriented_elem in H. destruct H as [H1 H2].
  apply known_k3_false_elem in K. destruct K as [K1 K2].
  apply no_text_beside_elem. split.
  - intros Hv. specialize (H1 Hv). specialize (K1 Hv).
    unfold text_runs. apply flat_map_nil_in. intros r Hr. apply run_text_blank.
    assert (G : Forall (Forall (fun p : bool * str => fst p = true /\ is_nil (trim_start (snd p)) = true))
                       (piece_runs (eff ef ks) [])).
    { apply piece_runs_forall; [constructor| |]; intros t Ht; cbn [fst snd].
      - split; [reflexivity|]. apply H1. now left.
      - now destruct (K1 t Ht). }
    rewrite Forall_forall in G. now apply G.
  - rewrite Forall_forall in *. intros k Hk.
    apply IH; [exact (eff_incl ef ks k Hk)|now apply H2|now apply K2].
Qed.

(* ====================================================================== *)
(* Part 3. de_as, unfolded                                                 *)
(* ====================================================================== *)
Definition collect (fl : flavour) (ps : list structdef) (deny : bool) (b : str) (ty : tyname)
  : list vnode -> list (option fval) :=
  fix collect (ks : list vnode) : list (option fval) :=
    match ks with
    | [] => []
    | k :: r =>
        match k with
        | VElem m _ _ _ =>
            if str_eqb (elem_key m) b then de_as fl ps deny k ty :: collect r
            else collect r
        | _ => collect r
        end
    end.

Definition akeys (fl : flavour) (attrs : list (str * str)) : list (str * str) :=
  map (fun a => (attr_key fl (fst a), snd a)) attrs.

Definition from_attrs (fl : flavour) (attrs : list (str * str)) (b : str) : list (option fval) :=
  map (fun a => Some (FStr (snd a))) (filter (fun a => str_eqb (fst a) b) (akeys fl attrs)).
Definition from_text (fl : flavour) (kids : list vnode) (b : str) : list (option fval) :=
  if str_eqb b (fl_text_key fl) then map (fun t => Some (FStr t)) (text_runs (fl_verbatim fl) kids) else [].

(* `kids`: the effective kids *)
Definition field_val (fl : flavour) (ps : list structdef) (deny : bool)
           (attrs : list (str * str)) (kids : list vnode) (f : field) : option (str * fval) :=
  let b := fbound f in
  if negb (fl_overlapped fl) && negb (adjacent b (flat_map vkey kids)) then None
  else
    match all_some (from_attrs fl attrs b ++ from_text fl kids b
                    ++ collect fl ps deny b (f_ty f) kids) with
    | None => None
    | Some vals => match wrap_vals (f_wrap f) vals with
                   | Some x => Some (f_ident f, x)
                   | None => None end
    end.

Definition known (sd : structdef) (b : str) : bool :=
  existsb (fun f => str_eqb (fbound f) b) (sd_fields sd).
Definition unknown_ok (fl : flavour) (deny : bool) (attrs : list (str * str)) (kids : list vnode)
           (sd : structdef) : bool :=
  negb deny
  || (forallb (fun a => known sd (fst a)) (akeys fl attrs) && forallb (known sd) (flat_map vkey kids)
      && (negb (negb (is_nil (text_runs (fl_verbatim fl) kids))) || known sd (fl_text_key fl))).

Lemma de_as_struct fl ps deny n ef attrs kids0 sn :
  de_as fl ps deny (VElem n ef attrs kids0) (TyStruct sn) =
  match find_sd ps sn with
  | None => None
  | Some sd =>
      if unknown_ok fl deny attrs (eff ef kids0) sd then
        match all_some (map (field_val fl ps deny attrs (eff ef kids0)) (sd_fields sd)) with
        | Some fs => Some (FStruct fs)
        | None => None
        end
      else None
  end.
Proof. destruct ef; reflexivity. Qed.

Lemma de_as_string fl ps deny n ef attrs kids0 :
  de_as fl ps deny (VElem n ef attrs kids0) TyString =
  if has_velem (eff ef kids0) then None else Some (FStr (text_of (fl_verbatim fl) (eff ef kids0))).
Proof. destruct ef; reflexivity. Qed.

Lemma collect_keyed fl ps deny b ty ks :
  collect fl ps deny b ty ks = map (fun k => de_as fl ps deny k ty) (keyed b ks).
Proof.
  induction ks as [|k ks IH]; [reflexivity|].
  destruct k as [m ef a kk|t|t|]; try exact IH.
  change (collect fl ps deny b ty (VElem m ef a kk :: ks))
    with (if str_eqb (elem_key m) b
          then de_as fl ps deny (VElem m ef a kk) ty :: collect fl ps deny b ty ks
          else collect fl ps deny b ty ks).
  change (keyed b (VElem m ef a kk :: ks))
    with (if str_eqb (elem_key m) b then VElem m ef a kk :: keyed b ks else keyed b ks).
  destruct (str_eqb (elem_key m) b); [cbn [map]|]; now rewrite IH.
Qed.

(* ---------- all_some, wrap_vals, leaves ---------- *)
Lemma all_some_spec {A} (l : list (option A)) t : all_some l = Some t <-> l = map Some t.
Proof.
  revert t. induction l as [|x l IH]; intros t.
  - cbn [all_some]. split.
    + intros E. injection E as <-. reflexivity.
    + destruct t; [reflexivity|discriminate].
  - cbn [all_some]. destruct x as [x|].
    + destruct (all_some l) as [t'|] eqn:E.
      * split.
        -- intros G. injection G as <-. cbn [map]. f_equal. now apply IH.
        -- destruct t as [|y t]; [discriminate|]. cbn [map]. intros G. injection G as -> G.
           apply IH in G. now injection G as ->.
      * split; [discriminate|]. destruct t as [|y t]; [discriminate|]. cbn [map].
        intros G. injection G as _ G. apply IH in G. discriminate G.
    + split; [discriminate|]. destruct t; discriminate.
Qed.

Lemma all_some_total {A} (l : list (option A)) :
  (forall x, In x l -> x <> None) -> exists t, all_some l = Some t.
Proof.
  induction l as [|x l IH]; intros H; [now exists []|].
  destruct x as [x|]; [|now destruct (H None (or_introl eq_refl))].
  destruct IH as [t E]; [intros y Hy; apply H; now right|].
  exists (x :: t). cbn [all_some]. now rewrite E.
Qed.

Lemma leaves_seq l : leaves (FSeq l) = flat_map leaves l.
Proof. cbn [leaves]. induction l as [|x l IH]; [reflexivity|]. cbn [flat_map]. now rewrite IH. Qed.
Lemma leaves_struct fs : leaves (FStruct fs) = flat_map (fun x => leaves (snd x)) fs.
Proof. cbn [leaves]. induction fs as [|x l IH]; [reflexivity|]. cbn [flat_map]. now rewrite IH. Qed.

Lemma wrap_leaves w vals x : wrap_vals w vals = Some x -> leaves x = flat_map leaves vals.
Proof.
  destruct w, vals as [|y [|z l]]; cbn [wrap_vals]; intros E; try discriminate E;
    injection E as <-; cbn [leaves flat_map]; rewrite ?leaves_seq, ?app_nil_r; reflexivity.
Qed.

(* which value lists each wrapper accepts *)
Lemma wrap_total w (vals : list fval) :
  (match w with WPlain | WVec => (1 <= List.length vals)%nat | _ => True end) ->
  (match w with WPlain | WOption => (List.length vals <= 1)%nat | _ => True end) ->
  exists x, wrap_vals w vals = Some x.
Proof.
  destruct w, vals as [|y [|z l]]; cbn [wrap_vals List.length]; intros H1 H2;
    try lia; eexists; reflexivity.
Qed.

(* ---------- the three sources of values of one field ---------- *)
Lemma from_attrs_none fl attrs b :
  (forall a, In a attrs -> attr_key fl (fst a) <> b) -> from_attrs fl attrs b = [].
Proof.
  intros H. unfold from_attrs, akeys.
  induction attrs as [|a l IH]; [reflexivity|].
  cbn [map filter fst]. rewrite (proj2 (str_eqb_neq _ _)) by (apply H; now left).
  apply IH. intros a' Ha'. apply H. now right.
Qed.

Lemma from_attrs_le1 fl attrs b :
  NoDup (map (fun a => attr_key fl (fst a)) attrs) -> (List.length (from_attrs fl attrs b) <= 1)%nat.
Proof.
  unfold from_attrs, akeys. rewrite map_length.
  induction attrs as [|a l IH]; intros H; [cbn; lia|].
  cbn [map] in H. inversion H as [|? ? Ha Hl]; subst.
  cbn [map filter fst]. destruct (str_eqb_spec (attr_key fl (fst a)) b) as [E|E]; [|now apply IH].
  cbn [List.length].
  assert (G : filter (fun a0 : str * str => str_eqb (fst a0) b)
                     (map (fun a0 : str * str => (attr_key fl (fst a0), snd a0)) l) = []).
  { clear IH Hl H. induction l as [|a' l IH]; [reflexivity|].
    cbn [map filter fst].
    destruct (str_eqb_spec (attr_key fl (fst a')) b) as [E'|E'].
    - exfalso. apply Ha. left. now rewrite E, E'.
    - apply IH. intros Hin. apply Ha. now right. }
  rewrite G. cbn. lia.
Qed.

Lemma from_attrs_in fl attrs an val :
  In (an, val) attrs -> In (Some (FStr val)) (from_attrs fl attrs (attr_key fl an)).
Proof.
  intros H. unfold from_attrs.
  apply (in_map (fun a : str * str => Some (FStr (snd a))) _ (attr_key fl an, val)).
  apply filter_In. split.
  - unfold akeys. apply (in_map (fun a : str * str => (attr_key fl (fst a), snd a)) _ (an, val)). exact H.
  - cbn [fst]. apply str_eqb_refl.
Qed.

Lemma from_text_none fl kids b : b <> fl_text_key fl -> from_text fl kids b = [].
Proof. intros H. unfold from_text. now rewrite (proj2 (str_eqb_neq _ _) H). Qed.

Lemma from_text_length fl kids b :
  (List.length (from_text fl kids b) <= List.length (text_runs (fl_verbatim fl) kids))%nat.
Proof. unfold from_text. destruct (str_eqb b (fl_text_key fl)); [rewrite map_length|cbn]; lia. Qed.

Lemma keyed_none b ks : (forall m, In m (vnames ks) -> elem_key m <> b) -> keyed b ks = [].
Proof.
  intros H. induction ks as [|k ks IH]; [reflexivity|].
  destruct k as [m ef a kk|t|t|]; cbn [keyed filter];
    try (apply IH; intros m' Hm'; apply H; exact Hm').
  rewrite (proj2 (str_eqb_neq _ _)) by (apply H; now left).
  apply IH. intros m' Hm'. apply H. now right.
Qed.

Lemma keyed_in b ks k : In k (keyed b ks) <->
  In k ks /\ exists m ef a kk, k = VElem m ef a kk /\ elem_key m = b.
Proof.
  unfold keyed. rewrite filter_In. split; intros [H1 H2]; (split; [exact H1|]).
  - destruct k as [m ef a kk|t|t|]; try discriminate H2.
    exists m, ef, a, kk. split; [reflexivity|]. now apply str_eqb_eq.
  - destruct H2 as (m & ef & a & kk & -> & E). now apply str_eqb_eq.
Qed.

(* ---------- adjacency ---------- *)
Lemma drop_while_not_notin b ns : ~ In b ns -> drop_while_not b ns = [].
Proof.
  induction ns as [|n l IH]; intros H; [reflexivity|].
  cbn [drop_while_not]. rewrite (proj2 (str_eqb_neq _ _)) by (intros E; apply H; now left).
  apply IH. intros Hin. apply H. now right.
Qed.

Lemma adjacent_notin b ns : ~ In b ns -> adjacent b ns = true.
Proof. intros H. unfold adjacent. now rewrite drop_while_not_notin. Qed.

(* ---------- one field ---------- *)
Definition field_sources (fl : flavour) (ps : list structdef) (deny : bool)
           (attrs : list (str * str)) (kids : list vnode) (f : field) : list (option fval) :=
  from_attrs fl attrs (fbound f) ++ from_text fl kids (fbound f)
  ++ collect fl ps deny (fbound f) (f_ty f) kids.

Lemma field_val_total fl ps deny attrs kids f :
  (fl_overlapped fl = true \/ adjacent (fbound f) (flat_map vkey kids) = true) ->
  (forall z, In z (field_sources fl ps deny attrs kids f) -> z <> None) ->
  (match f_wrap f with
   | WPlain | WVec => (1 <= List.length (field_sources fl ps deny attrs kids f))%nat
   | _ => True end) ->
  (match f_wrap f with
   | WPlain | WOption => (List.length (field_sources fl ps deny attrs kids f) <= 1)%nat
   | _ => True end) ->
  exists x, field_val fl ps deny attrs kids f = Some (f_ident f, x).
Proof.
  intros Hadj Hsome Hlo Hhi. unfold field_val. cbv zeta.
  assert (A : negb (fl_overlapped fl) && negb (adjacent (fbound f) (flat_map vkey kids)) = false).
  { destruct Hadj as [-> | ->]; [reflexivity|apply andb_false_r]. }
  rewrite A. fold (field_sources fl ps deny attrs kids f).
  destruct (all_some_total _ Hsome) as [vals E]. rewrite E.
  apply all_some_spec in E.
  assert (L : List.length vals = List.length (field_sources fl ps deny attrs kids f)).
  { rewrite E. now rewrite map_length. }
  rewrite <- L in Hlo, Hhi.
  destruct (wrap_total (f_wrap f) vals Hlo Hhi) as [x Ex]. rewrite Ex. now exists x.
Qed.

(* a value delivered to a field is held by the field's value *)
Lemma field_val_holds fl ps deny attrs kids f y v :
  field_val fl ps deny attrs kids f = Some y ->
  In (Some v) (field_sources fl ps deny attrs kids f) ->
  incl (leaves v) (leaves (snd y)).
Proof.
  unfold field_val. cbv zeta. fold (field_sources fl ps deny attrs kids f).
  destruct (negb (fl_overlapped fl) && negb (adjacent (fbound f) (flat_map vkey kids)));
    [discriminate|].
  destruct (all_some (field_sources fl ps deny attrs kids f)) as [vals|] eqn:E; [|discriminate].
  destruct (wrap_vals (f_wrap f) vals) as [x|] eqn:Ex; [|discriminate].
  intros G Hin. injection G as <-. cbn [snd]. rewrite (wrap_leaves _ _ _ Ex).
  apply all_some_spec in E. rewrite E in Hin. apply in_map_iff in Hin.
  destruct Hin as [v' [Ev Hv]]. injection Ev as ->.
  intros s0 Hs. apply in_flat_map. now exists v.
Qed.

(* K1, general form: a field whose bound name is no attribute key, no child key and not the
   key character data arrives under receives no value *)
Lemma field_no_value fl ps deny attrs kids f :
  (forall a, In a attrs -> attr_key fl (fst a) <> fbound f) ->
  ~ In (fbound f) (flat_map vkey kids) ->
  fbound f <> fl_text_key fl ->
  field_val fl ps deny attrs kids f
  = match wrap_vals (f_wrap f) [] with Some x => Some (f_ident f, x) | None => None end.
Proof.
  intros Ha Hk Ht. unfold field_val. cbv zeta.
  rewrite (adjacent_notin _ _ Hk). rewrite andb_false_r.
  rewrite (from_attrs_none _ _ _ Ha), (from_text_none _ _ _ Ht), collect_keyed.
  rewrite keyed_none; [reflexivity|].
  intros m Hm E. apply Hk. rewrite vkeys_vnames, <- E. now apply in_map.
Qed.

(* ====================================================================== *)
(* Part 4. the fields of the struct of a tree node; the key spaces         *)
(* ====================================================================== *)
Lemma fbound_erase f : fbound f = Oracles.bound (Oracles.erase_field f).
Proof. reflexivity. Qed.

Lemma fb_attr o m a : fbound (attr_field o m a) = attr_bound o (snd a).
Proof. rewrite fbound_erase. apply (ef_attr o m a). Qed.

Lemma fb_child tbl m p c : fbound (child_field tbl m p c) = remove_namespace (cname c).
Proof. rewrite fbound_erase. apply (ef_child tbl m p c). Qed.

Lemma text_field_inv o m x f :
  In f (text_fields o m x) ->
  etext x = true /\ fbound f = text_identifier o /\ f_wrap f = WOption /\ f_ty f = TyString.
Proof.
  unfold text_fields. destruct (etext x); [|intros []]. intros [<-|[]]. repeat split.
Qed.

Lemma text_field_present o m x : etext x = true -> exists f, In f (text_fields o m x).
Proof. intros H. unfold text_fields. rewrite H. eexists. now left. Qed.

Lemma in_head_attr o tbl x pth a :
  In a (eattrs x) -> In (attr_field o (id_new x) a) (sd_fields (head_struct o tbl x pth)).
Proof.
  intros H. rewrite head_struct_fields. apply in_or_app. left. apply in_map.
  apply (Permutation_in _ (Permutation_sym (StructTableProofs.sorted_attrs_perm o x))). exact H.
Qed.

Lemma in_head_text o tbl x pth f :
  In f (text_fields o (id_new x) x) -> In f (sd_fields (head_struct o tbl x pth)).
Proof.
  intros H. rewrite head_struct_fields. apply in_or_app. right. apply in_or_app. now left.
Qed.

Lemma in_head_child o tbl x pth c :
  In c (echildren x) ->
  In (child_field tbl (id_new x) (pth ++ [ename x]) c) (sd_fields (head_struct o tbl x pth)).
Proof.
  intros H. rewrite head_struct_fields. apply in_or_app. right. apply in_or_app. right.
  apply in_map.
  apply (Permutation_in _ (Permutation_sym (StructTableProofs.sorted_children_perm o x))). exact H.
Qed.

Inductive fcls (o : options) (tbl : name_table) (x : element) (pth : path) (f : field) : Prop :=
| fcA (a : nec * str) : In a (eattrs x) -> f = attr_field o (id_new x) a -> fcls o tbl x pth f
| fcT : In f (text_fields o (id_new x) x) -> fcls o tbl x pth f
| fcC (c : nec * element) :
    In c (echildren x) -> f = child_field tbl (id_new x) (pth ++ [ename x]) c -> fcls o tbl x pth f.

Lemma head_fields_cls o tbl x pth f :
  In f (sd_fields (head_struct o tbl x pth)) -> fcls o tbl x pth f.
Proof.
  rewrite head_struct_fields, !in_app_iff. intros [H|[H|H]].
  - apply in_map_iff in H. destruct H as [a [<- Ha]].
    apply (Permutation_in _ (StructTableProofs.sorted_attrs_perm o x)) in Ha. now apply (fcA _ _ _ _ _ a).
  - now apply fcT.
  - apply in_map_iff in H. destruct H as [c [<- Hc]].
    apply (Permutation_in _ (StructTableProofs.sorted_children_perm o x)) in Hc. now apply (fcC _ _ _ _ _ c).
Qed.

Lemma find_sd_in all d : NoDup (map sd_name all) -> In d all -> find_sd all (sd_name d) = Some d.
Proof.
  unfold find_sd. induction all as [|y l IH]; intros Hnd Hin; [destruct Hin|].
  cbn [map] in Hnd. inversion Hnd as [|? ? Hy Hl]; subst. cbn [find].
  destruct Hin as [->|Hin]; [now rewrite str_eqb_refl|].
  destruct (str_eqb_spec (sd_name y) (sd_name d)) as [E|E]; [|now apply IH].
  exfalso. apply Hy. rewrite E. now apply in_map.
Qed.

(* the three key spaces of the struct of a node are apart: attribute keys / child keys /
   the text identifier and the key character data arrives under *)
Definition node_keys_ok (fl : flavour) (o : options) (x : element) : Prop :=
  (forall a c, In a (eattrs x) -> In c (echildren x) ->
               attr_bound o (snd a) <> remove_namespace (cname c))
  /\ (forall a, In a (eattrs x) ->
                attr_bound o (snd a) <> fl_text_key fl /\ attr_bound o (snd a) <> text_identifier o)
  /\ (forall c, In c (echildren x) ->
                remove_namespace (cname c) <> fl_text_key fl
                /\ remove_namespace (cname c) <> text_identifier o).

Inductive KeysOK (fl : flavour) (o : options) : element -> Prop :=
| KeysOK_intro x :
    node_keys_ok fl o x -> Forall (fun c => KeysOK fl o (snd c)) (echildren x) -> KeysOK fl o x.

Lemma KeysOK_inv fl o x : KeysOK fl o x ->
  node_keys_ok fl o x /\ Forall (fun c => KeysOK fl o (snd c)) (echildren x).
Proof. intros H. inversion H; subst. now split. Qed.

(* what the value is claimed to hold.  `vb`: the character data as the reader of the flavour
   delivers it (`fl_verbatim`); `keep`: the text of struct-typed elements too;
   `st`: this element is typed String *)
Definition held_kid (held : bool -> element -> vnode -> list str) (x : element) (k : vnode) : list str :=
  match k with
  | VElem m _ _ _ =>
      match get_child (echildren x) m with
      | Some c => held (contains_only_text (snd c)) (snd c) k
      | None => []
      end
  | _ => []
  end.

Fixpoint held (vb keep st : bool) (x : element) (v : vnode) {struct v} : list str :=
  match v with
  | VElem _ ef attrs kids0 =>
      map snd attrs
      ++ (if keep || st then text_runs vb (eff ef kids0) else [])
      ++ (if ef then [] else
          (fix go (ks : list vnode) : list str :=
             match ks with
             | [] => []
             | k :: r =>
                 match k with
                 | VElem m _ _ _ =>
                     match get_child (echildren x) m with
                     | Some c => held vb keep (contains_only_text (snd c)) (snd c) k
                     | None => []
                     end
                 | _ => []
                 end ++ go r
             end) kids0)
  | _ => []
  end.

Lemma held_elem vb keep st x n ef attrs kids0 :
  held vb keep st x (VElem n ef attrs kids0) =
  map snd attrs
  ++ (if keep || st then text_runs vb (eff ef kids0) else [])
  ++ flat_map (held_kid (held vb keep) x) (eff ef kids0).
Proof.
  cbn [held]. do 2 f_equal. destruct ef; [reflexivity|]. unfold eff.
  induction kids0 as [|k r IH]; [reflexivity|]. cbn [flat_map]. rewrite <- IH.
  destruct k; reflexivity.
Qed.

(* ---------- small list facts ---------- *)
Lemma flat_map_nil {A B} (f : A -> list B) l : (forall x, In x l -> f x = []) -> flat_map f l = [].
Proof.
  induction l as [|x l IH]; intros H; [reflexivity|].
  cbn [flat_map]. rewrite (H x) by now left. apply IH. intros y Hy. apply H. now right.
Qed.

Lemma NoDup_map_on {A B} (f : A -> B) (l : list A) :
  (forall x y, In x l -> In y l -> f x = f y -> x = y) -> NoDup l -> NoDup (map f l).
Proof.
  induction l as [|a l IH]; intros Hinj Hnd; [constructor|].
  inversion Hnd as [|? ? Ha Hl]; subst. cbn [map]. constructor.
  - intros Hc. apply in_map_iff in Hc. destruct Hc as [y [Ey Hy]].
    assert (y = a) by (apply Hinj; [now right|now left|exact Ey]). subst. now apply Ha.
  - apply IH; [|exact Hl]. intros x y Hx Hy. apply Hinj; now right.
Qed.

Lemma in_length_pos {A} (x : A) l : In x l -> (1 <= List.length l)%nat.
Proof. destruct l; [intros []|cbn; lia]. Qed.

(* what TreeAdmits says about a valued element, in the vocabulary of valued documents *)
Lemma tree_admits_node x n ef attrs kids0 :
  TreeAdmits x (erase_v (VElem n ef attrs kids0)) ->
  let kids := eff ef kids0 in
  (forall a, In a attrs -> exists t, In (t, fst a) (eattrs x))
  /\ (forall an, In (Mand, an) (eattrs x) -> exists val, In (an, val) attrs)
  /\ (forall c, In c (echildren x) -> fst c = Mand -> In (cname c) (vnames kids))
  /\ (forall c, In c (echildren x) -> estandalone (snd c) = true ->
                (List.length (named (cname c) (map erase_v kids)) <= 1)%nat)
  /\ (vchardata kids = true -> etext x = true)
  /\ (forall m kef ka kk, In (VElem m kef ka kk) kids ->
        exists c, get_child (echildren x) m = Some c /\ TreeAdmits (snd c) (erase_v (VElem m kef ka kk))).
Proof.
  intros HT kids. rewrite erase_v_elem in HT. apply TreeAdmits_elem in HT. cbv zeta in HT.
  rewrite <- erase_v_elem, okids_erase in HT. fold kids in HT.
  destruct HT as (T1 & T2 & T3 & T4 & T5 & T6).
  rewrite elem_names_erase in T3. rewrite chardata_erase in T5.
  repeat split.
  - intros a Ha. specialize (T1 (fst a) (in_map fst _ _ Ha)). apply in_map_iff in T1.
    destruct T1 as [[t a'] [E H]]. cbn [snd] in E. subst a'. now exists t.
  - intros an Ha. specialize (T2 an Ha). apply in_map_iff in T2.
    destruct T2 as [[an' val] [E H]]. cbn [fst] in E. subst an'. now exists val.
  - exact T3.
  - exact T4.
  - exact T5.
  - intros m kef ka kk Hk. rewrite Forall_forall in T6.
    exact (T6 (erase_v (VElem m kef ka kk)) (in_map erase_v _ _ Hk)).
Qed.

(* ====================================================================== *)
(* Part 5. the main induction                                              *)
(* ====================================================================== *)
Section Main.
  Context (fl : flavour) (o : options) (tbl : name_table) (all : list structdef) (deny keep : bool).
  Context (Hpre : attribute_prefix o = fl_attr_prefix fl)
          (Hdeny : deny = true -> text_identifier o = fl_text_key fl)
          (Hkeep : keep = true -> text_identifier o = fl_text_key fl)
          (Hall : NoDup (map sd_name all)).

  Lemma attr_key_bound a : attr_key fl a = attr_bound o a.
  Proof. unfold attr_key, attr_bound. now rewrite Hpre. Qed.

  (* ---------- an element typed String ---------- *)
  Lemma de_string_ok n ef attrs kids0 x :
    contains_only_text x = true ->
    TreeAdmits x (erase_v (VElem n ef attrs kids0)) ->
    de_as fl all deny (VElem n ef attrs kids0) TyString = Some (FStr (text_of (fl_verbatim fl) (eff ef kids0)))
    /\ incl (held (fl_verbatim fl) keep true x (VElem n ef attrs kids0)) [text_of (fl_verbatim fl) (eff ef kids0)].
  Proof.
    intros Hot HT. destruct (tree_admits_node _ _ _ _ _ HT) as (T1 & _ & _ & _ & _ & T6).
    unfold contains_only_text in Hot.
    apply andb_true_iff in Hot. destruct Hot as [Hot Hch].
    apply andb_true_iff in Hot. destruct Hot as [_ Hat].
    assert (Ea : eattrs x = []) by (destruct (eattrs x); [reflexivity|discriminate]).
    assert (Ec : echildren x = []) by (destruct (echildren x); [reflexivity|discriminate]).
    assert (Eattrs : attrs = []).
    { destruct attrs as [|a l]; [reflexivity|]. exfalso.
      destruct (T1 a (or_introl eq_refl)) as [t Ht]. rewrite Ea in Ht. destruct Ht. }
    assert (En : vnames (eff ef kids0) = []).
    { destruct (vnames (eff ef kids0)) as [|m l] eqn:E; [reflexivity|]. exfalso.
      assert (Hm : In m (vnames (eff ef kids0))) by (rewrite E; now left).
      apply in_vnames in Hm. destruct Hm as (kef & ka & kk & Hk).
      destruct (T6 _ _ _ _ Hk) as [c [G _]]. rewrite Ec in G. discriminate G. }
    assert (Ev : velems (eff ef kids0) = []) by now apply velems_nil_vnames.
    split.
    - rewrite de_as_string. unfold has_velem. now rewrite Ev.
    - rewrite held_elem, Eattrs. cbn [map app]. rewrite orb_true_r.
      rewrite flat_map_nil.
      + rewrite app_nil_r. apply text_of_holds, text_runs_single, Ev.
      + intros k _. destruct k as [m kef ka kk|t|t|]; try reflexivity.
        cbn [held_kid]. now rewrite Ec.
  Qed.

  (* ---------- one element typed by the struct of the node x ---------- *)
  Section Node.
    Context (x : element) (pth : path) (attrs : list (str * str)) (kids : list vnode).
    Let path1 := pth ++ [ename x].
    Let sd := head_struct o tbl x pth.
    Context (Hcf : clash_free_tree x = true) (HK : node_keys_ok fl o x)
            (T1 : forall a, In a attrs -> exists t, In (t, fst a) (eattrs x))
            (T2 : forall an, In (Mand, an) (eattrs x) -> exists val, In (an, val) attrs)
            (T3 : forall c, In c (echildren x) -> fst c = Mand -> In (cname c) (vnames kids))
            (T4 : forall c, In c (echildren x) -> estandalone (snd c) = true ->
                            (List.length (named (cname c) (map erase_v kids)) <= 1)%nat)
            (T5 : vchardata kids = true -> etext x = true)
            (T6 : forall m, In m (vnames kids) -> exists c, get_child (echildren x) m = Some c)
            (Hwf : NoDup (map fst attrs))
            (Hdo : (List.length (text_runs (fl_verbatim fl) kids) <= 1)%nat)
            (Hadj : forall b, fl_overlapped fl = true \/ adjacent b (flat_map vkey kids) = true)
            (Hkids : forall m kef ka kk c,
                In (VElem m kef ka kk) kids -> get_child (echildren x) m = Some c ->
                exists valk,
                  de_as fl all deny (VElem m kef ka kk) (f_ty (child_field tbl (id_new x) path1 c))
                  = Some valk
                  /\ incl (held (fl_verbatim fl) keep (contains_only_text (snd c)) (snd c) (VElem m kef ka kk))
                          (leaves valk)).

    Lemma kid_child m : In m (vnames kids) ->
      exists c, get_child (echildren x) m = Some c /\ In c (echildren x) /\ cname c = m.
    Proof.
      intros Hm. destruct (T6 m Hm) as [c G]. exists c. split; [exact G|].
      exact (get_child_some _ _ _ G).
    Qed.

    (* the kids whose key is the local name of the child c are the kids named like c *)
    Lemma kid_key_child m c :
      In m (vnames kids) -> In c (echildren x) -> elem_key m = remove_namespace (cname c) ->
      get_child (echildren x) m = Some c.
    Proof.
      intros Hm Hc E. destruct (kid_child m Hm) as [c' (G & Hc' & Hm')].
      destruct (clash_free_inv _ Hcf) as (_ & Hcn & _).
      assert (c' = c).
      { apply (nodup_map_inj (fun c : nec * element => remove_namespace (cname c)) (echildren x));
          auto. cbv beta. rewrite Hm'. exact E. }
      now subst c'.
    Qed.

    Lemma attr_keys_nodup : NoDup (map (fun a : str * str => attr_key fl (fst a)) attrs).
    Proof.
      rewrite <- (map_map fst (attr_key fl)). apply NoDup_map_on; [|exact Hwf].
      intros a1 a2 H1 H2 E.
      apply in_map_iff in H1. destruct H1 as [p1 [<- H1]].
      apply in_map_iff in H2. destruct H2 as [p2 [<- H2]].
      destruct (T1 p1 H1) as [t1 Ht1]. destruct (T1 p2 H2) as [t2 Ht2].
      rewrite !attr_key_bound, !attr_bound_eq in E. apply app_inv_head in E.
      destruct (clash_free_inv _ Hcf) as (Han & _ & _).
      assert (G : (t1, fst p1) = (t2, fst p2)).
      { apply (nodup_map_inj (fun a : nec * str => attr_local (snd a)) (eattrs x)); auto. }
      now injection G.
    Qed.

    (* ---------- where the values of each kind of field come from ---------- *)
    Lemma src_attr a : In a (eattrs x) ->
      field_sources fl all deny attrs kids (attr_field o (id_new x) a)
      = from_attrs fl attrs (attr_bound o (snd a)).
    Proof.
      intros Ha. destruct HK as (K1 & K2 & _).
      unfold field_sources. rewrite fb_attr.
      rewrite (from_text_none _ _ _ (proj1 (K2 a Ha))), collect_keyed, keyed_none.
      - cbn [map app]. apply app_nil_r.
      - intros m Hm E. destruct (kid_child m Hm) as [c (_ & Hc & Hcm)].
        apply (K1 a c Ha Hc). rewrite Hcm. symmetry. exact E.
    Qed.

    Lemma src_text f : In f (text_fields o (id_new x) x) ->
      field_sources fl all deny attrs kids f = from_text fl kids (text_identifier o).
    Proof.
      intros Hf. destruct (text_field_inv _ _ _ _ Hf) as (_ & B & _).
      destruct HK as (_ & K2 & K3).
      unfold field_sources. rewrite B, collect_keyed, keyed_none, from_attrs_none.
      - cbn [map app]. apply app_nil_r.
      - intros a Ha. destruct (T1 a Ha) as [t Ht]. rewrite attr_key_bound.
        exact (proj2 (K2 _ Ht)).
      - intros m Hm E. destruct (kid_child m Hm) as [c (_ & Hc & Hcm)].
        apply (proj2 (K3 c Hc)). rewrite Hcm. exact E.
    Qed.

    Lemma src_child c : In c (echildren x) ->
      field_sources fl all deny attrs kids (child_field tbl (id_new x) path1 c)
      = map (fun k => de_as fl all deny k (f_ty (child_field tbl (id_new x) path1 c)))
            (keyed (remove_namespace (cname c)) kids).
    Proof.
      intros Hc. destruct HK as (K1 & _ & K3).
      unfold field_sources. rewrite fb_child.
      rewrite (from_text_none _ _ _ (proj1 (K3 c Hc))), collect_keyed, from_attrs_none.
      - reflexivity.
      - intros a Ha. destruct (T1 a Ha) as [t Ht]. rewrite attr_key_bound.
        exact (K1 _ c Ht Hc).
    Qed.

    Lemma keyed_child_length c : In c (echildren x) ->
      List.length (keyed (remove_namespace (cname c)) kids)
      = List.length (named (cname c) (map erase_v kids)).
    Proof.
      intros Hc. rewrite keyed_count. apply count_local_named.
      intros n' Hn' E. rewrite elem_names_erase in Hn'.
      pose proof (kid_key_child n' c Hn' Hc E) as G.
      symmetry. exact (proj2 (get_child_some _ _ _ G)).
    Qed.

    (* ---------- every field receives a value its wrapper accepts ---------- *)
    Lemma field_total f : In f (sd_fields sd) ->
      exists y, field_val fl all deny attrs kids f = Some y.
    Proof.
      intros Hf. destruct (head_fields_cls _ _ _ _ _ Hf) as [a Ha ->|Hft|c Hc ->].
      - (* attribute *)
        destruct (field_val_total fl all deny attrs kids (attr_field o (id_new x) a)) as [y Ey];
          [apply Hadj| | | |eexists; exact Ey]; rewrite (src_attr a Ha).
        + intros z Hz. unfold from_attrs in Hz. apply in_map_iff in Hz.
          destruct Hz as [p [<- _]]. discriminate.
        + destruct a as [[|] an]; unfold attr_field; cbn [f_wrap fst snd]; [exact I|].
          destruct (T2 an Ha) as [val Hval]. rewrite <- attr_key_bound.
          exact (in_length_pos _ _ (from_attrs_in fl attrs an val Hval)).
        + destruct a as [[|] an]; unfold attr_field; cbn [f_wrap fst snd];
            apply from_attrs_le1, attr_keys_nodup.
      - (* text *)
        destruct (text_field_inv _ _ _ _ Hft) as (_ & _ & W & _).
        destruct (field_val_total fl all deny attrs kids f) as [y Ey];
          [apply Hadj| | | |eexists; exact Ey]; rewrite (src_text f Hft), ?W.
        + intros z Hz. unfold from_text in Hz.
          destruct (str_eqb (text_identifier o) (fl_text_key fl)); [|destruct Hz].
          apply in_map_iff in Hz. destruct Hz as [p [<- _]]. discriminate.
        + exact I.
        + pose proof (from_text_length fl kids (text_identifier o)). lia.
      - (* child *)
        destruct (field_val_total fl all deny attrs kids (child_field tbl (id_new x) path1 c))
          as [y Ey]; [apply Hadj| | | |eexists; exact Ey]; rewrite (src_child c Hc).
        + intros z Hz. apply in_map_iff in Hz. destruct Hz as [k [<- Hk]].
          apply keyed_in in Hk. destruct Hk as [Hk (m & kef & ka & kk & -> & E)].
          assert (Hm : In m (vnames kids)) by (apply in_vnames; now exists kef, ka, kk).
          pose proof (kid_key_child m c Hm Hc E) as G.
          destruct (Hkids m kef ka kk c Hk G) as [valk [Ev _]]. rewrite Ev. discriminate.
        + rewrite map_length, (keyed_child_length c Hc).
          unfold child_field. cbn [f_wrap].
          assert (L : fst c = Mand -> (1 <= List.length (named (cname c) (map erase_v kids)))%nat).
          { intros Hm. specialize (T3 c Hc Hm). rewrite <- elem_names_erase in T3.
            destruct (named (cname c) (map erase_v kids)) eqn:E; [|cbn; lia].
            apply named_nil_iff in E. now destruct E. }
          destruct (estandalone (snd c)), (fst c); cbn [child_wrap]; auto.
        + rewrite map_length, (keyed_child_length c Hc).
          unfold child_field. cbn [f_wrap].
          destruct (estandalone (snd c)) eqn:Es, (fst c); cbn [child_wrap]; auto.
    Qed.

    (* ---------- with deny_unknown_fields: every key of the element is bound ---------- *)
    Lemma node_unknown_ok : unknown_ok fl deny attrs kids sd = true.
    Proof.
      unfold unknown_ok. destruct (negb deny) eqn:End; [reflexivity|].
      apply negb_false_iff in End. cbn [orb].
      apply andb_true_iff; split; [apply andb_true_iff; split|].
      - apply forallb_forall. intros a Ha. unfold akeys in Ha. apply in_map_iff in Ha.
        destruct Ha as [a0 [<- Ha0]]. cbn [fst]. destruct (T1 a0 Ha0) as [t Ht].
        unfold known. apply existsb_exists. exists (attr_field o (id_new x) (t, fst a0)).
        split; [apply in_head_attr; exact Ht|]. rewrite fb_attr, attr_key_bound. apply str_eqb_refl.
      - apply forallb_forall. intros b Hb. rewrite vkeys_vnames in Hb. apply in_map_iff in Hb.
        destruct Hb as [m [<- Hm]]. destruct (kid_child m Hm) as [c (_ & Hc & Hcm)].
        unfold known. apply existsb_exists. exists (child_field tbl (id_new x) path1 c).
        split; [apply in_head_child; exact Hc|]. rewrite fb_child, Hcm. apply str_eqb_refl.
      - destruct (text_runs (fl_verbatim fl) kids) as [|r l] eqn:Er; [reflexivity|]. cbn [is_nil negb orb].
        assert (Ht : etext x = true).
        { apply T5, (text_runs_chardata (fl_verbatim fl)). rewrite Er. discriminate. }
        destruct (text_field_present o (id_new x) x Ht) as [f Hf].
        unfold known. apply existsb_exists. exists f. split; [apply in_head_text; exact Hf|].
        destruct (text_field_inv _ _ _ _ Hf) as (_ & B & _). rewrite B, (Hdeny End).
        apply str_eqb_refl.
    Qed.

    (* ---------- the value of the element ---------- *)
    Lemma node_value :
      exists fs,
        all_some (map (field_val fl all deny attrs kids) (sd_fields sd)) = Some fs
        /\ forall f y, In f (sd_fields sd) -> field_val fl all deny attrs kids f = Some y ->
                       incl (leaves (snd y)) (leaves (FStruct fs)).
    Proof.
      destruct (all_some_total (map (field_val fl all deny attrs kids) (sd_fields sd))) as [fs E].
      { intros z Hz. apply in_map_iff in Hz. destruct Hz as [f [<- Hf]].
        destruct (field_total f Hf) as [y ->]. discriminate. }
      exists fs. split; [exact E|].
      intros f y Hf Ey. apply all_some_spec in E.
      assert (Hy : In y fs).
      { assert (H : In (Some y) (map Some fs)).
        { rewrite <- E, <- Ey. now apply in_map. }
        apply in_map_iff in H. destruct H as [y' [Ey' Hy']]. now injection Ey' as ->. }
      rewrite leaves_struct. intros s0 Hs. apply in_flat_map. now exists y.
    Qed.

    Lemma node_holds fs n ef kids0 :
      kids = eff ef kids0 ->
      (forall f y, In f (sd_fields sd) -> field_val fl all deny attrs kids f = Some y ->
                   incl (leaves (snd y)) (leaves (FStruct fs))) ->
      incl (held (fl_verbatim fl) keep false x (VElem n ef attrs kids0)) (leaves (FStruct fs)).
    Proof.
      intros Ek Hfs. rewrite held_elem, <- Ek, orb_false_r.
      apply incl_app; [|apply incl_app].
      - (* attribute values *)
        intros val Hval. apply in_map_iff in Hval. destruct Hval as [[an val'] [E Ha]].
        cbn [snd] in E. subst val'. destruct (T1 _ Ha) as [t Ht]. cbn [fst] in Ht.
        set (f := attr_field o (id_new x) (t, an)).
        assert (Hf : In f (sd_fields sd)) by (apply in_head_attr; exact Ht).
        destruct (field_total f Hf) as [y Ey].
        apply (Hfs f y Hf Ey).
        apply (field_val_holds _ _ _ _ _ _ _ (FStr val) Ey); [|now left].
        unfold f. rewrite (src_attr _ Ht). cbn [snd]. rewrite <- attr_key_bound.
        now apply from_attrs_in.
      - (* character data *)
        destruct (Bool.bool_dec keep true) as [Ekeep|Ekeep];
          [|apply not_true_is_false in Ekeep; rewrite Ekeep; intros s0 []].
        rewrite Ekeep. intros r Hr.
        assert (Ht : etext x = true).
        { apply T5, (text_runs_chardata (fl_verbatim fl)). intros E. rewrite E in Hr. destruct Hr. }
        destruct (text_field_present o (id_new x) x Ht) as [f Hft].
        assert (Hf : In f (sd_fields sd)) by (apply in_head_text; exact Hft).
        destruct (field_total f Hf) as [y Ey].
        apply (Hfs f y Hf Ey).
        apply (field_val_holds _ _ _ _ _ _ _ (FStr r) Ey); [|now left].
        rewrite (src_text f Hft). unfold from_text. rewrite (Hkeep Ekeep), str_eqb_refl.
        now apply (in_map (fun t => Some (FStr t))).
      - (* child elements *)
        intros s0 Hs. apply in_flat_map in Hs. destruct Hs as [k [Hk Hs]].
        destruct k as [m kef ka kk|t|t|]; try destruct Hs.
        cbn [held_kid] in Hs.
        destruct (get_child (echildren x) m) as [c|] eqn:G; [|destruct Hs].
        destruct (get_child_some _ _ _ G) as [Hc Hcm].
        destruct (Hkids m kef ka kk c Hk G) as [valk [Ev Hv]].
        set (f := child_field tbl (id_new x) path1 c).
        assert (Hf : In f (sd_fields sd)) by (apply in_head_child; exact Hc).
        destruct (field_total f Hf) as [y Ey].
        apply (Hfs f y Hf Ey).
        apply (field_val_holds _ _ _ _ _ _ _ valk Ey); [|apply Hv; exact Hs].
        unfold f. rewrite (src_child c Hc). rewrite <- Ev.
        apply (in_map (fun k => de_as fl all deny k (f_ty (child_field tbl (id_new x) path1 c)))).
        apply keyed_in. split; [exact Hk|]. exists m, kef, ka, kk. split; [reflexivity|].
        unfold elem_key. now rewrite Hcm.
    Qed.
  End Node.

  (* ---------- the induction on the document ---------- *)
  Lemma de_struct_ok : forall v x pth,
    clash_free_tree x = true -> KeysOK fl o x ->
    TreeAdmits x (erase_v v) -> wf_vnode v -> no_text_beside (fl_verbatim fl) v ->
    (fl_overlapped fl = true \/ adjacent_doc v) ->
    incl (render_abs_at o tbl x pth) all ->
    match v with
    | VElem _ _ _ _ =>
        exists val,
          de_as fl all deny v (TyStruct (struct_name_at tbl (pth ++ [ename x]))) = Some val
          /\ incl (held (fl_verbatim fl) keep false x v) (leaves val)
    | _ => True
    end.
  Proof.
    induction v as [n ef attrs ks IH| | |] using vnode_ind';
      intros x pth Hcf HKO HT Hwf Hdo Hadj Hincl; try exact I.
    destruct (KeysOK_inv _ _ _ HKO) as [HK HKc]. rewrite Forall_forall in HKc.
    destruct (tree_admits_node _ _ _ _ _ HT) as (T1 & T2 & T3 & T4 & T5 & T6).
    apply wf_vnode_elem in Hwf. destruct Hwf as [Hwa Hwk]. rewrite Forall_forall in Hwk.
    apply no_text_beside_elem in Hdo. destruct Hdo as [Hd1 Hdk]. rewrite Forall_forall in Hdk.
    apply data_oriented_runs in Hd1.
    destruct (clash_free_inv _ Hcf) as (_ & _ & Hcc). rewrite Forall_forall in Hcc.
    set (kids := eff ef ks) in *.
    assert (Hadj1 : forall b, fl_overlapped fl = true \/ adjacent b (flat_map vkey kids) = true).
    { intros b. destruct Hadj as [H|H]; [now left|]. right.
      apply adjacent_doc_elem in H. destruct H as [H _]. fold kids in H.
      destruct (mem b (flat_map vkey kids)) eqn:E.
      - apply H. now apply mem_spec.
      - apply adjacent_notin. now apply mem_false. }
    assert (Hadjk : forall k, In k kids -> fl_overlapped fl = true \/ adjacent_doc k).
    { intros k Hk. destruct Hadj as [H|H]; [now left|]. right.
      apply adjacent_doc_elem in H. destruct H as [_ H]. rewrite Forall_forall in H. now apply H. }
    assert (Hin : In (head_struct o tbl x pth) all) by apply Hincl, head_struct_in.
    assert (T6' : forall m, In m (vnames kids) -> exists c, get_child (echildren x) m = Some c).
    { intros m Hm. apply in_vnames in Hm. destruct Hm as (kef & ka & kk & Hk).
      destruct (T6 _ _ _ _ Hk) as [c [G _]]. now exists c. }
    assert (Hkids : forall m kef ka kk c,
               In (VElem m kef ka kk) kids -> get_child (echildren x) m = Some c ->
               exists valk,
                 de_as fl all deny (VElem m kef ka kk)
                       (f_ty (child_field tbl (id_new x) (pth ++ [ename x]) c)) = Some valk
                 /\ incl (held (fl_verbatim fl) keep (contains_only_text (snd c)) (snd c) (VElem m kef ka kk))
                         (leaves valk)).
    { intros m kef ka kk c Hk G. destruct (T6 _ _ _ _ Hk) as [c' [G' HTc]].
      rewrite G in G'. injection G' as <-.
      destruct (get_child_some _ _ _ G) as [Hc Hcm].
      unfold child_field. cbn [f_ty].
      destruct (contains_only_text (snd c)) eqn:Eot.
      - destruct (de_string_ok m kef ka kk (snd c) Eot HTc) as [E1 E2].
        eexists. split; [exact E1|exact E2].
      - assert (Hkin : In (VElem m kef ka kk) ks) by (apply (eff_incl ef); exact Hk).
        rewrite Forall_forall in IH.
        apply (IH _ Hkin (snd c) (pth ++ [ename x]) (Hcc c Hc) (HKc c Hc) HTc
                  (Hwk _ Hkin) (Hdk _ Hk) (Hadjk _ Hk)).
        intros d Hd. apply Hincl. exact (child_structs_incl o tbl x pth c Hc Eot d Hd). }
    assert (V : exists fs,
               all_some (map (field_val fl all deny attrs kids)
                             (sd_fields (head_struct o tbl x pth))) = Some fs
               /\ forall f y, In f (sd_fields (head_struct o tbl x pth)) ->
                              field_val fl all deny attrs kids f = Some y ->
                              incl (leaves (snd y)) (leaves (FStruct fs))).
    { eapply (node_value x pth attrs kids); eassumption. }
    destruct V as [fs [E Hfs]].
    exists (FStruct fs). split.
    - rewrite de_as_struct.
      change (struct_name_at tbl (pth ++ [ename x])) with (sd_name (head_struct o tbl x pth)).
      rewrite (find_sd_in all _ Hall Hin). fold kids.
      assert (U : unknown_ok fl deny attrs kids (head_struct o tbl x pth) = true).
      { eapply (node_unknown_ok x pth attrs kids); eassumption. }
      rewrite U, E. reflexivity.
    - eapply (node_holds x pth attrs kids); try eassumption. reflexivity.
  Qed.
End Main.

(* ---------- what `held` covers ---------- *)
Lemma doc_values_elem vb n ef attrs kids0 :
  doc_values vb (VElem n ef attrs kids0)
  = map snd attrs ++ text_runs vb (eff ef kids0) ++ flat_map (doc_values vb) (eff ef kids0).
Proof.
  cbn [doc_values]. do 2 f_equal. destruct ef; [reflexivity|]. unfold eff.
  induction kids0 as [|k r IH]; [reflexivity|]. cbn [flat_map]. now rewrite <- IH.
Qed.

(* with `keep`, everything the document holds *)
Lemma held_all : forall vb v x st,
  TreeAdmits x (erase_v v) -> incl (doc_values vb v) (held vb true st x v).
Proof.
  intros vb. induction v as [n ef attrs ks IH| | |] using vnode_ind'; intros x st HT;
    try (intros s0 []).
  destruct (tree_admits_node _ _ _ _ _ HT) as (_ & _ & _ & _ & _ & T6).
  rewrite doc_values_elem, held_elem. cbn [orb].
  apply incl_app; [apply incl_appl, incl_refl|apply incl_appr].
  apply incl_app; [apply incl_appl, incl_refl|apply incl_appr].
  intros s0 Hs. apply in_flat_map in Hs. destruct Hs as [k [Hk Hs]].
  apply in_flat_map. exists k. split; [exact Hk|].
  destruct k as [m kef ka kk|t|t|]; try destruct Hs.
  destruct (T6 _ _ _ _ Hk) as [c [G HTc]]. cbn [held_kid]. rewrite G.
  rewrite Forall_forall in IH. exact (IH _ (eff_incl ef ks _ Hk) (snd c) _ HTc s0 Hs).
Qed.

(* ---------- from the tree to the rendered output ---------- *)
Lemma vdoc_root_elem vd nd : vdoc_root vd = Some nd -> exists n ef a ks, nd = VElem n ef a ks.
Proof.
  intros H. unfold vdoc_root in H. apply find_some in H. destruct H as [_ H].
  destruct nd as [n ef a ks|t|t|]; try discriminate H. now exists n, ef, a, ks.
Qed.

Theorem de_doc_tree fl o deny keep e vd nd :
  attribute_prefix o = fl_attr_prefix fl ->
  (deny = true -> text_identifier o = fl_text_key fl) ->
  (keep = true -> text_identifier o = fl_text_key fl) ->
  clash_free_tree e = true -> KeysOK fl o e ->
  vdoc_root vd = Some nd -> TreeAdmits e (erase_v nd) ->
  wf_vnode nd -> no_text_beside (fl_verbatim fl) nd -> (fl_overlapped fl = true \/ adjacent_doc nd) ->
  exists v, de_doc fl (render_abs o e) deny vd = Some v
            /\ incl (held (fl_verbatim fl) keep false e nd) (leaves v).
Proof.
  intros Hpre Hdeny Hkeep Hcf HK Hr HT Hwf Hdo Hadj.
  pose proof (struct_names_unique o e (clash_free_Uniq e Hcf)) as Hnd.
  unfold render_abs, render_abs_ord in *.
  set (tbl := compute_struct_names e (compute_name_hints_ord (fun b => b) e)) in *.
  remember (render_abs_at o tbl e []) as all eqn:Eall.
  assert (Hincl : incl (render_abs_at o tbl e []) all) by (rewrite Eall; apply incl_refl).
  pose proof (de_struct_ok fl o tbl all deny keep Hpre Hdeny Hkeep Hnd nd e []
                           Hcf HK HT Hwf Hdo Hadj Hincl) as H.
  destruct (vdoc_root_elem vd nd Hr) as (n & ef & a & ks & ->).
  assert (Hs : exists rest, all = head_struct o tbl e [] :: rest).
  { rewrite Eall, render_struct_shape. eexists. reflexivity. }
  destruct Hs as [rest Hs].
  unfold de_doc. rewrite Hr.
  destruct all as [|r rest']; [discriminate Hs|]. injection Hs as Er _. subst r.
  exact H.
Qed.

(* ---------- documents ---------- *)
Lemma vnames_nil_values vb l : vnames l = [] -> flat_map (doc_values vb) l = [].
Proof.
  induction l as [|k l IH]; intros H; [reflexivity|].
  destruct k as [m ef a kk|t|t|]; [discriminate H| | |]; cbn [flat_map doc_values app]; now apply IH.
Qed.

Lemma flat_doc_values vb vd m nd :
  elem_names (map erase_v vd) = [m] -> vdoc_root vd = Some nd ->
  flat_map (doc_values vb) vd = doc_values vb nd.
Proof.
  rewrite elem_names_erase. unfold vdoc_root.
  induction vd as [|k vd IH]; intros Hm Hr; [discriminate Hr|].
  destruct k as [m' ef a kk|t|t|]; cbn [find] in Hr; try (cbn [flat_map doc_values app]; now apply IH).
  injection Hr as <-. change (vnames (VElem m' ef a kk :: vd)) with (m' :: vnames vd) in Hm.
  injection Hm as _ Hm. cbn [flat_map]. rewrite (vnames_nil_values vb _ Hm). apply app_nil_r.
Qed.

Section Docs.
  Context (vdocs : list (list vnode)) (m : str) (e : element).
  Let docs := map (map erase_v) vdocs.
  Context (Hne : vdocs <> []) (W : Forall (Forall wf_vnode) vdocs)
          (Hm : Forall (fun p => elem_names (map erase_v p) = [m]) vdocs)
          (Hrun : run_dom (map (map erase_v) vdocs) = Some e).

  (* every source document has a root element, well-formed, admitted by the tree *)
  Lemma source_root vd : In vd vdocs ->
    exists nd, vdoc_root vd = Some nd /\ TreeAdmits e (erase_v nd) /\ wf_vnode nd
               /\ (forall vb, flat_map (doc_values vb) vd = doc_values vb nd) /\ In nd vd.
  Proof.
    intros Hd.
    assert (Hdm : elem_names (map erase_v vd) = [m]) by (rewrite Forall_forall in Hm; now apply Hm).
    destruct (doc_root_exists m _ Hdm) as [r Hr].
    pose proof Hr as Hr'. rewrite doc_root_erase in Hr'.
    destruct (vdoc_root vd) as [nd|] eqn:Ev; [|discriminate Hr']. injection Hr' as <-.
    exists nd. split; [reflexivity|].
    assert (Hin : In nd vd) by (unfold vdoc_root in Ev; now apply find_some in Ev).
    split; [|split; [|split]].
    - apply (tree_admits docs m e) with (d := map erase_v vd).
      + unfold docs. destruct vdocs; [now destruct Hne|discriminate].
      + unfold docs. apply Forall_map. eapply Forall_impl; [|exact W].
        intros p Hp. cbv beta in Hp. apply Forall_map. eapply Forall_impl; [|exact Hp].
        intros k. apply wf_vnode_erase.
      + unfold docs. apply Forall_map. exact Hm.
      + exact Hrun.
      + unfold docs. now apply in_map.
      + exact Hr.
    - rewrite Forall_forall in W. specialize (W vd Hd). rewrite Forall_forall in W. now apply W.
    - intros vb. now apply (flat_doc_values vb vd m).
    - exact Hin.
  Qed.
End Docs.

(* ====================================================================== *)
(* Part 6. C02: the quick-xml preset and quick_xml::de                     *)
(* ====================================================================== *)
Lemma qx_attr_bound a : attr_bound quick_xml_de a = 64 :: attr_local a.
Proof. reflexivity. Qed.
Lemma qx_text_key : fl_text_key qx_flavour = 36 :: s "text".
Proof. reflexivity. Qed.
Lemma qx_text_identifier : text_identifier quick_xml_de = fl_text_key qx_flavour.
Proof. reflexivity. Qed.
Lemma qx_ti : text_identifier quick_xml_de = 36 :: s "text".
Proof. reflexivity. Qed.
Lemma qx_opts_plain : opts_plain quick_xml_de.
Proof. now apply quick_xml_opts_plain. Qed.

Lemma keys_ok_qx x : names_plain x = true -> KeysOK qx_flavour quick_xml_de x.
Proof.
  induction x as [n t sx k a ch p IH] using element_ind'. intros Hnp.
  pose proof (names_plain_inv _ Hnp) as Hpl. cbn [echildren] in Hpl.
  rewrite Forall_forall in Hpl, IH.
  constructor.
  - split; [|split].
    + intros a0 c _ Hc. apply (plain_not_attr_bound _ _ _ qx_opts_plain). apply (Hpl c Hc).
    + intros a0 _. rewrite qx_attr_bound, qx_text_key, qx_ti.
      split; discriminate.
    + intros c Hc. rewrite <- qx_text_identifier.
      assert (G : remove_namespace (cname c) <> text_identifier quick_xml_de).
      { intros E. symmetry in E. revert E.
        apply (plain_not_text_identifier _ _ qx_opts_plain). apply (Hpl c Hc). }
      now split.
  - apply Forall_forall. intros c Hc. apply IH; [exact Hc|]. apply (Hpl c Hc).
Qed.

(* tree level *)
Theorem qx_accepts_tree : forall e deny vd nd,
  clash_free_tree e = true -> names_plain e = true ->
  vdoc_root vd = Some nd -> TreeAdmits e (erase_v nd) -> wf_vnode nd ->
  data_oriented nd -> known_k3_b nd = false ->
  exists v, de_doc qx_flavour (render_abs quick_xml_de e) deny vd = Some v
            /\ incl (doc_values true nd) (leaves v).
Proof.
  intros e deny vd nd Hcf Hnp Hr HT Hwf Hdo Hk3.
  destruct (de_doc_tree qx_flavour quick_xml_de deny true e vd nd eq_refl
              (fun _ => eq_refl) (fun _ => eq_refl) Hcf (keys_ok_qx e Hnp) Hr HT Hwf
              (data_oriented_qx nd Hdo Hk3) (or_introl eq_refl)) as [v [E H]].
  exists v. split; [exact E|].
  intros s0 Hs. apply H. exact (held_all true nd e false HT s0 Hs).
Qed.

(* document level: accepted (with and without deny_unknown_fields), and the value holds every
   attribute value and every trimmed character-data run of the document *)
Theorem qx_accepts_holds : forall vdocs m e,
  vdocs <> [] -> Forall (Forall wf_vnode) vdocs ->
  Forall (fun p => elem_names (map erase_v p) = [m]) vdocs ->
  run_dom (map (map erase_v) vdocs) = Some e ->
  clash_free_tree e = true -> names_plain e = true ->
  Forall (Forall data_oriented) vdocs ->
  Forall (Forall (fun v => known_k3_b v = false)) vdocs ->
  forall deny vd, In vd vdocs ->
    exists v, de_doc qx_flavour (render_abs quick_xml_de e) deny vd = Some v
              /\ incl (flat_map (doc_values true) vd) (leaves v).
Proof.
  intros vdocs m e Hne W Hm Hrun Hcf Hnp Hdo Hk3 deny vd Hd.
  destruct (source_root vdocs m e Hne W Hm Hrun vd Hd) as (nd & Hr & HT & Hwf & Hv & Hin).
  rewrite Hv. rewrite Forall_forall in Hdo, Hk3.
  specialize (Hdo vd Hd). specialize (Hk3 vd Hd). rewrite Forall_forall in Hdo, Hk3.
  apply qx_accepts_tree; auto.
Qed.

Corollary qx_accepts : forall vdocs m e,
  vdocs <> [] -> Forall (Forall wf_vnode) vdocs ->
  Forall (fun p => elem_names (map erase_v p) = [m]) vdocs ->
  run_dom (map (map erase_v) vdocs) = Some e ->
  clash_free_tree e = true -> names_plain e = true ->
  Forall (Forall data_oriented) vdocs ->
  Forall (Forall (fun v => known_k3_b v = false)) vdocs ->
  forall deny vd, In vd vdocs ->
    exists v, de_doc qx_flavour (render_abs quick_xml_de e) deny vd = Some v.
Proof.
  intros vdocs m e Hne W Hm Hrun Hcf Hnp Hdo Hk3 deny vd Hd.
  destruct (qx_accepts_holds vdocs m e Hne W Hm Hrun Hcf Hnp Hdo Hk3 deny vd Hd) as [v [E _]].
  now exists v.
Qed.

Corollary qx_holds_all : forall vdocs m e,
  vdocs <> [] -> Forall (Forall wf_vnode) vdocs ->
  Forall (fun p => elem_names (map erase_v p) = [m]) vdocs ->
  run_dom (map (map erase_v) vdocs) = Some e ->
  clash_free_tree e = true -> names_plain e = true ->
  Forall (Forall data_oriented) vdocs ->
  Forall (Forall (fun v => known_k3_b v = false)) vdocs ->
  forall deny vd v, In vd vdocs ->
    de_doc qx_flavour (render_abs quick_xml_de e) deny vd = Some v ->
    incl (flat_map (doc_values true) vd) (leaves v).
Proof.
  intros vdocs m e Hne W Hm Hrun Hcf Hnp Hdo Hk3 deny vd v Hd E.
  destruct (qx_accepts_holds vdocs m e Hne W Hm Hrun Hcf Hnp Hdo Hk3 deny vd Hd) as [v' [E' H]].
  rewrite E in E'. now injection E' as <-.
Qed.

(* ====================================================================== *)
(* Part 7. C13: the serde-xml-rs preset and serde-xml-rs                   *)
(* ====================================================================== *)

(* ---------- hereditary boolean predicates on the tree ---------- *)
Fixpoint eforallb (p : element -> bool) (e : element) : bool :=
  match e with
  | Elem _ _ _ _ _ ch _ =>
      p e && (fix go (cs : list (nec * element)) : bool :=
                match cs with [] => true | c :: r => eforallb p (snd c) && go r end) ch
  end.

Lemma eforallb_inv p e : eforallb p e = true ->
  p e = true /\ Forall (fun c => eforallb p (snd c) = true) (echildren e).
Proof.
  destruct e as [n t x k a ch q]. cbn [eforallb echildren]. intros H.
  apply andb_true_iff in H. destruct H as [H1 H2]. split; [exact H1|]. clear H1.
  induction ch as [|c ch IH]; [constructor|].
  apply andb_true_iff in H2. destruct H2 as [Hc Hr]. constructor; [exact Hc|now apply IH].
Qed.

(* no attribute name contains '@' or '$' (true of every XML name) *)
Definition attrs_plain_b : element -> bool :=
  eforallb (fun x => forallb (fun a => plain_b (snd a)) (eattrs x)).
Definition attrs_plain (e : element) : Prop := attrs_plain_b e = true.

(* at every node the attribute keys are apart from the child keys (serde-xml-rs has one key
   space for both); on local names, which is what both sides bind *)
Definition attrs_vs_children_b : element -> bool :=
  eforallb (fun x => forallb (fun a => negb (mem (attr_local (snd a))
                                                 (map (fun c => remove_namespace (cname c)) (echildren x))))
                             (eattrs x)).
Definition attrs_vs_children (e : element) : Prop := attrs_vs_children_b e = true.

(* the same on the names as they stand, and namespace-freeness (no prefixed element or
   attribute name, no `xmlns` attribute): the vocabulary of the property's text *)
Definition attrs_vs_children_names_b : element -> bool :=
  eforallb (fun x => forallb (fun a => negb (mem (snd a) (child_names (echildren x)))) (eattrs x)).
Definition attrs_vs_children_names (e : element) : Prop := attrs_vs_children_names_b e = true.
Definition nocolon (x : str) : bool := forallb (fun c => negb (c =? colon)) x.
Definition namespace_free_b : element -> bool :=
  eforallb (fun x => forallb (fun a => nocolon (snd a) && negb (str_eqb (snd a) (s "xmlns"))) (eattrs x)
                     && forallb (fun c => nocolon (cname c)) (echildren x)).
Definition namespace_free (e : element) : Prop := namespace_free_b e = true.

Lemma nocolon_after x : nocolon x = true -> after_colon x = None.
Proof.
  induction x as [|c x IH]; [reflexivity|]. cbn [nocolon forallb after_colon]. intros H.
  apply andb_true_iff in H. destruct H as [H1 H2]. apply negb_true_iff in H1. rewrite H1.
  now apply IH.
Qed.
Lemma nocolon_upto x : nocolon x = true -> upto_colon x = None.
Proof.
  induction x as [|c x IH]; [reflexivity|]. cbn [nocolon forallb upto_colon]. intros H.
  apply andb_true_iff in H. destruct H as [H1 H2]. apply negb_true_iff in H1. rewrite H1.
  now rewrite (IH H2).
Qed.
Lemma nocolon_local x : nocolon x = true -> remove_namespace x = x.
Proof. intros H. unfold remove_namespace. now rewrite nocolon_after. Qed.
Lemma nocolon_attr_local x : nocolon x = true -> attr_local x = x.
Proof.
  intros H. unfold attr_local, starts_with_xmlns. rewrite nocolon_upto by exact H.
  now apply nocolon_local.
Qed.

(* for namespace-free trees the two forms of attrs_vs_children coincide *)
Lemma namespace_free_local e :
  namespace_free e -> attrs_vs_children_names e -> attrs_vs_children e.
Proof.
  unfold namespace_free, attrs_vs_children_names, attrs_vs_children.
  induction e as [n t x k a ch p IH] using element_ind'. intros Hn Hv.
  apply eforallb_inv in Hn. destruct Hn as [Hn Hnc].
  apply eforallb_inv in Hv. destruct Hv as [Hv Hvc].
  cbn [eattrs echildren] in *.
  apply andb_true_iff in Hn. destruct Hn as [Hna Hnk].
  rewrite forallb_forall in Hna, Hnk, Hv.
  unfold attrs_vs_children_b. cbn [eforallb]. fold attrs_vs_children_b.
  apply andb_true_iff. split.
  - cbn [eattrs echildren]. apply forallb_forall. intros a0 Ha0.
    specialize (Hna a0 Ha0). apply andb_true_iff in Hna. destruct Hna as [Hna _].
    rewrite (nocolon_attr_local _ Hna).
    replace (map (fun c : nec * element => remove_namespace (cname c)) ch) with (child_names ch).
    + now apply Hv.
    + unfold child_names. apply map_ext_in. intros c Hc. symmetry. apply nocolon_local.
      now apply Hnk.
  - rewrite Forall_forall in IH, Hnc, Hvc.
    clear Hv Hnk Hna. induction ch as [|c ch IHch]; [reflexivity|].
    apply andb_true_iff. split.
    + apply IH; [now left|apply Hnc; now left|apply Hvc; now left].
    + apply IHch; intros c' Hc'; [apply IH|apply Hnc|apply Hvc]; now right.
Qed.

(* ---------- the key spaces for serde-xml-rs (attribute prefix empty) ---------- *)
Lemma attr_local_incl a c : In c (attr_local a) -> In c a.
Proof.
  unfold attr_local. destruct (starts_with_xmlns a); [auto|apply remove_namespace_incl].
Qed.

Lemma keys_ok_sx o x :
  attribute_prefix o = [] -> In 36 (text_identifier o) ->
  names_plain x = true -> attrs_plain x -> attrs_vs_children x -> KeysOK sx_flavour o x.
Proof.
  intros Hp Hti. unfold attrs_plain, attrs_vs_children.
  induction x as [n t sx k a ch p IH] using element_ind'. intros Hnp Hap Hav.
  pose proof (names_plain_inv _ Hnp) as Hpl. cbn [echildren] in Hpl.
  apply eforallb_inv in Hap. destruct Hap as [Hap Hapc].
  apply eforallb_inv in Hav. destruct Hav as [Hav Havc].
  cbn [eattrs echildren] in *.
  rewrite Forall_forall in Hpl, IH, Hapc, Havc. rewrite forallb_forall in Hap, Hav.
  assert (Htk : In 36 (fl_text_key sx_flavour)) by now left.
  assert (A36 : forall a0, In a0 a -> ~ In 36 (attr_bound o (snd a0))).
  { intros a0 Ha0 Hin. rewrite attr_bound_eq, Hp in Hin. cbn [app] in Hin.
    apply attr_local_incl in Hin. destruct (plain_b_spec _ (Hap a0 Ha0)) as [_ H36]. now apply H36. }
  assert (C36 : forall c, In c ch -> ~ In 36 (remove_namespace (cname c))).
  { intros c Hc Hin. apply remove_namespace_incl in Hin.
    destruct (plain_b_spec _ (proj1 (Hpl c Hc))) as [_ H36]. now apply H36. }
  constructor.
  - split; [|split].
    + intros a0 c Ha0 Hc E. specialize (Hav a0 Ha0). apply negb_true_iff in Hav.
      apply mem_false in Hav. apply Hav. rewrite attr_bound_eq, Hp in E. cbn [app] in E.
      rewrite E. now apply (in_map (fun c : nec * element => remove_namespace (cname c))).
    + intros a0 Ha0. split; intros E; apply (A36 a0 Ha0); rewrite E; assumption.
    + intros c Hc. split; intros E; apply (C36 c Hc); rewrite E; assumption.
  - apply Forall_forall. intros c Hc. apply IH; [exact Hc|apply (Hpl c Hc)|now apply Hapc|now apply Havc].
Qed.

(* ---------- what is held without the text of struct-typed elements ---------- *)
Fixpoint attr_values (v : vnode) : list str :=
  match v with
  | VElem _ ef attrs kids0 =>
      map snd attrs
      ++ (if ef then [] else
          (fix go (ks : list vnode) : list str :=
             match ks with [] => [] | k :: r => attr_values k ++ go r end) kids0)
  | _ => []
  end.

Lemma attr_values_elem n ef attrs kids0 :
  attr_values (VElem n ef attrs kids0) = map snd attrs ++ flat_map attr_values (eff ef kids0).
Proof.
  cbn [attr_values]. f_equal. destruct ef; [reflexivity|]. unfold eff.
  induction kids0 as [|k r IH]; [reflexivity|]. cbn [flat_map]. now rewrite <- IH.
Qed.

Lemma held_attrs : forall vb v x keep st,
  TreeAdmits x (erase_v v) -> incl (attr_values v) (held vb keep st x v).
Proof.
  intros vb. induction v as [n ef attrs ks IH| | |] using vnode_ind'; intros x keep st HT;
    try (intros s0 []).
  destruct (tree_admits_node _ _ _ _ _ HT) as (_ & _ & _ & _ & _ & T6).
  rewrite attr_values_elem, held_elem.
  apply incl_app; [apply incl_appl, incl_refl|apply incl_appr, incl_appr].
  intros s0 Hs. apply in_flat_map in Hs. destruct Hs as [k [Hk Hs]].
  apply in_flat_map. exists k. split; [exact Hk|].
  destruct k as [m kef ka kk|t|t|]; try destruct Hs.
  destruct (T6 _ _ _ _ Hk) as [c [G HTc]]. cbn [held_kid]. rewrite G.
  rewrite Forall_forall in IH. exact (IH _ (eff_incl ef ks _ Hk) (snd c) _ _ HTc s0 Hs).
Qed.

(* `d` is an element below `v` whose tree node is text-only, i.e. rendered as String *)
Inductive StringTypedAt : element -> vnode -> vnode -> Prop :=
| sta_here x n ef a ks m kef ka kk c :
    In (VElem m kef ka kk) (eff ef ks) -> get_child (echildren x) m = Some c ->
    contains_only_text (snd c) = true ->
    StringTypedAt x (VElem n ef a ks) (VElem m kef ka kk)
| sta_below x n ef a ks m kef ka kk c d :
    In (VElem m kef ka kk) (eff ef ks) -> get_child (echildren x) m = Some c ->
    StringTypedAt (snd c) (VElem m kef ka kk) d ->
    StringTypedAt x (VElem n ef a ks) d.

Lemma held_string_text vb keep x v d : StringTypedAt x v d ->
  forall st, match d with
             | VElem _ ef _ ks => incl (text_runs vb (eff ef ks)) (held vb keep st x v)
             | _ => True
             end.
Proof.
  induction 1 as [x n ef a ks m kef ka kk c Hk G Hot|x n ef a ks m kef ka kk c d Hk G Hd IH];
    intros st.
  - rewrite held_elem. apply incl_appr, incl_appr.
    intros s0 Hs. apply in_flat_map. exists (VElem m kef ka kk). split; [exact Hk|].
    cbn [held_kid]. rewrite G, Hot, held_elem. rewrite orb_true_r.
    apply in_or_app. right. apply in_or_app. now left.
  - destruct d as [dn def da dks|t|t|]; try exact I.
    rewrite held_elem. apply incl_appr, incl_appr.
    intros s0 Hs. apply in_flat_map. exists (VElem m kef ka kk). split; [exact Hk|].
    cbn [held_kid]. rewrite G. exact (IH _ s0 Hs).
Qed.

(* ---------- tree level, any options with an empty attribute prefix ---------- *)
Theorem sx_accepts_tree_gen : forall o deny keep e vd nd,
  attribute_prefix o = [] -> In 36 (text_identifier o) ->
  (deny = true -> text_identifier o = fl_text_key sx_flavour) ->
  (keep = true -> text_identifier o = fl_text_key sx_flavour) ->
  clash_free_tree e = true -> names_plain e = true -> attrs_plain e -> attrs_vs_children e ->
  vdoc_root vd = Some nd -> TreeAdmits e (erase_v nd) -> wf_vnode nd -> data_oriented nd ->
  adjacent_doc nd ->
  exists v, de_doc sx_flavour (render_abs o e) deny vd = Some v
            /\ incl (held false keep false e nd) (leaves v).
Proof.
  intros o deny keep e vd nd Hp Hti Hd Hk Hcf Hnp Hap Hav Hr HT Hwf Hdo Hadj.
  apply (de_doc_tree sx_flavour o deny keep e vd nd); auto.
  - now apply keys_ok_sx.
  - now apply data_oriented_sx.
Qed.

Lemma sx_text_key_mismatch : text_identifier serde_xml_rs <> fl_text_key sx_flavour.
Proof. discriminate. Qed.

Theorem sx_accepts_tree : forall e vd nd,
  clash_free_tree e = true -> names_plain e = true -> attrs_plain e -> attrs_vs_children e ->
  vdoc_root vd = Some nd -> TreeAdmits e (erase_v nd) -> wf_vnode nd -> data_oriented nd ->
  adjacent_doc nd ->
  exists v, de_doc sx_flavour (render_abs serde_xml_rs e) false vd = Some v
            /\ incl (held false false false e nd) (leaves v).
Proof.
  intros e vd nd. apply (sx_accepts_tree_gen serde_xml_rs false false e vd nd);
    [reflexivity|now left|discriminate|discriminate].
Qed.

(* ---------- document level ---------- *)
Section SxDocs.
  Context (vdocs : list (list vnode)) (m : str) (e : element).
  Context (Hne : vdocs <> []) (W : Forall (Forall wf_vnode) vdocs)
          (Hm : Forall (fun p => elem_names (map erase_v p) = [m]) vdocs)
          (Hrun : run_dom (map (map erase_v) vdocs) = Some e)
          (Hcf : clash_free_tree e = true) (Hnp : names_plain e = true)
          (Hdo : Forall (Forall data_oriented) vdocs)
          (Hap : attrs_plain e) (Hav : attrs_vs_children e)
          (Hadj : Forall (Forall adjacent_doc) vdocs).

  Lemma sx_source vd : In vd vdocs ->
    exists nd v, vdoc_root vd = Some nd /\ TreeAdmits e (erase_v nd)
                 /\ de_doc sx_flavour (render_abs serde_xml_rs e) false vd = Some v
                 /\ incl (held false false false e nd) (leaves v).
  Proof.
    intros Hd.
    destruct (source_root vdocs m e Hne W Hm Hrun vd Hd) as (nd & Hr & HT & Hwf & _ & Hin).
    rewrite Forall_forall in Hdo, Hadj.
    pose proof (Hdo vd Hd) as Hdo1. pose proof (Hadj vd Hd) as Hadj1.
    rewrite Forall_forall in Hdo1, Hadj1.
    destruct (sx_accepts_tree e vd nd Hcf Hnp Hap Hav Hr HT Hwf (Hdo1 _ Hin) (Hadj1 _ Hin))
      as [v [E H]].
    now exists nd, v.
  Qed.

  Theorem sx_accepts : forall vd, In vd vdocs ->
    exists v, de_doc sx_flavour (render_abs serde_xml_rs e) false vd = Some v.
  Proof. intros vd Hd. destruct (sx_source vd Hd) as (nd & v & _ & _ & E & _). now exists v. Qed.

  (* every attribute value of the document is held *)
  Theorem sx_attrs_held : forall vd nd v, In vd vdocs -> vdoc_root vd = Some nd ->
    de_doc sx_flavour (render_abs serde_xml_rs e) false vd = Some v ->
    incl (attr_values nd) (leaves v).
  Proof.
    intros vd nd v Hd Hr E. destruct (sx_source vd Hd) as (nd' & v' & Hr' & HT & E' & H).
    rewrite Hr in Hr'. injection Hr' as <-. rewrite E in E'. injection E' as <-.
    intros s0 Hs. apply H. exact (held_attrs false nd e false false HT s0 Hs).
  Qed.

  (* the character data of every element rendered as String is held *)
  Theorem sx_string_text_held : forall vd nd v dn def da dks,
    In vd vdocs -> vdoc_root vd = Some nd ->
    de_doc sx_flavour (render_abs serde_xml_rs e) false vd = Some v ->
    StringTypedAt e nd (VElem dn def da dks) ->
    incl (text_runs false (eff def dks)) (leaves v).
  Proof.
    intros vd nd v dn def da dks Hd Hr E Hs.
    destruct (sx_source vd Hd) as (nd' & v' & Hr' & HT & E' & H).
    rewrite Hr in Hr'. injection Hr' as <-. rewrite E in E'. injection E' as <-.
    intros s0 Hs0. apply H. exact (held_string_text false false e nd _ Hs false s0 Hs0).
  Qed.
End SxDocs.

(* ---------- K1: the text field of a struct-typed element is never filled ---------- *)
(* per field: whatever the element, the field bound to `$text` receives no value from
   serde-xml-rs (which delivers character data under `$value`), so it comes out as None *)
Lemma sx_text_field_none ps deny x attrs kids f :
  node_keys_ok sx_flavour serde_xml_rs x ->
  (forall a, In a attrs -> exists t, In (t, fst a) (eattrs x)) ->
  (forall m, In m (vnames kids) -> exists c, In c (echildren x) /\ cname c = m) ->
  In f (text_fields serde_xml_rs (id_new x) x) ->
  field_val sx_flavour ps deny attrs kids f = Some (f_ident f, FNone).
Proof.
  intros (K1 & K2 & K3) T1 T6 Hf.
  destruct (text_field_inv _ _ _ _ Hf) as (_ & B & Wr & _).
  rewrite field_no_value; rewrite ?B, ?Wr.
  - reflexivity.
  - intros a Ha. destruct (T1 a Ha) as [t Ht].
    change (attr_key sx_flavour (fst a)) with (attr_bound serde_xml_rs (snd (t, fst a))).
    exact (proj2 (K2 _ Ht)).
  - rewrite vkeys_vnames. intros Hin. apply in_map_iff in Hin. destruct Hin as [m [E Hm]].
    destruct (T6 m Hm) as [c [Hc Hcm]]. apply (proj2 (K3 c Hc)). rewrite Hcm. exact E.
  - exact sx_text_key_mismatch.
Qed.

(* the shape of an accepted struct value: one entry per field, in field order *)
Lemma de_as_struct_inv fl ps deny n ef attrs kids0 sn val :
  de_as fl ps deny (VElem n ef attrs kids0) (TyStruct sn) = Some val ->
  exists sd fs, find_sd ps sn = Some sd /\ val = FStruct fs
                /\ map (field_val fl ps deny attrs (eff ef kids0)) (sd_fields sd) = map Some fs.
Proof.
  rewrite de_as_struct. destruct (find_sd ps sn) as [sd|]; [|discriminate].
  destruct (unknown_ok fl deny attrs (eff ef kids0) sd); [|discriminate].
  destruct (all_some (map (field_val fl ps deny attrs (eff ef kids0)) (sd_fields sd)))
    as [fs|] eqn:E; [|discriminate].
  intros G. injection G as <-. exists sd, fs. split; [reflexivity|]. split; [reflexivity|].
  now apply all_some_spec.
Qed.

(* K1 at the root, for every source document: when the root struct has a text field (some
   source document has character data directly in the root), that field is None in the value
   of every source document *)
Theorem sx_root_text_dropped : forall vdocs m e,
  vdocs <> [] -> Forall (Forall wf_vnode) vdocs ->
  Forall (fun p => elem_names (map erase_v p) = [m]) vdocs ->
  run_dom (map (map erase_v) vdocs) = Some e ->
  clash_free_tree e = true -> names_plain e = true ->
  attrs_plain e -> attrs_vs_children e ->
  forall vd v f, In vd vdocs ->
    de_doc sx_flavour (render_abs serde_xml_rs e) false vd = Some v ->
    In f (text_fields serde_xml_rs (id_new e) e) ->
    exists fs, v = FStruct fs /\ In (f_ident f, FNone) fs.
Proof.
  intros vdocs m e Hne W Hm Hrun Hcf Hnp Hap Hav vd v f Hd E Hf.
  destruct (source_root vdocs m e Hne W Hm Hrun vd Hd) as (nd & Hr & HT & _ & _ & _).
  destruct (vdoc_root_elem vd nd Hr) as (n & ef & a & ks & ->).
  pose proof (struct_names_unique serde_xml_rs e (clash_free_Uniq e Hcf)) as Hnd.
  unfold render_abs, render_abs_ord in *.
  set (tbl := compute_struct_names e (compute_name_hints_ord (fun b => b) e)) in *.
  remember (render_abs_at serde_xml_rs tbl e []) as all eqn:Eall.
  assert (Hs : exists rest, all = head_struct serde_xml_rs tbl e [] :: rest).
  { rewrite Eall, render_struct_shape. eexists. reflexivity. }
  destruct Hs as [rest Hs].
  assert (Hin : In (head_struct serde_xml_rs tbl e []) all) by (rewrite Hs; now left).
  unfold de_doc in E. rewrite Hr in E.
  destruct all as [|r rest']; [discriminate Hs|]. injection Hs as Er _. subst r.
  apply de_as_struct_inv in E. destruct E as (sd & fs & Efind & -> & Emap).
  rewrite (find_sd_in _ _ Hnd Hin) in Efind. injection Efind as <-.
  exists fs. split; [reflexivity|].
  assert (Hkeys : KeysOK sx_flavour serde_xml_rs e)
    by (apply keys_ok_sx; [reflexivity|now left|assumption..]).
  destruct (KeysOK_inv _ _ _ Hkeys) as [HK _].
  destruct (tree_admits_node _ _ _ _ _ HT) as (T1 & _ & _ & _ & _ & T6).
  assert (Ev : field_val sx_flavour (head_struct serde_xml_rs tbl e [] :: rest') false a (eff ef ks) f
               = Some (f_ident f, FNone)).
  { apply (sx_text_field_none _ _ e); auto.
    intros m0 Hm0. apply in_vnames in Hm0. destruct Hm0 as (kef & ka & kk & Hk).
    destruct (T6 _ _ _ _ Hk) as [c [G _]]. exists c. exact (get_child_some _ _ _ G). }
  assert (H : In (Some (f_ident f, FNone)) (map Some fs)).
  { rewrite <- Emap, <- Ev. apply in_map. now apply in_head_text. }
  apply in_map_iff in H. destruct H as [y [Ey Hy]]. now injection Ey as ->.
Qed.

(* ---------- the contrast: the same preset with the text identifier `$value` ---------- *)
Definition serde_xml_rs_value : options :=
  {| text_identifier := s "$value"; attribute_prefix := attribute_prefix serde_xml_rs;
     derive := derive serde_xml_rs; sort := sort serde_xml_rs |}.

Theorem sx_value_accepts_holds : forall vdocs m e,
  vdocs <> [] -> Forall (Forall wf_vnode) vdocs ->
  Forall (fun p => elem_names (map erase_v p) = [m]) vdocs ->
  run_dom (map (map erase_v) vdocs) = Some e ->
  clash_free_tree e = true -> names_plain e = true ->
  Forall (Forall data_oriented) vdocs ->
  attrs_plain e -> attrs_vs_children e -> Forall (Forall adjacent_doc) vdocs ->
  forall deny vd, In vd vdocs ->
    exists v, de_doc sx_flavour (render_abs serde_xml_rs_value e) deny vd = Some v
              /\ incl (flat_map (doc_values false) vd) (leaves v).
Proof.
  intros vdocs m e Hne W Hm Hrun Hcf Hnp Hdo Hap Hav Hadj deny vd Hd.
  destruct (source_root vdocs m e Hne W Hm Hrun vd Hd) as (nd & Hr & HT & Hwf & Hv & Hin).
  rewrite Forall_forall in Hdo, Hadj.
  pose proof (Hdo vd Hd) as Hdo1. pose proof (Hadj vd Hd) as Hadj1.
  rewrite Forall_forall in Hdo1, Hadj1.
  destruct (sx_accepts_tree_gen serde_xml_rs_value deny true e vd nd eq_refl (or_introl eq_refl)
              (fun _ => eq_refl) (fun _ => eq_refl) Hcf Hnp Hap Hav Hr HT Hwf
              (Hdo1 _ Hin) (Hadj1 _ Hin)) as [v [E H]].
  exists v. split; [exact E|]. rewrite Hv.
  intros s0 Hs. apply H. exact (held_all false nd e false HT s0 Hs).
Qed.

(* ---------- C13 in the vocabulary of the property's text ---------- *)
Theorem sx_accepts_nsfree : forall vdocs m e,
  vdocs <> [] -> Forall (Forall wf_vnode) vdocs ->
  Forall (fun p => elem_names (map erase_v p) = [m]) vdocs ->
  run_dom (map (map erase_v) vdocs) = Some e ->
  clash_free_tree e = true -> names_plain e = true ->
  Forall (Forall data_oriented) vdocs ->
  attrs_plain e -> namespace_free e -> attrs_vs_children_names e ->
  Forall (Forall adjacent_doc) vdocs ->
  forall vd, In vd vdocs ->
    exists v, de_doc sx_flavour (render_abs serde_xml_rs e) false vd = Some v.
Proof.
  intros vdocs m e Hne W Hm Hrun Hcf Hnp Hdo Hap Hns Hav Hadj.
  apply (sx_accepts vdocs m e); auto. now apply namespace_free_local.
Qed.

Theorem sx_attrs_held_nsfree : forall vdocs m e,
  vdocs <> [] -> Forall (Forall wf_vnode) vdocs ->
  Forall (fun p => elem_names (map erase_v p) = [m]) vdocs ->
  run_dom (map (map erase_v) vdocs) = Some e ->
  clash_free_tree e = true -> names_plain e = true ->
  Forall (Forall data_oriented) vdocs ->
  attrs_plain e -> namespace_free e -> attrs_vs_children_names e ->
  Forall (Forall adjacent_doc) vdocs ->
  forall vd nd v, In vd vdocs -> vdoc_root vd = Some nd ->
    de_doc sx_flavour (render_abs serde_xml_rs e) false vd = Some v ->
    incl (attr_values nd) (leaves v).
Proof.
  intros vdocs m e Hne W Hm Hrun Hcf Hnp Hdo Hap Hns Hav Hadj.
  apply (sx_attrs_held vdocs m e); auto. now apply namespace_free_local.
Qed.

Theorem sx_string_text_held_nsfree : forall vdocs m e,
  vdocs <> [] -> Forall (Forall wf_vnode) vdocs ->
  Forall (fun p => elem_names (map erase_v p) = [m]) vdocs ->
  run_dom (map (map erase_v) vdocs) = Some e ->
  clash_free_tree e = true -> names_plain e = true ->
  Forall (Forall data_oriented) vdocs ->
  attrs_plain e -> namespace_free e -> attrs_vs_children_names e ->
  Forall (Forall adjacent_doc) vdocs ->
  forall vd nd v dn def da dks,
    In vd vdocs -> vdoc_root vd = Some nd ->
    de_doc sx_flavour (render_abs serde_xml_rs e) false vd = Some v ->
    StringTypedAt e nd (VElem dn def da dks) ->
    incl (text_runs false (eff def dks)) (leaves v).
Proof.
  intros vdocs m e Hne W Hm Hrun Hcf Hnp Hdo Hap Hns Hav Hadj.
  apply (sx_string_text_held vdocs m e); auto. now apply namespace_free_local.
Qed.

(* ====================================================================== *)
(* Part 8. examples                                                        *)
(* ====================================================================== *)
Local Open Scope string_scope.
(* vx_doc1 = <?..?><r id="1"> <a>  hello world </a> <b k="v"><c/></b><b k="w"/></r>
   vx_doc2 = <r id="2" lang="en"><b k="x"><c/><!--..--><c/></b><d> x <![CDATA[ raw ]]> y </d></r><!--..--> *)
Definition vx_doc1 : list vnode :=
  [VMisc;
   VElem (s "r") false [(s "id", s "1")]
     [VText (s " "); VElem (s "a") false [] [VText (s "  hello world ")]; VText (s " ");
      VElem (s "b") false [(s "k", s "v")] [VElem (s "c") true [] []];
      VElem (s "b") true [(s "k", s "w")] []]].
Definition vx_doc2 : list vnode :=
  [VElem (s "r") false [(s "id", s "2"); (s "lang", s "en")]
     [VElem (s "b") false [(s "k", s "x")] [VElem (s "c") true [] []; VMisc; VElem (s "c") true [] []];
      VElem (s "d") false [] [VText (s " x "); VCData (s " raw "); VText (s " y ")]];
   VMisc].
Definition vx_docs := [vx_doc1; vx_doc2].

Ltac all_true := repeat (apply Forall_cons || apply Forall_nil); vm_compute; reflexivity.

Example vx_hypotheses :
  vx_docs <> [] /\ Forall (Forall wf_vnode) vx_docs
  /\ Forall (fun p => elem_names (map erase_v p) = [s "r"]) vx_docs
  /\ Forall (Forall data_oriented) vx_docs
  /\ Forall (Forall (fun v => known_k3_b v = false)) vx_docs
  /\ exists e, run_dom (map (map erase_v) vx_docs) = Some e
               /\ clash_free_tree e = true /\ names_plain e = true.
Proof.
  split; [discriminate|]. split; [all_true|]. split; [all_true|]. split; [all_true|].
  split; [all_true|].
  eexists. split; [vm_compute; reflexivity|]. split; vm_compute; reflexivity.
Qed.

(* the theorem applies to them *)
Example vx_theorem_applies : forall e, run_dom (map (map erase_v) vx_docs) = Some e ->
  forall deny vd, In vd vx_docs ->
    exists v, de_doc qx_flavour (render_abs quick_xml_de e) deny vd = Some v
              /\ incl (flat_map (doc_values true) vd) (leaves v).
Proof.
  intros e He. destruct vx_hypotheses as (H1 & H2 & H3 & H4 & K3 & e' & He' & H5 & H6).
  rewrite He in He'. injection He' as <-.
  exact (qx_accepts_holds vx_docs (s "r") e H1 H2 H3 He H5 H6 H4 K3).
Qed.

(* the values, with deny_unknown_fields *)
Example vx_values_deny :
  match run_dom (map (map erase_v) vx_docs) with
  | Some e => map (de_doc qx_flavour (render_abs quick_xml_de e) true) vx_docs
  | None => []
  end =
  [Some (FStruct [(s "id", FStr (s "1")); (s "lang", FNone); (s "text", FNone);
                  (s "a", FSome (FStr (s "hello world")));
                  (s "b", FSeq [FStruct [(s "k", FStr (s "v")); (s "c", FSome (FSeq [FStruct []]))];
                                FStruct [(s "k", FStr (s "w")); (s "c", FNone)]]);
                  (s "d", FNone)]);
   Some (FStruct [(s "id", FStr (s "2")); (s "lang", FSome (FStr (s "en"))); (s "text", FNone);
                  (s "a", FNone);
                  (s "b", FSeq [FStruct [(s "k", FStr (s "x"));
                                         (s "c", FSome (FSeq [FStruct []; FStruct []]))]]);
                  (s "d", FSome (FStr (s "x  raw  y")))])].
Proof. vm_compute. reflexivity. Qed.

Example vx_doc_values :
  map (flat_map (doc_values true)) vx_docs
  = [[s "1"; s "hello world"; s "v"; s "w"]; [s "2"; s "en"; s "x"; s "x  raw  y"]].
Proof. vm_compute. reflexivity. Qed.

(* a damaged copy of vx_doc1 (one more attribute on the root): rejected when the structs deny
   unknown fields, accepted (and the extra value ignored) when they do not *)
Definition vx_damaged : list vnode :=
  [VElem (s "r") false [(s "id", s "1"); (s "zz", s "q")]
     [VElem (s "b") true [(s "k", s "w")] []]].
Example vx_damaged_rejected :
  match run_dom (map (map erase_v) vx_docs) with
  | Some e => (de_doc qx_flavour (render_abs quick_xml_de e) true vx_damaged,
               option_map leaves (de_doc qx_flavour (render_abs quick_xml_de e) false vx_damaged))
  | None => (None, None)
  end = (None, Some [s "1"; s "w"]).
Proof. vm_compute. reflexivity. Qed.

(* ... and a copy without the mandatory attribute `id` is rejected either way *)
Definition vx_damaged2 : list vnode := [VElem (s "r") false [] [VElem (s "b") true [(s "k", s "w")] []]].
Example vx_damaged2_rejected :
  match run_dom (map (map erase_v) vx_docs) with
  | Some e => map (fun deny => de_doc qx_flavour (render_abs quick_xml_de e) deny vx_damaged2) [true; false]
  | None => []
  end = [None; None].
Proof. vm_compute. reflexivity. Qed.

(* data-orientation is needed: <r>t1<a/>t2</r> mixes text with a child element: two runs, the
   field `$text` is an Option *)
Definition vx_mixed : list vnode :=
  [VElem (s "r") false [] [VText (s "t1"); VElem (s "a") true [] []; VText (s "t2")]].
Example vx_needs_data_oriented :
  match run_dom (map (map erase_v) [vx_mixed]) with
  | Some e => (clash_free_tree e, names_plain e, forallb data_oriented_b vx_mixed,
               de_doc qx_flavour (render_abs quick_xml_de e) false vx_mixed)
  | None => (false, false, true, None)
  end = (true, true, false, None).
Proof. vm_compute. reflexivity. Qed.


(* ---------- the known finding K3 (quick_xml::de) ---------- *)
(* k3_doc = <a><![CDATA[ ]]><b/><![CDATA[ ]]></a>: data-oriented in the property's sense (the
   character data beside <b/> is blank), but quick_xml::de never trims CDATA and delivers the two
   blank sections as two texts: the Option field `$text` is given twice, the document is rejected.
   serde-xml-rs trims them away and accepts. *)
Definition k3_node : vnode :=
  VElem (s "a") false [] [VCData (s " "); VElem (s "b") true [] []; VCData (s " ")].
Example known_k3_witness :
  exists e, run_dom [[erase_v k3_node]] = Some e
            /\ data_oriented k3_node /\ wf_vnode k3_node /\ known_k3_b k3_node = true
            /\ de_doc qx_flavour (render_abs quick_xml_de e) false [k3_node] = None.
Proof. eexists. split; [vm_compute; reflexivity|]. repeat split; vm_compute; reflexivity. Qed.

(* what happens there: the runs as the two readers deliver them; `no_text_beside` for the two;
   the verdict of serde-xml-rs on its own preset *)
Example known_k3_runs :
  match k3_node with
  | VElem _ _ _ ks => (text_runs true ks, text_runs false ks)
  | _ => ([], [])
  end = ([s " "; s " "], [])
  /\ no_text_beside_b true k3_node = false /\ no_text_beside_b false k3_node = true
  /\ match run_dom [[erase_v k3_node]] with
     | Some e => de_doc sx_flavour (render_abs serde_xml_rs e) false [k3_node]
     | None => None
     end = Some (FStruct [(s "text", FNone); (s "b", FStruct [])]).
Proof. repeat split; vm_compute; reflexivity. Qed.

(* the two lemmas from the property's hypothesis apply to the example documents *)
Example vx_no_text_beside :
  Forall (Forall (no_text_beside true)) vx_docs /\ Forall (Forall (no_text_beside false)) vx_docs.
Proof.
  destruct vx_hypotheses as (_ & _ & _ & H4 & K3 & _). split.
  - rewrite Forall_forall in *. intros vd Hd. specialize (H4 vd Hd). specialize (K3 vd Hd).
    rewrite Forall_forall in *. intros v Hv. apply data_oriented_qx; auto.
  - eapply Forall_impl; [|exact H4]. intros vd Hvd. eapply Forall_impl; [|exact Hvd].
    exact data_oriented_sx.
Qed.

(* white space: blank = all white space; trimming a blank string leaves nothing *)
Example blank_example :
  is_nil (trim_start (s " ")) = true /\ trim (s "  ") = [] /\ trim (s " a b ") = s "a b"
  /\ run_text [(false, [])] = Some [] /\ run_text_joined [(false, [])] = None.
Proof. repeat split; vm_compute; reflexivity. Qed.

(* ---------- C13 ---------- *)
(* sx_doc2 = <r id="2"><b k="x"> inner </b><b k="y"/><d><![CDATA[dd]]></d></r> *)
Definition sx_doc2 : list vnode :=
  [VElem (s "r") false [(s "id", s "2")]
     [VElem (s "b") false [(s "k", s "x")] [VText (s " inner ")];
      VElem (s "b") true [(s "k", s "y")] [];
      VElem (s "d") false [] [VCData (s "dd")]]].
Definition sx_docs := [vx_doc1; sx_doc2].

Example sx_hypotheses :
  sx_docs <> [] /\ Forall (Forall wf_vnode) sx_docs
  /\ Forall (fun p => elem_names (map erase_v p) = [s "r"]) sx_docs
  /\ Forall (Forall data_oriented) sx_docs /\ Forall (Forall adjacent_doc) sx_docs
  /\ exists e, run_dom (map (map erase_v) sx_docs) = Some e
               /\ clash_free_tree e = true /\ names_plain e = true
               /\ attrs_plain e /\ namespace_free e /\ attrs_vs_children_names e
               /\ attrs_vs_children e.
Proof.
  split; [discriminate|]. split; [all_true|]. split; [all_true|]. split; [all_true|].
  split; [all_true|].
  eexists. split; [vm_compute; reflexivity|]. repeat split; vm_compute; reflexivity.
Qed.

Example sx_theorem_applies : forall e, run_dom (map (map erase_v) sx_docs) = Some e ->
  forall vd, In vd sx_docs ->
    exists v, de_doc sx_flavour (render_abs serde_xml_rs e) false vd = Some v.
Proof.
  intros e He.
  destruct sx_hypotheses as (H1 & H2 & H3 & H4 & H5 & e' & He' & H6 & H7 & H8 & H9 & H10 & _).
  rewrite He in He'. injection He' as <-.
  exact (sx_accepts_nsfree sx_docs (s "r") e H1 H2 H3 He H6 H7 H4 H8 H9 H10 H5).
Qed.

(* the values: the text ` inner ` of the struct-typed <b> is dropped (K1), the text of the
   String-typed <a>, <d> and every attribute value is held *)
Example sx_values :
  match run_dom (map (map erase_v) sx_docs) with
  | Some e => map (de_doc sx_flavour (render_abs serde_xml_rs e) false) sx_docs
  | None => []
  end =
  [Some (FStruct [(s "id", FStr (s "1")); (s "text", FNone);
                  (s "a", FSome (FStr (s "hello world")));
                  (s "b", FSeq [FStruct [(s "k", FStr (s "v")); (s "text", FNone);
                                         (s "c", FSome (FStruct []))];
                                FStruct [(s "k", FStr (s "w")); (s "text", FNone); (s "c", FNone)]]);
                  (s "d", FNone)]);
   Some (FStruct [(s "id", FStr (s "2")); (s "text", FNone); (s "a", FNone);
                  (s "b", FSeq [FStruct [(s "k", FStr (s "x")); (s "text", FNone); (s "c", FNone)];
                                FStruct [(s "k", FStr (s "y")); (s "text", FNone); (s "c", FNone)]]);
                  (s "d", FSome (FStr (s "dd")))])].
Proof. vm_compute. reflexivity. Qed.

Example sx_doc_values :
  map (flat_map (doc_values false)) sx_docs
  = [[s "1"; s "hello world"; s "v"; s "w"]; [s "2"; s "x"; s "inner"; s "y"; s "dd"]].
Proof. vm_compute. reflexivity. Qed.

(* K1, the concrete witness: <a b="c">d</a> *)
Definition k1_doc : list vnode := [VElem (s "a") false [(s "b", s "c")] [VText (s "d")]].
Example k1_text_dropped :
  match run_dom (map (map erase_v) [k1_doc]) with
  | Some e =>
      let r := de_doc sx_flavour (render_abs serde_xml_rs e) false k1_doc in
      (r, flat_map (doc_values false) k1_doc, option_map leaves r,
       option_map (fun l => mem (s "d") l) (option_map leaves r))
  | None => (None, [], None, None)
  end = (Some (FStruct [(s "b", FStr (s "c")); (s "text", FNone)]),
         [s "c"; s "d"], Some [s "c"], Some false).
Proof. vm_compute. reflexivity. Qed.

(* with deny_unknown_fields the document is even rejected: `$value` is an unknown field *)
Example k1_deny_rejected :
  match run_dom (map (map erase_v) [k1_doc]) with
  | Some e => de_doc sx_flavour (render_abs serde_xml_rs e) true k1_doc
  | None => Some FNone
  end = None.
Proof. vm_compute. reflexivity. Qed.

(* the contrast: with the text identifier `$value` the same document's value holds `d` *)
Example k1_would_hold_with_value :
  match run_dom (map (map erase_v) [k1_doc]) with
  | Some e => map (fun deny => de_doc sx_flavour (render_abs serde_xml_rs_value e) deny k1_doc) [false; true]
  | None => []
  end = [Some (FStruct [(s "b", FStr (s "c")); (s "text", FSome (FStr (s "d")))]);
         Some (FStruct [(s "b", FStr (s "c")); (s "text", FSome (FStr (s "d")))])].
Proof. vm_compute. reflexivity. Qed.

Example sx_value_values :
  match run_dom (map (map erase_v) sx_docs) with
  | Some e => map (fun d => option_map leaves (de_doc sx_flavour (render_abs serde_xml_rs_value e) true d)) sx_docs
  | None => []
  end = [Some [s "1"; s "hello world"; s "v"; s "w"]; Some [s "2"; s "x"; s "inner"; s "y"; s "dd"]].
Proof. vm_compute. reflexivity. Qed.

(* the hypotheses of C13 are needed.
   adjacency: <r><a/><b/><a/></r> is rejected by serde-xml-rs (accepted by quick_xml::de) *)
Definition sx_interleaved : list vnode :=
  [VElem (s "r") false [] [VElem (s "a") true [] []; VElem (s "b") true [] []; VElem (s "a") true [] []]].
Example sx_needs_adjacent :
  match run_dom (map (map erase_v) [sx_interleaved]) with
  | Some e => (forallb adjacent_b sx_interleaved, attrs_vs_children_b e,
               de_doc sx_flavour (render_abs serde_xml_rs e) false sx_interleaved,
               option_map leaves (de_doc qx_flavour (render_abs quick_xml_de e) true sx_interleaved))
  | None => (true, false, Some FNone, None)
  end = (false, true, None, Some []).
Proof. vm_compute. reflexivity. Qed.

(* attribute names apart from child names: <r a="1"><a>x</a></r> — one key `a` for both *)
Definition sx_attr_child : list vnode :=
  [VElem (s "r") false [(s "a", s "1")] [VElem (s "a") false [] [VText (s "x")]]].
Example sx_needs_attrs_vs_children :
  match run_dom (map (map erase_v) [sx_attr_child]) with
  | Some e => (clash_free_tree e, names_plain e, attrs_plain_b e, attrs_vs_children_b e,
               forallb adjacent_b sx_attr_child,
               de_doc sx_flavour (render_abs serde_xml_rs e) false sx_attr_child)
  | None => (false, false, false, true, false, Some FNone)
  end = (true, true, true, false, true, None).
Proof. vm_compute. reflexivity. Qed.

(* ---------- readings (definitions restated, for Properties/C13.v) ---------- *)
Lemma StringTypedAt_reading x v d :
  StringTypedAt x v d <->
  exists n ef a ks m kef ka kk c,
    v = VElem n ef a ks /\ In (VElem m kef ka kk) (eff ef ks)
    /\ get_child (echildren x) m = Some c
    /\ ((contains_only_text (snd c) = true /\ d = VElem m kef ka kk)
        \/ StringTypedAt (snd c) (VElem m kef ka kk) d).
Proof.
  split.
  - intros H. destruct H as [x n ef a ks m kef ka kk c Hk G Hot|x n ef a ks m kef ka kk c d Hk G Hd];
      exists n, ef, a, ks, m, kef, ka, kk, c; repeat split; auto.
  - intros (n & ef & a & ks & m & kef & ka & kk & c & -> & Hk & G & [[Hot ->]|Hd]).
    + now apply (sta_here x n ef a ks m kef ka kk c).
    + now apply (sta_below x n ef a ks m kef ka kk c d).
Qed.

Lemma sx_hypotheses_reading :
  (forall e, attrs_plain e <->
     eforallb (fun x => forallb (fun a => plain_b (snd a)) (eattrs x)) e = true)
  /\ (forall e, namespace_free e <->
        eforallb (fun x => forallb (fun a => nocolon (snd a) && negb (str_eqb (snd a) (s "xmlns")))
                                   (eattrs x)
                           && forallb (fun c => nocolon (cname c)) (echildren x)) e = true)
  /\ (forall e, attrs_vs_children_names e <->
        eforallb (fun x => forallb (fun a => negb (mem (snd a) (child_names (echildren x))))
                                   (eattrs x)) e = true)
  /\ (forall e, attrs_vs_children e <->
        eforallb (fun x => forallb (fun a => negb (mem (attr_local (snd a))
                                                       (map (fun c => remove_namespace (cname c))
                                                            (echildren x))))
                                   (eattrs x)) e = true).
Proof. repeat split; intros H; exact H. Qed.

Lemma serde_xml_rs_value_reading :
  text_identifier serde_xml_rs_value = s "$value"
  /\ attribute_prefix serde_xml_rs_value = attribute_prefix serde_xml_rs
  /\ derive serde_xml_rs_value = derive serde_xml_rs /\ sort serde_xml_rs_value = sort serde_xml_rs.
Proof. repeat split. Qed.

(* `attrs_plain` (a hypothesis the property's text does not spell out, true of every XML name)
   is needed on the model: an attribute called `$value` (not an XML name, but a value of the
   model's type) shares its key with the character data, and its String field gets two values *)
Definition sx_attr_dollar : list vnode :=
  [VElem (s "r") false [(s "$value", s "1")] [VText (s "t")]].
Example sx_needs_attrs_plain :
  match run_dom (map (map erase_v) [sx_attr_dollar]) with
  | Some e => (clash_free_tree e, names_plain e, attrs_vs_children_b e, namespace_free_b e,
               forallb adjacent_b sx_attr_dollar, forallb data_oriented_b sx_attr_dollar,
               attrs_plain_b e,
               de_doc sx_flavour (render_abs serde_xml_rs e) false sx_attr_dollar)
  | None => (false, false, false, false, false, false, true, Some FNone)
  end = (true, true, true, true, true, true, false, None).
Proof. vm_compute. reflexivity. Qed.
