(* C06 — extension = inference from the union of all occurrences.

   The parser's result after parse(D1), extend(D2), ..., extend(Dk) represents (`Repr`,
   Proofs/ReprDefs.v; `run_dom_inv`, Proofs/ExactProofs.v) the concatenation of the root
   occurrences of D1..Dk.  Everything the schema consists of — name, text flag, attributes with
   their Option tag, child fields with their Option tag and Vec flag (`estandalone = false`), and
   the same for the nested structs — is a function of the SET of occurrences, and is monotone in
   that set.  Field order, occurrence counts and positions are not part of the comparison
   (they legitimately depend on the supply order).

     same_schema e e'   the two trees describe the same schema
     le_schema e e'     e' has every field of e, never with a stronger tag

   Main results
     repr_same_set   Repr e os -> Repr e' os' -> os, os' have the same members -> same_schema e e'
     repr_incl       Repr e os -> Repr e' os' -> incl os os'                    -> le_schema e e'
     run_dom_same_set / run_dom_order / run_dom_idem / run_dom_incl / run_dom_mono
                     the same for whole document sequences with a common root name
     run_dom_elementless   an element-less document anywhere after the first changes nothing at all
     extend_total    an extension returns Err (exactly on a fault) or Ok, nothing else *)
From XSG.Model Require Import Strings Necessity Element Parser Dom Spec.
From XSG.Proofs Require Import StringsProofs NecessityProofs ElementProofs SpecProofs SkelProofs
                               ReprDefs ExactProofs ParserFaults DomEquiv.
From Coq Require Import List Bool Lia Permutation.
Import ListNotations.

(* ====================================================================== *)
(* ---------- 1. the two comparisons ---------- *)

(* child c of the left tree has a partner in the child list l' of the right tree *)
Definition child_same (R : element -> element -> Prop) (l' : list (nec * element)) (c : nec * element) : Prop :=
  exists c', get_child l' (cname c) = Some c'
             /\ fst c = fst c' /\ estandalone (snd c) = estandalone (snd c') /\ R (snd c) (snd c').

Fixpoint same_schema (e e' : element) {struct e} : Prop :=
  match e with
  | Elem n t x k a ch p =>
      n = ename e' /\ t = etext e'
      /\ (forall u b, In (u, b) a <-> In (u, b) (eattrs e'))
      /\ (forall m, In m (child_names (echildren e')) -> In m (child_names ch))
      /\ (fix go (l : list (nec * element)) : Prop :=
            match l with
            | [] => True
            | c :: r =>
                (exists c', get_child (echildren e') (ename (snd c)) = Some c'
                            /\ fst c = fst c' /\ estandalone (snd c) = estandalone (snd c')
                            /\ same_schema (snd c) (snd c'))
                /\ go r
            end) ch
  end.

(* the readable form: same name, same text flag, same attribute set with the same tags, same set of
   child names, and every child has a partner of the same name with the same Option tag, the same
   Vec flag and, hereditarily, the same schema *)
Lemma same_schema_unfold e e' :
  same_schema e e' <->
  ename e = ename e' /\ etext e = etext e'
  /\ (forall u b, In (u, b) (eattrs e) <-> In (u, b) (eattrs e'))
  /\ (forall m, In m (child_names (echildren e')) -> In m (child_names (echildren e)))
  /\ Forall (child_same same_schema (echildren e')) (echildren e).
Proof.
  destruct e as [n t x k a ch p]. cbn [same_schema ename etext eattrs echildren].
  assert (G : forall l,
    (fix go (l : list (nec * element)) : Prop :=
            match l with
            | [] => True
            | c :: r =>
                (exists c', get_child (echildren e') (ename (snd c)) = Some c'
                            /\ fst c = fst c' /\ estandalone (snd c) = estandalone (snd c')
                            /\ same_schema (snd c) (snd c'))
                /\ go r
            end) l <-> Forall (child_same same_schema (echildren e')) l).
  { induction l as [|c r IH].
    - split; auto.
    - rewrite Forall_cons_iff, <- IH. unfold child_same, cname. tauto. }
  rewrite G. tauto.
Qed.

(* monotone version: nothing is dropped, Opt stays Opt, Vec stays Vec, text stays *)
Definition child_le (R : element -> element -> Prop) (l' : list (nec * element)) (c : nec * element) : Prop :=
  exists c', get_child l' (cname c) = Some c'
             /\ (fst c = Opt -> fst c' = Opt)
             /\ (estandalone (snd c) = false -> estandalone (snd c') = false)
             /\ R (snd c) (snd c').

Fixpoint le_schema (e e' : element) {struct e} : Prop :=
  match e with
  | Elem n t x k a ch p =>
      n = ename e' /\ (t = true -> etext e' = true)
      /\ (forall u b, In (u, b) a -> exists u', In (u', b) (eattrs e') /\ (u = Opt -> u' = Opt))
      /\ (fix go (l : list (nec * element)) : Prop :=
            match l with
            | [] => True
            | c :: r =>
                (exists c', get_child (echildren e') (ename (snd c)) = Some c'
                            /\ (fst c = Opt -> fst c' = Opt)
                            /\ (estandalone (snd c) = false -> estandalone (snd c') = false)
                            /\ le_schema (snd c) (snd c'))
                /\ go r
            end) ch
  end.
Notation LeSchema := le_schema (only parsing).

Lemma le_schema_unfold e e' :
  le_schema e e' <->
  ename e = ename e' /\ (etext e = true -> etext e' = true)
  /\ (forall u b, In (u, b) (eattrs e) -> exists u', In (u', b) (eattrs e') /\ (u = Opt -> u' = Opt))
  /\ Forall (child_le le_schema (echildren e')) (echildren e).
Proof.
  destruct e as [n t x k a ch p]. cbn [le_schema ename etext eattrs echildren].
  assert (G : forall l,
    (fix go (l : list (nec * element)) : Prop :=
            match l with
            | [] => True
            | c :: r =>
                (exists c', get_child (echildren e') (ename (snd c)) = Some c'
                            /\ (fst c = Opt -> fst c' = Opt)
                            /\ (estandalone (snd c) = false -> estandalone (snd c') = false)
                            /\ le_schema (snd c) (snd c'))
                /\ go r
            end) l <-> Forall (child_le le_schema (echildren e')) l).
  { induction l as [|c r IH].
    - split; auto.
    - rewrite Forall_cons_iff, <- IH. unfold child_le, cname. tauto. }
  rewrite G. tauto.
Qed.

(* ---------- the comparison is an equivalence on well-formed trees, and refines le_schema ---------- *)
Lemma same_schema_refl e : Uniq e -> same_schema e e.
Proof.
  induction e as [n t x k a ch p IH] using element_ind'. intros U.
  destruct (Uniq_inv _ U) as (_ & Hnd & Uf). cbn [echildren] in Hnd, Uf.
  apply same_schema_unfold. cbn [ename etext eattrs echildren].
  repeat split; auto.
  rewrite Forall_forall in IH, Uf. apply Forall_forall. intros c Hc.
  exists c. split; [now apply get_child_in_nodup|]. repeat split. apply (IH c Hc), (Uf c Hc).
Qed.

Lemma same_schema_trans e1 : forall e2 e3, same_schema e1 e2 -> same_schema e2 e3 -> same_schema e1 e3.
Proof.
  induction e1 as [n t x k a ch p IH] using element_ind'. intros e2 e3 H12 H23.
  apply same_schema_unfold in H12. destruct H12 as (N12 & T12 & A12 & M12 & F12).
  apply same_schema_unfold in H23. destruct H23 as (N23 & T23 & A23 & M23 & F23).
  apply same_schema_unfold. cbn [ename etext eattrs echildren] in *.
  split; [congruence|]. split; [congruence|]. split; [intros u b; rewrite A12; apply A23|].
  split; [intros m Hm; apply M12, M23, Hm|].
  rewrite Forall_forall in IH, F12, F23. apply Forall_forall. intros c Hc.
  destruct (F12 c Hc) as (c2 & G2 & T2 & S2 & R2).
  destruct (get_child_some _ _ _ G2) as [Hc2 E2].
  destruct (F23 c2 Hc2) as (c3 & G3 & T3 & S3 & R3).
  exists c3. rewrite E2 in G3. split; [exact G3|]. split; [congruence|]. split; [congruence|].
  apply (IH c Hc _ _ R2 R3).
Qed.

Lemma same_schema_sym e : forall e', Uniq e' -> same_schema e e' -> same_schema e' e.
Proof.
  induction e as [n t x k a ch p IH] using element_ind'. intros e' U H.
  apply same_schema_unfold in H. destruct H as (Hn & Ht & Ha & Hm & Hf).
  destruct (Uniq_inv _ U) as (_ & Hnd' & Uf').
  apply same_schema_unfold. cbn [ename etext eattrs echildren] in *.
  split; [auto|]. split; [auto|]. split; [intros u b; symmetry; apply Ha|].
  rewrite Forall_forall in IH, Hf, Uf'. split.
  - intros m Hin. apply in_map_iff in Hin. destruct Hin as [c [Ec Hc]].
    destruct (Hf c Hc) as (c' & G & _). destruct (get_child_some _ _ _ G) as [Hin' E'].
    apply in_map_iff. exists c'. split; [congruence|exact Hin'].
  - apply Forall_forall. intros c' Hc'.
    assert (Hin : In (cname c') (child_names ch)) by (apply Hm, in_map, Hc').
    destruct (get_child ch (cname c')) as [c|] eqn:G; [|apply get_child_none in G; contradiction].
    destruct (get_child_some _ _ _ G) as [Hc Ec].
    destruct (Hf c Hc) as (c'' & G'' & T & S & R).
    rewrite Ec, (get_child_in_nodup _ _ Hnd' Hc') in G''. injection G'' as <-.
    exists c. split; [exact G|]. split; [auto|]. split; [auto|].
    apply (IH c Hc); [apply (Uf' c' Hc')|exact R].
Qed.

Lemma same_schema_le e : forall e', same_schema e e' -> le_schema e e'.
Proof.
  induction e as [n t x k a ch p IH] using element_ind'. intros e' H.
  apply same_schema_unfold in H. destruct H as (Hn & Ht & Ha & Hm & Hf).
  apply le_schema_unfold. cbn [ename etext eattrs echildren] in *.
  split; [auto|]. split; [congruence|]. split.
  - intros u b Hin. exists u. split; [now apply Ha|auto].
  - rewrite Forall_forall in IH, Hf. apply Forall_forall. intros c Hc.
    destruct (Hf c Hc) as (c' & G & T & S & R). exists c'. split; [exact G|].
    split; [congruence|]. split; [congruence|]. apply (IH c Hc _ R).
Qed.

(* ====================================================================== *)
(* ---------- 2. list facts: what depends only on the set of occurrences ---------- *)
Definition same_set {A} (l l' : list A) : Prop := forall x, In x l <-> In x l'.

Lemma same_set_incl {A} (l l' : list A) : same_set l l' <-> incl l l' /\ incl l' l.
Proof. unfold same_set, incl. split; [intros H; split; intros x; apply H|intros [H1 H2] x; split; auto]. Qed.
Lemma Permutation_same_set {A} (l l' : list A) : Permutation l l' -> same_set l l'.
Proof. intros P x. split; apply Permutation_in; [exact P|now apply Permutation_sym]. Qed.
Lemma same_set_snoc_in {A} (l : list A) x : In x l -> same_set l (l ++ [x]).
Proof. intros H y. rewrite in_app_iff. cbn. split; [auto|]. intros [Hy|[<-|[]]]; auto. Qed.

Lemma existsb_incl {A} (f : A -> bool) l l' : incl l l' -> existsb f l = true -> existsb f l' = true.
Proof.
  intros H E. apply existsb_exists in E. destruct E as [x [Hx Fx]].
  apply existsb_exists. exists x. split; [apply H, Hx|exact Fx].
Qed.
Lemma forallb_incl {A} (f : A -> bool) l l' : incl l l' -> forallb f l' = true -> forallb f l = true.
Proof. intros H E. rewrite forallb_forall in *. intros x Hx. apply E, H, Hx. Qed.
Lemma existsb_same_set {A} (f : A -> bool) l l' : same_set l l' -> existsb f l = existsb f l'.
Proof. intros S. apply same_set_incl in S. destruct S. apply eq_true_iff_eq. split; now apply existsb_incl. Qed.
Lemma forallb_same_set {A} (f : A -> bool) l l' : same_set l l' -> forallb f l = forallb f l'.
Proof. intros S. apply same_set_incl in S. destruct S. apply eq_true_iff_eq. split; now apply forallb_incl. Qed.
Lemma flat_map_incl {A B} (f : A -> list B) l l' : incl l l' -> incl (flat_map f l) (flat_map f l').
Proof.
  intros H x Hx. apply in_flat_map in Hx. destruct Hx as [y [Hy Hx]].
  apply in_flat_map. exists y. split; [apply H, Hy|exact Hx].
Qed.
Lemma flat_map_same_set {A B} (f : A -> list B) l l' : same_set l l' -> same_set (flat_map f l) (flat_map f l').
Proof. rewrite !same_set_incl. intros [H1 H2]. split; now apply flat_map_incl. Qed.

(* membership and tag of an attribute in the specification *)
Lemma in_spec_attrs os u b :
  In (u, b) (spec_attrs os) <->
  In b (flat_map oattrs os) /\ u = (if forallb (fun o => mem b (oattrs o)) os then Mand else Opt).
Proof.
  unfold spec_attrs. rewrite in_map_iff. split.
  - intros [a [E Ha]]. injection E as E1 E2. subst a. rewrite dedup_in in Ha. split; [exact Ha|now symmetry].
  - intros [Hb ->]. exists b. split; [reflexivity|now apply dedup_in].
Qed.

Lemma Repr_Uniq e : forall os, Repr e os -> Uniq e.
Proof.
  induction e as [n t x k a ch p IH] using element_ind'. intros os R.
  destruct (Repr_inv _ _ R) as (_ & _ & Ha & Hnd & _ & Hch). cbn [eattrs echildren] in *.
  constructor; [|exact Hnd|].
  - rewrite Ha. unfold spec_attrs. rewrite map_map. cbn [snd]. rewrite map_id. apply dedup_nodup.
  - rewrite Forall_forall in IH, Hch. apply Forall_forall. intros c Hc.
    destruct (Hch c Hc) as (_ & _ & _ & Rc). apply (IH c Hc _ Rc).
Qed.

(* ====================================================================== *)
(* ---------- 3. the schema is a function of the set of occurrences ---------- *)
Theorem repr_same_set e : forall e' os os',
  Repr e os -> Repr e' os' -> ename e = ename e' -> same_set os os' -> same_schema e e'.
Proof.
  induction e as [n t x k a ch p IH] using element_ind'.
  intros e' os os' R R' Hn S.
  apply same_schema_unfold.
  destruct (Repr_inv _ _ R) as (Ht & _ & Ha & Hnd & Hnames & Hch).
  destruct (Repr_inv _ _ R') as (Ht' & _ & Ha' & Hnd' & Hnames' & Hch').
  cbn [ename etext eattrs echildren] in *.
  split; [exact Hn|]. split.
  { rewrite Ht, Ht'. now apply existsb_same_set. }
  split.
  { intros u b. rewrite Ha, Ha', !in_spec_attrs.
    rewrite (forallb_same_set (fun o => mem b (oattrs o)) _ _ S).
    pose proof (flat_map_same_set oattrs _ _ S b). tauto. }
  assert (Nm : forall m, In m (child_names (echildren e')) <-> In m (child_names ch)).
  { intros m. rewrite Hnames, Hnames'. symmetry. now apply flat_map_same_set. }
  split; [intros m; apply Nm|].
  rewrite Forall_forall in IH, Hch, Hch'. apply Forall_forall. intros c Hc.
  assert (Hin : In (cname c) (child_names ch)) by (apply in_map; exact Hc).
  apply Nm in Hin.
  destruct (get_child (echildren e') (cname c)) as [c'|] eqn:G;
    [|apply get_child_none in G; contradiction].
  destruct (get_child_some _ _ _ G) as [Hc' Ec'].
  destruct (Hch c Hc) as (T1 & S1 & _ & R1).
  destruct (Hch' c' Hc') as (T2 & S2 & _ & R2).
  rewrite Ec' in T2, S2, R2.
  exists c'. split; [exact G|]. split; [|split].
  - rewrite T1, T2. unfold child_tag, spec_mand.
    now rewrite (forallb_same_set (fun o => negb (is_nil (kids_named (cname c) o))) _ _ S).
  - rewrite S1, S2. unfold spec_single.
    now rewrite (forallb_same_set (fun o => (length (kids_named (cname c) o) <=? 1)%nat) _ _ S).
  - apply (IH c Hc (snd c') _ _ R1 R2); [symmetry; exact Ec'|now apply flat_map_same_set].
Qed.

(* The premise `ename e = ename e'` is needed at the top only: `Repr` constrains the names of the
   children (through `cname`), not the name of the element itself; see `ex_name_premise_needed`.
   For the results of `run_dom` it is provided by `run_dom_inv` (the root is named m). *)

(* order of the occurrences *)
Corollary repr_perm e e' os os' :
  Repr e os -> Repr e' os' -> ename e = ename e' -> Permutation os os' -> same_schema e e'.
Proof. intros R R' Hn P. apply (repr_same_set e e' os os' R R' Hn). now apply Permutation_same_set. Qed.

(* an occurrence seen a second time *)
Corollary repr_idem e e' os o :
  Repr e os -> Repr e' (os ++ [o]) -> ename e = ename e' -> In o os -> same_schema e e'.
Proof. intros R R' Hn H. apply (repr_same_set e e' os (os ++ [o]) R R' Hn). now apply same_set_snoc_in. Qed.

(* ---------- monotone in the set of occurrences ---------- *)
Theorem repr_incl e : forall e' os os',
  Repr e os -> Repr e' os' -> ename e = ename e' -> incl os os' -> le_schema e e'.
Proof.
  induction e as [n t x k a ch p IH] using element_ind'.
  intros e' os os' R R' Hn I.
  apply le_schema_unfold.
  destruct (Repr_inv _ _ R) as (Ht & _ & Ha & Hnd & Hnames & Hch).
  destruct (Repr_inv _ _ R') as (Ht' & _ & Ha' & Hnd' & Hnames' & Hch').
  cbn [ename etext eattrs echildren] in *.
  split; [exact Hn|]. split.
  { rewrite Ht, Ht'. now apply existsb_incl. }
  split.
  { intros u b. rewrite Ha, Ha', in_spec_attrs. intros [Hb Hu].
    exists (if forallb (fun o => mem b (oattrs o)) os' then Mand else Opt). split.
    - apply in_spec_attrs. split; [|reflexivity]. apply (flat_map_incl oattrs _ _ I), Hb.
    - intros ->. destruct (forallb (fun o => mem b (oattrs o)) os') eqn:F'; [|reflexivity].
      rewrite (forallb_incl _ _ _ I F') in Hu. discriminate. }
  rewrite Forall_forall in IH, Hch, Hch'. apply Forall_forall. intros c Hc.
  assert (Hin : In (cname c) (child_names (echildren e'))).
  { apply Hnames'. apply (flat_map_incl okidnames _ _ I). apply Hnames. apply in_map. exact Hc. }
  destruct (get_child (echildren e') (cname c)) as [c'|] eqn:G;
    [|apply get_child_none in G; contradiction].
  destruct (get_child_some _ _ _ G) as [Hc' Ec'].
  destruct (Hch c Hc) as (T1 & S1 & _ & R1).
  destruct (Hch' c' Hc') as (T2 & S2 & _ & R2).
  rewrite Ec' in T2, S2, R2.
  exists c'. split; [exact G|]. split; [|split].
  - rewrite T1, T2. unfold child_tag, spec_mand. intros HO.
    destruct (forallb (fun o => negb (is_nil (kids_named (cname c) o))) os') eqn:F'; [|reflexivity].
    rewrite (forallb_incl _ _ _ I F') in HO. discriminate.
  - rewrite S1, S2. unfold spec_single. intros HO.
    destruct (forallb (fun o => (length (kids_named (cname c) o) <=? 1)%nat) os') eqn:F'; [|reflexivity].
    rewrite (forallb_incl _ _ _ I F') in HO. discriminate.
  - apply (IH c Hc (snd c') _ _ R1 R2); [symmetry; exact Ec'|now apply flat_map_incl].
Qed.

(* further occurrences never drop a field, never turn Option into required, Vec into single.
   (No premise `os <> []` is needed: with no occurrence at all e has no field and no text.) *)
Corollary repr_mono e e' os more :
  Repr e os -> Repr e' (os ++ more) -> ename e = ename e' -> le_schema e e'.
Proof. intros R R' Hn. apply (repr_incl e e' os (os ++ more) R R' Hn). apply incl_appl, incl_refl. Qed.

(* ====================================================================== *)
(* ---------- 4. whole document sequences with a common root name ---------- *)

(* the result represents the concatenation of the root occurrences of all documents *)
Theorem run_dom_union docs m :
  docs <> [] -> Forall (Forall wf_node) docs -> Forall (fun p => elem_names p = [m]) docs ->
  exists e, run_dom docs = Some e /\ ename e = m /\ Repr e (flat_map (named m) docs).
Proof.
  intros Hne W Hm. destruct (run_dom_inv docs m Hne W Hm) as (e & E & (_ & _ & R & _ & _ & N)).
  exists e. auto.
Qed.

(* one level of `Repr` spelled out for the root: the flags and fields are those inferred from the
   union of the root occurrences *)
Theorem run_dom_union_fields docs m :
  docs <> [] -> Forall (Forall wf_node) docs -> Forall (fun p => elem_names p = [m]) docs ->
  exists e, run_dom docs = Some e /\
    let os := flat_map (named m) docs in
    ename e = m
    /\ etext e = existsb has_text os
    /\ eattrs e = spec_attrs os
    /\ NoDup (child_names (echildren e))
    /\ (forall n, In n (child_names (echildren e)) <-> In n (flat_map okidnames os))
    /\ Forall (fun c => fst c = (if spec_mand (cname c) os then Mand else Opt)
                        /\ estandalone (snd c) = spec_single (cname c) os
                        /\ Repr (snd c) (flat_map (kids_named (cname c)) os)) (echildren e).
Proof.
  intros Hne W Hm. destruct (run_dom_union docs m Hne W Hm) as (e & E & N & R).
  exists e. split; [exact E|]. cbv zeta.
  destruct (Repr_inv _ _ R) as (Ht & _ & Ha & Hnd & Hnames & Hch).
  repeat (split; [assumption|]).
  rewrite Forall_forall in Hch. apply Forall_forall. intros c Hc.
  destruct (Hch c Hc) as (T1 & S1 & _ & R1). auto.
Qed.

Lemma docs_hyps_incl docs docs' m :
  docs <> [] -> incl docs docs' ->
  Forall (Forall wf_node) docs' -> Forall (fun p => elem_names p = [m]) docs' ->
  docs' <> [] /\ Forall (Forall wf_node) docs /\ Forall (fun p => elem_names p = [m]) docs.
Proof.
  intros Hne I W Hm. split; [|split].
  - destruct docs as [|d r]; [congruence|]. intros ->. apply (I d). left; reflexivity.
  - rewrite Forall_forall in *. intros p Hp. apply W, I, Hp.
  - rewrite Forall_forall in *. intros p Hp. apply Hm, I, Hp.
Qed.

(* same set of documents, any order, any multiplicity: same schema *)
Theorem run_dom_same_set docs docs' m :
  docs <> [] -> Forall (Forall wf_node) docs -> Forall (fun p => elem_names p = [m]) docs ->
  same_set docs docs' ->
  exists e e', run_dom docs = Some e /\ run_dom docs' = Some e' /\ same_schema e e'.
Proof.
  intros Hne W Hm S. pose proof S as S0. apply same_set_incl in S0. destruct S0 as [I1 I2].
  assert (Hne' : docs' <> []).
  { destruct docs as [|d r]; [congruence|]. intros ->. apply (I1 d). left; reflexivity. }
  destruct (docs_hyps_incl docs' docs m Hne' I2 W Hm) as (_ & W' & Hm').
  destruct (run_dom_union docs m Hne W Hm) as (e & E & N & R).
  destruct (run_dom_union docs' m Hne' W' Hm') as (e' & E' & N' & R').
  exists e, e'. split; [exact E|]. split; [exact E'|].
  apply (repr_same_set e e' _ _ R R'); [congruence|]. now apply flat_map_same_set.
Qed.

Corollary run_dom_order docs docs' m :
  docs <> [] -> Forall (Forall wf_node) docs -> Forall (fun p => elem_names p = [m]) docs ->
  Permutation docs docs' ->
  exists e e', run_dom docs = Some e /\ run_dom docs' = Some e' /\ same_schema e e'.
Proof. intros Hne W Hm P. apply (run_dom_same_set docs docs' m Hne W Hm). now apply Permutation_same_set. Qed.

Corollary run_dom_idem docs d m :
  docs <> [] -> Forall (Forall wf_node) docs -> Forall (fun p => elem_names p = [m]) docs ->
  In d docs ->
  exists e e', run_dom docs = Some e /\ run_dom (docs ++ [d]) = Some e' /\ same_schema e e'.
Proof. intros Hne W Hm H. apply (run_dom_same_set docs (docs ++ [d]) m Hne W Hm). now apply same_set_snoc_in. Qed.

(* more documents (anywhere, in any order): nothing is lost *)
Theorem run_dom_incl docs docs' m :
  docs <> [] -> incl docs docs' ->
  Forall (Forall wf_node) docs' -> Forall (fun p => elem_names p = [m]) docs' ->
  exists e e', run_dom docs = Some e /\ run_dom docs' = Some e' /\ le_schema e e'.
Proof.
  intros Hne I W' Hm'.
  destruct (docs_hyps_incl docs docs' m Hne I W' Hm') as (Hne' & W & Hm).
  destruct (run_dom_union docs m Hne W Hm) as (e & E & N & R).
  destruct (run_dom_union docs' m Hne' W' Hm') as (e' & E' & N' & R').
  exists e, e'. split; [exact E|]. split; [exact E'|].
  apply (repr_incl e e' _ _ R R'); [congruence|]. now apply flat_map_incl.
Qed.

Corollary run_dom_mono docs more m :
  docs <> [] ->
  Forall (Forall wf_node) (docs ++ more) -> Forall (fun p => elem_names p = [m]) (docs ++ more) ->
  exists e e', run_dom docs = Some e /\ run_dom (docs ++ more) = Some e' /\ le_schema e e'.
Proof. intros Hne W Hm. apply (run_dom_incl docs (docs ++ more) m Hne); auto. apply incl_appl, incl_refl. Qed.

(* ====================================================================== *)
(* ---------- 5. empty / element-less documents ---------- *)
Lemma elementless_events top :
  elem_names top = [] ->
  has_element (events_of_forest top) = false /\ first_fault (events_of_forest top) = None.
Proof.
  induction top as [|k top IH]; [split; reflexivity|].
  destruct k as [n ef a kk| | |]; cbn [elem_names flat_map app]; intros H;
    [discriminate| | |]; destruct (IH H) as [H1 H2]; split;
    unfold events_of_forest in *; cbn [flat_map events_of app];
    rewrite ?has_element_cons, ?first_fault_cons; cbn [is_element_event event_fault orb]; assumption.
Qed.

(* document level: a document without elements (in particular the empty document) leaves a
   positioned tree exactly as it is *)
Theorem extend_struct_dom_elementless e top p :
  epos e = Some p -> elem_names top = [] -> extend_struct_dom e top = Some e.
Proof.
  intros P H. destruct (elementless_events top H) as [H1 H2].
  pose proof (extend_struct_dom_ev e top) as D.
  rewrite (extend_elementless_positioned e _ p H1 H2 P) in D.
  destruct (extend_struct_dom e top) as [e0|]; [|discriminate]. now injection D as <-.
Qed.

Lemma run_dom_app docs r :
  docs <> [] ->
  run_dom (docs ++ r)
  = fold_left (fun acc x => match acc with Some e => extend_struct_dom e x | None => None end) r (run_dom docs).
Proof. destruct docs as [|d ds]; [congruence|]. intros _. cbn [app run_dom]. apply fold_left_app. Qed.

(* an element-less document supplied anywhere after the first document changes nothing: the
   result is the same tree (not merely the same schema) *)
Theorem run_dom_elementless docs top more m :
  docs <> [] -> Forall (Forall wf_node) docs -> Forall (fun p => elem_names p = [m]) docs ->
  elem_names top = [] ->
  run_dom (docs ++ top :: more) = run_dom (docs ++ more).
Proof.
  intros Hne W Hm H. rewrite !run_dom_app by exact Hne.
  destruct (run_dom_inv docs m Hne W Hm) as (e & E & (_ & _ & _ & P & _)).
  rewrite E. cbn [fold_left]. now rewrite (extend_struct_dom_elementless e top _ P H).
Qed.

(* ====================================================================== *)
(* ---------- 6. a failed extension reports an error, not a partial result ---------- *)
(* every stream: the outcome is Err x with x the first fault of the stream, or Ok; never anything else *)
Theorem extend_total root evs :
  (exists x, extend_struct_ev root evs = Err x /\ first_fault evs = Some x)
  \/ (exists e', extend_struct_ev root evs = Ok e').
Proof.
  destruct (scan O evs) as [x|rest|] eqn:S.
  - left. exists x. split; [now apply extend_scan_fault|now apply (scan_fault_first evs O)].
  - right. apply extend_scan_ok. rewrite S. discriminate.
  - right. apply extend_scan_ok. rewrite S. discriminate.
Qed.

(* in a sequence, once an extension has failed the run's result is that error *)
Theorem run_evs_error_sticks docs1 d docs2 e x :
  docs1 <> [] -> run_evs docs1 = Ok e -> extend_struct_ev e d = Err x ->
  run_evs (docs1 ++ d :: docs2) = Err x.
Proof.
  destruct docs1 as [|d1 r1]; [congruence|]. intros _ H1 H2.
  cbn [app]. rewrite run_evs_cons in *. rewrite fold_left_app. rewrite H1.
  cbn [fold_left run_step]. rewrite H2. apply run_fold_err.
Qed.

(* ====================================================================== *)
(* ---------- 7. examples ---------- *)
From Coq Require Import String.
Local Open Scope list_scope.

(* <a x=""><b/><c>text</c></a> *)
Definition u_d1 : list node :=
  [ NMisc; NElem (s "a") false [s "x"]
             [ NElem (s "b") true [] []; NElem (s "c") false [] [NText] ] ].
(* <a y=""><c/><c k=""/><d><b/></d></a> *)
Definition u_d2 : list node :=
  [ NElem (s "a") false [s "y"]
      [ NElem (s "c") true [] []; NElem (s "c") true [s "k"] [];
        NElem (s "d") false [] [NElem (s "b") true [] []] ] ].
(* prolog, white space and a comment only *)
Definition u_none : list node := [NMisc; NText; NMisc].

(* original statement of repr_perm (no premise on the names) is false for this same_schema:
   Repr does not fix the name of the element *)
Example ex_name_premise_needed :
  let e := Elem (s "p") false true 0 [] [] None in
  let e' := Elem (s "q") false true 0 [] [] None in
  Repr e [] /\ Repr e' [] /\ Permutation (@nil node) [] /\ ~ same_schema e e'.
Proof.
  cbv zeta. split; [|split; [|split]].
  - apply Repr_make; cbn; auto using NoDup_nil; tauto.
  - apply Repr_make; cbn; auto using NoDup_nil; tauto.
  - constructor.
  - intros H. apply same_schema_unfold in H. destruct H as (H & _). vm_compute in H. discriminate.
Qed.

Ltac wf_docs :=
  repeat (constructor; try (vm_compute; intuition discriminate)).

Lemma u_hyps12 :
  [u_d1; u_d2] <> [] /\ Forall (Forall wf_node) [u_d1; u_d2]
  /\ Forall (fun p => elem_names p = [s "a"]) [u_d1; u_d2].
Proof. split; [discriminate|]. split; wf_docs. Qed.

(* the two supply orders give different trees (field positions, attribute order) ... *)
Example ex_order_trees_differ :
  run_dom [u_d1; u_d2] <> run_dom [u_d2; u_d1]
  /\ (exists e, run_dom [u_d1; u_d2] = Some e
                /\ map (fun c => (cname c, epos (snd c))) (echildren e)
                   = [(s "c", Some 1%nat); (s "d", Some 2%nat); (s "b", Some 0%nat)]
                /\ eattrs e = [(Opt, s "x"); (Opt, s "y")])
  /\ (exists e, run_dom [u_d2; u_d1] = Some e
                /\ map (fun c => (cname c, epos (snd c))) (echildren e)
                   = [(s "c", Some 0%nat); (s "b", Some 2%nat); (s "d", Some 1%nat)]
                /\ eattrs e = [(Opt, s "y"); (Opt, s "x")]).
Proof.
  split; [vm_compute; discriminate|].
  split; eexists; (split; [vm_compute; reflexivity|]); split; vm_compute; reflexivity.
Qed.

(* ... but the same schema, by the theorem *)
Example ex_order_same_schema :
  exists e e', run_dom [u_d1; u_d2] = Some e /\ run_dom [u_d2; u_d1] = Some e' /\ same_schema e e'.
Proof.
  destruct u_hyps12 as (H1 & H2 & H3).
  apply (run_dom_order [u_d1; u_d2] [u_d2; u_d1] (s "a") H1 H2 H3). apply perm_swap.
Qed.

(* supplying the first document again changes the tree (counts) but not the schema *)
Example ex_idem :
  run_dom [u_d1; u_d2] <> run_dom [u_d1; u_d2; u_d1]
  /\ exists e e', run_dom [u_d1; u_d2] = Some e /\ run_dom ([u_d1; u_d2] ++ [u_d1]) = Some e'
                  /\ same_schema e e'.
Proof.
  split; [vm_compute; discriminate|].
  destruct u_hyps12 as (H1 & H2 & H3).
  apply (run_dom_idem [u_d1; u_d2] u_d1 (s "a") H1 H2 H3). left; reflexivity.
Qed.

(* the second document adds fields and weakens tags: b and x become optional, c becomes a Vec;
   nothing of the first document's schema is lost *)
Example ex_mono :
  exists e e', run_dom [u_d1] = Some e /\ run_dom ([u_d1] ++ [u_d2]) = Some e' /\ le_schema e e'
    /\ map (fun c => (fst c, cname c, estandalone (snd c))) (echildren e)
       = [(Mand, s "b", true); (Mand, s "c", true)]
    /\ map (fun c => (fst c, cname c, estandalone (snd c))) (echildren e')
       = [(Mand, s "c", false); (Opt, s "d", true); (Opt, s "b", true)]
    /\ eattrs e = [(Mand, s "x")] /\ eattrs e' = [(Opt, s "x"); (Opt, s "y")].
Proof.
  destruct u_hyps12 as (H1 & H2 & H3).
  destruct (run_dom_mono [u_d1] [u_d2] (s "a")) as (e & e' & E & E' & L); [discriminate|exact H2|exact H3|].
  exists e, e'. split; [exact E|]. split; [exact E'|]. split; [exact L|].
  vm_compute in E, E'. injection E as <-. injection E' as <-.
  repeat split; vm_compute; reflexivity.
Qed.

(* the converse direction fails, so le_schema is not trivially symmetric: the larger schema is not
   below the smaller one *)
Example ex_mono_strict :
  exists e e', run_dom [u_d1] = Some e /\ run_dom [u_d1; u_d2] = Some e' /\ ~ le_schema e' e.
Proof.
  eexists. eexists. split; [vm_compute; reflexivity|]. split; [vm_compute; reflexivity|].
  intros L. apply le_schema_unfold in L. destruct L as (_ & _ & _ & F).
  rewrite Forall_forall in F.
  match type of F with forall c, In c ?l -> _ => assert (Hd : exists c, In c l /\ cname c = s "d") end.
  { eexists. split; [right; left; reflexivity|reflexivity]. }
  destruct Hd as (c & Hc & Ec). destruct (F c Hc) as (c' & G & _). rewrite Ec in G.
  vm_compute in G. discriminate.
Qed.

(* an element-less document in the middle: the very same tree *)
Example ex_elementless_dom :
  run_dom [u_d1; u_none; u_d2] = run_dom [u_d1; u_d2]
  /\ run_dom [u_d1; []; u_d2] = run_dom [u_d1; u_d2]
  /\ run_dom [u_none; u_d1] = None.
Proof.
  split; [|split; [|vm_compute; reflexivity]].
  - apply (run_dom_elementless [u_d1] u_none [u_d2] (s "a")); [discriminate| | |reflexivity]; wf_docs.
  - apply (run_dom_elementless [u_d1] [] [u_d2] (s "a")); [discriminate| | |reflexivity]; wf_docs.
Qed.

(* a faulty extension: an error, and the run stays failed *)
Example ex_failed_extension :
  exists e, into_struct_ev (events_of_forest u_d1) = Ok e
    /\ extend_struct_ev e [EStart (ROk (s "a")) []; EErr 5 2; EEnd] = Err (QuickXmlError 5 2)
    /\ run_evs [events_of_forest u_d1; [EStart (ROk (s "a")) []; EErr 5 2; EEnd]; events_of_forest u_d2]
       = Err (QuickXmlError 5 2).
Proof. eexists. split; [vm_compute; reflexivity|]. split; vm_compute; reflexivity. Qed.
