(* C01: the inferred tree, and the structs rendered from it, describe every source document.
   Part 1: `TreeAdmits x nd` — the tree node `x` describes the document element `nd`,
           hereditarily; it follows from the representation invariant `Repr` for every
           occurrence the node was inferred from (repr_admits, tree_admits).
   Part 2: the boolean oracle `admits_b` of Corr/Oracles.v (the check the differential harness
           applies to the REAL implementation's output, quick-xml preset) is true of the
           model's rendering of a tree for every document element the tree admits
           (render_admits_elem, render_admits_tree, render_admits). *)
From Coq Require Import String Lia Permutation.
From XSG.Model Require Import Strings Chars Convert Necessity Element Parser Dom Spec Render.
From XSG.Proofs Require Import StringsProofs NecessityProofs ElementProofs SpecProofs SkelProofs
     ReprDefs ExactProofs RenderProofs ReflectProofs StructTableProofs.
From XSG.Corr Require Import Common Oracles.
Open Scope list_scope.
(* `bound`, `erase_field`, `erase_bindings` exist both in RenderProofs and in Oracles:
   they are always written qualified below. *)

(* ====================================================================== *)
(* Part 1. the tree admits the occurrences it was inferred from            *)
(* ====================================================================== *)

(* `x` describes the element `nd`: every attribute has an entry, a non-optional attribute is
   present, a non-optional child is present, a non-Vec child occurs at most once, character
   data only where there is a text flag, and every child element has its node, hereditarily.
   The content of `<x/>` (empty form) is empty, whatever the fourth component of NElem. *)
Fixpoint TreeAdmits (x : element) (nd : node) {struct nd} : Prop :=
  match nd with
  | NElem _ ef attrs kids0 =>
      let kids := if ef then [] else kids0 in
      (forall a, In a attrs -> In a (map snd (eattrs x)))
      /\ (forall a, In (Mand, a) (eattrs x) -> In a attrs)
      /\ (forall c, In c (echildren x) -> fst c = Mand -> In (cname c) (elem_names kids))
      /\ (forall c, In c (echildren x) -> estandalone (snd c) = true ->
                    (List.length (named (cname c) kids) <= 1)%nat)
      /\ (chardata kids = true -> etext x = true)
      /\ (if ef then True else
          (fix go (ks : list node) : Prop :=
             match ks with
             | [] => True
             | k :: r =>
                 match k with
                 | NElem m _ _ _ =>
                     exists c, get_child (echildren x) m = Some c /\ TreeAdmits (snd c) k
                 | _ => True
                 end /\ go r
             end) kids0)
  | _ => True
  end.

(* the last clause, for one kid *)
Definition KidAdmits (x : element) (k : node) : Prop :=
  match k with
  | NElem m _ _ _ => exists c, get_child (echildren x) m = Some c /\ TreeAdmits (snd c) k
  | _ => True
  end.

Lemma kids_go_Forall x ks :
  (fix go (ks : list node) : Prop :=
     match ks with
     | [] => True
     | k :: r =>
         match k with
         | NElem m _ _ _ => exists c, get_child (echildren x) m = Some c /\ TreeAdmits (snd c) k
         | _ => True
         end /\ go r
     end) ks <-> Forall (KidAdmits x) ks.
Proof.
  induction ks as [|k ks IH]; [split; auto|].
  split.
  - intros [Hk Hr]. constructor; [exact Hk|]. now apply IH.
  - intros H. inversion H as [|? ? Hk Hr]; subst. split; [exact Hk|]. now apply IH.
Qed.

Lemma okids_elem n ef a ks : okids (NElem n ef a ks) = if ef then [] else ks.
Proof. now destruct ef. Qed.

(* the readable form of the definition *)
Lemma TreeAdmits_elem x n ef attrs kids0 :
  TreeAdmits x (NElem n ef attrs kids0) <->
  let kids := okids (NElem n ef attrs kids0) in
  (forall a, In a attrs -> In a (map snd (eattrs x)))
  /\ (forall a, In (Mand, a) (eattrs x) -> In a attrs)
  /\ (forall c, In c (echildren x) -> fst c = Mand -> In (cname c) (elem_names kids))
  /\ (forall c, In c (echildren x) -> estandalone (snd c) = true ->
                (List.length (named (cname c) kids) <= 1)%nat)
  /\ (chardata kids = true -> etext x = true)
  /\ Forall (KidAdmits x) kids.
Proof.
  cbv zeta. rewrite okids_elem. cbn [TreeAdmits]. cbv zeta.
  destruct ef.
  - split; intros (H1 & H2 & H3 & H4 & H5 & H6); repeat split; auto.
  - rewrite kids_go_Forall. reflexivity.
Qed.

Lemma TreeAdmits_nonelem x nd :
  (forall n ef a ks, nd <> NElem n ef a ks) -> TreeAdmits x nd.
Proof. intros H. destruct nd as [n ef a ks| | |]; try exact I. now destruct (H n ef a ks). Qed.

(* membership in spec_attrs *)
Lemma spec_attrs_names os : map snd (spec_attrs os) = dedup (flat_map oattrs os).
Proof. unfold spec_attrs. rewrite map_map. cbn [snd]. apply map_id. Qed.

Lemma spec_attrs_in t a os :
  In (t, a) (spec_attrs os) <->
  In a (flat_map oattrs os) /\ t = if forallb (fun o => mem a (oattrs o)) os then Mand else Opt.
Proof.
  unfold spec_attrs. rewrite in_map_iff. split.
  - intros [b [E Hb]]. injection E as Et Eb. subst b. apply (proj1 (dedup_in _ _)) in Hb. split; [exact Hb|now symmetry].
  - intros [Ha ->]. exists a. split; [reflexivity|]. now apply dedup_in.
Qed.

(* the core: whatever a node has absorbed, it admits *)
Theorem repr_admits : forall nd x os, Repr x os -> In nd os -> TreeAdmits x nd.
Proof.
  induction nd as [n ef attrs ks IH| | |] using node_ind'; intros x os R Hin; try exact I.
  destruct (Repr_inv _ _ R) as (Ht & _ & Ha & Hnd & Hnames & Hch).
  rewrite Forall_forall in Hch.
  apply TreeAdmits_elem. cbv zeta.
  set (nd := NElem n ef attrs ks) in *.
  repeat split.
  - intros a Hain. rewrite Ha, spec_attrs_names. apply dedup_in.
    apply in_flat_map. exists nd. split; [exact Hin|exact Hain].
  - intros a Hm. rewrite Ha in Hm. apply spec_attrs_in in Hm. destruct Hm as [_ Hm].
    destruct (forallb (fun o => mem a (oattrs o)) os) eqn:E; [|discriminate Hm].
    rewrite forallb_forall in E. specialize (E nd Hin). now apply mem_spec in E.
  - intros c Hc Hm. destruct (Hch c Hc) as (Htag & _).
    rewrite Htag in Hm. unfold child_tag in Hm.
    destruct (spec_mand (cname c) os) eqn:E; [|discriminate Hm].
    unfold spec_mand in E. rewrite forallb_forall in E. specialize (E nd Hin).
    rewrite kids_named_eq in E.
    destruct (in_dec (list_eq_dec N.eq_dec) (cname c) (elem_names (okids nd))) as [Hy|Hn]; [exact Hy|].
    apply named_nil_iff in Hn. rewrite Hn in E. discriminate E.
  - intros c Hc Hs. destruct (Hch c Hc) as (_ & Hst & _).
    rewrite Hst in Hs. unfold spec_single in Hs. rewrite forallb_forall in Hs.
    specialize (Hs nd Hin). rewrite kids_named_eq in Hs. now apply Nat.leb_le in Hs.
  - intros Hcd. rewrite Ht. apply existsb_exists. exists nd. split; [exact Hin|].
    now rewrite has_text_eq.
  - apply Forall_forall. intros k Hk.
    destruct k as [m kef ka kks| | |]; try exact I.
    assert (Hm : In m (flat_map okidnames os)).
    { apply in_flat_map. exists nd. split; [exact Hin|]. rewrite okidnames_eq.
      unfold elem_names. apply in_flat_map. exists (NElem m kef ka kks). split; [exact Hk|now left]. }
    apply Hnames in Hm.
    destruct (get_child (echildren x) m) as [c|] eqn:G; [|now apply get_child_none in G].
    destruct (get_child_some _ _ _ G) as [Hc Hcn].
    exists c. split; [exact G|].
    destruct (Hch c Hc) as (_ & _ & _ & Rc). rewrite Hcn in Rc.
    assert (Hkin : In (NElem m kef ka kks) ks).
    { unfold nd in Hk. rewrite okids_elem in Hk. destruct ef; [destruct Hk|exact Hk]. }
    rewrite Forall_forall in IH. apply (IH _ Hkin (snd c) _ Rc).
    apply in_flat_map. exists nd. split; [exact Hin|].
    rewrite kids_named_eq. unfold named. apply filter_In. split; [exact Hk|].
    cbn [is_elem_named]. apply str_eqb_refl.
Qed.

(* the root element of a document with a single element, named m *)
Lemma doc_root_named m d r :
  elem_names d = [m] -> doc_root d = Some r -> In r (named m d).
Proof.
  intros Hm Hr. unfold doc_root in Hr. apply find_some in Hr. destruct Hr as [Hin Hel].
  destruct r as [n ef a ks| | |]; try discriminate Hel.
  unfold named. apply filter_In. split; [exact Hin|]. cbn [is_elem_named].
  assert (Hn : In n (elem_names d)).
  { unfold elem_names. apply in_flat_map. exists (NElem n ef a ks). split; [exact Hin|now left]. }
  rewrite Hm in Hn. destruct Hn as [<-|[]]. apply str_eqb_refl.
Qed.

Lemma doc_root_exists m d : elem_names d = [m] -> exists r, doc_root d = Some r.
Proof.
  intros Hm. unfold doc_root.
  induction d as [|k d IH]; [discriminate Hm|].
  destruct k as [n ef a ks| | |]; cbn [find]; try (apply IH; exact Hm).
  eexists. reflexivity.
Qed.

Theorem tree_admits : forall docs m e,
  docs <> [] -> Forall (Forall wf_node) docs -> Forall (fun p => elem_names p = [m]) docs ->
  run_dom docs = Some e ->
  forall d r, In d docs -> doc_root d = Some r -> TreeAdmits e r.
Proof.
  intros docs m e Hne W Hm Hrun d r Hd Hr.
  destruct (run_dom_inv docs m Hne W Hm) as (e' & E & (_ & _ & R & _)).
  rewrite Hrun in E. injection E as <-.
  apply (repr_admits r e _ R).
  apply in_flat_map. exists d. split; [exact Hd|].
  rewrite Forall_forall in Hm. apply doc_root_named; [exact (Hm d Hd)|exact Hr].
Qed.

(* ====================================================================== *)
(* Part 2. the rendered structs accept what the tree admits             *)
(* ====================================================================== *)

(* ---------- generic list facts ---------- *)
Lemma find_app {A} (p : A -> bool) a b :
  find p (a ++ b) = match find p a with Some x => Some x | None => find p b end.
Proof. induction a as [|x a IH]; [reflexivity|]. cbn [app find]. now destruct (p x). Qed.

Lemma find_none_all {A} (p : A -> bool) l : (forall x, In x l -> p x = false) -> find p l = None.
Proof.
  induction l as [|x l IH]; intros H; [reflexivity|].
  cbn [find]. rewrite (H x) by now left. apply IH. intros y Hy. apply H. now right.
Qed.

(* looking a key up in the image of a list with pairwise different keys *)
Lemma find_map_nodup {A B} (key : A -> str) (g : A -> B) (kb : B -> str) l x :
  (forall y, kb (g y) = key y) -> NoDup (map key l) -> In x l ->
  find (fun b => str_eqb (kb b) (key x)) (map g l) = Some (g x).
Proof.
  intros Hk. induction l as [|y l IH]; intros Hnd Hin; [destruct Hin|].
  cbn [map] in Hnd. inversion Hnd as [|? ? Hy Hl]; subst.
  cbn [map find]. rewrite Hk.
  destruct Hin as [->|Hin]; [now rewrite str_eqb_refl|].
  destruct (str_eqb_spec (key y) (key x)) as [E|E]; [|now apply IH].
  exfalso. apply Hy. rewrite E. now apply in_map.
Qed.

Lemma nodup_b_NoDup l : nodup_b str_eqb l = true -> NoDup l.
Proof.
  induction l as [|x l IH]; cbn [nodup_b]; intros H; [constructor|].
  apply andb_true_iff in H. destruct H as [H1 H2]. apply negb_true_iff in H1.
  constructor; [|now apply IH]. now apply mem_false.
Qed.

Lemma NoDup_nodup_b l : NoDup l -> nodup_b str_eqb l = true.
Proof.
  induction 1 as [|x l Hx Hl IH]; [reflexivity|]. cbn [nodup_b]. rewrite IH, andb_true_r.
  apply negb_true_iff. now apply mem_false.
Qed.

(* ---------- namespace removal keeps a suffix ---------- *)
Lemma after_colon_incl l r c : after_colon l = Some r -> In c r -> In c l.
Proof.
  revert r. induction l as [|y l IH]; intros r H Hc; [discriminate H|].
  cbn [after_colon] in H. destruct (y =? colon).
  - injection H as <-. now right.
  - right. now apply (IH r).
Qed.

Lemma remove_namespace_incl x c : In c (remove_namespace x) -> In c x.
Proof.
  unfold remove_namespace. destruct (after_colon x) as [r|] eqn:E; [|auto].
  now apply after_colon_incl.
Qed.

(* ---------- the hypotheses, read as propositions ---------- *)
(* local name of an attribute as the renderer binds it (`xmlns:p` declarations keep their prefix) *)
Definition attr_local (a : str) : str := if starts_with_xmlns a then a else remove_namespace a.

Lemma attr_bound_eq o a : attr_bound o a = attribute_prefix o ++ attr_local a.
Proof. reflexivity. Qed.

Lemma clash_free_inv e : clash_free_tree e = true ->
  NoDup (map (fun a : nec * str => attr_local (snd a)) (eattrs e))
  /\ NoDup (map (fun c : nec * element => remove_namespace (cname c)) (echildren e))
  /\ Forall (fun c => clash_free_tree (snd c) = true) (echildren e).
Proof.
  destruct e as [n t x k a ch p]. cbn [clash_free_tree eattrs echildren]. intros H.
  apply andb_true_iff in H. destruct H as [H H3].
  apply andb_true_iff in H. destruct H as [H1 H2].
  split; [now apply nodup_b_NoDup|]. split; [now apply nodup_b_NoDup|].
  clear H1 H2. induction ch as [|c ch IH]; [constructor|].
  apply andb_true_iff in H3. destruct H3 as [Hc Hr]. constructor; [exact Hc|now apply IH].
Qed.

(* a clash-free tree has in particular pairwise different sibling / attribute names *)
Lemma clash_free_Uniq e : clash_free_tree e = true -> Uniq e.
Proof.
  induction e as [n t x k a ch p IH] using element_ind'. intros H.
  destruct (clash_free_inv _ H) as (Ha & Hc & Hf). cbn [eattrs echildren] in Ha, Hc, Hf.
  constructor.
  - rewrite <- (map_map snd attr_local) in Ha. exact (NoDup_map_inv _ _ Ha).
  - unfold child_names. rewrite <- (map_map cname remove_namespace) in Hc.
    exact (NoDup_map_inv _ _ Hc).
  - rewrite Forall_forall in IH, Hf. apply Forall_forall. intros c Hin. apply IH; auto.
Qed.

(* no element name below the root contains '@' (64) or '$' (36): this keeps the three key
   spaces of a struct apart (prefix ++ attribute, child local name, text identifier).
   (XML names never contain these two characters.) *)
Definition plain_b (m : str) : bool := forallb (fun c => negb (c =? 64) && negb (c =? 36)) m.
Fixpoint names_plain (e : element) : bool :=
  match e with
  | Elem _ _ _ _ _ ch _ =>
      (fix go (cs : list (nec * element)) : bool :=
         match cs with
         | [] => true
         | c :: r => plain_b (ename (snd c)) && names_plain (snd c) && go r
         end) ch
  end.

Lemma plain_b_spec m : plain_b m = true -> ~ In 64 m /\ ~ In 36 m.
Proof.
  unfold plain_b. rewrite forallb_forall. intros H.
  split; intros Hin; apply H in Hin; discriminate Hin.
Qed.

Lemma names_plain_inv e : names_plain e = true ->
  Forall (fun c => plain_b (cname c) = true /\ names_plain (snd c) = true) (echildren e).
Proof.
  destruct e as [n t x k a ch p]. cbn [names_plain echildren].
  induction ch as [|c ch IH]; intros H; [constructor|].
  apply andb_true_iff in H. destruct H as [H Hr].
  apply andb_true_iff in H. destruct H as [H1 H2].
  constructor; [split; [exact H1|exact H2]|now apply IH].
Qed.

(* the options: the attribute prefix starts with '@', the text identifier contains '$' *)
Definition opts_plain (o : options) : Prop :=
  (exists p, attribute_prefix o = 64 :: p) /\ In 36 (text_identifier o).

Lemma quick_xml_opts_plain o :
  attribute_prefix o = s "@" -> text_identifier o = s "$text" -> opts_plain o.
Proof. intros Ha Ht. unfold opts_plain. rewrite Ha, Ht. split; [now exists []|now left]. Qed.

Lemma plain_not_attr_bound o a m :
  opts_plain o -> plain_b m = true -> attr_bound o a <> remove_namespace m.
Proof.
  intros [[p Hp] _] Hm E. rewrite attr_bound_eq, Hp in E.
  destruct (plain_b_spec _ Hm) as [H64 _]. apply H64.
  apply remove_namespace_incl. rewrite <- E. now left.
Qed.

Lemma plain_not_text_identifier o m :
  opts_plain o -> plain_b m = true -> text_identifier o <> remove_namespace m.
Proof.
  intros [_ Ht] Hm E. destruct (plain_b_spec _ Hm) as [_ H36]. apply H36.
  apply remove_namespace_incl. now rewrite <- E.
Qed.

(* ---------- the oracle, unfolded ---------- *)
Definition kid_check (o : options) (ps : list pstruct) (fs : list pfield) (k : node) : bool :=
  match k with
  | NElem m kef kattrs kkids =>
      match find (fun f => str_eqb (Oracles.bound f) (remove_namespace m)) fs with
      | None => false
      | Some f =>
          match pf_ty f with
          | TyString => is_nil kattrs && is_nil (kid_names (if kef then [] else kkids))
          | TyStruct sn =>
              match find_struct ps sn with
              | Some sd' => admits_elem o ps sd' k
              | None => false end
          end
      end
  | _ => true
  end.

Lemma admits_elem_unfold o ps sd n ef attrs kids0 :
  admits_elem o ps sd (NElem n ef attrs kids0) =
  (let kids := okids (NElem n ef attrs kids0) in
   let fs := ps_fields sd in
   let abound := map (attr_bound o) attrs in
   let cbound := map remove_namespace (kid_names kids) in
   forallb (fun b => existsb (fun f => str_eqb (Oracles.bound f) b && is_string f) fs) abound
   && forallb (fun f => is_optional f || mem (Oracles.bound f) abound || mem (Oracles.bound f) cbound) fs
   && forallb (fun f => is_vec f || mem (Oracles.bound f) abound
                        || (count_local (Oracles.bound f) kids <=? 1)%nat) fs
   && (negb (has_chardata kids) || existsb (fun f => str_eqb (Oracles.bound f) (text_identifier o)) fs)
   && forallb (kid_check o ps fs) kids).
Proof. destruct ef; reflexivity. Qed.

(* ---------- the fields of the struct of a node ---------- *)
Section Fields.
  Context (o : options) (tbl : name_table) (x : element) (pth : path).
  Definition FA := map (fun a => Oracles.erase_field (attr_field o (id_new x) a)) (sorted_attrs o x).
  Definition FT := map Oracles.erase_field (text_fields o (id_new x) x).
  Definition FC := map (fun c => Oracles.erase_field (child_field tbl (id_new x) (pth ++ [ename x]) c))
                       (sorted_children o x).

  Lemma head_fields_split : ps_fields (erase (head_struct o tbl x pth)) = FA ++ FT ++ FC.
  Proof.
    unfold erase, FA, FT, FC. cbn [ps_fields]. rewrite head_struct_fields, !map_app, !map_map.
    reflexivity.
  Qed.
End Fields.

(* what each model field looks like to the oracle *)
Lemma ef_attr o m a :
  Oracles.bound (Oracles.erase_field (attr_field o m a)) = attr_bound o (snd a)
  /\ is_string (Oracles.erase_field (attr_field o m a)) = true
  /\ pf_wrap (Oracles.erase_field (attr_field o m a))
     = (match fst a with Mand => WPlain | Opt => WOption end).
Proof.
  unfold Oracles.erase_field, attr_field. cbn [f_rename f_ident f_wrap f_ty].
  rewrite bound_rename. repeat split.
Qed.

Lemma ef_child tbl m path1 c :
  Oracles.bound (Oracles.erase_field (child_field tbl m path1 c)) = remove_namespace (cname c)
  /\ pf_wrap (Oracles.erase_field (child_field tbl m path1 c))
     = child_wrap (estandalone (snd c)) (fst c)
  /\ pf_ty (Oracles.erase_field (child_field tbl m path1 c))
     = (if contains_only_text (snd c) then TyString
        else TyStruct (struct_name_at tbl (path1 ++ [cname c]))).
Proof.
  unfold Oracles.erase_field, child_field. cbn [f_rename f_ident f_wrap f_ty].
  rewrite bound_rename. repeat split.
Qed.

Lemma ef_text o x f :
  In f (FT o x) ->
  etext x = true /\ Oracles.bound f = text_identifier o /\ pf_wrap f = WOption.
Proof.
  unfold FT, text_fields. destruct (etext x); [|intros []].
  intros [<-|[]]. repeat split.
Qed.

Lemma FT_present o x :
  etext x = true ->
  existsb (fun f => str_eqb (Oracles.bound f) (text_identifier o)) (FT o x) = true.
Proof.
  intros H. unfold FT, text_fields. rewrite H. cbn [map existsb].
  unfold Oracles.bound at 1. cbn [Oracles.erase_field pf_rename f_rename].
  now rewrite str_eqb_refl.
Qed.

(* the fields of the head struct, classified *)
Inductive fclass (o : options) (x : element) (f : pfield) : Prop :=
| fc_attr (a : nec * str) :
    In a (eattrs x) -> Oracles.bound f = attr_bound o (snd a) -> is_string f = true ->
    pf_wrap f = (match fst a with Mand => WPlain | Opt => WOption end) -> fclass o x f
| fc_text :
    etext x = true -> Oracles.bound f = text_identifier o -> pf_wrap f = WOption -> fclass o x f
| fc_child (c : nec * element) :
    In c (echildren x) -> Oracles.bound f = remove_namespace (cname c) ->
    pf_wrap f = child_wrap (estandalone (snd c)) (fst c) -> fclass o x f.

Lemma head_fields_class o tbl x pth f :
  In f (ps_fields (erase (head_struct o tbl x pth))) -> fclass o x f.
Proof.
  rewrite head_fields_split, !in_app_iff. intros [H|[H|H]].
  - unfold FA in H. apply in_map_iff in H. destruct H as [a [<- Ha]].
    apply (Permutation_in _ (sorted_attrs_perm o x)) in Ha.
    destruct (ef_attr o (id_new x) a) as (B & S & W). now apply (fc_attr o x _ a).
  - destruct (ef_text o x f H) as (T & B & W). now apply fc_text.
  - unfold FC in H. apply in_map_iff in H. destruct H as [c [<- Hc]].
    apply (Permutation_in _ (sorted_children_perm o x)) in Hc.
    destruct (ef_child tbl (id_new x) (pth ++ [ename x]) c) as (B & W & _).
    now apply (fc_child o x _ c).
Qed.

(* every attribute of the node has its String field *)
Lemma head_fields_attr o tbl x pth a :
  In a (eattrs x) ->
  existsb (fun f => str_eqb (Oracles.bound f) (attr_bound o (snd a)) && is_string f)
          (ps_fields (erase (head_struct o tbl x pth))) = true.
Proof.
  intros Ha. apply existsb_exists.
  exists (Oracles.erase_field (attr_field o (id_new x) a)). split.
  - rewrite head_fields_split. apply in_or_app. left. unfold FA.
    apply (in_map (fun a => Oracles.erase_field (attr_field o (id_new x) a))).
    apply (Permutation_in _ (Permutation_sym (sorted_attrs_perm o x))). exact Ha.
  - destruct (ef_attr o (id_new x) a) as (B & S & _). now rewrite B, S, str_eqb_refl.
Qed.

(* the field found for the local name of a child element is that child's field *)
Lemma head_fields_find o tbl x pth c :
  opts_plain o -> clash_free_tree x = true -> plain_b (cname c) = true -> In c (echildren x) ->
  find (fun f => str_eqb (Oracles.bound f) (remove_namespace (cname c)))
       (ps_fields (erase (head_struct o tbl x pth)))
  = Some (Oracles.erase_field (child_field tbl (id_new x) (pth ++ [ename x]) c)).
Proof.
  intros Ho Hcf Hp Hc. rewrite head_fields_split, !find_app.
  rewrite find_none_all.
  2:{ intros f Hf. unfold FA in Hf. apply in_map_iff in Hf. destruct Hf as [a [<- _]].
      destruct (ef_attr o (id_new x) a) as (B & _). rewrite B.
      apply str_eqb_neq. now apply plain_not_attr_bound. }
  rewrite find_none_all.
  2:{ intros f Hf. destruct (ef_text o x f Hf) as (_ & B & _). rewrite B.
      apply str_eqb_neq. now apply plain_not_text_identifier. }
  unfold FC.
  apply (find_map_nodup (fun c : nec * element => remove_namespace (cname c))
           (fun c => Oracles.erase_field (child_field tbl (id_new x) (pth ++ [ename x]) c))
           Oracles.bound).
  - intros y. now destruct (ef_child tbl (id_new x) (pth ++ [ename x]) y).
  - destruct (clash_free_inv _ Hcf) as (_ & Hn & _).
    eapply Permutation_NoDup; [|exact Hn].
    apply Permutation_map, Permutation_sym, sorted_children_perm.
  - apply (Permutation_in _ (Permutation_sym (sorted_children_perm o x))). exact Hc.
Qed.

(* ---------- counting by local name ---------- *)
Lemma kid_names_eq ks : kid_names ks = elem_names ks. Proof. reflexivity. Qed.
Lemma has_chardata_eq ks : has_chardata ks = chardata ks. Proof. reflexivity. Qed.

Lemma count_local_zero b ks :
  (forall n, In n (elem_names ks) -> remove_namespace n <> b) -> count_local b ks = O.
Proof.
  intros H. unfold count_local. change (kid_names ks) with (elem_names ks).
  rewrite (proj2 (List.length_zero_iff_nil _)); [reflexivity|].
  induction (elem_names ks) as [|n l IH]; [reflexivity|].
  cbn [filter]. rewrite (proj2 (str_eqb_neq _ _)) by (apply H; now left).
  apply IH. intros n' Hn'. apply H. now right.
Qed.

Lemma count_local_named n ks :
  (forall n', In n' (elem_names ks) -> remove_namespace n' = remove_namespace n -> n' = n) ->
  count_local (remove_namespace n) ks = List.length (named n ks).
Proof.
  unfold count_local. change (kid_names ks) with (elem_names ks).
  induction ks as [|k ks IH]; intros H; [reflexivity|].
  destruct k as [n' ef a kk| | |]; try (apply IH; exact H).
  change (elem_names (NElem n' ef a kk :: ks)) with (n' :: elem_names ks) in *.
  cbn [filter named is_elem_named]. fold (named n ks).
  assert (IH' : List.length
                  (filter (fun x => str_eqb (remove_namespace x) (remove_namespace n)) (elem_names ks))
                = List.length (named n ks)).
  { apply IH. intros n'' Hn''. apply H. now right. }
  destruct (str_eqb_spec n' n) as [->|Hne].
  - rewrite str_eqb_refl. cbn [List.length]. now rewrite IH'.
  - destruct (str_eqb_spec (remove_namespace n') (remove_namespace n)) as [E|E]; [|exact IH'].
    exfalso. apply Hne. apply H; [now left|exact E].
Qed.

(* the element kids of an admitted occurrence are children of the node *)
Lemma kids_in_tree x ks n :
  Forall (KidAdmits x) ks -> In n (elem_names ks) -> In n (child_names (echildren x)).
Proof.
  intros HF Hn. unfold elem_names in Hn. apply in_flat_map in Hn. destruct Hn as [k [Hk Hn]].
  rewrite Forall_forall in HF. specialize (HF k Hk).
  destruct k as [m ef a kk| | |]; [|destruct Hn|destruct Hn|destruct Hn]. destruct Hn as [<-|[]].
  destruct HF as [c [G _]]. destruct (get_child_some _ _ _ G) as [Hc <-].
  unfold child_names. now apply in_map.
Qed.

Lemma no_children_no_kids x ks :
  echildren x = [] -> Forall (KidAdmits x) ks -> elem_names ks = [].
Proof.
  intros Hx HF. destruct (elem_names ks) as [|n l] eqn:E; [reflexivity|].
  assert (Hn : In n (elem_names ks)) by (rewrite E; now left).
  apply (kids_in_tree x ks n HF) in Hn. rewrite Hx in Hn. destruct Hn.
Qed.

(* ---------- finding the struct of a child ---------- *)
Lemma find_struct_in all d :
  NoDup (map sd_name all) -> In d all ->
  find_struct (map erase all) (sd_name d) = Some (erase d).
Proof.
  intros Hnd Hd. unfold find_struct.
  apply (find_map_nodup sd_name erase ps_name); auto.
Qed.

Lemma child_structs_incl o tbl x pth c :
  In c (echildren x) -> contains_only_text (snd c) = false ->
  incl (render_abs_at o tbl (snd c) (pth ++ [ename x])) (render_abs_at o tbl x pth).
Proof.
  intros Hc E d Hd. rewrite (render_struct_shape o tbl x pth). right.
  apply in_flat_map. exists c. split.
  - apply (Permutation_in _ (Permutation_sym (sorted_children_perm o x))). exact Hc.
  - rewrite E. exact Hd.
Qed.

Lemma head_struct_in o tbl x pth : In (head_struct o tbl x pth) (render_abs_at o tbl x pth).
Proof. rewrite render_struct_shape. now left. Qed.

(* ---------- the main induction ---------- *)
Section Main.
  Context (o : options) (tbl : name_table) (all : list structdef).
  Context (Ho : opts_plain o) (Hall : NoDup (map sd_name all)).

  (* `all`: the whole output (struct names pairwise different); `x` at `pth`: a node whose
     structs are among them *)
  Lemma render_admits_elem : forall nd x pth,
    clash_free_tree x = true -> names_plain x = true -> TreeAdmits x nd ->
    incl (render_abs_at o tbl x pth) all ->
    admits_elem o (map erase all) (erase (head_struct o tbl x pth)) nd = true.
  Proof.
    induction nd as [n ef attrs ks IH| | |] using node_ind';
      intros x pth Hcf Hnp HT Hincl; try reflexivity.
    apply TreeAdmits_elem in HT. cbv zeta in HT.
    rewrite admits_elem_unfold. cbv zeta.
    set (kids := okids (NElem n ef attrs ks)) in *.
    destruct HT as (T1 & T2 & T3 & T4 & T5 & T6).
    set (fs := ps_fields (erase (head_struct o tbl x pth))).
    pose proof (names_plain_inv _ Hnp) as Hpl. rewrite Forall_forall in Hpl.
    destruct (clash_free_inv _ Hcf) as (_ & Hcn & Hcc). rewrite Forall_forall in Hcc.
    assert (Hkn : forall n', In n' (elem_names kids) ->
                             exists c, In c (echildren x) /\ cname c = n').
    { intros n' Hn'. apply (kids_in_tree x kids n' T6) in Hn'. unfold child_names in Hn'.
      apply in_map_iff in Hn'. destruct Hn' as [c [E Hc]]. now exists c. }
    apply andb_true_iff; split;
      [apply andb_true_iff; split;
       [apply andb_true_iff; split; [apply andb_true_iff; split|]|]|].
    - (* every attribute has a String field bound to its name *)
      apply forallb_forall. intros b Hb. apply in_map_iff in Hb. destruct Hb as [a [<- Ha]].
      apply T1 in Ha. apply in_map_iff in Ha. destruct Ha as [[t a'] [E Ha]].
      cbn [snd] in E. subst a'. exact (head_fields_attr o tbl x pth (t, a) Ha).
    - (* every field not wrapped in Option is present *)
      apply forallb_forall. intros f Hf.
      destruct (head_fields_class o tbl x pth f Hf) as [a Ha B S W|Tx B W|c Hc B W].
      + destruct a as [[|] a]; cbn [fst snd] in *.
        * unfold is_optional. now rewrite W.
        * apply orb_true_iff. left. apply orb_true_iff. right. rewrite B.
          apply mem_spec. apply in_map. now apply T2.
      + unfold is_optional. now rewrite W.
      + destruct (fst c) eqn:Etag.
        * unfold is_optional. rewrite W. now destruct (estandalone (snd c)).
        * apply orb_true_iff. right. rewrite B. apply mem_spec.
          change (kid_names kids) with (elem_names kids). apply in_map. now apply T3.
    - (* a field not wrapped in Vec occurs at most once *)
      apply forallb_forall. intros f Hf.
      destruct (head_fields_class o tbl x pth f Hf) as [a Ha B S W|Tx B W|c Hc B W].
      + apply orb_true_iff. right. rewrite B, count_local_zero; [reflexivity|].
        intros n' Hn'. destruct (Hkn n' Hn') as [c [Hc <-]]. intros E. symmetry in E. revert E.
        apply plain_not_attr_bound; [exact Ho|apply (Hpl c Hc)].
      + apply orb_true_iff. right. rewrite B, count_local_zero; [reflexivity|].
        intros n' Hn'. destruct (Hkn n' Hn') as [c [Hc <-]]. intros E. symmetry in E. revert E.
        apply plain_not_text_identifier; [exact Ho|apply (Hpl c Hc)].
      + destruct (estandalone (snd c)) eqn:Est.
        * apply orb_true_iff. right. rewrite B, count_local_named.
          -- apply Nat.leb_le. now apply T4.
          -- intros n' Hn' E. destruct (Hkn n' Hn') as [c' [Hc' <-]]. f_equal.
             apply (nodup_map_inj (fun c : nec * element => remove_namespace (cname c))
                      (echildren x)); auto.
        * apply orb_true_iff. left. apply orb_true_iff. left.
          unfold is_vec. rewrite W. now destruct (fst c).
    - (* character data only where there is a text field *)
      change (has_chardata kids) with (chardata kids).
      destruct (chardata kids) eqn:Ecd; [|reflexivity]. cbn [negb orb].
      unfold fs. rewrite head_fields_split, !existsb_app.
      rewrite (FT_present o x (T5 eq_refl)). cbn [orb]. apply orb_true_r.
    - (* every child element has a field bound to its local name, and fits its type *)
      apply forallb_forall. intros k Hk.
      destruct k as [mk kef ka kks| | |]; try reflexivity.
      assert (Hkin : In (NElem mk kef ka kks) ks).
      { unfold kids in Hk. rewrite okids_elem in Hk. destruct ef; [destruct Hk|exact Hk]. }
      rewrite Forall_forall in T6. destruct (T6 _ Hk) as [c [G HTc]].
      destruct (get_child_some _ _ _ G) as [Hc Hcm]. subst mk.
      cbn [kid_check]. unfold fs.
      rewrite (head_fields_find o tbl x pth c Ho Hcf (proj1 (Hpl c Hc)) Hc).
      destruct (ef_child tbl (id_new x) (pth ++ [ename x]) c) as (_ & _ & Ty). rewrite Ty.
      destruct (contains_only_text (snd c)) eqn:Eot.
      + (* a String-typed child: no attribute, no child element *)
        apply TreeAdmits_elem in HTc. cbv zeta in HTc.
        destruct HTc as (U1 & _ & _ & _ & _ & U6).
        unfold contains_only_text in Eot.
        apply andb_true_iff in Eot. destruct Eot as [Eot Ech].
        apply andb_true_iff in Eot. destruct Eot as [_ Eat].
        assert (Eka : ka = []).
        { destruct ka as [|a0 ka]; [reflexivity|]. exfalso.
          specialize (U1 a0 (or_introl eq_refl)).
          destruct (eattrs (snd c)); [destruct U1|discriminate Eat]. }
        assert (Ekk : elem_names (okids (NElem (cname c) kef ka kks)) = []).
        { apply (no_children_no_kids (snd c)); [|exact U6].
          destruct (echildren (snd c)); [reflexivity|discriminate Ech]. }
        rewrite okids_elem in Ekk.
        change (kid_names (if kef then [] else kks)) with (elem_names (if kef then [] else kks)).
        now rewrite Eka, Ekk.
      + (* a struct-typed child: its struct is found by name, and admits the kid *)
        set (path1 := pth ++ [ename x]) in *.
        assert (Hin : In (head_struct o tbl (snd c) path1) all).
        { apply Hincl. apply (child_structs_incl o tbl x pth c Hc Eot). apply head_struct_in. }
        pose proof (find_struct_in all _ Hall Hin) as Hfs.
        change (sd_name (head_struct o tbl (snd c) path1))
          with (struct_name_at tbl (path1 ++ [cname c])) in Hfs.
        rewrite Hfs. rewrite Forall_forall in IH.
        apply (IH _ Hkin (snd c) path1); [apply (Hcc c Hc)|apply (Hpl c Hc)|exact HTc|].
        intros d Hd. apply Hincl. exact (child_structs_incl o tbl x pth c Hc Eot d Hd).
  Qed.
End Main.

(* ---------- the theorems ---------- *)
(* tree level: the rendering of a clash-free tree admits every document whose root element
   the tree admits (whatever the iteration order of the name-hint HashMap) *)
Theorem render_admits_tree_ord : forall ord o e d r,
  opts_plain o -> clash_free_tree e = true -> names_plain e = true ->
  doc_root d = Some r -> TreeAdmits e r ->
  admits_b o (map erase (render_abs_ord ord o e)) d = true.
Proof.
  intros ord o e d r Ho Hcf Hnp Hr HT.
  pose proof (struct_names_unique_ord ord o e (clash_free_Uniq e Hcf)) as Hnd.
  unfold render_abs_ord in *.
  set (tbl := compute_struct_names e (compute_name_hints_ord ord e)) in *.
  set (all := render_abs_at o tbl e []) in *.
  pose proof (render_admits_elem o tbl all Ho Hnd r e [] Hcf Hnp HT (fun d H => H)) as H.
  unfold admits_b. rewrite Hr.
  assert (Hs : exists rest, map erase all = erase (head_struct o tbl e []) :: rest).
  { unfold all. rewrite render_struct_shape. cbn [map]. eexists. reflexivity. }
  destruct Hs as [rest Hs].
  destruct (map erase all) as [|p ps] eqn:E; [discriminate Hs|].
  injection Hs as -> _. exact H.
Qed.

Theorem render_admits_tree : forall o e d r,
  opts_plain o -> clash_free_tree e = true -> names_plain e = true ->
  doc_root d = Some r -> TreeAdmits e r ->
  admits_b o (map erase (render_abs o e)) d = true.
Proof. intros o e. apply render_admits_tree_ord. Qed.

(* document level: parse the first, extend with the others, render; every source document
   is admitted.  quick-xml preset: attribute prefix "@", text identifier "$text". *)
Theorem render_admits : forall o docs m e,
  docs <> [] -> Forall (Forall wf_node) docs -> Forall (fun p => elem_names p = [m]) docs ->
  run_dom docs = Some e ->
  clash_free_tree e = true -> names_plain e = true ->
  attribute_prefix o = s "@" -> text_identifier o = s "$text" ->
  forall d, In d docs -> admits_b o (map erase (render_abs o e)) d = true.
Proof.
  intros o docs m e Hne W Hm Hrun Hcf Hnp Ha Ht d Hd.
  assert (Hdm : elem_names d = [m]) by (rewrite Forall_forall in Hm; now apply Hm).
  destruct (doc_root_exists m d Hdm) as [r Hr].
  apply (render_admits_tree o e d r); auto.
  - now apply quick_xml_opts_plain.
  - exact (tree_admits docs m e Hne W Hm Hrun d r Hd Hr).
Qed.

(* the preset the differential harness uses *)
Corollary render_admits_quick_xml : forall docs m e,
  docs <> [] -> Forall (Forall wf_node) docs -> Forall (fun p => elem_names p = [m]) docs ->
  run_dom docs = Some e ->
  clash_free_tree e = true -> names_plain e = true ->
  forall d, In d docs -> admits_b quick_xml_de (map erase (render_abs quick_xml_de e)) d = true.
Proof.
  intros docs m e Hne W Hm Hrun Hcf Hnp.
  now apply (render_admits quick_xml_de docs m e).
Qed.

(* ====================================================================== *)
(* Examples                                                                *)
(* ====================================================================== *)
Local Open Scope string_scope.
(* <r id="1"><ns:a>t</ns:a><b k="v"><c/></b><b k="w"/></r>   and, with one more attribute
   and without <ns:a>,   <r id="2" lang="en"><b k="x">text<c/><c/></b></r> *)
Definition ex_doc1 : list node :=
  [NMisc;
   NElem (s "r") false [s "id"]
     [NElem (s "ns:a") false [] [NText];
      NElem (s "b") false [s "k"] [NElem (s "c") true [] []];
      NElem (s "b") true [s "k"] []]].
Definition ex_doc2 : list node :=
  [NElem (s "r") false [s "id"; s "lang"]
     [NElem (s "b") false [s "k"] [NText; NElem (s "c") true [] []; NElem (s "c") true [] []]];
   NMisc].
Definition ex_docs := [ex_doc1; ex_doc2].

Example ex_hypotheses :
  ex_docs <> [] /\ Forall (Forall wf_node) ex_docs
  /\ Forall (fun p => elem_names p = [s "r"]) ex_docs
  /\ exists e, run_dom ex_docs = Some e /\ clash_free_tree e = true /\ names_plain e = true.
Proof.
  split; [discriminate|]. split.
  - repeat constructor; cbn; intuition discriminate.
  - split; [repeat constructor|].
    eexists. split; [vm_compute; reflexivity|]. split; vm_compute; reflexivity.
Qed.

(* the inferred tree admits both roots, and so do the rendered structs *)
Example ex_tree_admits : forall e, run_dom ex_docs = Some e ->
  forall d r, In d ex_docs -> doc_root d = Some r -> TreeAdmits e r.
Proof.
  intros e He. destruct ex_hypotheses as (H1 & H2 & H3 & _).
  exact (tree_admits ex_docs (s "r") e H1 H2 H3 He).
Qed.

Example ex_admits_both :
  match run_dom ex_docs with
  | Some e => map (admits_b quick_xml_de (map erase (render_abs quick_xml_de e))) ex_docs
  | None => []
  end = [true; true].
Proof. vm_compute. reflexivity. Qed.

(* not vacuous: the structs of the first document alone reject the second (extra attribute
   `lang`, repeated <c>), but accept the first *)
Example ex_first_alone :
  match run_dom [ex_doc1] with
  | Some e => map (admits_b quick_xml_de (map erase (render_abs quick_xml_de e))) ex_docs
  | None => []
  end = [true; false].
Proof. vm_compute. reflexivity. Qed.

(* ... the extra attribute alone is enough *)
Definition ex_doc3 : list node := [NElem (s "r") false [s "id"; s "lang"] []].
Example ex_extra_attribute :
  match run_dom [ex_doc1], run_dom [ex_doc1; ex_doc3] with
  | Some e1, Some e13 =>
      (admits_b quick_xml_de (map erase (render_abs quick_xml_de e1)) ex_doc3,
       map (admits_b quick_xml_de (map erase (render_abs quick_xml_de e13))) [ex_doc1; ex_doc3])
  | _, _ => (true, [])
  end = (false, [true; true]).
Proof. vm_compute. reflexivity. Qed.

(* the hypotheses are needed.
   clash-free: <r><p:a/><q:a/></r> — both children are bound to the local name `a`;
   the field found for <q:a> is the one of <p:a>, which is not a Vec *)
Definition ex_clash : list node :=
  [NElem (s "r") false [] [NElem (s "p:a") true [s "k"] []; NElem (s "q:a") true [] []]].
Example ex_needs_clash_free :
  match run_dom [ex_clash] with
  | Some e => (clash_free_tree e, names_plain e,
               admits_b quick_xml_de (map erase (render_abs quick_xml_de e)) ex_clash)
  | None => (true, true, true)
  end = (false, true, false).
Proof. vm_compute. reflexivity. Qed.

(* the attribute prefix: with the serde-xml-rs preset (empty prefix) the attribute `a` and the
   child <a> share one key, and the oracle (made for a non-empty prefix) rejects *)
Definition ex_noprefix : list node :=
  [NElem (s "r") false [s "a"] [NElem (s "a") true [s "k"] []]].
Example ex_needs_prefix :
  match run_dom [ex_noprefix] with
  | Some e => (clash_free_tree e, names_plain e,
               admits_b quick_xml_de (map erase (render_abs quick_xml_de e)) ex_noprefix,
               admits_b serde_xml_rs (map erase (render_abs serde_xml_rs e)) ex_noprefix)
  | None => (false, false, false, true)
  end = (true, true, true, false).
Proof. vm_compute. reflexivity. Qed.

(* plain names: an element called `@a` (not an XML name, but a value of the model's type)
   next to an attribute `a` — the field found for the element is the attribute's *)
Definition ex_notplain : list node :=
  [NElem (s "r") false [s "a"] [NElem (s "@a") true [s "k"] []]].
Example ex_needs_plain :
  match run_dom [ex_notplain] with
  | Some e => (clash_free_tree e, names_plain e,
               admits_b quick_xml_de (map erase (render_abs quick_xml_de e)) ex_notplain)
  | None => (false, true, true)
  end = (true, false, false).
Proof. vm_compute. reflexivity. Qed.
