(* C07 at the parser level: build_struct never runs out of fuel when given fuel_for, it only
   ever hands back a suffix no longer than its input, and every `count` it produces is
   bounded by the number of events consumed (so `count += 1` on a u32 cannot overflow on any
   input with fewer than 2^32 - 2 events).
   Also the shared unfolding lemmas for build_struct (`build_struct_S`, `tag_step`). *)
From XSG.Model Require Import Strings Necessity Element Parser.
From XSG.Proofs Require Import StringsProofs NecessityProofs ElementProofs.
From Coq Require Import Lia.

(* ---------- one step of build_struct, with the local `tag` closure named ---------- *)
Definition tag_step (fuel' : nat) (rest : list event) (root : element) (known : list str)
           (n : res str) (attrs : list attr_res) (empty : bool) : outcome (element * list event) :=
  match n with
  | RBad id => Err (FromUtf8Error id)
  | ROk name =>
      match attr_keys attrs with
      | inl e => Err e
      | inr keys =>
          let '(snap, root1, c0) := tag_open root name keys known empty in
          let sub := if empty then Ok (c0, rest) else build_struct fuel' rest c0 [] in
          match sub with
          | Ok (child, rest') =>
              build_struct fuel' rest' (tag_close root1 name child snap) (known_add known name)
          | Err e => Err e
          | OutOfFuel => OutOfFuel
          end
      end
  end.

Lemma build_struct_S fuel' evs root known :
  build_struct (S fuel') evs root known =
  match evs with
  | [] => Ok (root, [])
  | ev :: rest =>
      match ev with
      | EStart n attrs => tag_step fuel' rest root known n attrs false
      | EEmpty n attrs => tag_step fuel' rest root known n attrs true
      | EEnd => Ok (root, rest)
      | EText (ROk _) | ECData (ROk _) => build_struct fuel' rest (set_text root true) known
      | EText (RBad id) | ECData (RBad id) => Err (FromUtf8Error id)
      | EMisc => build_struct fuel' rest root known
      | EErr p id => Err (QuickXmlError p id)
      end
  end.
Proof. reflexivity. Qed.

(* the three components of tag_open *)
Definition open_snap (root : element) (name : str) (empty : bool) : list (str * N) * bool :=
  if empty then ([], true) else snapshot (get_child (echildren root) name).
Definition open_root (root : element) (name : str) : element :=
  set_children root (snd (remove_child (echildren root) name)).
Definition open_child (root : element) (name : str) (keys known : list str) : element :=
  match get_child (echildren root) name with
  | Some c =>
      let c1 := merge_attr (snd c) (map (fun a => (Mand, a)) keys) in
      increment (if mem name known then set_multiple c1 else c1)
  | None =>
      let c1 := new_element name keys in
      if mem name known then set_multiple c1 else c1
  end.

Lemma tag_open_eq root name keys known empty :
  tag_open root name keys known empty
  = (open_snap root name empty, open_root root name, open_child root name keys known).
Proof.
  unfold tag_open, open_snap, open_root, open_child.
  rewrite <- (remove_child_fst (echildren root) name).
  destruct (remove_child (echildren root) name) as [f r]. cbn [fst snd].
  destruct f as [c|]; reflexivity.
Qed.

(* the sub-call that reads the content of the tag *)
Definition sub_call (fuel' : nat) (rest : list event) (c0 : element) (empty : bool)
  : outcome (element * list event) :=
  if empty then Ok (c0, rest) else build_struct fuel' rest c0 [].

Lemma tag_step_ok fuel' rest root known name attrs keys empty :
  attr_keys attrs = inr keys ->
  tag_step fuel' rest root known (ROk name) attrs empty =
  match sub_call fuel' rest (open_child root name keys known) empty with
  | Ok (child, rest') =>
      build_struct fuel' rest'
        (tag_close (open_root root name) name child (open_snap root name empty))
        (known_add known name)
  | Err e => Err e
  | OutOfFuel => OutOfFuel
  end.
Proof. intros H. unfold tag_step, sub_call. rewrite H, tag_open_eq. reflexivity. Qed.

Lemma tag_step_Ok_inv fuel' rest root known n attrs empty e rest2 :
  tag_step fuel' rest root known n attrs empty = Ok (e, rest2) ->
  exists name keys child rest1,
    n = ROk name /\ attr_keys attrs = inr keys /\
    sub_call fuel' rest (open_child root name keys known) empty = Ok (child, rest1) /\
    build_struct fuel' rest1
      (tag_close (open_root root name) name child (open_snap root name empty))
      (known_add known name) = Ok (e, rest2).
Proof.
  destruct n as [name|id]; [|discriminate].
  destruct (attr_keys attrs) as [x|keys] eqn:K; [unfold tag_step; rewrite K; discriminate|].
  rewrite (tag_step_ok _ _ _ _ _ _ _ _ K).
  destruct (sub_call fuel' rest (open_child root name keys known) empty) as [[child rest1]|x|] eqn:S;
    try discriminate.
  intros H. exists name, keys, child, rest1. auto.
Qed.

Lemma sub_call_empty fuel' rest c0 : sub_call fuel' rest c0 true = Ok (c0, rest).
Proof. reflexivity. Qed.
Lemma sub_call_start fuel' rest c0 : sub_call fuel' rest c0 false = build_struct fuel' rest c0 [].
Proof. reflexivity. Qed.

(* ---------- the remainder is never longer than the input ---------- *)
Lemma build_struct_rest_le fuel : forall evs root known e rest,
  build_struct fuel evs root known = Ok (e, rest) -> (length rest <= length evs)%nat.
Proof.
  induction fuel as [|fuel' IH]; intros evs root known e rest H; [discriminate|].
  rewrite build_struct_S in H.
  assert (T : forall n attrs empty r,
             tag_step fuel' r root known n attrs empty = Ok (e, rest) ->
             (length rest <= length r)%nat).
  { intros n attrs empty r HT.
    destruct (tag_step_Ok_inv _ _ _ _ _ _ _ _ _ HT) as (name & keys & child & rest1 & _ & _ & HS & HB).
    apply IH in HB.
    destruct empty.
    - rewrite sub_call_empty in HS. injection HS as _ <-. exact HB.
    - rewrite sub_call_start in HS. apply IH in HS. lia. }
  destruct evs as [|ev r].
  - injection H as _ <-. cbn [length]. lia.
  - cbn [length].
    destruct ev as [n attrs|n attrs| |[u|id]|[u|id]| |p id]; try discriminate.
    + apply T in H. lia.
    + apply T in H. lia.
    + injection H as _ <-. lia.
    + apply IH in H. lia.
    + apply IH in H. lia.
    + apply IH in H. lia.
Qed.

(* ---------- fuel: one unit per event is enough ---------- *)
Lemma fuel_enough fuel : forall evs root known,
  (length evs < fuel)%nat -> build_struct fuel evs root known <> OutOfFuel.
Proof.
  induction fuel as [|fuel' IH]; intros evs root known L; [lia|].
  rewrite build_struct_S.
  assert (T : forall n attrs empty r,
             (length r < fuel')%nat -> tag_step fuel' r root known n attrs empty <> OutOfFuel).
  { intros n attrs empty r Lr.
    destruct n as [name|id]; [|discriminate].
    destruct (attr_keys attrs) as [x|keys] eqn:K; [unfold tag_step; rewrite K; discriminate|].
    rewrite (tag_step_ok _ _ _ _ _ _ _ _ K).
    destruct (sub_call fuel' r (open_child root name keys known) empty) as [[child rest1]|x|] eqn:S.
    - apply IH. destruct empty.
      + rewrite sub_call_empty in S. injection S as _ <-. exact Lr.
      + rewrite sub_call_start in S. apply build_struct_rest_le in S. lia.
    - discriminate.
    - exfalso. destruct empty; [discriminate|].
      rewrite sub_call_start in S. revert S. apply IH. exact Lr. }
  destruct evs as [|ev r]; [discriminate|]. cbn [length] in L.
  destruct ev as [n attrs|n attrs| |[u|id]|[u|id]| |p id]; try discriminate;
    try (apply T; lia); apply IH; lia.
Qed.

Lemma fuel_enough_both fuel evs root known :
  (length evs < fuel)%nat ->
  build_struct fuel evs root known <> OutOfFuel
  /\ forall e rest, build_struct fuel evs root known = Ok (e, rest) -> (length rest <= length evs)%nat.
Proof.
  intros L. split; [now apply fuel_enough|]. intros e rest. apply build_struct_rest_le.
Qed.

Lemma take_root_total r : r <> OutOfFuel -> take_root r <> OutOfFuel.
Proof.
  destruct r as [[w rest]|x|]; cbn [take_root]; intros H; try discriminate; [|congruence].
  destruct (echildren w) as [|c l]; [discriminate|].
  destruct (remove_child (c :: l) (ename (snd c))) as [[x|] o]; discriminate.
Qed.

Theorem parse_total evs : into_struct_ev evs <> OutOfFuel.
Proof. unfold into_struct_ev, fuel_for. apply take_root_total, fuel_enough. lia. Qed.

Theorem extend_total root evs : extend_struct_ev root evs <> OutOfFuel.
Proof. unfold extend_struct_ev, fuel_for. apply take_root_total, fuel_enough. lia. Qed.

Theorem run_total docs : run_evs docs <> OutOfFuel.
Proof.
  destruct docs as [|d r]; [discriminate|]. cbn [run_evs].
  generalize (parse_total d). generalize (into_struct_ev d).
  induction r as [|x r IH]; intros acc Hacc; cbn [fold_left]; [exact Hacc|].
  apply IH. destruct acc as [e|e|]; [apply extend_total|discriminate|congruence].
Qed.

(* a run is Ok or Err *)
Corollary run_ok_or_err docs : (exists e, run_evs docs = Ok e) \/ (exists x, run_evs docs = Err x).
Proof.
  pose proof (run_total docs) as H. destruct (run_evs docs) as [e|x|]; [left|right|congruence]; eauto.
Qed.

(* ---------- counts ---------- *)
Fixpoint max_count (e : element) : N :=
  match e with
  | Elem _ _ _ k _ ch _ =>
      N.max k ((fix go (l : list (nec * element)) : N :=
                  match l with
                  | [] => 0
                  | c :: r => N.max (max_count (snd c)) (go r)
                  end) ch)
  end.
Fixpoint max_counts (l : list (nec * element)) : N :=
  match l with
  | [] => 0
  | c :: r => N.max (max_count (snd c)) (max_counts r)
  end.

Lemma max_count_eq e : max_count e = N.max (ecount e) (max_counts (echildren e)).
Proof.
  destruct e as [n t x k a ch p]. cbn [max_count ecount echildren]. f_equal.
Qed.

Lemma ecount_le_max e : ecount e <= max_count e.
Proof. rewrite max_count_eq. lia. Qed.

Lemma max_counts_app a b : max_counts (a ++ b) = N.max (max_counts a) (max_counts b).
Proof. induction a as [|c a IH]; cbn [app max_counts]; [lia|]. rewrite IH. lia. Qed.

Lemma max_counts_in l c : In c l -> max_count (snd c) <= max_counts l.
Proof.
  induction l as [|d l IH]; cbn [In max_counts]; [tauto|].
  intros [->|H]; [lia|]. apply IH in H. lia.
Qed.

Lemma max_count_set_children e l : max_count (set_children e l) = N.max (ecount e) (max_counts l).
Proof. rewrite max_count_eq. now destruct e. Qed.
Lemma max_count_set_text e b : max_count (set_text e b) = max_count e.
Proof. rewrite !max_count_eq. now destruct e. Qed.
Lemma max_count_set_multiple e : max_count (set_multiple e) = max_count e.
Proof. rewrite !max_count_eq. now destruct e. Qed.
Lemma max_count_set_pos e p : max_count (set_pos e p) = max_count e.
Proof. rewrite !max_count_eq. now destruct e. Qed.
Lemma max_count_merge_attr e l : max_count (merge_attr e l) = max_count e.
Proof. rewrite !max_count_eq. now destruct e. Qed.
Lemma max_count_increment e : max_count (increment e) <= max_count e + 1.
Proof. rewrite !max_count_eq. destruct e; cbn [increment set_count ecount echildren]. lia. Qed.
Lemma max_count_new_element n a : max_count (new_element n a) = 1.
Proof. reflexivity. Qed.
Lemma max_count_with_pos e c : max_count (with_pos e c) = max_count c.
Proof. unfold with_pos. destruct (epos c); [reflexivity|apply max_count_set_pos]. Qed.

Lemma max_counts_remove l n : max_counts (snd (remove_child l n)) <= max_counts l.
Proof.
  induction l as [|d l IH]; cbn [remove_child]; [cbn; lia|].
  destruct (str_eqb (ename (snd d)) n); cbn [snd max_counts]; [lia|].
  destruct (remove_child l n) as [f r]. cbn [snd max_counts] in *. lia.
Qed.

Lemma max_counts_get l n c : get_child l n = Some c -> max_count (snd c) <= max_counts l.
Proof. intros H. apply get_child_some in H. destruct H as [H _]. now apply max_counts_in. Qed.

Lemma max_counts_add_unique_elem l c :
  max_counts (add_unique_elem l c) <= N.max (max_counts l) (max_count (snd c)).
Proof.
  unfold add_unique_elem. destruct (existsb (child_eqb c) l); [lia|].
  rewrite max_counts_app. cbn [max_counts]. lia.
Qed.

Lemma max_count_add_unique_child e c :
  max_count (add_unique_child e c) <= N.max (max_count e) (max_count c).
Proof.
  unfold add_unique_child. destruct (get_child (echildren e) (ename c)); [lia|].
  fold (with_pos e c). rewrite max_count_set_children.
  pose proof (max_counts_add_unique_elem (echildren e) (Mand, with_pos e c)) as H.
  cbn [snd] in H. rewrite max_count_with_pos in H. rewrite (max_count_eq e). lia.
Qed.

Lemma max_count_set_child_optional e n : max_count (set_child_optional e n) <= max_count e.
Proof.
  unfold set_child_optional.
  pose proof (remove_child_fst (echildren e) n) as F.
  pose proof (max_counts_remove (echildren e) n) as R.
  destruct (remove_child (echildren e) n) as [[c|] r]; cbn [fst snd] in *; [|lia].
  symmetry in F. apply max_counts_get in F.
  rewrite max_count_set_children.
  pose proof (max_counts_add_unique_elem r (Opt, snd c)) as H. cbn [snd] in H.
  rewrite (max_count_eq e). lia.
Qed.

Lemma max_count_fold_optional todo : forall p,
  max_count (fold_left set_child_optional todo p) <= max_count p.
Proof.
  induction todo as [|n todo IH]; intros p; cbn [fold_left]; [lia|].
  specialize (IH (set_child_optional p n)).
  pose proof (max_count_set_child_optional p n). lia.
Qed.

Lemma max_counts_update_first l n f :
  (forall x, max_count (f x) <= max_count x) ->
  max_counts (update_first l n f) <= max_counts l.
Proof.
  intros Hf. induction l as [|c l IH]; cbn [update_first]; [lia|].
  destruct (str_eqb (ename (snd c)) n); cbn [max_counts snd].
  - specialize (Hf (snd c)). lia.
  - lia.
Qed.

Lemma max_count_tag_optional_children root n cc :
  max_count (tag_optional_children root n cc) <= max_count root.
Proof.
  unfold tag_optional_children. destruct (get_child (echildren root) n) as [c|]; [|lia].
  rewrite max_count_set_children, (max_count_eq root).
  pose proof (max_counts_update_first (echildren root) n
                (fun p => fold_left set_child_optional (rev (to_optional (snd c) cc)) p)
                (max_count_fold_optional _)) as H.
  lia.
Qed.

Lemma max_count_tag_close root1 name child snap :
  max_count (tag_close root1 name child snap) <= N.max (max_count root1) (max_count child).
Proof.
  unfold tag_close. pose proof (max_count_add_unique_child root1 child) as H.
  destruct (snd snap); [|exact H].
  pose proof (max_count_tag_optional_children (add_unique_child root1 child) name (fst snap)). lia.
Qed.

Lemma max_count_open_root root name : max_count (open_root root name) <= max_count root.
Proof.
  unfold open_root. rewrite max_count_set_children, (max_count_eq root).
  pose proof (max_counts_remove (echildren root) name). lia.
Qed.

Lemma max_count_open_child root name keys known :
  max_count (open_child root name keys known) <= N.max (max_count root) 1 + 1.
Proof.
  unfold open_child. destruct (get_child (echildren root) name) as [c|] eqn:G.
  - apply max_counts_get in G. cbv zeta.
    pose proof (max_count_increment
                  (if mem name known
                   then set_multiple (merge_attr (snd c) (map (fun a => (Mand, a)) keys))
                   else merge_attr (snd c) (map (fun a => (Mand, a)) keys))) as H.
    assert (E : max_count (if mem name known
                   then set_multiple (merge_attr (snd c) (map (fun a => (Mand, a)) keys))
                   else merge_attr (snd c) (map (fun a => (Mand, a)) keys)) = max_count (snd c)).
    { destruct (mem name known); [rewrite max_count_set_multiple|]; apply max_count_merge_attr. }
    rewrite E in H. rewrite (max_count_eq root). lia.
  - cbv zeta. destruct (mem name known); [rewrite max_count_set_multiple|];
      rewrite max_count_new_element; lia.
Qed.

(* every increment consumes an event *)
Theorem count_bound fuel : forall evs root known e rest,
  build_struct fuel evs root known = Ok (e, rest) ->
  max_count e <= N.max (max_count root) 1 + N.of_nat (length evs - length rest).
Proof.
  induction fuel as [|fuel' IH]; intros evs root known e rest H; [discriminate|].
  pose proof (build_struct_rest_le _ _ _ _ _ _ H) as Lall.
  rewrite build_struct_S in H.
  assert (T : forall n attrs empty r,
             tag_step fuel' r root known n attrs empty = Ok (e, rest) ->
             max_count e <= N.max (max_count root) 1 + N.of_nat (S (length r) - length rest)).
  { intros n attrs empty r HT.
    destruct (tag_step_Ok_inv _ _ _ _ _ _ _ _ _ HT) as (name & keys & child & rest1 & _ & _ & HS & HB).
    pose proof (build_struct_rest_le _ _ _ _ _ _ HB) as L2.
    apply IH in HB.
    pose proof (max_count_tag_close (open_root root name) name child (open_snap root name empty)) as HC.
    pose proof (max_count_open_root root name) as HR.
    pose proof (max_count_open_child root name keys known) as HO.
    destruct empty.
    - rewrite sub_call_empty in HS. injection HS as <- <-. lia.
    - rewrite sub_call_start in HS.
      pose proof (build_struct_rest_le _ _ _ _ _ _ HS) as L1.
      apply IH in HS. lia. }
  destruct evs as [|ev r].
  - injection H as <- <-. lia.
  - cbn [length] in *.
    destruct ev as [n attrs|n attrs| |[u|id]|[u|id]| |p id]; try discriminate.
    + now apply T in H.
    + now apply T in H.
    + injection H as <- <-. lia.
    + pose proof (build_struct_rest_le _ _ _ _ _ _ H) as L1. apply IH in H.
      rewrite max_count_set_text in H. lia.
    + pose proof (build_struct_rest_le _ _ _ _ _ _ H) as L1. apply IH in H.
      rewrite max_count_set_text in H. lia.
    + pose proof (build_struct_rest_le _ _ _ _ _ _ H) as L1. apply IH in H. lia.
Qed.

Lemma take_root_count r e :
  take_root r = Ok e -> exists w rest, r = Ok (w, rest) /\ max_count e <= max_counts (echildren w).
Proof.
  destruct r as [[w rest]|x|]; cbn [take_root]; try discriminate.
  destruct (echildren w) as [|c l] eqn:E; [discriminate|].
  cbn [remove_child]. rewrite str_eqb_refl. intros [= <-].
  exists w, rest. split; [reflexivity|]. rewrite E. cbn [max_counts]. lia.
Qed.

Lemma max_count_wrapper : max_count wrapper = 1.
Proof. reflexivity. Qed.

Theorem parse_count_bound evs e :
  into_struct_ev evs = Ok e -> max_count e <= 1 + N.of_nat (length evs).
Proof.
  unfold into_struct_ev. intros H.
  destruct (take_root_count _ _ H) as (w & rest & HB & Hc).
  apply count_bound in HB. rewrite max_count_wrapper in HB.
  rewrite (max_count_eq w) in HB. lia.
Qed.

Theorem extend_count_bound root evs e :
  extend_struct_ev root evs = Ok e ->
  max_count e <= N.max (max_count root) 1 + N.of_nat (length evs).
Proof.
  unfold extend_struct_ev. intros H.
  destruct (take_root_count _ _ H) as (w & rest & HB & Hc).
  apply count_bound in HB.
  pose proof (max_count_add_unique_child wrapper root) as HA. rewrite max_count_wrapper in HA.
  rewrite (max_count_eq w) in HB. lia.
Qed.

Theorem no_overflow evs e :
  N.of_nat (length evs) < u32_max - 1 -> into_struct_ev evs = Ok e -> max_count e < u32_max.
Proof. intros L H. apply parse_count_bound in H. unfold u32_max in *. lia. Qed.

Theorem extend_no_overflow root evs e :
  N.max (max_count root) 1 + N.of_nat (length evs) < u32_max ->
  extend_struct_ev root evs = Ok e -> max_count e < u32_max.
Proof. intros L H. apply extend_count_bound in H. lia. Qed.

(* a whole run: parse(D1), extend(D2) ... *)
Definition total_events (docs : list (list event)) : nat :=
  fold_right (fun d k => (length d + k)%nat) 0%nat docs.

Theorem run_count_bound docs e :
  run_evs docs = Ok e -> max_count e <= 1 + N.of_nat (total_events docs).
Proof.
  destruct docs as [|d r]; [discriminate|]. cbn [run_evs total_events fold_right].
  fold (total_events r).
  assert (G : forall acc k,
             (forall e0, acc = Ok e0 -> max_count e0 <= 1 + N.of_nat k) ->
             fold_left (fun acc x => match acc with Ok e1 => extend_struct_ev e1 x | o => o end) r acc
             = Ok e ->
             max_count e <= 1 + N.of_nat (k + total_events r)).
  { induction r as [|x r IH]; intros acc k Hacc; cbn [fold_left total_events fold_right].
    - intros ->. specialize (Hacc e eq_refl). lia.
    - fold (total_events r). intros HF.
      apply (IH _ (k + length x)%nat) in HF; [lia|].
      intros e0 He0. destruct acc as [e1|x1|]; try discriminate.
      apply extend_count_bound in He0. specialize (Hacc e1 eq_refl). lia. }
  intros H. apply (G _ (length d)) in H; [exact H|].
  intros e0. apply parse_count_bound.
Qed.

Theorem run_no_overflow docs e :
  N.of_nat (total_events docs) < u32_max - 1 -> run_evs docs = Ok e -> max_count e < u32_max.
Proof. intros L H. apply run_count_bound in H. unfold u32_max in *. lia. Qed.

(* ---------- the hypotheses are satisfiable on a non-trivial value ---------- *)
From Coq Require Import String.
Definition ex_doc : list event :=
  [EMisc; EStart (ROk (s "a"%string)) [AOk (ROk (s "k"%string))];
   EEmpty (ROk (s "b"%string)) []; EEmpty (ROk (s "b"%string)) []; EText (ROk tt); EEnd].

Example ex_count_bound :
  exists e, into_struct_ev ex_doc = Ok e /\ max_count e = 2
            /\ N.of_nat (List.length ex_doc) < u32_max - 1.
Proof. eexists. split; [vm_compute; reflexivity|]. split; vm_compute; reflexivity. Qed.

Example ex_run_count :
  exists e, run_evs [ex_doc; ex_doc; ex_doc] = Ok e /\ max_count e = 6.
Proof. eexists. split; vm_compute; reflexivity. Qed.
