(* More document-level theorems restated for written byte strings (see Proofs/LexerDoc.v). *)
From Coq Require Import String.
From XSG.Model Require Import Strings Convert Necessity Element Parser Dom Spec Render Lexer.
From XSG.Corr Require Import Common Oracles.
From XSG.Proofs Require Import StringsProofs NecessityProofs ElementProofs SkelProofs DomEquiv
                               SpecProofs ReprDefs ExactProofs EventLevel InferProofs UnionProofs AdmitProofs
                               LexerProofs LexerC11 LexerEmpty LexerCData LexerSer LexerDoc.

(* C06: more written documents, supplied at the end: nothing dropped, no Option -> required, no Vec -> single *)
Theorem bytes_C06_monotone : forall docs more m,
  forallb bdoc_ok (docs ++ more) = true ->
  docs <> [] ->
  Forall (Forall wf_node) (map abs_doc (docs ++ more)) ->
  Forall (fun p => elem_names p = [m]) (map abs_doc (docs ++ more)) ->
  exists e e', run_bytes (map ser_forest docs) = Ok e /\ run_bytes (map ser_forest (docs ++ more)) = Ok e'
               /\ le_schema e e'.
Proof.
  intros docs more m H Hne Hw Hm.
  assert (H1 : forallb bdoc_ok docs = true).
  { rewrite forallb_app in H. now apply andb_prop in H. }
  rewrite map_app in Hw, Hm.
  destruct (run_dom_mono (map abs_doc docs) (map abs_doc more) m) as (e & e' & E & E' & S); auto.
  - destruct docs; [congruence|discriminate].
  - exists e, e'. rewrite (bytes_run_ser docs H1), (bytes_run_ser _ H), map_app, E, E'. auto.
Qed.

(* C06: a written document without any element (comments, character data only) changes nothing *)
Theorem bytes_C06_elementless : forall e d p,
  bdoc_ok d = true -> epos e = Some p -> elem_names (abs_doc d) = [] ->
  extend_struct_bytes e (ser_forest d) = Ok e.
Proof.
  intros e d p H Hp Hn. rewrite (bytes_extend_struct_ser e d H).
  now rewrite (extend_struct_dom_elementless e (abs_doc d) p Hp Hn).
Qed.

(* C01: the structs rendered with the quick-xml preset from the tree the library infers from the
   written documents admit every one of them *)
Theorem bytes_C01_render_admits_quick_xml : forall docs m e,
  forallb bdoc_ok docs = true ->
  docs <> [] -> Forall (Forall wf_node) (map abs_doc docs) ->
  Forall (fun p => elem_names p = [m]) (map abs_doc docs) ->
  run_bytes (map ser_forest docs) = Ok e ->
  clash_free_tree e = true -> names_plain e = true ->
  forall d, In d docs ->
    admits_b quick_xml_de (map erase (render_abs quick_xml_de e)) (abs_doc d) = true.
Proof.
  intros docs m e H Hne Hw Hm He Hc Hp d Hin.
  apply (bytes_run_iff docs e H) in He.
  apply (render_admits_quick_xml (map abs_doc docs) m e); auto.
  - destruct docs; [congruence|discriminate].
  - now apply in_map.
Qed.
