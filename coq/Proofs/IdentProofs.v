(* C04: identifiers and struct names are unique and legal; the renaming loops terminate with
   an unused name (also C07).  Model: Render.v (unused_loop, create_unused_name, id_new, id_get,
   fill_struct_names, compute_struct_names, render_abs_at). *)
From XSG.Model Require Import Strings Chars Convert Necessity Element Render.
From XSG.Proofs Require Import StringsProofs NecessityProofs ElementProofs.
From Coq Require Import Lia Permutation String Ascii DecimalString.
From Coq Require DecimalNat DecimalFacts.
Open Scope list_scope.

(* ====================================================================== *)
(* 0. generic list facts                                                   *)
(* ====================================================================== *)

Lemma nodup_app_intro {A} (l1 l2 : list A) :
  NoDup l1 -> NoDup l2 -> (forall x, In x l1 -> In x l2 -> False) -> NoDup (l1 ++ l2).
Proof.
  induction l1 as [|a l1 IH]; simpl; intros H1 H2 Hd; auto.
  inversion H1 as [|? ? Ha Hl]; subst. constructor.
  - rewrite in_app_iff. intros [Hc|Hc]; [auto|]. apply (Hd a); auto.
  - apply IH; auto. intros x Hx1 Hx2. apply (Hd x); auto.
Qed.

Lemma nodup_app_inv {A} (l1 l2 : list A) :
  NoDup (l1 ++ l2) -> NoDup l1 /\ NoDup l2 /\ (forall x, In x l1 -> In x l2 -> False).
Proof.
  induction l1 as [|a l1 IH]; simpl; intros H.
  - split; [constructor|]. split; auto.
  - inversion H as [|? ? Ha Hl]; subst. destruct (IH Hl) as (I1 & I2 & I3).
    rewrite in_app_iff in Ha. split; [|split]; auto.
    + constructor; auto.
    + intros x [->|Hx] Hx2; [tauto|]. apply (I3 x); auto.
Qed.

Lemma nodup_map_inj_on {A B} (f : A -> B) (l : list A) :
  (forall x y, In x l -> In y l -> f x = f y -> x = y) -> NoDup l -> NoDup (map f l).
Proof.
  induction l as [|a l IH]; simpl; intros Hinj Hnd; [constructor|].
  inversion Hnd as [|? ? Ha Hl]; subst. constructor.
  - intros Hc. apply in_map_iff in Hc. destruct Hc as [y [Ey Hy]].
    assert (y = a) by (apply Hinj; auto). subst. tauto.
  - apply IH; auto.
Qed.

Lemma nodup_flat_map {A B} (f : A -> list B) (l : list A) :
  NoDup l ->
  (forall x, In x l -> NoDup (f x)) ->
  (forall x y b, In x l -> In y l -> In b (f x) -> In b (f y) -> x = y) ->
  NoDup (flat_map f l).
Proof.
  induction l as [|a l IH]; simpl; intros Hnd Hf Hd; [constructor|].
  inversion Hnd as [|? ? Ha Hl]; subst.
  apply nodup_app_intro; auto.
  - apply IH; auto. intros x y b Hx Hy. apply Hd; auto.
  - intros b Hb1 Hb2. apply in_flat_map in Hb2. destruct Hb2 as [y [Hy Hby]].
    assert (a = y) by (apply (Hd a y b); auto). subst. tauto.
Qed.

Lemma perm_flat_map_pointwise {A B} (f g : A -> list B) (l : list A) :
  (forall x, In x l -> Permutation (f x) (g x)) -> Permutation (flat_map f l) (flat_map g l).
Proof.
  induction l as [|a l IH]; simpl; intros H; [constructor|].
  apply Permutation_app; auto.
Qed.

Lemma perm_flat_map_app {A B} (f g : A -> list B) (l : list A) :
  Permutation (flat_map (fun x => f x ++ g x) l) (flat_map f l ++ flat_map g l).
Proof.
  induction l as [|a l IH]; simpl; [constructor|].
  rewrite <- !app_assoc. apply Permutation_app_head.
  eapply perm_trans; [apply Permutation_app_head, IH|].
  rewrite !app_assoc. apply Permutation_app_tail. apply Permutation_app_comm.
Qed.

(* ====================================================================== *)
(* 1. decimal printing is injective, the renaming loop finds an unused name *)
(* ====================================================================== *)

Lemma s_inj a b : s a = s b -> a = b.
Proof.
  unfold s. intros H.
  rewrite <- (string_of_list_ascii_of_string a), <- (string_of_list_ascii_of_string b).
  f_equal. revert H. generalize (list_ascii_of_string a) (list_ascii_of_string b).
  intros l1. induction l1 as [|x l1 IH]; intros [|y l2]; simpl; intros H; try discriminate; auto.
  injection H as Hxy Hl. f_equal; auto.
  rewrite <- (ascii_N_embedding x), <- (ascii_N_embedding y). now rewrite Hxy.
Qed.

Lemma to_uint_nonnil n : Nat.to_uint n <> Decimal.Nil.
Proof.
  pose proof (DecimalNat.Unsigned.to_of (Nat.to_uint n)) as H. rewrite DecimalNat.Unsigned.of_to in H.
  rewrite H. apply DecimalFacts.unorm_nonnil.
Qed.

Lemma dec_inj i j : dec i = dec j -> i = j.
Proof.
  unfold dec. intros H. apply s_inj in H.
  apply DecimalNat.Unsigned.to_uint_inj.
  pose proof (NilZero.usu _ (to_uint_nonnil i)) as Hi.
  pose proof (NilZero.usu _ (to_uint_nonnil j)) as Hj.
  rewrite H in Hi. rewrite Hi in Hj. now injection Hj.
Qed.

Lemma dec_nonempty i : dec i <> [].
Proof.
  unfold dec. pose proof (to_uint_nonnil i) as H.
  destruct (Nat.to_uint i); try congruence; discriminate.
Qed.

(* the i-th candidate tried by the loop *)
Definition cand (name sep : str) (i : nat) : str :=
  match i with O => name | _ => name ++ sep ++ dec i end.

Lemma cand_inj name sep i j : cand name sep i = cand name sep j -> i = j.
Proof.
  assert (Hne : forall k, name <> name ++ sep ++ dec (S k)).
  { intros k H. rewrite <- (app_nil_r name) in H at 1. apply app_inv_head in H.
    symmetry in H. apply app_eq_nil in H. destruct H as [_ H]. now apply dec_nonempty in H. }
  destruct i as [|i], j as [|j]; simpl; intros H; auto.
  - now apply Hne in H.
  - symmetry in H. now apply Hne in H.
  - apply app_inv_head in H. apply app_inv_head in H. now apply dec_inj.
Qed.

Lemma unused_loop_spec fuel : forall i name sep reserved,
  let r := unused_loop fuel i name sep reserved in
  ~ In r reserved \/
  (r = cand name sep (i + fuel) /\ forall k, (i <= k < i + fuel)%nat -> In (cand name sep k) reserved).
Proof.
  induction fuel as [|f IH]; intros i name sep reserved; cbn [unused_loop]; fold (cand name sep i).
  - right. split; [now rewrite Nat.add_0_r|]. intros k Hk. lia.
  - destruct (mem (cand name sep i) reserved) eqn:M.
    + destruct (IH (S i) name sep reserved) as [H|[H1 H2]]; [now left|right].
      split; [rewrite H1; f_equal; lia|].
      intros k Hk. destruct (Nat.eq_dec k i) as [->|Hne]; [now apply mem_spec|].
      apply H2. lia.
    + left. now apply mem_false.
Qed.

Lemma cands_nodup name sep i n : NoDup (map (cand name sep) (seq i n)).
Proof.
  apply nodup_map_inj_on; [|apply seq_NoDup].
  intros x y _ _. apply cand_inj.
Qed.

(* any fuel exceeding |reserved| suffices, from any starting index *)
Lemma unused_loop_fresh_gen fuel i name sep reserved :
  (List.length reserved < fuel)%nat -> ~ In (unused_loop fuel i name sep reserved) reserved.
Proof.
  intros Hlen. destruct (unused_loop_spec fuel i name sep reserved) as [H|[_ H]]; auto.
  exfalso.
  assert (Hincl : incl (map (cand name sep) (seq i fuel)) reserved).
  { intros x Hx. apply in_map_iff in Hx. destruct Hx as [k [<- Hk]]. apply in_seq in Hk. now apply H. }
  apply NoDup_incl_length in Hincl; [|apply cands_nodup].
  rewrite map_length, seq_length in Hincl. lia.
Qed.

Lemma unused_loop_fresh name sep reserved :
  ~ In (unused_loop (S (List.length reserved)) 0 name sep reserved) reserved.
Proof. apply unused_loop_fresh_gen. lia. Qed.

Example unused_loop_example :
  let reserved := [s "a"; s "a_2"; s "a_1"] in
  unused_loop (S (List.length reserved)) 0 (s "a") [us] reserved = s "a_3"
  /\ create_unused_name [s "text"; s "k"] (s "k") TAttr = (s "k_attr", [s "text"; s "k"; s "k_attr"]).
Proof. split; vm_compute; reflexivity. Qed.

(* the result is always one of the candidates (the shape `name` or `name ++ sep ++ decimal`) *)
Lemma unused_loop_is_cand fuel : forall i name sep reserved,
  exists k, (i <= k <= i + fuel)%nat /\ unused_loop fuel i name sep reserved = cand name sep k.
Proof.
  induction fuel as [|f IH]; intros i name sep reserved; cbn [unused_loop]; fold (cand name sep i).
  - exists i. split; [lia|reflexivity].
  - destruct (mem (cand name sep i) reserved).
    + destruct (IH (S i) name sep reserved) as [k [Hk E]]. exists k. split; [lia|exact E].
    + exists i. split; [lia|reflexivity].
Qed.

(* ====================================================================== *)
(* 2. create_unused_name                                                   *)
(* ====================================================================== *)

Lemma create_unused_name_fresh r name t :
  let '(u, r') := create_unused_name r name t in ~ In u r /\ r' = r ++ [u].
Proof. unfold create_unused_name. split; [apply unused_loop_fresh|reflexivity]. Qed.

Lemma create_unused_name_snd r name t :
  snd (create_unused_name r name t) = r ++ [fst (create_unused_name r name t)].
Proof. reflexivity. Qed.
Lemma create_unused_name_notin r name t : ~ In (fst (create_unused_name r name t)) r.
Proof. unfold create_unused_name. cbn [fst]. apply unused_loop_fresh. Qed.

(* ====================================================================== *)
(* 3. field identifiers: id_new / id_get                                   *)
(* ====================================================================== *)

Lemma idty_eqb_spec a b : reflect (a = b) (idty_eqb a b).
Proof. destruct a, b; simpl; constructor; congruence. Qed.

Lemma key_eqb_true k kt n t : str_eqb k n && idty_eqb kt t = true <-> (k, kt) = (n, t).
Proof.
  destruct (str_eqb_spec k n) as [->|Hn], (idty_eqb_spec kt t) as [->|Ht]; simpl;
    split; congruence.
Qed.

(* one of the two folds of id_new, over an arbitrary list with a key projection *)
Definition id_fold {A} (key : A -> str) (nm : str) (t : idty) (l : list A) (st : idmap * list str)
  : idmap * list str :=
  fold_left (fun '(m, r) c =>
               let real := key c in
               let '(u, r') := create_unused_name r (to_valid_key real nm) t in
               (m ++ [((real, t), u)], r')) l st.

Lemma id_new_eq e :
  id_new e =
  let st1 := id_fold (fun c => ename (snd c)) (ename e) TChild (echildren e) ([], []) in
  let st2 := id_fold snd (ename e) TAttr (eattrs e) st1 in
  fst st2 ++ [((s "text", TText), fst (create_unused_name (snd st2) (s "text") TText))].
Proof.
  unfold id_new, id_fold. cbv zeta.
  destruct (fold_left _ (echildren e) _) as [m1 r1].
  destruct (fold_left _ (eattrs e) _) as [m2 r2].
  reflexivity.
Qed.

Lemma id_fold_cons {A} (key : A -> str) nm t c (l : list A) m r :
  id_fold key nm t (c :: l) (m, r) =
  let u := fst (create_unused_name r (to_valid_key (key c) nm) t) in
  id_fold key nm t l (m ++ [((key c, t), u)], r ++ [u]).
Proof. reflexivity. Qed.

Lemma id_fold_spec {A} (key : A -> str) nm t (l : list A) : forall st,
  map snd (fst st) = snd st -> NoDup (snd st) ->
  let st' := id_fold key nm t l st in
  map snd (fst st') = snd st' /\ NoDup (snd st') /\
  map fst (fst st') = map fst (fst st) ++ map (fun c => (key c, t)) l.
Proof.
  induction l as [|c l IH]; intros [m r] Hm Hr; cbn [fst snd] in *; cbv zeta.
  - cbn. rewrite app_nil_r. auto.
  - rewrite id_fold_cons. cbv zeta.
    pose proof (create_unused_name_notin r (to_valid_key (key c) nm) t) as Hn.
    set (u := fst (create_unused_name r (to_valid_key (key c) nm) t)) in *.
    destruct (IH (m ++ [((key c, t), u)], r ++ [u])) as (I1 & I2 & I3); cbn [fst snd] in *.
    + rewrite map_app. cbn. now rewrite Hm.
    + now apply nodup_snoc.
    + split; [exact I1|]. split; [exact I2|].
      rewrite I3. rewrite map_app. cbn [map fst]. now rewrite <- app_assoc.
Qed.

Definition id_keys (e : element) : list (str * idty) :=
  map (fun c => (cname c, TChild)) (echildren e)
  ++ map (fun a => (snd a, TAttr)) (eattrs e)
  ++ [(s "text", TText)].

Lemma id_new_spec e : map fst (id_new e) = id_keys e /\ NoDup (map snd (id_new e)).
Proof.
  rewrite id_new_eq. cbv zeta.
  pose proof (id_fold_spec (fun c : nec * element => ename (snd c)) (ename e) TChild (echildren e) ([], []))
    as HA. cbv zeta in HA.
  set (st1 := id_fold (fun c : nec * element => ename (snd c)) (ename e) TChild (echildren e) ([], [])) in *.
  destruct HA as (A1 & A2 & A3); [reflexivity|constructor|].
  pose proof (id_fold_spec (@snd nec str) (ename e) TAttr (eattrs e) st1 A1 A2) as HB. cbv zeta in HB.
  set (st2 := id_fold snd (ename e) TAttr (eattrs e) st1) in *.
  destruct HB as (B1 & B2 & B3).
  pose proof (create_unused_name_notin (snd st2) (s "text") TText) as Hn.
  rewrite !map_app. cbn [map fst snd]. split.
  - unfold idmap in *. rewrite B3, A3. cbn [fst map app]. unfold id_keys, cname. now rewrite <- app_assoc.
  - rewrite B1. now apply nodup_snoc.
Qed.

Lemma id_new_keys e : map fst (id_new e) = id_keys e.
Proof. apply id_new_spec. Qed.
(* every identifier handed out is new: the identifiers in the map are pairwise different *)
Lemma id_new_values_nodup e : NoDup (map snd (id_new e)).
Proof. apply id_new_spec. Qed.

Lemma nodup_map_tag (t : idty) (l : list str) : NoDup l -> NoDup (map (fun n => (n, t)) l).
Proof. apply nodup_map_inj_on. intros x y _ _ H. now injection H. Qed.

Lemma id_keys_nodup e : Uniq e -> NoDup (id_keys e).
Proof.
  intros U. destruct (Uniq_inv _ U) as (Ha & Hc & _). unfold id_keys.
  apply nodup_app_intro; [|apply nodup_app_intro|].
  - unfold child_names in Hc. rewrite <- (map_map cname (fun n => (n, TChild))).
    now apply nodup_map_tag.
  - rewrite <- (map_map snd (fun n => (n, TAttr))). now apply nodup_map_tag.
  - repeat constructor. simpl. tauto.
  - intros x H1 [H2|[]]. subst x. apply in_map_iff in H1. destruct H1 as [a [E _]]. discriminate.
  - intros x H1 H2. apply in_map_iff in H1. destruct H1 as [c [<- _]].
    apply in_app_iff in H2. destruct H2 as [H2|[H2|[]]]; [|discriminate].
    apply in_map_iff in H2. destruct H2 as [a [E _]]. discriminate.
Qed.

(* ---------- id_get: the last binding wins; with distinct keys, the only one ---------- *)
Definition id_get_step (n : str) (t : idty) (acc : option str) (kv : (str * idty) * str) : option str :=
  let '((k, kt), v) := kv in if str_eqb k n && idty_eqb kt t then Some v else acc.

Lemma id_get_eq m n t : id_get m n t = fold_left (id_get_step n t) m None.
Proof. reflexivity. Qed.

Lemma id_get_fold_absent n t m : forall acc,
  ~ In (n, t) (map fst m) -> fold_left (id_get_step n t) m acc = acc.
Proof.
  induction m as [|[[k kt] v] m IH]; intros acc H; cbn [fold_left]; auto.
  rewrite IH; [|intros Hc; apply H; right; exact Hc].
  unfold id_get_step. destruct (str_eqb k n && idty_eqb kt t) eqn:E; auto.
  apply key_eqb_true in E. exfalso. apply H. left. exact E.
Qed.

Lemma id_get_fold_in n t v m : forall acc,
  NoDup (map fst m) -> In ((n, t), v) m -> fold_left (id_get_step n t) m acc = Some v.
Proof.
  induction m as [|[[k kt] v'] m IH]; intros acc Hnd Hin; [destruct Hin|].
  cbn [map fst] in Hnd. inversion Hnd as [|? ? Hk Hm]; subst.
  cbn [fold_left]. destruct Hin as [E|Hin].
  - injection E as -> -> ->. rewrite id_get_fold_absent; auto.
    unfold id_get_step. now rewrite str_eqb_refl; destruct t.
  - now apply IH.
Qed.

Lemma id_get_in m n t v : NoDup (map fst m) -> In ((n, t), v) m -> id_get m n t = Some v.
Proof. intros. rewrite id_get_eq. now apply id_get_fold_in. Qed.
Lemma id_get_absent m n t : ~ In (n, t) (map fst m) -> id_get m n t = None.
Proof. intros. rewrite id_get_eq. now apply id_get_fold_absent. Qed.

(* the lookup-with-default used by the renderer *)
Definition id_getd (m : idmap) (k : str * idty) : str :=
  match id_get m (fst k) (snd k) with Some x => x | None => fst k end.

Lemma in_map_fst_ex {A B} (l : list (A * B)) k : In k (map fst l) -> exists v, In (k, v) l.
Proof. intros H. apply in_map_iff in H. destruct H as [[k' v] [<- H]]. now exists v. Qed.

Lemma nodup_snd_key {A B} (l : list (A * B)) a b v :
  NoDup (map snd l) -> In (a, v) l -> In (b, v) l -> a = b.
Proof.
  induction l as [|[k w] l IH]; intros Hnd Ha Hb; [destruct Ha|].
  cbn [map snd] in Hnd. inversion Hnd as [|? ? Hw Hl]; subst.
  assert (Hv : forall c, In (c, v) l -> In v (map snd l)).
  { intros c Hc. apply in_map_iff. now exists (c, v). }
  destruct Ha as [Ea|Ha], Hb as [Eb|Hb].
  - congruence.
  - injection Ea as -> ->. exfalso. eauto.
  - injection Eb as -> ->. exfalso. eauto.
  - now apply IH.
Qed.

Lemma id_getd_in m k v : NoDup (map fst m) -> In (k, v) m -> id_getd m k = v.
Proof. destruct k as [n t]. intros Hnd Hin. unfold id_getd. cbn [fst snd]. now rewrite (id_get_in m n t v). Qed.

Lemma id_getd_inj m k1 k2 :
  NoDup (map fst m) -> NoDup (map snd m) -> In k1 (map fst m) -> In k2 (map fst m) ->
  id_getd m k1 = id_getd m k2 -> k1 = k2.
Proof.
  intros Hk Hv H1 H2 E.
  destruct (in_map_fst_ex _ _ H1) as [v1 I1]. destruct (in_map_fst_ex _ _ H2) as [v2 I2].
  rewrite (id_getd_in m k1 v1 Hk I1), (id_getd_in m k2 v2 Hk I2) in E. subst v2.
  eapply nodup_snd_key; eauto.
Qed.
