(* C12 — the command-line program (Model/Cli.v): exit status, effects on stdout / stderr / the
   output file for every combination of arguments, read outcome and create outcome. *)
From XSG.Model Require Import Strings Necessity Element Parser Render Cli.
From XSG.Proofs Require Import ParserTotal.
From Coq Require Import String List NArith.
Import ListNotations.
Local Open Scope list_scope.
Local Open Scope N_scope.

(* ---------- the parser result is Ok or Err (OutOfFuel excluded by parse_total) ---------- *)
Lemma parse_ok_or_err evs :
  (exists e, into_struct_ev evs = Ok e) \/ (exists x, into_struct_ev evs = Err x).
Proof.
  pose proof (parse_total evs) as H.
  destruct (into_struct_ev evs) as [e|x|]; [left|right|congruence]; eauto.
Qed.

(* ---------- the four outcomes of cli_run ---------- *)
Lemma cli_stdout a evs e c :
  into_struct_ev evs = Ok e -> a_output a = false ->
  cli_run a (RText evs) c = ([Stdout (header ++ to_serde_struct (opts_of a) e ++ [10])], 0).
Proof.
  intros He Ho. unfold cli_run. rewrite He, Ho. rewrite <- app_assoc. reflexivity.
Qed.

Lemma cli_file a evs e :
  into_struct_ev evs = Ok e -> a_output a = true ->
  cli_run a (RText evs) true
  = ([CreateTruncate; WriteFile (header ++ to_serde_struct (opts_of a) e)], 0).
Proof. intros He Ho. unfold cli_run. rewrite He, Ho. reflexivity. Qed.

Lemma cli_create_fault a evs e :
  into_struct_ev evs = Ok e -> a_output a = true ->
  cli_run a (RText evs) false = ([Stderr], 1).
Proof. intros He Ho. unfold cli_run. rewrite He, Ho. reflexivity. Qed.

Lemma cli_input_fault a r c :
  (r = RFail \/ exists evs x, r = RText evs /\ into_struct_ev evs = Err x) ->
  cli_run a r c = ([Stderr], 1).
Proof.
  intros [-> | [evs [x [-> Hx]]]]; unfold cli_run; [reflexivity|]. rewrite Hx. reflexivity.
Qed.

(* the same fault, stated without naming the error: "the parser gives no element" *)
Lemma cli_input_fault' a r c :
  (r = RFail \/ exists evs, r = RText evs /\ forall e, into_struct_ev evs <> Ok e) ->
  cli_run a r c = ([Stderr], 1).
Proof.
  intros [-> | [evs [-> Hn]]]; [reflexivity|].
  apply cli_input_fault. right. exists evs.
  destruct (parse_ok_or_err evs) as [[e He] | [x Hx]]; [destruct (Hn e He)|eauto].
Qed.

(* ---------- complete case analysis: cli_run is always one of three shapes ---------- *)
Lemma cli_cases a r c :
  cli_run a r c = ([Stderr], 1)
  \/ (exists t, a_output a = false /\ cli_run a r c = ([Stdout t], 0))
  \/ (exists t, a_output a = true /\ cli_run a r c = ([CreateTruncate; WriteFile t], 0)).
Proof.
  destruct r as [|evs]; [left; reflexivity|].
  destruct (parse_ok_or_err evs) as [[e He] | [x Hx]].
  - destruct (a_output a) eqn:Ho.
    + destruct c.
      * right; right. eexists. split; [reflexivity|]. exact (cli_file a evs e He Ho).
      * left. exact (cli_create_fault a evs e He Ho).
    + right; left. eexists. split; [reflexivity|]. exact (cli_stdout a evs e c He Ho).
  - left. apply cli_input_fault. right; eauto.
Qed.

Lemma cli_exit_codes a r c :
  let (effs, code) := cli_run a r c in
  (code = 0 \/ code = 1) /\ (code = 1 -> effs = [Stderr]) /\ (code = 0 -> ~ In Stderr effs).
Proof.
  destruct (cli_cases a r c) as [H | [[t [_ H]] | [t [_ H]]]]; rewrite H.
  - split; [right; reflexivity|]. split; [reflexivity|]. intros H1; discriminate H1.
  - split; [left; reflexivity|]. split; [intros H1; discriminate H1|].
    intros _ [Hin | []]. discriminate Hin.
  - split; [left; reflexivity|]. split; [intros H1; discriminate H1|].
    intros _ [Hin | [Hin | []]]; discriminate Hin.
Qed.

Lemma cli_no_file_touched_on_input_fault a r c :
  (r = RFail \/ exists evs, r = RText evs /\ forall e, into_struct_ev evs <> Ok e) ->
  ~ In CreateTruncate (fst (cli_run a r c)) /\ forall t, ~ In (WriteFile t) (fst (cli_run a r c)).
Proof.
  intros H. rewrite (cli_input_fault' a r c H). cbn [fst]. split.
  - intros [Hin | []]. discriminate Hin.
  - intros t [Hin | []]. discriminate Hin.
Qed.

Lemma cli_stdout_xor_file a r c t :
  In (Stdout t) (fst (cli_run a r c)) ->
  a_output a = false /\ ~ In CreateTruncate (fst (cli_run a r c)).
Proof.
  destruct (cli_cases a r c) as [H | [[t' [Ho H]] | [t' [_ H]]]]; rewrite H; cbn [fst].
  - intros [Hin | []]. discriminate Hin.
  - intros _. split; [exact Ho|]. intros [Hin | []]. discriminate Hin.
  - intros [Hin | [Hin | []]]; discriminate Hin.
Qed.

(* stdout stays empty whenever an output file is named, whatever happens *)
Lemma cli_file_no_stdout a r c t :
  a_output a = true -> ~ In (Stdout t) (fst (cli_run a r c)).
Proof.
  intros Ho Hin. destruct (cli_stdout_xor_file a r c t Hin) as [Hf _]. congruence.
Qed.

(* ---------- the options the flags select ---------- *)
Lemma cli_options a :
  text_identifier (opts_of a) = s "$text"
  /\ attribute_prefix (opts_of a)
     = match a_parser a with Some PSerdeXmlRs => [] | _ => s "@" end
  /\ derive (opts_of a)
     = match a_derive a with Some d => d | None => s "Serialize, Deserialize" end
  /\ sort (opts_of a) = match a_sort a with Some x => x | None => Unsorted end.
Proof.
  unfold opts_of. cbn [text_identifier attribute_prefix derive sort].
  destruct (a_parser a) as [[|]|]; repeat split; reflexivity.
Qed.

Lemma cli_options_default_quick b :
  opts_of {| a_parser := None; a_derive := None; a_sort := None; a_output := b |} = quick_xml_de.
Proof. reflexivity. Qed.

Lemma cli_options_explicit_quick b :
  opts_of {| a_parser := Some PQuickXmlDe; a_derive := None; a_sort := None; a_output := b |}
  = quick_xml_de.
Proof. reflexivity. Qed.

Lemma cli_options_serde_xml_rs b :
  opts_of {| a_parser := Some PSerdeXmlRs; a_derive := None; a_sort := None; a_output := b |}
  = serde_xml_rs.
Proof. reflexivity. Qed.

(* ---------- the header and the layout of stdout ---------- *)
Lemma cli_header : header = s "use serde::{Deserialize, Serialize};" ++ [10; 10].
Proof. reflexivity. Qed.

Lemma cli_stdout_layout a evs e c :
  into_struct_ev evs = Ok e -> a_output a = false ->
  cli_run a (RText evs) c
  = ([Stdout (s "use serde::{Deserialize, Serialize};" ++ [10] ++ [10]
              ++ to_serde_struct (opts_of a) e ++ [10])], 0).
Proof.
  intros He Ho. rewrite (cli_stdout a evs e c He Ho). unfold header.
  rewrite <- app_assoc. reflexivity.
Qed.

Lemma cli_file_layout a evs e :
  into_struct_ev evs = Ok e -> a_output a = true ->
  cli_run a (RText evs) true
  = ([CreateTruncate;
      WriteFile (s "use serde::{Deserialize, Serialize};" ++ [10] ++ [10]
                 ++ to_serde_struct (opts_of a) e)], 0).
Proof.
  intros He Ho. rewrite (cli_file a evs e He Ho). unfold header.
  rewrite <- app_assoc. reflexivity.
Qed.

(* ---------- non-vacuity ---------- *)
Definition ex_evs : list event := [EStart (ROk (s "a")) []; EEnd].
Definition ex_args (out : bool) : args :=
  {| a_parser := None; a_derive := None; a_sort := Some XmlName; a_output := out |}.

Definition ex_text : str :=
  s "use serde::{Deserialize, Serialize};" ++ [10] ++ [10]
  ++ s "#[derive(Serialize, Deserialize)]" ++ [10]
  ++ s "pub struct A {" ++ [10]
  ++ s "}" ++ [10] ++ [10].

Example cli_ex_parse : exists e, into_struct_ev ex_evs = Ok e.
Proof. eexists. vm_compute. reflexivity. Qed.

Example cli_ex_stdout :
  cli_run (ex_args false) (RText ex_evs) true = ([Stdout (ex_text ++ [10])], 0).
Proof. vm_compute. reflexivity. Qed.

Example cli_ex_file :
  cli_run (ex_args true) (RText ex_evs) true = ([CreateTruncate; WriteFile ex_text], 0).
Proof. vm_compute. reflexivity. Qed.

Example cli_ex_create_fault :
  cli_run (ex_args true) (RText ex_evs) false = ([Stderr], 1).
Proof. vm_compute. reflexivity. Qed.

(* input faults: unreadable file; a document the parser rejects (here: a reader error) *)
Example cli_ex_read_fault : cli_run (ex_args true) RFail true = ([Stderr], 1).
Proof. vm_compute. reflexivity. Qed.

Example cli_ex_parse_fault :
  (exists x, into_struct_ev [EStart (ROk (s "a")) []; EErr 3 0] = Err x)
  /\ cli_run (ex_args true) (RText [EStart (ROk (s "a")) []; EErr 3 0]) true = ([Stderr], 1).
Proof. split; [eexists|]; vm_compute; reflexivity. Qed.

(* --sort makes a difference: <r><b/><a/></r> rendered unsorted and sorted by name *)
Definition ex_evs2 : list event :=
  [EStart (ROk (s "r")) []; EEmpty (ROk (s "b")) []; EEmpty (ROk (s "a")) []; EEnd].
Definition ex_struct (d : string) (n : string) (fields : list string) : str :=
  s "#[derive(" ++ s d ++ s ")]" ++ [10] ++ s "pub struct " ++ s n ++ s " {" ++ [10]
  ++ concat (map (fun f => s "    pub " ++ s f ++ s "," ++ [10]) fields)
  ++ s "}" ++ [10] ++ [10].

Example cli_ex_sorted :
  cli_run (ex_args false) (RText ex_evs2) true
  = ([Stdout (header
              ++ ex_struct "Serialize, Deserialize" "R" ["a: A"; "b: B"]%string
              ++ ex_struct "Serialize, Deserialize" "A" []
              ++ ex_struct "Serialize, Deserialize" "B" [] ++ [10])], 0).
Proof. vm_compute. reflexivity. Qed.

Example cli_ex_unsorted_derive :
  cli_run {| a_parser := Some PSerdeXmlRs; a_derive := Some (s "Debug"); a_sort := None;
             a_output := false |} (RText ex_evs2) true
  = ([Stdout (header
              ++ ex_struct "Debug" "R" ["b: B"; "a: A"]%string
              ++ ex_struct "Debug" "B" []
              ++ ex_struct "Debug" "A" [] ++ [10])], 0).
Proof. vm_compute. reflexivity. Qed.
