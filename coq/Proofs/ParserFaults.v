(* C08 at the parser level: the verdict of the nested, recursive consumer `build_struct`
   (and of into_struct_ev / extend_struct_ev / run_evs built on it) is the verdict of a flat
   left-to-right scan of the reader events.
   * `event_fault`, `first_fault`, `has_element`, `expected_verdict` restate the oracle
     definitions of Corr/CoreCorr.v (Corr files are not imported by Proofs).
   * `scan` is a depth-aware flat scanner; `build_scan` ties build_struct to it for EVERY
     event stream (balanced or not); the `*_scan_*` theorems are the full-strength results.
   * `no_stray_end 0 evs` (no unmatched end tag before the first fault -- true of every stream
     a default-configured reader delivers, since it reports an unmatched end tag as an error)
     turns `scan` into `first_fault`; the `parse_*`, `extend_*`, `run_verdict` theorems are the
     statements pinned in Properties/C08.v. *)
From XSG.Model Require Import Strings Necessity Element Parser.
From XSG.Proofs Require Import StringsProofs NecessityProofs ElementProofs ParserTotal.
From Coq Require Import Lia.

(* ====================================================================== *)
(* ---------- the flat oracle ---------- *)

(* what makes one event faulty: the name, then the attributes in order up to the first
   fault; character data; a reader error *)
Definition event_fault (ev : event) : option perror :=
  match ev with
  | EStart n attrs | EEmpty n attrs =>
      match n with
      | RBad id => Some (FromUtf8Error id)
      | ROk _ => match attr_keys attrs with inl e => Some e | inr _ => None end
      end
  | EText (RBad id) | ECData (RBad id) => Some (FromUtf8Error id)
  | EErr p id => Some (QuickXmlError p id)
  | _ => None
  end.

Fixpoint first_fault (evs : list event) : option perror :=
  match evs with
  | [] => None
  | ev :: r => match event_fault ev with Some e => Some e | None => first_fault r end
  end.

Definition is_element_event (ev : event) : bool :=
  match ev with EStart _ _ | EEmpty _ _ => true | _ => false end.
Definition has_element (evs : list event) : bool := existsb is_element_event evs.

(* expected verdict of parse(D1), extend(D2)...: the first document with a fault (or, for
   D1, without any element) decides; None = Ok *)
Fixpoint expected_verdict (first : bool) (docs : list (list event)) : option perror :=
  match docs with
  | [] => None
  | d :: r =>
      match first_fault d with
      | Some e => Some e
      | None => if first && negb (has_element d) then Some NoRootError
                else expected_verdict false r
      end
  end.

(* ---------- the depth-aware flat scanner ---------- *)
Inductive sres :=
| SFault (x : perror)              (* stopped at a faulty event *)
| SReturn (rest : list event)      (* an end tag at depth 0: the consumer returns here *)
| SEof.                            (* the stream is exhausted *)

Fixpoint scan (d : nat) (evs : list event) : sres :=
  match evs with
  | [] => SEof
  | ev :: r =>
      match event_fault ev with
      | Some x => SFault x
      | None =>
          match ev with
          | EStart _ _ => scan (S d) r
          | EEnd => match d with O => SReturn r | S d' => scan d' r end
          | _ => scan d r
          end
      end
  end.

(* no end tag at depth 0 before the first fault *)
Fixpoint no_stray_end (d : nat) (evs : list event) : bool :=
  match evs with
  | [] => true
  | ev :: r =>
      match event_fault ev with
      | Some _ => true
      | None =>
          match ev with
          | EStart _ _ => no_stray_end (S d) r
          | EEnd => match d with O => false | S d' => no_stray_end d' r end
          | _ => no_stray_end d r
          end
      end
  end.

(* the same without looking at faults: no end tag at depth 0 anywhere (a simpler, stronger
   condition; `no_stray_end_of_strict` below) *)
Fixpoint no_stray_end_strict (d : nat) (evs : list event) : bool :=
  match evs with
  | [] => true
  | EStart _ _ :: r => no_stray_end_strict (S d) r
  | EEnd :: r => match d with O => false | S d' => no_stray_end_strict d' r end
  | _ :: r => no_stray_end_strict d r
  end.

(* is there an element event before the first end tag / the end of the list?  (what the
   top-level call of build_struct gets to see of a stream without faults) *)
Fixpoint elem_first (evs : list event) : bool :=
  match evs with
  | [] => false
  | EStart _ _ :: _ | EEmpty _ _ :: _ => true
  | EEnd :: _ => false
  | _ :: r => elem_first r
  end.

(* ---------- unfolding ---------- *)
Lemma scan_cons d ev r :
  scan d (ev :: r) =
  match event_fault ev with
  | Some x => SFault x
  | None =>
      match ev with
      | EStart _ _ => scan (S d) r
      | EEnd => match d with O => SReturn r | S d' => scan d' r end
      | _ => scan d r
      end
  end.
Proof. reflexivity. Qed.

Lemma no_stray_end_cons d ev r :
  no_stray_end d (ev :: r) =
  match event_fault ev with
  | Some _ => true
  | None =>
      match ev with
      | EStart _ _ => no_stray_end (S d) r
      | EEnd => match d with O => false | S d' => no_stray_end d' r end
      | _ => no_stray_end d r
      end
  end.
Proof. reflexivity. Qed.

Lemma first_fault_cons ev r :
  first_fault (ev :: r) = match event_fault ev with Some e => Some e | None => first_fault r end.
Proof. reflexivity. Qed.

Lemma has_element_cons ev r : has_element (ev :: r) = is_element_event ev || has_element r.
Proof. reflexivity. Qed.

(* ---------- scan is compositional in the depth ---------- *)
Lemma scan_add evs : forall d k,
  scan (d + S k) evs =
  match scan d evs with
  | SFault x => SFault x
  | SReturn rest => scan k rest
  | SEof => SEof
  end.
Proof.
  induction evs as [|ev r IH]; intros d k; [reflexivity|].
  rewrite !scan_cons. destruct (event_fault ev) as [x|]; [reflexivity|].
  destruct ev as [n attrs|n attrs| |t|t| |p id]; try apply IH.
  - apply (IH (S d) k).
  - destruct d as [|d']; [reflexivity|]. apply (IH d' k).
Qed.

Lemma scan_S d evs :
  scan (S d) evs =
  match scan O evs with
  | SFault x => SFault x
  | SReturn rest => scan d rest
  | SEof => SEof
  end.
Proof. exact (scan_add evs O d). Qed.

(* ---------- scan versus first_fault ---------- *)
(* a fault found by the scanner is the first fault of the stream (no hypothesis) *)
Lemma scan_fault_first evs : forall d x, scan d evs = SFault x -> first_fault evs = Some x.
Proof.
  induction evs as [|ev r IH]; intros d x; [discriminate|].
  rewrite scan_cons, first_fault_cons. destruct (event_fault ev) as [y|]; [congruence|].
  destruct ev as [n attrs|n attrs| |t|t| |p id]; try apply IH.
  destruct d as [|d']; [discriminate|apply IH].
Qed.

(* without a stray end tag the scanner sees the whole stream *)
Lemma scan_first_fault evs : forall d,
  no_stray_end d evs = true ->
  scan d evs = match first_fault evs with Some x => SFault x | None => SEof end.
Proof.
  induction evs as [|ev r IH]; intros d; [reflexivity|].
  rewrite scan_cons, first_fault_cons, no_stray_end_cons.
  destruct (event_fault ev) as [y|]; [reflexivity|].
  destruct ev as [n attrs|n attrs| |t|t| |p id]; try apply IH.
  destruct d as [|d']; [discriminate|apply IH].
Qed.

Lemma scan_fault_iff evs x :
  no_stray_end O evs = true -> (scan O evs = SFault x <-> first_fault evs = Some x).
Proof.
  intros H. rewrite (scan_first_fault _ _ H).
  destruct (first_fault evs) as [y|]; split; congruence.
Qed.

Lemma scan_eof evs : no_stray_end O evs = true -> first_fault evs = None -> scan O evs = SEof.
Proof. intros H F. now rewrite (scan_first_fault _ _ H), F. Qed.

(* no_stray_end says exactly that the scanner never returns early *)
Lemma no_stray_end_scan evs : forall d,
  no_stray_end d evs = match scan d evs with SReturn _ => false | _ => true end.
Proof.
  induction evs as [|ev r IH]; intros d; [reflexivity|].
  rewrite scan_cons, no_stray_end_cons. destruct (event_fault ev) as [y|]; [reflexivity|].
  destruct ev as [n attrs|n attrs| |t|t| |p id]; try apply IH.
  destruct d as [|d']; [reflexivity|apply IH].
Qed.

Lemma no_stray_end_of_strict evs : forall d,
  no_stray_end_strict d evs = true -> no_stray_end d evs = true.
Proof.
  induction evs as [|ev r IH]; intros d; [reflexivity|].
  rewrite no_stray_end_cons. destruct (event_fault ev) as [y|]; [reflexivity|].
  destruct ev as [n attrs|n attrs| |t|t| |p id]; cbn [no_stray_end_strict]; try apply IH.
  destruct d as [|d']; [discriminate|apply IH].
Qed.

(* the first fault is the fault of the first faulty event *)
Lemma first_fault_split evs x :
  first_fault evs = Some x ->
  exists pre ev post, evs = pre ++ ev :: post /\ first_fault pre = None /\ event_fault ev = Some x.
Proof.
  induction evs as [|ev r IH]; [discriminate|].
  rewrite first_fault_cons. destruct (event_fault ev) as [y|] eqn:E.
  - intros [= ->]. exists [], ev, r. auto.
  - intros H. destruct (IH H) as (pre & ev' & post & -> & Hp & He).
    exists (ev :: pre), ev', post. split; [reflexivity|]. split; [|exact He].
    rewrite first_fault_cons, E. exact Hp.
Qed.

Lemma attr_keys_not_quick attrs p id : attr_keys attrs <> inl (QuickXmlError p id).
Proof.
  induction attrs as [|a r IH]; cbn [attr_keys]; [discriminate|].
  destruct a as [[k|i]|i]; try discriminate.
  destruct (attr_keys r) as [e|ks]; [|discriminate]. intros [= ->]. now apply IH.
Qed.

(* only a reader error yields QuickXmlError, and the payload is the event's *)
Lemma event_fault_quick ev p id : event_fault ev = Some (QuickXmlError p id) -> ev = EErr p id.
Proof.
  destruct ev as [n attrs|n attrs| |[u|i]|[u|i]| |p' id']; cbn [event_fault]; try discriminate.
  - destruct n as [name|i]; [|discriminate].
    destruct (attr_keys attrs) as [e|ks] eqn:K; [|discriminate].
    intros [= ->]. exfalso. exact (attr_keys_not_quick _ _ _ K).
  - destruct n as [name|i]; [|discriminate].
    destruct (attr_keys attrs) as [e|ks] eqn:K; [|discriminate].
    intros [= ->]. exfalso. exact (attr_keys_not_quick _ _ _ K).
  - now intros [= -> ->].
Qed.

Lemma first_fault_quick evs p id :
  first_fault evs = Some (QuickXmlError p id) ->
  exists pre post, evs = pre ++ EErr p id :: post /\ first_fault pre = None.
Proof.
  intros H. destruct (first_fault_split _ _ H) as (pre & ev & post & -> & Hp & He).
  apply event_fault_quick in He. subst ev. exists pre, post. auto.
Qed.

(* ====================================================================== *)
(* ---------- build_struct agrees with the scanner ---------- *)

Lemma build_struct_nil fuel root known :
  (0 < fuel)%nat -> build_struct fuel [] root known = Ok (root, []).
Proof. destruct fuel as [|f]; [lia|reflexivity]. Qed.

Theorem build_scan fuel : forall evs root known,
  (length evs < fuel)%nat ->
  match scan O evs with
  | SFault x => build_struct fuel evs root known = Err x
  | SReturn rest => exists e, build_struct fuel evs root known = Ok (e, rest)
  | SEof => exists e, build_struct fuel evs root known = Ok (e, [])
  end.
Proof.
  induction fuel as [|fuel' IH]; intros evs root known L; [lia|].
  rewrite build_struct_S.
  destruct evs as [|ev r]; [cbn [scan]; eexists; reflexivity|].
  cbn [length] in L. assert (Lr : (length r < fuel')%nat) by lia.
  (* the continuation after a tag has been read *)
  assert (K : forall rest1 root' known',
             (length rest1 <= length r)%nat ->
             match scan O rest1 with
             | SFault x => build_struct fuel' rest1 root' known' = Err x
             | SReturn rest => exists e, build_struct fuel' rest1 root' known' = Ok (e, rest)
             | SEof => exists e, build_struct fuel' rest1 root' known' = Ok (e, [])
             end).
  { intros rest1 root' known' L1. apply IH. lia. }
  rewrite scan_cons.
  destruct ev as [n attrs|n attrs| |[u|id]|[u|id]| |p id]; cbn [event_fault].
  - (* EStart *)
    destruct n as [name|id]; [|reflexivity].
    destruct (attr_keys attrs) as [x|keys] eqn:A; [unfold tag_step; now rewrite A|].
    rewrite (tag_step_ok _ _ _ _ _ _ _ _ A), sub_call_start, scan_S.
    pose proof (IH r (open_child root name keys known) [] Lr) as Hsub.
    destruct (scan O r) as [x|rest1|].
    + now rewrite Hsub.
    + destruct Hsub as [child Hc]. rewrite Hc.
      apply build_struct_rest_le in Hc. now apply K.
    + destruct Hsub as [child Hc]. rewrite Hc. cbn [scan].
      eexists. apply build_struct_nil. lia.
  - (* EEmpty *)
    destruct n as [name|id]; [|reflexivity].
    destruct (attr_keys attrs) as [x|keys] eqn:A; [unfold tag_step; now rewrite A|].
    rewrite (tag_step_ok _ _ _ _ _ _ _ _ A), sub_call_empty. now apply K.
  - eexists. reflexivity.
  - now apply K.
  - reflexivity.
  - now apply K.
  - reflexivity.
  - now apply K.
  - reflexivity.
Qed.

(* ====================================================================== *)
(* ---------- what happens to the children of the accumulator ---------- *)

Lemma update_first_length l n f : length (update_first l n f) = length l.
Proof.
  induction l as [|c l IH]; cbn [update_first]; [reflexivity|].
  destruct (str_eqb (ename (snd c)) n); cbn [length]; [reflexivity|now rewrite IH].
Qed.

Lemma children_add_unique_child e c : echildren (add_unique_child e c) <> [].
Proof.
  destruct (get_child (echildren e) (ename c)) as [x|] eqn:G.
  - rewrite (add_unique_child_present _ _ _ G). intros E. rewrite E in G. discriminate.
  - rewrite (add_unique_child_fresh _ _ G), echildren_set_children.
    intros E. apply app_eq_nil in E. destruct E as [_ E]. discriminate.
Qed.

Lemma children_tag_optional_children root n cc :
  echildren root <> [] -> echildren (tag_optional_children root n cc) <> [].
Proof.
  intros H. unfold tag_optional_children.
  destruct (get_child (echildren root) n) as [c|]; [|exact H].
  rewrite echildren_set_children. intros E. apply H.
  apply length_zero_iff_nil. rewrite <- (update_first_length _ n
    (fun p => fold_left set_child_optional (rev (to_optional (snd c) cc)) p)).
  now rewrite E.
Qed.

(* after a tag has been closed the parent has a child *)
Lemma children_tag_close root1 name child snap :
  echildren (tag_close root1 name child snap) <> [].
Proof.
  unfold tag_close. destruct (snd snap).
  - apply children_tag_optional_children, children_add_unique_child.
  - apply children_add_unique_child.
Qed.

(* children never all disappear, and an element event seen by this call leaves one *)
Lemma build_children fuel : forall evs root known e rest,
  build_struct fuel evs root known = Ok (e, rest) ->
  echildren root <> [] \/ elem_first evs = true -> echildren e <> [].
Proof.
  induction fuel as [|fuel' IH]; intros evs root known e rest H D; [discriminate|].
  rewrite build_struct_S in H.
  assert (T : forall n attrs empty r,
             tag_step fuel' r root known n attrs empty = Ok (e, rest) -> echildren e <> []).
  { intros n attrs empty r HT.
    destruct (tag_step_Ok_inv _ _ _ _ _ _ _ _ _ HT) as (name & keys & child & rest1 & _ & _ & _ & HB).
    apply (IH _ _ _ _ _ HB). left. apply children_tag_close. }
  destruct evs as [|ev r].
  - injection H as <- _. destruct D as [D|D]; [exact D|discriminate].
  - destruct ev as [n attrs|n attrs| |[u|id]|[u|id]| |p id]; try discriminate.
    + now apply T in H.
    + now apply T in H.
    + injection H as <- _. destruct D as [D|D]; [exact D|discriminate].
    + apply (IH _ _ _ _ _ H). now rewrite echildren_set_text.
    + apply (IH _ _ _ _ _ H). now rewrite echildren_set_text.
    + apply (IH _ _ _ _ _ H). exact D.
Qed.

Lemma set_text_true_idem e : set_text (set_text e true) true = set_text e true.
Proof. now destruct e. Qed.

(* a call that sees no element event hands the accumulator back, at most with the text flag *)
Lemma build_elementless fuel : forall evs root known e rest,
  build_struct fuel evs root known = Ok (e, rest) ->
  elem_first evs = false -> e = root \/ e = set_text root true.
Proof.
  induction fuel as [|fuel' IH]; intros evs root known e rest H D; [discriminate|].
  rewrite build_struct_S in H.
  destruct evs as [|ev r]; [injection H as <- _; now left|].
  destruct ev as [n attrs|n attrs| |[u|id]|[u|id]| |p id]; try discriminate.
  - injection H as <- _. now left.
  - right. destruct (IH _ _ _ _ _ H D) as [->| ->]; [reflexivity|apply set_text_true_idem].
  - right. destruct (IH _ _ _ _ _ H D) as [->| ->]; [reflexivity|apply set_text_true_idem].
  - exact (IH _ _ _ _ _ H D).
Qed.

Lemma build_elementless_children fuel evs root known e rest :
  build_struct fuel evs root known = Ok (e, rest) ->
  elem_first evs = false -> echildren e = echildren root.
Proof.
  intros H D. destruct (build_elementless _ _ _ _ _ _ H D) as [->| ->];
    [reflexivity|apply echildren_set_text].
Qed.

Lemma has_element_elem_first evs : has_element evs = false -> elem_first evs = false.
Proof.
  induction evs as [|ev r IH]; [reflexivity|].
  rewrite has_element_cons.
  destruct ev as [n attrs|n attrs| |t|t| |p id]; cbn [is_element_event orb elem_first];
    try discriminate; auto.
Qed.

(* in a stream without faults and stray end tags the first element event is at depth 0 *)
Lemma elem_first_has_element evs :
  no_stray_end O evs = true -> first_fault evs = None ->
  has_element evs = true -> elem_first evs = true.
Proof.
  induction evs as [|ev r IH]; [discriminate|].
  rewrite no_stray_end_cons, first_fault_cons, has_element_cons.
  destruct (event_fault ev) as [y|]; [discriminate|].
  destruct ev as [n attrs|n attrs| |t|t| |p id]; cbn [is_element_event orb elem_first];
    auto; discriminate.
Qed.

(* ---------- take_root ---------- *)
Lemma take_root_first w rest c l :
  echildren w = c :: l -> take_root (Ok (w, rest)) = Ok (snd c).
Proof.
  intros E. cbn [take_root]. rewrite E. cbn [remove_child]. now rewrite str_eqb_refl.
Qed.

Lemma take_root_nonempty w rest :
  echildren w <> [] -> exists e, take_root (Ok (w, rest)) = Ok e.
Proof.
  destruct (echildren w) as [|c l] eqn:E; [congruence|]. intros _.
  exists (snd c). now apply (take_root_first _ _ _ l).
Qed.

Lemma take_root_empty w rest : echildren w = [] -> take_root (Ok (w, rest)) = Err NoRootError.
Proof. intros E. cbn [take_root]. now rewrite E. Qed.

Lemma wrapper_children : echildren wrapper = [].
Proof. reflexivity. Qed.

Lemma extend_wrapper_children root :
  echildren (add_unique_child wrapper root) = [(Mand, with_pos wrapper root)].
Proof.
  rewrite add_unique_child_fresh by reflexivity. now rewrite echildren_set_children.
Qed.

(* ====================================================================== *)
(* ---------- full-strength results: every event stream, in terms of the scanner ---------- *)

Lemma build_scan_cases evs root known :
  (exists x, scan O evs = SFault x /\ build_struct (fuel_for evs) evs root known = Err x)
  \/ ((forall x, scan O evs <> SFault x)
      /\ exists w rest, build_struct (fuel_for evs) evs root known = Ok (w, rest)).
Proof.
  pose proof (build_scan (fuel_for evs) evs root known (Nat.lt_succ_diag_r _)) as H.
  destruct (scan O evs) as [x|rest|].
  - left. eauto.
  - right. split; [discriminate|]. destruct H as [w H]. eauto.
  - right. split; [discriminate|]. destruct H as [w H]. eauto.
Qed.

Theorem parse_scan_fault evs x : scan O evs = SFault x -> into_struct_ev evs = Err x.
Proof.
  intros S. unfold into_struct_ev.
  destruct (build_scan_cases evs wrapper []) as [(y & Sy & ->)|(N & _)];
    [cbn [take_root]; congruence|].
  now apply N in S.
Qed.

Theorem parse_scan_ok evs :
  (forall x, scan O evs <> SFault x) -> elem_first evs = true -> exists e, into_struct_ev evs = Ok e.
Proof.
  intros N D. unfold into_struct_ev.
  destruct (build_scan_cases evs wrapper []) as [(y & Sy & _)|(_ & w & rest & H)];
    [now apply N in Sy|].
  rewrite H. apply take_root_nonempty. apply (build_children _ _ _ _ _ _ H). now right.
Qed.

Theorem parse_scan_no_root evs :
  (forall x, scan O evs <> SFault x) -> elem_first evs = false -> into_struct_ev evs = Err NoRootError.
Proof.
  intros N D. unfold into_struct_ev.
  destruct (build_scan_cases evs wrapper []) as [(y & Sy & _)|(_ & w & rest & H)];
    [now apply N in Sy|].
  rewrite H. apply take_root_empty.
  now rewrite (build_elementless_children _ _ _ _ _ _ H D).
Qed.

Theorem extend_scan_fault root evs x : scan O evs = SFault x -> extend_struct_ev root evs = Err x.
Proof.
  intros S. unfold extend_struct_ev.
  destruct (build_scan_cases evs (add_unique_child wrapper root) []) as [(y & Sy & ->)|(N & _)];
    [cbn [take_root]; congruence|]. now apply N in S.
Qed.

Theorem extend_scan_ok root evs :
  (forall x, scan O evs <> SFault x) -> exists e, extend_struct_ev root evs = Ok e.
Proof.
  intros N. unfold extend_struct_ev.
  destruct (build_scan_cases evs (add_unique_child wrapper root) [])
    as [(y & Sy & _)|(_ & w & rest & H)]; [now apply N in Sy|].
  rewrite H. apply take_root_nonempty. apply (build_children _ _ _ _ _ _ H).
  left. apply children_add_unique_child.
Qed.

Theorem extend_scan_elementless root evs :
  (forall x, scan O evs <> SFault x) -> elem_first evs = false ->
  extend_struct_ev root evs = Ok (with_pos wrapper root).
Proof.
  intros N D. unfold extend_struct_ev.
  destruct (build_scan_cases evs (add_unique_child wrapper root) [])
    as [(y & Sy & _)|(_ & w & rest & H)]; [now apply N in Sy|].
  rewrite H.
  apply (take_root_first w rest (Mand, with_pos wrapper root) []).
  now rewrite (build_elementless_children _ _ _ _ _ _ H D), extend_wrapper_children.
Qed.

(* the error verdicts of both entry points, for every stream *)
Theorem parse_scan_iff evs x :
  into_struct_ev evs = Err x <->
  scan O evs = SFault x
  \/ ((forall y, scan O evs <> SFault y) /\ elem_first evs = false /\ x = NoRootError).
Proof.
  split.
  - intros H. destruct (scan O evs) as [y|rest|] eqn:S.
    + left. rewrite (parse_scan_fault _ _ S) in H. congruence.
    + right. assert (N : forall y, scan O evs <> SFault y) by (rewrite S; discriminate).
      rewrite <- S. split; [exact N|].
      destruct (elem_first evs) eqn:D.
      * destruct (parse_scan_ok _ N D) as [e He]. congruence.
      * rewrite (parse_scan_no_root _ N D) in H. split; congruence.
    + right. assert (N : forall y, scan O evs <> SFault y) by (rewrite S; discriminate).
      rewrite <- S. split; [exact N|].
      destruct (elem_first evs) eqn:D.
      * destruct (parse_scan_ok _ N D) as [e He]. congruence.
      * rewrite (parse_scan_no_root _ N D) in H. split; congruence.
  - intros [S|(N & D & ->)]; [now apply parse_scan_fault|now apply parse_scan_no_root].
Qed.

Theorem extend_scan_iff root evs x :
  extend_struct_ev root evs = Err x <-> scan O evs = SFault x.
Proof.
  split; [|apply extend_scan_fault].
  intros H. destruct (scan O evs) as [y|rest|] eqn:S.
  - rewrite (extend_scan_fault root _ _ S) in H. congruence.
  - destruct (extend_scan_ok root evs) as [e He]; [rewrite S; discriminate|congruence].
  - destruct (extend_scan_ok root evs) as [e He]; [rewrite S; discriminate|congruence].
Qed.

(* ====================================================================== *)
(* ---------- the pinned statements: streams of a default-configured reader ---------- *)

Lemma no_fault_scan evs : first_fault evs = None -> forall x, scan O evs <> SFault x.
Proof. intros F x S. apply scan_fault_first in S. congruence. Qed.

Theorem parse_fault evs x :
  no_stray_end O evs = true -> first_fault evs = Some x -> into_struct_ev evs = Err x.
Proof. intros B F. apply parse_scan_fault. now apply scan_fault_iff. Qed.

Theorem parse_ok evs :
  no_stray_end O evs = true -> first_fault evs = None -> has_element evs = true ->
  exists e, into_struct_ev evs = Ok e.
Proof.
  intros B F E. apply parse_scan_ok; [now apply no_fault_scan|now apply elem_first_has_element].
Qed.

(* no hypothesis on end tags is needed here: a stray end tag only makes the consumer return early *)
Theorem parse_no_root evs :
  first_fault evs = None -> has_element evs = false -> into_struct_ev evs = Err NoRootError.
Proof.
  intros F E. apply parse_scan_no_root; [now apply no_fault_scan|now apply has_element_elem_first].
Qed.

Theorem extend_fault root evs x :
  no_stray_end O evs = true -> first_fault evs = Some x -> extend_struct_ev root evs = Err x.
Proof. intros B F. apply extend_scan_fault. now apply scan_fault_iff. Qed.

(* again no hypothesis on end tags *)
Theorem extend_ok root evs :
  first_fault evs = None -> exists e, extend_struct_ev root evs = Ok e.
Proof. intros F. apply extend_scan_ok. now apply no_fault_scan. Qed.

(* "exactly when" *)
Theorem parse_err_iff evs x :
  no_stray_end O evs = true ->
  (into_struct_ev evs = Err x <->
   first_fault evs = Some x
   \/ (first_fault evs = None /\ has_element evs = false /\ x = NoRootError)).
Proof.
  intros B. split.
  - intros H. destruct (first_fault evs) as [y|] eqn:F.
    + left. rewrite (parse_fault _ _ B F) in H. congruence.
    + right. split; [reflexivity|]. destruct (has_element evs) eqn:E.
      * destruct (parse_ok _ B F E) as [e He]. congruence.
      * rewrite (parse_no_root _ F E) in H. split; congruence.
  - intros [F|(F & E & ->)]; [now apply parse_fault|now apply parse_no_root].
Qed.

Theorem extend_err_iff root evs x :
  no_stray_end O evs = true -> (extend_struct_ev root evs = Err x <-> first_fault evs = Some x).
Proof.
  intros B. rewrite extend_scan_iff. now apply scan_fault_iff.
Qed.

(* a syntax error carries the reader's error and position: the verdict is the payload of the
   first EErr event, and nothing before it is at fault *)
Theorem parse_position evs p id :
  no_stray_end O evs = true -> first_fault evs = Some (QuickXmlError p id) ->
  into_struct_ev evs = Err (QuickXmlError p id)
  /\ exists pre post, evs = pre ++ EErr p id :: post /\ first_fault pre = None.
Proof. intros B F. split; [now apply parse_fault|now apply first_fault_quick]. Qed.

Theorem extend_position root evs p id :
  no_stray_end O evs = true -> first_fault evs = Some (QuickXmlError p id) ->
  extend_struct_ev root evs = Err (QuickXmlError p id)
  /\ exists pre post, evs = pre ++ EErr p id :: post /\ first_fault pre = None.
Proof. intros B F. split; [now apply extend_fault|now apply first_fault_quick]. Qed.

(* conversely a QuickXmlError verdict comes from an EErr event of the stream (any stream) *)
Theorem parse_quick_origin evs p id :
  into_struct_ev evs = Err (QuickXmlError p id) ->
  exists pre post, evs = pre ++ EErr p id :: post /\ first_fault pre = None.
Proof.
  intros H. apply parse_scan_iff in H. destruct H as [S|(_ & _ & E)]; [|discriminate].
  apply scan_fault_first in S. now apply first_fault_quick.
Qed.

(* used by C06: a document without elements leaves the tree as it is (the root gets its
   position if it had none; the text flag set on the wrapper is dropped with the wrapper) *)
Theorem extend_elementless root evs :
  has_element evs = false -> first_fault evs = None ->
  extend_struct_ev root evs = Ok (with_pos wrapper root).
Proof.
  intros E F. apply extend_scan_elementless;
    [now apply no_fault_scan|now apply has_element_elem_first].
Qed.

Corollary extend_elementless_positioned root evs p :
  has_element evs = false -> first_fault evs = None -> epos root = Some p ->
  extend_struct_ev root evs = Ok root.
Proof.
  intros E F P. rewrite (extend_elementless _ _ E F). unfold with_pos. now rewrite P.
Qed.

(* ---------- a whole run: parse(D1), extend(D2), ... ---------- *)
Definition run_step (acc : outcome element) (x : list event) : outcome element :=
  match acc with Ok e => extend_struct_ev e x | o => o end.

Lemma run_evs_cons d r : run_evs (d :: r) = fold_left run_step r (into_struct_ev d).
Proof. reflexivity. Qed.

Lemma run_fold_err r : forall x, fold_left run_step r (Err x) = Err x.
Proof. induction r as [|d r IH]; intros x; [reflexivity|]. cbn [fold_left run_step]. apply IH. Qed.

Lemma run_fold_verdict r : forall e0,
  Forall (fun d => no_stray_end O d = true) r ->
  match expected_verdict false r with
  | Some x => fold_left run_step r (Ok e0) = Err x
  | None => exists e, fold_left run_step r (Ok e0) = Ok e
  end.
Proof.
  induction r as [|d r IH]; intros e0 B; [cbn; eauto|].
  inversion B as [|? ? Bd Br]; subst.
  cbn [expected_verdict fold_left run_step andb].
  destruct (first_fault d) as [x|] eqn:F.
  - rewrite (extend_fault _ _ _ Bd F). apply run_fold_err.
  - destruct (extend_ok e0 _ F) as [e1 ->]. now apply IH.
Qed.

Theorem run_verdict docs :
  docs <> [] -> Forall (fun d => no_stray_end O d = true) docs ->
  match expected_verdict true docs with
  | Some x => run_evs docs = Err x
  | None => exists e, run_evs docs = Ok e
  end.
Proof.
  destruct docs as [|d r]; [congruence|]. intros _ B.
  inversion B as [|? ? Bd Br]; subst.
  rewrite run_evs_cons. cbn [expected_verdict andb].
  destruct (first_fault d) as [x|] eqn:F.
  - rewrite (parse_fault _ _ Bd F). apply run_fold_err.
  - destruct (has_element d) eqn:E; cbn [negb].
    + destruct (parse_ok _ Bd F E) as [e1 ->]. now apply run_fold_verdict.
    + rewrite (parse_no_root _ F E). apply run_fold_err.
Qed.

(* ====================================================================== *)
(* ---------- the hypotheses are satisfiable; the end-tag hypothesis is needed ---------- *)
From Coq Require Import String.

Definition nm (x : string) : res str := ROk (s x).

(* prolog, nested elements, text, trailing comment *)
Definition ex_good : list event :=
  [EMisc; EMisc; EStart (nm "a") [AOk (ROk (s "k"%string))];
   EStart (nm "b") []; EText (ROk tt); EEnd; EEmpty (nm "c") []; EEnd; EMisc].

Example ex_parse_ok :
  no_stray_end O ex_good = true /\ first_fault ex_good = None /\ has_element ex_good = true
  /\ exists e, into_struct_ev ex_good = Ok e /\ ename e = s "a"%string.
Proof. repeat split; try (vm_compute; reflexivity). eexists. split; vm_compute; reflexivity. Qed.

(* a duplicated / malformed attribute two levels down, after a good one *)
Definition ex_attr_fault : list event :=
  [EMisc; EStart (nm "a") []; EStart (nm "b") [];
   EEmpty (nm "c") [AOk (ROk (s "k"%string)); AErr 7; AOk (RBad 8)];
   EEnd; EErr 40 2; EEnd].

Example ex_parse_fault :
  no_stray_end O ex_attr_fault = true /\ first_fault ex_attr_fault = Some (AttrError 7)
  /\ into_struct_ev ex_attr_fault = Err (AttrError 7)
  /\ extend_struct_ev wrapper ex_attr_fault = Err (AttrError 7).
Proof. repeat split; vm_compute; reflexivity. Qed.

(* a reader error (here: after the root was closed) with its position *)
Definition ex_syntax_fault : list event :=
  [EStart (nm "a") []; EText (ROk tt); EEnd; EMisc; EErr 17 3; EText (RBad 1)].

Example ex_parse_position :
  no_stray_end O ex_syntax_fault = true
  /\ first_fault ex_syntax_fault = Some (QuickXmlError 17 3)
  /\ into_struct_ev ex_syntax_fault = Err (QuickXmlError 17 3).
Proof. repeat split; vm_compute; reflexivity. Qed.

(* only prolog and text: no root on parse, unchanged tree on extend *)
Definition ex_elementless : list event := [EMisc; EText (ROk tt); EMisc; ECData (ROk tt)].

Example ex_parse_no_root :
  first_fault ex_elementless = None /\ has_element ex_elementless = false
  /\ into_struct_ev ex_elementless = Err NoRootError.
Proof. repeat split; vm_compute; reflexivity. Qed.

Example ex_extend_elementless :
  exists e, into_struct_ev ex_good = Ok e /\ extend_struct_ev e ex_elementless = Ok e.
Proof. eexists. split; vm_compute; reflexivity. Qed.

Example ex_run_verdict :
  expected_verdict true [ex_good; ex_elementless; ex_good] = None
  /\ (exists e, run_evs [ex_good; ex_elementless; ex_good] = Ok e)
  /\ expected_verdict true [ex_good; ex_attr_fault; ex_syntax_fault] = Some (AttrError 7)
  /\ run_evs [ex_good; ex_attr_fault; ex_syntax_fault] = Err (AttrError 7)
  /\ expected_verdict true [ex_elementless; ex_good] = Some NoRootError
  /\ run_evs [ex_elementless; ex_good] = Err NoRootError.
Proof.
  split; [vm_compute; reflexivity|]. split; [eexists; vm_compute; reflexivity|].
  repeat split; vm_compute; reflexivity.
Qed.

(* The statements are FALSE without `no_stray_end`: after an unmatched end tag the consumer
   returns and never looks at the rest of the stream, so a later fault is swallowed (parse_fault
   fails) -- a default-configured reader delivers an error instead of that end tag. *)
Definition ex_stray : list event := [EStart (nm "a") []; EEnd; EEnd; EErr 9 1].

Example ex_stray_end_needed :
  no_stray_end O ex_stray = false /\ first_fault ex_stray = Some (QuickXmlError 9 1)
  /\ scan O ex_stray = SReturn [EErr 9 1]
  /\ exists e, into_struct_ev ex_stray = Ok e.
Proof. repeat split; try (vm_compute; reflexivity). eexists. vm_compute. reflexivity. Qed.

(* ... and likewise an element after a stray end tag is not seen (parse_ok fails) *)
Definition ex_stray2 : list event := [EEnd; EEmpty (nm "a") []].
Example ex_stray_end_needed2 :
  no_stray_end O ex_stray2 = false /\ first_fault ex_stray2 = None /\ has_element ex_stray2 = true
  /\ into_struct_ev ex_stray2 = Err NoRootError.
Proof. repeat split; vm_compute; reflexivity. Qed.
