(* tag_optional_children: what the demotion loop does to a parent with unique child names. *)
From XSG.Model Require Import Strings Necessity Element Parser.
From XSG.Proofs Require Import StringsProofs NecessityProofs ElementProofs SpecProofs.
From Coq Require Import Lia Permutation.

(* everything but the children *)
Definition shell (e : element) := (ename e, etext e, estandalone e, ecount e, eattrs e, epos e).
Lemma shell_set_children e c : shell (set_children e c) = shell e. Proof. now destruct e. Qed.
Lemma set_children_id e : set_children e (echildren e) = e. Proof. now destruct e. Qed.
Lemma set_children_twice e a b : set_children (set_children e a) b = set_children e b. Proof. now destruct e. Qed.

Definition retag (L : list str) (d : nec * element) : nec * element :=
  if mem (cname d) L then (Opt, snd d) else d.
Lemma cname_retag L d : cname (retag L d) = cname d.
Proof. unfold retag. destruct (mem (cname d) L); reflexivity. Qed.
Lemma snd_retag L d : snd (retag L d) = snd d.
Proof. unfold retag. destruct (mem (cname d) L); reflexivity. Qed.
Lemma child_names_retag L l : child_names (map (retag L) l) = child_names l.
Proof. unfold child_names. rewrite map_map. apply map_ext. intros d. apply cname_retag. Qed.
Lemma retag_cons n L d : retag (n :: L) d = retag L (retag [n] d).
Proof.
  unfold retag at 1 3. simpl. rewrite orb_false_r.
  destruct (str_eqb (cname d) n) eqn:E; simpl.
  - unfold retag. unfold cname at 1. simpl. fold (cname d). destruct (mem (cname d) L); reflexivity.
  - reflexivity.
Qed.
Lemma retag_nil d : retag [] d = d. Proof. reflexivity. Qed.

Lemma map_retag_absent n l : ~ In n (child_names l) -> map (retag [n]) l = l.
Proof.
  intros H. rewrite <- (map_id l) at 2. apply map_ext_in. intros d Hd. unfold retag. simpl.
  rewrite orb_false_r. destruct (str_eqb_spec (cname d) n) as [E|E]; auto.
  exfalso. apply H. rewrite <- E. apply in_map. exact Hd.
Qed.

Lemma set_child_optional_spec e n :
  NoDup (child_names (echildren e)) ->
  shell (set_child_optional e n) = shell e
  /\ Permutation (echildren (set_child_optional e n)) (map (retag [n]) (echildren e)).
Proof.
  intros Hnd. destruct (get_child (echildren e) n) as [c|] eqn:G.
  - rewrite (set_child_optional_present _ _ _ Hnd G). rewrite shell_set_children, echildren_set_children.
    split; auto.
    destruct (get_child_some _ _ _ G) as [Hin Hc].
    pose proof (remove_child_perm _ _ _ G) as P.
    eapply perm_trans; [apply Permutation_app_comm|]. simpl.
    apply Permutation_sym. eapply perm_trans; [apply Permutation_map, P|]. simpl.
    assert (E1 : retag [n] c = (Opt, snd c)).
    { unfold retag. simpl. rewrite Hc, str_eqb_refl. reflexivity. }
    rewrite E1. apply perm_skip. rewrite map_retag_absent; auto.
    rewrite remove_child_names. now apply remove_first_notin.
  - rewrite (set_child_optional_absent _ _ G). split; auto.
    rewrite map_retag_absent; auto. now apply get_child_none.
Qed.

Lemma demote_spec L : forall e,
  NoDup (child_names (echildren e)) ->
  shell (fold_left set_child_optional L e) = shell e
  /\ Permutation (echildren (fold_left set_child_optional L e)) (map (retag L) (echildren e)).
Proof.
  induction L as [|n L IH]; intros e Hnd; simpl.
  - split; auto. rewrite <- (map_id (echildren e)) at 1. apply Permutation_refl'.
    apply map_ext. intros; reflexivity.
  - destruct (set_child_optional_spec e n Hnd) as [S1 P1].
    assert (Hnd' : NoDup (child_names (echildren (set_child_optional e n)))).
    { eapply Permutation_NoDup; [apply Permutation_sym, Permutation_map, P1|].
      fold (child_names (map (retag [n]) (echildren e))). now rewrite child_names_retag. }
    destruct (IH _ Hnd') as [S2 P2]. split; [congruence|].
    eapply perm_trans; [exact P2|].
    eapply perm_trans; [apply Permutation_map, P1|].
    rewrite map_map. apply Permutation_refl'. apply map_ext. intros d. symmetry. apply retag_cons.
Qed.

Lemma retag_rev L d : retag (rev L) d = retag L d.
Proof.
  unfold retag. replace (mem (cname d) (rev L)) with (mem (cname d) L); auto.
  destruct (mem (cname d) L) eqn:E.
  - symmetry. apply mem_spec. apply -> in_rev. now apply mem_spec.
  - symmetry. apply mem_false. rewrite <- in_rev. now apply mem_false.
Qed.

(* ---------- update_first on a list whose last element is the one addressed ---------- *)
Lemma update_first_last l c n f :
  ~ In n (child_names l) -> cname c = n ->
  update_first (l ++ [c]) n f = l ++ [(fst c, f (snd c))].
Proof.
  intros H Hc. induction l as [|d l IH]; simpl.
  - unfold cname in Hc. now rewrite Hc, str_eqb_refl.
  - simpl in H. destruct (str_eqb_spec (ename (snd d)) n) as [E|E].
    + exfalso. apply H. left. exact E.
    + f_equal. apply IH. tauto.
Qed.
Lemma get_child_last l c n :
  ~ In n (child_names l) -> cname c = n -> get_child (l ++ [c]) n = Some c.
Proof.
  intros H Hc. rewrite get_child_app.
  replace (get_child l n) with (@None (nec * element)).
  - simpl. unfold cname in Hc. now rewrite Hc, str_eqb_refl.
  - symmetry. now apply get_child_none.
Qed.

(* ---------- the snapshot ---------- *)
Lemma assoc_last_notin n l acc :
  ~ In n (map fst l) -> assoc_last n l acc = acc.
Proof.
  revert acc. induction l as [|[k v] l IH]; intros acc H; simpl; auto.
  simpl in H. rewrite IH; [|tauto]. destruct (str_eqb_spec k n); [subst; tauto|reflexivity].
Qed.
Lemma assoc_last_in n v l acc :
  NoDup (map fst l) -> In (n, v) l -> assoc_last n l acc = Some v.
Proof.
  revert acc. induction l as [|[k w] l IH]; intros acc Hnd Hin; simpl; [destruct Hin|].
  inversion Hnd as [|? ? Hk Hl]; subst. destruct Hin as [E|Hin].
  - inversion E; subst. rewrite str_eqb_refl. apply assoc_last_notin. exact Hk.
  - apply IH; auto.
Qed.

Definition snap_of (ch : list (nec * element)) : list (str * N) :=
  flat_map (fun d => match fst d with Mand => [(ename (snd d), ecount (snd d))] | Opt => [] end) ch.
Lemma snapshot_some c : snapshot (Some c) = (snap_of (echildren (snd c)), true).
Proof. reflexivity. Qed.
Lemma snap_of_keys ch k : In k (map fst (snap_of ch)) -> In k (child_names ch).
Proof.
  induction ch as [|d ch IH]; simpl; auto. rewrite map_app, in_app_iff.
  intros [H|H]; auto. destruct (fst d); simpl in H; [tauto|]. destruct H as [H|[]]. left. exact H.
Qed.
Lemma snap_of_nodup ch : NoDup (child_names ch) -> NoDup (map fst (snap_of ch)).
Proof.
  induction ch as [|d ch IH]; simpl; [constructor|].
  intros H; inversion H as [|? ? Hd Hl]; subst. rewrite map_app.
  destruct (fst d); simpl; auto. constructor; auto. intros Hc. apply Hd. now apply snap_of_keys.
Qed.
Lemma snap_of_key_mand ch m :
  In m (map fst (snap_of ch)) -> exists d, In d ch /\ cname d = m /\ fst d = Mand.
Proof.
  induction ch as [|x ch IH]; simpl; [tauto|]. rewrite map_app, in_app_iff. intros [H|H].
  - destruct (fst x) eqn:T; simpl in H; [tauto|]. destruct H as [H|[]].
    exists x. repeat split; auto.
  - destruct (IH H) as [d [Hd Hr]]. exists d. split; auto.
Qed.
Lemma snap_get_spec ch m :
  NoDup (child_names ch) ->
  snap_get (snap_of ch) m = match get_child ch m with
                            | Some d => match fst d with Mand => Some (ecount (snd d)) | Opt => None end
                            | None => None end.
Proof.
  intros Hnd. unfold snap_get.
  destruct (get_child ch m) as [d|] eqn:G.
  - destruct (get_child_some _ _ _ G) as [Hin Hc]. destruct (fst d) eqn:T.
    + apply assoc_last_notin. intros Hk.
      destruct (snap_of_key_mand _ _ Hk) as [x [Hx [Hxc Hxm]]].
      assert (E : get_child ch (cname x) = Some x) by now apply get_child_in_nodup.
      rewrite Hxc in E. rewrite G in E. inversion E; subst. congruence.
    + apply assoc_last_in; [now apply snap_of_nodup|].
      unfold snap_of. apply in_flat_map. exists d. split; auto. rewrite T. simpl. left.
      unfold cname in Hc. now rewrite Hc.
  - apply assoc_last_notin. intros Hk. apply snap_of_keys in Hk. now apply get_child_none in G.
Qed.

(* ---------- to_optional ---------- *)
Lemma in_to_optional c cc m :
  In m (to_optional c cc) <->
  exists d, In d (echildren c) /\ cname d = m
            /\ (snap_get cc m = Some (ecount (snd d)) \/ (fst d = Mand /\ snap_get cc m = None)).
Proof.
  unfold to_optional. rewrite in_app_iff, !in_flat_map. split.
  - intros [[d [Hd H]]|[d [Hd H]]]; exists d; split; auto.
    + destruct (snap_get cc (ename (snd d))) as [k|] eqn:S; [|destruct H].
      destruct (N.eqb_spec k (ecount (snd d))) as [E|E]; [|destruct H].
      destruct H as [H|[]]. subst m. split; auto. left. unfold cname. now rewrite S, E.
    + destruct (fst d) eqn:T; [destruct H|].
      destruct (snap_get cc (ename (snd d))) as [k|] eqn:S; [destruct H|].
      destruct H as [H|[]]. subst m. split; auto.
  - intros [d [Hd [Hc [H|[H1 H2]]]]]; [left|right]; exists d; split; auto; unfold cname in Hc; rewrite Hc.
    + rewrite H, N.eqb_refl. simpl; auto.
    + rewrite H1, H2. simpl; auto.
Qed.
