(* C15: characterisation of merge_necessity and its corollaries; generic in the item type. *)
From XSG.Model Require Import Strings Necessity.
From Coq Require Import Lia.

Section Merge.
  Context {A : Type} (eqb : A -> A -> bool).
  Context (eqb_spec : forall x y, reflect (x = y) (eqb x y)).

  Definition items (l : list (nec * A)) : list A := map snd l.
  Definition memA (x : A) (l : list A) : bool := existsb (eqb x) l.
  (* the tag an item of the first list gets *)
  Definition conj_tag (it : nec * A) (o : list (nec * A)) : nec :=
    match find_nec eqb (snd it) o, fst it with Some Mand, Mand => Mand | _, _ => Opt end.

  Lemma memA_spec x l : memA x l = true <-> In x l.
  Proof.
    unfold memA. rewrite existsb_exists. split.
    - intros [y [H1 H2]]. destruct (eqb_spec x y); congruence.
    - intros H. exists x. split; auto. destruct (eqb_spec x x); congruence.
  Qed.
  Lemma memA_false x l : memA x l = false <-> ~ In x l.
  Proof. rewrite <- memA_spec. destruct (memA x l); split; congruence. Qed.

  Lemma find_nec_none x l : find_nec eqb x l = None <-> ~ In x (items l).
  Proof.
    induction l as [|[n y] l IH]; simpl; [tauto|].
    destruct (eqb_spec y x) as [e|ne].
    - split; [discriminate| intros H; exfalso; apply H; auto].
    - rewrite IH. tauto.
  Qed.
  Lemma find_nec_some_in x l n : find_nec eqb x l = Some n -> In (n, x) l.
  Proof.
    induction l as [|[m y] l IH]; simpl; [discriminate|].
    destruct (eqb_spec y x) as [e|ne]; [intros [= ->]; subst; auto | auto].
  Qed.
  Lemma find_nec_nodup x l n : NoDup (items l) -> In (n, x) l -> find_nec eqb x l = Some n.
  Proof.
    induction l as [|[m y] l IH]; simpl; [tauto|].
    intros Hnd [H|H]; inversion Hnd as [|? ? Hy Hnd']; subst.
    - inversion H; subst. destruct (eqb_spec x x); congruence.
    - destruct (eqb_spec y x) as [e|ne]; [|auto].
      subst. exfalso. apply Hy. unfold items. apply in_map_iff. exists (n, x). auto.
  Qed.
  Lemma items_app a b : items (a ++ b) = items a ++ items b.
  Proof. apply map_app. Qed.

  Lemma merge_second_spec : forall o res, NoDup (items o) ->
    merge_second eqb res o
    = res ++ map (pair Opt) (filter (fun y => negb (memA y (items res))) (items o)).
  Proof.
    induction o as [|[n y] o IH]; intros res Hnd; simpl; [now rewrite app_nil_r|].
    inversion Hnd as [|? ? Hy Hnd']; subst.
    destruct (find_nec eqb y res) eqn:E.
    - assert (H : memA y (items res) = true).
      { destruct (memA y (items res)) eqn:M; auto. apply memA_false in M.
        apply find_nec_none in M. congruence. }
      rewrite H. simpl. auto.
    - apply find_nec_none in E. apply memA_false in E. rewrite E. simpl.
      rewrite IH by auto. rewrite <- app_assoc. simpl. do 3 f_equal.
      apply filter_ext_in. intros a Ha. rewrite items_app. simpl. f_equal.
      unfold memA. rewrite existsb_app. simpl.
      destruct (eqb_spec a y); [subst; tauto|]. now rewrite !orb_false_r.
  Qed.

  Lemma items_merge_first v o : items (merge_first eqb v o) = items v.
  Proof. unfold items, merge_first. rewrite map_map. apply map_ext. intros [n x]; simpl.
         destruct (find_nec eqb x o) as [[|]|]; destruct n; reflexivity. Qed.

  Lemma merge_first_eq v o : merge_first eqb v o = map (fun it => (conj_tag it o, snd it)) v.
  Proof. unfold merge_first, conj_tag. apply map_ext. intros [n x]; simpl.
         destruct (find_nec eqb x o) as [[|]|]; destruct n; reflexivity. Qed.

  (* the function is, on duplicate-free second lists, exactly "re-tag the first list, then
     append the second-only items as Optional, in their original order" *)
  Theorem merge_characterisation v o : NoDup (items o) ->
    merge_necessity eqb v o
    = map (fun it => (conj_tag it o, snd it)) v
      ++ map (pair Opt) (filter (fun y => negb (memA y (items v))) (items o)).
  Proof.
    intros. unfold merge_necessity. rewrite merge_second_spec by auto.
    now rewrite items_merge_first, merge_first_eq.
  Qed.

  Theorem merge_order v o : NoDup (items o) ->
    items (merge_necessity eqb v o)
    = items v ++ filter (fun y => negb (memA y (items v))) (items o).
  Proof.
    intros. rewrite merge_characterisation by auto. rewrite items_app. f_equal.
    - unfold items. now rewrite map_map.
    - unfold items. rewrite map_map. simpl. now rewrite map_id.
  Qed.

  Theorem merge_union v o x : NoDup (items o) ->
    In x (items (merge_necessity eqb v o)) <-> In x (items v) \/ In x (items o).
  Proof.
    intros. rewrite merge_order by auto. rewrite in_app_iff, filter_In.
    split; [tauto|]. intros [H1|H1]; [tauto|].
    destruct (memA x (items v)) eqn:M; [apply memA_spec in M; tauto|]. right. split; auto.
  Qed.

  Lemma nodup_app (a b : list A) :
    NoDup a -> NoDup b -> (forall x, In x a -> ~ In x b) -> NoDup (a ++ b).
  Proof.
    induction a as [|x a IH]; simpl; intros Ha Hb D; auto.
    inversion Ha as [|? ? Hx Ha']; subst. constructor.
    - rewrite in_app_iff. intros [H|H]; [tauto|]. apply (D x); auto.
    - apply IH; auto.
  Qed.

  Theorem merge_once v o : NoDup (items v) -> NoDup (items o) ->
    NoDup (items (merge_necessity eqb v o)).
  Proof.
    intros Hv Ho. rewrite merge_order by auto. apply nodup_app; auto.
    - now apply NoDup_filter.
    - intros x Hx Hf. apply filter_In in Hf. destruct Hf as [_ Hf].
      apply memA_spec in Hx. rewrite Hx in Hf. discriminate.
  Qed.

  Theorem merge_mandatory_iff v o x : NoDup (items v) -> NoDup (items o) ->
    In (Mand, x) (merge_necessity eqb v o) <-> In (Mand, x) v /\ In (Mand, x) o.
  Proof.
    intros Hv Ho. rewrite merge_characterisation by auto. rewrite in_app_iff. split.
    - intros [H|H].
      + apply in_map_iff in H. destruct H as [[n y] [E Hin]]. simpl in E.
        unfold conj_tag in E. simpl in E.
        destruct (find_nec eqb y o) as [[|]|] eqn:F; destruct n; inversion E; subst.
        split; auto. now apply find_nec_some_in.
      + apply in_map_iff in H. destruct H as [y [E _]]. discriminate.
    - intros [H1 H2]. left. apply in_map_iff. exists (Mand, x). split; auto.
      unfold conj_tag. simpl. now rewrite (find_nec_nodup x o Mand Ho H2).
  Qed.

  (* every item of the result carries one of the two tags, and which one is decided above;
     stated for completeness of the reading "mandatory iff mandatory in both" *)
  Corollary merge_optional_otherwise v o x : NoDup (items v) -> NoDup (items o) ->
    In x (items (merge_necessity eqb v o)) ->
    ~ (In (Mand, x) v /\ In (Mand, x) o) -> In (Opt, x) (merge_necessity eqb v o).
  Proof.
    intros Hv Ho Hin Hn. unfold items in Hin. apply in_map_iff in Hin.
    destruct Hin as [[n y] [E Hin]]. simpl in E. subst y. destruct n; auto.
    exfalso. apply Hn. now apply merge_mandatory_iff.
  Qed.
End Merge.

(* The behaviour before repair F1 (second list walked reversed) violates the order clause. *)
Lemma merge_order_prefix_refuted :
  exists v o : list (nec * N),
    NoDup (items v) /\ NoDup (items o) /\
    items (merge_necessity_prefix N.eqb v o)
    <> items v ++ filter (fun y => negb (memA N.eqb y (items v))) (items o).
Proof.
  exists [(Mand, 1)], [(Mand, 2); (Mand, 3); (Mand, 4)].
  repeat split.
  - repeat constructor; simpl; intuition.
  - repeat constructor; simpl; intuition; discriminate.
  - vm_compute. discriminate.
Qed.
