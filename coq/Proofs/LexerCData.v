(* C11 at byte level: character data written as text or as a CDATA section. *)
From XSG.Model Require Import Strings Necessity Element Parser Dom Lexer.
From XSG.Proofs Require Import StringsProofs NecessityProofs ElementProofs ParserTotal SkelProofs
  ParserFaults LexerProofs LexerC11.
From Coq Require Import String Lia.

(* ---------- event level: ECData read as EText, in any stream ---------- *)
Definition c2t_ev (ev : event) : event := match ev with ECData r => EText r | e => e end.
Definition c2t (evs : list event) : list event := map c2t_ev evs.

Theorem c2t_build_struct f : forall evs root known,
  build_struct f (c2t evs) root known = map_rest c2t (build_struct f evs root known).
Proof.
  induction f as [|f IH]; intros evs root known; [reflexivity|].
  destruct evs as [|ev evs]; [reflexivity|].
  change (c2t (ev :: evs)) with (c2t_ev ev :: c2t evs).
  destruct ev as [n attrs|n attrs| |t|t| |p id]; cbn [c2t_ev].
  - rewrite !build_struct_S. unfold tag_step.
    destruct n as [name|id]; [|reflexivity].
    destruct (attr_keys attrs) as [e|keys]; [reflexivity|].
    rewrite IH.
    destruct (build_struct f evs (open_c0 root name keys known) []) as [[child rest']|e|] eqn:Hs;
      try reflexivity.
    cbn [map_rest]. apply IH.
  - rewrite !build_struct_S. unfold tag_step.
    destruct n as [name|id]; [|reflexivity].
    destruct (attr_keys attrs) as [e|keys]; [reflexivity|].
    apply IH.
  - rewrite !build_struct_S. reflexivity.
  - rewrite !build_struct_S. destruct t as [u|id]; [|reflexivity]. apply IH.
  - rewrite !build_struct_S. destruct t as [u|id]; [|reflexivity]. apply IH.
  - rewrite !build_struct_S. apply IH.
  - rewrite !build_struct_S. reflexivity.
Qed.

Lemma c2t_length evs : List.length (c2t evs) = List.length evs.
Proof. apply map_length. Qed.

Theorem c2t_into_struct_ev evs : into_struct_ev (c2t evs) = into_struct_ev evs.
Proof.
  unfold into_struct_ev, fuel_for. rewrite c2t_length, c2t_build_struct. apply take_root_map_rest.
Qed.
Theorem c2t_extend_struct_ev root evs : extend_struct_ev root (c2t evs) = extend_struct_ev root evs.
Proof.
  unfold extend_struct_ev, fuel_for. rewrite c2t_length, c2t_build_struct. apply take_root_map_rest.
Qed.

Corollary text_cdata_anywhere a r b :
  into_struct_ev (a ++ ECData r :: b) = into_struct_ev (a ++ EText r :: b).
Proof.
  rewrite <- (c2t_into_struct_ev (a ++ ECData r :: b)), <- (c2t_into_struct_ev (a ++ EText r :: b)).
  unfold c2t. now rewrite !map_app.
Qed.
Corollary text_cdata_anywhere_extend root a r b :
  extend_struct_ev root (a ++ ECData r :: b) = extend_struct_ev root (a ++ EText r :: b).
Proof.
  rewrite <- (c2t_extend_struct_ev root (a ++ ECData r :: b)), <- (c2t_extend_struct_ev root (a ++ EText r :: b)).
  unfold c2t. now rewrite !map_app.
Qed.

(* ---------- byte level ---------- *)
Definition no_lt_gt (c : list byte) : bool := forallb (fun b => negb (b =? B_lt) && negb (b =? B_gt)) c.

Lemma run_text_body : forall t acc p op,
  no_lt_gt t = true ->
  lex_run (st (MText acc) p op) t = (st (MText (rev t ++ acc)) (p + N.of_nat (List.length t)) op, []).
Proof.
  induction t as [|b t IH]; intros acc p op H.
  - cbn [lex_run rev app List.length N.of_nat]. now rewrite N.add_0_r.
  - cbn [no_lt_gt forallb] in H. apply andb_prop in H. destruct H as [Hb Ht].
    apply andb_prop in Hb. destruct Hb as [Hb1 _]. apply negb_true_iff in Hb1.
    cbn [lex_run]. unfold lex_step at 1. cbn [md pos opened st]. rewrite Hb1.
    fold (no_lt_gt t) in Ht. rewrite (IH (b :: acc) (p + 1) op Ht).
    cbn [rev app]. rewrite <- app_assoc. cbn [app]. f_equal. f_equal. cbn [List.length]. lia.
Qed.

(* a non-empty text up to the next `<` *)
Theorem run_text : forall t p op,
  no_lt_gt t = true -> t <> [] ->
  exists p', lex_run (st (MText []) p op) (t ++ [B_lt]) = (st MLt p' op, [EText (dec_unit t)]).
Proof.
  intros t p op H Hne. eexists. rewrite lex_run_app, (run_text_body t [] p op H).
  cbn [lex_run]. unfold lex_step at 1. cbn [md pos opened st]. rewrite N.eqb_refl.
  rewrite app_nil_r. destruct (rev t) as [|x r] eqn:E.
  - apply (f_equal (@rev byte)) in E. rewrite rev_involutive in E. now subst.
  - rewrite app_nil_r. cbn [app]. rewrite <- E, rev_involutive. reflexivity.
Qed.

Lemma run_cdata_body : forall t acc p op,
  no_lt_gt t = true ->
  lex_run (st (MCData acc) p op) t = (st (MCData (rev t ++ acc)) (p + N.of_nat (List.length t)) op, []).
Proof.
  induction t as [|b t IH]; intros acc p op H.
  - cbn [lex_run rev app List.length N.of_nat]. now rewrite N.add_0_r.
  - cbn [no_lt_gt forallb] in H. apply andb_prop in H. destruct H as [Hb Ht].
    apply andb_prop in Hb. destruct Hb as [_ Hb2]. apply negb_true_iff in Hb2.
    cbn [lex_run]. unfold lex_step at 1. cbn [md pos opened st]. rewrite Hb2.
    fold (no_lt_gt t) in Ht. rewrite (IH (b :: acc) (p + 1) op Ht).
    cbn [rev app]. rewrite <- app_assoc. cbn [app]. f_equal. f_equal. cbn [List.length]. lia.
Qed.

Definition cdata_open : list byte := [B_lt; B_bang; B_lbr; 67; 68; 65; 84; 65; B_lbr].   (* <![CDATA[ *)
Definition cdata_close : list byte := [B_rbr; B_rbr; B_gt].

Lemma run_cdata_open p op :
  lex_run (st (MText []) p op) cdata_open =
  (st (MCData [B_lbr; 65; 84; 65; 68; 67; B_lbr; B_bang]) (p + 1 + 1 + 1 + 1 + 1 + 1 + 1 + 1 + 1) op, []).
Proof. reflexivity. Qed.

Lemma cdata_inner (t : list byte) :
  firstn (List.length ([B_bang; B_lbr; 67; 68; 65; 84; 65; B_lbr] ++ t ++ [B_rbr; B_rbr]) - 10)
         (skipn 8 ([B_bang; B_lbr; 67; 68; 65; 84; 65; B_lbr] ++ t ++ [B_rbr; B_rbr])) = t.
Proof.
  cbn [app skipn List.length]. rewrite app_length. cbn [List.length].
  replace (S (S (S (S (S (S (S (S (List.length t + 2)))))))) - 10)%nat with (List.length t + 0)%nat by lia.
  rewrite firstn_app_2. cbn [firstn]. apply app_nil_r.
Qed.

Theorem run_cdata : forall t p op,
  no_lt_gt t = true ->
  exists p', lex_run (st (MText []) p op) (cdata_open ++ t ++ cdata_close ++ [B_lt])
             = (st MLt p' op, [ECData (dec_unit t)]).
Proof.
  intros t p op H. eexists.
  rewrite lex_run_app, run_cdata_open. rewrite lex_run_app, (run_cdata_body t _ _ op H).
  unfold cdata_close. cbn [app lex_run].
  unfold lex_step at 1. cbn [md pos opened st]. change (B_rbr =? B_gt) with false. cbv iota.
  unfold lex_step at 1. cbn [md pos opened st]. change (B_rbr =? B_gt) with false. cbv iota.
  unfold lex_step at 1. cbn [md pos opened st]. change (B_gt =? B_gt) with true.
  change (B_rbr =? B_rbr) with true. cbn [andb]. cbv iota.
  assert (Hrev : rev (B_rbr :: B_rbr :: rev t ++ [B_lbr; 65; 84; 65; 68; 67; B_lbr; B_bang])
                 = [B_bang; B_lbr; 67; 68; 65; 84; 65; B_lbr] ++ (t ++ [B_rbr; B_rbr])).
  { cbn [rev]. rewrite rev_app_distr, rev_involutive. cbn [rev app]. rewrite <- !app_assoc. reflexivity. }
  rewrite Hrev. unfold close_cdata.
  change (lit "![CDATA[") with [B_bang; B_lbr; 67; 68; 65; 84; 65; B_lbr]. rewrite starts_with_app.
  rewrite cdata_inner.
  unfold lex_step at 1. cbn [md pos opened st]. rewrite N.eqb_refl. cbn [app]. reflexivity.
Qed.

Theorem bytes_text_vs_cdata : forall a t b,
  no_lt_gt t = true -> t <> [] ->
  md (fst (lex_run lex_init a)) = MText [] ->
  no_reader_error (lex_from lex_init (a ++ (t ++ [B_lt]) ++ b)) = true ->
  into_struct_ev (lex_from lex_init (a ++ (cdata_open ++ t ++ cdata_close ++ [B_lt]) ++ b))
  = into_struct_ev (lex_from lex_init (a ++ (t ++ [B_lt]) ++ b)).
Proof.
  intros a t b Ht Hne Hm Hn.
  rewrite (lex_from_app a ((t ++ [B_lt]) ++ b)) in *. rewrite (lex_from_app a).
  destruct (lex_run lex_init a) as [[m p op] ea]. cbn [fst snd md] in *. subst m.
  change {| md := MText []; pos := p; opened := op |} with (st (MText []) p op) in *.
  rewrite (lex_from_app (t ++ [B_lt]) b) in *. rewrite (lex_from_app (cdata_open ++ t ++ cdata_close ++ [B_lt]) b).
  destruct (run_text t p op Ht Hne) as [p1 E1]. destruct (run_cdata t p op Ht) as [p2 E2].
  rewrite E1 in *. rewrite E2. cbn [fst snd app] in *.
  rewrite text_cdata_anywhere. do 3 f_equal.
  apply erase_pos_eq.
  - apply lex_from_pos. split; reflexivity.
  - apply no_reader_error_app in Hn. cbn [no_reader_error forallb] in Hn. exact Hn.
Qed.

Lemma example_text_cdata :
  md (fst (lex_run lex_init (s "<a x='1'><b>"))) = MText []
  /\ no_reader_error (lex_from lex_init (s "<a x='1'><b>" ++ (s "some text" ++ [B_lt]) ++ s "/b></a>")) = true
  /\ exists e, into_struct_ev (lex_from lex_init (s "<a x='1'><b><![CDATA[some text]]></b></a>")) = Ok e
               /\ into_struct_ev (lex_from lex_init (s "<a x='1'><b>some text</b></a>")) = Ok e.
Proof. split; [|split]; [vm_compute; reflexivity|vm_compute; reflexivity|]. eexists. split; vm_compute; reflexivity. Qed.

(* `lex` is `lex_from lex_init` on every input that does not begin with a byte-order mark *)
Lemma lex_no_bom bs : fst (strip_bom bs) = bs -> lex bs = lex_from lex_init bs.
Proof. intros H. unfold lex. now rewrite H. Qed.
Lemma strip_bom_markup b r : b <> 239 -> fst (strip_bom (b :: r)) = b :: r.
Proof.
  intros H. unfold strip_bom. destruct b as [|q]; [reflexivity|].
  destruct (N.eq_dec (N.pos q) 239) as [E|E]; [congruence|].
  do 8 (destruct q as [q|q|]; try reflexivity). congruence.
Qed.
