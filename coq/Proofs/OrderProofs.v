(* C09, renderer part (Model/Render.v: render_abs_at / render_abs): the order of the fields
   inside every struct (attributes, text, children; each group by XML name or in internal /
   position order), the order of the structs (pre-order walk in field order), and the fact
   that Options::sort changes nothing but these orders.
   Builds on Proofs/RenderProofs.v (isort facts, head_struct, render_struct_shape). *)
From Coq Require Import String Lia Permutation Sorted RelationClasses.
From XSG.Model Require Import Strings Chars Convert Necessity Element Render.
From XSG.Proofs Require Import StringsProofs ElementProofs RenderProofs.
(* (Coq.Sorting.Sorted also exports a `sort`; the model's `Render.sort` must come last) *)

(* ====================================================================== *)
(* 1. vocabulary                                                           *)
(* ====================================================================== *)
Definition is_attr (f : field) : bool := match f_kind f with FAttr => true | _ => false end.
Definition is_text (f : field) : bool := match f_kind f with FText => true | _ => false end.
Definition is_child (f : field) : bool := match f_kind f with FChild => true | _ => false end.

(* XML names of the attribute fields / of the child fields of a struct, in field order *)
Definition attr_xml (d : structdef) : list str := map f_xml (filter is_attr (sd_fields d)).
Definition child_xml (d : structdef) : list str := map f_xml (filter is_child (sd_fields d)).

Definition str_le (a b : str) : Prop := str_leb a b = true.
Definition str_lt (a b : str) : Prop := str_ltb a b = true.

(* `x` is `e` or one of its descendants *)
Inductive subnode : element -> element -> Prop :=
| sub_self : forall e, subnode e e
| sub_child : forall x c e, In c (echildren e) -> subnode x (snd c) -> subnode x e.

Lemma Uniq_subnode x e : subnode x e -> Uniq e -> Uniq x.
Proof.
  induction 1 as [e|x c e Hin Hs IH]; intros He; [exact He|].
  apply IH. destruct (Uniq_inv _ He) as (_ & _ & Hf).
  rewrite Forall_forall in Hf. now apply Hf.
Qed.

(* ====================================================================== *)
(* 2. more about insertion sort and the string order                       *)
(* ====================================================================== *)
(* sorting a sorted list changes nothing *)
Lemma isort_sorted_id {A} (leb : A -> A -> bool) l :
  Sorted (lebR leb) l -> isort leb l = l.
Proof.
  induction 1 as [|x l Hs IH Hh]; [reflexivity|].
  cbn [isort fold_right]. fold (isort leb l). rewrite IH.
  destruct Hh as [|y l' Hxy]; [reflexivity|].
  cbn [insert]. unfold lebR in Hxy. now rewrite Hxy.
Qed.

Lemma str_ltb_tricho a b : str_ltb a b = false -> str_ltb b a = false -> a = b.
Proof.
  revert b. induction a as [|x a IH]; intros [|y b]; simpl; auto; try discriminate.
  destruct (N.ltb_spec x y), (N.ltb_spec y x); try discriminate; try lia.
  intros H1 H2. f_equal; [lia|now apply IH].
Qed.

Lemma str_le_neq_lt a b : str_le a b -> a <> b -> str_lt a b.
Proof.
  unfold str_le, str_lt, str_leb. rewrite negb_true_iff. intros Hba Hne.
  destruct (str_ltb a b) eqn:E; [reflexivity|].
  exfalso. apply Hne. now apply str_ltb_tricho.
Qed.

Lemma str_lt_le a b : str_lt a b -> str_le a b.
Proof.
  unfold str_le, str_lt, str_leb. intros H. now rewrite (str_ltb_asym _ _ H).
Qed.

Lemma str_le_trans : Relations_1.Transitive str_le.
Proof. intros a b c. apply str_leb_trans. Qed.

(* non-strictly sorted + pairwise distinct = strictly sorted *)
Lemma StronglySorted_strict l :
  StronglySorted str_le l -> NoDup l -> StronglySorted str_lt l.
Proof.
  induction 1 as [|x l Hs IH Hall]; intros Hnd; constructor;
    inversion Hnd as [|? ? Hx Hl]; subst.
  - now apply IH.
  - rewrite Forall_forall in *. intros y Hy. apply str_le_neq_lt; [now apply Hall|].
    intros ->. now apply Hx.
Qed.

(* sorting by a string key sorts the keys *)
Lemma isort_key_strongly_sorted {A} (key : A -> str) l :
  StronglySorted str_le (map key (isort (fun a b => str_leb (key a) (key b)) l)).
Proof.
  apply Sorted_StronglySorted; [exact str_le_trans|].
  apply (isort_sorted_key str_leb key l). exact str_leb_total.
Qed.

Lemma isort_key_nodup {A B} (leb : A -> A -> bool) (key : A -> B) l :
  NoDup (map key l) -> NoDup (map key (isort leb l)).
Proof. apply Permutation_NoDup, Permutation_map, isort_perm. Qed.

(* ====================================================================== *)
(* 3. the attribute / child names of one struct                            *)
(* ====================================================================== *)
Lemma sorted_attrs_perm o e : Permutation (eattrs e) (sorted_attrs o e).
Proof. unfold sorted_attrs. destruct (sort o); [apply Permutation_refl|apply isort_perm]. Qed.

Lemma sorted_attrs_length o e : List.length (sorted_attrs o e) = List.length (eattrs e).
Proof. symmetry. apply Permutation_length, sorted_attrs_perm. Qed.

Lemma sorted_children_perm o e : Permutation (echildren e) (sorted_children o e).
Proof. apply isort_perm. Qed.

Lemma sorted_children_length o e : List.length (sorted_children o e) = List.length (echildren e).
Proof. apply isort_length. Qed.

Lemma head_attr_xml o tbl e pth :
  attr_xml (head_struct o tbl e pth) = map snd (sorted_attrs o e).
Proof.
  unfold attr_xml. rewrite head_struct_fields, !filter_app.
  rewrite (filter_map_all is_attr); [|reflexivity].
  rewrite (filter_map_none is_attr (child_field _ _ _)); [|reflexivity].
  replace (filter is_attr (text_fields o (id_new e) e)) with (@nil field)
    by (unfold text_fields; now destruct (etext e)).
  rewrite !app_nil_r, map_map. reflexivity.
Qed.

Lemma head_child_xml o tbl e pth :
  child_xml (head_struct o tbl e pth) = map cname (sorted_children o e).
Proof.
  unfold child_xml. rewrite head_struct_fields, !filter_app.
  rewrite (filter_map_none is_child (attr_field _ _)); [|reflexivity].
  rewrite (filter_map_all is_child (child_field _ _ _)); [|reflexivity].
  replace (filter is_child (text_fields o (id_new e) e)) with (@nil field)
    by (unfold text_fields; now destruct (etext e)).
  cbn [app]. rewrite map_map. reflexivity.
Qed.

(* ====================================================================== *)
(* 4. every struct is the head struct of a descendant                      *)
(* ====================================================================== *)
Lemma render_In_head o tbl e : forall pth d,
  In d (render_abs_at o tbl e pth) ->
  exists x p, subnode x e /\ d = head_struct o tbl x p.
Proof.
  induction e as [n t x k a ch p IH] using element_ind'. intros pth d Hd.
  rewrite render_struct_shape in Hd. destruct Hd as [<-|Hd].
  - eexists _, _. split; [apply sub_self|reflexivity].
  - apply in_flat_map in Hd. destruct Hd as [c [Hc Hd]].
    apply isort_in in Hc. cbn [echildren] in Hc.
    rewrite Forall_forall in IH.
    destruct (contains_only_text (snd c)); [destruct Hd|].
    destruct (IH c Hc _ _ Hd) as (y & q & Hy & ->).
    exists y, q. split; [|reflexivity]. eapply sub_child; [|exact Hy]. exact Hc.
Qed.

Lemma render_Forall_sub (P : structdef -> Prop) o tbl e pth :
  (forall x p, subnode x e -> P (head_struct o tbl x p)) ->
  Forall P (render_abs_at o tbl e pth).
Proof.
  intros HP. apply Forall_forall. intros d Hd.
  destruct (render_In_head _ _ _ _ _ Hd) as (x & p & Hx & ->). now apply HP.
Qed.

Lemma render_abs_Forall_sub (P : structdef -> Prop) o e :
  (forall tbl x p, subnode x e -> P (head_struct o tbl x p)) ->
  Forall P (render_abs o e).
Proof. intros HP. unfold render_abs, render_abs_ord. apply render_Forall_sub. apply HP. Qed.

(* ====================================================================== *)
(* 5. C09: groups                                                          *)
(* ====================================================================== *)
Lemma head_groups o tbl e pth :
  map f_kind (sd_fields (head_struct o tbl e pth))
  = repeat FAttr (List.length (eattrs e))
    ++ repeat FText (if etext e then 1 else 0)
    ++ repeat FChild (List.length (echildren e)).
Proof.
  rewrite head_struct_fields, !map_app, !map_map.
  rewrite (map_const_repeat (fun a => f_kind (attr_field o (id_new e) a)) FAttr); [|reflexivity].
  rewrite (map_const_repeat (fun c => f_kind (child_field tbl (id_new e) (pth ++ [ename e]) c)) FChild);
    [|reflexivity].
  rewrite sorted_attrs_length, sorted_children_length.
  f_equal. f_equal. unfold text_fields. now destruct (etext e).
Qed.

Definition grouped (d : structdef) : Prop :=
  exists a t c, map f_kind (sd_fields d) = repeat FAttr a ++ repeat FText t ++ repeat FChild c
                /\ (t <= 1)%nat.

Lemma head_grouped o tbl e pth : grouped (head_struct o tbl e pth).
Proof.
  eexists _, _, _. split; [apply head_groups|]. destruct (etext e); lia.
Qed.

Lemma render_at_groups o tbl e pth : Forall grouped (render_abs_at o tbl e pth).
Proof. apply render_Forall. intros. apply head_grouped. Qed.

Lemma render_groups o e : Forall grouped (render_abs o e).
Proof. apply render_at_groups. Qed.

(* ====================================================================== *)
(* 6. C09: sort-by-name                                                    *)
(* ====================================================================== *)
Lemma head_sorted_attrs o tbl e pth :
  sort o = XmlName -> StronglySorted str_le (attr_xml (head_struct o tbl e pth)).
Proof.
  intros H. rewrite head_attr_xml. unfold sorted_attrs. rewrite H.
  apply (isort_key_strongly_sorted (@snd nec str)).
Qed.

Lemma head_sorted_children o tbl e pth :
  sort o = XmlName -> StronglySorted str_le (child_xml (head_struct o tbl e pth)).
Proof.
  intros H. rewrite head_child_xml. unfold sorted_children, order_leb. rewrite H.
  apply (isort_key_strongly_sorted cname).
Qed.

Lemma head_attr_nodup o tbl e pth :
  Uniq e -> NoDup (attr_xml (head_struct o tbl e pth)).
Proof.
  intros He. destruct (Uniq_inv _ He) as (Ha & _ & _).
  rewrite head_attr_xml. eapply Permutation_NoDup; [|exact Ha].
  apply Permutation_map, sorted_attrs_perm.
Qed.

Lemma head_child_nodup o tbl e pth :
  Uniq e -> NoDup (child_xml (head_struct o tbl e pth)).
Proof.
  intros He. destruct (Uniq_inv _ He) as (_ & Hc & _).
  rewrite head_child_xml. eapply Permutation_NoDup; [|exact Hc].
  apply (Permutation_map cname), sorted_children_perm.
Qed.

Lemma render_sorted_attrs o e :
  sort o = XmlName ->
  Forall (fun d => StronglySorted str_le (attr_xml d)) (render_abs o e).
Proof. intros H. apply render_abs_Forall. intros. now apply head_sorted_attrs. Qed.

Lemma render_sorted_children o e :
  sort o = XmlName ->
  Forall (fun d => StronglySorted str_le (child_xml d)) (render_abs o e).
Proof. intros H. apply render_abs_Forall. intros. now apply head_sorted_children. Qed.

(* strictly, as soon as names are unique under every parent *)
Lemma render_strictly_sorted_attrs o e :
  sort o = XmlName -> Uniq e ->
  Forall (fun d => StronglySorted str_lt (attr_xml d)) (render_abs o e).
Proof.
  intros H He. apply render_abs_Forall_sub. intros tbl x p Hx.
  apply StronglySorted_strict; [now apply head_sorted_attrs|].
  apply head_attr_nodup. exact (Uniq_subnode _ _ Hx He).
Qed.

Lemma render_strictly_sorted_children o e :
  sort o = XmlName -> Uniq e ->
  Forall (fun d => StronglySorted str_lt (child_xml d)) (render_abs o e).
Proof.
  intros H He. apply render_abs_Forall_sub. intros tbl x p Hx.
  apply StronglySorted_strict; [now apply head_sorted_children|].
  apply head_child_nodup. exact (Uniq_subnode _ _ Hx He).
Qed.

(* ====================================================================== *)
(* 7. C09: unsorted                                                        *)
(* ====================================================================== *)
Lemma head_unsorted_attrs o tbl e pth :
  sort o = Unsorted -> attr_xml (head_struct o tbl e pth) = map snd (eattrs e).
Proof. intros H. rewrite head_attr_xml. unfold sorted_attrs. now rewrite H. Qed.

Lemma head_unsorted_children o tbl e pth :
  sort o = Unsorted ->
  child_xml (head_struct o tbl e pth) = map cname (isort by_pos (echildren e)).
Proof. intros H. rewrite head_child_xml. unfold sorted_children, order_leb. now rewrite H. Qed.

(* the same facts read off the rendering of a node: its first struct *)
Lemma render_at_unsorted_attrs o tbl e pth d rest :
  sort o = Unsorted -> render_abs_at o tbl e pth = d :: rest ->
  attr_xml d = map snd (eattrs e).
Proof.
  intros H E. rewrite render_struct_shape in E. injection E as <- _.
  now apply head_unsorted_attrs.
Qed.

Lemma render_at_unsorted_children o tbl e pth d rest :
  sort o = Unsorted -> render_abs_at o tbl e pth = d :: rest ->
  child_xml d = map cname (isort by_pos (echildren e)).
Proof.
  intros H E. rewrite render_struct_shape in E. injection E as <- _.
  now apply head_unsorted_children.
Qed.

(* ... and for every struct of the output, w.r.t. the node it belongs to *)
Lemma render_unsorted_everywhere o e :
  sort o = Unsorted ->
  Forall (fun d => exists x, subnode x e
                             /\ attr_xml d = map snd (eattrs x)
                             /\ child_xml d = map cname (isort by_pos (echildren x)))
         (render_abs o e).
Proof.
  intros H. apply render_abs_Forall_sub. intros tbl x p Hx. exists x.
  split; [exact Hx|]. split; [now apply head_unsorted_attrs|now apply head_unsorted_children].
Qed.

(* what `isort by_pos` is: a rearrangement, ascending in `position` (None first), stable;
   the identity on a list whose positions already ascend *)
Definition pos_le (a b : nec * element) : Prop := by_pos a b = true.

Lemma by_pos_sort_spec l :
  Permutation l (isort by_pos l)
  /\ StronglySorted pos_le (isort by_pos l)
  /\ (forall x, filter (eqv by_pos x) (isort by_pos l) = filter (eqv by_pos x) l)
  /\ (Sorted pos_le l -> isort by_pos l = l).
Proof.
  split; [apply isort_perm|]. split; [|split].
  - apply (isort_strongly_sorted by_pos by_pos_total l by_pos_trans).
  - intros x. apply (isort_stable by_pos by_pos_trans).
  - apply isort_sorted_id.
Qed.

(* ====================================================================== *)
(* 8. C09: pre-order                                                       *)
(* ====================================================================== *)
(* render_struct_shape and head_struct_fields of RenderProofs.v, together: the child fields of
   the head struct and the blocks of structs that follow it are both indexed by the same list
   `sorted_children o e`, each block being the (recursive) rendering of that child *)
Lemma render_preorder o tbl e pth :
  render_abs_at o tbl e pth
  = head_struct o tbl e pth
    :: flat_map (fun c => if contains_only_text (snd c) then []
                          else render_abs_at o tbl (snd c) (pth ++ [ename e]))
                (sorted_children o e)
  /\ sd_fields (head_struct o tbl e pth)
     = map (attr_field o (id_new e)) (sorted_attrs o e)
       ++ text_fields o (id_new e) e
       ++ map (child_field tbl (id_new e) (pth ++ [ename e])) (sorted_children o e).
Proof. split; [apply render_struct_shape|apply head_struct_fields]. Qed.

Lemma render_abs_preorder o e :
  let tbl := compute_struct_names e (compute_name_hints e) in
  render_abs o e
  = head_struct o tbl e []
    :: flat_map (fun c => if contains_only_text (snd c) then []
                          else render_abs_at o tbl (snd c) [ename e])
                (sorted_children o e).
Proof. cbv zeta. unfold render_abs, render_abs_ord. apply render_struct_shape. Qed.

(* ====================================================================== *)
(* 9. C09: switching the option changes nothing but the orders             *)
(* ====================================================================== *)
Definition struct_equiv (d1 d2 : structdef) : Prop :=
  sd_derive d1 = sd_derive d2 /\ sd_name d1 = sd_name d2
  /\ Permutation (sd_fields d1) (sd_fields d2).

(* l1 can be rearranged so that it matches l2 struct by struct *)
Definition SameUpToOrder (l1 l2 : list structdef) : Prop :=
  exists l, Permutation l1 l /\ Forall2 struct_equiv l l2.

Definition same_but_sort (o1 o2 : options) : Prop :=
  text_identifier o1 = text_identifier o2 /\ attribute_prefix o1 = attribute_prefix o2
  /\ derive o1 = derive o2.

Lemma struct_equiv_refl d : struct_equiv d d.
Proof. repeat split; auto. Qed.
Lemma struct_equiv_sym d1 d2 : struct_equiv d1 d2 -> struct_equiv d2 d1.
Proof. intros (H1 & H2 & H3). repeat split; auto. now apply Permutation_sym. Qed.
Lemma struct_equiv_trans d1 d2 d3 : struct_equiv d1 d2 -> struct_equiv d2 d3 -> struct_equiv d1 d3.
Proof.
  intros (H1 & H2 & H3) (K1 & K2 & K3). repeat split; try congruence.
  eapply perm_trans; eauto.
Qed.

Lemma Forall2_flip {A B} (R : A -> B -> Prop) l1 l2 :
  Forall2 R l1 l2 -> Forall2 (fun b a => R a b) l2 l1.
Proof. induction 1; constructor; auto. Qed.

Lemma Forall2_mono {A B} (R S : A -> B -> Prop) l1 l2 :
  (forall a b, R a b -> S a b) -> Forall2 R l1 l2 -> Forall2 S l1 l2.
Proof. intros H. induction 1; constructor; auto. Qed.

Lemma Forall2_len {A B} (R : A -> B -> Prop) l1 l2 :
  Forall2 R l1 l2 -> List.length l1 = List.length l2.
Proof. induction 1; simpl; auto. Qed.

Lemma Forall2_refl {A} (R : A -> A -> Prop) l : (forall x, R x x) -> Forall2 R l l.
Proof. intros H. induction l; constructor; auto. Qed.

Lemma Forall2_trans {A} (R : A -> A -> Prop) l1 :
  (forall x y z, R x y -> R y z -> R x z) ->
  forall l2 l3, Forall2 R l1 l2 -> Forall2 R l2 l3 -> Forall2 R l1 l3.
Proof.
  intros tr. induction l1 as [|x l1 IH]; intros l2 l3 H12 H23;
    inversion H12; subst; inversion H23; subst; constructor; eauto.
Qed.

Lemma SUO_nil : SameUpToOrder [] [].
Proof. exists []. split; constructor. Qed.

Lemma SUO_refl l : SameUpToOrder l l.
Proof. exists l. split; [apply Permutation_refl|]. apply Forall2_refl, struct_equiv_refl. Qed.

Lemma SUO_cons d1 d2 l1 l2 :
  struct_equiv d1 d2 -> SameUpToOrder l1 l2 -> SameUpToOrder (d1 :: l1) (d2 :: l2).
Proof.
  intros Hd (l & Hp & Hf). exists (d1 :: l). split; [now apply perm_skip|now constructor].
Qed.

Lemma SUO_app a b c d :
  SameUpToOrder a b -> SameUpToOrder c d -> SameUpToOrder (a ++ c) (b ++ d).
Proof.
  intros (l & Hp & Hf) (l' & Hp' & Hf'). exists (l ++ l').
  split; [now apply Permutation_app|now apply Forall2_app].
Qed.

Lemma SUO_perm_l l1 l1' l2 :
  Permutation l1 l1' -> SameUpToOrder l1' l2 -> SameUpToOrder l1 l2.
Proof. intros Hp (l & Hp' & Hf). exists l. split; [eapply perm_trans; eauto|exact Hf]. Qed.

Lemma SUO_perm_r l1 l2 l2' :
  SameUpToOrder l1 l2 -> Permutation l2 l2' -> SameUpToOrder l1 l2'.
Proof.
  intros (l & Hp & Hf) Hp2.
  destruct (Permutation_Forall2 Hp2 (Forall2_flip _ _ _ Hf)) as (l' & Hl & Hf').
  exists l'. split; [eapply perm_trans; eauto|].
  apply Forall2_flip in Hf'. exact Hf'.
Qed.

Lemma SUO_sym l1 l2 : SameUpToOrder l1 l2 -> SameUpToOrder l2 l1.
Proof.
  intros (l & Hp & Hf).
  apply SUO_perm_r with (l2 := l); [|now apply Permutation_sym].
  exists l2. split; [apply Permutation_refl|].
  apply Forall2_flip in Hf. eapply Forall2_mono; [|exact Hf].
  intros a b. apply struct_equiv_sym.
Qed.

Lemma SUO_trans l1 l2 l3 : SameUpToOrder l1 l2 -> SameUpToOrder l2 l3 -> SameUpToOrder l1 l3.
Proof.
  intros H12 (m & Hp & Hf).
  destruct (SUO_perm_r _ _ _ H12 Hp) as (l & Hl & Hfl).
  exists l. split; [exact Hl|].
  eapply Forall2_trans; [exact struct_equiv_trans|exact Hfl|exact Hf].
Qed.

Lemma SUO_equivalence :
  (forall l, SameUpToOrder l l)
  /\ (forall l1 l2, SameUpToOrder l1 l2 -> SameUpToOrder l2 l1)
  /\ (forall l1 l2 l3, SameUpToOrder l1 l2 -> SameUpToOrder l2 l3 -> SameUpToOrder l1 l3).
Proof. split; [exact SUO_refl|]. split; [exact SUO_sym|exact SUO_trans]. Qed.

(* both outputs have the same number of structs *)
Lemma SUO_length l1 l2 : SameUpToOrder l1 l2 -> List.length l1 = List.length l2.
Proof.
  intros (l & Hp & Hf). rewrite (Permutation_length Hp). exact (Forall2_len _ _ _ Hf).
Qed.

Lemma SUO_flat_map {A} (g1 g2 : A -> list structdef) l :
  Forall (fun c => SameUpToOrder (g1 c) (g2 c)) l ->
  SameUpToOrder (flat_map g1 l) (flat_map g2 l).
Proof.
  induction 1 as [|c l Hc Hl IH]; cbn [flat_map]; [apply SUO_nil|now apply SUO_app].
Qed.

Lemma attr_field_ext o1 o2 m a :
  attribute_prefix o1 = attribute_prefix o2 -> attr_field o1 m a = attr_field o2 m a.
Proof. intros H. unfold attr_field. now rewrite H. Qed.

Lemma text_fields_ext o1 o2 m e :
  text_identifier o1 = text_identifier o2 -> text_fields o1 m e = text_fields o2 m e.
Proof. intros H. unfold text_fields. now rewrite H. Qed.

Lemma head_equiv o1 o2 tbl e pth :
  same_but_sort o1 o2 -> struct_equiv (head_struct o1 tbl e pth) (head_struct o2 tbl e pth).
Proof.
  intros (Ht & Ha & Hd). split; [|split].
  - cbn [head_struct sd_derive]. unfold derive_attr. now rewrite Hd.
  - reflexivity.
  - rewrite !head_struct_fields. apply Permutation_app; [|apply Permutation_app].
    + rewrite (map_ext _ _ (fun a => attr_field_ext o1 o2 (id_new e) a Ha)).
      apply Permutation_map.
      eapply perm_trans; [apply Permutation_sym, sorted_attrs_perm|apply sorted_attrs_perm].
    + rewrite (text_fields_ext o1 o2 _ _ Ht). apply Permutation_refl.
    + apply Permutation_map.
      eapply perm_trans; [apply Permutation_sym, sorted_children_perm|apply sorted_children_perm].
Qed.

(* the blocks after the head struct, given the claim for every child *)
Lemma tails_only_order o1 o2 tbl e pth :
  Forall (fun c => forall q, SameUpToOrder (render_abs_at o1 tbl (snd c) q)
                                           (render_abs_at o2 tbl (snd c) q)) (echildren e) ->
  SameUpToOrder
    (flat_map (fun c => if contains_only_text (snd c) then []
                        else render_abs_at o1 tbl (snd c) (pth ++ [ename e])) (sorted_children o1 e))
    (flat_map (fun c => if contains_only_text (snd c) then []
                        else render_abs_at o2 tbl (snd c) (pth ++ [ename e])) (sorted_children o2 e)).
Proof.
  intros IH.
  eapply SUO_perm_l;
    [apply Permutation_flat_map, Permutation_sym, (sorted_children_perm o1 e)|].
  eapply SUO_perm_r;
    [|apply Permutation_flat_map, (sorted_children_perm o2 e)].
  apply SUO_flat_map. eapply Forall_impl; [|exact IH].
  intros c Hc. cbv beta in Hc.
  destruct (contains_only_text (snd c)); [apply SUO_nil|apply Hc].
Qed.

Lemma render_at_only_order o1 o2 tbl e :
  same_but_sort o1 o2 -> forall pth,
  SameUpToOrder (render_abs_at o1 tbl e pth) (render_abs_at o2 tbl e pth).
Proof.
  intros H. induction e as [n t x k a ch p IH] using element_ind'. intros pth.
  rewrite !render_struct_shape. apply SUO_cons; [now apply head_equiv|].
  apply tails_only_order. exact IH.
Qed.

Lemma render_only_order o1 o2 e :
  same_but_sort o1 o2 -> SameUpToOrder (render_abs o1 e) (render_abs o2 e).
Proof. intros H. unfold render_abs, render_abs_ord. now apply render_at_only_order. Qed.

(* the root struct stays first *)
Lemma render_only_order_head o1 o2 e :
  same_but_sort o1 o2 ->
  exists d1 r1 d2 r2, render_abs o1 e = d1 :: r1 /\ render_abs o2 e = d2 :: r2
                      /\ struct_equiv d1 d2 /\ SameUpToOrder r1 r2.
Proof.
  intros H. unfold render_abs, render_abs_ord. rewrite !render_struct_shape.
  eexists _, _, _, _. split; [reflexivity|]. split; [reflexivity|].
  split; [now apply head_equiv|].
  apply tails_only_order, Forall_forall. intros c _ q. now apply render_at_only_order.
Qed.

(* ====================================================================== *)
(* 10. a concrete tree on which everything above is visible                *)
(* ====================================================================== *)
(* <r b= a=> text <y> (3rd seen) <x> (1st seen, has an attribute) <m> (2nd seen) *)
Definition ex_leaf (n : string) (p : nat) : element :=
  Elem (s n) true true 1 [] [] (Some p).
Definition ex_x : element :=
  Elem (s "x") false true 1 [(Mand, s "q"); (Opt, s "p")] [(Mand, ex_leaf "k" 0)] (Some 0%nat).
Definition ex_tree : element :=
  Elem (s "r") true true 1 [(Mand, s "b"); (Opt, s "a")]
       [(Mand, ex_leaf "y" 2); (Opt, ex_x); (Mand, ex_leaf "m" 1)] None.
Definition ex_sorted : options :=
  {| text_identifier := s "$text"; attribute_prefix := s "@";
     derive := s "Serialize, Deserialize"; sort := XmlName |}.

Lemma ex_tree_uniq : Uniq ex_tree.
Proof.
  assert (L : forall n p, Uniq (ex_leaf n p)).
  { intros n p. constructor; constructor. }
  constructor.
  - vm_compute. repeat constructor; simpl; intuition discriminate.
  - vm_compute. repeat constructor; simpl; intuition discriminate.
  - constructor; [apply L|]. constructor; [|constructor; [apply L|constructor]].
    cbn [snd]. constructor.
    + vm_compute. repeat constructor; simpl; intuition discriminate.
    + vm_compute. repeat constructor; simpl; intuition discriminate.
    + constructor; [apply L|constructor].
Qed.

Definition field_view (d : structdef) : list (fkind * str) :=
  map (fun f => (f_kind f, f_xml f)) (sd_fields d).

Example ex_unsorted_view :
  sort quick_xml_de = Unsorted /\
  map field_view (render_abs quick_xml_de ex_tree)
  = [ [(FAttr, s "b"); (FAttr, s "a"); (FText, s "text"); (FChild, s "x"); (FChild, s "m"); (FChild, s "y")];
      [(FAttr, s "q"); (FAttr, s "p"); (FChild, s "k")] ].
Proof. split; [reflexivity|vm_compute; reflexivity]. Qed.

Example ex_sorted_view :
  sort ex_sorted = XmlName /\ same_but_sort quick_xml_de ex_sorted /\
  map field_view (render_abs ex_sorted ex_tree)
  = [ [(FAttr, s "a"); (FAttr, s "b"); (FText, s "text"); (FChild, s "m"); (FChild, s "x"); (FChild, s "y")];
      [(FAttr, s "p"); (FAttr, s "q"); (FChild, s "k")] ].
Proof. split; [reflexivity|]. split; [repeat split|vm_compute; reflexivity]. Qed.

(* a tree with two struct-typed children shows the struct blocks moving with the fields *)
Definition ex_tree2 : element :=
  Elem (s "r") false true 1 []
       [(Mand, Elem (s "z") false true 1 [(Mand, s "i")] [] (Some 0%nat));
        (Mand, Elem (s "c") false true 1 [(Mand, s "j")] [(Mand, ex_leaf "w" 0)] (Some 1%nat))] None.

Example ex_preorder_view :
  map sd_name (render_abs quick_xml_de ex_tree2) = [s "R"; s "Z"; s "C"] /\
  map sd_name (render_abs ex_sorted ex_tree2) = [s "R"; s "C"; s "Z"] /\
  render_abs quick_xml_de ex_tree2 <> render_abs ex_sorted ex_tree2.
Proof.
  split; [vm_compute; reflexivity|]. split; [vm_compute; reflexivity|].
  intros E. apply (f_equal (map sd_name)) in E. vm_compute in E. discriminate E.
Qed.
