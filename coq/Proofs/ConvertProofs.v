(* C04, legality of identifiers: every field identifier produced by to_valid_key /
   create_unused_name / id_new is a legal non-keyword Rust identifier, every struct name
   built from PascalCase names (+ decimal suffix) is a legal type identifier that is not a
   reserved word and does not shadow String / Option / Vec.
   Model: Chars.v (table-driven character classes over Sigma), Convert.v, Render.v.

   FINDING (hypothesis strengthened).  The task's hypothesis on name characters
     name_char_ok0 c := in_sigma c && (xid_continue c || c = '-' || c = '.' || c = ':')
   is NOT sufficient in the model: 22 letters of Sigma (U+019B, U+023A, U+023E, U+023F,
   U+0240, U+0250 ...) have a lower/upper-case image outside Sigma (e.g. U+023A -> U+2C65),
   and the model classifies every code point outside Sigma as "other" (not XID_Continue), so
   for such names the model's legality predicate fails although the real identifier is legal
   for rustc.  The right hypothesis adds `case_closed c` (both case images of c stay in
   Sigma).  The counterexamples are kept below as `name_ok0_insufficient_*`. *)
From XSG.Model Require Import Strings UnicodeTables Chars Convert Necessity Element Render.
From XSG.Proofs Require Import StringsProofs ElementProofs.
From Coq Require Import Lia String Ascii DecimalString.
Open Scope list_scope.

(* ====================================================================== *)
(* 0. the boolean notions of legality (same as Corr/Oracles.v)             *)
(* ====================================================================== *)

Definition ident_chars_ok (x : str) : bool :=
  match x with
  | [] => false
  | c :: r => (xid_start c || (c =? us)) && forallb xid_continue r
  end.
Definition ident_ok (x : str) : bool :=
  ident_chars_ok x && negb (is_keyword x) && negb (str_eqb x [us]).
Definition shadowing : list str := map s ["String"; "Option"; "Vec"]%string.
Definition struct_name_ok (x : str) : bool := ident_ok x && negb (mem x shadowing).

(* ---------- the hypothesis on names ---------- *)
Definition case_closed (c : chr) : bool :=
  forallb in_sigma (to_lowercase c) && forallb in_sigma (to_uppercase c).
Definition name_char_ok (c : chr) : bool :=
  in_sigma c && case_closed c && (xid_continue c || (c =? 45) || (c =? 46) || (c =? 58)).  (* '-' '.' ':' *)
Definition first_alnum (x : str) : option chr := find is_alphanumeric x.
Definition name_ok (x : str) : bool :=
  forallb name_char_ok x && match first_alnum x with Some c => xid_start c | None => false end.

(* the hypothesis as first given (without case_closed): too weak, see the finding above *)
Definition name_char_ok0 (c : chr) : bool :=
  in_sigma c && (xid_continue c || (c =? 45) || (c =? 46) || (c =? 58)).
Definition name_ok0 (x : str) : bool :=
  forallb name_char_ok0 x && match first_alnum x with Some c => xid_start c | None => false end.

(* history: while Sigma was the bare range U+00A0..U+052F, 22 of its letters had a case image
   outside it (U+023A lowercases to U+2C65, U+0250 uppercases to U+2C6F), the model classified the
   image as "other" and these two evaluated to (true, false).  The table is now closed under the
   two case mappings (case_closed_sigma below), so the counterexamples are gone. *)
Example name_ok0_sufficient_snake :
  name_ok0 [570] = true /\ ident_chars_ok (to_snake_case [570]) = true.
Proof. vm_compute. split; reflexivity. Qed.
Example name_ok0_sufficient_pascal :
  name_ok0 [592] = true /\ ident_chars_ok (to_pascal_case [592]) = true.
Proof. vm_compute. split; reflexivity. Qed.

Definition hd_ok (P : chr -> bool) (x : str) : bool :=
  match x with [] => false | c :: _ => P c end.
Definition has_alnum (x : str) : bool := existsb is_alphanumeric x.
Definition has_us (x : str) : bool := existsb (N.eqb us) x.

(* ====================================================================== *)
(* 1. finite sweeps over Sigma                                             *)
(* ====================================================================== *)

Fixpoint tbl_keys (t : tbl) : list chr :=
  match t with TLeaf => [] | TNode l k _ r => tbl_keys l ++ k :: tbl_keys r end.
Definition sigma_points : list chr := map N.of_nat (seq 0 128) ++ tbl_keys unicode_table.

Lemma tbl_find_keys t c i : tbl_find t c = Some i -> In c (tbl_keys t).
Proof.
  induction t as [|l IHl k v r IHr]; cbn [tbl_find tbl_keys]; [discriminate|].
  destruct (N.ltb_spec c k) as [H1|H1].
  - intros H. apply in_or_app. left. now apply IHl.
  - destruct (N.ltb_spec k c) as [H2|H2].
    + intros H. apply in_or_app. right. right. now apply IHr.
    + intros _. apply in_or_app. right. left. lia.
Qed.

Lemma in_sigma_points c : in_sigma c = true -> In c sigma_points.
Proof.
  unfold in_sigma, is_ascii, sigma_points. intros H. apply in_or_app.
  destruct (N.ltb_spec c 128) as [Hc|Hc].
  - left. apply in_map_iff. exists (N.to_nat c). split; [apply N2Nat.id|]. apply in_seq. lia.
  - right. cbn [orb] in H. destruct (tbl_find unicode_table c) as [i|] eqn:E; [|discriminate].
    eapply tbl_find_keys; exact E.
Qed.

Lemma sweep (P : chr -> bool) :
  forallb P sigma_points = true -> forall c, in_sigma c = true -> P c = true.
Proof. intros H c Hc. rewrite forallb_forall in H. apply H, in_sigma_points, Hc. Qed.

(* Sigma is closed under the two case mappings *)
Lemma sweep_case_closed : forallb case_closed sigma_points = true.
Proof. vm_compute. reflexivity. Qed.
Lemma case_closed_sigma c : in_sigma c = true -> case_closed c = true.
Proof. intros H. pose proof sweep_case_closed as S. rewrite forallb_forall in S. apply S, in_sigma_points, H. Qed.
Lemma name_char_ok0_ok c : name_char_ok0 c = name_char_ok c.
Proof.
  unfold name_char_ok0, name_char_ok. destruct (in_sigma c) eqn:E; [|reflexivity].
  now rewrite (case_closed_sigma c E).
Qed.
Lemma name_ok0_ok x : name_ok0 x = name_ok x.
Proof.
  unfold name_ok0, name_ok. f_equal.
  induction x as [|c x IH]; [reflexivity|]. cbn [forallb]. now rewrite IH, name_char_ok0_ok.
Qed.


Definition fact_upper (c : chr) : bool := implb (is_uppercase c) (is_alphanumeric c).
Definition fact_alnum (c : chr) : bool :=
  implb (name_char_ok c && is_alphanumeric c)
        (xid_continue c
         && forallb xid_continue (to_lowercase c) && forallb xid_continue (to_uppercase c)
         && has_alnum (to_lowercase c)).
Definition fact_start (c : chr) : bool :=
  implb (name_char_ok c && xid_start c)
        (hd_ok xid_start (to_uppercase c) && hd_ok (fun h => negb (a_lower h)) (to_uppercase c)
         && hd_ok xid_start (to_lowercase c)).

Lemma sweep_upper : forallb fact_upper sigma_points = true.
Proof. vm_compute. reflexivity. Qed.
Lemma sweep_alnum : forallb fact_alnum sigma_points = true.
Proof. vm_compute. reflexivity. Qed.
Lemma sweep_start : forallb fact_start sigma_points = true.
Proof. vm_compute. reflexivity. Qed.

Lemma nco_sigma c : name_char_ok c = true -> in_sigma c = true.
Proof.
  unfold name_char_ok. intros H. apply andb_true_iff in H. destruct H as [H _].
  apply andb_true_iff in H. tauto.
Qed.

Lemma upper_alnum c : in_sigma c = true -> is_uppercase c = true -> is_alphanumeric c = true.
Proof.
  intros Hs Hu. pose proof (sweep _ sweep_upper c Hs) as H. unfold fact_upper in H.
  rewrite Hu in H. exact H.
Qed.

Lemma alnum_facts c : name_char_ok c = true -> is_alphanumeric c = true ->
  xid_continue c = true /\ forallb xid_continue (to_lowercase c) = true
  /\ forallb xid_continue (to_uppercase c) = true /\ has_alnum (to_lowercase c) = true.
Proof.
  intros H1 H2. pose proof (sweep _ sweep_alnum c (nco_sigma c H1)) as H.
  unfold fact_alnum in H. rewrite H1, H2 in H. cbn [andb implb] in H.
  rewrite !andb_true_iff in H. tauto.
Qed.

Lemma start_facts c : name_char_ok c = true -> xid_start c = true ->
  hd_ok xid_start (to_uppercase c) = true
  /\ hd_ok (fun h => negb (a_lower h)) (to_uppercase c) = true
  /\ hd_ok xid_start (to_lowercase c) = true.
Proof.
  intros H1 H2. pose proof (sweep _ sweep_start c (nco_sigma c H1)) as H.
  unfold fact_start in H. rewrite H1, H2 in H. cbn [andb implb] in H.
  rewrite !andb_true_iff in H. tauto.
Qed.

(* ASCII facts *)
Lemma xid_continue_us : xid_continue us = true.
Proof. vm_compute. reflexivity. Qed.
Lemma xid_start_us : xid_start us = false.
Proof. vm_compute. reflexivity. Qed.
Lemma name_char_ok_us : name_char_ok us = true.
Proof. vm_compute. reflexivity. Qed.
Lemma alnum_us : is_alphanumeric us = false.
Proof. vm_compute. reflexivity. Qed.
Lemma alnum_colon : is_alphanumeric colon = false.
Proof. vm_compute. reflexivity. Qed.

Lemma digit_continue c : a_digit c = true -> xid_continue c = true.
Proof.
  unfold a_digit, xid_continue, is_ascii. intros H.
  assert (Hlt : (c <? 128) = true).
  { apply andb_true_iff in H. destruct H as [_ H]. apply N.leb_le in H. apply N.ltb_lt. lia. }
  rewrite Hlt. unfold a_digit. rewrite H.
  rewrite orb_true_r. reflexivity.
Qed.

Lemma opt_us_cont (b : bool) : forallb xid_continue (if b then [us] else []) = true.
Proof. destruct b; cbn [forallb]; [rewrite xid_continue_us|]; reflexivity. Qed.

(* ---------- name_ok, unpacked ---------- *)
Lemma name_ok_inv x : name_ok x = true ->
  forallb name_char_ok x = true /\ exists c, first_alnum x = Some c /\ xid_start c = true.
Proof.
  unfold name_ok. intros H. apply andb_true_iff in H. destruct H as [H1 H2].
  split; [exact H1|]. destruct (first_alnum x) as [c|]; [|discriminate]. exists c. auto.
Qed.

Lemma first_alnum_in x c : first_alnum x = Some c -> In c x /\ is_alphanumeric c = true.
Proof. unfold first_alnum. apply find_some. Qed.

Lemma forallb_in {A} (P : A -> bool) l a : forallb P l = true -> In a l -> P a = true.
Proof. intros H. rewrite forallb_forall in H. apply H. Qed.

Lemma name_ok_has_alnum x : name_ok x = true -> has_alnum x = true.
Proof.
  intros H. destruct (name_ok_inv x H) as (_ & c & Hc & _).
  destruct (first_alnum_in x c Hc) as [Hi Ha].
  unfold has_alnum. apply existsb_exists. exists c. auto.
Qed.

(* ====================================================================== *)
(* 2. snake_case and to_valid_key                                          *)
(* ====================================================================== *)

Lemma snake_go_cont cs : forallb name_char_ok cs = true ->
  forall e lu lus, forallb xid_continue (snake_go cs e lu lus) = true.
Proof.
  induction cs as [|c r IH]; intros H e lu lus; [reflexivity|].
  cbn [forallb] in H. apply andb_true_iff in H. destruct H as [Hc Hr].
  cbn [snake_go]. destruct (is_uppercase c) eqn:Hu.
  - pose proof (upper_alnum c (nco_sigma c Hc) Hu) as Ha.
    destruct (alnum_facts c Hc Ha) as (_ & Hl & _).
    rewrite !forallb_app, opt_us_cont, Hl, (IH Hr). reflexivity.
  - destruct (is_alphanumeric c) eqn:Ha; cbn [negb].
    + destruct (alnum_facts c Hc Ha) as (Hx & _).
      cbn [forallb]. rewrite Hx, (IH Hr). reflexivity.
    + rewrite forallb_app, opt_us_cont, (IH Hr). reflexivity.
Qed.

Lemma snake_go_alnum cs : forallb name_char_ok cs = true -> has_alnum cs = true ->
  forall e lu lus, has_alnum (snake_go cs e lu lus) = true.
Proof.
  unfold has_alnum.
  induction cs as [|c r IH]; intros H Hex e lu lus; [discriminate|].
  cbn [forallb] in H. apply andb_true_iff in H. destruct H as [Hc Hr].
  cbn [existsb] in Hex. cbn [snake_go]. destruct (is_uppercase c) eqn:Hu.
  - pose proof (upper_alnum c (nco_sigma c Hc) Hu) as Ha.
    destruct (alnum_facts c Hc Ha) as (_ & _ & _ & Hl). unfold has_alnum in Hl.
    rewrite !existsb_app, Hl. rewrite orb_true_l, orb_true_r. reflexivity.
  - destruct (is_alphanumeric c) eqn:Ha; cbn [negb].
    + cbn [existsb]. rewrite Ha. reflexivity.
    + cbn [orb] in Hex. rewrite existsb_app, (IH Hr Hex). apply orb_true_r.
Qed.

Lemma snake_head x : name_ok x = true ->
  hd_ok (fun h => xid_start h || (h =? us)) (to_snake_case x) = true.
Proof.
  intros H. destruct (name_ok_inv x H) as (Hall & c0 & Hf & Hst).
  destruct x as [|c r]; [discriminate|].
  cbn [forallb] in Hall. apply andb_true_iff in Hall. destruct Hall as [Hc _].
  unfold first_alnum in Hf. cbn [find] in Hf.
  unfold to_snake_case. cbn [snake_go]. destruct (is_uppercase c) eqn:Hu.
  - pose proof (upper_alnum c (nco_sigma c Hc) Hu) as Ha. rewrite Ha in Hf.
    injection Hf as <-. destruct (start_facts c Hc Hst) as (_ & _ & Hl).
    cbn [negb andb app]. destruct (to_lowercase c) as [|h t]; [discriminate|].
    cbn [hd_ok] in Hl. cbn [app hd_ok]. rewrite Hl. reflexivity.
  - destruct (is_alphanumeric c) eqn:Ha; cbn [negb].
    + injection Hf as <-. cbn [hd_ok]. rewrite Hst. reflexivity.
    + cbn [app hd_ok]. rewrite N.eqb_refl. apply orb_true_r.
Qed.

Lemma chars_ok_intro x :
  hd_ok (fun h => xid_start h || (h =? us)) x = true -> forallb xid_continue x = true ->
  ident_chars_ok x = true.
Proof.
  destruct x as [|h t]; [discriminate|]. cbn [hd_ok forallb ident_chars_ok].
  intros H1 H2. apply andb_true_iff in H2. destruct H2 as [_ H2]. rewrite H1, H2. reflexivity.
Qed.

Lemma chars_ok_app a b :
  ident_chars_ok a = true -> forallb xid_continue b = true -> ident_chars_ok (a ++ b) = true.
Proof.
  destruct a as [|h t]; [discriminate|]. cbn [app ident_chars_ok].
  intros H Hb. apply andb_true_iff in H. destruct H as [H1 H2].
  rewrite H1, forallb_app, H2, Hb. reflexivity.
Qed.

Lemma chars_ok_nonnil x : ident_chars_ok x = true -> x <> [].
Proof. destruct x; [discriminate|congruence]. Qed.

Theorem snake_chars_ok x : name_ok x = true -> ident_chars_ok (to_snake_case x) = true.
Proof.
  intros H. apply chars_ok_intro; [apply snake_head, H|].
  apply snake_go_cont. apply (name_ok_inv x H).
Qed.

Theorem snake_has_alnum x : name_ok x = true -> has_alnum (to_snake_case x) = true.
Proof.
  intros H. apply snake_go_alnum; [apply (name_ok_inv x H)|apply name_ok_has_alnum, H].
Qed.

Lemma has_alnum_not_us x : has_alnum x = true -> str_eqb x [us] = false.
Proof.
  intros H. destruct (str_eqb_spec x [us]) as [->|ne]; [|reflexivity].
  unfold has_alnum in H. cbn [existsb] in H. rewrite alnum_us in H. discriminate.
Qed.

(* the ':' -> '_' substitution of to_valid_key keeps names acceptable *)
Definition subst_colon (x : str) : str := map (fun c => if c =? colon then us else c) x.

Lemma subst_colon_first x : first_alnum (subst_colon x) = first_alnum x.
Proof.
  unfold first_alnum, subst_colon. induction x as [|c r IH]; [reflexivity|].
  cbn [map find]. destruct (N.eqb_spec c colon) as [->|ne].
  - rewrite alnum_us, alnum_colon. exact IH.
  - rewrite IH. reflexivity.
Qed.

Lemma subst_colon_chars x : forallb name_char_ok x = true -> forallb name_char_ok (subst_colon x) = true.
Proof.
  unfold subst_colon. induction x as [|c r IH]; [reflexivity|].
  cbn [map forallb]. intros H. apply andb_true_iff in H. destruct H as [Hc Hr].
  rewrite (IH Hr), andb_true_r. destruct (c =? colon); [apply name_char_ok_us|exact Hc].
Qed.

Lemma subst_colon_ok x : name_ok x = true -> name_ok (subst_colon x) = true.
Proof.
  intros H. destruct (name_ok_inv x H) as (Hall & c & Hf & Hst).
  unfold name_ok. rewrite (subst_colon_chars x Hall), subst_colon_first, Hf. exact Hst.
Qed.

(* no keyword contains '_' *)
Lemma keywords_no_underscore : forallb (fun k => negb (has_us k)) keywords = true.
Proof. vm_compute. reflexivity. Qed.

Lemma has_us_not_keyword x : has_us x = true -> is_keyword x = false.
Proof.
  intros H. destruct (is_keyword x) eqn:Hk; [|reflexivity].
  unfold is_keyword in Hk. apply mem_spec in Hk.
  pose proof (forallb_in _ _ _ keywords_no_underscore Hk) as Hn. cbn beta in Hn.
  rewrite H in Hn. discriminate.
Qed.

Lemma ident_ok_intro x :
  ident_chars_ok x = true -> is_keyword x = false -> str_eqb x [us] = false -> ident_ok x = true.
Proof. unfold ident_ok. intros -> -> ->. reflexivity. Qed.

Lemma ident_ok_inv x : ident_ok x = true ->
  ident_chars_ok x = true /\ is_keyword x = false /\ str_eqb x [us] = false.
Proof.
  unfold ident_ok. intros H. apply andb_true_iff in H. destruct H as [H H3].
  apply andb_true_iff in H. destruct H as [H1 H2].
  apply negb_true_iff in H2. apply negb_true_iff in H3. auto.
Qed.

(* appending "_" and identifier characters to an identifier gives an identifier *)
Lemma ident_ok_app_us k b :
  ident_chars_ok k = true -> forallb xid_continue b = true -> ident_ok (k ++ us :: b) = true.
Proof.
  intros Hk Hb. apply ident_ok_intro.
  - apply chars_ok_app; [exact Hk|]. cbn [forallb]. rewrite xid_continue_us, Hb. reflexivity.
  - apply has_us_not_keyword. unfold has_us. rewrite existsb_app. cbn [existsb].
    rewrite N.eqb_refl. cbn [orb]. apply orb_true_r.
  - destruct (str_eqb_spec (k ++ us :: b) [us]) as [E|ne]; [|reflexivity].
    apply (f_equal (@List.length chr)) in E. rewrite app_length in E. cbn [List.length] in E.
    pose proof (chars_ok_nonnil k Hk) as Hn. destruct k; [congruence|]. cbn [List.length] in E. lia.
Qed.

Theorem valid_key_chars_ok x : name_ok x = true ->
  ident_chars_ok (to_snake_case (subst_colon x)) = true
  /\ has_alnum (to_snake_case (subst_colon x)) = true.
Proof.
  intros H. split; [apply snake_chars_ok|apply snake_has_alnum]; apply subst_colon_ok, H.
Qed.

Theorem valid_key_ok x p : name_ok x = true -> name_ok p = true -> ident_ok (to_valid_key x p) = true.
Proof.
  intros Hx Hp. unfold to_valid_key. fold (subst_colon x).
  destruct (valid_key_chars_ok x Hx) as [H1 H2].
  cbv zeta. destruct (is_keyword (to_snake_case (subst_colon x))) eqn:Hk.
  - cbn [app]. apply ident_ok_app_us; [apply snake_chars_ok, Hp|].
    apply snake_go_cont. apply (name_ok_inv _ (subst_colon_ok x Hx)).
  - apply ident_ok_intro; [exact H1|exact Hk|apply has_alnum_not_us, H2].
Qed.

(* ====================================================================== *)
(* 3. decimal suffixes, create_unused_name, id_new                         *)
(* ====================================================================== *)

Lemma s_cons (a : ascii) (r : string) : s (String a r) = N_of_ascii a :: s r.
Proof. reflexivity. Qed.

Lemma uint_digits_ne (d : Decimal.uint) : forallb a_digit (s (NilEmpty.string_of_uint d)) = true.
Proof.
  induction d as [|d IH|d IH|d IH|d IH|d IH|d IH|d IH|d IH|d IH|d IH];
    cbn [NilEmpty.string_of_uint]; [reflexivity|..];
    rewrite s_cons; cbn [forallb]; rewrite IH; reflexivity.
Qed.

Lemma uint_digits (d : Decimal.uint) : forallb a_digit (s (NilZero.string_of_uint d)) = true.
Proof.
  destruct d; unfold NilZero.string_of_uint; [reflexivity|..]; apply uint_digits_ne.
Qed.

Lemma dec_digits n : forallb a_digit (dec n) = true.
Proof. unfold dec. apply uint_digits. Qed.

Lemma dec_continue n : forallb xid_continue (dec n) = true.
Proof.
  pose proof (dec_digits n) as H. apply forallb_forall. intros c Hc.
  apply digit_continue. exact (forallb_in _ _ _ H Hc).
Qed.

(* shape of the result of the renaming loop *)
Lemma unused_loop_shape fuel : forall i name sep res,
  (i = 0%nat /\ unused_loop fuel i name sep res = name)
  \/ exists j, unused_loop fuel i name sep res = name ++ sep ++ dec j.
Proof.
  induction fuel as [|f IH]; intros i name sep res; cbn [unused_loop].
  - destruct i as [|i']; [left; auto|right; eexists; reflexivity].
  - destruct (mem _ res).
    + destruct (IH (S i) name sep res) as [[E _]|[j E]]; [discriminate|]. right. exists j. exact E.
    + destruct i as [|i']; [left; auto|right; eexists; reflexivity].
Qed.

Lemma ident_ok_text : ident_ok (s "text") = true.
Proof. vm_compute. reflexivity. Qed.
Lemma ident_ok_text_content : ident_ok (s "text_content") = true.
Proof. vm_compute. reflexivity. Qed.
Lemma attr_suffix_continue : forallb xid_continue (s "attr") = true.
Proof. vm_compute. reflexivity. Qed.

Theorem field_ident_ok r k t :
  ident_ok k = true -> ident_ok (fst (create_unused_name r k t)) = true.
Proof.
  intros Hk. unfold create_unused_name. cbv zeta. cbn [fst].
  match goal with |- ident_ok (unused_loop _ _ ?n1 _ _) = true => set (name1 := n1) end.
  assert (H1 : ident_ok name1 = true).
  { subst name1. destruct (idty_eqb t TText && str_eqb k (s "text") && mem k r).
    - exact ident_ok_text_content.
    - destruct (idty_eqb t TAttr && mem k r && negb (ends_with k (s "_attr"))); [|exact Hk].
      change (s "_attr") with (us :: s "attr").
      apply ident_ok_app_us; [apply (ident_ok_inv k Hk)|exact attr_suffix_continue]. }
  clearbody name1.
  destruct (unused_loop_shape (S (List.length r)) 0 name1 [us] r) as [[_ E]|[j E]]; rewrite E.
  - exact H1.
  - cbn [app]. apply ident_ok_app_us; [apply (ident_ok_inv name1 H1)|apply dec_continue].
Qed.

(* the two folds of id_new *)
Lemma fold_ids_ok {A} (key real : A -> str) (t : idty) (l : list A) :
  forall (m : idmap) (r : list str) m' r',
  fold_left (fun '(m, r) c =>
               let '(u, r') := create_unused_name r (key c) t in
               (m ++ [((real c, t), u)], r')) l (m, r) = (m', r') ->
  Forall (fun kv => ident_ok (snd kv) = true) m ->
  Forall (fun c => ident_ok (key c) = true) l ->
  Forall (fun kv => ident_ok (snd kv) = true) m'.
Proof.
  induction l as [|a l IH]; intros m r m' r' E Hm Hl; cbn [fold_left] in E.
  - injection E as <- _. exact Hm.
  - inversion Hl as [|? ? Ha Hl']; subst.
    destruct (create_unused_name r (key a) t) as [u r1] eqn:Eu.
    apply (IH _ _ _ _ E); [|exact Hl'].
    apply Forall_app. split; [exact Hm|]. constructor; [|constructor]. cbn [snd].
    replace u with (fst (create_unused_name r (key a) t)) by (rewrite Eu; reflexivity).
    apply field_ident_ok, Ha.
Qed.

Theorem id_new_idents_ok e :
  name_ok (ename e) = true ->
  Forall (fun c => name_ok (ename (snd c)) = true) (echildren e) ->
  Forall (fun a => name_ok (snd a) = true) (eattrs e) ->
  Forall (fun kv => ident_ok (snd kv) = true) (id_new e).
Proof.
  intros Hn Hch Hat. unfold id_new. cbv zeta.
  match goal with |- context [fold_left ?F (echildren e) ?i] =>
    destruct (fold_left F (echildren e) i) as [m1 r1] eqn:E1 end.
  match goal with |- context [fold_left ?F (eattrs e) ?i] =>
    destruct (fold_left F (eattrs e) i) as [m2 r2] eqn:E2 end.
  destruct (create_unused_name r2 (s "text") TText) as [u r3] eqn:E3.
  assert (H1 : Forall (fun kv => ident_ok (snd kv) = true) m1).
  { apply (fold_ids_ok (fun c : nec * element => to_valid_key (ename (snd c)) (ename e))
                       (fun c => ename (snd c)) TChild (echildren e) [] [] m1 r1 E1).
    - constructor.
    - eapply Forall_impl; [|exact Hch]. cbn beta. intros c Hc. apply valid_key_ok; assumption. }
  assert (H2 : Forall (fun kv => ident_ok (snd kv) = true) m2).
  { apply (fold_ids_ok (fun a : nec * str => to_valid_key (snd a) (ename e))
                       (fun a => snd a) TAttr (eattrs e) m1 r1 m2 r2 E2).
    - exact H1.
    - eapply Forall_impl; [|exact Hat]. cbn beta. intros a Ha. apply valid_key_ok; assumption. }
  apply Forall_app. split; [exact H2|]. constructor; [|constructor]. cbn [snd].
  replace u with (fst (create_unused_name r2 (s "text") TText)) by (rewrite E3; reflexivity).
  apply field_ident_ok, ident_ok_text.
Qed.

(* ---------- the whole tree ---------- *)
Fixpoint tree_names_ok (e : element) : bool :=
  match e with
  | Elem n _ _ _ a ch _ =>
      name_ok n && forallb (fun x => name_ok (snd x)) a
      && (fix go (cs : list (nec * element)) : bool :=
            match cs with [] => true | c :: r => tree_names_ok (snd c) && go r end) ch
  end.

Lemma tree_names_ok_eq e :
  tree_names_ok e =
  name_ok (ename e) && forallb (fun x => name_ok (snd x)) (eattrs e)
  && forallb (fun c => tree_names_ok (snd c)) (echildren e).
Proof.
  (* the inner fix is forallb, unfolded *)
  destruct e as [n t x k a ch p]. reflexivity.
Qed.

Inductive subnode : element -> element -> Prop :=
| sub_here : forall e, subnode e e
| sub_child : forall x c e, In c (echildren e) -> subnode x (snd c) -> subnode x e.

Lemma tree_names_ok_sub x e : subnode x e -> tree_names_ok e = true -> tree_names_ok x = true.
Proof.
  induction 1 as [e|x c e Hin _ IH]; intros H; [exact H|].
  apply IH. rewrite tree_names_ok_eq in H. apply andb_true_iff in H. destruct H as [_ H].
  exact (forallb_in _ _ _ H Hin).
Qed.

Theorem field_idents_legal_tree e : tree_names_ok e = true ->
  forall x, subnode x e -> forall kv, In kv (id_new x) -> ident_ok (snd kv) = true.
Proof.
  intros He x Hx kv Hkv. pose proof (tree_names_ok_sub x e Hx He) as H.
  rewrite tree_names_ok_eq in H. apply andb_true_iff in H. destruct H as [H H3].
  apply andb_true_iff in H. destruct H as [H1 H2].
  assert (HF : Forall (fun kv => ident_ok (snd kv) = true) (id_new x)).
  { apply id_new_idents_ok; [exact H1| |].
    - apply Forall_forall. intros c Hc. pose proof (forallb_in _ _ _ H3 Hc) as Hc'. cbn beta in Hc'.
      rewrite tree_names_ok_eq in Hc'. apply andb_true_iff in Hc'. destruct Hc' as [Hc' _].
      apply andb_true_iff in Hc'. tauto.
    - apply Forall_forall. intros a Ha. exact (forallb_in _ _ _ H2 Ha). }
  rewrite Forall_forall in HF. apply HF, Hkv.
Qed.

(* ====================================================================== *)
(* 4. PascalCase and struct names                                          *)
(* ====================================================================== *)

Lemma pascal_go_cont cs : forallb name_char_ok cs = true ->
  forall cn lu, forallb xid_continue (pascal_go cs cn lu) = true.
Proof.
  induction cs as [|c r IH]; intros H cn lu; [reflexivity|].
  cbn [forallb] in H. apply andb_true_iff in H. destruct H as [Hc Hr].
  cbn [pascal_go]. destruct (is_alphanumeric c) eqn:Ha; [|apply IH, Hr].
  destruct (alnum_facts c Hc Ha) as (_ & Hl & Hup & _).
  destruct (cn || (is_uppercase c && negb lu)); rewrite forallb_app, (IH Hr), andb_true_r; assumption.
Qed.

Lemma pascal_go_head cs : forall c lu, first_alnum cs = Some c ->
  exists rest, pascal_go cs true lu = to_uppercase c ++ rest.
Proof.
  unfold first_alnum. induction cs as [|c0 r IH]; intros c lu Hf; [discriminate|].
  cbn [find] in Hf. cbn [pascal_go]. destruct (is_alphanumeric c0).
  - injection Hf as <-. cbn [orb]. eexists. reflexivity.
  - apply IH, Hf.
Qed.

Theorem pascal_head x : name_ok x = true ->
  exists h t, to_pascal_case x = h :: t /\ xid_start h = true /\ a_lower h = false
              /\ forallb xid_continue t = true.
Proof.
  intros H. destruct (name_ok_inv x H) as (Hall & c & Hf & Hst).
  destruct (first_alnum_in x c Hf) as [Hin _].
  pose proof (forallb_in _ _ _ Hall Hin) as Hc.
  destruct (start_facts c Hc Hst) as (Hu1 & Hu2 & _).
  pose proof (pascal_go_cont x Hall true false) as Hcont. fold (to_pascal_case x) in Hcont.
  destruct (pascal_go_head x c false Hf) as [rest E]. fold (to_pascal_case x) in E.
  destruct (to_uppercase c) as [|h t]; [discriminate|].
  cbn [hd_ok] in Hu1, Hu2. cbn [app] in E. rewrite E in Hcont |- *.
  exists h, (t ++ rest). cbn [forallb] in Hcont. apply andb_true_iff in Hcont.
  apply negb_true_iff in Hu2. tauto.
Qed.

Theorem pascal_chars_ok x : name_ok x = true -> ident_chars_ok (to_pascal_case x) = true.
Proof.
  intros H. destruct (pascal_head x H) as (h & t & E & H1 & _ & H3).
  rewrite E. cbn [ident_chars_ok]. rewrite H1, H3. reflexivity.
Qed.

(* every keyword except Self starts with an ASCII lowercase letter *)
Lemma keywords_lowercase_or_Self :
  forallb (fun k => hd_ok a_lower k || str_eqb k (s "Self")) keywords = true.
Proof. vm_compute. reflexivity. Qed.

Lemma keyword_inv x : is_keyword x = true -> hd_ok a_lower x = true \/ x = s "Self".
Proof.
  unfold is_keyword. intros H. apply mem_spec in H.
  pose proof (forallb_in _ _ _ keywords_lowercase_or_Self H) as Hk. cbn beta in Hk.
  apply orb_true_iff in Hk. destruct Hk as [Hk|Hk]; [left; exact Hk|right].
  apply str_eqb_eq, Hk.
Qed.

Theorem pascal_not_keyword x : name_ok x = true ->
  is_keyword (to_pascal_case x) = true -> to_pascal_case x = s "Self".
Proof.
  intros H Hk. destruct (keyword_inv _ Hk) as [Hl|E]; [|exact E].
  destruct (pascal_head x H) as (h & t & E & _ & H2 & _). rewrite E in Hl. cbn [hd_ok] in Hl.
  congruence.
Qed.

Definition lastn {A} (m : nat) (l : list A) : list A := skipn (List.length l - m) l.

Lemma pascal_concat_cont q : Forall (fun x => name_ok x = true) q ->
  forallb xid_continue (List.concat (map to_pascal_case q)) = true.
Proof.
  induction 1 as [|x q Hx _ IH]; [reflexivity|].
  cbn [map List.concat]. rewrite forallb_app, IH, andb_true_r.
  apply pascal_go_cont. apply (name_ok_inv x Hx).
Qed.

Lemma In_skipn {A} n (l : list A) a : In a (skipn n l) -> In a l.
Proof. intros H. rewrite <- (firstn_skipn n l). apply in_app_iff. right. exact H. Qed.

Theorem struct_name_legal pth m sfx u :
  Forall (fun x => name_ok x = true) pth ->
  ~ In u reserved_struct_names ->
  u = List.concat (map to_pascal_case (lastn m pth)) ++ sfx ->
  (sfx = [] \/ exists j, sfx = dec j) ->
  (1 <= m <= List.length pth)%nat ->
  struct_name_ok u = true.
Proof.
  intros Hp Hres Eu Hsfx Hm.
  assert (Hs : forallb xid_continue sfx = true).
  { destruct Hsfx as [->|[j ->]]; [reflexivity|apply dec_continue]. }
  assert (Hq : Forall (fun x => name_ok x = true) (lastn m pth)).
  { apply Forall_forall. intros a Ha. rewrite Forall_forall in Hp. apply Hp.
    unfold lastn in Ha. eapply In_skipn, Ha. }
  assert (Hlen : List.length (lastn m pth) = m).
  { unfold lastn. rewrite skipn_length. lia. }
  destruct (lastn m pth) as [|x0 q]; [cbn [List.length] in Hlen; lia|].
  inversion Hq as [|? ? Hx0 Hq']; subst x l.
  destruct (pascal_head x0 Hx0) as (h & t & E & H1 & H2 & H3).
  cbn [map List.concat] in Eu. rewrite E in Eu. cbn [app] in Eu.
  assert (Hc : ident_chars_ok u = true).
  { rewrite Eu. cbn [ident_chars_ok]. rewrite H1. cbn [orb andb].
    rewrite <- app_assoc, !forallb_app, H3, Hs, (pascal_concat_cont q Hq'). reflexivity. }
  unfold struct_name_ok. apply andb_true_iff. split.
  - apply ident_ok_intro; [exact Hc| |].
    + destruct (is_keyword u) eqn:Hk; [|reflexivity].
      destruct (keyword_inv u Hk) as [Hl|ES].
      * rewrite Eu in Hl. cbn [hd_ok] in Hl. congruence.
      * exfalso. apply Hres. rewrite ES. left. reflexivity.
    + destruct (str_eqb_spec u [us]) as [E1|ne]; [|reflexivity].
      rewrite Eu in E1. injection E1 as -> _. rewrite xid_start_us in H1. discriminate.
  - apply negb_true_iff. apply mem_false. intros Hin. apply Hres. right. exact Hin.
Qed.

(* the same, on one step of fill_struct_names: the candidate is expand_name on the trace of
   PascalCase names along the path, the loop appends a decimal suffix; `1 <= n` (the name hint
   is positive) is Task D2's theorem, freshness w.r.t. the reserved names is
   unused_loop_fresh (IdentProofs) *)
Theorem struct_step_legal e pth h res n :
  Forall (fun x => name_ok x = true) (pth ++ [ename e]) ->
  hint_get h (formatted_name e) = Some n -> (1 <= n)%nat ->
  let u := unused_loop (S (List.length res)) 0
                       (expand_name e (map to_pascal_case (pth ++ [ename e])) h) [] res in
  ~ In u reserved_struct_names -> struct_name_ok u = true.
Proof.
  intros Hp Hh Hn u Hres. set (P := pth ++ [ename e]) in *.
  assert (HP : (1 <= List.length P)%nat).
  { subst P. rewrite app_length. cbn [List.length]. lia. }
  assert (Ex : expand_name e (map to_pascal_case P) h
               = List.concat (map to_pascal_case (lastn (Nat.min n (List.length P)) P))).
  { unfold expand_name. rewrite Hh, map_length, skipn_map. unfold lastn.
    replace (List.length P - Nat.min n (List.length P))%nat with (List.length P - n)%nat by lia.
    reflexivity. }
  destruct (unused_loop_shape (S (List.length res)) 0
              (expand_name e (map to_pascal_case P) h) [] res) as [[_ E]|[j E]].
  - apply (struct_name_legal P (Nat.min n (List.length P)) [] u Hp Hres).
    + subst u. rewrite E, Ex, app_nil_r. reflexivity.
    + left. reflexivity.
    + lia.
  - apply (struct_name_legal P (Nat.min n (List.length P)) (dec j) u Hp Hres).
    + subst u. rewrite E, Ex. reflexivity.
    + right. exists j. reflexivity.
    + lia.
Qed.

(* ---------- the keyword list is complete (Rust 2021 strict + reserved, plus `try`) ---------- *)
Definition rust_keywords : list str := map s
 ["as";"break";"const";"continue";"crate";"else";"enum";"extern";"false";"fn";"for";"if";"impl";
  "in";"let";"loop";"match";"mod";"move";"mut";"pub";"ref";"return";"self";"Self";"static";
  "struct";"super";"trait";"true";"type";"unsafe";"use";"where";"while";"async";"await";"dyn";
  "abstract";"become";"box";"do";"final";"macro";"override";"priv";"typeof";"unsized";"virtual";
  "yield";"try"]%string.

Theorem keywords_complete : forall k, In k rust_keywords -> is_keyword k = true.
Proof.
  assert (H : forallb is_keyword rust_keywords = true) by (vm_compute; reflexivity).
  intros k Hk. exact (forallb_in _ _ _ H Hk).
Qed.

(* ====================================================================== *)
(* 5. the hypotheses are satisfiable                                       *)
(* ====================================================================== *)

(* "xs:Über-2.El_a", prefix "ß-Type"; the keyword case: "type" under "Ab" *)
Definition ex_name : str := s "xs:" ++ [220] ++ s "ber-2.El_a".
Definition ex_prefix : str := [223] ++ s "-Type".
Example ex_name_ok : name_ok ex_name = true /\ name_ok ex_prefix = true /\ name_ok (s "type") = true.
Proof. vm_compute. repeat split; reflexivity. Qed.
Example ex_valid_key :
  to_valid_key ex_name ex_prefix = s "xs_" ++ [252] ++ s "ber_2_el_a"
  /\ to_valid_key (s "type") ex_prefix = [223] ++ s "_type_type"
  /\ ident_ok (to_valid_key ex_name ex_prefix) = true.
Proof. vm_compute. repeat split; reflexivity. Qed.
Example ex_pascal :
  to_pascal_case ex_name = s "Xs" ++ [220] ++ s "ber2ElA" /\ to_pascal_case ex_prefix = s "SSType".
Proof. vm_compute. split; reflexivity. Qed.

Definition ex_tree : element :=
  Elem (s "a:Root") false true 1 [(Mand, s "xml:lang"); (Opt, s "type")]
       [(Mand, Elem (s "type") true true 1 [] [] (Some 0%nat));
        (Opt, Elem (s "Type") true false 2 [(Mand, s "text")]
                   [(Mand, Elem ex_name true true 1 [] [] (Some 0%nat))] (Some 1%nat))]
       None.
Example ex_tree_ok : tree_names_ok ex_tree = true.
Proof. vm_compute. reflexivity. Qed.
Example ex_tree_idents :
  map snd (id_new ex_tree) = [s "a_root_type"; s "a_root_type_1"; s "xml_lang"; s "a_root_type_attr"; s "text"].
Proof. vm_compute. reflexivity. Qed.

Example ex_struct_name :
  let pth := [s "a:Root"; s "Type"; ex_name] in
  let u := List.concat (map to_pascal_case (lastn 2 pth)) ++ dec 3 in
  Forall (fun x => name_ok x = true) pth /\ ~ In u reserved_struct_names
  /\ u = s "TypeXs" ++ [220] ++ s "ber2ElA3" /\ struct_name_ok u = true.
Proof.
  cbv zeta. split; [|split; [|split]].
  - repeat constructor.
  - vm_compute. intros [H|[H|[H|[H|[]]]]]; discriminate.
  - vm_compute. reflexivity.
  - vm_compute. reflexivity.
Qed.

(* one step of the struct-name table: <string> under <a:Root> collides with the reserved
   `String` and becomes `String1` *)
Example ex_struct_step :
  let e := Elem (s "string") true true 1 [(Mand, s "id")] [] None in
  let pth := [s "a:Root"] in
  let h := [(s "String", 1%nat); (s "ARoot", 1%nat)] in
  let u := unused_loop (S (List.length reserved_struct_names)) 0
             (expand_name e (map to_pascal_case (pth ++ [ename e])) h) [] reserved_struct_names in
  Forall (fun x => name_ok x = true) (pth ++ [ename e])
  /\ hint_get h (formatted_name e) = Some 1%nat
  /\ ~ In u reserved_struct_names /\ u = s "String1" /\ struct_name_ok u = true.
Proof.
  cbv zeta. split; [|split; [|split; [|split]]].
  - repeat constructor.
  - vm_compute. reflexivity.
  - vm_compute. intros [H|[H|[H|[H|[]]]]]; discriminate.
  - vm_compute. reflexivity.
  - vm_compute. reflexivity.
Qed.

(* the side conditions of struct_name_legal are needed: without freshness w.r.t. the reserved
   names <self> gives the keyword `Self` and <string> shadows `String`; with a name hint 0 the
   candidate is the empty string *)
Example reserved_hyp_needed :
  name_ok (s "self") = true /\ struct_name_ok (to_pascal_case (s "self")) = false
  /\ name_ok (s "string") = true /\ struct_name_ok (to_pascal_case (s "string")) = false.
Proof. vm_compute. repeat split; reflexivity. Qed.
Example hint_positive_needed :
  let e := Elem (s "a") true true 1 [] [] None in
  struct_name_ok (unused_loop 5 0 (expand_name e [s "A"] [(s "A", 0%nat)]) [] reserved_struct_names) = false.
Proof. vm_compute. reflexivity. Qed.
