(* The rendering reflects exactly the tree (C03 / C16 render clause).
   `Corr/Oracles.v` defines the boolean oracle `reflects_b` which the differential check applies
   to the struct definitions parsed back from the REAL implementation's output.  Here it is
   proved true of the model's own output, for every tree, every option value, every name table:
   the struct of every node has exactly one String field per attribute (bound to
   prefix ++ local name, `Option` iff the attribute is optional), a text field iff `etext`,
   one field per child (bound to the local name, wrapper `child_wrap standalone tag`, typed
   String iff the child is text-only, otherwise typed with the name of the struct rendered next
   for that child), in output order, and nothing else.
   This file is the one exception to "Proofs do not import Corr". *)
From Coq Require Import String Lia Permutation.
From XSG.Model Require Import Strings Chars Convert Necessity Element Render.
From XSG.Proofs Require Import StringsProofs ElementProofs RenderProofs.
From XSG.Corr Require Import Common Oracles.
(* `bound`, `erase_field`, `erase_bindings` exist both in RenderProofs and in Oracles:
   they are always written qualified below. *)

(* ====================================================================== *)
(* 1. generic list facts                                                   *)
(* ====================================================================== *)
Lemma firstn_length_app {A} (a b : list A) : firstn (List.length a) (a ++ b) = a.
Proof. induction a as [|x a IH]; [destruct b; reflexivity|]. cbn [List.length app firstn]. now rewrite IH. Qed.

Lemma skipn_length_app {A} (a b : list A) : skipn (List.length a) (a ++ b) = b.
Proof. induction a as [|x a IH]; [reflexivity|]. cbn [List.length app skipn]. exact IH. Qed.

Lemma skipn_add {A} (a b : nat) (l : list A) : skipn (a + b) l = skipn b (skipn a l).
Proof.
  revert l. induction a as [|a IH]; intros l; [reflexivity|].
  destruct l as [|x l]; [now destruct b|]. cbn [Nat.add skipn]. apply IH.
Qed.

Lemma forall2b_map {A B C} (f : B -> C -> bool) (h : A -> B) (g : A -> C) (l : list A) :
  (forall x, f (h x) (g x) = true) -> forall2b f (map h l) (map g l) = true.
Proof.
  intros H. induction l as [|x l IH]; [reflexivity|].
  cbn [map forall2b]. now rewrite H, IH.
Qed.

Lemma forall2b_map_r {A C} (f : A -> C -> bool) (g : A -> C) (l : list A) :
  (forall x, f x (g x) = true) -> forall2b f l (map g l) = true.
Proof. intros H. rewrite <- (map_id l) at 1. now apply forall2b_map. Qed.

Lemma is_nil_insert {A} (leb : A -> A -> bool) x l : is_nil (insert leb x l) = false.
Proof. destruct l as [|y l]; [reflexivity|]. cbn [insert]. now destruct (leb x y). Qed.

Lemma is_nil_isort {A} (leb : A -> A -> bool) l : is_nil (isort leb l) = is_nil l.
Proof.
  destruct l as [|x l]; [reflexivity|].
  cbn [isort fold_right]. apply is_nil_insert.
Qed.

Lemma is_nil_map {A B} (f : A -> B) l : is_nil (map f l) = is_nil l.
Proof. now destruct l. Qed.

(* sorting commutes with a map that the comparison does not see *)
Lemma insert_map_compat {A B} (lebA : A -> A -> bool) (lebB : B -> B -> bool) (g : A -> B) :
  (forall a b, lebB (g a) (g b) = lebA a b) ->
  forall x l, insert lebB (g x) (map g l) = map g (insert lebA x l).
Proof.
  intros H x l. induction l as [|y l IH]; [reflexivity|].
  cbn [map insert]. rewrite H. destruct (lebA x y); [reflexivity|].
  cbn [map]. now rewrite IH.
Qed.

Lemma isort_map_compat {A B} (lebA : A -> A -> bool) (lebB : B -> B -> bool) (g : A -> B) :
  (forall a b, lebB (g a) (g b) = lebA a b) ->
  forall l, isort lebB (map g l) = map g (isort lebA l).
Proof.
  intros H l. induction l as [|x l IH]; [reflexivity|].
  cbn [map isort fold_right]. fold (isort lebB (map g l)). fold (isort lebA l).
  rewrite IH. now apply insert_map_compat.
Qed.

Lemma length_flat_map_insert {A B} (leb : A -> A -> bool) (f : A -> list B) x l :
  List.length (flat_map f (insert leb x l)) = (List.length (f x) + List.length (flat_map f l))%nat.
Proof.
  induction l as [|y l IH]; [cbn [insert flat_map]; now rewrite app_length|].
  cbn [insert]. destruct (leb x y); [cbn [flat_map]; now rewrite !app_length|].
  cbn [flat_map]. rewrite !app_length, IH. lia.
Qed.

Lemma length_flat_map_isort {A B} (leb : A -> A -> bool) (f : A -> list B) l :
  List.length (flat_map f (isort leb l)) = List.length (flat_map f l).
Proof.
  induction l as [|x l IH]; [reflexivity|].
  cbn [isort fold_right]. fold (isort leb l).
  rewrite length_flat_map_insert. cbn [flat_map]. rewrite app_length, IH. reflexivity.
Qed.

(* ====================================================================== *)
(* 2. the hereditarily sorted copy of a tree                               *)
(* ====================================================================== *)
Section SortTree.
  Context (leb : nec * element -> nec * element -> bool).

  Definition st_child (c : nec * element) : nec * element := (fst c, sort_tree_by leb (snd c)).

  Lemma sort_tree_by_unfold e :
    sort_tree_by leb e
    = Elem (ename e) (etext e) (estandalone e) (ecount e) (eattrs e)
           (isort leb (map st_child (echildren e))) (epos e).
  Proof.
    (* the local `go` of sort_tree_by is `map st_child`, by computation *)
    destruct e as [n t x k a ch p]. reflexivity.
  Qed.

  Lemma ename_sort_tree_by e : ename (sort_tree_by leb e) = ename e.
  Proof. now rewrite sort_tree_by_unfold. Qed.
  Lemma epos_sort_tree_by e : epos (sort_tree_by leb e) = epos e.
  Proof. now rewrite sort_tree_by_unfold. Qed.
  Lemma eattrs_sort_tree_by e : eattrs (sort_tree_by leb e) = eattrs e.
  Proof. now rewrite sort_tree_by_unfold. Qed.
  Lemma etext_sort_tree_by e : etext (sort_tree_by leb e) = etext e.
  Proof. now rewrite sort_tree_by_unfold. Qed.
  Lemma estandalone_sort_tree_by e : estandalone (sort_tree_by leb e) = estandalone e.
  Proof. now rewrite sort_tree_by_unfold. Qed.
  Lemma ecount_sort_tree_by e : ecount (sort_tree_by leb e) = ecount e.
  Proof. now rewrite sort_tree_by_unfold. Qed.
  Lemma echildren_sort_tree_by e :
    echildren (sort_tree_by leb e) = isort leb (map st_child (echildren e)).
  Proof. now rewrite sort_tree_by_unfold. Qed.

  Lemma contains_only_text_sort_tree_by e :
    contains_only_text (sort_tree_by leb e) = contains_only_text e.
  Proof.
    unfold contains_only_text.
    rewrite etext_sort_tree_by, eattrs_sort_tree_by, echildren_sort_tree_by.
    now rewrite is_nil_isort, is_nil_map.
  Qed.
End SortTree.

Lemma by_pos_st_child leb a b : by_pos (st_child leb a) (st_child leb b) = by_pos a b.
Proof. unfold by_pos, st_child. cbn [snd]. now rewrite !epos_sort_tree_by. Qed.
Lemma by_name_st_child leb a b : by_name (st_child leb a) (st_child leb b) = by_name a b.
Proof. unfold by_name, st_child. cbn [snd]. now rewrite !ename_sort_tree_by. Qed.

Lemma order_of_st_child o leb a b :
  order_of o (st_child leb a) (st_child leb b) = order_of o a b.
Proof. unfold order_of. destruct (sort o); [apply by_pos_st_child|apply by_name_st_child]. Qed.

(* the oracle's order is the renderer's order *)
Lemma order_of_order_leb o : order_of o = order_leb o.
Proof. reflexivity. Qed.

(* the children of the sorted copy = the children in field order, each hereditarily sorted *)
Lemma echildren_sorted o e :
  echildren (sort_tree_by (order_of o) e) = map (st_child (order_of o)) (sorted_children o e).
Proof.
  rewrite echildren_sort_tree_by. unfold sorted_children.
  change (order_leb o) with (order_of o).
  apply (isort_map_compat (order_of o) (order_of o)). intros a b. apply order_of_st_child.
Qed.

Lemma sorted_attrs_sort_tree_by o leb e : sorted_attrs o (sort_tree_by leb e) = sorted_attrs o e.
Proof. unfold sorted_attrs. now rewrite eattrs_sort_tree_by. Qed.

(* ====================================================================== *)
(* 3. the oracle, unfolded                                                 *)
(* ====================================================================== *)
(* the inner loop of `reflects_go`, with the recursive call abstracted *)
Section Walk.
  Context (rg : element -> list pstruct -> option (list pstruct)).
  Fixpoint walk (cs : list (nec * element)) (fs : list pfield) (ps : list pstruct) {struct cs}
    : option (list pstruct) :=
    match cs, fs with
    | [], _ => Some ps
    | c :: cs', f :: fs' =>
        if contains_only_text (snd c) then walk cs' fs' ps
        else match ps with
             | q :: _ =>
                 if ty_eqb (pf_ty f) (TyStruct (ps_name q)) then
                   match rg (snd c) ps with
                   | Some ps' => walk cs' fs' ps'
                   | None => None end
                 else None
             | [] => None end
    | _ :: _, [] => None
    end.
End Walk.

Lemma reflects_go_unfold o e p rest :
  reflects_go o e (p :: rest) =
  let attrs := sorted_attrs o e in
  let fs := ps_fields p in
  let na := List.length attrs in
  let nt := if etext e then 1%nat else 0%nat in
  let fa := firstn na fs in
  let ft := firstn nt (skipn na fs) in
  let fc := skipn (na + nt) fs in
  if forall2b (attr_field_ok o) attrs fa
     && forallb (text_field_ok o) ft && (List.length ft =? nt)%nat
     && forall2b child_field_ok (echildren e) fc
  then walk (reflects_go o) (echildren e) fc rest
  else None.
Proof. destruct e as [n t x k a ch ps]. reflexivity. Qed.

(* when the fields of the first struct split as attributes ++ text ++ children and each part
   passes its test, the oracle goes on with the structs of the children *)
Lemma reflects_go_fields o e p rest (A B C : list pfield) :
  ps_fields p = A ++ B ++ C ->
  List.length A = List.length (sorted_attrs o e) ->
  List.length B = (if etext e then 1%nat else 0%nat) ->
  forall2b (attr_field_ok o) (sorted_attrs o e) A = true ->
  forallb (text_field_ok o) B = true ->
  forall2b child_field_ok (echildren e) C = true ->
  reflects_go o e (p :: rest) = walk (reflects_go o) (echildren e) C rest.
Proof.
  intros Hp HA HB H1 H2 H3.
  rewrite reflects_go_unfold. cbv zeta. rewrite Hp, <- HA, <- HB.
  rewrite firstn_length_app, skipn_length_app, firstn_length_app.
  rewrite (app_assoc A B C), <- app_length, skipn_length_app.
  rewrite H1, H2, H3, Nat.eqb_refl. reflexivity.
Qed.

Lemma forall2b_length {A B} (f : A -> B -> bool) a b :
  forall2b f a b = true -> List.length a = List.length b.
Proof.
  revert b. induction a as [|x a IH]; intros [|y b] H; try discriminate H; [reflexivity|].
  cbn [forall2b] in H. apply andb_true_iff in H. destruct H as [_ H].
  cbn [List.length]. f_equal. now apply IH.
Qed.

Lemma sorted_attrs_length o e : List.length (sorted_attrs o e) = List.length (eattrs e).
Proof. unfold sorted_attrs. destruct (sort o); [reflexivity|apply isort_length]. Qed.

(* what a positive answer of the oracle says about the first struct (the converse reading,
   for ANY struct list, e.g. the one parsed back from the real implementation): its fields
   are exactly one accepted field per attribute, then the text field iff the node has text,
   then one accepted field per child, and nothing else *)
Lemma reflects_go_head o e ps r :
  reflects_go o e ps = Some r ->
  exists p rest fa ft fc,
    ps = p :: rest /\ ps_fields p = fa ++ ft ++ fc /\
    forall2b (attr_field_ok o) (sorted_attrs o e) fa = true /\
    List.length fa = List.length (eattrs e) /\
    forallb (text_field_ok o) ft = true /\
    List.length ft = (if etext e then 1%nat else 0%nat) /\
    forall2b child_field_ok (echildren e) fc = true /\
    List.length fc = List.length (echildren e).
Proof.
  destruct ps as [|p rest]; [destruct e; discriminate|].
  rewrite reflects_go_unfold. cbv zeta.
  set (na := List.length (sorted_attrs o e)).
  set (nt := if etext e then 1%nat else 0%nat).
  set (fs := ps_fields p).
  destruct (forall2b (attr_field_ok o) (sorted_attrs o e) (firstn na fs)) eqn:H1; [|discriminate].
  destruct (forallb (text_field_ok o) (firstn nt (skipn na fs))) eqn:H2; [|discriminate].
  destruct (List.length (firstn nt (skipn na fs)) =? nt)%nat eqn:H3; [|discriminate].
  destruct (forall2b child_field_ok (echildren e) (skipn (na + nt) fs)) eqn:H4; [|discriminate].
  intros _.
  exists p, rest, (firstn na fs), (firstn nt (skipn na fs)), (skipn (na + nt) fs).
  repeat split; auto.
  - rewrite skipn_add, !firstn_skipn. reflexivity.
  - rewrite <- (forall2b_length _ _ _ H1). apply sorted_attrs_length.
  - now apply Nat.eqb_eq.
  - symmetry. exact (forall2b_length _ _ _ H4).
Qed.

Lemma wrap_eqb_eq a b : wrap_eqb a b = true -> a = b.
Proof. destruct a, b; simpl; congruence. Qed.

(* the three field tests, read as propositions *)
Lemma attr_field_ok_reading o a f :
  attr_field_ok o a f = true ->
  Oracles.bound f = attribute_prefix o
                    ++ (if starts_with_xmlns (snd a) then snd a else remove_namespace (snd a)) /\
  pf_ty f = TyString /\
  pf_wrap f = (match fst a with Mand => WPlain | Opt => WOption end).
Proof.
  unfold attr_field_ok, attr_bound, is_string. intros H.
  apply andb_true_iff in H. destruct H as [H Hw].
  apply andb_true_iff in H. destruct H as [H _].
  apply andb_true_iff in H. destruct H as [Hb Hs].
  repeat split.
  - now apply str_eqb_eq.
  - destruct (pf_ty f); [reflexivity|discriminate Hs].
  - now apply wrap_eqb_eq.
Qed.

Lemma text_field_ok_reading o f :
  text_field_ok o f = true ->
  pf_rename f = Some (text_identifier o) /\ pf_ty f = TyString /\ pf_wrap f = WOption.
Proof.
  unfold text_field_ok, is_string. intros H.
  apply andb_true_iff in H. destruct H as [H Hw].
  apply andb_true_iff in H. destruct H as [Hr Hs].
  repeat split.
  - destruct (pf_rename f) as [r|]; [|discriminate Hr].
    cbn [option_eqb] in Hr. apply str_eqb_eq in Hr. now rewrite Hr.
  - destruct (pf_ty f); [reflexivity|discriminate Hs].
  - now apply wrap_eqb_eq.
Qed.

Lemma child_field_ok_reading c f :
  child_field_ok c f = true ->
  Oracles.bound f = remove_namespace (ename (snd c)) /\
  pf_wrap f = child_wrap (estandalone (snd c)) (fst c) /\
  (pf_ty f = TyString <-> contains_only_text (snd c) = true).
Proof.
  unfold child_field_ok, is_string. intros H.
  apply andb_true_iff in H. destruct H as [H Ht].
  apply andb_true_iff in H. destruct H as [H Hw].
  apply andb_true_iff in H. destruct H as [Hb _].
  repeat split.
  - now apply str_eqb_eq.
  - now apply wrap_eqb_eq.
  - intros E. rewrite E in Ht. now apply eqb_prop in Ht.
  - intros E. rewrite E in Ht. destruct (pf_ty f); [reflexivity|discriminate Ht].
Qed.

(* ====================================================================== *)
(* 4. each field of the model passes the oracle's test for it              *)
(* ====================================================================== *)
Lemma wrap_eqb_refl w : wrap_eqb w w = true.
Proof. now destruct w. Qed.

(* a field renamed "if the identifier is not the serde name" is bound to the serde name,
   and the rename is there exactly when needed *)
Lemma bound_rename id sn w ty :
  Oracles.bound (PF (if str_eqb id sn then None else Some sn) id w ty) = sn.
Proof.
  unfold Oracles.bound. cbn [pf_rename pf_ident].
  destruct (str_eqb_spec id sn) as [E|E]; [exact E|reflexivity].
Qed.

Lemma rename_ok_rename id sn w ty :
  rename_ok (PF (if str_eqb id sn then None else Some sn) id w ty) = true.
Proof.
  unfold rename_ok. cbn [pf_rename pf_ident].
  destruct (str_eqb_spec id sn) as [E|E]; [reflexivity|].
  rewrite (proj2 (str_eqb_neq sn id)) by congruence. reflexivity.
Qed.

Lemma attr_field_reflects o m a :
  attr_field_ok o a (Oracles.erase_field (attr_field o m a)) = true.
Proof.
  unfold attr_field_ok, Oracles.erase_field, attr_field.
  cbn [f_rename f_ident f_wrap f_ty].
  rewrite bound_rename, rename_ok_rename.
  unfold is_string. cbn [pf_ty pf_wrap]. rewrite wrap_eqb_refl.
  rewrite !andb_true_r. apply str_eqb_refl.
Qed.

Lemma text_fields_reflects o m e :
  forallb (text_field_ok o) (map Oracles.erase_field (text_fields o m e)) = true.
Proof.
  unfold text_fields. destruct (etext e); [|reflexivity].
  cbn [map forallb]. unfold text_field_ok, is_string, Oracles.erase_field.
  cbn [pf_rename pf_wrap pf_ty f_rename f_wrap f_ty option_eqb wrap_eqb].
  now rewrite str_eqb_refl.
Qed.

Lemma text_fields_length o m e :
  List.length (map Oracles.erase_field (text_fields o m e)) = (if etext e then 1%nat else 0%nat).
Proof. unfold text_fields. now destruct (etext e). Qed.

Lemma child_field_reflects leb tbl m path1 c :
  child_field_ok (st_child leb c) (Oracles.erase_field (child_field tbl m path1 c)) = true.
Proof.
  unfold child_field_ok, Oracles.erase_field, child_field, st_child.
  cbn [f_rename f_ident f_wrap f_ty fst snd].
  rewrite bound_rename, rename_ok_rename.
  rewrite ename_sort_tree_by, estandalone_sort_tree_by, contains_only_text_sort_tree_by.
  unfold is_string. cbn [pf_ty pf_wrap]. rewrite wrap_eqb_refl, str_eqb_refl.
  now destruct (contains_only_text (snd c)).
Qed.

(* ====================================================================== *)
(* 5. the main induction                                                   *)
(* ====================================================================== *)
Definition reflects_at (o : options) (e : element) : Prop :=
  forall tbl pth rest,
    reflects_go o (sort_tree_by (order_of o) e)
                (map erase (render_abs_at o tbl e pth) ++ rest) = Some rest.

(* the structs of a list of children (already in output order) are consumed one child at a time *)
Lemma walk_children o tbl m path1 (l : list (nec * element)) :
  Forall (fun c => reflects_at o (snd c)) l ->
  forall rest,
    walk (reflects_go o) (map (st_child (order_of o)) l)
         (map (fun c => Oracles.erase_field (child_field tbl m path1 c)) l)
         (map erase (flat_map (child_structs o tbl path1) l) ++ rest) = Some rest.
Proof.
  induction 1 as [|c l Hc Hl IH]; intros rest; [reflexivity|].
  cbn [map flat_map walk].
  change (snd (st_child (order_of o) c)) with (sort_tree_by (order_of o) (snd c)).
  rewrite contains_only_text_sort_tree_by.
  destruct (contains_only_text (snd c)) eqn:E.
  - replace (child_structs o tbl path1 c) with (@nil structdef)
      by (unfold child_structs; now rewrite E).
    cbn [app]. apply IH.
  - replace (child_structs o tbl path1 c) with (render_abs_at o tbl (snd c) path1)
      by (unfold child_structs; now rewrite E).
    rewrite map_app, <- app_assoc.
    pose proof (Hc tbl path1 (map erase (flat_map (child_structs o tbl path1) l) ++ rest)) as Hgo.
    pose proof (render_struct_shape o tbl (snd c) path1) as Hs.
    revert Hgo Hs.
    destruct (render_abs_at o tbl (snd c) path1) as [|q qs]; intros Hgo Hs; [discriminate Hs|].
    injection Hs as Hq _.
    cbn [map app] in Hgo |- *.
    assert (Hty : pf_ty (Oracles.erase_field (child_field tbl m path1 c))
                  = TyStruct (struct_name_at tbl (path1 ++ [ename (snd c)])))
      by (unfold Oracles.erase_field, child_field; cbn [pf_ty f_ty]; now rewrite E).
    (* the struct rendered next is the child's own, named by the same table entry *)
    assert (Hn : ps_name (erase q) = struct_name_at tbl (path1 ++ [ename (snd c)]))
      by (rewrite Hq; reflexivity).
    rewrite Hty, Hn. cbn [ty_eqb]. rewrite str_eqb_refl.
    rewrite Hgo. apply IH.
Qed.

Lemma reflects_go_render o e : reflects_at o e.
Proof.
  induction e as [n t x k a ch p IH] using element_ind'. intros tbl pth rest.
  remember (Elem n t x k a ch p) as e eqn:He.
  assert (IH' : Forall (fun c => reflects_at o (snd c)) (sorted_children o e)).
  { unfold sorted_children. apply isort_Forall. subst e. exact IH. }
  clear IH He.
  rewrite render_struct_shape. cbn [map app].
  set (m := id_new e). set (path1 := pth ++ [ename e]).
  rewrite (reflects_go_fields o (sort_tree_by (order_of o) e) _ _
             (map (fun a => Oracles.erase_field (attr_field o m a)) (sorted_attrs o e))
             (map Oracles.erase_field (text_fields o m e))
             (map (fun c => Oracles.erase_field (child_field tbl m path1 c)) (sorted_children o e))).
  - rewrite echildren_sorted.
    change (fun c : nec * element =>
              if contains_only_text (snd c) then [] else render_abs_at o tbl (snd c) path1)
      with (child_structs o tbl path1).
    now apply walk_children.
  - unfold erase. cbn [ps_fields]. rewrite head_struct_fields, !map_app, !map_map. reflexivity.
  - now rewrite sorted_attrs_sort_tree_by, map_length.
  - rewrite etext_sort_tree_by. apply text_fields_length.
  - rewrite sorted_attrs_sort_tree_by. apply forall2b_map_r. intros a0. apply attr_field_reflects.
  - apply text_fields_reflects.
  - rewrite echildren_sorted. apply forall2b_map. intros c. apply child_field_reflects.
Qed.

(* ====================================================================== *)
(* 6. the theorems                                                         *)
(* ====================================================================== *)
(* for every name table and path prefix, with a continuation *)
Theorem render_at_reflects : forall o tbl e pth rest,
  reflects_go o (sort_tree_by (order_of o) e)
              (map erase (render_abs_at o tbl e pth) ++ rest) = Some rest.
Proof. intros o tbl e pth rest. apply reflects_go_render. Qed.

(* whatever the iteration order of the name-hint HashMap *)
Theorem render_reflects_ord : forall ord o e,
  reflects_b o e (map erase (render_abs_ord ord o e)) = true.
Proof.
  intros ord o e. unfold reflects_b, render_abs_ord.
  rewrite <- (app_nil_r (map erase _)). now rewrite render_at_reflects.
Qed.

Theorem render_reflects : forall o e, reflects_b o e (map erase (render_abs o e)) = true.
Proof. intros o e. apply render_reflects_ord. Qed.

(* ====================================================================== *)
(* 7. how many structs                                                     *)
(* ====================================================================== *)
(* number of nodes of the tree (the node itself included) that satisfy P *)
Fixpoint count_where (P : element -> bool) (e : element) : nat :=
  match e with
  | Elem _ _ _ _ _ ch _ =>
      ((if P e then 1 else 0)
       + (fix go (cs : list (nec * element)) : nat :=
            match cs with [] => O | c :: r => count_where P (snd c) + go r end) ch)%nat
  end.
(* ... among the proper descendants *)
Definition descendants_where (P : element -> bool) (e : element) : nat :=
  list_sum (map (fun c => count_where P (snd c)) (echildren e)).
Definition not_text_only (e : element) : bool := negb (contains_only_text e).
(* the root, plus every other node that is not text-only *)
Definition struct_nodes (e : element) : nat := S (descendants_where not_text_only e).

Lemma count_where_unfold P e :
  count_where P e = ((if P e then 1 else 0) + descendants_where P e)%nat.
Proof.
  destruct e as [n t x k a ch p]. unfold descendants_where.
  cbn [count_where echildren]. f_equal.
  induction ch as [|c ch IH]; [reflexivity|].
  cbn [map list_sum fold_right]. now rewrite IH.
Qed.

Lemma count_text_only e : contains_only_text e = true -> count_where not_text_only e = O.
Proof.
  intros H. rewrite count_where_unfold. unfold not_text_only, descendants_where. rewrite H.
  unfold contains_only_text in H. apply andb_true_iff in H. destruct H as [_ H].
  destruct (echildren e); [reflexivity|discriminate H].
Qed.

Lemma render_at_length o tbl e : forall pth,
  List.length (render_abs_at o tbl e pth) = struct_nodes e.
Proof.
  induction e as [n t x k a ch p IH] using element_ind'. intros pth.
  rewrite render_struct_shape. cbn [List.length]. unfold struct_nodes. f_equal.
  unfold sorted_children. rewrite length_flat_map_isort.
  unfold descendants_where. cbn [echildren].
  set (path1 := pth ++ [ename (Elem n t x k a ch p)]). clearbody path1.
  induction IH as [|c l Hc Hl IHl]; [reflexivity|].
  cbn [flat_map map list_sum fold_right]. rewrite app_length. f_equal; [|exact IHl].
  destruct (contains_only_text (snd c)) eqn:E.
  - now rewrite count_text_only.
  - rewrite Hc. rewrite count_where_unfold. unfold not_text_only at 1. rewrite E. reflexivity.
Qed.

Theorem render_struct_count : forall o e, List.length (render_abs o e) = struct_nodes e.
Proof. intros o e. apply render_at_length. Qed.

(* the printed text has one `pub struct` item per such node: `print` is a flat_map over them *)
Corollary render_erased_count : forall o e,
  List.length (map erase (render_abs o e)) = struct_nodes e.
Proof. intros o e. rewrite map_length. apply render_struct_count. Qed.

(* ====================================================================== *)
(* 8. examples                                                             *)
(* ====================================================================== *)
Local Open Scope string_scope.
(* three levels; a namespaced attribute and child, an optional attribute, an optional child,
   a repeated child, text-only and non-text-only children, positions against name order *)
Definition ex_tree : element :=
  Elem (s "root") false true 1 [(Mand, s "id"); (Opt, s "xml:lang")]
       [ (Mand, Elem (s "item") false false 2 [(Mand, s "k")]
                     [ (Opt, Elem (s "ns:leaf") true true 1 [] [] (Some 0%nat));
                       (Mand, Elem (s "deep") true true 1 [(Mand, s "z")] [] (Some 1%nat)) ]
                     (Some 1%nat));
         (Opt, Elem (s "alpha") true true 1 [] [] (Some 0%nat)) ]
       None.
Definition ex_sorted : options :=
  {| text_identifier := s "$text"; attribute_prefix := s "@";
     derive := s "Serialize, Deserialize"; sort := XmlName |}.

Example ex_reflects_quick_xml :
  reflects_b quick_xml_de ex_tree (map erase (render_abs quick_xml_de ex_tree)) = true.
Proof. vm_compute. reflexivity. Qed.
Example ex_reflects_serde_xml_rs :
  reflects_b serde_xml_rs ex_tree (map erase (render_abs serde_xml_rs ex_tree)) = true.
Proof. vm_compute. reflexivity. Qed.
Example ex_reflects_sorted :
  reflects_b ex_sorted ex_tree (map erase (render_abs ex_sorted ex_tree)) = true.
Proof. vm_compute. reflexivity. Qed.
(* root, item, deep: `alpha` and `ns:leaf` are text-only *)
Example ex_struct_count :
  List.length (render_abs quick_xml_de ex_tree) = 3%nat /\ struct_nodes ex_tree = 3%nat.
Proof. vm_compute. split; reflexivity. Qed.

(* the oracle is not vacuous: it rejects the output with the last struct dropped, with the
   structs of another option value (field order), and of a tree with one attribute more *)
Example ex_rejects_missing_struct :
  reflects_b quick_xml_de ex_tree (removelast (map erase (render_abs quick_xml_de ex_tree))) = false.
Proof. vm_compute. reflexivity. Qed.
Example ex_rejects_other_order :
  reflects_b quick_xml_de ex_tree (map erase (render_abs ex_sorted ex_tree)) = false.
Proof. vm_compute. reflexivity. Qed.
Example ex_rejects_other_tree :
  reflects_b quick_xml_de ex_tree
             (map erase (render_abs quick_xml_de (set_attrs ex_tree ((Mand, s "extra") :: eattrs ex_tree))))
  = false.
Proof. vm_compute. reflexivity. Qed.
