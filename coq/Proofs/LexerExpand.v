(* C11 at byte level: asking the reader to expand empty elements.  The reader with
   expand_empty_elements is modelled as `expand` (Proofs/SkelProofs.v) of the default stream; the
   lexer correspondence compares exactly that with the real reader configured so, on every run. *)
From XSG.Model Require Import Strings Necessity Element Parser Dom Lexer.
From XSG.Proofs Require Import StringsProofs NecessityProofs ElementProofs ParserTotal SkelProofs
  ParserFaults LexerProofs.
From Coq Require Import String.
Local Open Scope string_scope.

Definition lex_expanded (bs : list byte) : list event := expand (lex bs).

Theorem bytes_expand_empty bs : into_struct_ev (lex_expanded bs) = into_struct_ev (lex bs).
Proof. apply expand_into_struct_ev. Qed.
Theorem bytes_expand_empty_extend root bs :
  Uniq root -> extend_struct_ev root (lex_expanded bs) = extend_struct_ev root (lex bs).
Proof. intros H. now apply expand_extend_struct_ev. Qed.

Lemma example_expanded :
  lex_expanded (s "<a><b x='1'/>t</a>")
  = [EStart (ROk (s "a")) []; EStart (ROk (s "b")) [AOk (ROk (s "x"))]; EEnd; EText (ROk tt); EEnd].
Proof. vm_compute. reflexivity. Qed.
