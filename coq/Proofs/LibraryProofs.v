(* The library end to end, source terms only: the parser translated from src/parser.rs
   (Generated/EntryRs.v around Generated/LoopRs.v) followed by the renderer translated from
   src/element.rs (Generated/RenderRs.v).  The theorems of the properties, proved about the model,
   are transported to this composition through C08rs.v (parser) and C09rs.v (renderer). *)
From XSG.Model Require Import Strings Chars Convert Necessity Element Parser Dom Spec Render RustRender RustLoop Reparse.
From XSG.Generated Require Import LoopRs EntryRs RenderRs.
From XSG.Proofs Require Import ElementProofs SkelProofs SpecProofs ReprDefs ParserFaults UnionProofs AdmitProofs
  ConvertProofs WfProofs NamesRsProofs RenderRsProofs ReparseProofs InferProofs EventLevel LoopRsProofs.
From XSG.Corr Require Import Common Oracles.
From Coq Require Import String List Permutation.
Import ListNotations.
Open Scope list_scope.

(* documents (event lists) -> rendered bytes.  None: the parse failed, or the renderer ran out of fuel *)
Definition library_src (mk : nat -> misc_kind) (fuel : nat) (docs : list (list event)) (o : options)
  : option str :=
  match run_src mk docs with
  | Ok e => to_serde_struct_rs fuel e o
  | _ => None
  end.

Lemma library_src_model mk fuel docs o e :
  run_evs docs = Ok e -> esize e <= fuel ->
  library_src mk fuel docs o = Some (to_serde_struct o e).
Proof.
  intros Hr Hf. unfold library_src. rewrite run_src_model, Hr.
  now apply to_serde_struct_rs_spec.
Qed.

Lemma library_src_fails mk fuel docs o x :
  run_evs docs = Err x -> library_src mk fuel docs o = None.
Proof. intros Hr. unfold library_src. now rewrite run_src_model, Hr. Qed.

(* the parsed form of Model/Reparse.v is the parsed form the oracles of Corr/Oracles.v read *)
Definition to_pf (f : pfield') : pfield := PF (pf_rename' f) (pf_ident' f) (pf_wrap' f) (pf_ty' f).
Definition to_ps (d : pstruct') : pstruct := PS (ps_derive' d) (ps_name' d) (map to_pf (ps_fields' d)).

Lemma to_ps_erase l : map to_ps (map erase' l) = map erase l.
Proof.
  rewrite map_map. apply map_ext. intros d. unfold to_ps, erase', erase. cbn.
  f_equal. rewrite map_map. apply map_ext. reflexivity.
Qed.

(* C01 end to end *)
Lemma library_src_admits mk docs m e :
  docs <> [] -> Forall (Forall wf_node) docs -> Forall (fun p => elem_names p = [m]) docs ->
  run_src mk (map events_of_forest docs) = Ok e ->
  clash_free_tree e = true -> names_plain e = true -> tree_names_ok e = true ->
  exists bytes structs,
    library_src mk (esize e) (map events_of_forest docs) quick_xml_de = Some bytes
    /\ reparse bytes = Some structs
    /\ forall d, In d docs -> admits_b quick_xml_de (map to_ps structs) d = true.
Proof.
  intros Hne Hwf Hm Hrun Hc Hp Hn.
  destruct (to_serde_struct_rs_reparse e quick_xml_de (esize e) (le_n _) Hn eq_refl) as [r [Hr Hp']].
  exists r, (map erase' (render_abs quick_xml_de e)). split; [|split].
  - unfold library_src. now rewrite Hrun.
  - exact Hp'.
  - intros d Hd. rewrite to_ps_erase. rewrite run_src_model in Hrun.
    now apply (ev_render_admits_quick_xml docs m e).
Qed.

(* the bridge to every theorem stated over `render_abs` (C04, C09, C10, C14, C16): the bytes the
   composed source produces parse back to exactly the model's abstract structs *)
Lemma library_src_reparse mk docs o e :
  run_src mk docs = Ok e -> tree_names_ok e = true -> options_printable o = true ->
  exists bytes, library_src mk (esize e) docs o = Some bytes
                /\ bytes = to_serde_struct o e
                /\ reparse bytes = Some (map erase' (render_abs o e)).
Proof.
  intros Hrun Hn Ho.
  destruct (to_serde_struct_rs_reparse e o (esize e) (le_n _) Hn Ho) as [r [Hr Hp]].
  exists r. split; [|split].
  - unfold library_src. now rewrite Hrun.
  - rewrite (to_serde_struct_rs_spec e o (esize e) (le_n _)) in Hr. now inversion Hr.
  - exact Hp.
Qed.

(* C03 end to end: the tree the composed source infers is the specification's *)
Lemma library_src_exact mk docs :
  docs_ok docs = true -> Forall (Forall wf_node) docs ->
  exists e, run_src mk (map events_of_forest docs) = Ok e /\ infer docs = Some (sort_tree e).
Proof. intros OK W. rewrite run_src_model. now apply C03_exact_events. Qed.

(* C06 end to end: the order of the documents does not matter up to same_schema *)
Lemma library_src_order mk docs docs' m :
  docs <> [] -> Forall (Forall wf_node) docs -> Forall (fun p => elem_names p = [m]) docs ->
  Permutation docs docs' ->
  exists e e', run_src mk (map events_of_forest docs) = Ok e
               /\ run_src mk (map events_of_forest docs') = Ok e' /\ same_schema e e'.
Proof. intros. rewrite !run_src_model. now apply (ev_order docs docs' m). Qed.

(* C11 end to end: structure-equal document lists give the same bytes (or both nothing), whatever
   the kinds of the ignorable events and whatever the options *)
Lemma library_src_structure_only mk mk' fuel docs docs' o :
  Forall2 same_structure docs docs' ->
  library_src mk fuel (map events_of_forest docs) o = library_src mk' fuel (map events_of_forest docs') o.
Proof.
  intros H. unfold library_src. rewrite !run_src_model.
  now rewrite (ev_structure_only docs docs' H).
Qed.

(* C05: the composition is a function of the documents and the options *)
Lemma library_src_deterministic mk mk' fuel docs o :
  library_src mk fuel docs o = library_src mk' fuel docs o.
Proof. unfold library_src. now rewrite !run_src_model. Qed.

(* C07 end to end: parsing returns Ok or Err, and every Ok result renders *)
Lemma library_src_total mk docs o :
  (exists x, run_src mk docs = Err x /\ library_src mk 0 docs o = None)
  \/ (exists e, run_src mk docs = Ok e
                /\ forall fuel, esize e <= fuel -> library_src mk fuel docs o = Some (to_serde_struct o e)).
Proof.
  destruct (run_src mk docs) as [e|x|] eqn:Hr.
  - right. exists e. split; [reflexivity|]. intros fuel Hf.
    rewrite run_src_model in Hr. now apply library_src_model.
  - left. exists x. split; [reflexivity|]. unfold library_src. now rewrite Hr.
  - exfalso. now apply (run_src_total mk docs).
Qed.

Lemma library_example :
  let mk := fun n : nat => match n with 0%nat => KComment | 1%nat => KPI | _ => KDocType end in
  let d1 := [NElem (s "a") false [s "k"] [NElem (s "b") false [] [NText]; NElem (s "b") true [] []]] in
  let d2 := [NMisc; NElem (s "a") false [] [NElem (s "c") true [s "x"] []]] in
  exists e bytes,
    run_src mk (map events_of_forest [d1; d2]) = Ok e
    /\ library_src mk (esize e) (map events_of_forest [d1; d2]) quick_xml_de = Some bytes
    /\ reparse bytes = Some (map erase' (render_abs quick_xml_de e))
    /\ List.length (render_abs quick_xml_de e) = 2%nat
    /\ forall d, In d [d1; d2] -> admits_b quick_xml_de (map erase (render_abs quick_xml_de e)) d = true.
Proof.
  intros mk d1 d2. eexists. eexists.
  split. { vm_compute. reflexivity. }
  split. { vm_compute. reflexivity. }
  split. { vm_compute. reflexivity. }
  split. { vm_compute. reflexivity. }
  intros d [<-|[<-|[]]]; vm_compute; reflexivity.
Qed.
