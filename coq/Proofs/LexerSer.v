(* Serialised documents.  A byte-level document tree (`bnode`: names, attribute keys, quoted
   values, texts, CDATA sections and comments as BYTES) is written out by `ser`; the lexer model
   on that serialisation delivers exactly `events_of` of the abstract document (`babs`), the
   object of every DOM-level theorem (C01, C03, C06, C09, C11).  So those theorems are theorems
   about byte strings, and two byte documents with the same abstraction (other attribute
   values, other quotes, other text) have the same event stream. *)
From XSG.Model Require Import Strings Necessity Element Parser Dom Lexer.
From XSG.Proofs Require Import StringsProofs NecessityProofs ElementProofs ParserTotal SkelProofs
  ParserFaults DomEquiv LexerProofs LexerC11 LexerEmpty LexerCData.
From Coq Require Import String Lia.

(* ---------- byte-level documents and their serialisation ---------- *)
Definition battr := (list byte * bool * list byte)%type.     (* key, double quotes?, value *)
Inductive bnode :=
| BElem (n : list byte) (ef : bool) (attrs : list battr) (kids : list bnode)
| BText (t : list byte)
| BCData (t : list byte)
| BComment (c : list byte).

Definition qbyte (dq : bool) : byte := if dq then B_dq else B_sq.
Definition akey (a : battr) : list byte := fst (fst a).
Definition ser_attr (a : battr) : list byte :=
  let '(k, dq, v) := a in 32 :: k ++ B_eq :: qbyte dq :: v ++ [qbyte dq].
Definition ser_attrs (l : list battr) : list byte := flat_map ser_attr l.

Fixpoint ser (nd : bnode) : list byte :=
  match nd with
  | BElem n true attrs _ => (B_lt :: n ++ ser_attrs attrs) ++ [B_slash; B_gt]
  | BElem n false attrs kids =>
      ((B_lt :: n ++ ser_attrs attrs) ++ [B_gt])
      ++ (fix go (ks : list bnode) : list byte :=
            match ks with [] => [] | k :: r => ser k ++ go r end) kids
      ++ (B_lt :: B_slash :: n ++ [B_gt])
  | BText t => t
  | BCData t => cdata_open ++ t ++ cdata_close
  | BComment c => lit "<!--" ++ c ++ lit "-->"
  end.
Definition ser_forest (ks : list bnode) : list byte := flat_map ser ks.

Definition dec_or (bs : list byte) : str := match utf8_decode bs with Some x => x | None => [] end.
Definition valid (bs : list byte) : bool := match utf8_decode bs with Some _ => true | None => false end.

Fixpoint babs (nd : bnode) : node :=
  match nd with
  | BElem n ef attrs kids => NElem (dec_or n) ef (map (fun a => dec_or (akey a)) attrs) (map babs kids)
  | BText _ => NText
  | BCData _ => NCData
  | BComment _ => NMisc
  end.

(* ---------- which trees are written: the hypotheses of the theorem, as a boolean ---------- *)
Definition key_byte (b : byte) : bool := plain_byte b && negb (b =? B_eq).
Definition wf_attr (a : battr) : bool :=
  let '(k, dq, v) := a in
  negb (is_nil k) && forallb key_byte k && valid k && forallb (fun b => negb (b =? qbyte dq)) v.
Fixpoint keys_distinct (l : list (list byte)) : bool :=
  match l with
  | [] => true
  | k :: r => negb (key_seen k r) && keys_distinct r
  end.
Definition is_btext (nd : bnode) : bool := match nd with BText _ => true | _ => false end.
Fixpoint no_adj_text (ks : list bnode) : bool :=
  match ks with
  | k1 :: r => match r with
               | k2 :: _ => negb (is_btext k1 && is_btext k2)
               | [] => true
               end && no_adj_text r
  | [] => true
  end.
Definition no_lt (t : list byte) : bool := forallb (fun b => negb (b =? B_lt)) t.

Fixpoint bwf (nd : bnode) : bool :=
  match nd with
  | BElem n ef attrs kids =>
      plain_name n && valid n && forallb wf_attr attrs && keys_distinct (map akey attrs)
      && no_adj_text kids && forallb bwf kids
  | BText t => negb (is_nil t) && no_lt t && valid t
  | BCData t => no_gt t && valid t
  | BComment c => no_gt c
  end.
Definition bwf_forest (ks : list bnode) : bool := no_adj_text ks && forallb bwf ks.

(* ---------- induction over trees ---------- *)
Section bnode_ind2.
  Context (P : bnode -> Prop)
          (HE : forall n ef attrs kids, Forall P kids -> P (BElem n ef attrs kids))
          (HT : forall t, P (BText t)) (HC : forall t, P (BCData t)) (HM : forall c, P (BComment c)).
  Fixpoint bnode_ind2 (nd : bnode) : P nd :=
    match nd with
    | BElem n ef attrs kids =>
        HE n ef attrs kids
           ((fix go (ks : list bnode) : Forall P ks :=
               match ks with
               | [] => Forall_nil P
               | k :: r => Forall_cons k (bnode_ind2 k) (go r)
               end) kids)
    | BText t => HT t
    | BCData t => HC t
    | BComment c => HM c
    end.
End bnode_ind2.

Lemma ser_elem n attrs kids :
  ser (BElem n false attrs kids)
  = ((B_lt :: n ++ ser_attrs attrs) ++ [B_gt]) ++ ser_forest kids ++ (B_lt :: B_slash :: n ++ [B_gt]).
Proof.
  reflexivity.
Qed.

Lemma events_of_elem' n attrs kids :
  events_of (NElem n false attrs kids)
  = EStart (ROk n) (map (fun a => AOk (ROk a)) attrs) :: events_of_forest kids ++ [EEnd].
Proof.
  reflexivity.
Qed.

(* ---------- inside a tag: quotes ---------- *)
Fixpoint scan_ok (q : quote) (c : list byte) : bool :=
  match c with
  | [] => true
  | b :: r => negb (match q with QOut => b =? B_gt | _ => false end) && scan_ok (quote_step q b) r
  end.
Definition scan_q (q : quote) (c : list byte) : quote := fold_left quote_step c q.

Lemma run_tag_scan : forall c q acc p op,
  scan_ok q c = true ->
  lex_run (st (MTag q acc) p op) c
  = (st (MTag (scan_q q c) (rev c ++ acc)) (p + N.of_nat (List.length c)) op, []).
Proof.
  induction c as [|b c IH]; intros q acc p op H.
  - cbn [lex_run rev app List.length N.of_nat scan_q fold_left]. now rewrite N.add_0_r.
  - cbn [scan_ok] in H. apply andb_prop in H. destruct H as [Hb Hc].
    cbn [lex_run]. unfold lex_step at 1. cbn [md pos opened st].
    assert (E : forall X, (match q with
                 | QOut => if b =? B_gt then X
                           else (st (MTag (quote_step q b) (b :: acc)) (p + 1) op, [])
                 | _ => (st (MTag (quote_step q b) (b :: acc)) (p + 1) op, [])
                 end) = (st (MTag (quote_step q b) (b :: acc)) (p + 1) op, @nil event)).
    { intros X. destruct q; try reflexivity. apply negb_true_iff in Hb. now rewrite Hb. }
    rewrite E. rewrite (IH _ (b :: acc) (p + 1) op Hc).
    cbn [scan_q fold_left rev app]. rewrite <- app_assoc. cbn [app].
    f_equal. f_equal. cbn [List.length]. lia.
Qed.

Lemma scan_ok_app a b q : scan_ok q (a ++ b) = scan_ok q a && scan_ok (scan_q q a) b.
Proof.
  revert q. induction a as [|x a IH]; intros q; [reflexivity|].
  cbn [app scan_ok scan_q fold_left]. rewrite IH. now rewrite andb_assoc.
Qed.
Lemma scan_q_app a b q : scan_q q (a ++ b) = scan_q (scan_q q a) b.
Proof. unfold scan_q. apply fold_left_app. Qed.

Lemma scan_plain n : forallb plain_byte n = true -> scan_ok QOut n = true /\ scan_q QOut n = QOut.
Proof.
  induction n as [|b n IH]; intros H; [split; reflexivity|].
  cbn [forallb] in H. apply andb_prop in H. destruct H as [Hb Hn].
  pose proof (plain_byte_inv b Hb) as (_ & Hgt & _).
  cbn [scan_ok scan_q fold_left]. rewrite Hgt, (quote_step_plain b Hb). cbn [negb andb].
  apply IH, Hn.
Qed.

Definition Qof (dq : bool) : quote := if dq then QDouble else QSingle.
Lemma scan_value dq v : forallb (fun b => negb (b =? qbyte dq)) v = true ->
  scan_ok (Qof dq) v = true /\ scan_q (Qof dq) v = Qof dq.
Proof.
  induction v as [|b v IH]; intros H; [split; reflexivity|].
  cbn [forallb] in H. apply andb_prop in H. destruct H as [Hb Hv]. apply negb_true_iff in Hb.
  cbn [scan_ok scan_q fold_left].
  assert (E : quote_step (Qof dq) b = Qof dq).
  { destruct dq; cbn [Qof qbyte quote_step] in *; now rewrite Hb. }
  rewrite E. destruct dq; cbn [Qof negb andb]; apply IH, Hv.
Qed.

Lemma key_byte_plain k : forallb key_byte k = true -> forallb plain_byte k = true.
Proof.
  intros H. rewrite forallb_forall in *. intros x Hx. apply H in Hx. unfold key_byte in Hx.
  now apply andb_prop in Hx.
Qed.

Lemma wf_attr_inv k dq v : wf_attr (k, dq, v) = true ->
  k <> [] /\ forallb key_byte k = true /\ valid k = true
  /\ forallb (fun b => negb (b =? qbyte dq)) v = true.
Proof.
  unfold wf_attr. intros H. repeat (apply andb_prop in H; destruct H as [H ?]).
  repeat split; auto. destruct k; [discriminate|discriminate].
Qed.

Lemma ser_attr_app k dq v R :
  ser_attr (k, dq, v) ++ R = 32 :: k ++ B_eq :: qbyte dq :: v ++ qbyte dq :: R.
Proof.
  unfold ser_attr. cbn [app]. f_equal. rewrite <- app_assoc. cbn [app]. f_equal. f_equal. f_equal.
  rewrite <- app_assoc. reflexivity.
Qed.

Lemma scan_attr a : wf_attr a = true -> scan_ok QOut (ser_attr a) = true /\ scan_q QOut (ser_attr a) = QOut.
Proof.
  destruct a as [[k dq] v]. intros H. apply wf_attr_inv in H. destruct H as (_ & Hk & _ & Hv).
  apply key_byte_plain in Hk. destruct (scan_plain k Hk) as [Hk1 Hk2].
  destruct (scan_value dq v Hv) as [Hv1 Hv2].
  unfold ser_attr.
  change (32 :: k ++ B_eq :: qbyte dq :: v ++ [qbyte dq])
    with ([32] ++ k ++ [B_eq; qbyte dq] ++ v ++ [qbyte dq]).
  rewrite !scan_ok_app, !scan_q_app.
  change (scan_q QOut [32]) with QOut. change (scan_ok QOut [32]) with true.
  rewrite Hk1, Hk2.
  assert (E1 : scan_ok QOut [B_eq; qbyte dq] = true) by (destruct dq; reflexivity).
  assert (E2 : scan_q QOut [B_eq; qbyte dq] = Qof dq) by (destruct dq; reflexivity).
  rewrite E1, E2, Hv1, Hv2.
  destruct dq; split; reflexivity.
Qed.

Lemma scan_attrs attrs : forallb wf_attr attrs = true ->
  scan_ok QOut (ser_attrs attrs) = true /\ scan_q QOut (ser_attrs attrs) = QOut.
Proof.
  induction attrs as [|a r IH]; intros H; [split; reflexivity|].
  cbn [forallb] in H. apply andb_prop in H. destruct H as [Ha Hr].
  cbn [ser_attrs flat_map]. rewrite scan_ok_app, scan_q_app.
  destruct (scan_attr a Ha) as [-> ->]. apply IH, Hr.
Qed.

(* ---------- the attribute iterator on written attributes ---------- *)
Lemma key_byte_inv b : key_byte b = true -> is_ws b = false /\ (b =? B_eq) = false.
Proof.
  unfold key_byte. intros H. apply andb_prop in H. destruct H as [H1 H2].
  apply plain_byte_inv in H1. destruct H1 as (Hw & _). split; [exact Hw|now apply negb_true_iff].
Qed.

Lemma key_span_key : forall k X, forallb key_byte k = true ->
  key_span (k ++ B_eq :: X) = (k, B_eq :: X).
Proof.
  induction k as [|b k IH]; intros X H.
  - cbn [app key_span]. change (B_eq =? B_eq) with true. reflexivity.
  - cbn [forallb] in H. apply andb_prop in H. destruct H as [Hb Hk].
    destruct (key_byte_inv b Hb) as [Hw He]. cbn [app key_span]. rewrite He, Hw. cbn [orb].
    now rewrite (IH X Hk).
Qed.

Lemma until_byte_value : forall v q X, forallb (fun b => negb (b =? q)) v = true ->
  until_byte q (v ++ q :: X) = Some X.
Proof.
  induction v as [|b v IH]; intros q X H.
  - cbn [app until_byte]. now rewrite N.eqb_refl.
  - cbn [forallb] in H. apply andb_prop in H. destruct H as [Hb Hv]. apply negb_true_iff in Hb.
    cbn [app until_byte]. rewrite Hb. now apply IH.
Qed.

Lemma bytes_eqb_sym : forall a b, bytes_eqb a b = bytes_eqb b a.
Proof.
  induction a as [|x a IH]; intros [|y b]; try reflexivity.
  cbn [bytes_eqb]. now rewrite IH, N.eqb_sym.
Qed.

Lemma key_seen_app k l1 l2 : key_seen k (l1 ++ l2) = key_seen k l1 || key_seen k l2.
Proof. unfold key_seen. apply existsb_app. Qed.

Lemma dec_str_valid bs : valid bs = true -> dec_str bs = ROk (dec_or bs).
Proof. unfold valid, dec_str, dec_or. destruct (utf8_decode bs); [reflexivity|discriminate]. Qed.
Lemma dec_unit_valid bs : valid bs = true -> dec_unit bs = ROk tt.
Proof. unfold valid, dec_unit. destruct (utf8_decode bs); [reflexivity|discriminate]. Qed.

Lemma attrs_go_ser : forall attrs fuel keys,
  (List.length attrs < fuel)%nat ->
  forallb wf_attr attrs = true ->
  keys_distinct (map akey attrs) = true ->
  (forall a, In a attrs -> key_seen (akey a) keys = false) ->
  attrs_go fuel (ser_attrs attrs) keys = map (fun a => AOk (ROk (dec_or (akey a)))) attrs.
Proof.
  induction attrs as [|a r IH]; intros fuel keys Hf Hwf Hd Hk.
  - destruct fuel as [|f]; [cbn [List.length] in Hf; lia|]. reflexivity.
  - destruct fuel as [|f]; [cbn [List.length] in Hf; lia|].
    cbn [forallb] in Hwf. apply andb_prop in Hwf. destruct Hwf as [Ha Hr].
    cbn [map keys_distinct] in Hd. apply andb_prop in Hd. destruct Hd as [Hd1 Hd2].
    apply negb_true_iff in Hd1.
    destruct a as [[k dq] v]. cbn [akey fst] in Hd1.
    destruct (wf_attr_inv k dq v Ha) as (Hne & Hkb & Hval & Hv).
    destruct k as [|b0 k0]; [congruence|].
    cbn [forallb] in Hkb. apply andb_prop in Hkb. destruct Hkb as [Hb0 Hk0].
    destruct (key_byte_inv b0 Hb0) as [Hw0 _].
    cbn [ser_attrs flat_map]. rewrite ser_attr_app. fold (ser_attrs r).
    cbn [attrs_go]. cbn [drop_ws app]. rewrite Hw0. change (is_ws 32) with true. cbv iota.
    rewrite (key_span_key k0 _ Hk0).
    change (B_eq =? B_eq) with true. cbv iota.
    assert (Hseen : key_seen (b0 :: k0) keys = false).
    { apply (Hk (b0 :: k0, dq, v)). now left. }
    rewrite Hseen.
    assert (Hq : is_ws (qbyte dq) = false) by (destruct dq; reflexivity).
    cbn [drop_ws]. rewrite Hq.
    assert (Hq2 : ((qbyte dq =? B_dq) || (qbyte dq =? B_sq)) = true) by (destruct dq; reflexivity).
    rewrite Hq2. rewrite (until_byte_value v (qbyte dq) _ Hv).
    rewrite (dec_str_valid _ Hval). cbn [map akey fst]. f_equal.
    apply IH.
    + cbn [List.length] in Hf. lia.
    + exact Hr.
    + exact Hd2.
    + intros a' Hin. rewrite key_seen_app. rewrite (Hk a' (or_intror Hin)). cbn [orb key_seen existsb].
      rewrite orb_false_r. rewrite bytes_eqb_sym.
      unfold key_seen in Hd1.       destruct (bytes_eqb (b0 :: k0) (akey a')) eqn:E; [|reflexivity].
      exfalso. assert (Hex : existsb (bytes_eqb (b0 :: k0)) (map akey r) = true).
      { apply existsb_exists. exists (akey a'). split; [now apply in_map|exact E]. }
      unfold key_seen in Hd1. congruence.
Qed.

(* ---------- the name and the attributes of a written tag ---------- *)
Lemma name_of_app : forall n A, forallb plain_byte n = true -> (A = [] \/ exists r, A = 32 :: r) ->
  name_of (n ++ A) = n /\ after_name (n ++ A) = A.
Proof.
  induction n as [|b n IH]; intros A H HA.
  - cbn [app]. destruct HA as [->|[r ->]]; [split; reflexivity|].
    cbn [name_of after_name]. change (is_ws 32) with true. split; reflexivity.
  - cbn [forallb] in H. apply andb_prop in H. destruct H as [Hb Hn].
    pose proof (plain_byte_inv b Hb) as (Hw & _). cbn [app name_of after_name]. rewrite Hw.
    destruct (IH A Hn HA) as [-> ->]. split; reflexivity.
Qed.

Lemma ser_attrs_shape attrs : ser_attrs attrs = [] \/ exists r, ser_attrs attrs = 32 :: r.
Proof.
  destruct attrs as [|[[k dq] v] r]; [now left|right].
  cbn [ser_attrs flat_map ser_attr app]. eexists. reflexivity.
Qed.

Lemma ser_attrs_len attrs : (List.length attrs <= List.length (ser_attrs attrs))%nat.
Proof.
  induction attrs as [|[[k dq] v] r IH]; [apply Nat.le_refl|].
  cbn [ser_attrs flat_map]. rewrite app_length. fold (ser_attrs r).
  cbn [ser_attr List.length]. lia.
Qed.

Lemma ser_attrs_last attrs : attrs <> [] -> exists A' dq, ser_attrs attrs = A' ++ [qbyte dq].
Proof.
  intros H. destruct (exists_last H) as (l & [[k dq] v] & ->).
  unfold ser_attrs. rewrite flat_map_app. cbn [flat_map]. rewrite app_nil_r.
  exists (flat_map ser_attr l ++ 32 :: k ++ B_eq :: qbyte dq :: v), dq.
  unfold ser_attr. rewrite <- !app_assoc. cbn [app]. rewrite <- !app_assoc. reflexivity.
Qed.

Lemma strip_slash_last X b : (b =? B_slash) = false -> strip_slash (X ++ [b]) = None.
Proof. intros H. unfold strip_slash. rewrite rev_app_distr. cbn [rev app]. now rewrite H. Qed.

Lemma strip_slash_ser n attrs : forallb plain_byte n = true -> n <> [] ->
  strip_slash (n ++ ser_attrs attrs) = None.
Proof.
  intros Hn Hne. destruct attrs as [|a r].
  - cbn [ser_attrs flat_map]. rewrite app_nil_r. now apply strip_slash_plain.
  - destruct (ser_attrs_last (a :: r)) as (A' & dq & ->); [discriminate|].
    rewrite app_assoc. apply strip_slash_last. destruct dq; reflexivity.
Qed.

Definition ev_attrs (attrs : list battr) : list attr_res := map (fun a => AOk (ROk (dec_or (akey a)))) attrs.

Lemma attrs_of_ser n attrs :
  forallb plain_byte n = true -> forallb wf_attr attrs = true -> keys_distinct (map akey attrs) = true ->
  name_of (n ++ ser_attrs attrs) = n /\ attrs_of (n ++ ser_attrs attrs) = ev_attrs attrs.
Proof.
  intros Hn Hw Hd. destruct (name_of_app n (ser_attrs attrs) Hn (ser_attrs_shape attrs)) as [E1 E2].
  split; [exact E1|]. unfold attrs_of. rewrite E2. apply attrs_go_ser; auto.
  rewrite app_length. pose proof (ser_attrs_len attrs). lia.
Qed.

Lemma close_tag_start_ser n attrs p op :
  plain_name n = true -> valid n = true -> forallb wf_attr attrs = true ->
  keys_distinct (map akey attrs) = true ->
  close_tag (n ++ ser_attrs attrs) p op
  = ([EStart (ROk (dec_or n)) (ev_attrs attrs)], MText [], n :: op).
Proof.
  intros H Hv Hw Hd. destruct (plain_name_inv n H) as (b0 & r0 & -> & _ & _ & Hall).
  assert (Hb0 : (b0 =? B_slash) = false).
  { cbn [forallb] in Hall. apply andb_prop in Hall. destruct Hall as [Hb _].
    now apply plain_byte_inv in Hb. }
  destruct (attrs_of_ser _ attrs Hall Hw Hd) as [E1 E2].
  pose proof (strip_slash_ser (b0 :: r0) attrs Hall ltac:(discriminate)) as E3.
  unfold close_tag. cbn [app] in *. rewrite Hb0, E3, E1, E2, (dec_str_valid _ Hv). reflexivity.
Qed.

Lemma close_tag_empty_ser n attrs p op :
  plain_name n = true -> valid n = true -> forallb wf_attr attrs = true ->
  keys_distinct (map akey attrs) = true ->
  close_tag ((n ++ ser_attrs attrs) ++ [B_slash]) p op
  = ([EEmpty (ROk (dec_or n)) (ev_attrs attrs)], MText [], op).
Proof.
  intros H Hv Hw Hd. destruct (plain_name_inv n H) as (b0 & r0 & -> & _ & _ & Hall).
  assert (Hb0 : (b0 =? B_slash) = false).
  { cbn [forallb] in Hall. apply andb_prop in Hall. destruct Hall as [Hb _].
    now apply plain_byte_inv in Hb. }
  destruct (attrs_of_ser _ attrs Hall Hw Hd) as [E1 E2].
  pose proof (strip_slash_snoc ((b0 :: r0) ++ ser_attrs attrs)) as E3.
  unfold close_tag. cbn [app] in *. rewrite Hb0, E3, E1, E2, (dec_str_valid _ Hv). reflexivity.
Qed.

(* ---------- running the lexer over the pieces ---------- *)
Lemma run_open_ser n attrs p op :
  plain_name n = true -> forallb wf_attr attrs = true ->
  exists p', lex_run (st (MText []) p op) (B_lt :: n ++ ser_attrs attrs)
             = (st (MTag QOut (rev (n ++ ser_attrs attrs))) p' op, []).
Proof.
  intros H Hw. change (B_lt :: n ++ ser_attrs attrs) with ((B_lt :: n) ++ ser_attrs attrs).
  rewrite lex_run_app, (run_open_name n p op H).
  destruct (scan_attrs attrs Hw) as [S1 S2].
  rewrite (run_tag_scan _ QOut (rev n) _ op S1), S2. cbn [app]. rewrite rev_app_distr.
  eexists. reflexivity.
Qed.

Lemma run_start_ser n attrs p op :
  plain_name n = true -> valid n = true -> forallb wf_attr attrs = true ->
  keys_distinct (map akey attrs) = true ->
  exists p', lex_run (st (MText []) p op) ((B_lt :: n ++ ser_attrs attrs) ++ [B_gt])
             = (st (MText []) p' (n :: op), [EStart (ROk (dec_or n)) (ev_attrs attrs)]).
Proof.
  intros H Hv Hw Hd. rewrite lex_run_app. destruct (run_open_ser n attrs p op H Hw) as [p1 ->].
  cbn [lex_run]. unfold lex_step at 1. cbn [md pos opened st]. change (B_gt =? B_gt) with true. cbv iota.
  rewrite rev_involutive, (close_tag_start_ser n attrs _ op H Hv Hw Hd).
  eexists. reflexivity.
Qed.

Lemma run_empty_ser n attrs p op :
  plain_name n = true -> valid n = true -> forallb wf_attr attrs = true ->
  keys_distinct (map akey attrs) = true ->
  exists p', lex_run (st (MText []) p op) ((B_lt :: n ++ ser_attrs attrs) ++ [B_slash; B_gt])
             = (st (MText []) p' op, [EEmpty (ROk (dec_or n)) (ev_attrs attrs)]).
Proof.
  intros H Hv Hw Hd. rewrite lex_run_app. destruct (run_open_ser n attrs p op H Hw) as [p1 ->].
  cbn [lex_run]. unfold lex_step at 1. cbn [md pos opened st].
  change (B_slash =? B_gt) with false. cbv iota. change (quote_step QOut B_slash) with QOut.
  unfold lex_step at 1. cbn [md pos opened st]. change (B_gt =? B_gt) with true. cbv iota.
  cbn [rev]. rewrite rev_involutive, (close_tag_empty_ser n attrs _ op H Hv Hw Hd).
  eexists. reflexivity.
Qed.

Lemma run_end_ser n p op :
  plain_name n = true ->
  exists p', lex_run (st (MText []) p (n :: op)) (B_lt :: B_slash :: n ++ [B_gt])
             = (st (MText []) p' op, [EEnd]).
Proof.
  intros H. destruct (plain_name_inv n H) as (b0 & r0 & Hn & _ & _ & Hall).
  cbn [lex_run]. unfold lex_step at 1. cbn [md pos opened st]. rewrite N.eqb_refl.
  unfold lex_step at 1. cbn [md pos opened st].
  change (B_slash =? B_bang) with false. change (B_slash =? B_q) with false.
  change (B_slash =? B_gt) with false. cbv iota. change (quote_step QOut B_slash) with QOut.
  rewrite lex_run_app.
  rewrite (run_tag_body n [B_slash] _ (n :: op) Hall).
  cbn [lex_run]. unfold lex_step at 1. cbn [md pos opened st]. change (B_gt =? B_gt) with true. cbv iota.
  rewrite rev_app_distr, rev_involutive. cbn [rev app]. rewrite (close_tag_end n _ op H).
  eexists. reflexivity.
Qed.

Lemma run_text_body' : forall t acc p op,
  no_lt t = true ->
  lex_run (st (MText acc) p op) t = (st (MText (rev t ++ acc)) (p + N.of_nat (List.length t)) op, []).
Proof.
  induction t as [|b t IH]; intros acc p op H.
  - cbn [lex_run rev app List.length N.of_nat]. now rewrite N.add_0_r.
  - cbn [no_lt forallb] in H. apply andb_prop in H. destruct H as [Hb Ht]. apply negb_true_iff in Hb.
    cbn [lex_run]. unfold lex_step at 1. cbn [md pos opened st]. rewrite Hb.
    fold (no_lt t) in Ht. rewrite (IH (b :: acc) (p + 1) op Ht).
    cbn [rev app]. rewrite <- app_assoc. cbn [app]. f_equal. f_equal. cbn [List.length]. lia.
Qed.

Definition clean (rest : list byte) : Prop := rest = [] \/ exists r, rest = B_lt :: r.

Lemma text_flush acc p op rest : acc <> [] -> clean rest ->
  lex_from (st (MText acc) p op) rest
  = EText (dec_unit (rev acc)) :: lex_from (st (MText []) p op) rest.
Proof.
  intros Hne [->|[r ->]].
  - cbn [lex_from lex_eof md st pos]. destruct acc; [congruence|reflexivity].
  - cbn [lex_from]. unfold lex_step. cbn [md pos opened st]. rewrite N.eqb_refl.
    destruct acc; [congruence|reflexivity].
Qed.

Lemma run_cdata_body' : forall t acc p op,
  no_gt t = true ->
  lex_run (st (MCData acc) p op) t = (st (MCData (rev t ++ acc)) (p + N.of_nat (List.length t)) op, []).
Proof.
  induction t as [|b t IH]; intros acc p op H.
  - cbn [lex_run rev app List.length N.of_nat]. now rewrite N.add_0_r.
  - cbn [no_gt forallb] in H. apply andb_prop in H. destruct H as [Hb Ht]. apply negb_true_iff in Hb.
    cbn [lex_run]. unfold lex_step at 1. cbn [md pos opened st]. rewrite Hb.
    fold (no_gt t) in Ht. rewrite (IH (b :: acc) (p + 1) op Ht).
    cbn [rev app]. rewrite <- app_assoc. cbn [app]. f_equal. f_equal. cbn [List.length]. lia.
Qed.

Lemma run_cdata' : forall t p op,
  no_gt t = true ->
  exists p', lex_run (st (MText []) p op) (cdata_open ++ t ++ cdata_close)
             = (st (MText []) p' op, [ECData (dec_unit t)]).
Proof.
  intros t p op H. eexists.
  rewrite lex_run_app, run_cdata_open. rewrite lex_run_app, (run_cdata_body' t _ _ op H).
  unfold cdata_close. cbn [app lex_run].
  unfold lex_step at 1. cbn [md pos opened st]. change (B_rbr =? B_gt) with false. cbv iota.
  unfold lex_step at 1. cbn [md pos opened st]. change (B_rbr =? B_gt) with false. cbv iota.
  unfold lex_step at 1. cbn [md pos opened st]. change (B_gt =? B_gt) with true.
  change (B_rbr =? B_rbr) with true. cbn [andb]. cbv iota.
  assert (Hrev : rev (B_rbr :: B_rbr :: rev t ++ [B_lbr; 65; 84; 65; 68; 67; B_lbr; B_bang])
                 = [B_bang; B_lbr; 67; 68; 65; 84; 65; B_lbr] ++ (t ++ [B_rbr; B_rbr])).
  { cbn [rev]. rewrite rev_app_distr, rev_involutive. cbn [rev app]. rewrite <- !app_assoc. reflexivity. }
  rewrite Hrev. unfold close_cdata.
  change (lit "![CDATA[") with [B_bang; B_lbr; 67; 68; 65; 84; 65; B_lbr]. rewrite starts_with_app.
  rewrite cdata_inner. reflexivity.
Qed.

(* ---------- the theorem: one node, any continuation ---------- *)
Definition node_lex (nd : bnode) : Prop :=
  bwf nd = true ->
  forall p op rest, (is_btext nd = true -> clean rest) ->
  exists p', lex_from (st (MText []) p op) (ser nd ++ rest)
             = events_of (babs nd) ++ lex_from (st (MText []) p' op) rest.

Fixpoint ends_text (ks : list bnode) : bool :=
  match ks with
  | [] => false
  | k :: r => match r with [] => is_btext k | _ :: _ => ends_text r end
  end.

Lemma ser_starts_lt nd : is_btext nd = false -> exists r, ser nd = B_lt :: r.
Proof.
  destruct nd as [n [|] attrs kids|t|t|c]; intros H; try discriminate; eexists; reflexivity.
Qed.

Lemma forest_lex : forall ks,
  Forall node_lex ks -> forallb bwf ks = true -> no_adj_text ks = true ->
  forall p op rest, (ends_text ks = true -> clean rest) ->
  exists p', lex_from (st (MText []) p op) (ser_forest ks ++ rest)
             = events_of_forest (map babs ks) ++ lex_from (st (MText []) p' op) rest.
Proof.
  induction ks as [|k r IH]; intros HF Hw Hadj p op rest Hc.
  - exists p. reflexivity.
  - inversion HF as [|k' r' Hk Hr]; subst k' r'.
    cbn [forallb] in Hw. apply andb_prop in Hw. destruct Hw as [Hwk Hwr].
    cbn [no_adj_text] in Hadj. apply andb_prop in Hadj. destruct Hadj as [Hadj1 Hadj2].
    cbn [ser_forest flat_map map]. fold (ser_forest r). rewrite <- app_assoc.
    destruct (Hk Hwk p op (ser_forest r ++ rest)) as [p1 E1].
    { intros Ht. destruct r as [|k2 r2].
      - cbn [ser_forest flat_map app]. apply Hc. cbn [ends_text]. exact Ht.
      - rewrite Ht in Hadj1. cbn [andb] in Hadj1. apply negb_true_iff in Hadj1.
        destruct (ser_starts_lt k2 Hadj1) as [x Hx]. right.
        cbn [ser_forest flat_map]. rewrite Hx. cbn [app]. eexists. reflexivity. }
    rewrite E1.
    destruct (IH Hr Hwr Hadj2 p1 op rest) as [p2 E2].
    { intros He. apply Hc. cbn [ends_text]. destruct r; [discriminate|exact He]. }
    rewrite E2. exists p2. rewrite events_of_forest_cons, <- app_assoc. reflexivity.
Qed.

Lemma bwf_elem n ef attrs kids : bwf (BElem n ef attrs kids) = true ->
  plain_name n = true /\ valid n = true /\ forallb wf_attr attrs = true
  /\ keys_distinct (map akey attrs) = true /\ no_adj_text kids = true /\ forallb bwf kids = true.
Proof.
  cbn [bwf]. intros H. repeat (apply andb_prop in H; destruct H as [H ?]). repeat split; assumption.
Qed.

Theorem ser_node_lex : forall nd, node_lex nd.
Proof.
  induction nd as [n ef attrs kids IH|t|t|c] using bnode_ind2; intros Hwf p op rest Hc.
  - destruct (bwf_elem _ _ _ _ Hwf) as (Hn & Hv & Hw & Hd & Hadj & Hk).
    destruct ef.
    + cbn [ser babs]. rewrite events_of_empty, lex_from_app.
      destruct (run_empty_ser n attrs p op Hn Hv Hw Hd) as [p1 ->]. cbn [fst snd].
      exists p1. unfold ev_attrs. rewrite map_map. reflexivity.
    + rewrite ser_elem. cbn [babs]. rewrite events_of_elem'.
      rewrite <- (app_assoc ((B_lt :: n ++ ser_attrs attrs) ++ [B_gt])).
      rewrite <- (app_assoc (ser_forest kids)). rewrite lex_from_app.
      destruct (run_start_ser n attrs p op Hn Hv Hw Hd) as [p1 ->]. cbn [fst snd].
      destruct (forest_lex kids IH Hk Hadj p1 (n :: op) ((B_lt :: B_slash :: n ++ [B_gt]) ++ rest)) as [p2 E2].
      { intros _. right. cbn [app]. eexists. reflexivity. }
      rewrite E2. rewrite lex_from_app.
      destruct (run_end_ser n p2 op Hn) as [p3 ->]. cbn [fst snd].
      exists p3. unfold ev_attrs. rewrite map_map. cbn [app]. f_equal. rewrite <- app_assoc. reflexivity.
  - cbn [bwf] in Hwf. apply andb_prop in Hwf. destruct Hwf as [Hwf Hv].
    apply andb_prop in Hwf. destruct Hwf as [Hne Hlt].
    cbn [ser babs events_of]. rewrite lex_from_app, (run_text_body' t [] p op Hlt). cbn [fst snd app].
    rewrite app_nil_r. rewrite text_flush.
    + rewrite rev_involutive, (dec_unit_valid _ Hv). eexists. reflexivity.
    + destruct t; [discriminate|]. intros E. apply (f_equal (@rev byte)) in E.
      rewrite rev_involutive in E. discriminate.
    + apply Hc. reflexivity.
  - cbn [bwf] in Hwf. apply andb_prop in Hwf. destruct Hwf as [Hlt Hv].
    cbn [ser babs events_of]. rewrite lex_from_app.
    destruct (run_cdata' t p op Hlt) as [p1 ->]. cbn [fst snd].
    rewrite (dec_unit_valid _ Hv). exists p1. reflexivity.
  - cbn [bwf] in Hwf. cbn [ser babs events_of]. rewrite lex_from_app, (run_comment c p op Hwf).
    cbn [fst snd]. eexists. reflexivity.
Qed.

(* ---------- whole documents ---------- *)
Theorem lex_from_ser_forest ks :
  bwf_forest ks = true -> lex_from lex_init (ser_forest ks) = events_of_forest (map babs ks).
Proof.
  unfold bwf_forest. intros H. apply andb_prop in H. destruct H as [Hadj Hw].
  destruct (forest_lex ks) with (p := 0) (op := @nil (list byte)) (rest := @nil byte) as [p' E]; auto.
  - apply Forall_forall. intros k _. apply ser_node_lex.
  - intros _. now left.
  - rewrite app_nil_r in E. change lex_init with (st (MText []) 0 []). rewrite E.
    cbn [lex_from lex_eof md st]. apply app_nil_r.
Qed.

Definition starts_markup (ks : list bnode) : bool :=
  match ks with [] => true | k :: _ => negb (is_btext k) end.

Theorem lex_ser_forest ks :
  bwf_forest ks = true -> starts_markup ks = true -> lex (ser_forest ks) = events_of_forest (map babs ks).
Proof.
  intros H Hs. rewrite lex_no_bom; [now apply lex_from_ser_forest|].
  destruct ks as [|k r]; [reflexivity|]. cbn [starts_markup] in Hs. apply negb_true_iff in Hs.
  destruct (ser_starts_lt k Hs) as [x Hx]. cbn [ser_forest flat_map]. rewrite Hx. cbn [app].
  apply strip_bom_markup. discriminate.
Qed.
