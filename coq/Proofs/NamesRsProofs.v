(* C14, source level: running the terms GENERATED from src/element.rs (Generated/NamesRs.v:
   `expand_name_rs`, `fill_struct_names_rs`, `compute_struct_names_rs`) in the RustNames evaluator
   (on fuel) computes the model functions `expand_name` / `compute_struct_names` of Model/Render.v,
   for every tree, every table of hints and every fuel above a bound linear in the size of the tree.
   The Rust code sorts the children by position at each level; the model sorts the whole tree first
   (`sort_tree`): the two agree (the key lemma is by induction on the structure of the element).
   The unbounded loop `while used.contains(&unused_name)` stops where the model's bounded
   `unused_loop` stops (IdentProofs: the candidates are pairwise distinct). *)
From XSG.Model Require Import Strings Chars Convert Necessity Element Render RustNames.
From XSG.Generated Require Import NamesRs.
From XSG.Proofs Require Import StringsProofs ElementProofs IdentProofs NamingProofs RenderProofs
     StructTableProofs.
From Coq Require Import String Lia Permutation.
Open Scope string_scope.
Open Scope list_scope.
Open Scope nat_scope.

Local Notation ev := (eval expand_name_rs fill_struct_names_rs).
Local Notation ex := (exec expand_name_rs fill_struct_names_rs).

Ltac peel F := destruct F as [|F]; [exfalso; lia|].
Ltac lk := cbn [lookup update String.eqb Ascii.eqb Bool.eqb].

(* ====================================================================== *)
(* 0. one-step unfoldings of the evaluator                                 *)
(* ====================================================================== *)

Lemma ex_seq F s1 s2 en :
  ex (S F) (SSeq s1 s2) en = match ex F s1 en with Some en1 => ex F s2 en1 | None => None end.
Proof. reflexivity. Qed.
Lemma ex_let F x e en :
  ex (S F) (SLet x e) en = match ev F e en with Some v => Some ((x, v) :: en) | None => None end.
Proof. reflexivity. Qed.
Lemma ex_push F v e en :
  ex (S F) (SPush v e) en =
  match lookup v en, ev F e en with
  | Some (VStrs l), Some (VStr x) => update v (VStrs (l ++ [x])) en
  | _, _ => None end.
Proof. reflexivity. Qed.
Lemma ex_pop F v en :
  ex (S F) (SPop v) en =
  match lookup v en with Some (VStrs l) => update v (VStrs (removelast l)) en | _ => None end.
Proof. reflexivity. Qed.
Lemma ex_while F c body en :
  ex (S F) (SWhile c body) en =
  match ev F c en with
  | Some (VBool true) => match ex F body en with
                         | Some en1 => ex F (SWhile c body) en1 | None => None end
  | Some (VBool false) => Some en
  | _ => None end.
Proof. reflexivity. Qed.
Lemma ex_if F c t en :
  ex (S F) (SIf c t) en =
  match ev F c en with
  | Some (VBool true) => ex F t en
  | Some (VBool false) => Some en
  | _ => None end.
Proof. reflexivity. Qed.
Lemma ex_insert F m k v en :
  ex (S F) (SInsert m k v) en =
  match lookup m en, lookup k en, ev F v en with
  | Some (VTable t), Some (VStrs p), Some (VStr x) => update m (VTable ((p, x) :: t)) en
  | _, _, _ => None end.
Proof. reflexivity. Qed.

Lemma ev_var F x en : ev (S F) (EVar x) en = lookup x en.
Proof. reflexivity. Qed.
Lemma ev_formatted F x en :
  ev (S F) (EFormattedName x) en =
  match lookup x en with Some (VElem e) => Some (VStr (formatted_name e)) | _ => None end.
Proof. reflexivity. Qed.
Lemma ev_elemname F x en :
  ev (S F) (EElemName x) en =
  match lookup x en with Some (VElem e) => Some (VStr (ename e)) | _ => None end.
Proof. reflexivity. Qed.
Lemma ev_sorted F x en :
  ev (S F) (ESortedChildren x) en =
  match lookup x en with
  | Some (VElem e) => Some (VElems (map snd (isort by_pos (echildren e))))
  | _ => None end.
Proof. reflexivity. Qed.
Lemma ev_cot F x en :
  ev (S F) (EContainsOnlyText x) en =
  match lookup x en with Some (VElem e) => Some (VBool (contains_only_text e)) | _ => None end.
Proof. reflexivity. Qed.
Lemma ev_not F a en :
  ev (S F) (ENot a) en = match ev F a en with Some (VBool b) => Some (VBool (negb b)) | _ => None end.
Proof. reflexivity. Qed.

Lemma update_spec x v (en : env) w :
  lookup x en = Some w ->
  exists en', update x v en = Some en' /\ lookup x en' = Some v /\
              forall y, String.eqb x y = false -> lookup y en' = lookup y en.
Proof.
  induction en as [|[y u] en IH]; cbn [lookup update]; [discriminate|].
  destruct (String.eqb y x) eqn:E.
  - intros _. exists ((y, v) :: en). split; [reflexivity|]. cbn [lookup]. rewrite E.
    split; [reflexivity|]. intros z Hz. apply String.eqb_eq in E. subst y. rewrite Hz. reflexivity.
  - intros H. destruct (IH H) as [en' [H1 [H2 H3]]]. rewrite H1.
    exists ((y, u) :: en'). split; [reflexivity|]. cbn [lookup]. rewrite E.
    split; [exact H2|]. intros z Hz. rewrite (H3 z Hz). reflexivity.
Qed.

(* ====================================================================== *)
(* 1. expand_name_rs                                                       *)
(* ====================================================================== *)

Definition EXPBODY : stmt :=
  SSeq (SLet "name" (EStr []))
    (SIfLetSome "n" (EHintsGet "trace_length" (EFormattedName "self"))
       (SSeq (SLet "start" (ESatSub (ELen "trace") (EVar "n")))
             (SAssign "name" (EJoinFrom "trace" (EVar "start"))))).

(* fails as soon as the translated source changes shape *)
Lemma expand_shape :
  expand_name_rs =
  {| fn_params := ["self"; "trace"; "trace_length"]; fn_body := EXPBODY; fn_result := Some (EVar "name") |}.
Proof. reflexivity. Qed.

Lemma ev_callexpand F x tr h en :
  ev (S F) (ECallExpand x tr h) en =
  match lookup x en, lookup tr en, lookup h en with
  | Some (VElem e), Some (VStrs t), Some (VHints hh) =>
      match ex F EXPBODY [("self", VElem e); ("trace", VStrs t); ("trace_length", VHints hh)] with
      | Some en' => ev F (EVar "name") en'
      | None => None end
  | _, _, _ => None end.
Proof. reflexivity. Qed.

Lemma expbody_exec F e t h :
  6 <= F ->
  exists en', ex F EXPBODY [("self", VElem e); ("trace", VStrs t); ("trace_length", VHints h)] = Some en'
              /\ lookup "name" en' = Some (VStr (expand_name e t h)).
Proof.
  intros HF. do 6 peel F. unfold expand_name.
  destruct (hint_get h (formatted_name e)) as [n|] eqn:E.
  - exists [("start", VNat (List.length t - n)); ("n", VNat n);
            ("name", VStr (List.concat (skipn (List.length t - n) t)));
            ("self", VElem e); ("trace", VStrs t); ("trace_length", VHints h)].
    split; [|reflexivity].
    assert (L : Nat.leb (List.length t - n) (List.length t) = true) by (apply Nat.leb_le; lia).
    unfold EXPBODY. cbn. rewrite E. cbn. rewrite L. reflexivity.
  - exists [("name", VStr []); ("self", VElem e); ("trace", VStrs t); ("trace_length", VHints h)].
    split; [|reflexivity].
    unfold EXPBODY. cbn. rewrite E. reflexivity.
Qed.

(* a call of expand_name from anywhere *)
Lemma ev_call_expand F x tr h en e t hh :
  lookup x en = Some (VElem e) -> lookup tr en = Some (VStrs t) -> lookup h en = Some (VHints hh) ->
  8 <= F ->
  ev F (ECallExpand x tr h) en = Some (VStr (expand_name e t hh)).
Proof.
  intros Hx Ht Hh HF. peel F. rewrite ev_callexpand, Hx, Ht, Hh.
  destruct (expbody_exec F e t hh) as [en' [E L]]; [lia|].
  rewrite E. peel F. rewrite ev_var. exact L.
Qed.

Theorem expand_name_rs_correct : forall e trace h fuel, 12 <= fuel ->
  ev fuel (ECallExpand "x" "t" "h") [("x", VElem e); ("t", VStrs trace); ("h", VHints h)]
  = Some (VStr (expand_name e trace h)).
Proof. intros e trace h fuel H. apply ev_call_expand; try reflexivity. lia. Qed.

(* ====================================================================== *)
(* 2. the pieces of fill_struct_names_rs                                   *)
(* ====================================================================== *)

Definition WC : expr := EContains "used" (EVar "unused_name").
Definition WB : stmt :=
  SSeq (SAddOne "i")
       (SAssign "unused_name" (EFormat [FArg' (EVar "expanded_name"); FArg' (EVar "i")])).
Definition CALLC : stmt := SCallFill "child" "trace" "path" "trace_length" "used" "names".
Definition FBODY : stmt := SIf (ENot (EContainsOnlyText "child")) CALLC.
Definition R10 : stmt := SSeq (SPop "path") (SPop "trace").
Definition R9 : stmt := SSeq (SForElems "child" "children" FBODY) R10.
Definition R8 : stmt := SSeq (SLet "children" (ESortedChildren "element")) R9.
Definition R7 : stmt := SSeq (SInsert "names" "path" (EVar "unused_name")) R8.
Definition R6 : stmt := SSeq (SPush "used" (EVar "unused_name")) R7.
Definition R5 : stmt := SSeq (SWhile WC WB) R6.
Definition R4 : stmt := SSeq (SLet "i" EZero) R5.
Definition R3 : stmt := SSeq (SLet "unused_name" (EVar "expanded_name")) R4.
Definition R2 : stmt := SSeq (SLet "expanded_name" (ECallExpand "element" "trace" "trace_length")) R3.
Definition R1 : stmt := SSeq (SPush "path" (EElemName "element")) R2.
Definition BODYF : stmt := SSeq (SPush "trace" (EFormattedName "element")) R1.

(* fails as soon as the translated source changes shape *)
Lemma fill_shape :
  fill_struct_names_rs =
  {| fn_params := ["element"; "trace"; "path"; "trace_length"; "used"; "names"];
     fn_body := BODYF; fn_result := None |}.
Proof. reflexivity. Qed.

(* the environment at entry of fill_struct_names, and inside the numbering loop *)
Definition envF (e : element) (t p : list str) (h : hints) (u : list str) (n : name_table) : env :=
  [("element", VElem e); ("trace", VStrs t); ("path", VStrs p); ("trace_length", VHints h);
   ("used", VStrs u); ("names", VTable n)].
Definition loop_env (i : nat) (un ex : str) (e : element) (t p : list str) (h : hints)
           (u : list str) (n : name_table) : env :=
  ("i", VNat i) :: ("unused_name", VStr un) :: ("expanded_name", VStr ex) :: envF e t p h u n.

Lemma ex_callfill F el tr pa h us na en :
  ex (S F) (SCallFill el tr pa h us na) en =
  match lookup el en, lookup tr en, lookup pa en, lookup h en, lookup us en, lookup na en with
  | Some (VElem e), Some (VStrs t), Some (VStrs p), Some (VHints hh), Some (VStrs u), Some (VTable n) =>
      match ex F BODYF (envF e t p hh u n) with
      | Some en' =>
          match lookup "trace" en', lookup "path" en', lookup "used" en', lookup "names" en' with
          | Some t', Some p', Some u', Some n' =>
              match update tr t' en with
              | Some e1 => match update pa p' e1 with
                           | Some e2 => match update us u' e2 with
                                        | Some e3 => update na n' e3 | None => None end
                           | None => None end
              | None => None end
          | _, _, _, _ => None end
      | None => None end
  | _, _, _, _, _, _ => None end.
Proof. reflexivity. Qed.

(* the `for` loop, named *)
Definition forl (F : nat) (x : string) (body : stmt) : list element -> env -> option env :=
  fix loop (items : list element) (en : env) {struct items} : option env :=
    match items with
    | [] => Some en
    | i :: r => match ex F body ((x, VElem i) :: en) with
                | Some en' => loop r en' | None => None end
    end.
Lemma ex_for F x v body en :
  ex (S F) (SForElems x v body) en =
  match lookup v en with Some (VElems l) => forl F x body l en | _ => None end.
Proof. reflexivity. Qed.
Lemma forl_cons F x body i r en :
  forl F x body (i :: r) en =
  match ex F body ((x, VElem i) :: en) with Some en' => forl F x body r en' | None => None end.
Proof. reflexivity. Qed.

(* ---------- the numbering loop ---------- *)
Lemma wc_eval F i un exn e t p h u n :
  2 <= F -> ev F WC (loop_env i un exn e t p h u n) = Some (VBool (mem un u)).
Proof. intros H. do 2 peel F. reflexivity. Qed.

Lemma wb_exec F i un exn e t p h u n :
  4 <= F ->
  ex F WB (loop_env i un exn e t p h u n) = Some (loop_env (S i) (cand exn [] (S i)) exn e t p h u n).
Proof.
  intros H. do 4 peel F.
  transitivity (Some (loop_env (S i) (exn ++ dec (S i) ++ []) exn e t p h u n)); [reflexivity|].
  rewrite app_nil_r. reflexivity.
Qed.

Lemma while_loop_ind exn e t p h u nt : forall n i F,
  (forall k, i <= k < i + n -> In (cand exn [] k) u) -> ~ In (cand exn [] (i + n)) u ->
  ex (n + (5 + F)) (SWhile WC WB) (loop_env i (cand exn [] i) exn e t p h u nt)
  = Some (loop_env (i + n) (cand exn [] (i + n)) exn e t p h u nt).
Proof.
  induction n as [|n IH]; intros i F Hin Hout.
  - rewrite Nat.add_0_r in *. change (0 + (5 + F)) with (S (4 + F)).
    rewrite ex_while, wc_eval by lia.
    apply mem_false in Hout. rewrite Hout. reflexivity.
  - change (S n + (5 + F)) with (S (n + (5 + F))).
    rewrite ex_while, wc_eval by lia.
    assert (Hm : mem (cand exn [] i) u = true) by (apply mem_spec, Hin; lia).
    rewrite Hm, wb_exec by lia.
    replace (i + S n) with (S i + n) by lia.
    apply IH.
    + intros k Hk. apply Hin. lia.
    + replace (S i + n) with (i + S n) by lia. exact Hout.
Qed.

Lemma while_loop exn e t p h u nt n F :
  (forall k, k < n -> In (cand exn [] k) u) -> ~ In (cand exn [] n) u -> n + 5 <= F ->
  ex F (SWhile WC WB) (loop_env 0 exn exn e t p h u nt) = Some (loop_env n (cand exn [] n) exn e t p h u nt).
Proof.
  intros Hin Hout HF. replace F with (n + (5 + (F - n - 5))) by lia.
  apply (while_loop_ind exn e t p h u nt n 0).
  - intros k Hk. apply Hin. lia.
  - exact Hout.
Qed.

(* where the model's bounded loop stops: at the first candidate that is not reserved *)
Lemma unused_loop_first l nm sep : forall fuel i,
  ~ In (unused_loop fuel i nm sep l) l ->
  exists n, n <= fuel /\ unused_loop fuel i nm sep l = cand nm sep (i + n) /\
            forall k, i <= k < i + n -> In (cand nm sep k) l.
Proof.
  induction fuel as [|f IH]; intros i; cbn [unused_loop]; fold (cand nm sep i).
  - intros _. exists 0. rewrite Nat.add_0_r. split; [lia|]. split; [reflexivity|]. intros k Hk. lia.
  - destruct (mem (cand nm sep i) l) eqn:M.
    + intros Hout. destruct (IH (S i) Hout) as [n [Hn [E Hin]]].
      exists (S n). split; [lia|]. split.
      * rewrite E. f_equal. lia.
      * intros k Hk. destruct (Nat.eq_dec k i) as [->|Hne]; [now apply mem_spec|]. apply Hin. lia.
    + intros _. exists 0. rewrite Nat.add_0_r. split; [lia|]. split; [reflexivity|]. intros k Hk. lia.
Qed.

(* the unbounded Rust loop stops at the name the model chooses *)
Lemma numbering_loop exn e t p h u nt F :
  List.length u + 6 <= F ->
  exists i, ex F (SWhile WC WB) (loop_env 0 exn exn e t p h u nt)
            = Some (loop_env i (unused_loop (S (List.length u)) 0 exn [] u) exn e t p h u nt).
Proof.
  intros HF.
  destruct (unused_loop_first u exn [] (S (List.length u)) 0 (unused_loop_fresh exn [] u))
    as [n [Hn [E Hin]]].
  pose proof (unused_loop_fresh exn [] u) as Hout. rewrite E in *. cbn [Nat.add] in *.
  exists n. apply while_loop; [|exact Hout|lia].
  intros k Hk. apply Hin. lia.
Qed.

(* ====================================================================== *)
(* 3. the model, with the sorting done level by level                      *)
(* ====================================================================== *)

Fixpoint esize (e : element) : nat :=
  match e with
  | Elem _ _ _ _ _ ch _ =>
      S ((fix go (cs : list (nec * element)) : nat :=
            match cs with [] => 0 | c :: r => esize (snd c) + go r end) ch)
  end.
Fixpoint sizes (l : list (nec * element)) : nat :=
  match l with [] => 0 | c :: r => esize (snd c) + sizes r end.

Lemma esize_eq e : esize e = S (sizes (echildren e)).
Proof. destruct e as [nm tx sa k a ch ps]. reflexivity. Qed.

Lemma sizes_perm l l' : Permutation l l' -> sizes l = sizes l'.
Proof.
  induction 1 as [|x l l' _ IH|x y l|l l' l'' _ IH1 _ IH2]; cbn [sizes]; lia.
Qed.

Lemma sizes_isort l : sizes (isort by_pos l) = sizes l.
Proof. symmetry. apply sizes_perm, isort_perm. Qed.

Definition hs (c : nec * element) : nec * element := (fst c, sort_tree (snd c)).

Lemma epos_sort_tree e : epos (sort_tree e) = epos e.
Proof. destruct e. rewrite sort_tree_eq. reflexivity. Qed.

Lemma expand_name_sort_tree e t h : expand_name (sort_tree e) t h = expand_name e t h.
Proof. unfold expand_name. now rewrite formatted_name_sort_tree. Qed.

(* `isort by_pos` commutes with sorting below: by_pos looks at the positions only *)
Lemma isort_map_hs l : isort by_pos (map hs l) = map hs (isort by_pos l).
Proof.
  induction l as [|x l IH]; [reflexivity|].
  cbn [map isort fold_right]. fold (isort by_pos (map hs l)). fold (isort by_pos l). rewrite IH.
  generalize (isort by_pos l) as r. induction r as [|y r IHr]; [reflexivity|].
  cbn [map insert].
  assert (E : by_pos (hs x) (hs y) = by_pos x y).
  { unfold by_pos, hs. cbn [snd]. now rewrite !epos_sort_tree. }
  rewrite E. destruct (by_pos x y); cbn [map]; [reflexivity|]. now rewrite IHr.
Qed.

Lemma fill_sorted_eq e t p h u n :
  fill_struct_names (sort_tree e) t p h (u, n) =
  let t1 := t ++ [formatted_name e] in
  let p1 := p ++ [ename e] in
  let un := unused_loop (S (List.length u)) 0 (expand_name e t1 h) [] u in
  fsn_list t1 p1 h (map hs (isort by_pos (echildren e))) (u ++ [un], (p1, un) :: n).
Proof.
  rewrite fill_struct_names_eq. unfold struct_candidate. cbn [fst snd].
  rewrite formatted_name_sort_tree, ename_sort_tree, expand_name_sort_tree, echildren_sort_tree.
  change (map (fun c : nec * element => (fst c, sort_tree (snd c))) (echildren e))
    with (map hs (echildren e)).
  rewrite isort_map_hs. reflexivity.
Qed.

Lemma fsn_step_hs t p h st c :
  fsn_step t p h st (hs c) =
  if contains_only_text (snd c) then st else fill_struct_names (sort_tree (snd c)) t p h st.
Proof. unfold fsn_step, hs. cbn [snd]. now rewrite contains_only_text_sort_tree. Qed.

(* ====================================================================== *)
(* 4. the key lemma: running fill_struct_names_rs                          *)
(* ====================================================================== *)

(* what the callee / the loops keep true of the (growing) environment *)
Definition Inv (en : env) (t p : list str) (h : hints) (u : list str) (n : name_table) : Prop :=
  lookup "trace" en = Some (VStrs t) /\ lookup "path" en = Some (VStrs p) /\
  lookup "trace_length" en = Some (VHints h) /\ lookup "used" en = Some (VStrs u) /\
  lookup "names" en = Some (VTable n).

Lemma Inv_cons en t p h u n y v :
  String.eqb y "trace" = false -> String.eqb y "path" = false ->
  String.eqb y "trace_length" = false -> String.eqb y "used" = false ->
  String.eqb y "names" = false ->
  Inv en t p h u n -> Inv ((y, v) :: en) t p h u n.
Proof.
  intros E1 E2 E3 E4 E5 (H1 & H2 & H3 & H4 & H5). unfold Inv. cbn [lookup].
  rewrite E1, E2, E3, E4, E5. auto.
Qed.

Lemma Inv_set_trace en t p h u n t' :
  Inv en t p h u n -> exists en', update "trace" (VStrs t') en = Some en' /\ Inv en' t' p h u n.
Proof.
  intros (H1 & H2 & H3 & H4 & H5).
  destruct (update_spec "trace" (VStrs t') en _ H1) as [en' [U [L K]]].
  exists en'. split; [exact U|]. unfold Inv.
  rewrite (K "path" eq_refl), (K "trace_length" eq_refl), (K "used" eq_refl), (K "names" eq_refl). auto.
Qed.
Lemma Inv_set_path en t p h u n p' :
  Inv en t p h u n -> exists en', update "path" (VStrs p') en = Some en' /\ Inv en' t p' h u n.
Proof.
  intros (H1 & H2 & H3 & H4 & H5).
  destruct (update_spec "path" (VStrs p') en _ H2) as [en' [U [L K]]].
  exists en'. split; [exact U|]. unfold Inv.
  rewrite (K "trace" eq_refl), (K "trace_length" eq_refl), (K "used" eq_refl), (K "names" eq_refl). auto.
Qed.
Lemma Inv_set_used en t p h u n u' :
  Inv en t p h u n -> exists en', update "used" (VStrs u') en = Some en' /\ Inv en' t p h u' n.
Proof.
  intros (H1 & H2 & H3 & H4 & H5).
  destruct (update_spec "used" (VStrs u') en _ H4) as [en' [U [L K]]].
  exists en'. split; [exact U|]. unfold Inv.
  rewrite (K "trace" eq_refl), (K "path" eq_refl), (K "trace_length" eq_refl), (K "names" eq_refl). auto.
Qed.
Lemma Inv_set_names en t p h u n n' :
  Inv en t p h u n -> exists en', update "names" (VTable n') en = Some en' /\ Inv en' t p h u n'.
Proof.
  intros (H1 & H2 & H3 & H4 & H5).
  destruct (update_spec "names" (VTable n') en _ H5) as [en' [U [L K]]].
  exists en'. split; [exact U|]. unfold Inv.
  rewrite (K "trace" eq_refl), (K "path" eq_refl), (K "trace_length" eq_refl), (K "used" eq_refl). auto.
Qed.

(* what a call of fill_struct_names on [e] does, for every state and enough fuel *)
Definition body_ok (e : element) : Prop :=
  forall t p h u n F, 40 * esize e + List.length u + 20 <= F ->
  exists en', ex F BODYF (envF e t p h u n) = Some en' /\
    Inv en' t p h (fst (fill_struct_names (sort_tree e) t p h (u, n)))
                  (snd (fill_struct_names (sort_tree e) t p h (u, n))) /\
    List.length (fst (fill_struct_names (sort_tree e) t p h (u, n))) <= List.length u + esize e.

(* one turn of `for child in children` *)
Lemma fbody_exec c en t p h u n F :
  body_ok (snd c) -> Inv en t p h u n -> 40 * esize (snd c) + List.length u + 22 <= F ->
  exists en', ex F FBODY (("child", VElem (snd c)) :: en) = Some en' /\
    Inv en' t p h (fst (fsn_step t p h (u, n) (hs c))) (snd (fsn_step t p h (u, n) (hs c))) /\
    List.length (fst (fsn_step t p h (u, n) (hs c))) <= List.length u + esize (snd c).
Proof.
  intros Hok HI HF. rewrite fsn_step_hs.
  assert (HI1 : Inv (("child", VElem (snd c)) :: en) t p h u n)
    by (apply Inv_cons; try reflexivity; exact HI).
  do 3 peel F. unfold FBODY. rewrite ex_if, ev_not, ev_cot. lk.
  destruct (contains_only_text (snd c)) eqn:C; cbn [negb].
  - exists (("child", VElem (snd c)) :: en). split; [reflexivity|]. split; [exact HI1|].
    cbn [fst]. lia.
  - destruct (Hok t p h u n (S F)) as (en' & E & HI' & HL); [lia|].
    set (r := fill_struct_names (sort_tree (snd c)) t p h (u, n)) in *.
    destruct (Inv_set_trace _ _ _ _ _ _ t HI1) as [e1 [U1 I1]].
    destruct (Inv_set_path _ _ _ _ _ _ p I1) as [e2 [U2 I2]].
    destruct (Inv_set_used _ _ _ _ _ _ (fst r) I2) as [e3 [U3 I3]].
    destruct (Inv_set_names _ _ _ _ _ _ (snd r) I3) as [e4 [U4 I4]].
    exists e4. split; [|split; [exact I4|exact HL]].
    unfold CALLC. rewrite ex_callfill.
    destruct HI1 as (L1 & L2 & L3 & L4 & L5). rewrite L1, L2, L3, L4, L5.
    replace (lookup "child" (("child", VElem (snd c)) :: en)) with (Some (VElem (snd c))) by reflexivity.
    rewrite E.
    destruct HI' as (K1 & K2 & K3 & K4 & K5). rewrite K1, K2, K4, K5.
    rewrite U1, U2, U3. exact U4.
Qed.

Lemma for_loop t p h F : forall items,
  Forall (fun c => body_ok (snd c)) items ->
  forall en u n, Inv en t p h u n -> 40 * sizes items + List.length u + 22 <= F ->
  exists en', forl F "child" FBODY (map snd items) en = Some en' /\
    Inv en' t p h (fst (fsn_list t p h (map hs items) (u, n))) (snd (fsn_list t p h (map hs items) (u, n))) /\
    List.length (fst (fsn_list t p h (map hs items) (u, n))) <= List.length u + sizes items.
Proof.
  induction items as [|c items IH]; intros Hall en u n HI HF.
  - exists en. split; [reflexivity|]. split; [exact HI|]. cbn. lia.
  - inversion Hall as [|c' items' Hc Hrest]; subst c' items'.
    assert (Es : sizes (c :: items) = esize (snd c) + sizes items) by reflexivity.
    destruct (fbody_exec c en t p h u n F Hc HI) as (en1 & E1 & HI1 & HL1); [lia|].
    cbn [map]. rewrite forl_cons, E1.
    unfold fsn_list. cbn [fold_left]. fold (fsn_list t p h (map hs items) (fsn_step t p h (u, n) (hs c))).
    destruct (fsn_step t p h (u, n) (hs c)) as [u1 n1] eqn:Est. cbn [fst snd] in HI1, HL1.
    destruct (IH Hrest en1 u1 n1 HI1) as (en2 & E2 & HI2 & HL2); [lia|].
    exists en2. split; [exact E2|]. split; [exact HI2|]. lia.
Qed.

Lemma ev_zero F en : ev (S F) EZero en = Some (VNat 0).
Proof. reflexivity. Qed.

Lemma body_step e : Forall (fun c => body_ok (snd c)) (echildren e) -> body_ok e.
Proof.
  intros IH t p h u n F HF.
  rewrite fill_sorted_eq. cbv zeta.
  set (t1 := t ++ [formatted_name e]). set (p1 := p ++ [ename e]).
  set (exn := expand_name e t1 h).
  set (un := unused_loop (S (List.length u)) 0 exn [] u).
  rewrite esize_eq in HF |- *.
  set (items := isort by_pos (echildren e)).
  assert (Hall : Forall (fun c => body_ok (snd c)) items) by (apply isort_Forall; exact IH).
  assert (Hsz : sizes items = sizes (echildren e)) by apply sizes_isort.
  do 12 peel F.
  unfold BODYF, envF. rewrite ex_seq, ex_push, ev_formatted. lk. fold t1.
  unfold R1. rewrite ex_seq, ex_push, ev_elemname. lk. fold p1.
  unfold R2. rewrite ex_seq, ex_let.
  rewrite (ev_call_expand _ "element" "trace" "trace_length" _ e t1 h) by first [reflexivity|lia].
  fold exn.
  unfold R3. rewrite ex_seq, ex_let, ev_var. lk.
  unfold R4. rewrite ex_seq, ex_let, ev_zero.
  unfold R5. rewrite ex_seq.
  destruct (numbering_loop exn e t1 p1 h u n (S (S (S (S (S (S F))))))) as [i Ei]; [lia|].
  fold un in Ei. unfold loop_env, envF in Ei. rewrite Ei.
  unfold R6. rewrite ex_seq, ex_push, ev_var. lk.
  unfold R7. rewrite ex_seq, ex_insert, ev_var. lk.
  unfold R8. rewrite ex_seq, ex_let, ev_sorted. lk. fold items.
  unfold R9. rewrite ex_seq, ex_for. lk.
  match goal with |- context [forl _ _ _ _ ?en0] => set (en_for := en0) end.
  assert (HI0 : Inv en_for t1 p1 h (u ++ [un]) ((p1, un) :: n)) by (repeat split).
  destruct (for_loop t1 p1 h (S F) items Hall en_for _ _ HI0) as (en1 & E1 & HI1 & HL1).
  { rewrite app_length. cbn [List.length]. lia. }
  rewrite E1.
  destruct (Inv_set_path _ _ _ _ _ _ (removelast p1) HI1) as [en2 [U2 HI2]].
  destruct (Inv_set_trace _ _ _ _ _ _ (removelast t1) HI2) as [en3 [U3 HI3]].
  exists en3. split; [|split].
  - unfold R10. rewrite ex_seq, ex_pop.
    destruct HI1 as (_ & L2 & _). rewrite L2, U2.
    rewrite ex_pop. destruct HI2 as (L1 & _). rewrite L1. exact U3.
  - unfold t1, p1 in HI3. rewrite !removelast_last in HI3. exact HI3.
  - rewrite app_length in HL1. cbn [List.length] in HL1. eapply Nat.le_trans; [exact HL1|lia].
Qed.

Lemma body_all e : body_ok e.
Proof. induction e using element_ind'. apply body_step. assumption. Qed.

(* a call of fill_struct_names on any element, any state: trace and path come back unchanged,
   (used, names) are those of the model on the hereditarily sorted tree *)
Theorem fill_struct_names_rs_correct : forall e t p h u n F,
  40 * esize e + List.length u + 20 <= F ->
  exists en', ex F BODYF (envF e t p h u n) = Some en' /\
    lookup "trace" en' = Some (VStrs t) /\ lookup "path" en' = Some (VStrs p) /\
    lookup "used" en' = Some (VStrs (fst (fill_struct_names (sort_tree e) t p h (u, n)))) /\
    lookup "names" en' = Some (VTable (snd (fill_struct_names (sort_tree e) t p h (u, n)))).
Proof.
  intros e t p h u n F HF.
  destruct (body_all e t p h u n F HF) as (en' & E & (L1 & L2 & _ & L4 & L5) & _).
  exists en'. auto.
Qed.

(* ====================================================================== *)
(* 5. compute_struct_names_rs                                              *)
(* ====================================================================== *)

Definition CBODY : stmt :=
  SSeq (SLet "names" ENewTable)
    (SSeq (SLet "used" (EStrsLit [s "Self"; s "String"; s "Option"; s "Vec"]))
       (SSeq (SLet "_tmp0" ENewVec)
          (SSeq (SLet "_tmp1" ENewVec)
             (SCallFill "self" "_tmp0" "_tmp1" "trace_length" "used" "names")))).

(* fails as soon as the translated source changes shape *)
Lemma compute_shape :
  compute_struct_names_rs =
  {| fn_params := ["self"; "trace_length"]; fn_body := CBODY; fn_result := Some (EVar "names") |}.
Proof. reflexivity. Qed.

Lemma reserved_lit : [s "Self"; s "String"; s "Option"; s "Vec"] = reserved_struct_names.
Proof. reflexivity. Qed.

Definition fuel_names (e : element) : nat := 40 * esize e + 40.
Lemma fuel_names_eq e : fuel_names e = 40 * esize e + 40.
Proof. reflexivity. Qed.

Lemma cbody_pre F e h :
  ex (S (S (S (S (S (S F)))))) CBODY [("self", VElem e); ("trace_length", VHints h)] =
  ex (S (S F)) (SCallFill "self" "_tmp0" "_tmp1" "trace_length" "used" "names")
     [("_tmp1", VStrs []); ("_tmp0", VStrs []); ("used", VStrs reserved_struct_names);
      ("names", VTable []); ("self", VElem e); ("trace_length", VHints h)].
Proof. reflexivity. Qed.

Lemma compute_rs_correct_tight e h fuel :
  40 * esize e + 29 <= fuel ->
  run_compute expand_name_rs fill_struct_names_rs fuel compute_struct_names_rs e h
  = Some (compute_struct_names e h).
Proof.
  intros HF. unfold run_compute. rewrite compute_shape. cbn [fn_params fn_body fn_result].
  assert (Hex : exists en', ex fuel CBODY [("self", VElem e); ("trace_length", VHints h)] = Some en' /\
                  lookup "names" en' = Some (VTable (compute_struct_names e h))).
  { remember fuel as G eqn:EG. do 6 peel G.
    destruct (fill_struct_names_rs_correct e [] [] h reserved_struct_names [] (S G))
      as (en' & E & L1 & L2 & L4 & L5).
    { change (List.length reserved_struct_names) with 4. lia. }
    rewrite cbody_pre, ex_callfill. lk. rewrite E, L1, L2, L4, L5. lk.
    eexists. split; [reflexivity|]. reflexivity. }
  destruct Hex as [en' [E L]]. rewrite E.
  peel fuel. rewrite ev_var, L. reflexivity.
Qed.

Theorem compute_struct_names_rs_correct : forall e h fuel, fuel_names e <= fuel ->
  run_compute expand_name_rs fill_struct_names_rs fuel compute_struct_names_rs e h
  = Some (compute_struct_names e h).
Proof. intros e h fuel H. apply compute_rs_correct_tight. unfold fuel_names in H. lia. Qed.

(* transported: the struct names the translated source enters in its table are pairwise different *)
Lemma compute_struct_names_values_nodup e h : NoDup (map snd (compute_struct_names e h)).
Proof.
  destruct (compute_struct_names_spec e h) as (new & E & _ & N).
  rewrite E, map_rev. apply NoDup_rev.
  apply nodup_app_inv in N. destruct N as (_ & N & _). exact N.
Qed.

Theorem compute_struct_names_rs_unique : forall e fuel, fuel_names e <= fuel ->
  exists t, run_compute expand_name_rs fill_struct_names_rs fuel compute_struct_names_rs e
              (compute_name_hints e) = Some t /\ NoDup (map snd t).
Proof.
  intros e fuel H. exists (compute_struct_names e (compute_name_hints e)).
  split; [now apply compute_struct_names_rs_correct|apply compute_struct_names_values_nodup].
Qed.

(* ---------- examples ---------- *)
Definition price (p : nat) : element := Elem (s "Price") false true 1 [(Mand, s "k")] [] (Some p).
Definition total : element := Elem (s "Total") false true 1 [] [(Mand, price 0%nat)] (Some 2%nat).
Definition other : element := Elem (s "Other") false true 1 [] [(Mand, price 0%nat)] (Some 0%nat).
Definition tp : element := Elem (s "TotalPrice") false true 1 [(Mand, s "k")] [] (Some 1%nat).
Definition txt : element := Elem (s "note") true true 1 [] [] (Some 3%nat).
Definition slf : element := Elem (s "self") false true 1 [(Mand, s "k")] [] (Some 4%nat).
Definition r0 : element :=
  Elem (s "r") false true 1 [] [(Mand, total); (Opt, tp); (Mand, other); (Mand, txt); (Mand, slf)] None.

Example expand_name_rs_example :
  12 <= 12 /\
  ev 12 (ECallExpand "x" "t" "h")
     [("x", VElem (price 0)); ("t", VStrs [s "R"; s "Total"; s "Price"]); ("h", VHints [(s "Price", 2)])]
  = Some (VStr (s "TotalPrice")).
Proof. split; [lia|vm_compute; reflexivity]. Qed.

Example compute_struct_names_rs_example :
  fuel_names r0 <= 400 /\
  run_compute expand_name_rs fill_struct_names_rs 400 compute_struct_names_rs r0 (compute_name_hints r0)
  = Some (compute_struct_names r0 (compute_name_hints r0)) /\
  run_compute expand_name_rs fill_struct_names_rs 200 compute_struct_names_rs r0 (compute_name_hints r0)
  = Some [([s "r"; s "self"], s "Self1");
          ([s "r"; s "Total"; s "Price"], s "TotalPrice1");
          ([s "r"; s "Total"], s "Total");
          ([s "r"; s "TotalPrice"], s "TotalPrice");
          ([s "r"; s "Other"; s "Price"], s "OtherPrice");
          ([s "r"; s "Other"], s "Other");
          ([s "r"], s "R")].
Proof. split; [vm_compute; lia|]. split; vm_compute; reflexivity. Qed.

Example body_ok_example : body_ok r0 /\ 40 * esize r0 + 4 + 20 <= 400.
Proof. split; [apply body_all|vm_compute; lia]. Qed.
