(* Representation invariant of the parser: "element e has absorbed exactly the occurrence
   list os", and the in-flight invariant for the loop over the children of the current
   occurrence.  Definitions and the list-level lemmas about the specification. *)
From XSG.Model Require Import Strings Necessity Element Parser Dom Spec.
From XSG.Proofs Require Import StringsProofs NecessityProofs ElementProofs SpecProofs SkelProofs.
From Coq Require Import Lia Permutation.

(* well-formedness the reader guarantees: no duplicate attribute on any element *)
Inductive wf_node : node -> Prop :=
| wf_elem : forall n ef a ks, NoDup a -> Forall wf_node ks -> wf_node (NElem n ef a ks)
| wf_text : wf_node NText | wf_cdata : wf_node NCData | wf_misc : wf_node NMisc.

(* ---------- vocabulary on kid lists ---------- *)
Definition elem_names (ks : list node) : list str :=
  flat_map (fun k => match k with NElem m _ _ _ => [m] | _ => [] end) ks.
Definition named (m : str) (ks : list node) : list node := filter (is_elem_named m) ks.
Definition chardata (ks : list node) : bool :=
  existsb (fun k => match k with NText | NCData => true | _ => false end) ks.

Lemma okidnames_eq o : okidnames o = elem_names (okids o). Proof. reflexivity. Qed.
Lemma kids_named_eq m o : kids_named m o = named m (okids o). Proof. reflexivity. Qed.
Lemma has_text_eq o : has_text o = chardata (okids o). Proof. reflexivity. Qed.
Lemma elem_names_app a b : elem_names (a ++ b) = elem_names a ++ elem_names b.
Proof. apply flat_map_app. Qed.
Lemma named_app m a b : named m (a ++ b) = named m a ++ named m b.
Proof. apply filter_app. Qed.
Lemma chardata_app a b : chardata (a ++ b) = chardata a || chardata b.
Proof. apply existsb_app. Qed.

Lemma named_nil_iff m ks : named m ks = [] <-> ~ In m (elem_names ks).
Proof.
  induction ks as [|k ks IH]; simpl; [tauto|].
  destruct k as [n ef a kk| | |]; simpl; auto.
  destruct (str_eqb_spec n m) as [E|E]; simpl.
  - split; [discriminate|]. intros H; exfalso; apply H; auto.
  - rewrite IH. tauto.
Qed.
Lemma named_all_named m ks : Forall (fun k => exists ef a kk, k = NElem m ef a kk) (named m ks).
Proof.
  induction ks as [|k ks IH]; simpl; auto.
  destruct k as [n ef a kk| | |]; simpl; auto.
  destruct (str_eqb_spec n m) as [E|E]; auto. constructor; auto. subst. eauto.
Qed.

(* ---------- the representation invariant ---------- *)
Definition child_tag (m : str) (os : list node) : nec := if spec_mand m os then Mand else Opt.
Definition names_of (os : list node) : list str := dedup (flat_map okidnames os).

Inductive Repr : element -> list node -> Prop :=
| Repr_intro : forall n t x k a ch p os,
    t = existsb has_text os ->
    k = N.of_nat (length os) ->
    a = spec_attrs os ->
    NoDup (child_names ch) ->
    (forall m, In m (child_names ch) <-> In m (flat_map okidnames os)) ->
    Forall (fun c =>
              fst c = child_tag (cname c) os
              /\ estandalone (snd c) = spec_single (cname c) os
              /\ epos (snd c) = Some (index_of (cname c) (names_of os))
              /\ Repr (snd c) (flat_map (kids_named (cname c)) os)) ch ->
    Repr (Elem n t x k a ch p) os.

Definition ChildOK (os : list node) (c : nec * element) : Prop :=
  fst c = child_tag (cname c) os
  /\ estandalone (snd c) = spec_single (cname c) os
  /\ epos (snd c) = Some (index_of (cname c) (names_of os))
  /\ Repr (snd c) (flat_map (kids_named (cname c)) os).

Lemma Repr_inv e os : Repr e os ->
  etext e = existsb has_text os /\ ecount e = N.of_nat (length os) /\ eattrs e = spec_attrs os
  /\ NoDup (child_names (echildren e))
  /\ (forall m, In m (child_names (echildren e)) <-> In m (flat_map okidnames os))
  /\ Forall (ChildOK os) (echildren e).
Proof. intros H; inversion H; subst; simpl. repeat split; auto; apply H4. Qed.
Lemma Repr_make e os :
  etext e = existsb has_text os -> ecount e = N.of_nat (length os) -> eattrs e = spec_attrs os ->
  NoDup (child_names (echildren e)) ->
  (forall m, In m (child_names (echildren e)) <-> In m (flat_map okidnames os)) ->
  Forall (ChildOK os) (echildren e) -> Repr e os.
Proof. destruct e; simpl; intros; subst; constructor; auto. Qed.

(* ---------- in-flight invariant: complete occurrences os, current occurrence's kids read so far ---------- *)
Definition MidChild (os done : list node) (d : nec * element) : Prop :=
  let m := cname d in
  let cur := named m done in
  Repr (snd d) (flat_map (kids_named m) os ++ cur)
  /\ epos (snd d) = Some (index_of m (dedup (flat_map okidnames os ++ elem_names done)))
  /\ estandalone (snd d) = spec_single m os && (length cur <=? 1)%nat
  /\ (cur <> [] -> fst d = Mand)
  /\ (cur = [] -> fst d = child_tag m os).

Definition MidKids (c : element) (os done : list node) : Prop :=
  NoDup (child_names (echildren c))
  /\ (forall m, In m (child_names (echildren c)) <-> In m (flat_map okidnames os) \/ In m (elem_names done))
  /\ Forall (MidChild os done) (echildren c).

Definition Mid (c : element) (os done : list node) (A : list (nec * str)) : Prop :=
  etext c = existsb has_text os || chardata done
  /\ ecount c = N.of_nat (S (length os))
  /\ eattrs c = A
  /\ MidKids c os done.

(* ---------- specification lemmas ---------- *)
Lemma flat_map_snoc {A B} (f : A -> list B) l x : flat_map f (l ++ [x]) = flat_map f l ++ f x.
Proof. rewrite flat_map_app. simpl. now rewrite app_nil_r. Qed.

Lemma forallb_snoc {A} (f : A -> bool) l x : forallb f (l ++ [x]) = forallb f l && f x.
Proof. rewrite forallb_app. simpl. now rewrite andb_true_r. Qed.
Lemma existsb_snoc {A} (f : A -> bool) l x : existsb f (l ++ [x]) = existsb f l || f x.
Proof. rewrite existsb_app. simpl. now rewrite orb_false_r. Qed.

Lemma spec_mand_snoc m os o : spec_mand m (os ++ [o]) = spec_mand m os && negb (is_nil (kids_named m o)).
Proof. unfold spec_mand. now rewrite forallb_snoc. Qed.
Lemma spec_single_snoc m os o :
  spec_single m (os ++ [o]) = spec_single m os && (length (kids_named m o) <=? 1)%nat.
Proof. unfold spec_single. now rewrite forallb_snoc. Qed.

Lemma kids_named_absent m os :
  ~ In m (flat_map okidnames os) -> forall o, In o os -> kids_named m o = [].
Proof.
  intros H o Ho. rewrite kids_named_eq. apply named_nil_iff. intros Hc. apply H.
  apply in_flat_map. exists o. split; auto.
Qed.
Lemma flat_kids_named_absent m os : ~ In m (flat_map okidnames os) -> flat_map (kids_named m) os = [].
Proof.
  intros H. induction os as [|o os IH]; simpl; auto.
  rewrite (kids_named_absent m (o :: os) H o); simpl; auto.
  apply IH. intros Hc. apply H. simpl. apply in_or_app. auto.
Qed.
Lemma spec_single_absent m os : ~ In m (flat_map okidnames os) -> spec_single m os = true.
Proof.
  intros H. unfold spec_single. apply forallb_forall. intros o Ho.
  now rewrite (kids_named_absent m os H o Ho).
Qed.
Lemma spec_mand_absent m os : os <> [] -> ~ In m (flat_map okidnames os) -> spec_mand m os = false.
Proof.
  intros Hne H. destruct os as [|o os]; [congruence|]. unfold spec_mand. simpl.
  rewrite (kids_named_absent m (o :: os) H o); simpl; auto.
Qed.

(* attributes: merging one more occurrence *)
Lemma find_nec_map_mand a B :
  find_nec str_eqb a (map (fun x => (Mand, x)) B) = if mem a B then Some Mand else None.
Proof.
  induction B as [|b B IH]; simpl; auto. rewrite (str_eqb_sym a b).
  destruct (str_eqb b a); simpl; auto.
Qed.
Lemma spec_attrs_snoc os o :
  os <> [] -> NoDup (oattrs o) ->
  merge_necessity str_eqb (spec_attrs os) (map (fun a => (Mand, a)) (oattrs o)) = spec_attrs (os ++ [o]).
Proof.
  intros Hne Hnd.
  rewrite (merge_characterisation str_eqb str_eqb_spec).
  2:{ unfold items. rewrite map_map. simpl. now rewrite map_id. }
  unfold spec_attrs at 3. rewrite flat_map_snoc, dedup_app, map_app. f_equal.
  - unfold spec_attrs. rewrite map_map. apply map_ext. intros a. simpl.
    unfold conj_tag. simpl. rewrite find_nec_map_mand, forallb_snoc.
    destruct (forallb (fun o0 => mem a (oattrs o0)) os), (mem a (oattrs o)); reflexivity.
  - unfold items. rewrite !map_map. simpl. rewrite map_id.
    rewrite (dedup_nodup_id _ Hnd).
    assert (E : map snd (spec_attrs os) = dedup (flat_map oattrs os)).
    { unfold spec_attrs. rewrite map_map. simpl. apply map_id. }
    rewrite E.
    transitivity (map (fun a => (Opt, a)) (filter (fun y => negb (mem y (flat_map oattrs os))) (oattrs o))).
    + f_equal. apply filter_ext. intros y. unfold memA. fold (mem y (dedup (flat_map oattrs os))).
      now rewrite mem_dedup.
    + apply map_ext_in. intros y Hy. apply filter_In in Hy. destruct Hy as [_ Hy].
      apply negb_true_iff, mem_false in Hy.
      rewrite forallb_snoc. destruct os as [|o1 os]; [congruence|]. simpl.
      replace (mem y (oattrs o1)) with false; auto.
      symmetry. apply mem_false. intros Hc. apply Hy. simpl. apply in_or_app. auto.
Qed.
Lemma spec_attrs_single o : NoDup (oattrs o) -> spec_attrs [o] = map (fun a => (Mand, a)) (oattrs o).
Proof.
  intros Hnd. unfold spec_attrs. simpl. rewrite app_nil_r, (dedup_nodup_id _ Hnd).
  apply map_ext_in. intros a Ha. apply mem_spec in Ha. now rewrite Ha.
Qed.
