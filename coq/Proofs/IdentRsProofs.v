(* C04, source level: running the terms GENERATED from src/element/identifier.rs
   (Generated/IdentRs.v: `create_unused_name_rs`, `map_new_rs`) in the RustIdent evaluator (on fuel)
   computes the model functions `create_unused_name` / `id_new` of Model/Render.v, for every input and
   every fuel above a linear bound.  The unbounded Rust loop `while reserved.contains(&unused)` stops
   where the model's bounded `unused_loop` stops (IdentProofs: the candidates are pairwise distinct). *)
From XSG.Model Require Import Strings Chars Convert Necessity Element Render RustIdent.
From XSG.Generated Require Import IdentRs.
From XSG.Proofs Require Import StringsProofs IdentProofs.
From Coq Require Import String Lia.
Open Scope string_scope.
Open Scope list_scope.
Open Scope nat_scope.

Local Notation crs := create_unused_name_rs.
Local Notation ev := (eval create_unused_name_rs).
Local Notation ex := (exec create_unused_name_rs).

Ltac peel F := destruct F as [|F]; [exfalso; lia|].
Ltac lk := cbn [lookup update String.eqb Ascii.eqb Bool.eqb].

(* ====================================================================== *)
(* 0. one-step unfoldings of the evaluator                                 *)
(* ====================================================================== *)

Lemma ex_seq F s1 s2 en :
  ex (S F) (SSeq s1 s2) en = match ex F s1 en with Some (en1, None) => ex F s2 en1 | r => r end.
Proof. reflexivity. Qed.
Lemma ex_let F x e en :
  ex (S F) (SLet x e) en = match ev F e en with Some (v, en1) => Some ((x, v) :: en1, None) | None => None end.
Proof. reflexivity. Qed.
Lemma ex_ifreturn F c e en :
  ex (S F) (SIfReturn c e) en =
  match ev F c en with
  | Some (VBool true, en1) => match ev F e en1 with Some (v, en2) => Some (en2, Some v) | None => None end
  | Some (VBool false, en1) => Some (en1, None)
  | _ => None end.
Proof. reflexivity. Qed.
Lemma ex_while F c body en :
  ex (S F) (SWhile c body) en =
  match ev F c en with
  | Some (VBool true, en1) =>
      match ex F body en1 with
      | Some (en2, None) => ex F (SWhile c body) en2
      | r => r end
  | Some (VBool false, en1) => Some (en1, None)
  | _ => None end.
Proof. reflexivity. Qed.
Lemma ex_insert F m k t v en :
  ex (S F) (SInsert m k t v) en =
  match ev F k en with
  | Some (VStr kk, en1) =>
      match ev F v en1 with
      | Some (VStr vv, en2) =>
          match lookup m en2 with
          | Some (VMap mm) => match update m (VMap (mm ++ [((kk, t), vv)])) en2 with
                              | Some en3 => Some (en3, None) | None => None end
          | _ => None end
      | _ => None end
  | _ => None end.
Proof. reflexivity. Qed.

Lemma ev_var F x en :
  ev (S F) (EVar x) en = match lookup x en with Some v => Some (v, en) | None => None end.
Proof. reflexivity. Qed.
Lemma ev_str F l en : ev (S F) (EStr l) en = Some (VStr l, en).
Proof. reflexivity. Qed.
Lemma ev_ty F t en : ev (S F) (ETy t) en = Some (VTy t, en).
Proof. reflexivity. Qed.
Lemma ev_and F a b en :
  ev (S F) (EAnd a b) en =
  match ev F a en with
  | Some (VBool false, en1) => Some (VBool false, en1)
  | Some (VBool true, en1) => match ev F b en1 with
                              | Some (VBool y, en2) => Some (VBool y, en2) | _ => None end
  | _ => None end.
Proof. reflexivity. Qed.
Lemma ev_tovalidkey F a b en :
  ev (S F) (EToValidKey a b) en =
  match ev F a en with
  | Some (VStr x, en1) => match ev F b en1 with
                          | Some (VStr y, en2) => Some (VStr (to_valid_key x y), en2) | _ => None end
  | _ => None end.
Proof. reflexivity. Qed.
Lemma ev_childname F x en :
  ev (S F) (EChildName x) en = match lookup x en with Some (VChild c) => Some (VStr (ename (snd c)), en) | _ => None end.
Proof. reflexivity. Qed.
Lemma ev_attrname F x en :
  ev (S F) (EAttrName x) en = match lookup x en with Some (VAttr a) => Some (VStr (snd a), en) | _ => None end.
Proof. reflexivity. Qed.

(* conjunction of two conditions that leave the environment alone *)
Lemma ev_and_pure F a b en x y :
  ev F a en = Some (VBool x, en) -> ev F b en = Some (VBool y, en) ->
  ev (S F) (EAnd a b) en = Some (VBool (x && y), en).
Proof. intros Ha Hb. rewrite ev_and, Ha. destruct x; [rewrite Hb|]; reflexivity. Qed.

Lemma ifret_false F c e en :
  ev F c en = Some (VBool false, en) -> ex (S F) (SIfReturn c e) en = Some (en, None).
Proof. intros H. rewrite ex_ifreturn, H. reflexivity. Qed.
Lemma ifret_true F c e en v en2 :
  ev F c en = Some (VBool true, en) -> ev F e en = Some (v, en2) ->
  ex (S F) (SIfReturn c e) en = Some (en2, Some v).
Proof. intros H He. rewrite ex_ifreturn, H, He. reflexivity. Qed.

Lemma update_spec x v (en : env) w :
  lookup x en = Some w ->
  exists en', update x v en = Some en' /\ lookup x en' = Some v /\
              forall y, String.eqb x y = false -> lookup y en' = lookup y en.
Proof.
  induction en as [|[y u] en IH]; cbn [lookup update]; [discriminate|].
  destruct (String.eqb y x) eqn:E.
  - intros _. exists ((y, v) :: en). split; [reflexivity|]. cbn [lookup]. rewrite E.
    split; [reflexivity|]. intros z Hz. apply String.eqb_eq in E. subst y. rewrite Hz. reflexivity.
  - intros H. destruct (IH H) as [en' [H1 [H2 H3]]]. rewrite H1.
    exists ((y, u) :: en'). split; [reflexivity|]. cbn [lookup]. rewrite E.
    split; [exact H2|]. intros z Hz. rewrite (H3 z Hz). reflexivity.
Qed.

(* ====================================================================== *)
(* 1. the pieces of create_unused_name_rs                                  *)
(* ====================================================================== *)

Definition C1 : expr :=
  EAnd (EAnd (ETypeIs "r_type" TText) (EEq (EStr (s "text")) (EVar "name")))
       (EContains (EReserved "self") (EVar "name")).
Definition R1 : expr := ECallCreate "self" (EStr (s "text_content")) (EVar "r_type").
Definition C2 : expr :=
  EAnd (EAnd (ETypeIs "r_type" TAttr) (EContains (EReserved "self") (EVar "name")))
       (ENot (EEndsWith (EVar "name") (s "_attr"))).
Definition FMT_ATTR : expr := EFormat [FArg (EVar "name"); FLit (s "_attr")].
Definition R2 : expr := ECallCreate "self" FMT_ATTR (EVar "r_type").
Definition WC : expr := EContains (EReserved "self") (EVar "unused_name").
Definition WB : stmt :=
  SSeq (SAddOne "i")
       (SAssign "unused_name" (EFormat [FArg (EVar "name"); FLit (s "_"); FArg (EVar "i")])).
Definition PUSH : stmt := SPushReserved "self" (EVar "unused_name").
Definition TAIL : stmt :=
  SSeq (SLet "unused_name" (EVar "name")) (SSeq (SLet "i" EZero) (SSeq (SWhile WC WB) PUSH)).
Definition BODY : stmt := SSeq (SIfReturn C1 R1) (SSeq (SIfReturn C2 R2) TAIL).

(* fails as soon as the translated source changes shape *)
Lemma create_shape :
  create_unused_name_rs =
  {| fn_params := ["self"; "name"; "r_type"]; fn_body := BODY; fn_result := EVar "unused_name" |}.
Proof. reflexivity. Qed.

(* the environment at entry, and inside the numbering loop *)
Definition env0 (l : list str) (x : str) (t : idty) : env :=
  [("self", VReserved l); ("name", VStr x); ("r_type", VTy t)].
Definition loop_env (i : nat) (u : str) (l : list str) (x : str) (t : idty) : env :=
  [("i", VNat i); ("unused_name", VStr u); ("self", VReserved l); ("name", VStr x); ("r_type", VTy t)].

(* ---------- the numbering loop ---------- *)
Lemma wc_eval F i u l x t :
  2 <= F -> ev F WC (loop_env i u l x t) = Some (VBool (mem u l), loop_env i u l x t).
Proof. intros H. do 2 peel F. reflexivity. Qed.

Lemma wb_exec F i u l x t :
  4 <= F ->
  ex F WB (loop_env i u l x t) = Some (loop_env (S i) (cand x [us] (S i)) l x t, None).
Proof.
  intros H. do 4 peel F.
  transitivity (Some (loop_env (S i) (x ++ s "_" ++ dec (S i) ++ []) l x t, @None val)); [reflexivity|].
  rewrite app_nil_r. reflexivity.
Qed.

Lemma while_loop_ind l x t : forall n i F,
  (forall k, i <= k < i + n -> In (cand x [us] k) l) -> ~ In (cand x [us] (i + n)) l ->
  ex (n + (5 + F)) (SWhile WC WB) (loop_env i (cand x [us] i) l x t)
  = Some (loop_env (i + n) (cand x [us] (i + n)) l x t, None).
Proof.
  induction n as [|n IH]; intros i F Hin Hout.
  - rewrite Nat.add_0_r in *. change (0 + (5 + F)) with (S (4 + F)).
    rewrite ex_while, wc_eval by lia.
    apply mem_false in Hout. rewrite Hout. reflexivity.
  - change (S n + (5 + F)) with (S (n + (5 + F))).
    rewrite ex_while, wc_eval by lia.
    assert (Hm : mem (cand x [us] i) l = true) by (apply mem_spec, Hin; lia).
    rewrite Hm, wb_exec by lia.
    replace (i + S n) with (S i + n) by lia.
    apply IH.
    + intros k Hk. apply Hin. lia.
    + replace (S i + n) with (i + S n) by lia. exact Hout.
Qed.

Lemma while_loop l x t n F :
  (forall k, k < n -> In (cand x [us] k) l) -> ~ In (cand x [us] n) l -> n + 5 <= F ->
  ex F (SWhile WC WB) (loop_env 0 (cand x [us] 0) l x t) = Some (loop_env n (cand x [us] n) l x t, None).
Proof.
  intros Hin Hout HF. replace F with (n + (5 + (F - n - 5))) by lia.
  apply (while_loop_ind l x t n 0).
  - intros k Hk. apply Hin. lia.
  - exact Hout.
Qed.

(* where the model's bounded loop stops: at the first candidate that is not reserved *)
Lemma unused_loop_first l nm sep : forall fuel i,
  ~ In (unused_loop fuel i nm sep l) l ->
  exists n, n <= fuel /\ unused_loop fuel i nm sep l = cand nm sep (i + n) /\
            forall k, i <= k < i + n -> In (cand nm sep k) l.
Proof.
  induction fuel as [|f IH]; intros i; cbn [unused_loop]; fold (cand nm sep i).
  - intros _. exists 0. rewrite Nat.add_0_r. split; [lia|]. split; [reflexivity|]. intros k Hk. lia.
  - destruct (mem (cand nm sep i) l) eqn:M.
    + intros Hout. destruct (IH (S i) Hout) as [n [Hn [E Hin]]].
      exists (S n). split; [lia|]. split.
      * rewrite E. f_equal. lia.
      * intros k Hk. destruct (Nat.eq_dec k i) as [->|Hne]; [now apply mem_spec|]. apply Hin. lia.
    + intros _. exists 0. rewrite Nat.add_0_r. split; [lia|]. split; [reflexivity|]. intros k Hk. lia.
Qed.

(* ---------- the straight-line code around the loop ---------- *)
Lemma tail_pre F l x t :
  ex (S (S (S (S F)))) TAIL (env0 l x t) =
  match ex (S F) (SWhile WC WB) (loop_env 0 (cand x [us] 0) l x t) with
  | Some (en1, None) => ex (S F) PUSH en1
  | r => r end.
Proof. reflexivity. Qed.

Lemma push_exec F i u l x t :
  2 <= F -> ex F PUSH (loop_env i u l x t) = Some (loop_env i u (l ++ [u]) x t, None).
Proof. intros H. do 2 peel F. reflexivity. Qed.

Lemma tail_exec l x t n F :
  (forall k, k < n -> In (cand x [us] k) l) -> ~ In (cand x [us] n) l -> n + 9 <= F ->
  ex F TAIL (env0 l x t)
  = Some (loop_env n (cand x [us] n) (l ++ [cand x [us] n]) x t, None).
Proof.
  intros Hin Hout HF. do 4 peel F.
  rewrite tail_pre, (while_loop l x t n (S F) Hin Hout) by lia.
  apply push_exec. lia.
Qed.

(* ---------- the two conditions ---------- *)
Definition b1 (l : list str) (x : str) (t : idty) : bool :=
  idty_eqb t TText && str_eqb (s "text") x && mem x l.
Definition b2 (l : list str) (x : str) (t : idty) : bool :=
  idty_eqb t TAttr && mem x l && negb (ends_with x (s "_attr")).

Lemma ev_typeis0 F l x t T :
  1 <= F -> ev F (ETypeIs "r_type" T) (env0 l x t) = Some (VBool (idty_eqb t T), env0 l x t).
Proof. intros H. peel F. reflexivity. Qed.
Lemma ev_eqtext0 F l x t :
  2 <= F -> ev F (EEq (EStr (s "text")) (EVar "name")) (env0 l x t)
            = Some (VBool (str_eqb (s "text") x), env0 l x t).
Proof. intros H. do 2 peel F. reflexivity. Qed.
Lemma ev_contains0 F l x t :
  2 <= F -> ev F (EContains (EReserved "self") (EVar "name")) (env0 l x t)
            = Some (VBool (mem x l), env0 l x t).
Proof. intros H. do 2 peel F. reflexivity. Qed.
Lemma ev_notends0 F l x t :
  3 <= F -> ev F (ENot (EEndsWith (EVar "name") (s "_attr"))) (env0 l x t)
            = Some (VBool (negb (ends_with x (s "_attr"))), env0 l x t).
Proof. intros H. do 3 peel F. reflexivity. Qed.
Lemma ev_fmtattr0 F l x t :
  2 <= F -> ev F FMT_ATTR (env0 l x t) = Some (VStr (x ++ s "_attr"), env0 l x t).
Proof. intros H. do 2 peel F. reflexivity. Qed.
Lemma ev_rtype0 F l x t :
  1 <= F -> ev F (EVar "r_type") (env0 l x t) = Some (VTy t, env0 l x t).
Proof. intros H. peel F. reflexivity. Qed.

Lemma c1_eval F l x t : 4 <= F -> ev F C1 (env0 l x t) = Some (VBool (b1 l x t), env0 l x t).
Proof.
  intros H. do 2 peel F. unfold C1, b1.
  apply ev_and_pure; [apply ev_and_pure|].
  - apply ev_typeis0. lia.
  - apply ev_eqtext0. lia.
  - apply ev_contains0. lia.
Qed.
Lemma c2_eval F l x t : 5 <= F -> ev F C2 (env0 l x t) = Some (VBool (b2 l x t), env0 l x t).
Proof.
  intros H. do 2 peel F. unfold C2, b2.
  apply ev_and_pure; [apply ev_and_pure|].
  - apply ev_typeis0. lia.
  - apply ev_contains0. lia.
  - apply ev_notends0. lia.
Qed.

(* ---------- what a call needs from the body ---------- *)
Definition call_ok (F : nat) (l : list str) (x : str) (t : idty) (u : str) : Prop :=
  exists en3 ret, ex F BODY (env0 l x t) = Some (en3, ret) /\
    lookup "self" en3 = Some (VReserved (l ++ [u])) /\
    match ret with
    | Some res => res = VStr u
    | None => ev F (EVar "unused_name") en3 = Some (VStr u, en3)
    end.

Definition finish (r : string) (en2 : env) (res : val) (ens : env) : option (val * env) :=
  match lookup "self" ens with
  | Some (VReserved l') => match update r (VReserved l') en2 with
                           | Some en4 => Some (res, en4) | None => None end
  | _ => None end.

Lemma ev_call_unfold F r ne te en :
  ev (S F) (ECallCreate r ne te) en =
  match ev F ne en with
  | Some (VStr x, en1) =>
      match ev F te en1 with
      | Some (VTy t, en2) =>
          match lookup r en2 with
          | Some (VReserved l) =>
              match ex F BODY (env0 l x t) with
              | Some (en3, Some res) => finish r en2 res en3
              | Some (en3, None) =>
                  match ev F (EVar "unused_name") en3 with
                  | Some (res, en3') => finish r en2 res en3'
                  | None => None end
              | None => None end
          | _ => None end
      | _ => None end
  | _ => None end.
Proof. reflexivity. Qed.

Lemma ev_call F r ne te en x t l u en4 :
  ev F ne en = Some (VStr x, en) -> ev F te en = Some (VTy t, en) ->
  lookup r en = Some (VReserved l) ->
  call_ok F l x t u ->
  update r (VReserved (l ++ [u])) en = Some en4 ->
  ev (S F) (ECallCreate r ne te) en = Some (VStr u, en4).
Proof.
  intros Hn Ht Hr (en3 & ret & Hex & Hself & Hret) Hup.
  rewrite ev_call_unfold, Hn, Ht, Hr, Hex.
  destruct ret as [res|].
  - subst res. unfold finish. rewrite Hself, Hup. reflexivity.
  - rewrite Hret. unfold finish. rewrite Hself, Hup. reflexivity.
Qed.

(* the path through the loop *)
Lemma body_loop_path l x t F :
  b1 l x t = false -> b2 l x t = false -> List.length l + 13 <= F ->
  call_ok F l x t (unused_loop (S (List.length l)) 0 x [us] l).
Proof.
  intros H1 H2 HF.
  destruct (unused_loop_first l x [us] (S (List.length l)) 0 (unused_loop_fresh x [us] l))
    as [n [Hn [E Hin]]].
  pose proof (unused_loop_fresh x [us] l) as Hout. rewrite E in *. cbn [Nat.add] in *.
  do 3 peel F.
  exists (loop_env n (cand x [us] n) (l ++ [cand x [us] n]) x t), None.
  split; [|split; reflexivity].
  unfold BODY. rewrite ex_seq, ifret_false by (rewrite c1_eval by lia; now rewrite H1).
  rewrite ex_seq, ifret_false by (rewrite c2_eval by lia; now rewrite H2).
  apply tail_exec; [|exact Hout|lia].
  intros k Hk. apply Hin. lia.
Qed.

Lemma ends_with_app x suf : ends_with (x ++ suf) suf = true.
Proof.
  unfold ends_with. rewrite app_length.
  replace (List.length x + List.length suf - List.length suf) with (List.length x) by lia.
  rewrite skipn_app, skipn_all, Nat.sub_diag. cbn [app skipn].
  rewrite str_eqb_refl, Bool.andb_true_r. apply Nat.leb_le. lia.
Qed.

(* the model function, with the two conditions named *)
Lemma create_unused_name_eq l x t :
  create_unused_name l x t =
  let x1 := if b1 l x t then s "text_content" else if b2 l x t then x ++ s "_attr" else x in
  let u := unused_loop (S (List.length l)) 0 x1 [us] l in (u, l ++ [u]).
Proof. unfold create_unused_name, b1, b2. rewrite (str_eqb_sym x). reflexivity. Qed.

Lemma update_self0 l x t l' : update "self" (VReserved l') (env0 l x t) = Some (env0 l' x t).
Proof. reflexivity. Qed.

Lemma body_full l x t F :
  List.length l + 17 <= F -> call_ok F l x t (fst (create_unused_name l x t)).
Proof.
  intros HF. rewrite create_unused_name_eq. cbv zeta. cbn [fst].
  destruct (b1 l x t) eqn:H1; [|destruct (b2 l x t) eqn:H2].
  - (* `text` taken: the call on `text_content` *)
    set (u := unused_loop (S (List.length l)) 0 (s "text_content") [us] l).
    do 3 peel F.
    exists (env0 (l ++ [u]) x t), (Some (VStr u)).
    split; [|split; reflexivity].
    unfold BODY. rewrite ex_seq.
    rewrite (ifret_true (S F) C1 R1 (env0 l x t) (VStr u) (env0 (l ++ [u]) x t)); [reflexivity| |].
    + rewrite c1_eval by lia. now rewrite H1.
    + unfold R1. apply ev_call with (x := s "text_content") (t := t) (l := l).
      * peel F. reflexivity.
      * apply ev_rtype0. lia.
      * reflexivity.
      * apply body_loop_path; [| |lia].
        -- unfold b1 in *. destruct t; try discriminate. reflexivity.
        -- unfold b1 in H1. destruct t; try discriminate. reflexivity.
      * apply update_self0.
  - (* an attribute whose name is taken: the call on `name_attr` *)
    set (u := unused_loop (S (List.length l)) 0 (x ++ s "_attr") [us] l).
    do 4 peel F.
    exists (env0 (l ++ [u]) x t), (Some (VStr u)).
    split; [|split; reflexivity].
    unfold BODY. rewrite ex_seq, ifret_false by (rewrite c1_eval by lia; now rewrite H1).
    rewrite ex_seq.
    rewrite (ifret_true (S F) C2 R2 (env0 l x t) (VStr u) (env0 (l ++ [u]) x t)); [reflexivity| |].
    + rewrite c2_eval by lia. now rewrite H2.
    + unfold R2. apply ev_call with (x := x ++ s "_attr") (t := t) (l := l).
      * apply ev_fmtattr0. lia.
      * apply ev_rtype0. lia.
      * reflexivity.
      * apply body_loop_path; [| |lia].
        -- unfold b2 in H2. destruct t; try discriminate. reflexivity.
        -- unfold b2. rewrite ends_with_app. cbn [negb]. now rewrite Bool.andb_false_r.
      * apply update_self0.
  - apply body_loop_path; [exact H1|exact H2|lia].
Qed.

(* a call of create_unused_name from anywhere *)
Lemma ev_call_create F r ne te en x t l en4 :
  ev F ne en = Some (VStr x, en) -> ev F te en = Some (VTy t, en) ->
  lookup r en = Some (VReserved l) ->
  List.length l + 17 <= F ->
  update r (VReserved (snd (create_unused_name l x t))) en = Some en4 ->
  ev (S F) (ECallCreate r ne te) en = Some (VStr (fst (create_unused_name l x t)), en4).
Proof.
  intros Hn Ht Hr HF Hup. rewrite create_unused_name_snd in Hup.
  eapply ev_call; eauto. now apply body_full.
Qed.

Definition fuel_create (l : list str) : nat := 2 * List.length l + 40.

Lemma create_rs_correct_tight l name t fuel :
  List.length l + 18 <= fuel ->
  run_create create_unused_name_rs fuel l name t = Some (create_unused_name l name t).
Proof.
  intros HF. peel fuel. unfold run_create.
  pose proof (create_unused_name_snd l name t) as Hs.
  rewrite (ev_call_create fuel "r" (EStr name) (ETy t) [("r", VReserved l)] name t l
             [("r", VReserved (snd (create_unused_name l name t)))]).
  - lk. now destruct (create_unused_name l name t).
  - peel fuel. reflexivity.
  - peel fuel. reflexivity.
  - reflexivity.
  - lia.
  - reflexivity.
Qed.

Theorem create_rs_correct : forall l name t fuel,
  fuel_create l <= fuel ->
  run_create create_unused_name_rs fuel l name t = Some (create_unused_name l name t).
Proof. intros l name t fuel H. apply create_rs_correct_tight. unfold fuel_create in H. lia. Qed.

Example create_rs_example :
  let l := [s "text"; s "k"; s "k_attr"] in
  fuel_create l <= 46 /\
  run_create create_unused_name_rs 46 l (s "k") TAttr = Some (s "k_attr_1", l ++ [s "k_attr_1"]) /\
  run_create create_unused_name_rs 46 l (s "text") TText = Some (s "text_content", l ++ [s "text_content"]).
Proof. split; [vm_compute; lia|]. split; vm_compute; reflexivity. Qed.

(* ====================================================================== *)
(* 2. map_new_rs                                                           *)
(* ====================================================================== *)

Definition BODYC : stmt :=
  SSeq (SLet "child_real_name" (EChildName "child"))
    (SSeq (SLet "child_name" (EToValidKey (EVar "child_real_name") (EVar "name")))
       (SSeq (SLet "child_name" (ECallCreate "reserved_names" (EVar "child_name") (ETy TChild)))
          (SInsert "map" (EVar "child_real_name") TChild (EVar "child_name")))).
Definition BODYA : stmt :=
  SSeq (SLet "attr_real_name" (EAttrName "attr"))
    (SSeq (SLet "attr_name" (EToValidKey (EVar "attr_real_name") (EVar "name")))
       (SSeq (SLet "attr_name" (ECallCreate "reserved_names" (EVar "attr_name") (ETy TAttr)))
          (SInsert "map" (EVar "attr_real_name") TAttr (EVar "attr_name")))).
Definition TEXTPART : stmt :=
  SSeq (SLet "text_name" (ECallCreate "reserved_names" (EStr (s "text")) (ETy TText)))
       (SInsert "map" (EStr (s "text")) TText (EVar "text_name")).
Definition LOOPS : stmt :=
  SSeq (SForChildren "child" "element" BODYC) (SSeq (SForAttrs "attr" "element" BODYA) TEXTPART).
Definition MAPBODY : stmt :=
  SSeq (SLet "map" ENewMap) (SSeq (SLet "reserved_names" ENewReserved)
    (SSeq (SLet "name" (EElemName "element")) LOOPS)).

(* fails as soon as the translated source changes shape *)
Lemma map_new_shape :
  map_new_rs = {| fn_params := ["element"]; fn_body := MAPBODY; fn_result := EVar "map" |}.
Proof. reflexivity. Qed.

(* the two `for` loops, named *)
Definition forc (F : nat) (x : string) (body : stmt)
  : list (nec * element) -> env -> option (env * option val) :=
  fix loop (items : list (nec * element)) (en : env) {struct items} : option (env * option val) :=
    match items with
    | [] => Some (en, None)
    | i :: r => match ex F body ((x, VChild i) :: en) with
                | Some (en', None) => loop r en'
                | r' => r' end
    end.
Definition fora (F : nat) (x : string) (body : stmt)
  : list (nec * str) -> env -> option (env * option val) :=
  fix loop (items : list (nec * str)) (en : env) {struct items} : option (env * option val) :=
    match items with
    | [] => Some (en, None)
    | i :: r => match ex F body ((x, VAttr i) :: en) with
                | Some (en', None) => loop r en'
                | r' => r' end
    end.

Lemma ex_forc F x el body en :
  ex (S F) (SForChildren x el body) en =
  match lookup el en with Some (VElem e) => forc F x body (echildren e) en | _ => None end.
Proof. reflexivity. Qed.
Lemma ex_fora F x el body en :
  ex (S F) (SForAttrs x el body) en =
  match lookup el en with Some (VElem e) => fora F x body (eattrs e) en | _ => None end.
Proof. reflexivity. Qed.
Lemma forc_cons F x body i r en :
  forc F x body (i :: r) en =
  match ex F body ((x, VChild i) :: en) with
  | Some (en', None) => forc F x body r en'
  | r' => r' end.
Proof. reflexivity. Qed.
Lemma fora_cons F x body i r en :
  fora F x body (i :: r) en =
  match ex F body ((x, VAttr i) :: en) with
  | Some (en', None) => fora F x body r en'
  | r' => r' end.
Proof. reflexivity. Qed.

(* what the loops keep true of the (growing) environment *)
Definition Inv (e : element) (en : env) (m : idmap) (r : list str) : Prop :=
  lookup "map" en = Some (VMap m) /\ lookup "reserved_names" en = Some (VReserved r) /\
  lookup "name" en = Some (VStr (ename e)) /\ lookup "element" en = Some (VElem e).

Lemma Inv_cons e en m r y v :
  String.eqb y "map" = false -> String.eqb y "reserved_names" = false ->
  String.eqb y "name" = false -> String.eqb y "element" = false ->
  Inv e en m r -> Inv e ((y, v) :: en) m r.
Proof.
  intros E1 E2 E3 E4 (H1 & H2 & H3 & H4). unfold Inv. cbn [lookup]. rewrite E1, E2, E3, E4. auto.
Qed.

Lemma Inv_set_res e en m r r' :
  Inv e en m r -> exists en', update "reserved_names" (VReserved r') en = Some en' /\ Inv e en' m r'.
Proof.
  intros (H1 & H2 & H3 & H4).
  destruct (update_spec "reserved_names" (VReserved r') en _ H2) as [en' [U [L K]]].
  exists en'. split; [exact U|]. unfold Inv.
  rewrite (K "map" eq_refl), (K "name" eq_refl), (K "element" eq_refl). auto.
Qed.
Lemma Inv_set_map e en m r m' :
  Inv e en m r -> exists en', update "map" (VMap m') en = Some en' /\ Inv e en' m' r.
Proof.
  intros (H1 & H2 & H3 & H4).
  destruct (update_spec "map" (VMap m') en _ H1) as [en' [U [L K]]].
  exists en'. split; [exact U|]. unfold Inv.
  rewrite (K "reserved_names" eq_refl), (K "name" eq_refl), (K "element" eq_refl). auto.
Qed.

(* one turn of the loop over the children *)
Lemma bodyc_exec e en m r c F :
  Inv e en m r -> List.length r + 23 <= F ->
  let u := fst (create_unused_name r (to_valid_key (ename (snd c)) (ename e)) TChild) in
  exists en', ex F BODYC (("child", VChild c) :: en) = Some (en', None) /\
              Inv e en' (m ++ [((ename (snd c), TChild), u)]) (r ++ [u]).
Proof.
  intros HI HF. cbv zeta.
  set (real := ename (snd c)). set (key := to_valid_key real (ename e)).
  set (u := fst (create_unused_name r key TChild)).
  set (en1 := ("child_name", VStr key) :: ("child_real_name", VStr real) :: ("child", VChild c) :: en).
  assert (HI1 : Inv e en1 m r) by (unfold en1; repeat (apply Inv_cons; try reflexivity); exact HI).
  destruct (Inv_set_res e en m r (snd (create_unused_name r key TChild)) HI) as [en2 [U2 HI2]].
  rewrite create_unused_name_snd in HI2. fold u in HI2.
  set (en3 := ("child_name", VStr u) :: ("child_name", VStr key) :: ("child_real_name", VStr real)
              :: ("child", VChild c) :: en2).
  assert (HI3 : Inv e en3 m (r ++ [u])) by (unfold en3; repeat (apply Inv_cons; try reflexivity); exact HI2).
  destruct (Inv_set_map e en2 m (r ++ [u]) (m ++ [((real, TChild), u)]) HI2) as [en4 [U4 HI4]].
  exists (("child_name", VStr u) :: ("child_name", VStr key) :: ("child_real_name", VStr real)
          :: ("child", VChild c) :: en4).
  split; [|repeat (apply Inv_cons; try reflexivity); exact HI4].
  do 6 peel F. unfold BODYC.
  rewrite ex_seq, ex_let, ev_childname. lk.
  rewrite ex_seq, ex_let, ev_tovalidkey, ev_var. lk. rewrite ev_var. lk.
  destruct HI as (_ & _ & Hname & _). rewrite Hname. fold real key en1.
  rewrite ex_seq, ex_let.
  rewrite (ev_call_create (S F) "reserved_names" (EVar "child_name") (ETy TChild) en1 key TChild r
             (("child_name", VStr key) :: ("child_real_name", VStr real) :: ("child", VChild c) :: en2)).
  - fold u. rewrite ex_insert, ev_var. lk. rewrite ev_var. lk.
    destruct HI2 as (Hm2 & _). rewrite Hm2. lk. rewrite U4. reflexivity.
  - reflexivity.
  - reflexivity.
  - apply HI1.
  - lia.
  - unfold en1. lk. rewrite U2. reflexivity.
Qed.

Lemma bodya_exec e en m r (a : nec * str) F :
  Inv e en m r -> List.length r + 23 <= F ->
  let u := fst (create_unused_name r (to_valid_key (snd a) (ename e)) TAttr) in
  exists en', ex F BODYA (("attr", VAttr a) :: en) = Some (en', None) /\
              Inv e en' (m ++ [((snd a, TAttr), u)]) (r ++ [u]).
Proof.
  intros HI HF. cbv zeta.
  set (real := snd a). set (key := to_valid_key real (ename e)).
  set (u := fst (create_unused_name r key TAttr)).
  set (en1 := ("attr_name", VStr key) :: ("attr_real_name", VStr real) :: ("attr", VAttr a) :: en).
  assert (HI1 : Inv e en1 m r) by (unfold en1; repeat (apply Inv_cons; try reflexivity); exact HI).
  destruct (Inv_set_res e en m r (snd (create_unused_name r key TAttr)) HI) as [en2 [U2 HI2]].
  rewrite create_unused_name_snd in HI2. fold u in HI2.
  set (en3 := ("attr_name", VStr u) :: ("attr_name", VStr key) :: ("attr_real_name", VStr real)
              :: ("attr", VAttr a) :: en2).
  assert (HI3 : Inv e en3 m (r ++ [u])) by (unfold en3; repeat (apply Inv_cons; try reflexivity); exact HI2).
  destruct (Inv_set_map e en2 m (r ++ [u]) (m ++ [((real, TAttr), u)]) HI2) as [en4 [U4 HI4]].
  exists (("attr_name", VStr u) :: ("attr_name", VStr key) :: ("attr_real_name", VStr real)
          :: ("attr", VAttr a) :: en4).
  split; [|repeat (apply Inv_cons; try reflexivity); exact HI4].
  do 6 peel F. unfold BODYA.
  rewrite ex_seq, ex_let, ev_attrname. lk.
  rewrite ex_seq, ex_let, ev_tovalidkey, ev_var. lk. rewrite ev_var. lk.
  destruct HI as (_ & _ & Hname & _). rewrite Hname. fold real key en1.
  rewrite ex_seq, ex_let.
  rewrite (ev_call_create (S F) "reserved_names" (EVar "attr_name") (ETy TAttr) en1 key TAttr r
             (("attr_name", VStr key) :: ("attr_real_name", VStr real) :: ("attr", VAttr a) :: en2)).
  - fold u. rewrite ex_insert, ev_var. lk. rewrite ev_var. lk.
    destruct HI2 as (Hm2 & _). rewrite Hm2. lk. rewrite U4. reflexivity.
  - reflexivity.
  - reflexivity.
  - apply HI1.
  - lia.
  - unfold en1. lk. rewrite U2. reflexivity.
Qed.

Lemma forc_loop e F : forall items en m r,
  Inv e en m r -> List.length r + List.length items + 23 <= F ->
  let st := id_fold (fun c : nec * element => ename (snd c)) (ename e) TChild items (m, r) in
  exists en', forc F "child" BODYC items en = Some (en', None) /\ Inv e en' (fst st) (snd st).
Proof.
  induction items as [|c items IH]; intros en m r HI HF; cbv zeta.
  - exists en. split; [reflexivity|exact HI].
  - cbn [List.length] in HF. rewrite id_fold_cons. cbv zeta.
    destruct (bodyc_exec e en m r c F HI) as [en1 [E1 HI1]]; [lia|]. cbv zeta in HI1.
    rewrite forc_cons, E1.
    apply IH; [exact HI1|]. rewrite app_length. cbn [List.length]. lia.
Qed.

Lemma fora_loop e F : forall items en m r,
  Inv e en m r -> List.length r + List.length items + 23 <= F ->
  let st := id_fold (@snd nec str) (ename e) TAttr items (m, r) in
  exists en', fora F "attr" BODYA items en = Some (en', None) /\ Inv e en' (fst st) (snd st).
Proof.
  induction items as [|a items IH]; intros en m r HI HF; cbv zeta.
  - exists en. split; [reflexivity|exact HI].
  - cbn [List.length] in HF. rewrite id_fold_cons. cbv zeta.
    destruct (bodya_exec e en m r a F HI) as [en1 [E1 HI1]]; [lia|]. cbv zeta in HI1.
    rewrite fora_cons, E1.
    apply IH; [exact HI1|]. rewrite app_length. cbn [List.length]. lia.
Qed.

Lemma id_fold_length {A} (key : A -> str) nm t (l : list A) : forall m r,
  List.length (snd (id_fold key nm t l (m, r))) = List.length r + List.length l.
Proof.
  induction l as [|c l IH]; intros m r.
  - cbn. lia.
  - rewrite id_fold_cons. cbv zeta. rewrite IH, app_length. cbn [List.length]. lia.
Qed.

Lemma textpart_exec e en m r F :
  Inv e en m r -> List.length r + 21 <= F ->
  let u := fst (create_unused_name r (s "text") TText) in
  exists en', ex F TEXTPART en = Some (en', None) /\
              lookup "map" en' = Some (VMap (m ++ [((s "text", TText), u)])).
Proof.
  intros HI HF u.
  destruct (Inv_set_res e en m r (snd (create_unused_name r (s "text") TText)) HI) as [en2 [U2 HI2]].
  destruct (Inv_set_map e en2 m _ (m ++ [((s "text", TText), u)]) HI2) as [en4 [U4 HI4]].
  exists (("text_name", VStr u) :: en4). split; [|apply HI4].
  do 4 peel F. unfold TEXTPART.
  rewrite ex_seq, ex_let.
  rewrite (ev_call_create (S F) "reserved_names" (EStr (s "text")) (ETy TText) en (s "text") TText r en2).
  - fold u. rewrite ex_insert, ev_str, ev_var. lk.
    destruct HI2 as (Hm2 & _). rewrite Hm2, U4. reflexivity.
  - reflexivity.
  - reflexivity.
  - apply HI.
  - lia.
  - exact U2.
Qed.

Definition fuel_new (e : element) : nat :=
  2 * (List.length (echildren e) + List.length (eattrs e)) + 80.

Lemma map_new_rs_correct_tight e fuel :
  List.length (echildren e) + List.length (eattrs e) + 30 <= fuel ->
  run_new create_unused_name_rs fuel map_new_rs e = Some (id_new e).
Proof.
  intros HF. unfold run_new. rewrite map_new_shape. cbn [fn_params fn_body fn_result].
  set (en0 := [("name", VStr (ename e)); ("reserved_names", VReserved []); ("map", VMap []);
               ("element", VElem e)]).
  assert (HI0 : Inv e en0 [] []) by (repeat split).
  rewrite id_new_eq. cbv zeta.
  set (st1 := id_fold (fun c : nec * element => ename (snd c)) (ename e) TChild (echildren e) ([], [])).
  set (st2 := id_fold snd (ename e) TAttr (eattrs e) st1).
  assert (L1 : List.length (snd st1) = List.length (echildren e)).
  { unfold st1. rewrite id_fold_length. reflexivity. }
  assert (L2 : List.length (snd st2) = List.length (echildren e) + List.length (eattrs e)).
  { unfold st2. rewrite (surjective_pairing st1), id_fold_length. lia. }
  assert (Hex : exists en', ex fuel MAPBODY [("element", VElem e)] = Some (en', None) /\
            lookup "map" en' =
            Some (VMap (fst st2 ++ [((s "text", TText), fst (create_unused_name (snd st2) (s "text") TText))]))).
  { remember fuel as G eqn:EG. do 6 peel G.
    destruct (forc_loop e (S G) (echildren e) en0 [] [] HI0) as [en1 [E1 HI1]]; [cbn [List.length]; lia|].
    cbv zeta in HI1. fold st1 in HI1.
    destruct (fora_loop e G (eattrs e) en1 (fst st1) (snd st1) HI1) as [en2 [E2 HI2]]; [lia|].
    cbv zeta in HI2. rewrite <- (surjective_pairing st1) in HI2. fold st2 in HI2.
    destruct (textpart_exec e en2 (fst st2) (snd st2) (S G) HI2) as [en3 [E3 HM]]; [lia|].
    cbv zeta in HM.
    exists en3. split; [|exact HM].
    unfold MAPBODY.
    change (ex (S (S (S (S (S (S G)))))) (SSeq (SLet "map" ENewMap) (SSeq (SLet "reserved_names" ENewReserved)
              (SSeq (SLet "name" (EElemName "element")) LOOPS))) [("element", VElem e)])
      with (ex (S (S (S G))) LOOPS en0).
    unfold LOOPS. rewrite ex_seq, ex_forc.
    destruct HI0 as (_ & _ & _ & He0). rewrite He0, E1.
    rewrite ex_seq, ex_fora.
    destruct HI1 as (_ & _ & _ & He1). rewrite He1, E2. exact E3. }
  destruct Hex as [en' [E HM]]. rewrite E.
  peel fuel. rewrite ev_var, HM. reflexivity.
Qed.

Theorem map_new_rs_correct : forall e fuel,
  fuel_new e <= fuel ->
  run_new create_unused_name_rs fuel map_new_rs e = Some (id_new e).
Proof. intros e fuel H. apply map_new_rs_correct_tight. unfold fuel_new in H. lia. Qed.

(* transported: the identifiers handed out by the translated source are pairwise different *)
Theorem map_new_rs_idents_unique : forall e fuel,
  fuel_new e <= fuel ->
  exists m, run_new create_unused_name_rs fuel map_new_rs e = Some m /\ NoDup (map snd m).
Proof.
  intros e fuel H. exists (id_new e). split; [now apply map_new_rs_correct|apply id_new_values_nodup].
Qed.

Definition e0 : element :=
  Elem (s "order") true true 1 [(Mand, s "type"); (Opt, s "a_b"); (Mand, s "text")]
    [(Mand, Elem (s "type") false true 1 [] [] (Some 0%nat));
     (Opt, Elem (s "a-b") true false 2 [] [] (Some 1%nat));
     (Mand, Elem (s "a_b") true false 2 [] [] (Some 2%nat))] None.

Example map_new_rs_example :
  fuel_new e0 <= 200 /\
  run_new create_unused_name_rs 200 map_new_rs e0 = Some (id_new e0) /\
  id_new e0 =
  [((s "type", TChild), s "order_type"); ((s "a-b", TChild), s "a_b"); ((s "a_b", TChild), s "a_b_1");
   ((s "type", TAttr), s "order_type_attr"); ((s "a_b", TAttr), s "a_b_attr");
   ((s "text", TAttr), s "text"); ((s "text", TText), s "text_content")].
Proof. split; [vm_compute; lia|]. split; vm_compute; reflexivity. Qed.
