(* C04, second half: the fields of every rendered struct carry pairwise different identifiers;
   the struct-name table built by fill_struct_names gives pairwise different, non-reserved
   names to the structs of the output; every struct-typed field refers to the struct rendered
   for that child and every non-root struct is referred to by exactly one field.
   Model: Render.v (id_new, fill_struct_names, compute_struct_names, table_get, render_abs_at). *)
From Coq Require Import String Lia Permutation.
From XSG.Model Require Import Strings Chars Convert Necessity Element Render.
From XSG.Proofs Require Import StringsProofs NecessityProofs ElementProofs IdentProofs NamingProofs RenderProofs.
Open Scope list_scope.

(* ====================================================================== *)
(* 0. generic list facts                                                   *)
(* ====================================================================== *)

Lemma perm_rot3 {A} (a t c : list A) : Permutation (a ++ t ++ c) (c ++ a ++ t).
Proof. rewrite (app_assoc a t c). apply Permutation_app_comm. Qed.

Lemma perm_flat_map_l {A B} (f : A -> list B) (l l' : list A) :
  Permutation l l' -> Permutation (flat_map f l) (flat_map f l').
Proof.
  induction 1 as [|x l l' Hp IH|x y l|l l' l'' H1 IH1 H2 IH2]; cbn [flat_map].
  - constructor.
  - now apply Permutation_app_head.
  - rewrite !app_assoc. apply Permutation_app_tail, Permutation_app_comm.
  - eapply perm_trans; eauto.
Qed.

Lemma flat_map_flat_map {A B C} (f : B -> list C) (g : A -> list B) (l : list A) :
  flat_map f (flat_map g l) = flat_map (fun x => flat_map f (g x)) l.
Proof.
  induction l as [|x l IH]; cbn [flat_map]; [reflexivity|].
  now rewrite flat_map_app, IH.
Qed.

Lemma flat_map_all_nil {A B} (f : A -> list B) (l : list A) :
  (forall x, f x = []) -> flat_map f l = [].
Proof. intros H. induction l as [|x l IH]; cbn [flat_map]; [reflexivity|]. now rewrite H, IH. Qed.

Lemma nodup_map_inj {A B} (f : A -> B) (l : list A) x y :
  NoDup (map f l) -> In x l -> In y l -> f x = f y -> x = y.
Proof.
  induction l as [|a l IH]; intros Hnd Hx Hy E; [destruct Hx|].
  cbn [map] in Hnd. inversion Hnd as [|? ? Ha Hl]; subst.
  destruct Hx as [->|Hx], Hy as [->|Hy]; auto.
  - exfalso. apply Ha. rewrite E. now apply in_map.
  - exfalso. apply Ha. rewrite <- E. now apply in_map.
Qed.

Lemma all_distinct_nodup l : all_distinct l = true -> NoDup l.
Proof.
  induction l as [|x l IH]; cbn [all_distinct]; intros H; [constructor|].
  apply andb_true_iff in H. destruct H as [H1 H2]. apply negb_true_iff in H1.
  constructor; [now apply mem_false|auto].
Qed.

(* ====================================================================== *)
(* 1. field identifiers of one struct                                      *)
(* ====================================================================== *)

Lemma sorted_attrs_perm o e : Permutation (sorted_attrs o e) (eattrs e).
Proof.
  unfold sorted_attrs. destruct (Render.sort o); [apply Permutation_refl|].
  apply Permutation_sym, isort_perm.
Qed.

Lemma sorted_children_perm o e : Permutation (sorted_children o e) (echildren e).
Proof. unfold sorted_children. apply Permutation_sym, isort_perm. Qed.

(* the keys (XML name, kind) of the fields of the struct of [e], in field order *)
Definition field_keys (o : options) (e : element) : list (str * idty) :=
  map (fun a : nec * str => (snd a, TAttr)) (sorted_attrs o e)
  ++ (if etext e then [(s "text", TText)] else [])
  ++ map (fun c : nec * element => (cname c, TChild)) (sorted_children o e).

Lemma head_field_idents o tbl e pth :
  map f_ident (sd_fields (head_struct o tbl e pth)) = map (id_getd (id_new e)) (field_keys o e).
Proof.
  rewrite head_struct_fields. unfold field_keys. rewrite !map_app, !map_map.
  apply f_equal2; [|apply f_equal2].
  - apply map_ext. intros a. reflexivity.
  - unfold text_fields. destruct (etext e); reflexivity.
  - apply map_ext. intros c. reflexivity.
Qed.

Lemma field_keys_perm o e :
  Permutation (field_keys o e)
    (map (fun c : nec * element => (cname c, TChild)) (echildren e)
     ++ map (fun a : nec * str => (snd a, TAttr)) (eattrs e)
     ++ (if etext e then [(s "text", TText)] else [])).
Proof.
  unfold field_keys. eapply perm_trans; [|apply perm_rot3].
  apply Permutation_app; [apply Permutation_map, sorted_attrs_perm|].
  apply Permutation_app_head. apply Permutation_map, sorted_children_perm.
Qed.

Lemma field_keys_incl o e k : In k (field_keys o e) -> In k (id_keys e).
Proof.
  intros H. apply (Permutation_in _ (field_keys_perm o e)) in H. unfold id_keys.
  rewrite !in_app_iff in *. destruct H as [H|[H|H]]; auto.
  destruct (etext e); [auto|destruct H].
Qed.

Lemma field_keys_nodup o e : Uniq e -> NoDup (field_keys o e).
Proof.
  intros U. apply (Permutation_NoDup (Permutation_sym (field_keys_perm o e))).
  pose proof (id_keys_nodup e U) as Hk. unfold id_keys in Hk.
  destruct (etext e); [exact Hk|].
  rewrite app_nil_r. rewrite app_assoc in Hk. now apply nodup_app_inv in Hk.
Qed.

Lemma head_field_idents_nodup o tbl e pth :
  Uniq e -> NoDup (map f_ident (sd_fields (head_struct o tbl e pth))).
Proof.
  intros U. rewrite head_field_idents.
  apply nodup_map_inj_on; [|now apply field_keys_nodup].
  intros k1 k2 H1 H2. apply field_keys_incl in H1, H2. apply id_getd_inj.
  - rewrite id_new_keys. now apply id_keys_nodup.
  - apply id_new_values_nodup.
  - now rewrite id_new_keys.
  - now rewrite id_new_keys.
Qed.

(* render_Forall (RenderProofs) with the invariant Uniq threaded through *)
Lemma render_Forall_Uniq (P : structdef -> Prop) o tbl :
  (forall e pth, Uniq e -> P (head_struct o tbl e pth)) ->
  forall e, Uniq e -> forall pth, Forall P (render_abs_at o tbl e pth).
Proof.
  intros HP e. induction e as [n t x k a ch p IH] using element_ind'. intros U pth.
  rewrite render_struct_shape. constructor; [now apply HP|].
  apply Forall_flat_map. unfold sorted_children. apply isort_Forall. cbn [echildren].
  destruct (Uniq_inv _ U) as (_ & _ & Uc). cbn [echildren] in Uc.
  rewrite Forall_forall in IH, Uc. apply Forall_forall. intros c Hc.
  destruct (contains_only_text (snd c)); [constructor|]. apply IH; auto.
Qed.

Theorem field_idents_at o tbl e pth :
  Uniq e -> Forall (fun d => NoDup (map f_ident (sd_fields d))) (render_abs_at o tbl e pth).
Proof.
  intros U. apply render_Forall_Uniq; auto. intros e0 pth0. apply head_field_idents_nodup.
Qed.

Theorem field_idents o e :
  Uniq e -> Forall (fun d => NoDup (map f_ident (sd_fields d))) (render_abs o e).
Proof. intros U. unfold render_abs, render_abs_ord. now apply field_idents_at. Qed.

(* Uniq is needed: two children with the same name get the same identifier *)
Example field_idents_needs_Uniq :
  let c := Elem (s "a") true true 1 [] [] None in
  let e := Elem (s "r") false true 1 [] [(Mand, c); (Mand, c)] None in
  map (fun d => map f_ident (sd_fields d)) (render_abs quick_xml_de e) = [[s "a_1"; s "a_1"]].
Proof. vm_compute. reflexivity. Qed.

Example field_idents_example :
  let c := Elem (s "type") true true 1 [] [] (Some 0%nat) in
  let e := Elem (s "r") true true 1 [(Mand, s "type"); (Opt, s "text")] [(Mand, c)] None in
  Uniq e /\
  map (fun d => map f_ident (sd_fields d)) (render_abs quick_xml_de e)
  = [[s "r_type_attr"; s "text"; s "text_content"; s "r_type"]].
Proof.
  split; [|vm_compute; reflexivity].
  repeat constructor; cbn; intuition discriminate.
Qed.

(* ====================================================================== *)
(* 2. the paths of the struct-rendered nodes                               *)
(* ====================================================================== *)

Fixpoint struct_paths (e : element) (pth : path) {struct e} : list path :=
  match e with
  | Elem n _ _ _ _ ch _ =>
      (pth ++ [n])
      :: (fix go (cs : list (nec * element)) : list path :=
            match cs with
            | [] => []
            | c :: r => (if contains_only_text (snd c) then [] else struct_paths (snd c) (pth ++ [n]))
                        ++ go r
            end) ch
  end.

Definition child_paths (path1 : path) (c : nec * element) : list path :=
  if contains_only_text (snd c) then [] else struct_paths (snd c) path1.

Lemma struct_paths_eq e pth :
  struct_paths e pth = (pth ++ [ename e]) :: flat_map (child_paths (pth ++ [ename e])) (echildren e).
Proof.
  (* the local fixpoint is, up to conversion, flat_map's own fixpoint *)
  destruct e as [n t x k a ch p]. reflexivity.
Qed.

Lemma struct_paths_prefix e : forall pth q,
  In q (struct_paths e pth) -> exists r, q = pth ++ ename e :: r.
Proof.
  induction e as [n t x k a ch p IH] using element_ind'. intros pth q Hq.
  rewrite struct_paths_eq in Hq. cbn [ename echildren] in *. destruct Hq as [<-|Hq].
  - now exists [].
  - apply in_flat_map in Hq. destruct Hq as [c [Hc Hq]]. unfold child_paths in Hq.
    destruct (contains_only_text (snd c)); [destruct Hq|].
    rewrite Forall_forall in IH. destruct (IH c Hc _ _ Hq) as [r ->].
    exists (ename (snd c) :: r). now rewrite <- app_assoc.
Qed.

Lemma struct_paths_nodup e : Uniq e -> forall pth, NoDup (struct_paths e pth).
Proof.
  induction e as [n t x k a ch p IH] using element_ind'. intros U pth.
  rewrite struct_paths_eq. cbn [ename echildren].
  destruct (Uniq_inv _ U) as (_ & Hn & Hc). cbn [echildren] in Hn, Hc.
  rewrite Forall_forall in IH, Hc. constructor.
  - intros Hin. apply in_flat_map in Hin. destruct Hin as [c [Hc1 Hq]]. unfold child_paths in Hq.
    destruct (contains_only_text (snd c)); [destruct Hq|].
    apply struct_paths_prefix in Hq. destruct Hq as [r Hr].
    rewrite <- (app_nil_r (pth ++ [n])) in Hr at 1. apply app_inv_head in Hr. discriminate.
  - apply nodup_flat_map.
    + exact (NoDup_map_inv _ _ Hn).
    + intros c Hc1. unfold child_paths. destruct (contains_only_text (snd c)); [constructor|].
      apply IH; auto.
    + intros c1 c2 q H1 H2 Hq1 Hq2. unfold child_paths in Hq1, Hq2.
      destruct (contains_only_text (snd c1)); [destruct Hq1|].
      destruct (contains_only_text (snd c2)); [destruct Hq2|].
      apply struct_paths_prefix in Hq1, Hq2. destruct Hq1 as [r1 ->], Hq2 as [r2 E].
      apply app_inv_head in E. injection E as E _.
      apply (nodup_map_inj cname ch); auto.
Qed.

(* --- sort_tree only reorders: same paths --- *)
Lemma is_nil_insert {A} (leb : A -> A -> bool) x l : is_nil (insert leb x l) = false.
Proof. destruct l as [|y l]; cbn [insert]; [reflexivity|]. destruct (leb x y); reflexivity. Qed.

Lemma contains_only_text_sort_tree e : contains_only_text (sort_tree e) = contains_only_text e.
Proof.
  destruct e as [n t x k a ch p]. rewrite sort_tree_eq. unfold contains_only_text.
  cbn [etext eattrs echildren]. f_equal.
  destruct ch as [|c ch]; [reflexivity|]. cbn [map isort fold_right is_nil]. apply is_nil_insert.
Qed.

Lemma struct_paths_sort_tree e : forall pth,
  Permutation (struct_paths (sort_tree e) pth) (struct_paths e pth).
Proof.
  induction e as [n t x k a ch p IH] using element_ind'. intros pth.
  rewrite !struct_paths_eq. rewrite ename_sort_tree, echildren_sort_tree. cbn [ename echildren].
  apply perm_skip.
  eapply perm_trans; [apply perm_flat_map_l, Permutation_sym, isort_perm|].
  rewrite flat_map_map. apply perm_flat_map_pointwise. intros c Hc.
  unfold child_paths. cbn [snd]. rewrite contains_only_text_sort_tree.
  destruct (contains_only_text (snd c)); [constructor|].
  rewrite Forall_forall in IH. now apply IH.
Qed.

(* ====================================================================== *)
(* 3. the structs of the output are named by the table at these paths      *)
(* ====================================================================== *)

Lemma render_names_cons o tbl e pth :
  map sd_name (render_abs_at o tbl e pth)
  = struct_name_at tbl (pth ++ [ename e]) :: map sd_name (tl (render_abs_at o tbl e pth)).
Proof. rewrite render_struct_shape. reflexivity. Qed.

Lemma render_names_perm o tbl e : forall pth,
  Permutation (map sd_name (render_abs_at o tbl e pth))
              (map (struct_name_at tbl) (struct_paths e pth)).
Proof.
  induction e as [n t x k a ch p IH] using element_ind'. intros pth.
  rewrite render_struct_shape, struct_paths_eq. cbn [map head_struct sd_name]. apply perm_skip.
  rewrite !map_flat_map.
  eapply perm_trans; [apply perm_flat_map_l, sorted_children_perm|].
  cbn [ename echildren]. apply perm_flat_map_pointwise. intros c Hc.
  unfold child_paths. destruct (contains_only_text (snd c)); [constructor|].
  rewrite Forall_forall in IH. now apply IH.
Qed.

(* ====================================================================== *)
(* 4. table_get                                                            *)
(* ====================================================================== *)

Lemma path_eqb_spec a b : reflect (a = b) (path_eqb a b).
Proof.
  revert b. induction a as [|x a IH]; intros [|y b]; cbn [path_eqb]; try (constructor; congruence).
  destruct (str_eqb_spec x y) as [->|Hne]; cbn [andb].
  - destruct (IH b) as [->|Hne]; constructor; congruence.
  - constructor; congruence.
Qed.

Lemma table_get_some tbl p v : table_get tbl p = Some v -> In (p, v) tbl.
Proof.
  induction tbl as [|[k w] tbl IH]; cbn [table_get]; [discriminate|].
  destruct (path_eqb_spec k p) as [->|Hne].
  - intros [= ->]. now left.
  - intros H. right. auto.
Qed.

Lemma table_get_nodup tbl p v : NoDup (map fst tbl) -> In (p, v) tbl -> table_get tbl p = Some v.
Proof.
  induction tbl as [|[k w] tbl IH]; intros Hnd Hin; [destruct Hin|].
  cbn [map fst] in Hnd. inversion Hnd as [|? ? Hk Hl]; subst. cbn [table_get].
  destruct Hin as [E|Hin].
  - injection E as -> ->. now destruct (path_eqb_spec p p).
  - destruct (path_eqb_spec k p) as [->|Hne]; [|auto].
    exfalso. apply Hk. change p with (fst (p, v)). now apply in_map.
Qed.

Lemma table_get_key tbl p : In p (map fst tbl) -> table_get tbl p <> None.
Proof.
  induction tbl as [|[k w] tbl IH]; cbn [map fst table_get]; intros Hin; [destruct Hin|].
  destruct (path_eqb_spec k p) as [->|Hne]; [discriminate|].
  destruct Hin as [E|Hin]; [congruence|auto].
Qed.

(* ====================================================================== *)
(* 5. fill_struct_names: one fresh name per struct path                    *)
(* ====================================================================== *)

(* [f] extends (used, table) by one new entry per path of [paths], in order, the names being
   new with respect to everything used before *)
Definition fills (f : list str * name_table -> list str * name_table) (paths : list path) : Prop :=
  forall used tbl, NoDup used ->
  exists new : list (path * str),
    f (used, tbl) = (used ++ map snd new, rev new ++ tbl)
    /\ map fst new = paths /\ NoDup (used ++ map snd new).

Lemma fills_id : fills (fun st => st) [].
Proof.
  intros used tbl Hnd. exists []. cbn [map rev app]. rewrite app_nil_r. auto.
Qed.

Lemma fills_comp f g p1 p2 : fills f p1 -> fills g p2 -> fills (fun st => g (f st)) (p1 ++ p2).
Proof.
  intros Hf Hg used tbl Hnd.
  destruct (Hf used tbl Hnd) as (n1 & E1 & K1 & N1).
  destruct (Hg _ (rev n1 ++ tbl) N1) as (n2 & E2 & K2 & N2).
  exists (n1 ++ n2). cbv beta. rewrite E1.
  rewrite !map_app, rev_app_distr, K1, K2, <- !app_assoc. rewrite <- app_assoc in N2, E2.
  split; [exact E2|split; [reflexivity|exact N2]].
Qed.

Lemma fsn_list_fills trace pth h cs :
  Forall (fun c => forall trace pth, fills (fill_struct_names (snd c) trace pth h)
                                            (struct_paths (snd c) pth)) cs ->
  fills (fsn_list trace pth h cs) (flat_map (child_paths pth) cs).
Proof.
  unfold fsn_list. induction cs as [|c cs IH]; intros HF; cbn [fold_left flat_map].
  - apply fills_id.
  - inversion HF as [|? ? Hc Hr]; subst.
    apply (fills_comp (fun st => fsn_step trace pth h st c) (fold_left (fsn_step trace pth h) cs)).
    + unfold fsn_step, child_paths. destruct (contains_only_text (snd c)); [apply fills_id|apply Hc].
    + now apply IH.
Qed.

Lemma fill_struct_names_fills h e : forall trace pth,
  fills (fill_struct_names e trace pth h) (struct_paths e pth).
Proof.
  induction e as [n t x k a ch p IH] using element_ind'. intros trace pth used tbl Hnd.
  rewrite fill_struct_names_eq, struct_paths_eq. cbn [fst snd].
  set (e := Elem n t x k a ch p) in *.
  set (u := struct_candidate e trace h used).
  assert (Hu : ~ In u used) by (unfold u, struct_candidate; apply unused_loop_fresh).
  destruct (fsn_list_fills (trace ++ [formatted_name e]) (pth ++ [ename e]) h (echildren e) IH
              (used ++ [u]) ((pth ++ [ename e], u) :: tbl)) as (new & E & K & N).
  { now apply nodup_snoc. }
  exists ((pth ++ [ename e], u) :: new). cbn [map fst snd rev].
  rewrite <- !app_assoc. rewrite <- app_assoc in E, N. cbn [app] in E, N |- *.
  split; [exact E|split; [now rewrite K|exact N]].
Qed.

Lemma reserved_struct_names_nodup : NoDup reserved_struct_names.
Proof. apply all_distinct_nodup. vm_compute. reflexivity. Qed.

Lemma nil_not_reserved : ~ In [] reserved_struct_names.
Proof. intros H. apply mem_spec in H. vm_compute in H. discriminate. Qed.

(* what the final table looks like *)
Lemma compute_struct_names_spec e h :
  exists new : list (path * str),
    compute_struct_names e h = rev new
    /\ map fst new = struct_paths (sort_tree e) []
    /\ NoDup (reserved_struct_names ++ map snd new).
Proof.
  unfold compute_struct_names.
  destruct (fill_struct_names_fills h (sort_tree e) [] [] _ [] reserved_struct_names_nodup)
    as (new & E & K & N).
  exists new. apply (f_equal snd) in E. cbn [snd] in E. rewrite app_nil_r in E.
  split; [exact E|split; [exact K|exact N]].
Qed.

(* ====================================================================== *)
(* 6. struct names: not reserved; unique                                   *)
(* ====================================================================== *)

Lemma struct_name_not_reserved e h p :
  ~ In (struct_name_at (compute_struct_names e h) p) reserved_struct_names.
Proof.
  destruct (compute_struct_names_spec e h) as (new & E & _ & N).
  unfold struct_name_at. destruct (table_get _ p) as [v|] eqn:G; [|apply nil_not_reserved].
  apply table_get_some in G. rewrite E in G. apply in_rev in G.
  apply nodup_app_inv in N. destruct N as (_ & _ & N). intros Hr. apply (N v Hr).
  change v with (snd (p, v)). now apply in_map.
Qed.

Theorem struct_names_not_reserved_ord ord o e :
  Forall (fun d => ~ In (sd_name d) reserved_struct_names) (render_abs_ord ord o e).
Proof.
  unfold render_abs_ord. apply render_Forall. intros e0 pth. cbn [head_struct sd_name].
  apply struct_name_not_reserved.
Qed.

Theorem struct_names_not_reserved o e :
  Forall (fun d => ~ In (sd_name d) reserved_struct_names) (render_abs o e).
Proof. apply struct_names_not_reserved_ord. Qed.

(* every struct name is a value of the table: the `None => []` default of the lookup is never used *)
Lemma struct_name_in_table_at o tbl e pth d :
  In d (render_abs_at o tbl e pth) ->
  exists q, In q (struct_paths e pth) /\ sd_name d = struct_name_at tbl q.
Proof.
  intros Hd. apply (in_map sd_name) in Hd.
  apply (Permutation_in _ (render_names_perm o tbl e pth)) in Hd.
  apply in_map_iff in Hd. destruct Hd as [q [E Hq]]. now exists q.
Qed.

Theorem struct_names_from_table_ord ord o e :
  Forall (fun d => In (sd_name d) (map snd (compute_struct_names e (compute_name_hints_ord ord e))))
         (render_abs_ord ord o e).
Proof.
  apply Forall_forall. intros d Hd. unfold render_abs_ord in Hd.
  apply struct_name_in_table_at in Hd. destruct Hd as [q [Hq ->]].
  set (h := compute_name_hints_ord ord e).
  destruct (compute_struct_names_spec e h) as (new & E & K & _).
  apply (Permutation_in _ (Permutation_sym (struct_paths_sort_tree e []))) in Hq.
  rewrite <- K in Hq.
  assert (Hk : In q (map fst (compute_struct_names e h))).
  { rewrite E, map_rev. now apply -> in_rev. }
  unfold struct_name_at. destruct (table_get _ q) as [v|] eqn:G.
  - apply table_get_some in G. change v with (snd (q, v)). now apply in_map.
  - now apply table_get_key in Hk.
Qed.

Theorem struct_names_from_table o e :
  Forall (fun d => In (sd_name d) (map snd (compute_struct_names e (compute_name_hints e))))
         (render_abs o e).
Proof. apply struct_names_from_table_ord. Qed.

Lemma struct_names_perm e h o : Uniq e ->
  exists new : list (path * str),
    Permutation (map sd_name (render_abs_at o (compute_struct_names e h) e [])) (map snd new)
    /\ NoDup (reserved_struct_names ++ map snd new).
Proof.
  intros U. destruct (compute_struct_names_spec e h) as (new & E & K & N).
  exists new. split; [|exact N].
  assert (Hk : NoDup (map fst new)).
  { rewrite K. apply (Permutation_NoDup (Permutation_sym (struct_paths_sort_tree e []))).
    now apply struct_paths_nodup. }
  eapply perm_trans; [apply render_names_perm|].
  eapply perm_trans;
    [apply Permutation_map, Permutation_sym, (struct_paths_sort_tree e [])|].
  rewrite <- K, map_map.
  erewrite map_ext_in; [apply Permutation_refl|].
  intros [q v] Hin. cbn [fst snd]. unfold struct_name_at.
  rewrite (table_get_nodup _ q v); [reflexivity| |].
  - rewrite E, map_rev. now apply NoDup_rev.
  - rewrite E. now apply -> in_rev.
Qed.

Theorem struct_names_unique_ord ord o e :
  Uniq e -> NoDup (map sd_name (render_abs_ord ord o e)).
Proof.
  intros U. unfold render_abs_ord.
  destruct (struct_names_perm e (compute_name_hints_ord ord e) o U) as (new & P & N).
  apply (Permutation_NoDup (Permutation_sym P)). now apply nodup_app_inv in N.
Qed.

Theorem struct_names_unique o e : Uniq e -> NoDup (map sd_name (render_abs o e)).
Proof. apply struct_names_unique_ord. Qed.

(* Uniq is needed: two struct-typed children with the same name share one path *)
Example struct_names_needs_Uniq :
  let c := Elem (s "a") false true 1 [(Mand, s "k")] [] None in
  let e := Elem (s "r") false true 1 [] [(Mand, c); (Mand, c)] None in
  map sd_name (render_abs quick_xml_de e) = [s "R"; s "RA1"; s "RA1"].
Proof. vm_compute. reflexivity. Qed.

(* Foo / foo siblings, a child called String: all different, none reserved *)
Example struct_names_example :
  let k := [(Mand, s "k")] in
  let e := Elem (s "self") false true 1 []
             [(Mand, Elem (s "Foo") false true 1 k [] (Some 0%nat));
              (Mand, Elem (s "foo") false true 1 k [] (Some 1%nat));
              (Opt, Elem (s "string") false true 1 k [] (Some 2%nat))] None in
  Uniq e /\
  map sd_name (render_abs quick_xml_de e) = [s "Self1"; s "SelfFoo"; s "SelfFoo1"; s "String1"].
Proof.
  split; [|vm_compute; reflexivity].
  repeat constructor; cbn; intuition discriminate.
Qed.

(* ====================================================================== *)
(* 7. field types                                                          *)
(* ====================================================================== *)

(* the struct names a field / a list of structs refers to *)
Definition field_refs (f : field) : list str :=
  match f_ty f with TyStruct n => [n] | TyString => [] end.
Definition struct_refs (ds : list structdef) : list str :=
  flat_map (fun d => flat_map field_refs (sd_fields d)) ds.

(* local form: the type of a child's field is String for a text-only child, otherwise the
   name of the first struct rendered for that child (with the same table and path) *)
Theorem child_field_type o tbl m pth e c d0 :
  f_ty (child_field tbl m (pth ++ [ename e]) c)
  = if contains_only_text (snd c) then TyString
    else TyStruct (sd_name (hd d0 (render_abs_at o tbl (snd c) (pth ++ [ename e])))).
Proof.
  unfold child_field. cbn [f_ty]. destruct (contains_only_text (snd c)); [reflexivity|].
  rewrite render_struct_shape. reflexivity.
Qed.

Lemma head_refs o tbl e pth :
  flat_map field_refs (sd_fields (head_struct o tbl e pth))
  = flat_map (fun c => if contains_only_text (snd c) then []
                       else [struct_name_at tbl ((pth ++ [ename e]) ++ [cname c])])
             (sorted_children o e).
Proof.
  rewrite head_struct_fields, !flat_map_app.
  assert (Ha : flat_map field_refs (map (attr_field o (id_new e)) (sorted_attrs o e)) = []).
  { rewrite flat_map_map. apply flat_map_all_nil. intros a. reflexivity. }
  assert (Ht : flat_map field_refs (text_fields o (id_new e) e) = []).
  { unfold text_fields. destruct (etext e); reflexivity. }
  rewrite Ha, Ht, flat_map_map. cbn [app]. apply flat_map_ext. intros c.
  unfold field_refs, child_field, cname. cbn [f_ty].
  destruct (contains_only_text (snd c)); reflexivity.
Qed.

Theorem render_refs_perm o tbl e : forall pth,
  Permutation (struct_refs (render_abs_at o tbl e pth))
              (map sd_name (tl (render_abs_at o tbl e pth))).
Proof.
  induction e as [n t x k a ch p IH] using element_ind'. intros pth.
  rewrite render_struct_shape. cbn [tl]. unfold struct_refs. cbn [flat_map].
  rewrite head_refs, flat_map_flat_map, map_flat_map.
  eapply perm_trans; [apply Permutation_sym, perm_flat_map_app|].
  apply perm_flat_map_pointwise. intros c Hc.
  apply isort_in in Hc. cbn [echildren] in Hc.
  destruct (contains_only_text (snd c)); [constructor|].
  rewrite render_names_cons. cbn [app]. apply perm_skip.
  rewrite Forall_forall in IH. exact (IH c Hc _).
Qed.

Theorem types_refs_ord ord o e :
  Permutation (struct_refs (render_abs_ord ord o e)) (map sd_name (tl (render_abs_ord ord o e))).
Proof. unfold render_abs_ord. apply render_refs_perm. Qed.

Theorem types_refs o e :
  Permutation (struct_refs (render_abs o e)) (map sd_name (tl (render_abs o e))).
Proof. apply types_refs_ord. Qed.

(* every field type is String or a struct defined (after the root) in the same output *)
Theorem types_defined o e d f :
  In d (render_abs o e) -> In f (sd_fields d) ->
  f_ty f = TyString \/
  exists d', In d' (tl (render_abs o e)) /\ f_ty f = TyStruct (sd_name d').
Proof.
  intros Hd Hf. destruct (f_ty f) as [|nm] eqn:T; [now left|right].
  assert (Hin : In nm (struct_refs (render_abs o e))).
  { unfold struct_refs. apply in_flat_map. exists d. split; [exact Hd|].
    apply in_flat_map. exists f. split; [exact Hf|]. unfold field_refs. rewrite T. now left. }
  apply (Permutation_in _ (types_refs o e)) in Hin. apply in_map_iff in Hin.
  destruct Hin as [d' [<- Hd']]. now exists d'.
Qed.

(* with unique names: no struct is referred to twice, the root struct by no field; together
   with types_refs: every non-root struct is the type of exactly one field *)
Theorem struct_used_once o e d0 :
  Uniq e ->
  NoDup (struct_refs (render_abs o e))
  /\ ~ In (sd_name (hd d0 (render_abs o e))) (struct_refs (render_abs o e)).
Proof.
  intros U. pose proof (struct_names_unique o e U) as Hnd.
  pose proof (types_refs o e) as P.
  destruct (render_abs o e) as [|d ds]; cbn [tl hd map] in *.
  - split; [|intros H]; apply Permutation_sym, Permutation_nil in P; rewrite P in *;
      [constructor|destruct H].
  - inversion Hnd as [|? ? Hd Hds]; subst. split.
    + now apply (Permutation_NoDup (Permutation_sym P)).
    + intros H. apply Hd. now apply (Permutation_in _ P).
Qed.

Example types_example :
  let k := [(Mand, s "k")] in
  let e := Elem (s "r") false true 1 []
             [(Mand, Elem (s "a") false true 1 k
                        [(Mand, Elem (s "b") false false 2 k [] (Some 0%nat))] (Some 0%nat));
              (Opt, Elem (s "t") true true 1 [] [] (Some 1%nat))] None in
  Uniq e /\
  struct_refs (render_abs quick_xml_de e) = [s "A"; s "B"] /\
  map sd_name (render_abs quick_xml_de e) = [s "R"; s "A"; s "B"].
Proof.
  split; [|split; vm_compute; reflexivity].
  repeat constructor; cbn; intuition discriminate.
Qed.
