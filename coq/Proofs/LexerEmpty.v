(* C11 at byte level: `<n/>` against `<n></n>` for a plain name n, written where character data
   may stand. *)
From XSG.Model Require Import Strings Necessity Element Parser Dom Lexer.
From XSG.Proofs Require Import StringsProofs NecessityProofs ElementProofs ParserTotal SkelProofs
  ParserFaults LexerProofs LexerC11.
From Coq Require Import String Lia.

(* a byte of a plain name: no blank, quote, `>`, `/`, `=` *)
Definition plain_byte (b : byte) : bool :=
  negb (is_ws b) && negb (b =? B_gt) && negb (b =? B_sq) && negb (b =? B_dq) && negb (b =? B_slash).
(* a plain name: non-empty, plain bytes, not starting with `!` or `?` *)
Definition plain_name (n : list byte) : bool :=
  match n with
  | [] => false
  | b :: _ => negb (b =? B_bang) && negb (b =? B_q) && forallb plain_byte n
  end.

Lemma plain_byte_inv b : plain_byte b = true ->
  is_ws b = false /\ (b =? B_gt) = false /\ (b =? B_sq) = false /\ (b =? B_dq) = false /\ (b =? B_slash) = false.
Proof.
  unfold plain_byte. intros H. repeat (apply andb_prop in H; destruct H as [H ?]).
  repeat split; now apply negb_true_iff.
Qed.

Lemma quote_step_plain b : plain_byte b = true -> quote_step QOut b = QOut.
Proof. intros H. apply plain_byte_inv in H. destruct H as (_ & _ & H1 & H2 & _). unfold quote_step. now rewrite H1, H2. Qed.

Lemma run_tag_body : forall n acc p op,
  forallb plain_byte n = true ->
  lex_run (st (MTag QOut acc) p op) n = (st (MTag QOut (rev n ++ acc)) (p + N.of_nat (List.length n)) op, []).
Proof.
  induction n as [|b n IH]; intros acc p op H.
  - cbn [lex_run rev app List.length N.of_nat]. now rewrite N.add_0_r.
  - cbn [forallb] in H. apply andb_prop in H. destruct H as [Hb Hn].
    cbn [lex_run]. unfold lex_step at 1. cbn [md pos opened st].
    pose proof (plain_byte_inv b Hb) as (_ & Hgt & _). rewrite Hgt, (quote_step_plain b Hb).
    rewrite (IH (b :: acc) (p + 1) op Hn). cbn [rev app]. rewrite <- app_assoc. cbn [app].
    f_equal. f_equal. cbn [List.length]. lia.
Qed.

Lemma name_of_plain n : forallb plain_byte n = true -> name_of n = n /\ after_name n = [].
Proof.
  induction n as [|b n IH]; intros H; [auto|].
  cbn [forallb] in H. apply andb_prop in H. destruct H as [Hb Hn].
  pose proof (plain_byte_inv b Hb) as (Hw & _). cbn [name_of after_name]. rewrite Hw.
  destruct (IH Hn) as [-> ->]. auto.
Qed.

Lemma attrs_of_plain n : forallb plain_byte n = true -> attrs_of n = [].
Proof. intros H. unfold attrs_of. destruct (name_of_plain n H) as [_ ->]. reflexivity. Qed.

Lemma strip_slash_snoc n : strip_slash (n ++ [B_slash]) = Some n.
Proof. unfold strip_slash. rewrite rev_app_distr. cbn [rev app]. change (B_slash =? B_slash) with true. cbv iota. now rewrite rev_involutive. Qed.

Lemma strip_slash_plain n : forallb plain_byte n = true -> n <> [] -> strip_slash n = None.
Proof.
  intros H Hne. unfold strip_slash.
  destruct (rev n) as [|b r] eqn:E.
  - apply (f_equal (@rev byte)) in E. rewrite rev_involutive in E. now subst.
  - assert (Hin : In b n). { apply in_rev. rewrite E. now left. }
    rewrite forallb_forall in H. apply H, plain_byte_inv in Hin. destruct Hin as (_ & _ & _ & _ & Hs).
    now rewrite Hs.
Qed.

Lemma drop_ws_rev_plain n : forallb plain_byte n = true -> n <> [] -> trim_end_ws n = n.
Proof.
  intros H Hne. unfold trim_end_ws.
  destruct (rev n) as [|b r] eqn:E.
  - apply (f_equal (@rev byte)) in E. rewrite rev_involutive in E. now subst.
  - assert (Hin : In b n). { apply in_rev. rewrite E. now left. }
    rewrite forallb_forall in H. apply H, plain_byte_inv in Hin. destruct Hin as (Hw & _).
    cbn [drop_ws]. rewrite Hw. rewrite <- E. apply rev_involutive.
Qed.

Lemma bytes_eqb_refl n : bytes_eqb n n = true.
Proof. induction n as [|b n IH]; [reflexivity|]. cbn [bytes_eqb]. now rewrite N.eqb_refl. Qed.

Lemma plain_name_inv n : plain_name n = true ->
  exists b r, n = b :: r /\ (b =? B_bang) = false /\ (b =? B_q) = false /\ forallb plain_byte n = true.
Proof.
  destruct n as [|b r]; [discriminate|]. unfold plain_name. intros H.
  apply andb_prop in H. destruct H as [H H3]. apply andb_prop in H. destruct H as [H1 H2].
  exists b, r. repeat split; auto; now apply negb_true_iff.
Qed.

(* `<` n : from text mode into the tag with n read *)
Lemma run_open_name : forall n p op,
  plain_name n = true ->
  lex_run (st (MText []) p op) (B_lt :: n) =
  (st (MTag QOut (rev n)) (p + 1 + N.of_nat (List.length n)) op, []).
Proof.
  intros n p op H. destruct (plain_name_inv n H) as (b & r & -> & Hb1 & Hb2 & Hall).
  cbn [lex_run]. unfold lex_step at 1. cbn [md pos opened st]. rewrite N.eqb_refl.
  unfold lex_step at 1. cbn [md pos opened st]. rewrite Hb1, Hb2.
  cbn [forallb] in Hall. apply andb_prop in Hall. destruct Hall as [Hpb Hr].
  pose proof (plain_byte_inv b Hpb) as (_ & Hgt & _). rewrite Hgt, (quote_step_plain b Hpb).
  rewrite (run_tag_body r [b] (p + 1 + 1) op Hr). cbn [app rev].
  replace (p + 1 + N.of_nat (List.length (b :: r))) with (p + 1 + 1 + N.of_nat (List.length r))
    by (cbn [List.length]; lia).
  reflexivity.
Qed.

Lemma close_tag_empty n p op : plain_name n = true ->
  close_tag (n ++ [B_slash]) p op = ([EEmpty (dec_str n) []], MText [], op).
Proof.
  intros H. destruct (plain_name_inv n H) as (b0 & r0 & -> & _ & _ & Hall).
  assert (Hb0 : (b0 =? B_slash) = false).
  { cbn [forallb] in Hall. apply andb_prop in Hall. destruct Hall as [Hb _].
    now apply plain_byte_inv in Hb. }
  unfold close_tag. cbn [app]. rewrite Hb0.
  change (b0 :: r0 ++ [B_slash]) with ((b0 :: r0) ++ [B_slash]).
  rewrite strip_slash_snoc. destruct (name_of_plain _ Hall) as [-> _]. now rewrite (attrs_of_plain _ Hall).
Qed.
Lemma close_tag_start n p op : plain_name n = true ->
  close_tag n p op = ([EStart (dec_str n) []], MText [], n :: op).
Proof.
  intros H. destruct (plain_name_inv n H) as (b0 & r0 & -> & _ & _ & Hall).
  assert (Hb0 : (b0 =? B_slash) = false).
  { cbn [forallb] in Hall. apply andb_prop in Hall. destruct Hall as [Hb _].
    now apply plain_byte_inv in Hb. }
  unfold close_tag. rewrite Hb0.
  rewrite (strip_slash_plain _ Hall) by discriminate.
  destruct (name_of_plain _ Hall) as [-> _]. now rewrite (attrs_of_plain _ Hall).
Qed.
Lemma close_tag_end n p op : plain_name n = true ->
  close_tag (B_slash :: n) p (n :: op) = ([EEnd], MText [], op).
Proof.
  intros H. destruct (plain_name_inv n H) as (b0 & r0 & -> & _ & _ & Hall).
  unfold close_tag. change (B_slash =? B_slash) with true. cbv iota.
  rewrite (drop_ws_rev_plain _ Hall) by discriminate. now rewrite bytes_eqb_refl.
Qed.

Theorem run_empty_tag : forall n p op,
  plain_name n = true ->
  lex_run (st (MText []) p op) (B_lt :: n ++ [B_slash; B_gt]) =
  (st (MText []) (p + N.of_nat (List.length n) + 3) op, [EEmpty (dec_str n) []]).
Proof.
  intros n p op H.
  change (B_lt :: n ++ [B_slash; B_gt]) with ((B_lt :: n) ++ [B_slash; B_gt]).
  rewrite lex_run_app, (run_open_name n p op H).
  cbn [lex_run]. unfold lex_step at 1. cbn [md pos opened st].
  change (B_slash =? B_gt) with false. cbv iota.
  change (quote_step QOut B_slash) with QOut.
  unfold lex_step at 1. cbn [md pos opened st]. change (B_gt =? B_gt) with true. cbv iota.
  cbn [rev]. rewrite rev_involutive, (close_tag_empty n _ op H).
  cbn [app]. f_equal. f_equal. lia.
Qed.

Theorem run_pair_tag : forall n p op,
  plain_name n = true ->
  lex_run (st (MText []) p op) ((B_lt :: n ++ [B_gt]) ++ (B_lt :: B_slash :: n ++ [B_gt])) =
  (st (MText []) (p + 2 * N.of_nat (List.length n) + 5) op, [EStart (dec_str n) []; EEnd]).
Proof.
  intros n p op H. destruct (plain_name_inv n H) as (b0 & r0 & Hn & _ & _ & Hall).
  rewrite lex_run_app.
  change (B_lt :: n ++ [B_gt]) with ((B_lt :: n) ++ [B_gt]).
  rewrite lex_run_app, (run_open_name n p op H).
  cbn [lex_run]. unfold lex_step at 1. cbn [md pos opened st]. change (B_gt =? B_gt) with true. cbv iota.
  rewrite rev_involutive, (close_tag_start n _ op H).
  (* the end tag *)
  unfold lex_step at 1. cbn [md pos opened st]. rewrite N.eqb_refl.
  unfold lex_step at 1. cbn [md pos opened st].
  change (B_slash =? B_bang) with false. change (B_slash =? B_q) with false.
  change (B_slash =? B_gt) with false. cbv iota. change (quote_step QOut B_slash) with QOut.
  rewrite lex_run_app.
  rewrite (run_tag_body n [B_slash] _ (n :: op) Hall).
  cbn [lex_run]. unfold lex_step at 1. cbn [md pos opened st]. change (B_gt =? B_gt) with true. cbv iota.
  rewrite rev_app_distr, rev_involutive. cbn [rev app]. rewrite (close_tag_end n _ op H).
  cbn [app]. f_equal. f_equal. lia.
Qed.

Definition empty_tag (n : list byte) : list byte := B_lt :: n ++ [B_slash; B_gt].
Definition pair_tag (n : list byte) : list byte := (B_lt :: n ++ [B_gt]) ++ (B_lt :: B_slash :: n ++ [B_gt]).

Lemma expand_empty_mid a d eb :
  expand (a ++ EEmpty d [] :: eb) = expand (a ++ EStart d [] :: EEnd :: eb).
Proof. rewrite !expand_app. reflexivity. Qed.

Theorem empty_vs_pair_events : forall a n b,
  plain_name n = true ->
  md (fst (lex_run lex_init a)) = MText [] ->
  no_reader_error (lex_from lex_init (a ++ empty_tag n ++ b)) = true ->
  exists eb,
    lex_from lex_init (a ++ empty_tag n ++ b) = snd (lex_run lex_init a) ++ EEmpty (dec_str n) [] :: eb
    /\ lex_from lex_init (a ++ pair_tag n ++ b)
       = snd (lex_run lex_init a) ++ EStart (dec_str n) [] :: EEnd :: eb.
Proof.
  intros a n b Hn Hm He.
  rewrite (lex_from_app a (empty_tag n ++ b)) in *. rewrite (lex_from_app a (pair_tag n ++ b)).
  destruct (lex_run lex_init a) as [[m p op] ea]. cbn [fst snd md] in *. subst m.
  change {| md := MText []; pos := p; opened := op |} with (st (MText []) p op) in *.
  rewrite (lex_from_app (empty_tag n) b) in *. rewrite (lex_from_app (pair_tag n) b).
  unfold empty_tag, pair_tag in *.
  rewrite (run_empty_tag n p op Hn) in *. rewrite (run_pair_tag n p op Hn).
  cbn [fst snd app] in *.
  eexists. split; [reflexivity|]. do 3 f_equal.
  apply erase_pos_eq.
  - apply lex_from_pos. split; reflexivity.
  - apply no_reader_error_app in He. cbn [no_reader_error forallb] in He. exact He.
Qed.

Theorem bytes_empty_vs_pair : forall a n b,
  plain_name n = true ->
  md (fst (lex_run lex_init a)) = MText [] ->
  no_reader_error (lex_from lex_init (a ++ empty_tag n ++ b)) = true ->
  into_struct_ev (lex_from lex_init (a ++ pair_tag n ++ b))
  = into_struct_ev (lex_from lex_init (a ++ empty_tag n ++ b)).
Proof.
  intros a n b Hn Hm He. destruct (empty_vs_pair_events a n b Hn Hm He) as (eb & -> & ->).
  rewrite <- (expand_into_struct_ev (_ ++ EStart _ _ :: _)), <- (expand_into_struct_ev (_ ++ EEmpty _ _ :: _)).
  now rewrite expand_empty_mid.
Qed.

Theorem bytes_empty_vs_pair_extend : forall root a n b,
  Uniq root ->
  plain_name n = true ->
  md (fst (lex_run lex_init a)) = MText [] ->
  no_reader_error (lex_from lex_init (a ++ empty_tag n ++ b)) = true ->
  extend_struct_ev root (lex_from lex_init (a ++ pair_tag n ++ b))
  = extend_struct_ev root (lex_from lex_init (a ++ empty_tag n ++ b)).
Proof.
  intros root a n b Hr Hn Hm He. destruct (empty_vs_pair_events a n b Hn Hm He) as (eb & -> & ->).
  rewrite <- (expand_extend_struct_ev root (_ ++ EStart _ _ :: _) Hr),
          <- (expand_extend_struct_ev root (_ ++ EEmpty _ _ :: _) Hr).
  now rewrite expand_empty_mid.
Qed.

Lemma example_empty_place :
  plain_name (s "ns:b-1") = true
  /\ md (fst (lex_run lex_init (s "<a x='1'>"))) = MText []
  /\ no_reader_error (lex_from lex_init (s "<a x='1'>" ++ empty_tag (s "ns:b-1") ++ s "</a>")) = true
  /\ exists e, into_struct_ev (lex_from lex_init (s "<a x='1'>" ++ pair_tag (s "ns:b-1") ++ s "</a>")) = Ok e.
Proof. repeat split; try (vm_compute; reflexivity). eexists. vm_compute. reflexivity. Qed.
