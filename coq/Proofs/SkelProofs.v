(* C11: the element tree built by the parser depends only on the structure of the document:
   element names, attribute names, nesting, repetition and presence of character data.
   Also: the invariant Uniq is preserved by the parser (absorb / build_struct). *)
From XSG.Model Require Import Strings Necessity Element Parser Dom.
From XSG.Proofs Require Import StringsProofs NecessityProofs ElementProofs.
From Coq Require Import Lia.

(* ---------- nested induction principle for documents ---------- *)
Section NodeInd.
  Context (P : node -> Prop)
          (HE : forall n ef a ks, Forall P ks -> P (NElem n ef a ks))
          (HT : P NText) (HC : P NCData) (HM : P NMisc).
  Fixpoint node_ind' (nd : node) : P nd :=
    match nd with
    | NElem n ef a ks =>
        HE n ef a ks
          ((fix go (l : list node) : Forall P l :=
              match l with
              | [] => Forall_nil _
              | k :: r => Forall_cons k (node_ind' k) (go r)
              end) ks)
    | NText => HT
    | NCData => HC
    | NMisc => HM
    end.
End NodeInd.

(* ---------- unfolding absorb ---------- *)
Lemma absorb_go ks : forall r kn,
  (fix go (ks : list node) (r : element) (kn : list str) {struct ks} : element :=
     match ks with
     | [] => r
     | k :: ks' => let (r', kn') := absorb k r kn in go ks' r' kn'
     end) ks r kn = fst (absorb_forest ks r kn).
Proof.
  induction ks as [|k ks IH]; intros r kn; cbn [absorb_forest fst]; auto.
  destruct (absorb k r kn) as [r' kn']. apply IH.
Qed.

Definition absorb_child (ef : bool) (kids : list node) (c0 : element) : element :=
  if ef then c0 else fst (absorb_forest kids c0 []).

Lemma absorb_elem n ef attrs kids root known :
  absorb (NElem n ef attrs kids) root known =
  (tag_close (snd (fst (tag_open root n attrs known ef))) n
             (absorb_child ef kids (snd (tag_open root n attrs known ef)))
             (fst (fst (tag_open root n attrs known ef))),
   known_add known n).
Proof.
  cbn [absorb]. destruct (tag_open root n attrs known ef) as [[snap root1] c0].
  cbn [fst snd]. unfold absorb_child. now rewrite absorb_go.
Qed.

Lemma absorb_forest_cons k ks r kn :
  absorb_forest (k :: ks) r kn = absorb_forest ks (fst (absorb k r kn)) (snd (absorb k r kn)).
Proof. cbn [absorb_forest]. now destruct (absorb k r kn). Qed.

Lemma absorb_forest_app ks1 : forall ks2 r kn,
  absorb_forest (ks1 ++ ks2) r kn
  = absorb_forest ks2 (fst (absorb_forest ks1 r kn)) (snd (absorb_forest ks1 r kn)).
Proof.
  induction ks1 as [|k ks1 IH]; intros ks2 r kn; [reflexivity|].
  rewrite <- app_comm_cons, !absorb_forest_cons. apply IH.
Qed.

(* ---------- 1a. text versus CDATA ---------- *)
Lemma absorb_text_cdata r k : absorb NText r k = absorb NCData r k.
Proof. reflexivity. Qed.

(* ---------- 1b. comments, PIs, declaration, DOCTYPE ---------- *)
Definition is_misc (nd : node) : bool := match nd with NMisc => true | _ => false end.

Fixpoint strip_misc (nd : node) : node :=
  match nd with
  | NElem n ef a ks =>
      NElem n ef a (flat_map (fun k => match k with NMisc => [] | _ => [strip_misc k] end) ks)
  | x => x
  end.
Definition strip_misc_forest (ks : list node) : list node :=
  flat_map (fun k => match k with NMisc => [] | _ => [strip_misc k] end) ks.

Lemma absorb_forest_misc ks r k : absorb_forest (NMisc :: ks) r k = absorb_forest ks r k.
Proof. reflexivity. Qed.

Lemma absorb_forest_misc_anywhere ks1 ks2 r k :
  absorb_forest (ks1 ++ NMisc :: ks2) r k = absorb_forest (ks1 ++ ks2) r k.
Proof. now rewrite !absorb_forest_app. Qed.

Lemma strip_misc_forest_sound_aux ks :
  Forall (fun d => forall r k, absorb (strip_misc d) r k = absorb d r k) ks ->
  forall r k, absorb_forest (strip_misc_forest ks) r k = absorb_forest ks r k.
Proof.
  induction 1 as [|d ks Hd Hks IH]; intros r k; [reflexivity|].
  unfold strip_misc_forest. cbn [flat_map]. fold (strip_misc_forest ks).
  destruct d as [n ef a kk| | |].
  - cbn [app]. rewrite !absorb_forest_cons, Hd. apply IH.
  - cbn [app]. rewrite !absorb_forest_cons. apply IH.
  - cbn [app]. rewrite !absorb_forest_cons. apply IH.
  - cbn [app]. rewrite absorb_forest_misc. apply IH.
Qed.

Lemma strip_misc_sound d : forall r k, absorb (strip_misc d) r k = absorb d r k.
Proof.
  induction d as [n ef a ks IH| | |] using node_ind'; try reflexivity.
  intros r k. cbn [strip_misc]. fold (strip_misc_forest ks).
  rewrite !absorb_elem. unfold absorb_child.
  destruct ef; [reflexivity|]. now rewrite strip_misc_forest_sound_aux.
Qed.

Lemma strip_misc_forest_sound ks r k :
  absorb_forest (strip_misc_forest ks) r k = absorb_forest ks r k.
Proof.
  apply strip_misc_forest_sound_aux. apply Forall_forall. intros d _. apply strip_misc_sound.
Qed.

Lemma strip_misc_no_misc_kids n ef a ks :
  forallb (fun k => negb (is_misc k)) (strip_misc_forest ks) = true
  /\ strip_misc (NElem n ef a ks) = NElem n ef a (strip_misc_forest ks).
Proof.
  split; [|reflexivity].
  induction ks as [|k ks IH]; [reflexivity|].
  unfold strip_misc_forest. cbn [flat_map]. fold (strip_misc_forest ks).
  destruct k; cbn [app forallb strip_misc is_misc negb andb]; auto.
Qed.

(* ---------- 1c. the parent's text flag is never read ---------- *)
Lemma set_text_idem e b : set_text (set_text e b) b = set_text e b.
Proof. now destruct e. Qed.
Lemma set_children_set_text e b c : set_children (set_text e b) c = set_text (set_children e c) b.
Proof. now destruct e. Qed.

Lemma add_unique_child_set_text e b c :
  add_unique_child (set_text e b) c = set_text (add_unique_child e c) b.
Proof.
  unfold add_unique_child. rewrite echildren_set_text.
  destruct (get_child (echildren e) (ename c)); [reflexivity|].
  now rewrite set_children_set_text.
Qed.

Lemma tag_optional_children_set_text e b n cc :
  tag_optional_children (set_text e b) n cc = set_text (tag_optional_children e n cc) b.
Proof.
  unfold tag_optional_children. rewrite echildren_set_text.
  destruct (get_child (echildren e) n); [|reflexivity].
  now rewrite set_children_set_text.
Qed.

Lemma tag_close_set_text e b n c snap :
  tag_close (set_text e b) n c snap = set_text (tag_close e n c snap) b.
Proof.
  unfold tag_close. rewrite add_unique_child_set_text.
  destruct (snd snap); [apply tag_optional_children_set_text|reflexivity].
Qed.

Lemma tag_open_set_text e b n keys known ef :
  tag_open (set_text e b) n keys known ef =
  (fst (fst (tag_open e n keys known ef)),
   set_text (snd (fst (tag_open e n keys known ef))) b,
   snd (tag_open e n keys known ef)).
Proof.
  unfold tag_open. rewrite !echildren_set_text.
  destruct (remove_child (echildren e) n) as [found others]. cbn [fst snd].
  now rewrite set_children_set_text.
Qed.

Lemma absorb_set_text nd r k :
  absorb nd (set_text r true) k = (set_text (fst (absorb nd r k)) true, snd (absorb nd r k)).
Proof.
  destruct nd as [n ef a ks| | |].
  - rewrite !absorb_elem, tag_open_set_text. cbn [fst snd]. now rewrite tag_close_set_text.
  - cbn [absorb fst snd]. now rewrite set_text_idem.
  - cbn [absorb fst snd]. now rewrite set_text_idem.
  - reflexivity.
Qed.

Lemma absorb_forest_set_text ks : forall r k,
  absorb_forest ks (set_text r true) k
  = (set_text (fst (absorb_forest ks r k)) true, snd (absorb_forest ks r k)).
Proof.
  induction ks as [|d ks IH]; intros r k; [reflexivity|].
  rewrite !absorb_forest_cons, absorb_set_text. cbn [fst snd]. apply IH.
Qed.

Definition is_chardata (nd : node) : bool :=
  match nd with NText | NCData => true | _ => false end.
Definition is_elem (nd : node) : bool :=
  match nd with NElem _ _ _ _ => true | _ => false end.
Definition with_text (b : bool) (e : element) : element := if b then set_text e true else e.

(* a kid list acts like its element subsequence, plus the text flag *)
Lemma absorb_forest_factor ks : forall r k,
  absorb_forest ks r k
  = (with_text (existsb is_chardata ks) (fst (absorb_forest (filter is_elem ks) r k)),
     snd (absorb_forest (filter is_elem ks) r k)).
Proof.
  induction ks as [|d ks IH]; intros r k; [reflexivity|].
  destruct d as [n ef a kk| | |]; cbn [filter is_elem existsb is_chardata orb].
  - rewrite !absorb_forest_cons. apply IH.
  - rewrite absorb_forest_cons. cbn [absorb fst snd]. rewrite IH, absorb_forest_set_text.
    cbn [fst snd with_text]. destruct (existsb is_chardata ks); cbn [with_text]; auto.
    now rewrite set_text_idem.
  - rewrite absorb_forest_cons. cbn [absorb fst snd]. rewrite IH, absorb_forest_set_text.
    cbn [fst snd with_text]. destruct (existsb is_chardata ks); cbn [with_text]; auto.
    now rewrite set_text_idem.
  - rewrite absorb_forest_misc. apply IH.
Qed.

Lemma absorb_forest_text_irrelevant ks ks' r k :
  filter is_elem ks = filter is_elem ks' ->
  existsb is_chardata ks = existsb is_chardata ks' ->
  absorb_forest ks r k = absorb_forest ks' r k.
Proof. intros H1 H2. rewrite (absorb_forest_factor ks), (absorb_forest_factor ks'). now rewrite H1, H2. Qed.

(* ---------- 1d. the skeleton normal form ---------- *)
Fixpoint skel (nd : node) : node :=
  match nd with
  | NElem n ef a ks =>
      NElem n ef a
        (if ef then []
         else (if existsb is_chardata ks then [NText] else [])
              ++ flat_map (fun k => match k with NElem _ _ _ _ => [skel k] | _ => [] end) ks)
  | NCData => NText
  | x => x
  end.
Definition skel_elems (ks : list node) : list node :=
  flat_map (fun k => match k with NElem _ _ _ _ => [skel k] | _ => [] end) ks.
Definition skel_forest (ks : list node) : list node :=
  (if existsb is_chardata ks then [NText] else []) ++ skel_elems ks.

Lemma skel_elem n ef a ks :
  skel (NElem n ef a ks) = NElem n ef a (if ef then [] else skel_forest ks).
Proof. reflexivity. Qed.

Lemma skel_elems_sound_aux ks :
  Forall (fun d => forall r k, absorb (skel d) r k = absorb d r k) ks ->
  forall r k, absorb_forest (skel_elems ks) r k = absorb_forest (filter is_elem ks) r k.
Proof.
  induction 1 as [|d ks Hd Hks IH]; intros r k; [reflexivity|].
  unfold skel_elems. cbn [flat_map filter]. fold (skel_elems ks).
  destruct d as [n ef a kk| | |]; cbn [is_elem app]; try apply IH.
  rewrite !absorb_forest_cons, Hd. apply IH.
Qed.

Lemma skel_forest_sound_aux ks :
  Forall (fun d => forall r k, absorb (skel d) r k = absorb d r k) ks ->
  forall r k, absorb_forest (skel_forest ks) r k = absorb_forest ks r k.
Proof.
  intros H r k. rewrite (absorb_forest_factor ks). unfold skel_forest.
  destruct (existsb is_chardata ks); cbn [app with_text].
  - rewrite absorb_forest_cons. cbn [absorb fst snd].
    rewrite absorb_forest_set_text. now rewrite skel_elems_sound_aux.
  - rewrite skel_elems_sound_aux by assumption. now destruct (absorb_forest (filter is_elem ks) r k).
Qed.

Lemma skel_sound d : forall r k, absorb (skel d) r k = absorb d r k.
Proof.
  induction d as [n ef a ks IH| | |] using node_ind'; try reflexivity.
  intros r k. rewrite skel_elem, !absorb_elem. unfold absorb_child.
  destruct ef; [reflexivity|]. now rewrite skel_forest_sound_aux.
Qed.

Lemma skel_forest_sound ks r k : absorb_forest (skel_forest ks) r k = absorb_forest ks r k.
Proof. apply skel_forest_sound_aux. apply Forall_forall. intros d _. apply skel_sound. Qed.

Theorem skeleton_absorb d d' : skel d = skel d' -> forall r k, absorb d r k = absorb d' r k.
Proof. intros H r k. rewrite <- (skel_sound d), <- (skel_sound d'). now rewrite H. Qed.

Theorem skeleton_absorb_forest ks ks' :
  skel_forest ks = skel_forest ks' -> forall r k, absorb_forest ks r k = absorb_forest ks' r k.
Proof. intros H r k. rewrite <- (skel_forest_sound ks), <- (skel_forest_sound ks'). now rewrite H. Qed.

(* ====================================================================== *)
(* ---------- Uniq is preserved by the parser ---------- *)

Lemma ename_set_child_optional e n : ename (set_child_optional e n) = ename e.
Proof.
  unfold set_child_optional. destruct (remove_child (echildren e) n) as [[c|] r]; auto.
  apply ename_set_children.
Qed.
Lemma ename_fold_optional l : forall p, ename (fold_left set_child_optional l p) = ename p.
Proof.
  induction l as [|m l IH]; intros p; cbn [fold_left]; auto.
  now rewrite IH, ename_set_child_optional.
Qed.
Lemma Uniq_fold_optional l : forall p, Uniq p -> Uniq (fold_left set_child_optional l p).
Proof.
  induction l as [|m l IH]; intros p Hp; cbn [fold_left]; auto.
  apply IH. now apply Uniq_set_child_optional.
Qed.

Lemma update_first_names l n f :
  (forall e, ename (f e) = ename e) -> child_names (update_first l n f) = child_names l.
Proof.
  intros Hf. unfold child_names, cname. induction l as [|c l IH]; cbn [update_first map]; auto.
  destruct (str_eqb (ename (snd c)) n); cbn [map snd].
  - now rewrite Hf.
  - now rewrite IH.
Qed.
Lemma update_first_Forall (P : element -> Prop) l n f :
  (forall e, P e -> P (f e)) ->
  Forall (fun c => P (snd c)) l -> Forall (fun c => P (snd c)) (update_first l n f).
Proof.
  intros Hf. induction 1 as [|c l Hc Hl IH]; cbn [update_first]; auto.
  destruct (str_eqb (ename (snd c)) n); constructor; cbn [snd]; auto.
Qed.
Lemma update_first_id l n : update_first l n (fun p => p) = l.
Proof.
  induction l as [|c l IH]; cbn [update_first]; auto.
  destruct (str_eqb (ename (snd c)) n); [now destruct c|now rewrite IH].
Qed.

Lemma Uniq_tag_optional_children root n cc : Uniq root -> Uniq (tag_optional_children root n cc).
Proof.
  intros H. unfold tag_optional_children.
  destruct (get_child (echildren root) n) as [c|]; auto.
  destruct (Uniq_inv _ H) as (Ha & Hn & Hf).
  apply Uniq_set_children; auto.
  - rewrite update_first_names; auto. intros e. apply ename_fold_optional.
  - apply update_first_Forall; auto. intros e. apply Uniq_fold_optional.
Qed.

Lemma Uniq_tag_close root1 n child snap :
  Uniq root1 -> Uniq child -> Uniq (tag_close root1 n child snap).
Proof.
  intros H1 H2. unfold tag_close.
  destruct (snd snap); [apply Uniq_tag_optional_children|]; now apply Uniq_add_unique_child.
Qed.

(* the components of tag_open *)
Definition open_c0 (root : element) (name : str) (keys known : list str) : element :=
  match get_child (echildren root) name with
  | Some c =>
      let c1 := merge_attr (snd c) (map (fun a => (Mand, a)) keys) in
      increment (if mem name known then set_multiple c1 else c1)
  | None =>
      let c1 := new_element name keys in
      if mem name known then set_multiple c1 else c1
  end.
Definition open_root1 (root : element) (name : str) : element :=
  set_children root (snd (remove_child (echildren root) name)).

Lemma tag_open_eq root name keys known ef :
  tag_open root name keys known ef =
  (if ef then ([], true) else snapshot (get_child (echildren root) name),
   open_root1 root name, open_c0 root name keys known).
Proof.
  unfold tag_open, open_root1, open_c0.
  rewrite <- (remove_child_fst (echildren root) name).
  now destruct (remove_child (echildren root) name) as [[c|] others].
Qed.

Lemma Uniq_open_root1 root name : Uniq root -> Uniq (open_root1 root name).
Proof.
  intros H. destruct (Uniq_inv _ H) as (Ha & Hn & Hf). unfold open_root1.
  apply Uniq_set_children; auto.
  - now apply remove_child_nodup.
  - now apply remove_child_Forall.
Qed.
Lemma Uniq_open_c0 root name keys known : Uniq root -> Uniq (open_c0 root name keys known).
Proof.
  intros H. destruct (Uniq_inv _ H) as (Ha & Hn & Hf). unfold open_c0.
  destruct (get_child (echildren root) name) as [c|] eqn:G.
  - destruct (get_child_some _ _ _ G) as [Hin _].
    rewrite Forall_forall in Hf. specialize (Hf c Hin).
    apply Uniq_increment. destruct (mem name known); [apply Uniq_set_multiple|]; now apply Uniq_merge_attr.
  - destruct (mem name known); [apply Uniq_set_multiple|]; apply Uniq_new_element.
Qed.
Lemma ename_open_c0 root name keys known : ename (open_c0 root name keys known) = name.
Proof.
  unfold open_c0. destruct (get_child (echildren root) name) as [c|] eqn:G.
  - destruct (get_child_some _ _ _ G) as [_ Hc]. unfold cname in Hc.
    rewrite ename_increment. destruct (mem name known);
      [rewrite ename_set_multiple|]; now rewrite ename_merge_attr.
  - destruct (mem name known); [rewrite ename_set_multiple|]; reflexivity.
Qed.
Lemma echildren_open_c0 root name keys known :
  echildren (open_c0 root name keys known)
  = match get_child (echildren root) name with Some c => echildren (snd c) | None => [] end.
Proof.
  unfold open_c0. destruct (get_child (echildren root) name) as [c|].
  - rewrite echildren_increment. destruct (mem name known);
      [rewrite echildren_set_multiple|]; now rewrite echildren_merge_attr.
  - destruct (mem name known); [rewrite echildren_set_multiple|]; reflexivity.
Qed.

Lemma absorb_Uniq_and_forest :
  (forall nd r k, Uniq r -> Uniq (fst (absorb nd r k))).
Proof.
  induction nd as [n ef a ks IH| | |] using node_ind'; intros r k Hr;
    [|cbn [absorb fst]; now apply Uniq_set_text|cbn [absorb fst]; now apply Uniq_set_text|exact Hr].
  rewrite absorb_elem, tag_open_eq. cbn [fst snd].
  apply Uniq_tag_close; [now apply Uniq_open_root1|].
  unfold absorb_child. destruct ef; [now apply Uniq_open_c0|].
  generalize (Uniq_open_c0 r n a k Hr). generalize (open_c0 r n a k). generalize (@nil str).
  induction IH as [|d ks Hd Hks IHks]; intros kn c Hc; [exact Hc|].
  rewrite absorb_forest_cons. apply IHks. now apply Hd.
Qed.

Theorem absorb_Uniq nd r k : Uniq r -> Uniq (fst (absorb nd r k)).
Proof. apply absorb_Uniq_and_forest. Qed.

Theorem absorb_forest_Uniq ks : forall r k, Uniq r -> Uniq (fst (absorb_forest ks r k)).
Proof.
  induction ks as [|d ks IH]; intros r k Hr; [exact Hr|].
  rewrite absorb_forest_cons. apply IH. now apply absorb_Uniq.
Qed.

Lemma Uniq_wrapper : Uniq wrapper.
Proof. apply Uniq_new_element. Qed.

(* ====================================================================== *)
(* ---------- 2. <x/> versus <x></x> ---------- *)

Definition snap_list (ch : list (nec * element)) : list (str * N) :=
  flat_map (fun ch => match fst ch with
                      | Mand => [(ename (snd ch), ecount (snd ch))]
                      | Opt => [] end) ch.
Definition mand_names (ch : list (nec * element)) : list str :=
  flat_map (fun ch => match fst ch with Mand => [ename (snd ch)] | Opt => [] end) ch.

Lemma assoc_last_absent n l : forall acc, ~ In n (map fst l) -> assoc_last n l acc = acc.
Proof.
  induction l as [|[k v] l IH]; intros acc H; cbn [assoc_last]; auto.
  cbn [map fst] in H. rewrite IH by (intros Hc; apply H; right; exact Hc).
  destruct (str_eqb_spec k n) as [E|E]; auto. exfalso. apply H. now left.
Qed.

Lemma snap_list_keys ch n : In n (map fst (snap_list ch)) -> In n (child_names ch).
Proof.
  unfold snap_list, child_names, cname. induction ch as [|c ch IH]; cbn [flat_map map]; auto.
  rewrite map_app, in_app_iff. intros [H|H]; [|right; auto].
  destruct (fst c); cbn [map fst] in H; [destruct H|]. destruct H as [H|[]]. now left.
Qed.

Lemma snap_get_own ch c :
  NoDup (child_names ch) -> In c ch ->
  snap_get (snap_list ch) (cname c)
  = match fst c with Mand => Some (ecount (snd c)) | Opt => None end.
Proof.
  unfold snap_get. induction ch as [|d ch IH]; intros Hnd Hin; [destruct Hin|].
  cbn [child_names map] in Hnd. inversion Hnd as [|? ? Hd Hch]; subst.
  unfold snap_list. cbn [flat_map]. fold (snap_list ch).
  destruct Hin as [->|Hin].
  - assert (Hk : ~ In (cname c) (map fst (snap_list ch))).
    { intros Hc. apply Hd. now apply snap_list_keys. }
    destruct (fst c); cbn [app assoc_last].
    + now apply assoc_last_absent.
    + fold (cname c). rewrite str_eqb_refl. now apply assoc_last_absent.
  - assert (Hne : cname d <> cname c).
    { intros E. apply Hd. rewrite E. unfold child_names. now apply in_map. }
    specialize (IH Hch Hin).
    destruct (fst d); cbn [app assoc_last]; auto.
    fold (cname d). destruct (str_eqb_spec (cname d) (cname c)) as [E|_]; [contradiction|auto].
Qed.

Lemma flat_map_ext_in' {A B} (f g : A -> list B) l :
  (forall x, In x l -> f x = g x) -> flat_map f l = flat_map g l.
Proof.
  induction l as [|x l IH]; intros H; cbn [flat_map]; auto.
  rewrite H by (now left). rewrite IH; auto. intros y Hy. apply H. now right.
Qed.
Lemma flat_map_nil {A B} (l : list A) : flat_map (fun _ => @nil B) l = [].
Proof. induction l; auto. Qed.

Lemma to_optional_empty p : to_optional p [] = mand_names (echildren p).
Proof.
  unfold to_optional, mand_names. cbn [snap_get assoc_last].
  now rewrite flat_map_nil.
Qed.

Lemma to_optional_own p :
  NoDup (child_names (echildren p)) ->
  to_optional p (snap_list (echildren p)) = mand_names (echildren p).
Proof.
  intros Hnd. unfold to_optional, mand_names.
  match goal with |- ?A ++ ?B = ?C =>
    assert (EA : A = C); [|assert (EB : B = []); [|now rewrite EA, EB, app_nil_r]] end.
  - apply flat_map_ext_in'. intros c Hc. fold (cname c). rewrite (snap_get_own _ _ Hnd Hc).
    destruct (fst c); auto. now rewrite N.eqb_refl.
  - etransitivity; [|apply (flat_map_nil (echildren p))].
    apply flat_map_ext_in'. intros c Hc. fold (cname c). rewrite (snap_get_own _ _ Hnd Hc).
    now destruct (fst c).
Qed.

Lemma to_optional_children p q cc : echildren p = echildren q -> to_optional p cc = to_optional q cc.
Proof. unfold to_optional. now intros ->. Qed.

Lemma tag_optional_children_children root n cc cc' :
  (forall c, get_child (echildren root) n = Some c -> to_optional (snd c) cc = to_optional (snd c) cc') ->
  tag_optional_children root n cc = tag_optional_children root n cc'.
Proof.
  unfold tag_optional_children. intros H.
  destruct (get_child (echildren root) n) as [c|]; auto. now rewrite (H c eq_refl).
Qed.

Lemma echildren_with_pos e c : echildren (with_pos e c) = echildren c.
Proof. unfold with_pos. destruct (epos c); auto. apply echildren_set_pos. Qed.

(* the heart: closing with the empty snapshot equals closing with the real one *)
Lemma tag_close_emptyform root n keys known :
  Uniq root ->
  tag_close (open_root1 root n) n (open_c0 root n keys known) ([], true)
  = tag_close (open_root1 root n) n (open_c0 root n keys known)
              (snapshot (get_child (echildren root) n)).
Proof.
  intros H. destruct (Uniq_inv _ H) as (Ha & Hn & Hf).
  set (root1 := open_root1 root n). set (c0 := open_c0 root n keys known).
  assert (G1 : get_child (echildren root1) (ename c0) = None).
  { unfold root1, c0, open_root1. rewrite ename_open_c0, echildren_set_children.
    now apply remove_child_absent. }
  unfold tag_close. cbn [fst snd].
  rewrite (add_unique_child_fresh _ _ G1).
  set (root2 := set_children root1 (echildren root1 ++ [(Mand, with_pos root1 c0)])).
  assert (G2 : get_child (echildren root2) n = Some (Mand, with_pos root1 c0)).
  { unfold root2. rewrite echildren_set_children, get_child_app.
    unfold c0 in G1. rewrite ename_open_c0 in G1. rewrite G1. cbn [get_child snd].
    rewrite ename_with_pos. unfold c0. now rewrite ename_open_c0, str_eqb_refl. }
  assert (Ech : echildren (with_pos root1 c0)
                = match get_child (echildren root) n with Some c => echildren (snd c) | None => [] end).
  { rewrite echildren_with_pos. apply echildren_open_c0. }
  destruct (get_child (echildren root) n) as [c|] eqn:G; cbn [snapshot fst snd].
  - apply tag_optional_children_children. intros x Hx. rewrite G2 in Hx.
    injection Hx as <-. cbn [snd].
    fold (snap_list (echildren (snd c))). rewrite <- Ech.
    rewrite to_optional_empty, to_optional_own; auto.
    rewrite Ech. destruct (get_child_some _ _ _ G) as [Hin _].
    rewrite Forall_forall in Hf. specialize (Hf c Hin).
    now destruct (Uniq_inv _ Hf) as (_ & Hcn & _).
  - unfold tag_optional_children. rewrite G2. cbn [snd].
    rewrite to_optional_empty, Ech. cbn [mand_names flat_map rev fold_left].
    rewrite update_first_id. unfold root2. rewrite echildren_set_children.
    now destruct root1.
Qed.

Theorem emptyform_absorb root n attrs ks known :
  Uniq root ->
  absorb (NElem n true attrs ks) root known = absorb (NElem n false attrs []) root known.
Proof.
  intros H. rewrite !absorb_elem, !tag_open_eq. cbn [fst snd absorb_child absorb_forest].
  now rewrite tag_close_emptyform.
Qed.

(* without the invariant only the "new child" case holds *)
Lemma emptyform_absorb_new root n attrs ks known :
  get_child (echildren root) n = None ->
  absorb (NElem n true attrs ks) root known = absorb (NElem n false attrs []) root known.
Proof.
  intros G. rewrite !absorb_elem, !tag_open_eq. cbn [fst snd absorb_child absorb_forest].
  rewrite G. cbn [snapshot]. unfold tag_close. cbn [fst snd].
  set (root1 := open_root1 root n). set (c0 := open_c0 root n attrs known).
  assert (G1 : get_child (echildren root1) (ename c0) = None).
  { unfold root1, c0, open_root1. rewrite ename_open_c0, echildren_set_children.
    now rewrite remove_child_none. }
  rewrite (add_unique_child_fresh _ _ G1).
  unfold tag_optional_children. rewrite echildren_set_children, get_child_app.
  unfold c0 in G1 |- *. rewrite ename_open_c0 in G1. rewrite G1. cbn [get_child snd].
  rewrite ename_with_pos, ename_open_c0, str_eqb_refl. cbn [snd].
  rewrite to_optional_empty, echildren_with_pos, echildren_open_c0, G.
  cbn [mand_names flat_map rev fold_left]. rewrite update_first_id.
  now destruct root1.
Qed.

(* deep version: every `<x/>` in the document written as `<x></x>` *)
Fixpoint unempty (nd : node) : node :=
  match nd with
  | NElem n ef a ks => NElem n false a (if ef then [] else map unempty ks)
  | x => x
  end.

Lemma unempty_forest_aux ks :
  Forall (fun d => forall r k, Uniq r -> absorb (unempty d) r k = absorb d r k) ks ->
  forall r k, Uniq r -> absorb_forest (map unempty ks) r k = absorb_forest ks r k.
Proof.
  induction 1 as [|d ks Hd Hks IH]; intros r k Hr; [reflexivity|].
  cbn [map]. rewrite !absorb_forest_cons, Hd by assumption.
  apply IH. now apply absorb_Uniq.
Qed.

Theorem unempty_absorb d : forall r k, Uniq r -> absorb (unempty d) r k = absorb d r k.
Proof.
  induction d as [n ef a ks IH| | |] using node_ind'; try reflexivity.
  intros r k Hr. cbn [unempty]. destruct ef.
  - symmetry. now apply emptyform_absorb.
  - rewrite !absorb_elem, !tag_open_eq. cbn [fst snd absorb_child].
    rewrite unempty_forest_aux; auto. now apply Uniq_open_c0.
Qed.

Theorem unempty_absorb_forest ks r k :
  Uniq r -> absorb_forest (map unempty ks) r k = absorb_forest ks r k.
Proof.
  apply unempty_forest_aux. apply Forall_forall. intros d _. apply unempty_absorb.
Qed.

(* the complete document-level statement: same skeleton up to empty-form => same tree *)
Theorem structure_only_absorb d d' r k :
  Uniq r -> skel (unempty d) = skel (unempty d') -> absorb d r k = absorb d' r k.
Proof.
  intros Hr H. rewrite <- (unempty_absorb d), <- (unempty_absorb d') by assumption.
  now apply skeleton_absorb.
Qed.

(* ====================================================================== *)
(* ---------- 3. event level: build_struct ---------- *)

Definition tag_step (fuel' : nat) (rest : list event) (root : element) (known : list str)
           (n : res str) (attrs : list attr_res) (empty : bool) : outcome (element * list event) :=
  match n with
  | RBad id => Err (FromUtf8Error id)
  | ROk name =>
      match attr_keys attrs with
      | inl e => Err e
      | inr keys =>
          match (if empty then Ok (open_c0 root name keys known, rest)
                 else build_struct fuel' rest (open_c0 root name keys known) []) with
          | Ok (child, rest') =>
              build_struct fuel' rest'
                (tag_close (open_root1 root name) name child
                   (if empty then ([], true) else snapshot (get_child (echildren root) name)))
                (known_add known name)
          | Err e => Err e
          | OutOfFuel => OutOfFuel
          end
      end
  end.

Lemma build_struct_S f evs root known :
  build_struct (S f) evs root known =
  match evs with
  | [] => Ok (root, [])
  | ev :: rest =>
      match ev with
      | EStart n attrs => tag_step f rest root known n attrs false
      | EEmpty n attrs => tag_step f rest root known n attrs true
      | EEnd => Ok (root, rest)
      | EText (ROk _) | ECData (ROk _) => build_struct f rest (set_text root true) known
      | EText (RBad id) | ECData (RBad id) => Err (FromUtf8Error id)
      | EMisc => build_struct f rest root known
      | EErr p id => Err (QuickXmlError p id)
      end
  end.
Proof.
  destruct evs as [|ev rest]; [reflexivity|].
  destruct ev as [n attrs|n attrs| |t|t| |p id]; try reflexivity.
  - cbn [build_struct]. unfold tag_step. destruct n as [name|id]; [|reflexivity].
    destruct (attr_keys attrs) as [e|keys]; [reflexivity|].
    rewrite tag_open_eq. reflexivity.
  - cbn [build_struct]. unfold tag_step. destruct n as [name|id]; [|reflexivity].
    destruct (attr_keys attrs) as [e|keys]; [reflexivity|].
    rewrite tag_open_eq. reflexivity.
Qed.

(* what is left over is a suffix of the input *)
Lemma build_struct_suffix f : forall evs root known r rest,
  build_struct f evs root known = Ok (r, rest) -> exists pre, evs = pre ++ rest.
Proof.
  induction f as [|f IH]; intros evs root known r rest H; [discriminate H|].
  rewrite build_struct_S in H.
  destruct evs as [|ev evs]; [injection H as _ <-; now exists []|].
  assert (Htag : forall n attrs empty,
             tag_step f evs root known n attrs empty = Ok (r, rest) -> exists pre, evs = pre ++ rest).
  { intros n attrs empty Ht. unfold tag_step in Ht.
    destruct n as [name|id]; [|discriminate Ht].
    destruct (attr_keys attrs) as [e|keys]; [discriminate Ht|].
    destruct empty.
    - apply IH in Ht. exact Ht.
    - destruct (build_struct f evs (open_c0 root name keys known) []) as [[child rest']|e|] eqn:Hs;
        try discriminate Ht.
      apply IH in Hs. apply IH in Ht. destruct Hs as [p1 ->]. destruct Ht as [p2 ->].
      exists (p1 ++ p2). now rewrite app_assoc. }
  assert (Hcons : forall x, (exists pre, evs = pre ++ rest) -> exists pre, x :: evs = pre ++ rest).
  { intros x [pre ->]. now exists (x :: pre). }
  destruct ev as [n attrs|n attrs| |t|t| |p id]; apply Hcons.
  - now apply (Htag n attrs false).
  - now apply (Htag n attrs true).
  - injection H as _ <-. now exists [].
  - destruct t as [u|id]; [|discriminate H]. now apply IH in H.
  - destruct t as [u|id]; [|discriminate H]. now apply IH in H.
  - now apply IH in H.
  - discriminate H.
Qed.

Lemma build_struct_rest_length f evs root known r rest :
  build_struct f evs root known = Ok (r, rest) -> (length rest <= length evs)%nat.
Proof.
  intros H. apply build_struct_suffix in H. destruct H as [pre ->]. rewrite app_length. lia.
Qed.

Theorem build_struct_Uniq f : forall evs root known r rest,
  Uniq root -> build_struct f evs root known = Ok (r, rest) -> Uniq r.
Proof.
  induction f as [|f IH]; intros evs root known r rest Hr H; [discriminate H|].
  rewrite build_struct_S in H.
  destruct evs as [|ev evs]; [now injection H as <- _|].
  assert (Htag : forall n attrs empty,
             tag_step f evs root known n attrs empty = Ok (r, rest) -> Uniq r).
  { intros n attrs empty Ht. unfold tag_step in Ht.
    destruct n as [name|id]; [|discriminate Ht].
    destruct (attr_keys attrs) as [e|keys]; [discriminate Ht|].
    destruct empty.
    - apply IH in Ht; auto. apply Uniq_tag_close; [now apply Uniq_open_root1|now apply Uniq_open_c0].
    - destruct (build_struct f evs (open_c0 root name keys known) []) as [[child rest']|e|] eqn:Hs;
        try discriminate Ht.
      apply IH in Hs; [|now apply Uniq_open_c0].
      apply IH in Ht; auto. apply Uniq_tag_close; [now apply Uniq_open_root1|exact Hs]. }
  destruct ev as [n attrs|n attrs| |t|t| |p id].
  - now apply (Htag n attrs false).
  - now apply (Htag n attrs true).
  - now injection H as <- _.
  - destruct t as [u|id]; [|discriminate H]. apply IH in H; auto. now apply Uniq_set_text.
  - destruct t as [u|id]; [|discriminate H]. apply IH in H; auto. now apply Uniq_set_text.
  - now apply IH in H.
  - discriminate H.
Qed.

(* enough fuel: the result does not depend on the amount *)
Lemma build_struct_fuel f1 : forall f2 evs root known,
  (length evs < f1)%nat -> (length evs < f2)%nat ->
  build_struct f1 evs root known = build_struct f2 evs root known.
Proof.
  induction f1 as [|f1 IH]; intros f2 evs root known H1 H2; [lia|].
  destruct f2 as [|f2]; [lia|]. rewrite !build_struct_S.
  destruct evs as [|ev evs]; [reflexivity|]. cbn [length] in H1, H2.
  assert (Htag : forall n attrs empty,
             tag_step f1 evs root known n attrs empty = tag_step f2 evs root known n attrs empty).
  { intros n attrs empty. unfold tag_step.
    destruct n as [name|id]; [|reflexivity].
    destruct (attr_keys attrs) as [e|keys]; [reflexivity|].
    destruct empty.
    - apply IH; lia.
    - rewrite (IH f2 evs) by lia.
      destruct (build_struct f2 evs (open_c0 root name keys known) []) as [[child rest']|e|] eqn:Hs;
        try reflexivity.
      apply build_struct_rest_length in Hs. apply IH; lia. }
  destruct ev as [n attrs|n attrs| |t|t| |p id]; auto.
  - destruct t as [u|id]; [|reflexivity]. apply IH; lia.
  - destruct t as [u|id]; [|reflexivity]. apply IH; lia.
  - apply IH; lia.
Qed.

(* asking the reader to expand empty elements *)
Fixpoint expand (evs : list event) : list event :=
  match evs with
  | [] => []
  | EEmpty n a :: r => EStart n a :: EEnd :: expand r
  | e :: r => e :: expand r
  end.

Definition map_rest (g : list event -> list event) (o : outcome (element * list event))
  : outcome (element * list event) :=
  match o with
  | Ok (r, rest) => Ok (r, g rest)
  | Err e => Err e
  | OutOfFuel => OutOfFuel
  end.

Lemma expand_app l1 l2 : expand (l1 ++ l2) = expand l1 ++ expand l2.
Proof.
  induction l1 as [|e l1 IH]; [reflexivity|].
  destruct e; cbn [expand app]; now rewrite IH.
Qed.
Lemma expand_length_ge l : (length l <= length (expand l))%nat.
Proof. induction l as [|e l IH]; [auto|]. destruct e; cbn [expand length]; lia. Qed.

Theorem expand_build_struct f : forall evs root known,
  Uniq root -> (length (expand evs) < f)%nat ->
  build_struct f (expand evs) root known = map_rest expand (build_struct f evs root known).
Proof.
  induction f as [|f IH]; intros evs root known Hr Hlen; [lia|].
  destruct evs as [|ev evs]; [reflexivity|].
  destruct ev as [n attrs|n attrs| |t|t| |p id]; cbn [expand length] in Hlen |- *.
  - (* EStart *)
    rewrite !build_struct_S. unfold tag_step.
    destruct n as [name|id]; [|reflexivity].
    destruct (attr_keys attrs) as [e|keys]; [reflexivity|].
    rewrite IH by (try apply Uniq_open_c0; auto; lia).
    destruct (build_struct f evs (open_c0 root name keys known) []) as [[child rest']|e|] eqn:Hs;
      try reflexivity.
    cbn [map_rest]. apply IH.
    + apply Uniq_tag_close; [now apply Uniq_open_root1|].
      eapply build_struct_Uniq; [|exact Hs]. now apply Uniq_open_c0.
    + apply build_struct_suffix in Hs. destruct Hs as [pre ->].
      rewrite expand_app, app_length in Hlen. lia.
  - (* EEmpty *)
    rewrite (build_struct_S f (EStart n attrs :: EEnd :: expand evs)).
    rewrite (build_struct_S f (EEmpty n attrs :: evs)). unfold tag_step.
    destruct n as [name|id]; [|reflexivity].
    destruct (attr_keys attrs) as [e|keys]; [reflexivity|].
    destruct f as [|f']; [lia|].
    rewrite (build_struct_S f' (EEnd :: expand evs)).
    rewrite <- tag_close_emptyform by assumption.
    apply IH; [|lia].
    apply Uniq_tag_close; [now apply Uniq_open_root1|now apply Uniq_open_c0].
  - rewrite !build_struct_S. reflexivity.
  - rewrite !build_struct_S. destruct t as [u|id]; [|reflexivity].
    apply IH; [now apply Uniq_set_text|lia].
  - rewrite !build_struct_S. destruct t as [u|id]; [|reflexivity].
    apply IH; [now apply Uniq_set_text|lia].
  - rewrite !build_struct_S. apply IH; [assumption|lia].
  - rewrite !build_struct_S. reflexivity.
Qed.

Lemma take_root_map_rest g o : take_root (map_rest g o) = take_root o.
Proof. destruct o as [[w rest]|e|]; reflexivity. Qed.

Theorem expand_into_struct_ev evs : into_struct_ev (expand evs) = into_struct_ev evs.
Proof.
  unfold into_struct_ev, fuel_for.
  rewrite expand_build_struct by (try apply Uniq_wrapper; lia).
  rewrite take_root_map_rest. f_equal.
  apply build_struct_fuel; [|lia]. pose proof (expand_length_ge evs). lia.
Qed.

Theorem expand_extend_struct_ev root evs :
  Uniq root -> extend_struct_ev root (expand evs) = extend_struct_ev root evs.
Proof.
  intros Hr. unfold extend_struct_ev, fuel_for.
  rewrite expand_build_struct
    by (try (apply Uniq_add_unique_child; [apply Uniq_wrapper|assumption]); lia).
  rewrite take_root_map_rest. f_equal.
  apply build_struct_fuel; [|lia]. pose proof (expand_length_ge evs). lia.
Qed.

(* the event stream of the un-emptied document is the expanded stream *)
Lemma events_of_elem n a ks :
  events_of (NElem n false a ks)
  = EStart (ROk n) (map (fun x => AOk (ROk x)) a) :: events_of_forest ks ++ [EEnd].
Proof.
  reflexivity.
Qed.

Lemma events_of_unempty d : events_of (unempty d) = expand (events_of d).
Proof.
  induction d as [n ef a ks IH| | |] using node_ind'; try reflexivity.
  cbn [unempty]. destruct ef; [reflexivity|].
  rewrite !events_of_elem. cbn [expand]. f_equal. rewrite expand_app. f_equal.
  induction IH as [|k ks Hk Hks IHks]; [reflexivity|].
  unfold events_of_forest in *. cbn [map flat_map]. now rewrite expand_app, Hk, IHks.
Qed.

(* ---------- Uniq of the results of the public entry points ---------- *)
Lemma take_root_Uniq o e :
  (forall w rest, o = Ok (w, rest) -> Uniq w) -> take_root o = Ok e -> Uniq e.
Proof.
  intros Hw H. destruct o as [[w rest]|err|]; try discriminate H. cbn [take_root] in H.
  specialize (Hw w rest eq_refl). destruct (Uniq_inv _ Hw) as (_ & _ & Hf).
  destruct (echildren w) as [|c l] eqn:E; [discriminate H|]. rewrite <- E in H.
  pose proof (remove_child_fst (echildren w) (ename (snd c))) as F.
  destruct (remove_child (echildren w) (ename (snd c))) as [[x|] others]; [|discriminate H].
  injection H as <-. cbn [fst] in F. symmetry in F. apply get_child_some in F.
  rewrite Forall_forall in Hf. rewrite <- E in Hf. now apply Hf.
Qed.

Theorem into_struct_ev_Uniq evs e : into_struct_ev evs = Ok e -> Uniq e.
Proof.
  apply take_root_Uniq. intros w rest H. eapply build_struct_Uniq; [|exact H]. apply Uniq_wrapper.
Qed.
Theorem extend_struct_ev_Uniq root evs e :
  Uniq root -> extend_struct_ev root evs = Ok e -> Uniq e.
Proof.
  intros Hr. apply take_root_Uniq. intros w rest H. eapply build_struct_Uniq; [|exact H].
  apply Uniq_add_unique_child; [apply Uniq_wrapper|assumption].
Qed.

Lemma first_child_Uniq w e : Uniq w -> first_child w = Some e -> Uniq e.
Proof.
  intros Hw H. destruct (Uniq_inv _ Hw) as (_ & _ & Hf). unfold first_child in H.
  destruct (echildren w) as [|c l]; [discriminate H|]. injection H as <-.
  now inversion Hf.
Qed.
Theorem into_struct_dom_Uniq top e : into_struct_dom top = Some e -> Uniq e.
Proof. apply first_child_Uniq. apply absorb_forest_Uniq. apply Uniq_wrapper. Qed.
Theorem extend_struct_dom_Uniq root top e :
  Uniq root -> extend_struct_dom root top = Some e -> Uniq e.
Proof.
  intros Hr. apply first_child_Uniq. apply absorb_forest_Uniq.
  apply Uniq_add_unique_child; [apply Uniq_wrapper|assumption].
Qed.
