(* C01 / C16 / C06 for hand-built or previously edited trees:
   extending ANY tree (child names and attribute names unique under every node, nothing else
   assumed: any counts, tags, standalone flags, positions, text flags) with a document makes
   the tree admit that document (extend_admits), and never loses a document the tree admitted
   before (TreeAdmits_absorb_more, extend_keeps_admitted).
   Part 1. what closing an occurrence (demotion against the snapshot) does, read off
           `occ_child` of AbsorbShape.v.
   Part 2. monotonicity: `TreeAdmits x nd` is stable under absorbing one more occurrence into x.
   Part 3. the in-flight invariant `Flight` ("admits so far") and the main theorem.
   No count bookkeeping is needed: a child that is Mandatory after closing was in the snapshot
   with a DIFFERENT count, hence was touched, hence seen, in the occurrence being closed. *)
From Coq Require Import String Lia Permutation.
From XSG.Model Require Import Strings Necessity Element Parser Dom Spec.
From XSG.Proofs Require Import StringsProofs NecessityProofs ElementProofs SpecProofs DemoteProofs
     SkelProofs ReprDefs AbsorbShape ExactProofs AdmitProofs.
Open Scope list_scope.

(* ====================================================================== *)
(* Part 0. small facts                                                     *)
(* ====================================================================== *)

Lemma KidAdmits_children x x' k : echildren x = echildren x' -> KidAdmits x k -> KidAdmits x' k.
Proof. intros E. unfold KidAdmits. destruct k as [m ef a kk| | |]; auto. now rewrite E. Qed.

(* the name of the document element is irrelevant to TreeAdmits *)
Lemma TreeAdmits_rename x n n' ef a ks :
  TreeAdmits x (NElem n ef a ks) -> TreeAdmits x (NElem n' ef a ks).
Proof. intros H. apply TreeAdmits_elem in H. apply TreeAdmits_elem. exact H. Qed.

Lemma get_child_perm l l' n c :
  NoDup (child_names l) -> Permutation l l' -> get_child l n = Some c -> get_child l' n = Some c.
Proof.
  intros Hnd P G. destruct (get_child_some _ _ _ G) as [Hin Hc]. subst n.
  apply get_child_in_nodup.
  - eapply Permutation_NoDup; [|exact Hnd]. unfold child_names. now apply Permutation_map.
  - eapply Permutation_in; eauto.
Qed.

Lemma get_child_retag L l n :
  get_child (map (retag L) l) n = option_map (retag L) (get_child l n).
Proof.
  induction l as [|d l IH]; cbn [map get_child option_map]; auto.
  rewrite snd_retag. destruct (str_eqb (ename (snd d)) n); auto.
Qed.

Lemma elem_names_in m ks : In m (elem_names ks) -> exists ef a kk, In (NElem m ef a kk) ks.
Proof.
  unfold elem_names. intros H. apply in_flat_map in H. destruct H as [k [Hk Hm]].
  destruct k as [n ef a kk| | |]; try contradiction. destruct Hm as [->|[]]. eauto.
Qed.

Lemma in_elem_names m ef a kk ks : In (NElem m ef a kk) ks -> In m (elem_names ks).
Proof.
  intros H. unfold elem_names. apply in_flat_map. exists (NElem m ef a kk). split; [exact H|now left].
Qed.

Lemma named_nonnil_in m ks : named m ks <> [] -> In m (elem_names ks).
Proof.
  intros H. destruct (in_dec (list_eq_dec N.eq_dec) m (elem_names ks)) as [Hy|Hn]; [exact Hy|].
  apply named_nil_iff in Hn. contradiction.
Qed.

Lemma items_map_mand (a : list str) : map snd (map (fun x => (Mand, x)) a) = a.
Proof. rewrite map_map. cbn [snd]. apply map_id. Qed.

Lemma Uniq_child root d : Uniq root -> In d (echildren root) -> Uniq (snd d).
Proof.
  intros H Hd. destruct (Uniq_inv _ H) as (_ & _ & Hf). rewrite Forall_forall in Hf. now apply Hf.
Qed.

Lemma cname_of_snd (y c : nec * element) : snd y = snd c -> cname y = cname c.
Proof. unfold cname. now intros ->. Qed.

(* ====================================================================== *)
(* Part 1. opening and closing an occurrence                               *)
(* ====================================================================== *)

(* ---------- the element that will absorb the content: open_c0 ---------- *)
Lemma estandalone_open_c0 root n a known :
  estandalone (open_c0 root n a known) = true ->
  mem n known = false
  /\ forall d, get_child (echildren root) n = Some d -> estandalone (snd d) = true.
Proof.
  unfold open_c0. destruct (get_child (echildren root) n) as [d|].
  - rewrite estandalone_increment. destruct (mem n known).
    + now rewrite estandalone_set_multiple.
    + rewrite estandalone_merge_attr. intros H. split; [reflexivity|]. now intros d' [= <-].
  - destruct (mem n known).
    + now rewrite estandalone_set_multiple.
    + intros _. split; [reflexivity|]. intros d' H. discriminate H.
Qed.

Lemma etext_open_c0 root n a known d :
  get_child (echildren root) n = Some d -> etext (open_c0 root n a known) = etext (snd d).
Proof.
  intros G. unfold open_c0. rewrite G, etext_increment.
  destruct (mem n known); rewrite ?etext_set_multiple; apply etext_merge_attr.
Qed.

Lemma eattrs_open_c0_found root n a known d :
  get_child (echildren root) n = Some d ->
  eattrs (open_c0 root n a known)
  = merge_necessity str_eqb (eattrs (snd d)) (map (fun x => (Mand, x)) a).
Proof.
  intros G. unfold open_c0. rewrite G, eattrs_increment.
  destruct (mem n known); rewrite ?eattrs_set_multiple; apply eattrs_merge_attr.
Qed.

Lemma eattrs_open_c0_new root n a known :
  get_child (echildren root) n = None ->
  eattrs (open_c0 root n a known) = eattrs (new_element n a).
Proof.
  intros G. unfold open_c0. rewrite G. destruct (mem n known); [apply eattrs_set_multiple|reflexivity].
Qed.

(* every attribute of the occurrence has an entry *)
Lemma open_attrs_has root n a known b :
  NoDup a -> In b a -> In b (map snd (eattrs (open_c0 root n a known))).
Proof.
  intros Ha Hb. destruct (get_child (echildren root) n) as [d|] eqn:G.
  - rewrite (eattrs_open_c0_found _ _ _ _ _ G).
    apply (merge_union str_eqb str_eqb_spec).
    + unfold items. now rewrite items_map_mand.
    + right. unfold items. now rewrite items_map_mand.
  - rewrite (eattrs_open_c0_new _ _ _ _ G). now apply new_element_attr_names.
Qed.

(* a Mandatory entry is an attribute of the occurrence *)
Lemma open_attrs_mand root n a known b :
  Uniq root -> NoDup a -> In (Mand, b) (eattrs (open_c0 root n a known)) -> In b a.
Proof.
  intros Hu Ha Hb. destruct (get_child (echildren root) n) as [d|] eqn:G.
  - rewrite (eattrs_open_c0_found _ _ _ _ _ G) in Hb.
    destruct (get_child_some _ _ _ G) as [Hd _].
    destruct (Uniq_inv _ (Uniq_child _ _ Hu Hd)) as (Hv & _).
    apply (merge_mandatory_iff str_eqb str_eqb_spec) in Hb.
    + destruct Hb as [_ Hb]. apply in_map_iff in Hb. destruct Hb as [x [E Hx]]. now injection E as <-.
    + exact Hv.
    + unfold items. now rewrite items_map_mand.
  - rewrite (eattrs_open_c0_new _ _ _ _ G) in Hb. apply (new_element_attr_names n a b).
    apply in_map_iff. exists (Mand, b). split; [reflexivity|exact Hb].
Qed.

(* entries are kept, Mandatory entries were Mandatory *)
Lemma open_attrs_keep root n a known d b :
  NoDup a -> get_child (echildren root) n = Some d ->
  In b (map snd (eattrs (snd d))) -> In b (map snd (eattrs (open_c0 root n a known))).
Proof.
  intros Ha G Hb. rewrite (eattrs_open_c0_found _ _ _ _ _ G).
  apply (merge_union str_eqb str_eqb_spec).
  - unfold items. now rewrite items_map_mand.
  - left. exact Hb.
Qed.
Lemma open_attrs_mand_old root n a known d b :
  Uniq root -> NoDup a -> get_child (echildren root) n = Some d ->
  In (Mand, b) (eattrs (open_c0 root n a known)) -> In (Mand, b) (eattrs (snd d)).
Proof.
  intros Hu Ha G Hb. rewrite (eattrs_open_c0_found _ _ _ _ _ G) in Hb.
  destruct (get_child_some _ _ _ G) as [Hd _].
  destruct (Uniq_inv _ (Uniq_child _ _ Hu Hd)) as (Hv & _).
  apply (merge_mandatory_iff str_eqb str_eqb_spec) in Hb; [tauto|exact Hv|].
  unfold items. now rewrite items_map_mand.
Qed.

(* ---------- the child after its content has been read, before closing ---------- *)
Definition occ_c1 (root : element) (n : str) (ef : bool) (a : list str) (kk : list node)
           (known : list str) : element :=
  absorb_child ef kk (open_c0 root n a known).

(* the names the closing step demotes *)
Definition occ_L (root : element) (n : str) (ef : bool) (a : list str) (kk : list node)
           (known : list str) : list str :=
  let c1 := occ_c1 root n ef a kk known in
  if ef then to_optional c1 []
  else match get_child (echildren root) n with
       | Some d => to_optional c1 (snap_of (echildren (snd d)))
       | None => []
       end.

Lemma Uniq_occ_c1 root n ef a kk known : Uniq root -> Uniq (occ_c1 root n ef a kk known).
Proof.
  intros Hu. unfold occ_c1, absorb_child. destruct ef; [now apply Uniq_open_c0|].
  apply absorb_forest_Uniq. now apply Uniq_open_c0.
Qed.

Lemma etext_occ_c1_mono root n ef a kk known :
  etext (open_c0 root n a known) = true -> etext (occ_c1 root n ef a kk known) = true.
Proof.
  intros H. unfold occ_c1, absorb_child. destruct ef; [exact H|].
  now rewrite absorb_forest_text, H.
Qed.

Lemma close_generic root n c0 c1 (L : option (list (str * N))) :
  Uniq c1 -> frame c1 = frame c0 -> ename c0 = n ->
  let c2 := with_pos (open_root1 root n) c1 in
  let x := match L with Some cc => demote cc c2 | None => c2 end in
  ename x = n /\ etext x = etext c1 /\ estandalone x = estandalone c0 /\ eattrs x = eattrs c0
  /\ Permutation (echildren x)
       (map (retag (match L with Some cc => to_optional c1 cc | None => [] end)) (echildren c1)).
Proof.
  intros U1 F1 N0 c2 x.
  destruct (shell_with_pos_but_pos (open_root1 root n) c1) as (W1 & W2 & W3 & W4 & W5 & W6).
  fold c2 in W1, W2, W3, W4, W5, W6.
  assert (Hnd2 : NoDup (child_names (echildren c2))).
  { rewrite W6. now destruct (Uniq_inv _ U1) as (_ & H & _). }
  pose proof (frame_ename _ _ F1) as E1. pose proof (frame_estandalone _ _ F1) as E3.
  pose proof (frame_eattrs _ _ F1) as E5.
  destruct L as [cc|]; unfold x.
  - destruct (demote_perm cc c2 Hnd2) as [S P].
    destruct (shell_inv _ _ S) as (S1 & S2 & S3 & _ & S5 & _).
    split; [congruence|]. split; [congruence|]. split; [congruence|]. split; [congruence|].
    rewrite (to_optional_children c1 c2 cc) by (now rewrite W6). now rewrite <- W6.
  - split; [congruence|]. split; [congruence|]. split; [congruence|]. split; [congruence|].
    rewrite W6. now rewrite map_retag_nil.
Qed.

Lemma occ_child_close root n ef a kk known :
  Uniq root ->
  let c0 := open_c0 root n a known in
  let c1 := occ_c1 root n ef a kk known in
  let x' := occ_child root n ef a kk known in
  ename x' = n /\ etext x' = etext c1 /\ estandalone x' = estandalone c0 /\ eattrs x' = eattrs c0
  /\ Permutation (echildren x') (map (retag (occ_L root n ef a kk known)) (echildren c1)).
Proof.
  intros Hu. cbv zeta.
  pose proof (Uniq_occ_c1 root n ef a kk known Hu) as U1.
  assert (F1 : frame (occ_c1 root n ef a kk known) = frame (open_c0 root n a known))
    by apply frame_absorb_child.
  pose proof (ename_open_c0 root n a known) as N0.
  unfold occ_child, occ_L. fold (occ_c1 root n ef a kk known).
  destruct ef.
  - exact (close_generic root n _ _ (Some []) U1 F1 N0).
  - destruct (get_child (echildren root) n) as [d|].
    + exact (close_generic root n _ _ (Some (snap_of (echildren (snd d)))) U1 F1 N0).
    + exact (close_generic root n _ _ None U1 F1 N0).
Qed.

(* a child of the closed occurrence is a child of the occurrence before closing, re-tagged *)
Lemma close_child root n ef a kk known c' :
  Uniq root -> In c' (echildren (occ_child root n ef a kk known)) ->
  exists y, In y (echildren (occ_c1 root n ef a kk known)) /\ snd y = snd c'
            /\ c' = retag (occ_L root n ef a kk known) y.
Proof.
  intros Hu Hc. destruct (occ_child_close root n ef a kk known Hu) as (_ & _ & _ & _ & P).
  apply (Permutation_in _ P) in Hc. apply in_map_iff in Hc. destruct Hc as [y [E Hy]].
  exists y. split; [exact Hy|]. split; [|now symmetry]. rewrite <- E. symmetry. apply snd_retag.
Qed.

Lemma close_get root n ef a kk known m y :
  Uniq root -> get_child (echildren (occ_c1 root n ef a kk known)) m = Some y ->
  exists c', get_child (echildren (occ_child root n ef a kk known)) m = Some c' /\ snd c' = snd y.
Proof.
  intros Hu G. destruct (occ_child_close root n ef a kk known Hu) as (_ & _ & _ & _ & P).
  set (L := occ_L root n ef a kk known) in *.
  exists (retag L y). split; [|apply snd_retag].
  apply (get_child_perm (map (retag L) (echildren (occ_c1 root n ef a kk known)))).
  - rewrite child_names_retag. now destruct (Uniq_inv _ (Uniq_occ_c1 root n ef a kk known Hu)) as (_ & H & _).
  - now apply Permutation_sym.
  - now rewrite get_child_retag, G.
Qed.

Lemma close_kid root n ef a kk known k :
  Uniq root -> KidAdmits (occ_c1 root n ef a kk known) k ->
  KidAdmits (occ_child root n ef a kk known) k.
Proof.
  intros Hu. destruct k as [m kef ka kks| | |]; auto. cbn [KidAdmits].
  intros (y & G & T). destruct (close_get root n ef a kk known m y Hu G) as (c' & G' & E).
  exists c'. split; [exact G'|]. now rewrite E.
Qed.

(* the heart of closing: a child that is Mandatory afterwards was Mandatory before the
   occurrence was opened, with a different count; `<x/>` leaves no Mandatory child *)
Lemma close_mand root n ef a kk known c' :
  Uniq root -> In c' (echildren (occ_child root n ef a kk known)) -> fst c' = Mand ->
  ef = false
  /\ exists y, In y (echildren (occ_c1 root n ef a kk known)) /\ snd y = snd c' /\ fst y = Mand
     /\ forall d, get_child (echildren root) n = Some d ->
        exists y0, In y0 (echildren (snd d)) /\ cname y0 = cname y /\ fst y0 = Mand
                   /\ ecount (snd y0) <> ecount (snd y).
Proof.
  intros Hu Hc Hm. destruct (close_child root n ef a kk known c' Hu Hc) as (y & Hy & Sy & Ey).
  set (c1 := occ_c1 root n ef a kk known) in *.
  assert (Hnd1 : NoDup (child_names (echildren c1))).
  { now destruct (Uniq_inv _ (Uniq_occ_c1 root n ef a kk known Hu)) as (_ & H & _). }
  rewrite Ey, fst_retag in Hm.
  destruct (mem (cname y) (occ_L root n ef a kk known)) eqn:EL; [discriminate Hm|].
  apply mem_false in EL. unfold occ_L in EL. fold c1 in EL.
  destruct ef.
  - exfalso. apply EL. apply (in_to_optional_nodup c1 [] y Hnd1 Hy). right. split; [exact Hm|reflexivity].
  - split; [reflexivity|]. exists y. split; [exact Hy|]. split; [exact Sy|]. split; [exact Hm|].
    intros d G. rewrite G in EL.
    destruct (get_child_some _ _ _ G) as [Hd _].
    assert (Hndd : NoDup (child_names (echildren (snd d)))).
    { now destruct (Uniq_inv _ (Uniq_child _ _ Hu Hd)) as (_ & H & _). }
    rewrite (in_to_optional_nodup c1 _ y Hnd1 Hy) in EL.
    rewrite (snap_get_spec _ (cname y) Hndd) in EL.
    destruct (get_child (echildren (snd d)) (cname y)) as [y0|] eqn:G0.
    + destruct (get_child_some _ _ _ G0) as [Hy0 Cy0].
      destruct (fst y0) eqn:F0.
      * exfalso. apply EL. right. split; [exact Hm|reflexivity].
      * exists y0. split; [exact Hy0|]. split; [exact Cy0|]. split; [exact F0|].
        intros E. apply EL. left. now rewrite E.
    + exfalso. apply EL. right. split; [exact Hm|reflexivity].
Qed.

Lemma ename_occ_child root n ef a kk known :
  Uniq root -> ename (occ_child root n ef a kk known) = n.
Proof. intros Hu. now destruct (occ_child_close root n ef a kk known Hu) as (H & _). Qed.

(* ====================================================================== *)
(* Part 2. monotonicity: what a node admits it still admits after one more *)
(*         occurrence has been absorbed into it                            *)
(* ====================================================================== *)

(* absorbing the occurrence <n a..>kk</n> (or <n a../>) under `root`, where `d` is the child of
   `root` called n: the new child called n admits whatever `d` admitted *)
Definition Mono (nd : node) : Prop :=
  forall root n ef a kk known d,
    Uniq root -> NoDup a -> Forall wf_node kk ->
    get_child (echildren root) n = Some d ->
    TreeAdmits (snd d) nd -> TreeAdmits (occ_child root n ef a kk known) nd.

(* children of a node after absorbing a non-element kid *)
Lemma echildren_absorb_nonelem j c known :
  (match j with NElem _ _ _ _ => False | _ => True end) ->
  echildren (fst (absorb j c known)) = echildren c.
Proof. destruct j; try contradiction; intros _; cbn [absorb fst]; auto using echildren_set_text. Qed.

(* one kid `k` of an admitted element keeps its node when the parent absorbs anything *)
Lemma KidAdmits_step c j known k :
  Mono k -> Uniq c -> wf_node j -> KidAdmits c k -> KidAdmits (fst (absorb j c known)) k.
Proof.
  intros HM Hu Wj HK.
  destruct j as [m ef a kk| | |];
    [|apply (KidAdmits_children c); [symmetry; now apply echildren_absorb_nonelem|exact HK]..].
  inversion Wj as [? ? ? ? Ha Wkk| | |]; subst.
  destruct k as [mk kef ka kks| | |]; try exact I.
  destruct HK as (y & Gy & Ty).
  destruct (Uniq_inv _ Hu) as (_ & Hnd & _).
  cbn [KidAdmits]. rewrite (absorb_elem_shape c m ef a kk known Hnd), echildren_set_children.
  destruct (str_eqb_spec mk m) as [->|Hne].
  - exists (Mand, occ_child c m ef a kk known). split.
    + apply get_child_last.
      * rewrite remove_child_names. now apply remove_first_notin.
      * unfold cname. cbn [snd]. now apply ename_occ_child.
    + cbn [snd]. now apply (HM c m ef a kk known y).
  - exists y. split; [|exact Ty].
    rewrite get_child_app, (get_child_remove_other _ _ _ Hne), Gy. reflexivity.
Qed.

(* in-flight invariant for a fixed admitted kid list `kn`: every kid keeps its node, and a
   child still marked standalone occurs at most once in `kn` *)
Definition Keeps (kn : list node) (c : element) : Prop :=
  Forall (KidAdmits c) kn
  /\ forall y, In y (echildren c) -> estandalone (snd y) = true ->
               (length (named (cname y) kn) <= 1)%nat.

Lemma Keeps_step kn j c known :
  Forall Mono kn -> Uniq c -> wf_node j -> Keeps kn c -> Keeps kn (fst (absorb j c known)).
Proof.
  intros HM Hu Wj [K1 K2]. split.
  - rewrite Forall_forall in HM, K1 |- *. intros k Hk. apply KidAdmits_step; auto.
  - destruct j as [m ef a kk| | |];
      [|rewrite echildren_absorb_nonelem by exact I; exact K2..].
    inversion Wj as [? ? ? ? Ha Wkk| | |]; subst.
    destruct (Uniq_inv _ Hu) as (_ & Hnd & _).
    rewrite (absorb_elem_shape c m ef a kk known Hnd), echildren_set_children.
    intros y Hy Hs. apply in_app_or in Hy. destruct Hy as [Hy|[<-|[]]].
    + apply K2; [|exact Hs]. eapply remove_child_incl; exact Hy.
    + cbn [snd] in Hs. unfold cname. cbn [snd]. rewrite (ename_occ_child c m ef a kk known Hu).
      destruct (occ_child_close c m ef a kk known Hu) as (_ & _ & S & _). rewrite S in Hs.
      destruct (estandalone_open_c0 _ _ _ _ Hs) as [_ Hd].
      destruct (get_child (echildren c) m) as [d|] eqn:G.
      * destruct (get_child_some _ _ _ G) as [Hin Hc]. rewrite <- Hc. apply K2; auto.
      * replace (named m kn) with (@nil node); [cbn; lia|]. symmetry. apply named_nil_iff.
        intros Hm. apply elem_names_in in Hm. destruct Hm as (kef & ka & kks & Hk).
        rewrite Forall_forall in K1. destruct (K1 _ Hk) as (y & Gy & _). congruence.
Qed.

Lemma Keeps_forest kn : Forall Mono kn ->
  forall ks c known, Uniq c -> Forall wf_node ks -> Keeps kn c ->
  Keeps kn (fst (absorb_forest ks c known)).
Proof.
  intros HM. induction ks as [|j ks IH]; intros c known Hu W K; [exact K|].
  inversion W as [|? ? Wj Wks]; subst. rewrite absorb_forest_cons.
  apply IH; [now apply absorb_Uniq|exact Wks|now apply Keeps_step].
Qed.

Theorem Mono_all : forall nd, Mono nd.
Proof.
  induction nd as [nn nef na nks IH| | |] using node_ind'; try (intros root n ef a kk known d _ _ _ _ _; exact I).
  intros root n ef a kk known d Hu Ha Wkk G T.
  destruct (get_child_some _ _ _ G) as [Hd _].
  apply TreeAdmits_elem in T. cbv zeta in T. rewrite okids_elem in T.
  set (kn := if nef then [] else nks) in *.
  destruct T as (A1 & A2 & A3 & A4 & A5 & A6).
  assert (HMk : Forall Mono kn) by (unfold kn; destruct nef; [constructor|exact IH]).
  set (c0 := open_c0 root n a known).
  assert (E0 : echildren c0 = echildren (snd d)).
  { unfold c0. now rewrite echildren_open_c0, G. }
  assert (K0 : Keeps kn c0).
  { split.
    - eapply Forall_impl; [|exact A6]. intros k. apply KidAdmits_children. now symmetry.
    - rewrite E0. exact A4. }
  assert (K1 : Keeps kn (occ_c1 root n ef a kk known)).
  { unfold occ_c1, absorb_child. fold c0. destruct ef; [exact K0|].
    apply Keeps_forest; auto. now apply Uniq_open_c0. }
  destruct (occ_child_close root n ef a kk known Hu) as (N' & T' & S' & At' & _).
  apply TreeAdmits_elem. cbv zeta. rewrite okids_elem. fold kn.
  split; [|split; [|split; [|split; [|split]]]].
  - intros b Hb. rewrite At'. apply (open_attrs_keep root n a known d); auto.
  - intros b Hb. rewrite At' in Hb. apply A2. now apply (open_attrs_mand_old root n a known d).
  - intros c' Hc' Hm.
    destruct (close_mand root n ef a kk known c' Hu Hc' Hm) as (_ & y & _ & Sy & _ & Hy0).
    destruct (Hy0 d G) as (y0 & In0 & Cy0 & Fy0 & _).
    rewrite <- (cname_of_snd _ _ Sy), <- Cy0. now apply A3.
  - intros c' Hc' Hs.
    destruct (close_child root n ef a kk known c' Hu Hc') as (y & Hy & Sy & _).
    rewrite <- (cname_of_snd _ _ Sy). apply (proj2 K1); [exact Hy|]. now rewrite Sy.
  - intros Hcd. rewrite T'. apply etext_occ_c1_mono.
    rewrite (etext_open_c0 root n a known d G). now apply A5.
  - eapply Forall_impl; [|exact (proj1 K1)]. intros k. now apply close_kid.
Qed.

(* the same, read on the model's functions alone *)
Theorem TreeAdmits_absorb_more : forall root n ef a kk known d nd,
  Uniq root -> wf_node (NElem n ef a kk) ->
  get_child (echildren root) n = Some d -> TreeAdmits (snd d) nd ->
  exists d', get_child (echildren (fst (absorb (NElem n ef a kk) root known))) n = Some d'
             /\ TreeAdmits (snd d') nd.
Proof.
  intros root n ef a kk known d nd Hu W G T.
  inversion W as [? ? ? ? Ha Wkk| | |]; subst.
  destruct (Uniq_inv _ Hu) as (_ & Hnd & _).
  rewrite (absorb_elem_shape root n ef a kk known Hnd), echildren_set_children.
  exists (Mand, occ_child root n ef a kk known). split.
  - apply get_child_last.
    + rewrite remove_child_names. now apply remove_first_notin.
    + unfold cname. cbn [snd]. now apply ename_occ_child.
  - cbn [snd]. now apply (Mono_all nd root n ef a kk known d).
Qed.

(* ====================================================================== *)
(* Part 3. "admits so far", and the main theorem                           *)
(* ====================================================================== *)

(* absorbing the occurrence k under ANY parent with unique names yields a child admitting k *)
Definition Adm (k : node) : Prop :=
  match k with
  | NElem m ef a kk => forall root known, Uniq root -> TreeAdmits (occ_child root m ef a kk known) k
  | _ => True
  end.

(* in-flight invariant of the element `c` absorbing the current occurrence, whose kids read so
   far are `done`; `ch0` = the children `c` had when the occurrence was opened:
   a child not yet seen is untouched; a child seen twice is not standalone; every kid read so
   far has its node *)
Definition Flight (ch0 : list (nec * element)) (c : element) (done : list node) (known : list str)
  : Prop :=
  (forall m, In m known <-> In m (elem_names done))
  /\ (forall y, In y (echildren c) -> named (cname y) done = [] -> In y ch0)
  /\ (forall y, In y (echildren c) -> (2 <= length (named (cname y) done))%nat ->
                estandalone (snd y) = false)
  /\ Forall (KidAdmits c) done.

Lemma estandalone_open_c0_known root n a known :
  mem n known = true -> estandalone (open_c0 root n a known) = false.
Proof.
  intros H. destruct (estandalone (open_c0 root n a known)) eqn:E; [|reflexivity].
  destruct (estandalone_open_c0 _ _ _ _ E) as [H' _]. congruence.
Qed.

Lemma named_snoc_other m ks k :
  (forall n ef a kk, k = NElem n ef a kk -> n <> m) -> named m (ks ++ [k]) = named m ks.
Proof.
  intros H. rewrite named_snoc. destruct k as [n ef a kk| | |]; cbn [is_elem_named]; try apply app_nil_r.
  destruct (str_eqb_spec n m) as [E|E]; [|apply app_nil_r].
  exfalso. now apply (H n ef a kk).
Qed.

Lemma Flight_step ch0 j c done known :
  Adm j -> wf_node j -> Uniq c -> Flight ch0 c done known ->
  Flight ch0 (fst (absorb j c known)) (done ++ [j]) (snd (absorb j c known)).
Proof.
  intros HA Wj Hu (F1 & F2 & F3 & F4).
  split; [now apply known_after|].
  assert (K4 : Forall (KidAdmits (fst (absorb j c known))) done).
  { rewrite Forall_forall in F4 |- *. intros k Hk. apply KidAdmits_step; auto. apply Mono_all. }
  destruct j as [m ef a kk| | |].
  2,3,4: rewrite echildren_absorb_nonelem by exact I;
    (split; [|split]);
    [intros y Hy; rewrite named_snoc_other by (intros; discriminate); now apply F2
    |intros y Hy; rewrite named_snoc_other by (intros; discriminate); now apply F3
    |apply Forall_app; split; [exact K4|constructor; [exact I|constructor]]].
  inversion Wj as [? ? ? ? Ha Wkk| | |]; subst.
  destruct (Uniq_inv _ Hu) as (_ & Hnd & _).
  assert (Hot : ~ In m (child_names (snd (remove_child (echildren c) m)))).
  { rewrite remove_child_names. now apply remove_first_notin. }
  assert (Enew : named m (done ++ [NElem m ef a kk]) = named m done ++ [NElem m ef a kk]).
  { rewrite named_snoc. cbn [is_elem_named]. now rewrite str_eqb_refl. }
  split; [|split].
  - rewrite (absorb_elem_shape c m ef a kk known Hnd), echildren_set_children.
    intros y Hy. apply in_app_or in Hy. destruct Hy as [Hy|[<-|[]]].
    + rewrite named_snoc_other.
      * apply F2. eapply remove_child_incl; exact Hy.
      * intros n' ef' a' kk' [= <- _ _ _] E. apply Hot. apply in_map_iff. exists y. split; [now symmetry|exact Hy].
    + unfold cname. cbn [snd]. rewrite (ename_occ_child c m ef a kk known Hu), Enew.
      intros E. apply app_eq_nil in E. destruct E as [_ E]. discriminate E.
  - rewrite (absorb_elem_shape c m ef a kk known Hnd), echildren_set_children.
    intros y Hy. apply in_app_or in Hy. destruct Hy as [Hy|[<-|[]]].
    + rewrite named_snoc_other.
      * apply F3. eapply remove_child_incl; exact Hy.
      * intros n' ef' a' kk' [= <- _ _ _] E. apply Hot. apply in_map_iff. exists y. split; [now symmetry|exact Hy].
    + unfold cname. cbn [snd]. rewrite (ename_occ_child c m ef a kk known Hu), Enew.
      rewrite app_length. cbn [length]. intros Hl.
      destruct (occ_child_close c m ef a kk known Hu) as (_ & _ & S & _). rewrite S.
      apply estandalone_open_c0_known. apply mem_spec, F1. apply named_nonnil_in.
      intros E. rewrite E in Hl. cbn [length] in Hl. lia.
  - apply Forall_app. split; [exact K4|]. constructor; [|constructor].
    cbn [KidAdmits]. rewrite (absorb_elem_shape c m ef a kk known Hnd), echildren_set_children.
    exists (Mand, occ_child c m ef a kk known). split.
    + apply get_child_last; [exact Hot|]. unfold cname. cbn [snd]. now apply ename_occ_child.
    + cbn [snd]. now apply HA.
Qed.

Lemma Flight_forest ch0 : forall ks c done known,
  Forall Adm ks -> Forall wf_node ks -> Uniq c -> Flight ch0 c done known ->
  exists known', Flight ch0 (fst (absorb_forest ks c known)) (done ++ ks) known'.
Proof.
  induction ks as [|j ks IH]; intros c done known HA W Hu F.
  - exists known. now rewrite app_nil_r.
  - inversion HA as [|? ? HAj HAks]; subst. inversion W as [|? ? Wj Wks]; subst.
    rewrite absorb_forest_cons.
    replace (done ++ j :: ks) with ((done ++ [j]) ++ ks) by (now rewrite <- app_assoc).
    apply IH; [exact HAks|exact Wks|now apply absorb_Uniq|now apply Flight_step].
Qed.

Lemma Flight_start c : Flight (echildren c) c [] [].
Proof.
  split; [intros m; cbn; tauto|]. split; [auto|]. split; [|constructor].
  intros y _ H. cbn in H. lia.
Qed.

Lemma Adm_elem m ef a kk :
  NoDup a -> Forall wf_node kk -> Forall Adm kk -> Adm (NElem m ef a kk).
Proof.
  intros Ha Wkk HA root known Hu.
  set (c0 := open_c0 root m a known).
  set (kids := if ef then [] else kk).
  assert (U0 : Uniq c0) by now apply Uniq_open_c0.
  assert (FL : exists known', Flight (echildren c0) (occ_c1 root m ef a kk known) kids known').
  { unfold occ_c1, absorb_child, kids. fold c0. destruct ef.
    - exists []. apply Flight_start.
    - apply (Flight_forest (echildren c0) kk c0 [] []); auto. apply Flight_start. }
  destruct FL as (known' & F1 & F2 & F3 & F4).
  destruct (occ_child_close root m ef a kk known Hu) as (N' & T' & S' & At' & _).
  apply TreeAdmits_elem. cbv zeta. rewrite okids_elem. fold kids.
  split; [|split; [|split; [|split; [|split]]]].
  - intros b Hb. rewrite At'. now apply open_attrs_has.
  - intros b Hb. rewrite At' in Hb. now apply (open_attrs_mand root m a known b).
  - intros c' Hc' Hm.
    destruct (close_mand root m ef a kk known c' Hu Hc' Hm) as (Ef & y & Hy & Sy & Fy & Hy0).
    rewrite <- (cname_of_snd _ _ Sy).
    destruct (named (cname y) kids) as [|q qs] eqn:En; [|apply named_nonnil_in; now rewrite En].
    exfalso. specialize (F2 y Hy En). unfold c0 in F2. rewrite echildren_open_c0 in F2.
    destruct (get_child (echildren root) m) as [d|] eqn:G; [|destruct F2].
    destruct (Hy0 d eq_refl) as (y0 & In0 & Cy0 & _ & Hcnt).
    destruct (get_child_some _ _ _ G) as [Hd _].
    destruct (Uniq_inv _ (Uniq_child _ _ Hu Hd)) as (_ & Hndd & _).
    assert (y0 = y) by (eapply in_nodup_same; eauto). subst y0. now apply Hcnt.
  - intros c' Hc' Hs.
    destruct (close_child root m ef a kk known c' Hu Hc') as (y & Hy & Sy & _).
    rewrite <- (cname_of_snd _ _ Sy).
    destruct (le_lt_dec (length (named (cname y) kids)) 1) as [Hle|Hgt]; [exact Hle|].
    rewrite <- Sy, (F3 y Hy) in Hs by lia. discriminate Hs.
  - intros Hcd. rewrite T'. unfold occ_c1, absorb_child, kids in *. destruct ef; [discriminate Hcd|].
    rewrite absorb_forest_text. apply orb_true_iff. right. exact Hcd.
  - eapply Forall_impl; [|exact F4]. intros k. now apply close_kid.
Qed.

Theorem Adm_all k : wf_node k -> Adm k.
Proof.
  induction k as [m ef a kk IH| | |] using node_ind'; intros W; try exact I.
  inversion W as [? ? ? ? Ha Wkk| | |]; subst. apply Adm_elem; auto.
  rewrite Forall_forall in IH, Wkk |- *. intros x Hx. apply IH; auto.
Qed.

(* on the model's functions: absorbing an element anywhere yields a node admitting it *)
Theorem absorb_admits : forall root n ef a kk known,
  Uniq root -> wf_node (NElem n ef a kk) ->
  KidAdmits (fst (absorb (NElem n ef a kk) root known)) (NElem n ef a kk).
Proof.
  intros root n ef a kk known Hu W.
  destruct (Uniq_inv _ Hu) as (_ & Hnd & _).
  cbn [KidAdmits]. rewrite (absorb_elem_shape root n ef a kk known Hnd), echildren_set_children.
  exists (Mand, occ_child root n ef a kk known). split.
  - apply get_child_last.
    + rewrite remove_child_names. now apply remove_first_notin.
    + unfold cname. cbn [snd]. now apply ename_occ_child.
  - cbn [snd]. now apply (Adm_all _ W).
Qed.

(* ---------- whole documents ---------- *)
Lemma top_single m : forall ks w known,
  Uniq w -> child_names (echildren w) = [m] -> (forall x, In x (elem_names ks) -> x = m) ->
  child_names (echildren (fst (absorb_forest ks w known))) = [m].
Proof.
  induction ks as [|j ks IH]; intros w known Hu Hw Hm; [exact Hw|].
  rewrite absorb_forest_cons. apply IH.
  - now apply absorb_Uniq.
  - destruct j as [n ef a kk| | |]; [|now rewrite echildren_absorb_nonelem..].
    assert (n = m) by (apply Hm; now left). subst n.
    destruct (Uniq_inv _ Hu) as (_ & Hnd & _).
    rewrite (absorb_elem_shape w m ef a kk known Hnd), echildren_set_children, child_names_app.
    rewrite remove_child_names, Hw. cbn [remove_first]. rewrite str_eqb_refl.
    cbn [child_names map app]. unfold cname. cbn [snd]. now rewrite ename_occ_child.
  - intros x Hx. apply Hm. change (j :: ks) with ([j] ++ ks). rewrite elem_names_app.
    apply in_or_app. now right.
Qed.

Lemma wrapper_start e :
  Uniq e ->
  let w0 := add_unique_child wrapper e in
  Uniq w0 /\ child_names (echildren w0) = [ename e]
  /\ exists e0, echildren w0 = [(Mand, e0)] /\ e0 = with_pos wrapper e.
Proof.
  intros Hu w0. split; [apply Uniq_add_unique_child; [apply Uniq_wrapper|exact Hu]|].
  unfold w0. rewrite add_unique_child_fresh by reflexivity. rewrite echildren_set_children.
  cbn [echildren wrapper new_element app child_names map]. unfold cname. cbn [snd].
  rewrite ename_with_pos. split; [reflexivity|]. eexists. split; reflexivity.
Qed.

(* the final wrapper: its only child is the answer, and it is the node of every top-level element *)
Lemma extend_final e top e' :
  Uniq e -> Forall wf_node top -> elem_names top = [ename e] ->
  extend_struct_dom e top = Some e' ->
  let w := fst (absorb_forest top (add_unique_child wrapper e) []) in
  exists x, echildren w = [x] /\ cname x = ename e /\ snd x = e'.
Proof.
  intros Hu W Hm He w.
  destruct (wrapper_start e Hu) as (U0 & N0 & _).
  assert (S : child_names (echildren w) = [ename e]).
  { apply top_single; auto. intros x Hx. rewrite Hm in Hx. now destruct Hx as [<-|[]]. }
  unfold extend_struct_dom, first_child in He. fold w in He.
  destruct (echildren w) as [|x [|y l]]; try discriminate.
  injection S as S. injection He as He. exists x. auto.
Qed.

Theorem extend_admits : forall e top r e',
  Uniq e -> Forall wf_node top -> elem_names top = [ename e] -> doc_root top = Some r ->
  extend_struct_dom e top = Some e' -> TreeAdmits e' r.
Proof.
  intros e top r e' Hu W Hm Hr He.
  destruct (extend_final e top e' Hu W Hm He) as (x & Ex & Cx & Sx).
  destruct (wrapper_start e Hu) as (U0 & _ & _).
  set (w0 := add_unique_child wrapper e) in *.
  destruct (Flight_forest (echildren w0) top w0 [] []) as (known' & _ & _ & _ & F4); auto.
  { eapply Forall_impl; [|exact W]. intros k. apply Adm_all. }
  { apply Flight_start. }
  cbn [app] in F4.
  unfold doc_root in Hr. apply find_some in Hr. destruct Hr as [Hin Hel].
  destruct r as [n ef a kk| | |]; try discriminate Hel.
  rewrite Forall_forall in F4. destruct (F4 _ Hin) as (c & G & T).
  assert (n = ename e).
  { pose proof (in_elem_names _ _ _ _ _ Hin) as Hn. rewrite Hm in Hn. now destruct Hn as [<-|[]]. }
  subst n. rewrite Ex in G. cbn [get_child] in G. fold (cname x) in G.
  rewrite Cx, str_eqb_refl in G. injection G as <-. now rewrite <- Sx.
Qed.

(* extending never loses a document the tree admitted *)
Theorem extend_keeps_admitted : forall e top e' nd,
  Uniq e -> Forall wf_node top -> elem_names top = [ename e] ->
  extend_struct_dom e top = Some e' -> TreeAdmits e nd -> TreeAdmits e' nd.
Proof.
  intros e top e' nd Hu W Hm He T.
  destruct nd as [nn nef na nks| | |]; try exact I.
  destruct (extend_final e top e' Hu W Hm He) as (x & Ex & Cx & Sx).
  destruct (wrapper_start e Hu) as (U0 & _ & e0 & E0 & P0).
  set (w0 := add_unique_child wrapper e) in *.
  set (k := NElem (ename e) nef na nks).
  assert (K0 : KidAdmits w0 k).
  { exists (Mand, e0). split.
    - rewrite E0. cbn [get_child snd]. rewrite P0, ename_with_pos. now rewrite str_eqb_refl.
    - cbn [snd]. apply (TreeAdmits_rename _ nn). rewrite P0.
      apply TreeAdmits_elem in T. apply TreeAdmits_elem. cbv zeta in T |- *.
      destruct (shell_with_pos_but_pos wrapper e) as (_ & W2 & _ & _ & W5 & W6).
      destruct T as (A1 & A2 & A3 & A4 & A5 & A6). rewrite W2, W5, W6.
      repeat (split; [assumption|]).
      eapply Forall_impl; [|exact A6]. intros j. apply KidAdmits_children. now symmetry. }
  assert (K : forall ks w known, Uniq w -> Forall wf_node ks -> KidAdmits w k ->
                KidAdmits (fst (absorb_forest ks w known)) k).
  { induction ks as [|j ks IH]; intros w known Uw Wks Kw; [exact Kw|].
    inversion Wks as [|? ? Wj Wks']; subst. rewrite absorb_forest_cons.
    apply IH; [now apply absorb_Uniq|exact Wks'|]. apply KidAdmits_step; auto. apply Mono_all. }
  destruct (K top w0 [] U0 W K0) as (c & G & Tc).
  rewrite Ex in G. cbn [get_child] in G. fold (cname x) in G.
  rewrite Cx, str_eqb_refl in G. injection G as <-.
  rewrite <- Sx. now apply (TreeAdmits_rename _ (ename e)).
Qed.

(* ---------- any number of extensions ---------- *)
Definition extend_all (e : element) (docs : list (list node)) : option element :=
  fold_left (fun acc x => match acc with Some t => extend_struct_dom t x | None => None end)
            docs (Some e).

Lemma extend_all_cons e d docs :
  extend_all e (d :: docs)
  = match extend_struct_dom e d with Some e1 => extend_all e1 docs | None => None end.
Proof.
  unfold extend_all. cbn [fold_left]. destruct (extend_struct_dom e d) as [e1|]; [reflexivity|].
  induction docs as [|x docs IH]; [reflexivity|exact IH].
Qed.

Lemma extend_ename e top e' :
  Uniq e -> Forall wf_node top -> elem_names top = [ename e] ->
  extend_struct_dom e top = Some e' -> ename e' = ename e.
Proof.
  intros Hu W Hm He. destruct (extend_final e top e' Hu W Hm He) as (x & _ & Cx & Sx).
  now rewrite <- Sx.
Qed.

Theorem extend_all_keeps_admitted : forall docs e e' nd,
  Uniq e -> Forall (Forall wf_node) docs -> Forall (fun p => elem_names p = [ename e]) docs ->
  extend_all e docs = Some e' -> TreeAdmits e nd -> TreeAdmits e' nd.
Proof.
  induction docs as [|d docs IH]; intros e e' nd Hu W Hm He T.
  - injection He as <-. exact T.
  - inversion W as [|? ? Wd Wr]; subst. inversion Hm as [|? ? Hd Hr]; subst.
    rewrite extend_all_cons in He. destruct (extend_struct_dom e d) as [e1|] eqn:E1; [|discriminate He].
    apply (IH e1 e' nd); auto.
    + now apply (extend_struct_dom_Uniq e d).
    + now rewrite (extend_ename e d e1).
    + now apply (extend_keeps_admitted e d e1).
Qed.

(* after extending any tree with documents d1 .. dk (in any state of the tree: hand-built,
   parsed, edited in between), the tree admits every one of them *)
Theorem extend_all_admits : forall docs e e',
  Uniq e -> Forall (Forall wf_node) docs -> Forall (fun p => elem_names p = [ename e]) docs ->
  extend_all e docs = Some e' ->
  forall d r, In d docs -> doc_root d = Some r -> TreeAdmits e' r.
Proof.
  induction docs as [|d0 docs IH]; intros e e' Hu W Hm He d r Hin Hr; [destruct Hin|].
  inversion W as [|? ? Wd Wr]; subst. inversion Hm as [|? ? Hd Hrm]; subst.
  rewrite extend_all_cons in He. destruct (extend_struct_dom e d0) as [e1|] eqn:E1; [|discriminate He].
  assert (U1 : Uniq e1) by now apply (extend_struct_dom_Uniq e d0).
  assert (N1 : ename e1 = ename e) by now apply (extend_ename e d0 e1).
  assert (Hm1 : Forall (fun p => elem_names p = [ename e1]) docs) by now rewrite N1.
  destruct Hin as [<-|Hin].
  - apply (extend_all_keeps_admitted docs e1 e' r U1 Wr Hm1 He).
    now apply (extend_admits e d0 r e1).
  - now apply (IH e1 e' U1 Wr Hm1 He d r).
Qed.

(* ====================================================================== *)
(* Examples                                                                *)
(* ====================================================================== *)
Local Open Scope string_scope.

(* a hand-built tree: attribute `id` Mandatory; child <y> Mandatory, repeated (not standalone),
   count 5; child <z> Optional, standalone, count 2, no text flag on the root *)
Definition ext_tree : element :=
  Elem (s "r") false true 3 [(Mand, s "id")]
    [(Mand, Elem (s "y") false false 5 [] [] (Some 0%nat));
     (Opt, Elem (s "z") true true 2 [(Mand, s "k")] [] (Some 1%nat))] (Some 0%nat).
(* <?..?><r lang=".."><z>t</z><z k=".."/>text</r> : no <y>, no `id`, <z> twice, text *)
Definition ext_doc : list node :=
  [NMisc; NElem (s "r") false [s "lang"]
     [NElem (s "z") false [] [NText]; NElem (s "z") true [s "k"] []; NText]].

Lemma ext_tree_Uniq : Uniq ext_tree.
Proof.
  repeat constructor; cbn; intuition discriminate.
Qed.
Lemma ext_doc_wf : Forall wf_node ext_doc.
Proof. repeat constructor; cbn; intuition discriminate. Qed.

(* the hypotheses of extend_admits are satisfiable on a non-trivial value, and the outcome:
   <y> keeps count 5 and becomes Optional, `id` becomes Optional, <z> is no longer standalone *)
Example ext_example :
  Uniq ext_tree /\ Forall wf_node ext_doc /\ elem_names ext_doc = [ename ext_tree]
  /\ exists r e', doc_root ext_doc = Some r /\ extend_struct_dom ext_tree ext_doc = Some e'
     /\ get_child (echildren e') (s "y") = Some (Opt, Elem (s "y") false false 5 [] [] (Some 0%nat))
     /\ eattrs e' = [(Opt, s "id"); (Opt, s "lang")]
     /\ option_map (fun c => (fst c, estandalone (snd c))) (get_child (echildren e') (s "z"))
        = Some (Opt, false)
     /\ etext e' = true
     /\ TreeAdmits e' r.
Proof.
  split; [exact ext_tree_Uniq|]. split; [exact ext_doc_wf|]. split; [reflexivity|].
  eexists. eexists. split; [reflexivity|]. split; [vm_compute; reflexivity|].
  split; [vm_compute; reflexivity|]. split; [vm_compute; reflexivity|].
  split; [vm_compute; reflexivity|]. split; [vm_compute; reflexivity|].
  apply (extend_admits ext_tree ext_doc).
  - exact ext_tree_Uniq.
  - exact ext_doc_wf.
  - reflexivity.
  - reflexivity.
  - vm_compute. reflexivity.
Qed.

(* the tree before the extension does not admit the document (Mandatory <y> is missing) *)
Example ext_example_before :
  forall r, doc_root ext_doc = Some r -> ~ TreeAdmits ext_tree r.
Proof.
  intros r Hr. injection Hr as <-. intros T. apply TreeAdmits_elem in T.
  destruct T as (_ & _ & A3 & _).
  specialize (A3 (Mand, Elem (s "y") false false 5 [] [] (Some 0%nat)) (or_introl eq_refl) eq_refl).
  vm_compute in A3. intuition discriminate.
Qed.

(* uniqueness of child names is needed: two children called <y> (which the public operations
   cannot produce, C16), both Mandatory, extended with <r></r>: the demotion addresses the
   first <y> only (and is triggered by the count of the second), the second stays Mandatory *)
Definition ext_dup : element :=
  Elem (s "r") false true 1 []
    [(Mand, Elem (s "y") false true 1 [] [] (Some 0%nat));
     (Mand, Elem (s "y") false true 2 [] [] (Some 1%nat))] (Some 0%nat).
Example extend_admits_needs_Uniq :
  let top := [NElem (s "r") false [] []] in
  Forall wf_node top /\ elem_names top = [ename ext_dup]
  /\ exists r e', doc_root top = Some r /\ extend_struct_dom ext_dup top = Some e'
                  /\ ~ TreeAdmits e' r /\ ~ Uniq ext_dup.
Proof.
  cbv zeta. split; [repeat constructor|]. split; [reflexivity|].
  eexists. eexists. split; [reflexivity|]. split; [vm_compute; reflexivity|]. split.
  - intros T. apply TreeAdmits_elem in T. destruct T as (_ & _ & A3 & _).
    specialize (A3 (Mand, Elem (s "y") false true 2 [] [] (Some 1%nat)) (or_introl eq_refl) eq_refl).
    exact A3.
  - intros H. destruct (Uniq_inv _ H) as (_ & Hnd & _). cbn in Hnd.
    inversion Hnd as [|? ? Hx _]. apply Hx. now left.
Qed.

(* two extensions in a row, from the hand-built tree: both documents are admitted at the end *)
Definition ext_doc2 : list node :=
  [NElem (s "r") false [s "id"] [NElem (s "y") true [] []; NElem (s "w") false [] [NElem (s "v") true [] []]]].
Example ext_example_all :
  exists e', extend_all ext_tree [ext_doc; ext_doc2] = Some e'
  /\ forall d r, In d [ext_doc; ext_doc2] -> doc_root d = Some r -> TreeAdmits e' r.
Proof.
  eexists. split; [vm_compute; reflexivity|].
  apply (extend_all_admits [ext_doc; ext_doc2] ext_tree).
  - exact ext_tree_Uniq.
  - constructor; [exact ext_doc_wf|]. repeat constructor; cbn; intuition discriminate.
  - repeat constructor.
  - vm_compute. reflexivity.
Qed.
