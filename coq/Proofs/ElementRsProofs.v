(* C16, source level: running the terms GENERATED from src/element.rs (Generated/ElementRs.v)
   in the RustElem evaluator computes the model functions of Model/Element.v. *)
From XSG.Model Require Import Strings Chars Convert Necessity Element RustElem.
From XSG.Generated Require Import ElementRs.
From XSG.Proofs Require Import StringsProofs ElementProofs.
From Coq Require Import String List Arith NArith Lia.
Import ListNotations.
Open Scope string_scope.

Definition opt_child (o : option (nec * element)) : val :=
  match o with Some c => VSomeChild c | None => VNone end.

(* evaluator steps; `run_fn` is unfolded explicitly (once) so that calls of level-0 functions stay folded *)
Ltac ev :=
  cbn [exec eval lookup update read_place write_place get_field set_field push_val
       fn_body fn_p1 fn_p2 fn_result String.eqb Ascii.eqb Bool.eqb
       call_of level0 find fst snd
       ename echildren eattrs estandalone epos set_children set_pos set_attrs List.length].
Ltac rs := unfold run_fn; ev.

(* ---------- add_unique ---------- *)

Lemma add_unique_rs_children : forall l c,
  run_fn no_call add_unique_rs (VChildren l) (VChild c) = Some (VUnit, VChildren (add_unique_elem l c)).
Proof.
  intros l c. unfold add_unique_rs, add_unique_elem. rs.
  destruct (existsb (child_eqb c) l); ev; reflexivity.
Qed.

Lemma add_unique_rs_attrs : forall l a,
  run_fn no_call add_unique_rs (VAttrs l) (VAttr a) = Some (VUnit, VAttrs (add_unique_attr l a)).
Proof.
  intros l a. unfold add_unique_rs, add_unique_attr. rs.
  destruct (existsb (attr_eqb a) l); ev; reflexivity.
Qed.

Lemma add_unique_rs_empty_attr : forall a,
  run_fn no_call add_unique_rs VEmptyVec (VAttr a) = Some (VUnit, VAttrs [a]).
Proof. intros a. reflexivity. Qed.

(* ---------- set_multiple ---------- *)

Lemma set_multiple_rs_correct : forall e,
  run_fn no_call set_multiple_rs (VElem e) VUnit = Some (VUnit, VElem (set_multiple e)).
Proof. intros [nm t x k a ch p]. reflexivity. Qed.

(* ---------- get_child / get_child_mut ---------- *)

(* the closure `|c| c.inner_t().name == name` *)
Definition name_pred : expr := EEq (EField (EInner (EVar "c")) "name") (EVar "name").

Definition env0 (e : element) (n : str) : env := [("self", VElem e); ("name", VName n)].

Lemma eval_find_children call e n :
  eval call (EFind (EField (EVar "self") "children") "c" name_pred) (env0 e n)
  = Some (opt_child (get_child (echildren e) n), env0 e n).
Proof.
  unfold env0, name_pred. cbn [eval lookup get_field String.eqb Ascii.eqb Bool.eqb].
  generalize (echildren e) as l.
  induction l as [|c r IH]; [reflexivity|].
  cbn [get_child snd]. cbn [eval lookup get_field String.eqb Ascii.eqb Bool.eqb snd] in IH |- *.
  destruct (str_eqb (ename (snd c)) n); [reflexivity|exact IH].
Qed.

Lemma get_child_rs_correct : forall e n,
  run_fn no_call get_child_rs (VElem e) (VName n) = Some (opt_child (get_child (echildren e) n), VElem e).
Proof.
  intros e n. unfold run_fn, get_child_rs. cbn [fn_body fn_p1 fn_p2 fn_result exec lookup String.eqb Ascii.eqb Bool.eqb].
  fold name_pred. fold (env0 e n). rewrite eval_find_children. reflexivity.
Qed.

Lemma get_child_mut_rs_correct : forall e n,
  run_fn no_call get_child_mut_rs (VElem e) (VName n) = Some (opt_child (get_child (echildren e) n), VElem e).
Proof. exact get_child_rs_correct. Qed.

(* ---------- remove_child ---------- *)

(* `iter().position` on the model side *)
Fixpoint find_index (l : list (nec * element)) (n : str) : option nat :=
  match l with
  | [] => None
  | c :: r => if str_eqb (ename (snd c)) n then Some O
              else match find_index r n with Some k => Some (S k) | None => None end
  end.

Lemma find_index_some l n : forall k, find_index l n = Some k ->
  exists c, nth_error l k = Some c /\ remove_child l n = (Some c, remove_nth k l).
Proof.
  induction l as [|c r IH]; intros k H; cbn [find_index] in H; [discriminate|].
  cbn [remove_child]. destruct (str_eqb (ename (snd c)) n).
  - injection H as <-. exists c. split; reflexivity.
  - destruct (find_index r n) as [j|]; [|discriminate]. injection H as <-.
    destruct (IH j eq_refl) as [d [H1 H2]]. exists d. cbn [nth_error remove_nth].
    split; [exact H1|]. rewrite H2. reflexivity.
Qed.

Lemma find_index_none l n : find_index l n = None -> remove_child l n = (None, l).
Proof.
  induction l as [|c r IH]; intros H; cbn [find_index] in H; [reflexivity|].
  cbn [remove_child]. destruct (str_eqb (ename (snd c)) n); [discriminate|].
  destruct (find_index r n); [discriminate|]. rewrite (IH eq_refl). reflexivity.
Qed.

Lemma eval_position_children call e n :
  eval call (EPosition (EField (EVar "self") "children") "c" name_pred) (env0 e n)
  = Some (match find_index (echildren e) n with Some k => VSomeNat k | None => VNone end, env0 e n).
Proof.
  unfold env0, name_pred. cbn [eval lookup get_field String.eqb Ascii.eqb Bool.eqb].
  generalize (echildren e) as l.
  assert (G : forall l i,
    (fix scan (l : list (nec * element)) (i : nat) {struct l} : option (val * env) :=
       match l with
       | [] => Some (VNone, [("self", VElem e); ("name", VName n)])
       | c :: r =>
           match eval call (EEq (EField (EInner (EVar "c")) "name") (EVar "name"))
                   (("c", VChild c) :: [("self", VElem e); ("name", VName n)]) with
           | Some (VBool true, _) => Some (VSomeNat i, [("self", VElem e); ("name", VName n)])
           | Some (VBool false, _) => scan r (S i)
           | _ => None
           end
       end) l i
    = Some (match find_index l n with Some k => VSomeNat (i + k) | None => VNone end,
            [("self", VElem e); ("name", VName n)])).
  { induction l as [|c r IH]; intros i; [reflexivity|].
    cbn [find_index]. cbn [eval lookup get_field String.eqb Ascii.eqb Bool.eqb snd].
    destruct (str_eqb (ename (snd c)) n).
    - rewrite Nat.add_0_r. reflexivity.
    - specialize (IH (S i)). cbn [eval lookup get_field String.eqb Ascii.eqb Bool.eqb snd] in IH.
      rewrite IH. destruct (find_index r n) as [k|]; [|reflexivity].
      rewrite Nat.add_succ_r. reflexivity. }
  intros l. exact (G l O).
Qed.

Lemma remove_child_rs_correct : forall e n,
  run_fn no_call remove_child_rs (VElem e) (VName n)
  = Some (opt_child (fst (remove_child (echildren e) n)),
          VElem (set_children e (snd (remove_child (echildren e) n)))).
Proof.
  intros e n. unfold run_fn, remove_child_rs.
  cbn [fn_body fn_p1 fn_p2 fn_result exec lookup String.eqb Ascii.eqb Bool.eqb].
  fold name_pred. fold (env0 e n).
  match goal with |- context [eval ?c (EMatchOpt ?a ?x ?s ?ne) ?en] =>
    change (eval c (EMatchOpt a x s ne) en) with
      (match eval c a en with
       | Some (VNone, en1) => eval c ne en1
       | Some (VSomeChild ch, en1) => eval c s ((x, VChild ch) :: en1)
       | Some (VSomeNat k, en1) => eval c s ((x, VNat k) :: en1)
       | _ => None end) end.
  rewrite eval_position_children.
  destruct (find_index (echildren e) n) as [k|] eqn:E.
  - destruct (find_index_some _ _ _ E) as [c [H1 H2]]. rewrite H2. cbn [fst snd opt_child].
    unfold env0. destruct e as [nm t x kk a ch p]. cbn [echildren] in H1 |- *. ev.
    cbn [echildren]. rewrite H1. reflexivity.
  - rewrite (find_index_none _ _ E). destruct e as [nm t x kk a ch p]. reflexivity.
Qed.

(* ---------- add_unique_child ---------- *)

Lemma add_unique_child_rs_correct : forall e child,
  run_fn (call_of level0) add_unique_child_rs (VElem e) (VElem child)
  = Some (VUnit, VElem (add_unique_child e child)).
Proof.
  intros e child. unfold add_unique_child_rs, add_unique_child. rs.
  rewrite get_child_rs_correct.
  destruct (get_child (echildren e) (ename child)) as [c|]; cbn [opt_child]; ev; [reflexivity|].
  destruct e as [nm t x k a ch p]. destruct child as [nm' t' x' k' a' ch' [q|]]; ev; 
    rewrite add_unique_rs_children; ev; reflexivity.
Qed.

(* ---------- set_child_optional ---------- *)

Lemma set_child_optional_rs_correct : forall e n,
  run_fn (call_of level0) set_child_optional_rs (VElem e) (VName n)
  = Some (VUnit, VElem (set_child_optional e n)).
Proof.
  intros e n. unfold set_child_optional_rs, set_child_optional. rs.
  rewrite remove_child_rs_correct.
  destruct (remove_child (echildren e) n) as [[c|] r] eqn:E; cbn [opt_child fst snd]; ev.
  - destruct e as [nm t x k a ch p]. cbn [set_children]. ev.
    rewrite add_unique_rs_children. ev. reflexivity.
  - assert (H : get_child (echildren e) n = None).
    { rewrite <- remove_child_fst, E. reflexivity. }
    apply remove_child_none in H. rewrite E in H. cbn [snd] in H. subst r.
    destruct e as [nm t x k a ch p]. reflexivity.
Qed.

(* ---------- Element::new ---------- *)

Definition for_loop (call : string -> val -> val -> option (val * val)) (x : string) (body : stmt)
  : list str -> env -> option (env * flow) :=
  fix loop (items : list str) (en : env) {struct items} : option (env * flow) :=
    match items with
    | [] => Some (en, Normal)
    | i :: r =>
        match exec call body ((x, VName i) :: en) with
        | Some (en', Normal) => loop r en'
        | r' => r'
        end
    end.

(* the same loop over a `Vec<Necessity<Element>>` (binding a child) *)
Definition for_loop_ch (call : string -> val -> val -> option (val * val)) (x : string) (body : stmt)
  : list (nec * element) -> env -> option (env * flow) :=
  fix loop (items : list (nec * element)) (en : env) {struct items} : option (env * flow) :=
    match items with
    | [] => Some (en, Normal)
    | i :: r =>
        match exec call body ((x, VChild i) :: en) with
        | Some (en', Normal) => loop r en'
        | r' => r'
        end
    end.

Lemma exec_for call x it body en :
  exec call (SFor x it body) en =
  match eval call it en with
  | Some (VNames l, en1) => for_loop call x body l en1
  | Some (VChildren l, en1) => for_loop_ch call x body l en1
  | _ => None end.
Proof. reflexivity. Qed.

Lemma exec_seq call s1 s2 en :
  exec call (SSeq s1 s2) en =
  match exec call s1 en with Some (en1, Normal) => exec call s2 en1 | r => r end.
Proof. reflexivity. Qed.
Lemma exec_let call x e en :
  exec call (SLet x e) en =
  match eval call e en with Some (v, en1) => Some ((x, v) :: en1, Normal) | None => None end.
Proof. reflexivity. Qed.

Lemma update_spec x v (en : env) w :
  lookup x en = Some w ->
  exists en', update x v en = Some en' /\ lookup x en' = Some v /\
              forall y, String.eqb x y = false -> lookup y en' = lookup y en.
Proof.
  induction en as [|[y u] en IH]; cbn [lookup update]; [discriminate|].
  destruct (String.eqb y x) eqn:E.
  - intros _. exists ((y, v) :: en). split; [reflexivity|]. cbn [lookup]. rewrite E.
    split; [reflexivity|]. intros z Hz. apply String.eqb_eq in E. subst y. rewrite Hz. reflexivity.
  - intros H. destruct (IH H) as [en' [H1 [H2 H3]]]. rewrite H1.
    exists ((y, u) :: en'). split; [reflexivity|]. cbn [lookup]. rewrite E.
    split; [exact H2|]. intros z Hz. rewrite (H3 z Hz). reflexivity.
Qed.

(* the accumulator `unique_attributes`: `Vec::new()` until the first push *)
Definition acc_is (v : val) (acc : list (nec * str)) : Prop :=
  (v = VEmptyVec /\ acc = []) \/ v = VAttrs acc.

Lemma add_unique_rs_acc v acc a : acc_is v acc ->
  run_fn no_call add_unique_rs v (VAttr a) = Some (VUnit, VAttrs (add_unique_attr acc a)).
Proof.
  intros [[-> ->]| ->]; [apply add_unique_rs_empty_attr|apply add_unique_rs_attrs].
Qed.

Definition new_body : stmt :=
  SExpr (ECall "add_unique" (PVar "unique_attributes") (ENecMand (EVar "a"))).

Lemma new_loop : forall a en v acc,
  acc_is v acc -> lookup "unique_attributes" en = Some v ->
  exists en' v',
    for_loop (call_of level0) "a" new_body a en = Some (en', Normal) /\
    lookup "unique_attributes" en' = Some v' /\
    acc_is v' (fold_left (fun acc x => add_unique_attr acc (Mand, x)) a acc) /\
    lookup "name" en' = lookup "name" en.
Proof.
  induction a as [|i a IH]; intros en v acc Hv Hl.
  - exists en, v. repeat split; assumption.
  - cbn [for_loop fold_left]. unfold new_body at 1. ev. rewrite Hl.
    rewrite (add_unique_rs_acc v acc (Mand, i) Hv).
    destruct (update_spec "unique_attributes" (VAttrs (add_unique_attr acc (Mand, i))) en v Hl)
      as [en1 [U1 [U2 U3]]].
    rewrite U1.
    destruct (IH (("a", VName i) :: en1) (VAttrs (add_unique_attr acc (Mand, i))) (add_unique_attr acc (Mand, i)))
      as [en' [v' [L1 [L2 [L3 L4]]]]].
    + right. reflexivity.
    + exact U2.
    + exists en', v'. fold new_body. split; [exact L1|]. split; [exact L2|]. split; [exact L3|].
      rewrite L4. cbn [lookup String.eqb Ascii.eqb Bool.eqb]. apply U3. reflexivity.
Qed.

Lemma new_rs_correct : forall n a,
  run_fn (call_of level0) new_rs (VName n) (VNames a) = Some (VElem (new_element n a), VName n).
Proof.
  intros n a. unfold run_fn, new_rs. cbn [fn_body fn_p1 fn_p2 fn_result].
  rewrite exec_seq, exec_let. cbn [eval]. rewrite exec_for. cbn [eval lookup String.eqb Ascii.eqb Bool.eqb].
  fold new_body.
  destruct (new_loop a [("unique_attributes", VEmptyVec); ("name", VName n); ("attributes", VNames a)]
              VEmptyVec []) as [en' [v' [L1 [L2 [L3 L4]]]]].
  - left. split; reflexivity.
  - reflexivity.
  - rewrite L1. cbn [lookup String.eqb Ascii.eqb Bool.eqb] in L4. rewrite L4.
    cbn [eval]. rewrite L2. unfold new_element.
    destruct L3 as [[-> H]| ->]; [rewrite H|]; rewrite L4; reflexivity.
Qed.

(* ---------- a property of the model, transported to the translated source ---------- *)

Lemma add_present_noop_rs : forall e child c,
  get_child (echildren e) (ename child) = Some c ->
  run_fn (call_of level0) add_unique_child_rs (VElem e) (VElem child) = Some (VUnit, VElem e).
Proof.
  intros e child c H. rewrite add_unique_child_rs_correct.
  unfold add_unique_child. rewrite H. reflexivity.
Qed.

(* non-vacuity *)
Example add_present_noop_rs_example :
  let c1 := Elem (s "b") false true 1 [] [] (Some 0%nat) in
  let e0 := Elem (s "a") false true 1 [] [(Mand, c1)] None in
  get_child (echildren e0) (ename c1) = Some (Mand, c1) /\
  run_fn (call_of level0) add_unique_child_rs (VElem e0) (VElem c1) = Some (VUnit, VElem e0).
Proof. vm_compute. split; reflexivity. Qed.

Example set_child_optional_rs_example :
  let c1 := Elem (s "b") false true 1 [] [] (Some 0%nat) in
  let e0 := Elem (s "a") false true 1 [] [(Mand, c1)] None in
  run_fn (call_of level0) set_child_optional_rs (VElem e0) (VName (s "b"))
  = Some (VUnit, VElem (Elem (s "a") false true 1 [] [(Opt, c1)] None)).
Proof. vm_compute. reflexivity. Qed.

(* Element::new with a repeated attribute name *)
Example new_rs_example :
  run_fn (call_of level0) new_rs (VName (s "a")) (VNames [s "x"; s "y"; s "x"])
  = Some (VElem (Elem (s "a") false true 1 [(Mand, s "x"); (Mand, s "y")] [] None), VName (s "a")).
Proof. vm_compute. reflexivity. Qed.

(* ---------- the two one-line methods ---------- *)
(* `self.count += 1` on the unbounded counter of the model (the u32 overflow is excluded by
   C07_no_overflow) *)
Lemma increment_rs_correct : forall e,
  run_fn no_call increment_rs (VElem e) VUnit = Some (VUnit, VElem (increment e)).
Proof. intros [n t x k a c p]. reflexivity. Qed.

(* `self.attributes = merge_necessity(self.attributes, attributes); self`, where the call of
   merge_necessity is read as the model function (Properties/C15rs.v: that is what its source
   computes) *)
Lemma merge_attr_rs_correct : forall e l,
  run_fn no_call merge_attr_rs (VElem e) (VAttrs l)
  = Some (VElem (merge_attr e l), VElem (merge_attr e l)).
Proof. intros [n t x k a c p] l. reflexivity. Qed.

(* ---------- two helpers of the renderer ---------- *)
Lemma contains_only_text_rs_correct : forall e,
  run_fn no_call contains_only_text_rs (VElem e) VUnit = Some (VBool (contains_only_text e), VElem e).
Proof. intros [n t x k a c p]. destruct t, a, c; reflexivity. Qed.

(* `text.find(':')` as the evaluator computes it *)
Fixpoint find_colon (l : str) (i : nat) : val :=
  match l with
  | [] => VNone
  | d :: r => if (d =? 58)%N then VSomeNat i else find_colon r (S i)
  end.

Lemma find_char_upto : forall x i,
  match upto_colon x with
  | Some p => exists k, find_colon x i = VSomeNat (i + k) /\ p = firstn (S k) x /\ (k < List.length x)%nat
  | None => find_colon x i = VNone
  end.
Proof.
  induction x as [|d r IH]; intros i; cbn [upto_colon find_colon].
  - reflexivity.
  - unfold colon. destruct (d =? 58)%N eqn:E.
    + exists 0%nat. rewrite Nat.add_0_r. split; [reflexivity|]. split; [reflexivity|]. simpl. apply Nat.lt_0_succ.
    + specialize (IH (S i)). destruct (upto_colon r) as [p|]; cbn [option_map].
      * destruct IH as (k & Hf & Hp & Hk). exists (S k). rewrite Hf, Hp.
        split; [f_equal; rewrite <- plus_n_Sm; reflexivity|]. split; [reflexivity|].
        simpl. apply -> Nat.succ_lt_mono. exact Hk.
      * exact IH.
Qed.

Lemma starts_with_xmlns_rs_correct : forall x,
  run_fn no_call starts_with_xmlns_rs (VName x) VUnit = Some (VBool (starts_with_xmlns x), VName x).
Proof.
  intros x. unfold run_fn, starts_with_xmlns_rs. cbn [fn_body fn_p1 fn_p2 fn_result exec].
  cbn [lookup String.eqb Ascii.eqb Bool.eqb].
  cbn [eval lookup String.eqb Ascii.eqb Bool.eqb].
  change ((fix find (l : str) (i : nat) {struct l} : val :=
             match l with
             | [] => VNone
             | d :: r => if (d =? 58)%N then VSomeNat i else find r (S i)
             end) x 0%nat) with (find_colon x 0%nat).
  unfold starts_with_xmlns. pose proof (find_char_upto x 0%nat) as H.
  destruct (upto_colon x) as [p|].
  - destruct H as (k & Hf & Hp & Hk). rewrite Hf. cbn [Nat.add].
    cbn [eval lookup String.eqb Ascii.eqb Bool.eqb].
    apply Nat.ltb_lt in Hk. rewrite Hk. rewrite <- Hp.
    cbn [lookup String.eqb Ascii.eqb Bool.eqb].
    rewrite (str_eqb_sym (s "xmlns:") p). reflexivity.
  - rewrite H. cbn [eval lookup String.eqb Ascii.eqb Bool.eqb]. reflexivity.
Qed.
