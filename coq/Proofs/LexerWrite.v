(* Abstract documents written as bytes: `write` encodes every name of a `node` tree in UTF-8 and
   serialises it; for every document whose names are XML-like (non-empty, Unicode scalar values,
   none of blank, greater-than, the two quotes, slash, equals; not starting with ! or ?), whose attribute lists are duplicate-free
   and in which no two text nodes follow each other, the lexer model on the written bytes
   delivers exactly `events_of` -- so the hypothesis "documents" of C01 / C03 / C06 / C09 / C11
   is met by actual byte strings, one for every such abstract document. *)
From Coq Require Import String Lia.
From XSG.Model Require Import Strings Convert Necessity Element Parser Dom Spec Render Lexer.
From XSG.Proofs Require Import StringsProofs NecessityProofs ElementProofs SkelProofs DomEquiv
                               SpecProofs ReprDefs ExactProofs EventLevel InferProofs AdmitProofs
                               LexerProofs LexerC11 LexerEmpty LexerCData LexerSer LexerDoc LexerUtf8.

Fixpoint wnode (nd : node) : bnode :=
  match nd with
  | NElem n ef attrs kids =>
      BElem (utf8_encode n) ef (map (fun a => (utf8_encode a, true, @nil byte)) attrs) (map wnode kids)
  | NText => BText [120]
  | NCData => BCData []
  | NMisc => BComment []
  end.
Definition write (d : list node) : list byte := ser_forest (map wnode d).

(* ---------- XML-like names ---------- *)
Definition name_char (c : chr) : bool := scalar c && ((128 <=? c) || key_byte c).
Definition name_ok (n : str) : bool :=
  match n with
  | [] => false
  | c :: _ => negb (c =? B_bang) && negb (c =? B_q) && forallb name_char n
  end.
Definition is_ntext (nd : node) : bool := match nd with NText => true | _ => false end.
Fixpoint no_adj_ntext (ks : list node) : bool :=
  match ks with
  | k1 :: r => match r with
               | k2 :: _ => negb (is_ntext k1 && is_ntext k2)
               | [] => true
               end && no_adj_ntext r
  | [] => true
  end.
Fixpoint dom_ok (nd : node) : bool :=
  match nd with
  | NElem n ef attrs kids =>
      name_ok n && forallb name_ok attrs && no_adj_ntext kids && forallb dom_ok kids
  | _ => true
  end.
Definition dom_doc_ok (d : list node) : bool :=
  no_adj_ntext d && forallb dom_ok d && match d with [] => true | k :: _ => negb (is_ntext k) end.

Lemma name_char_inv c : name_char c = true -> scalar c = true /\ (128 <= c \/ (c < 128 /\ key_byte c = true)).
Proof.
  unfold name_char. intros H. apply andb_prop in H. destruct H as [Hs H]. split; [exact Hs|].
  destruct (N.leb_spec 128 c) as [Hc|Hc]; [now left|right]. cbn [orb] in H. split; [lia|exact H].
Qed.

Lemma high_key_byte b : 128 <= b -> key_byte b = true.
Proof.
  intros H. unfold key_byte, plain_byte, is_ws.
  rewrite !(eqb_false b) by (unfold B_gt, B_sq, B_dq, B_slash, B_eq; lia). reflexivity.
Qed.

Lemma enc1_key_bytes c : name_char c = true -> forallb key_byte (utf8_enc1 c) = true.
Proof.
  intros H. destruct (name_char_inv c H) as [Hs [Hc|[Hc Hk]]].
  - apply forallb_forall. intros b Hb. apply high_key_byte. apply (enc1_high c b Hc (scalar_lt c Hs) Hb).
  - rewrite (enc1_ascii c Hc). cbn [forallb]. now rewrite Hk.
Qed.

Lemma forallb_flat_map {A B} (p : B -> bool) (f : A -> list B) l :
  forallb p (flat_map f l) = forallb (fun x => forallb p (f x)) l.
Proof. induction l as [|x l IH]; [reflexivity|]. cbn [flat_map forallb]. now rewrite forallb_app, IH. Qed.

Lemma forallb_map' {A B} (p : B -> bool) (f : A -> B) l : forallb p (map f l) = forallb (fun x => p (f x)) l.
Proof. induction l as [|x l IH]; [reflexivity|]. cbn [map forallb]. now rewrite IH. Qed.

Lemma name_chars_scalar n : forallb name_char n = true -> forallb scalar n = true.
Proof.
  intros H. rewrite forallb_forall in *. intros c Hc. now destruct (name_char_inv c (H c Hc)).
Qed.

Lemma encode_key_bytes n : forallb name_char n = true -> forallb key_byte (utf8_encode n) = true.
Proof.
  intros H. unfold utf8_encode. rewrite forallb_flat_map. rewrite forallb_forall in *.
  intros c Hc. apply enc1_key_bytes, H, Hc.
Qed.

Lemma name_ok_inv n : name_ok n = true ->
  exists c r, n = c :: r /\ (c =? B_bang) = false /\ (c =? B_q) = false /\ forallb name_char n = true.
Proof.
  destruct n as [|c r]; [discriminate|]. unfold name_ok. intros H.
  apply andb_prop in H. destruct H as [H H3]. apply andb_prop in H. destruct H as [H1 H2].
  exists c, r. repeat split; auto; now apply negb_true_iff.
Qed.

Lemma name_ok_scalar n : name_ok n = true -> forallb scalar n = true.
Proof. intros H. destruct (name_ok_inv n H) as (c & r & _ & _ & _ & Hall). now apply name_chars_scalar. Qed.

Lemma encode_valid n : forallb scalar n = true -> valid (utf8_encode n) = true /\ dec_or (utf8_encode n) = n.
Proof. intros H. unfold valid, dec_or. rewrite (utf8_decode_encode n H). split; reflexivity. Qed.

Lemma encode_plain_name n : name_ok n = true -> plain_name (utf8_encode n) = true.
Proof.
  intros H. destruct (name_ok_inv n H) as (c & r & -> & Hb & Hq & Hall).
  pose proof (key_byte_plain _ (encode_key_bytes _ Hall)) as Hp.
  cbn [forallb] in Hall. apply andb_prop in Hall. destruct Hall as [Hc _].
  destruct (name_char_inv c Hc) as [Hs [Hh|[Hl _]]].
  - cbn [utf8_encode flat_map] in *. destruct (utf8_enc1 c) as [|b0 e] eqn:E; [now apply enc1_nonempty in E|].
    assert (Hb0 : 128 <= b0). { apply (enc1_high c b0 Hh (scalar_lt c Hs)). rewrite E. now left. }
    cbn [app plain_name] in *. rewrite Hp.
    rewrite !(eqb_false b0) by (unfold B_bang, B_q; lia). reflexivity.
  - cbn [utf8_encode flat_map] in *. rewrite (enc1_ascii c Hl) in *. cbn [app plain_name] in *.
    now rewrite Hb, Hq, Hp.
Qed.

Lemma encode_nonempty n : name_ok n = true -> utf8_encode n <> [].
Proof.
  intros H. apply encode_plain_name in H. destruct (utf8_encode n); [discriminate|discriminate].
Qed.

Lemma wf_attr_written a : name_ok a = true -> wf_attr (utf8_encode a, true, []) = true.
Proof.
  intros H. unfold wf_attr. destruct (name_ok_inv a H) as (c & r & Ha & _ & _ & Hall).
  rewrite (encode_key_bytes a Hall). destruct (encode_valid a (name_chars_scalar a Hall)) as [-> _].
  pose proof (encode_nonempty a H) as Hne. destruct (utf8_encode a); [congruence|reflexivity].
Qed.

Lemma bytes_eqb_eq : forall a b, bytes_eqb a b = true -> a = b.
Proof.
  induction a as [|x a IH]; intros [|y b] H; try discriminate; [reflexivity|].
  cbn [bytes_eqb] in H. apply andb_prop in H. destruct H as [H1 H2]. apply N.eqb_eq in H1.
  subst y. f_equal. now apply IH.
Qed.

Lemma keys_distinct_written : forall attrs,
  NoDup attrs -> forallb name_ok attrs = true ->
  keys_distinct (map akey (map (fun a => (utf8_encode a, true, @nil byte)) attrs)) = true.
Proof.
  induction 1 as [|a r Hn Hd IH]; intros Hok; [reflexivity|].
  cbn [forallb] in Hok. apply andb_prop in Hok. destruct Hok as [Ha Hr].
  cbn [map keys_distinct akey fst]. rewrite (IH Hr), andb_true_r. apply negb_true_iff.
  unfold key_seen. destruct (existsb _ _) eqn:E; [|reflexivity]. exfalso.
  apply existsb_exists in E. destruct E as (x & Hx & Hxe). rewrite map_map in Hx. cbn [akey fst] in Hx.
  apply in_map_iff in Hx. destruct Hx as (y & <- & Hy). apply bytes_eqb_eq in Hxe.
  apply utf8_encode_inj in Hxe; [subst y; contradiction|now apply name_ok_scalar|].
  rewrite forallb_forall in Hr. now apply name_ok_scalar, Hr.
Qed.

Lemma no_adj_written ks : no_adj_text (map wnode ks) = no_adj_ntext ks.
Proof.
  induction ks as [|k r IH]; [reflexivity|]. cbn [map no_adj_text no_adj_ntext]. rewrite IH.
  destruct r as [|k2 r2]; [reflexivity|]. cbn [map]. destruct k, k2; reflexivity.
Qed.

(* ---------- the written tree is well-formed and its abstraction is the document ---------- *)
Lemma babs_wnode : forall nd, dom_ok nd = true -> babs (wnode nd) = nd.
Proof.
  induction nd as [n ef attrs ks IH| | |] using node_ind'; intros H; try reflexivity.
  cbn [dom_ok] in H. apply andb_prop in H. destruct H as [H Hkids]. apply andb_prop in H.
  destruct H as [H Hadj]. apply andb_prop in H. destruct H as [Hn Hattrs].
  cbn [wnode babs]. f_equal.
  - now apply encode_valid, name_ok_scalar.
  - rewrite map_map. cbn [akey fst]. rewrite <- (map_id attrs) at 2. apply map_ext_in. intros a Ha.
    rewrite forallb_forall in Hattrs. now apply encode_valid, name_ok_scalar, Hattrs.
  - rewrite map_map. rewrite <- (map_id ks) at 2. apply map_ext_in. intros k Hk.
    rewrite Forall_forall in IH. rewrite forallb_forall in Hkids. now apply IH, Hkids.
Qed.

Lemma bwf_wnode : forall nd, wf_node nd -> dom_ok nd = true -> bwf (wnode nd) = true.
Proof.
  induction nd as [n ef attrs ks IH| | |] using node_ind'; intros Hw H; try reflexivity.
  cbn [dom_ok] in H. apply andb_prop in H. destruct H as [H Hkids]. apply andb_prop in H.
  destruct H as [H Hadj]. apply andb_prop in H. destruct H as [Hn Hattrs].
  inversion Hw as [n' ef' a' ks' Hnd Hks| | |]; subst.
  cbn [wnode bwf]. rewrite (encode_plain_name n Hn).
  destruct (encode_valid n (name_ok_scalar n Hn)) as [-> _].
  rewrite (keys_distinct_written attrs Hnd Hattrs), no_adj_written, Hadj. cbn [andb].
  rewrite ?andb_true_r. apply andb_true_intro. split.
  - rewrite forallb_map'. apply forallb_forall. intros a Ha. rewrite forallb_forall in Hattrs.
    now apply wf_attr_written, Hattrs.
  - rewrite forallb_map'. apply forallb_forall. intros k Hk.
    rewrite Forall_forall in IH, Hks. rewrite forallb_forall in Hkids. apply IH; auto.
Qed.

Theorem written_doc_ok d : Forall wf_node d -> dom_doc_ok d = true ->
  bdoc_ok (map wnode d) = true /\ abs_doc (map wnode d) = d.
Proof.
  intros Hw H. unfold dom_doc_ok in H. apply andb_prop in H. destruct H as [H Hs].
  apply andb_prop in H. destruct H as [Hadj Hok]. split.
  - unfold bdoc_ok, bwf_forest. rewrite no_adj_written, Hadj. cbn [andb].
    apply andb_true_intro. split.
    + rewrite forallb_map'. apply forallb_forall. intros k Hk. rewrite Forall_forall in Hw.
      rewrite forallb_forall in Hok. apply bwf_wnode; auto.
    + destruct d as [|k r]; [reflexivity|]. cbn [map starts_markup]. destruct k; auto.
  - unfold abs_doc. rewrite map_map. rewrite <- (map_id d) at 2. apply map_ext_in. intros k Hk.
    rewrite forallb_forall in Hok. now apply babs_wnode, Hok.
Qed.

(* ---------- the lexer on the written bytes ---------- *)
Theorem lex_write d : Forall wf_node d -> dom_doc_ok d = true -> lex (write d) = events_of_forest d.
Proof.
  intros Hw H. destruct (written_doc_ok d Hw H) as [Hb Ha]. unfold write.
  rewrite (lex_ser_doc _ Hb), Ha. reflexivity.
Qed.

Lemma map_lex_write docs : Forall (Forall wf_node) docs -> forallb dom_doc_ok docs = true ->
  map lex (map write docs) = map events_of_forest docs.
Proof.
  induction 1 as [|d r Hd Hr IH]; intros H; [reflexivity|].
  cbn [forallb] in H. apply andb_prop in H. destruct H as [H1 H2].
  cbn [map]. rewrite (lex_write d Hd H1), (IH H2). reflexivity.
Qed.

Theorem run_bytes_write docs : Forall (Forall wf_node) docs -> forallb dom_doc_ok docs = true ->
  run_bytes (map write docs) = of_opt (run_dom docs).
Proof. intros Hw H. unfold run_bytes. rewrite (map_lex_write docs Hw H). apply run_dom_ev. Qed.

(* C03, for documents and the bytes they are written as *)
Theorem write_C03_exact : forall docs,
  docs_ok docs = true -> Forall (Forall wf_node) docs -> forallb dom_doc_ok docs = true ->
  exists e, run_bytes (map write docs) = Ok e /\ infer docs = Some (sort_tree e).
Proof.
  intros docs Hd Hw Hok. destruct (C03_exact_dom docs Hd Hw) as (e & He & Hi).
  exists e. split; [|exact Hi]. now rewrite (run_bytes_write docs Hw Hok), He.
Qed.

(* C11: documents with the same structure, written out *)
Theorem write_structure_only : forall docs docs' o,
  Forall (Forall wf_node) docs -> forallb dom_doc_ok docs = true ->
  Forall (Forall wf_node) docs' -> forallb dom_doc_ok docs' = true ->
  Forall2 same_structure docs docs' ->
  render_outcome o (run_bytes (map write docs)) = render_outcome o (run_bytes (map write docs')).
Proof.
  intros docs docs' o Hw H Hw' H' Hs.
  now rewrite (run_bytes_write docs Hw H), (run_bytes_write docs' Hw' H'), (structure_only_run_dom _ _ Hs).
Qed.

Definition ex_dom : list node :=
  [NMisc; NElem (s "r") false [s "a"; [233; 8364]] [NText; NElem [1046; 120] true [s "k"] []; NCData;
                                   NElem (s "x:y") false [] [NText]; NMisc]; NMisc].
Lemma example_write :
  Forall wf_node ex_dom /\ dom_doc_ok ex_dom = true
  /\ write ex_dom = s "<!----><r a="""" " ++ [195; 169; 226; 130; 172] ++ s "=""""" ++ s ">x<" ++ [208; 150; 120] ++ s " k=""""/><![CDATA[]]><x:y>x</x:y><!----></r><!---->"
  /\ lex (write ex_dom) = events_of_forest ex_dom.
Proof.
  assert (Hw : Forall wf_node ex_dom).
  { repeat constructor; cbn; try (intros [H|H]; try discriminate; try contradiction); try tauto. }
  split; [exact Hw|]. split; [vm_compute; reflexivity|]. split; [vm_compute; reflexivity|].
  apply lex_write; [exact Hw|vm_compute; reflexivity].
Qed.
