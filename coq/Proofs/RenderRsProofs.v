(* The field rendering of src/element.rs, as translated by bin/translate_render.py
   (Generated/RenderRs.v), computes `to_serde_struct` of Model/Render.v: for every tree, every
   option value, every trace and every struct-name table. *)
From XSG.Model Require Import Strings Chars Convert Necessity Element Render RustRender.
From XSG.Generated Require Import RenderRs.
From XSG.Proofs Require Import ElementProofs RenderProofs OrderProofs NamesRsProofs.
From Coq Require Import String List Lia.
Import ListNotations.
Open Scope list_scope.

Lemma flat_map_map' {A B C} (f : A -> B) (g : B -> list C) l :
  flat_map g (map f l) = flat_map (fun x => g (f x)) l.
Proof. induction l as [|x l IH]; [reflexivity|]. cbn [map flat_map]. now rewrite IH. Qed.

Lemma flat_map_flat_map {A B C} (f : A -> list B) (g : B -> list C) l :
  flat_map g (flat_map f l) = flat_map (fun x => flat_map g (f x)) l.
Proof.
  induction l as [|x l IH]; [reflexivity|]. cbn [flat_map]. now rewrite flat_map_app, IH.
Qed.

Lemma print_cons d ds : print (d :: ds) = print_struct d ++ print ds.
Proof. reflexivity. Qed.
Lemma print_flat_map {A} (f : A -> list structdef) l :
  print (flat_map f l) = flat_map (fun c => print (f c)) l.
Proof. unfold print. apply flat_map_flat_map. Qed.

Lemma fold_left_fst_app {A U} (f : str * U -> A -> str * U) (g : A -> str) :
  (forall ss u a, fst (f (ss, u) a) = ss ++ g a) ->
  forall l ss u, fst (fold_left f l (ss, u)) = ss ++ flat_map g l.
Proof.
  intros H l. induction l as [|a l IH]; intros ss u; cbn [fold_left flat_map].
  - now rewrite app_nil_r.
  - destruct (f (ss, u) a) as [ss' u'] eqn:E. rewrite IH.
    pose proof (H ss u a) as H1. rewrite E in H1. cbn [fst] in H1. subst ss'.
    now rewrite app_assoc.
Qed.

Lemma fold_opt_spec {A B} (f : A -> B -> option A) (g : A -> B -> A) l :
  (forall a x, In x l -> f a x = Some (g a x)) ->
  forall a, fold_opt f l a = Some (fold_left g l a).
Proof.
  induction l as [|x l IH]; intros H a; [reflexivity|].
  cbn [fold_opt fold_left]. rewrite H by (left; reflexivity).
  apply IH. intros a' y Hy. apply H. now right.
Qed.

(* literal strings to explicit lists, then right-nested appends *)
Ltac eval_lits :=
  repeat match goal with
         | |- context [s ?x] => let v := eval vm_compute in (s x) in change (s x) with v
         end.
Ltac norm_str := unfold nl, quote; eval_lits; rewrite <- ?app_assoc; cbn [app].

Section Body.
  Context (rec : element -> options -> list str -> name_table -> option (str * list str)).
  Context (o : options) (tbl : name_table) (m : idmap).

  (* what one round of the loop over the children does, in the model's words *)
  Definition child_step (acc : str * list str * str) (c : nec * element) : str * list str * str :=
    let '(ss, tr, cs) := acc in
    (ss ++ print_field (child_field tbl m tr c), tr, cs ++ print (child_structs o tbl tr c)).

  Lemma fold_child_step l ss tr cs :
    fold_left child_step l (ss, tr, cs)
    = (ss ++ flat_map (fun c => print_field (child_field tbl m tr c)) l, tr,
       cs ++ flat_map (fun c => print (child_structs o tbl tr c)) l).
  Proof.
    revert ss cs. induction l as [|c l IH]; intros ss cs; cbn [fold_left flat_map].
    - now rewrite !app_nil_r.
    - unfold child_step at 2. rewrite IH. now rewrite <- !app_assoc.
  Qed.
End Body.

Lemma sorted_children_rs o e :
  match sort o with
  | XmlName => sort_by_key_str (fun c : nec * element => ename (snd c)) (echildren e)
  | Unsorted => sort_by_key_pos (fun c : nec * element => epos (snd c)) (echildren e)
  end = sorted_children o e.
Proof. unfold sorted_children, order_leb. destruct (sort o); reflexivity. Qed.

Lemma sorted_attrs_rs o e :
  match sort o with
  | XmlName => sort_by_key_str (fun a : nec * str => snd a) (eattrs e)
  | Unsorted => eattrs e
  end = sorted_attrs o e.
Proof. unfold sorted_attrs. destruct (sort o); reflexivity. Qed.

Lemma body_spec rec e o trace tbl :
  (forall c, In c (echildren e) -> contains_only_text (snd c) = false ->
             forall tr, rec (snd c) o tr tbl = Some (print (render_abs_at o tbl (snd c) tr), tr)) ->
  inner_to_serde_struct_body rec e o trace tbl
  = Some (print (render_abs_at o tbl e trace), trace).
Proof.
  intros Hrec.
  unfold inner_to_serde_struct_body. cbv zeta.
  rewrite sorted_children_rs, sorted_attrs_rs.
  (* the loop over the attributes *)
  match goal with
  | |- context [fold_left ?f ?l (?a0, ?u0)] =>
      assert (Hattr : forall ss u a,
                 fst (f (ss, u) a) = ss ++ print_field (attr_field o (id_new e) a));
      [ | remember (fold_left f l (a0, u0)) as R eqn:ER;
          assert (Hfold : fst R = a0 ++ flat_map (fun a => print_field (attr_field o (id_new e) a)) l)
            by (rewrite ER; apply (fold_left_fst_app f _ Hattr));
          destruct R as [ss used]; cbn [fst] in Hfold; subst ss; clear ER ]
  end.
  { intros ss u [[|] real]; cbv beta iota; cbn [fst snd];
      unfold attr_field, print_field, bound, print_ty;
      cbn [f_rename f_ident f_wrap f_ty fst snd];
      destruct (str_eqb _ _); cbn [negb]; norm_str; reflexivity. }
  (* the loop over the children *)
  match goal with
  | |- context [fold_opt ?f ?l ?a0] =>
      rewrite (fold_opt_spec f (child_step o tbl (id_new e)) l)
  end.
  2:{ intros [[ss tr] cs] c Hc. cbv beta iota.
      apply isort_in in Hc.
      destruct (contains_only_text (snd c)) eqn:Hot; cbn [negb].
      - unfold child_step, child_field, child_structs, print_field, print_ty, child_wrap, bound,
          struct_name_at, unwrap_or_default_str.
        cbn [f_rename f_ident f_wrap f_ty fst snd]. rewrite Hot.
        destruct (estandalone (snd c)), (fst c), (str_eqb _ _); cbn [negb print flat_map];
          norm_str; rewrite ?app_nil_r; reflexivity.
      - rewrite removelast_last, (Hrec c Hc Hot).
        unfold child_step, child_field, child_structs, print_field, print_ty, child_wrap, bound,
          struct_name_at, unwrap_or_default_str.
        cbn [f_rename f_ident f_wrap f_ty fst snd]. rewrite Hot.
        destruct (estandalone (snd c)), (fst c), (str_eqb _ _); cbn [negb];
          norm_str; reflexivity. }
  rewrite fold_child_step. cbv beta iota.
  clear Hattr.
  rewrite removelast_last, render_struct_shape, print_cons, print_flat_map.
  unfold print_struct, head_struct.
  cbn [sd_derive sd_name sd_fields].
  rewrite !flat_map_app, !flat_map_map'.
  unfold derive_attr, text_fields, struct_name_at, unwrap_or_default_str, child_structs.
  destruct (is_nil (derive o)), (etext e); cbn [negb flat_map];
    unfold print_field, bound, print_ty; cbn [f_rename f_ident f_wrap f_ty];
    norm_str; rewrite ?app_nil_r; reflexivity.
Qed.

Lemma esize_in c l : In c l -> esize (snd c) <= sizes l.
Proof.
  induction l as [|x l IH]; [intros []|]. intros [->|H]; cbn [sizes]; [lia|].
  specialize (IH H). lia.
Qed.

Lemma inner_spec fuel : forall e o trace tbl,
  esize e <= fuel ->
  inner_to_serde_struct_rs fuel e o trace tbl = Some (print (render_abs_at o tbl e trace), trace).
Proof.
  induction fuel as [|fuel IH]; intros e o trace tbl Hs.
  - rewrite esize_eq in Hs. lia.
  - cbn [inner_to_serde_struct_rs]. apply body_spec.
    intros c Hc _ tr. apply IH. rewrite esize_eq in Hs.
    pose proof (esize_in c _ Hc). lia.
Qed.

Theorem to_serde_struct_rs_spec e o fuel :
  esize e <= fuel -> to_serde_struct_rs fuel e o = Some (to_serde_struct o e).
Proof.
  intros Hs. unfold to_serde_struct_rs. cbv zeta. rewrite inner_spec by exact Hs. reflexivity.
Qed.


From XSG.Model Require Import Reparse.
From XSG.Proofs Require Import ConvertProofs WfProofs ReparseProofs.

Lemma to_serde_struct_rs_reparse e o fuel :
  esize e <= fuel -> tree_names_ok e = true -> options_printable o = true ->
  exists r, to_serde_struct_rs fuel e o = Some r /\ reparse r = Some (map erase' (render_abs o e)).
Proof.
  intros Hs Hn Ho. exists (to_serde_struct o e). split.
  - now apply to_serde_struct_rs_spec.
  - now apply reparse_to_serde_struct.
Qed.

Lemma source_out_of_fuel :
  let leaf := Elem (s "c") false true 1 [(Mand, s "k")] [] (Some 0) in
  let mid := Elem (s "b") false true 1 [] [(Mand, leaf)] (Some 0) in
  let r := Elem (s "a") false true 1 [] [(Mand, mid)] None in
  to_serde_struct_rs 2 r quick_xml_de = None /\ esize r = 3
  /\ to_serde_struct_rs 3 r quick_xml_de = Some (to_serde_struct quick_xml_de r).
Proof. vm_compute. repeat split. Qed.

Lemma source_example :
  let leaf n p := Elem (s n) true true 1 [] [] (Some p) in
  let ty := Elem (s "type") true false 2 [(Mand, s "x")] [(Opt, leaf "zz" 0)] (Some 1) in
  let k := Elem (s "k") false true 1 [] [(Mand, leaf "zz" 0)] (Some 2) in
  let r := Elem (s "root") false true 1 [(Mand, s "b:id"); (Opt, s "xmlns:a"); (Opt, s "a")]
             [(Opt, ty); (Opt, leaf "aa" 0); (Mand, k)] None in
  let srt := {| text_identifier := s "$value"; attribute_prefix := []; derive := []; sort := XmlName |} in
  to_serde_struct_rs 3 r quick_xml_de = Some (to_serde_struct quick_xml_de r)
  /\ to_serde_struct_rs 3 r srt = Some (to_serde_struct srt r)
  /\ to_serde_struct quick_xml_de r <> to_serde_struct srt r.
Proof. vm_compute. repeat split. discriminate. Qed.

(* ====================================================================== *)
(* the reading of `sort_unstable_by_key` as insertion sort                 *)
(* ====================================================================== *)
From Coq Require Import Permutation Sorted.

(* with pairwise distinct keys there is exactly one sorted arrangement of a list: whatever
   algorithm std's unstable sort uses, if it returns a sorted permutation it returns `isort` *)
Lemma sorted_perm_unique {A K} (leb : A -> A -> bool) (key : A -> K) :
  (forall a b c, leb a b = true -> leb b c = true -> leb a c = true) ->
  (forall a b, leb a b = true -> leb b a = true -> key a = key b) ->
  forall l l', NoDup (map key l) -> Permutation l l' ->
    Sorted (lebR leb) l -> Sorted (lebR leb) l' -> l = l'.
Proof.
  intros tr anti l l' Hnd Hp Hs Hs'.
  apply Sorted_StronglySorted in Hs; [|intros a b c; apply tr].
  apply Sorted_StronglySorted in Hs'; [|intros a b c; apply tr].
  revert l' Hnd Hp Hs'. induction Hs as [|x r Hr IH Hx]; intros l' Hnd Hp Hs'.
  - now apply Permutation_nil in Hp.
  - destruct l' as [|y r']; [apply Permutation_sym, Permutation_nil in Hp; discriminate|].
    inversion Hs' as [|? ? Hr' Hy]; subst.
    cbn [map] in Hnd. inversion Hnd as [|? ? Hnotin Hnd']; subst.
    assert (Exy : x = y).
    { assert (Hin : In x (y :: r')) by (eapply Permutation_in; [exact Hp|now left]).
      destruct Hin as [->|Hin]; [reflexivity|].
      assert (Hin2 : In y (x :: r)) by (eapply Permutation_in; [apply Permutation_sym; exact Hp|now left]).
      destruct Hin2 as [->|Hin2]; [reflexivity|].
      rewrite Forall_forall in Hx, Hy.
      pose proof (anti x y (Hx y Hin2) (Hy x Hin)) as Ek.
      exfalso. apply Hnotin. rewrite Ek. now apply in_map. }
    subst y. f_equal. apply IH; [exact Hnd'| |exact Hr'].
    now apply Permutation_cons_inv in Hp.
Qed.

Lemma any_sort_is_isort {A K} (leb : A -> A -> bool) (key : A -> K) :
  (forall a b, leb a b = true \/ leb b a = true) ->
  (forall a b c, leb a b = true -> leb b c = true -> leb a c = true) ->
  (forall a b, leb a b = true -> leb b a = true -> key a = key b) ->
  forall l l', NoDup (map key l) -> Permutation l l' -> Sorted (lebR leb) l' -> l' = isort leb l.
Proof.
  intros total tr anti l l' Hnd Hp Hs.
  apply (sorted_perm_unique leb key tr anti).
  - eapply Permutation_NoDup; [|exact Hnd]. now apply Permutation_map.
  - eapply Permutation_trans; [apply Permutation_sym; exact Hp|apply isort_perm].
  - exact Hs.
  - now apply isort_sorted.
Qed.

(* the two instances the renderer uses *)
Lemma str_leb_antisym a b : str_leb a b = true -> str_leb b a = true -> a = b.
Proof.
  unfold str_leb. rewrite !Bool.negb_true_iff. intros H1 H2.
  now apply OrderProofs.str_ltb_tricho.
Qed.

Lemma sort_by_key_str_any {A} (key : A -> str) l l' :
  NoDup (map key l) -> Permutation l l' ->
  Sorted (fun a b => str_leb (key a) (key b) = true) l' -> l' = sort_by_key_str key l.
Proof.
  intros Hnd Hp Hs. unfold sort_by_key_str.
  apply (any_sort_is_isort (fun a b => str_leb (key a) (key b)) key); auto.
  - intros a b. apply str_leb_total.
  - intros a b c. apply str_leb_trans.
  - intros a b. apply str_leb_antisym.
Qed.

Lemma pos_leb_total a b : pos_leb a b = true \/ pos_leb b a = true.
Proof. destruct a as [x|], b as [y|]; cbn; auto. destruct (Nat.leb_spec x y); [now left|right]. apply Nat.leb_le. lia. Qed.
Lemma pos_leb_trans a b c : pos_leb a b = true -> pos_leb b c = true -> pos_leb a c = true.
Proof.
  destruct a as [x|], b as [y|], c as [z|]; cbn; auto; try discriminate.
  rewrite !Nat.leb_le. lia.
Qed.
Lemma pos_leb_antisym a b : pos_leb a b = true -> pos_leb b a = true -> a = b.
Proof.
  destruct a as [x|], b as [y|]; cbn; auto; try discriminate.
  rewrite !Nat.leb_le. intros. f_equal. lia.
Qed.

Lemma sort_by_key_pos_any {A} (key : A -> option nat) l l' :
  NoDup (map key l) -> Permutation l l' ->
  Sorted (fun a b => pos_leb (key a) (key b) = true) l' -> l' = sort_by_key_pos key l.
Proof.
  intros Hnd Hp Hs. unfold sort_by_key_pos.
  apply (any_sort_is_isort (fun a b => pos_leb (key a) (key b)) key); auto.
  - intros a b. apply pos_leb_total.
  - intros a b c. apply pos_leb_trans.
  - intros a b. apply pos_leb_antisym.
Qed.
