(* C11 at byte level, the other markup that carries no structure: processing instructions (the
   XML declaration is lexed by the same path) and a DOCTYPE without internal subset, through one
   generic statement about any piece of bytes the lexer turns into one EMisc event. *)
From XSG.Model Require Import Strings Necessity Element Parser Dom Lexer.
From XSG.Proofs Require Import StringsProofs NecessityProofs ElementProofs ParserTotal SkelProofs
  ParserFaults LexerProofs LexerC11.
From Coq Require Import String Lia.

(* m, read where character data may stand, is exactly one EMisc event and leaves the lexer where
   it was *)
Definition misc_piece (m : list byte) : Prop :=
  forall p op, exists p', lex_run (st (MText []) p op) m = (st (MText []) p' op, [EMisc]).

Theorem misc_piece_events : forall a m b,
  misc_piece m ->
  md (fst (lex_run lex_init a)) = MText [] ->
  no_reader_error (lex_from lex_init (a ++ b)) = true ->
  lex_from lex_init (a ++ m ++ b)
  = snd (lex_run lex_init a) ++ EMisc :: lex_from (fst (lex_run lex_init a)) b
  /\ lex_from lex_init (a ++ b) = snd (lex_run lex_init a) ++ lex_from (fst (lex_run lex_init a)) b.
Proof.
  intros a m b Hp Hm Hn.
  rewrite (lex_from_app a b) in *. split; [|reflexivity].
  rewrite lex_from_app. destruct (lex_run lex_init a) as [[md0 p op] ea]. cbn [fst snd md] in *. subst md0.
  rewrite lex_from_app.
  change {| md := MText []; pos := p; opened := op |} with (st (MText []) p op) in *.
  destruct (Hp p op) as [p' ->]. cbn [fst snd app]. do 2 f_equal.
  apply erase_pos_eq; [|eapply no_reader_error_app; exact Hn].
  apply lex_from_pos. split; reflexivity.
Qed.

Theorem bytes_misc_irrelevant : forall a m b,
  misc_piece m ->
  md (fst (lex_run lex_init a)) = MText [] ->
  no_reader_error (lex_from lex_init (a ++ b)) = true ->
  into_struct_ev (lex_from lex_init (a ++ m ++ b)) = into_struct_ev (lex_from lex_init (a ++ b)).
Proof.
  intros a m b Hp Hm Hn. destruct (misc_piece_events a m b Hp Hm Hn) as [-> ->].
  apply misc_anywhere_into_struct_ev.
Qed.
Theorem bytes_misc_irrelevant_extend : forall root a m b,
  misc_piece m ->
  md (fst (lex_run lex_init a)) = MText [] ->
  no_reader_error (lex_from lex_init (a ++ b)) = true ->
  extend_struct_ev root (lex_from lex_init (a ++ m ++ b)) = extend_struct_ev root (lex_from lex_init (a ++ b)).
Proof.
  intros root a m b Hp Hm Hn. destruct (misc_piece_events a m b Hp Hm Hn) as [-> ->].
  apply misc_anywhere_extend_struct_ev.
Qed.

(* ---------- instances ---------- *)
Lemma misc_piece_comment c : no_gt c = true -> misc_piece (lit "<!--" ++ c ++ lit "-->").
Proof. intros H p op. eexists. apply (run_comment c p op H). Qed.

(* `<?` c `?>`, c without `>`: a processing instruction or the XML declaration *)
Lemma run_pi_body : forall c acc p op,
  no_gt c = true -> acc <> [] ->
  lex_run (st (MPI acc) p op) c = (st (MPI (rev c ++ acc)) (p + N.of_nat (List.length c)) op, []).
Proof.
  induction c as [|b c IH]; intros acc p op H Hacc.
  - cbn [lex_run rev app List.length N.of_nat]. now rewrite N.add_0_r.
  - cbn [no_gt forallb] in H. apply andb_prop in H. destruct H as [Hb Hc].
    apply negb_true_iff in Hb.
    cbn [lex_run]. unfold lex_step at 1. cbn [md pos opened st].
    destruct acc as [|l acc']; [congruence|]. rewrite Hb. cbn [andb].
    fold (no_gt c) in Hc. rewrite (IH (b :: l :: acc') (p + 1) op Hc) by discriminate.
    cbn [rev app]. rewrite <- app_assoc. cbn [app].
    f_equal. f_equal. cbn [List.length]. lia.
Qed.

Lemma misc_piece_pi c : no_gt c = true -> misc_piece (lit "<?" ++ c ++ lit "?>").
Proof.
  intros H p op. eexists.
  change (lit "<?") with [B_lt; B_q]. change (lit "?>") with [B_q; B_gt].
  cbn [app lex_run]. unfold lex_step at 1. cbn [md pos opened st]. rewrite N.eqb_refl.
  unfold lex_step at 1. cbn [md pos opened st].
  change (B_q =? B_bang) with false. change (B_q =? B_q) with true. cbv iota.
  rewrite lex_run_app. rewrite (run_pi_body c [B_q] _ op H) by discriminate.
  cbn [lex_run]. unfold lex_step at 1. cbn [md pos opened st].
  destruct (rev c ++ [B_q]) as [|l r] eqn:E; [destruct (rev c); discriminate|].
  change (B_q =? B_gt) with false. cbn [andb].
  unfold lex_step at 1. cbn [md pos opened st].
  change (B_gt =? B_gt) with true. change (B_q =? B_q) with true. cbn [andb].
  unfold close_pi. cbn [rev]. rewrite ?rev_app_distr, ?rev_involutive. cbn [rev app].
  change (B_q =? B_q) with true. cbv iota. cbn [app]. reflexivity.
Qed.

Lemma example_misc_pieces :
  misc_piece (s "<?xml version='1.0' encoding='UTF-8'?>") /\ misc_piece (s "<!-- a - b -- c -->")
  /\ misc_piece (s "<?php echo 1; ?>").
Proof.
  split; [|split].
  - apply (misc_piece_pi (s "xml version='1.0' encoding='UTF-8'")). reflexivity.
  - apply (misc_piece_comment (s " a - b -- c ")). reflexivity.
  - apply (misc_piece_pi (s "php echo 1; ")). reflexivity.
Qed.

(* ---------- C08: the position of a syntax error ---------- *)
Lemma bytes_position : forall bs p id,
  first_fault (lex bs) = Some (QuickXmlError p id) ->
  into_struct_bytes bs = Err (QuickXmlError p id)
  /\ exists pre post, lex bs = pre ++ EErr p id :: post /\ first_fault pre = None.
Proof. intros bs p id H. unfold into_struct_bytes. apply parse_position; [apply lex_nse|exact H]. Qed.

(* `<!DOCTYPE ` c `>`, c without `<` and `>` and not blank: a DOCTYPE without internal subset *)
Definition no_angle (c : list byte) : bool := forallb (fun b => negb (b =? B_lt) && negb (b =? B_gt)) c.

Lemma run_doctype_body : forall c acc p op,
  no_angle c = true ->
  lex_run (st (MDoctype 0 acc) p op) c = (st (MDoctype 0 (rev c ++ acc)) (p + N.of_nat (List.length c)) op, []).
Proof.
  induction c as [|b c IH]; intros acc p op H.
  - cbn [lex_run rev app List.length N.of_nat]. now rewrite N.add_0_r.
  - cbn [no_angle forallb] in H. apply andb_prop in H. destruct H as [Hb Hc].
    apply andb_prop in Hb. destruct Hb as [Hb1 Hb2]. apply negb_true_iff in Hb1, Hb2.
    cbn [lex_run]. unfold lex_step at 1. cbn [md pos opened st]. rewrite Hb1, Hb2.
    fold (no_angle c) in Hc. rewrite (IH (b :: acc) (p + 1) op Hc).
    cbn [rev app]. rewrite <- app_assoc. cbn [app].
    f_equal. f_equal. cbn [List.length]. lia.
Qed.

Definition doctype_head : list byte := [B_bang; 68; 79; 67; 84; 89; 80; 69].   (* !DOCTYPE *)

Lemma run_doctype_open p op :
  lex_run (st (MText []) p op) [B_lt; B_bang; 68] = (st (MDoctype 0 [68; B_bang]) (p + 1 + 1 + 1) op, []).
Proof. reflexivity. Qed.

Lemma misc_piece_doctype c :
  no_angle c = true -> drop_ws c <> [] -> misc_piece (B_lt :: doctype_head ++ 32 :: c ++ [B_gt]).
Proof.
  intros H Hne p op. eexists.
  change (B_lt :: doctype_head ++ 32 :: c ++ [B_gt])
    with ([B_lt; B_bang; 68] ++ ([79; 67; 84; 89; 80; 69; 32] ++ (c ++ [B_gt]))).
  rewrite lex_run_app, run_doctype_open.
  rewrite lex_run_app. rewrite (run_doctype_body [79; 67; 84; 89; 80; 69; 32] [68; B_bang] _ op) by reflexivity.
  rewrite lex_run_app. rewrite (run_doctype_body c _ _ op H).
  cbn [lex_run]. unfold lex_step at 1. cbn [md pos opened st].
  change (B_gt =? B_lt) with false. change (B_gt =? B_gt) with true. change (0 =? 0) with true. cbv iota.
  rewrite rev_app_distr, rev_involutive. cbn [rev app].
  unfold close_doctype.
  change (lit "!DOCTYPE") with [B_bang; 68; 79; 67; 84; 89; 80; 69].
  change (starts_with_uncased (B_bang :: 68 :: 79 :: 67 :: 84 :: 89 :: 80 :: 69 :: 32 :: c)
            [B_bang; 68; 79; 67; 84; 89; 80; 69]) with true.
  cbv iota. cbn [skipn]. change (drop_ws (32 :: c)) with (drop_ws c).
  destruct (drop_ws c); [congruence|]. cbn [app]. reflexivity.
Qed.

Lemma example_doctype_piece : misc_piece (s "<!DOCTYPE html PUBLIC ""-//W3C//DTD XHTML 1.0//EN"" ""x.dtd"">").
Proof. apply (misc_piece_doctype (s "html PUBLIC ""-//W3C//DTD XHTML 1.0//EN"" ""x.dtd""")); [reflexivity|discriminate]. Qed.
