(* The boolean oracles that bin/check evaluates on the implementation's output, proved of the
   output of the composed translated source (`library_src`): parsed back from its bytes, the
   structs satisfy reflects_b (C16 / C03), derive_b (C10), names_b (C14), wf_b (C04). *)
From XSG.Model Require Import Strings Chars Convert Necessity Element Parser Dom Spec Render RustRender RustLoop Reparse.
From XSG.Generated Require Import LoopRs EntryRs RenderRs.
From XSG.Proofs Require Import ElementProofs SkelProofs ConvertProofs WfProofs NamesRsProofs RenderRsProofs ReparseProofs
  RenderProofs ReflectProofs OracleProofs ReprDefs InferProofs EventLevel LoopRsProofs LibraryProofs.
From XSG.Corr Require Import Common Oracles.
From Coq Require Import String List.
Import ListNotations.
Open Scope list_scope.

Lemma run_evs_Uniq docs e : run_evs docs = Ok e -> Uniq e.
Proof.
  destruct docs as [|d r]; [discriminate|]. cbn [run_evs].
  assert (G : forall acc, (forall x, acc = Ok x -> Uniq x) ->
            fold_left (fun acc x => match acc with Ok e => extend_struct_ev e x | o => o end) r acc = Ok e -> Uniq e).
  { induction r as [|x r IH]; intros acc Ha H; cbn [fold_left] in H; [now apply Ha|].
    apply (IH _) in H; [exact H|]. intros y Hy.
    destruct acc as [a| |]; try discriminate Hy.
    eapply extend_struct_ev_Uniq; [apply Ha; reflexivity|exact Hy]. }
  apply G. intros x Hx. now apply (into_struct_ev_Uniq d).
Qed.

Lemma run_src_Uniq mk docs e : run_src mk docs = Ok e -> Uniq e.
Proof. rewrite run_src_model. apply run_evs_Uniq. Qed.

(* the structs parsed back from the bytes of the composed source, in the oracles' form *)
Lemma library_src_structs mk docs o e :
  run_src mk docs = Ok e -> tree_names_ok e = true -> options_printable o = true ->
  exists bytes structs,
    library_src mk (esize e) docs o = Some bytes /\ reparse bytes = Some structs
    /\ map to_ps structs = map erase (render_abs o e).
Proof.
  intros Hr Hn Ho. destruct (library_src_reparse mk docs o e Hr Hn Ho) as (bytes & Hb & _ & Hp).
  exists bytes, (map erase' (render_abs o e)). split; [exact Hb|]. split; [exact Hp|]. apply to_ps_erase.
Qed.

Lemma library_src_oracles mk docs o e :
  run_src mk docs = Ok e -> tree_names_ok e = true -> options_printable o = true ->
  exists bytes structs,
    library_src mk (esize e) docs o = Some bytes /\ reparse bytes = Some structs
    /\ reflects_b o e (map to_ps structs) = true
    /\ derive_b o (map to_ps structs) = true
    /\ names_b o e (map to_ps structs) = true
    /\ (literal_ok (attribute_prefix o) = true -> literal_ok (text_identifier o) = true ->
        wf_b (map to_ps structs) = true).
Proof.
  intros Hr Hn Ho. destruct (library_src_structs mk docs o e Hr Hn Ho) as (bytes & structs & Hb & Hp & Hs).
  exists bytes, structs. rewrite Hs. repeat split; try assumption.
  - apply render_reflects.
  - apply derive_b_render.
  - apply names_b_render.
  - intros Ha Ht. apply render_wf; try assumption. now apply (run_src_Uniq mk docs).
Qed.

(* C09, first appearance: the attribute list, and the child list in position order, of every node
   of the tree the source's parser returns are the names in order of first appearance over all
   occurrences of that path in the documents *)
Lemma library_src_first_appearance mk docs e :
  docs_ok docs = true -> Forall (Forall wf_node) docs ->
  run_src mk (map events_of_forest docs) = Ok e ->
  forall p x, node_at e p = Some x ->
    map snd (eattrs (snd x)) = dedup (flat_map oattrs (occs p (doc_roots docs)))
    /\ map cname (isort by_pos (echildren (snd x))) = dedup (flat_map okidnames (occs p (doc_roots docs))).
Proof.
  intros OK W Hr p x Hx. rewrite run_src_model in Hr. apply run_evs_ok_iff in Hr. split.
  - now apply (C09_first_appearance_attrs_l docs e).
  - now apply (C09_first_appearance_children_l docs e).
Qed.
