(* Documents as BYTES: the document-level theorems (C03 exactness, C11 structure only) restated
   for the serialisation of byte-level document trees, through `lex_ser_forest`
   (Proofs/LexerSer.v): lexer model on the written bytes = `events_of` of the abstraction. *)
From Coq Require Import String.
From XSG.Model Require Import Strings Convert Necessity Element Parser Dom Spec Render Lexer.
From XSG.Proofs Require Import StringsProofs NecessityProofs ElementProofs SkelProofs DomEquiv
                               SpecProofs ReprDefs ExactProofs EventLevel InferProofs LexerProofs LexerC11 LexerEmpty
                               LexerCData LexerSer UnionProofs AdmitProofs.

Definition bdoc_ok (d : list bnode) : bool := bwf_forest d && starts_markup d.
Definition abs_doc (d : list bnode) : list node := map babs d.

Lemma lex_ser_doc d : bdoc_ok d = true -> lex (ser_forest d) = events_of_forest (abs_doc d).
Proof.
  unfold bdoc_ok. intros H. apply andb_prop in H. destruct H as [H1 H2]. now apply lex_ser_forest.
Qed.

Theorem bytes_into_struct_ser : forall d, bdoc_ok d = true ->
  into_struct_bytes (ser_forest d) = of_opt (into_struct_dom (abs_doc d)).
Proof. intros d H. unfold into_struct_bytes. rewrite (lex_ser_doc d H). apply into_struct_dom_ev. Qed.

Theorem bytes_extend_struct_ser : forall root d, bdoc_ok d = true ->
  extend_struct_bytes root (ser_forest d) = of_opt (extend_struct_dom root (abs_doc d)).
Proof. intros root d H. unfold extend_struct_bytes. rewrite (lex_ser_doc d H). apply extend_struct_dom_ev. Qed.

Lemma map_lex_ser docs : forallb bdoc_ok docs = true ->
  map lex (map ser_forest docs) = map events_of_forest (map abs_doc docs).
Proof.
  induction docs as [|d r IH]; intros H; [reflexivity|].
  cbn [forallb] in H. apply andb_prop in H. destruct H as [Hd Hr].
  cbn [map]. rewrite (lex_ser_doc d Hd), (IH Hr). reflexivity.
Qed.

Theorem bytes_run_ser : forall docs, forallb bdoc_ok docs = true ->
  run_bytes (map ser_forest docs) = of_opt (run_dom (map abs_doc docs)).
Proof. intros docs H. unfold run_bytes. rewrite (map_lex_ser docs H). apply run_dom_ev. Qed.

(* C03 from bytes: the tree the library infers from the written documents is exactly the
   specification's *)
Theorem bytes_C03_exact : forall docs,
  forallb bdoc_ok docs = true ->
  docs_ok (map abs_doc docs) = true -> Forall (Forall wf_node) (map abs_doc docs) ->
  exists e, run_bytes (map ser_forest docs) = Ok e /\ infer (map abs_doc docs) = Some (sort_tree e).
Proof.
  intros docs Hb Hd Hw. destruct (C03_exact_dom (map abs_doc docs) Hd Hw) as (e & He & Hi).
  exists e. split; [|exact Hi]. rewrite (bytes_run_ser docs Hb), He. reflexivity.
Qed.

(* C11 from bytes: two sequences of written documents with the same structure (attribute values,
   quotes, the content of texts / CDATA sections / comments, text against CDATA, `<x/>` against
   `<x></x>`, comments anywhere) give the same result, hence the same rendering *)
Theorem bytes_structure_only : forall docs docs',
  forallb bdoc_ok docs = true -> forallb bdoc_ok docs' = true ->
  Forall2 same_structure (map abs_doc docs) (map abs_doc docs') ->
  run_bytes (map ser_forest docs) = run_bytes (map ser_forest docs').
Proof.
  intros docs docs' H H' Hs. rewrite (bytes_run_ser docs H), (bytes_run_ser docs' H').
  now rewrite (structure_only_run_dom _ _ Hs).
Qed.

Theorem bytes_structure_only_render : forall docs docs' o,
  forallb bdoc_ok docs = true -> forallb bdoc_ok docs' = true ->
  Forall2 same_structure (map abs_doc docs) (map abs_doc docs') ->
  render_outcome o (run_bytes (map ser_forest docs)) = render_outcome o (run_bytes (map ser_forest docs')).
Proof. intros docs docs' o H H' Hs. now rewrite (bytes_structure_only docs docs' H H' Hs). Qed.

(* the special case the property names first: other attribute values, other quotes, other
   non-empty text, other comment bodies -- the abstraction does not even see them, so already the
   event streams coincide *)
Theorem bytes_same_abstraction : forall d d',
  bdoc_ok d = true -> bdoc_ok d' = true -> abs_doc d = abs_doc d' ->
  lex (ser_forest d) = lex (ser_forest d').
Proof. intros d d' H H' E. now rewrite (lex_ser_doc d H), (lex_ser_doc d' H'), E. Qed.

(* replacing every attribute value (and its quotes) and every text / CDATA / comment content *)
Fixpoint revalue (fa : battr -> bool * list byte) (ft : list byte -> list byte) (nd : bnode) : bnode :=
  match nd with
  | BElem n ef attrs kids =>
      BElem n ef (map (fun a => (akey a, fst (fa a), snd (fa a))) attrs) (map (revalue fa ft) kids)
  | BText t => BText (ft t)
  | BCData t => BCData (ft t)
  | BComment c => BComment (ft c)
  end.

Lemma babs_revalue fa ft : forall nd, babs (revalue fa ft nd) = babs nd.
Proof.
  induction nd as [n ef attrs kids IH|t|t|c] using bnode_ind2; try reflexivity.
  cbn [revalue babs]. f_equal.
  - rewrite map_map. apply map_ext. intros [[k dq] v]. reflexivity.
  - rewrite map_map. apply map_ext_in. intros k Hk. rewrite Forall_forall in IH. now apply IH.
Qed.

Theorem bytes_revalue : forall fa ft d,
  bdoc_ok d = true -> bdoc_ok (map (revalue fa ft) d) = true ->
  lex (ser_forest (map (revalue fa ft) d)) = lex (ser_forest d).
Proof.
  intros fa ft d H H'. apply bytes_same_abstraction; auto.
  unfold abs_doc. rewrite map_map. apply map_ext. apply babs_revalue.
Qed.

(* non-vacuity: a written document, its bytes, and a re-valued copy *)
Definition ex_doc : list bnode :=
  [BComment (s " prolog "); 
   BElem (s "a") false [(s "k", true, s "v>1"); (s "x:y", true, s "it's")]
     [BText (s "hello "); BElem (s "b") true [(s "id", true, [])] []; BCData (s "x < y");
      BElem (s "b") false [] [BText (s "t")]; BComment (s "c")]].
Definition ex_doc' : list bnode :=
  map (revalue (fun a => (negb (snd (fst a)), s "other")) (fun t => s "Z")) ex_doc.

Lemma example_ser :
  bdoc_ok ex_doc = true /\ bdoc_ok ex_doc' = true
  /\ ser_forest ex_doc = s "<!-- prolog --><a k=""v>1"" x:y=""it's"">hello <b id=""""/><![CDATA[x < y]]><b>t</b><!--c--></a>"
  /\ ser_forest ex_doc' <> ser_forest ex_doc
  /\ lex (ser_forest ex_doc') = lex (ser_forest ex_doc)
  /\ exists e, into_struct_bytes (ser_forest ex_doc) = Ok e.
Proof.
  split; [vm_compute; reflexivity|]. split; [vm_compute; reflexivity|].
  split; [vm_compute; reflexivity|]. split; [vm_compute; discriminate|].
  split; [vm_compute; reflexivity|]. eexists. vm_compute. reflexivity.
Qed.

(* ---------- the bridge for every theorem that starts from `run_dom docs = Some e` ---------- *)
Theorem bytes_run_iff : forall docs e, forallb bdoc_ok docs = true ->
  (run_bytes (map ser_forest docs) = Ok e <-> run_dom (map abs_doc docs) = Some e).
Proof.
  intros docs e H. rewrite (bytes_run_ser docs H).
  destruct (run_dom (map abs_doc docs)) as [x|]; cbn [of_opt]; split; intros E;
    try discriminate; now inversion E.
Qed.

(* C06 from bytes: the order of the written documents, and a document supplied a second time *)
Theorem bytes_C06_order : forall docs docs' m,
  forallb bdoc_ok docs = true -> forallb bdoc_ok docs' = true ->
  docs <> [] -> Forall (Forall wf_node) (map abs_doc docs) ->
  Forall (fun p => elem_names p = [m]) (map abs_doc docs) ->
  Permutation.Permutation docs docs' ->
  exists e e', run_bytes (map ser_forest docs) = Ok e /\ run_bytes (map ser_forest docs') = Ok e'
               /\ same_schema e e'.
Proof.
  intros docs docs' m H H' Hne Hw Hm Hp.
  destruct (UnionProofs.run_dom_order (map abs_doc docs) (map abs_doc docs') m) as (e & e' & E & E' & S); auto.
  - destruct docs; [congruence|discriminate].
  - now apply Permutation.Permutation_map.
  - exists e, e'. rewrite (bytes_run_ser docs H), (bytes_run_ser docs' H'), E, E'. auto.
Qed.

Theorem bytes_C06_idem : forall docs d m,
  forallb bdoc_ok docs = true ->
  docs <> [] -> Forall (Forall wf_node) (map abs_doc docs) ->
  Forall (fun p => elem_names p = [m]) (map abs_doc docs) ->
  In d docs ->
  exists e e', run_bytes (map ser_forest docs) = Ok e /\ run_bytes (map ser_forest (docs ++ [d])) = Ok e'
               /\ same_schema e e'.
Proof.
  intros docs d m H Hne Hw Hm Hin.
  destruct (UnionProofs.run_dom_idem (map abs_doc docs) (abs_doc d) m) as (e & e' & E & E' & S); auto.
  - destruct docs; [congruence|discriminate].
  - now apply in_map.
  - assert (Hd : forallb bdoc_ok (docs ++ [d]) = true).
    { rewrite forallb_app, H. cbn [forallb andb]. rewrite forallb_forall in H. now rewrite (H d Hin). }
    exists e, e'. rewrite (bytes_run_ser docs H), (bytes_run_ser _ Hd), map_app, E. cbn [map].
    rewrite E'. auto.
Qed.

(* C01 from bytes: the tree inferred from the written documents admits every one of them *)
Theorem bytes_C01_tree_admits : forall docs m e,
  forallb bdoc_ok docs = true ->
  docs <> [] -> Forall (Forall wf_node) (map abs_doc docs) ->
  Forall (fun p => elem_names p = [m]) (map abs_doc docs) ->
  run_bytes (map ser_forest docs) = Ok e ->
  forall d r, In d docs -> doc_root (abs_doc d) = Some r -> TreeAdmits e r.
Proof.
  intros docs m e H Hne Hw Hm He d r Hin Hr.
  apply (bytes_run_iff docs e H) in He.
  apply (AdmitProofs.tree_admits (map abs_doc docs) m e) with (d := abs_doc d); auto.
  - destruct docs; [congruence|discriminate].
  - now apply in_map.
Qed.

(* C09 from bytes: attributes and children in order of first appearance in the written documents *)
Theorem bytes_C09_first_appearance : forall docs e,
  forallb bdoc_ok docs = true ->
  docs_ok (map abs_doc docs) = true -> Forall (Forall wf_node) (map abs_doc docs) ->
  run_bytes (map ser_forest docs) = Ok e ->
  forall p x, node_at e p = Some x ->
    map snd (eattrs (snd x)) = dedup (flat_map oattrs (occs p (doc_roots (map abs_doc docs))))
    /\ map cname (isort by_pos (echildren (snd x)))
       = dedup (flat_map okidnames (occs p (doc_roots (map abs_doc docs)))).
Proof.
  intros docs e H Hd Hw He p x Hx. apply (bytes_run_iff docs e H) in He. split.
  - now apply (C09_first_appearance_attrs_l (map abs_doc docs) e).
  - now apply (C09_first_appearance_children_l (map abs_doc docs) e).
Qed.
