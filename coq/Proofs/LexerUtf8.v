(* UTF-8: the encoder (what every XML writer does to a string) and `String::from_utf8` of the
   lexer model are inverse on Unicode scalar values. *)
From XSG.Model Require Import Strings Necessity Element Parser Lexer.
From Coq Require Import Lia ZArith.
Ltac Zify.zify_post_hook ::= Z.to_euclidean_division_equations.

Definition utf8_enc1 (c : N) : list byte :=
  if c <? 128 then [c]
  else if c <? 2048 then [192 + c / 64; 128 + c mod 64]
  else if c <? 65536 then [224 + c / 4096; 128 + (c / 64) mod 64; 128 + c mod 64]
  else [240 + c / 262144; 128 + (c / 4096) mod 64; 128 + (c / 64) mod 64; 128 + c mod 64].
Definition utf8_encode (x : str) : list byte := flat_map utf8_enc1 x.
Definition scalar (c : N) : bool := (c <? 55296) || ((57343 <? c) && (c <? 1114112)).

Lemma in_rng_true lo hi b : lo <= b -> b <= hi -> in_rng lo hi b = true.
Proof. intros. unfold in_rng. apply andb_true_intro. split; now apply N.leb_le. Qed.
Lemma in_rng_false lo hi b : b < lo \/ hi < b -> in_rng lo hi b = false.
Proof. intros [H|H]; unfold in_rng; apply andb_false_iff; [left|right]; now apply N.leb_gt. Qed.
Lemma cont_true b : 128 <= b -> b <= 191 -> cont b = true.
Proof. intros. unfold cont. apply andb_true_intro. split; now apply N.leb_le. Qed.
Lemma ltb_false a b : b <= a -> (a <? b) = false.
Proof. intros. now apply N.ltb_ge. Qed.
Lemma eqb_false a b : a <> b -> (a =? b) = false.
Proof. intros. now apply N.eqb_neq. Qed.

Lemma decode_enc1 c rest : scalar c = true ->
  utf8_decode (utf8_enc1 c ++ rest) = option_map (cons c) (utf8_decode rest).
Proof.
  intros Hs. unfold scalar in Hs. unfold utf8_enc1.
  destruct (N.ltb_spec c 128) as [H1|H1].
  - cbn [app utf8_decode]. apply N.ltb_lt in H1. now rewrite H1.
  - destruct (N.ltb_spec c 2048) as [H2|H2].
    + cbn [app utf8_decode].
      rewrite (ltb_false (192 + c / 64) 128) by lia.
      rewrite (in_rng_true 194 223) by lia.
      rewrite (cont_true (128 + c mod 64)) by lia.
      replace ((192 + c / 64 - 192) * 64 + (128 + c mod 64 - 128)) with c by lia. reflexivity.
    + destruct (N.ltb_spec c 65536) as [H3|H3].
      * cbn [app utf8_decode].
        rewrite (ltb_false (224 + c / 4096) 128) by lia.
        rewrite (in_rng_false 194 223) by lia.
        rewrite (in_rng_true 224 239) by lia.
        assert (Hok : (if 224 + c / 4096 =? 224 then in_rng 160 191 (128 + (c / 64) mod 64)
                       else if 224 + c / 4096 =? 237 then in_rng 128 159 (128 + (c / 64) mod 64)
                       else cont (128 + (c / 64) mod 64)) = true).
        { destruct (N.eqb_spec (224 + c / 4096) 224) as [E|E].
          - apply in_rng_true; lia.
          - destruct (N.eqb_spec (224 + c / 4096) 237) as [E2|E2].
            + apply in_rng_true; [lia|].
              apply orb_prop in Hs. destruct Hs as [Hs|Hs].
              * apply N.ltb_lt in Hs. lia.
              * apply andb_prop in Hs. destruct Hs as [Hs _]. apply N.ltb_lt in Hs. lia.
            + apply cont_true; lia. }
        rewrite Hok. rewrite (cont_true (128 + c mod 64)) by lia. cbn [andb].
        replace ((224 + c / 4096 - 224) * 4096 + (128 + (c / 64) mod 64 - 128) * 64 + (128 + c mod 64 - 128))
          with c by lia. reflexivity.
      * assert (Hc : c < 1114112).
        { apply orb_prop in Hs. destruct Hs as [Hs|Hs].
          - apply N.ltb_lt in Hs. lia.
          - apply andb_prop in Hs. destruct Hs as [_ Hs]. now apply N.ltb_lt in Hs. }
        cbn [app utf8_decode].
        rewrite (ltb_false (240 + c / 262144) 128) by lia.
        rewrite (in_rng_false 194 223) by lia.
        rewrite (in_rng_false 224 239) by lia.
        rewrite (in_rng_true 240 244) by lia.
        assert (Hok : (if 240 + c / 262144 =? 240 then in_rng 144 191 (128 + (c / 4096) mod 64)
                       else if 240 + c / 262144 =? 244 then in_rng 128 143 (128 + (c / 4096) mod 64)
                       else cont (128 + (c / 4096) mod 64)) = true).
        { destruct (N.eqb_spec (240 + c / 262144) 240) as [E|E].
          - apply in_rng_true; lia.
          - destruct (N.eqb_spec (240 + c / 262144) 244) as [E2|E2].
            + apply in_rng_true; lia.
            + apply cont_true; lia. }
        rewrite Hok. rewrite (cont_true (128 + (c / 64) mod 64)) by lia.
        rewrite (cont_true (128 + c mod 64)) by lia. cbn [andb].
        replace ((240 + c / 262144 - 240) * 262144 + (128 + (c / 4096) mod 64 - 128) * 4096
                 + (128 + (c / 64) mod 64 - 128) * 64 + (128 + c mod 64 - 128)) with c by lia.
        reflexivity.
Qed.

Theorem utf8_decode_encode : forall x, forallb scalar x = true -> utf8_decode (utf8_encode x) = Some x.
Proof.
  induction x as [|c x IH]; intros H; [reflexivity|].
  cbn [forallb] in H. apply andb_prop in H. destruct H as [Hc Hx].
  cbn [utf8_encode flat_map]. rewrite (decode_enc1 c _ Hc). fold (utf8_encode x). now rewrite (IH Hx).
Qed.

(* bytes of a non-ASCII character are >= 128; an ASCII character is its own byte *)
Lemma enc1_ascii c : c < 128 -> utf8_enc1 c = [c].
Proof. intros H. unfold utf8_enc1. apply N.ltb_lt in H. now rewrite H. Qed.
Lemma enc1_high c b : 128 <= c -> c < 1114112 -> In b (utf8_enc1 c) -> 128 <= b.
Proof.
  intros H Hc. unfold utf8_enc1. rewrite (ltb_false c 128) by lia.
  destruct (N.ltb_spec c 2048); [|destruct (N.ltb_spec c 65536)]; cbn [In];
    intros Hin; repeat (destruct Hin as [<-|Hin]; [lia|]); destruct Hin.
Qed.
Lemma enc1_nonempty c : utf8_enc1 c <> [].
Proof.
  unfold utf8_enc1. destruct (c <? 128); [discriminate|]. destruct (c <? 2048); [discriminate|].
  destruct (c <? 65536); discriminate.
Qed.
Lemma scalar_lt c : scalar c = true -> c < 1114112.
Proof.
  unfold scalar. intros Hs. apply orb_prop in Hs. destruct Hs as [Hs|Hs].
  - apply N.ltb_lt in Hs. lia.
  - apply andb_prop in Hs. destruct Hs as [_ Hs]. now apply N.ltb_lt in Hs.
Qed.

Lemma utf8_encode_inj a b : forallb scalar a = true -> forallb scalar b = true ->
  utf8_encode a = utf8_encode b -> a = b.
Proof.
  intros Ha Hb E. apply (f_equal utf8_decode) in E.
  rewrite (utf8_decode_encode a Ha), (utf8_decode_encode b Hb) in E. now inversion E.
Qed.
