(* Basic facts about Element and its public operations: lookup / removal / insertion by
   name, the uniqueness invariant Uniq, and its preservation.  Shared by C03, C11, C16, C04. *)
From XSG.Model Require Import Strings Necessity Element.
From XSG.Proofs Require Import StringsProofs NecessityProofs.
From Coq Require Import Lia Permutation.

Definition cname (c : nec * element) : str := ename (snd c).
Definition child_names (l : list (nec * element)) : list str := map cname l.

(* ---------- nested induction principle ---------- *)
Section ElementInd.
  Context (P : element -> Prop)
          (H : forall n t x k a ch p, Forall (fun c => P (snd c)) ch -> P (Elem n t x k a ch p)).
  Fixpoint element_ind' (e : element) : P e :=
    match e with
    | Elem n t x k a ch p =>
        H n t x k a ch p
          ((fix go (l : list (nec * element)) : Forall (fun c => P (snd c)) l :=
              match l with
              | [] => Forall_nil _
              | c :: r => Forall_cons c (element_ind' (snd c)) (go r)
              end) ch)
    end.
End ElementInd.

(* ---------- the invariant: names unique under every parent, attribute names unique ---------- *)
Inductive Uniq : element -> Prop :=
| Uniq_intro : forall n t x k a ch p,
    NoDup (map snd a) -> NoDup (child_names ch) -> Forall (fun c => Uniq (snd c)) ch ->
    Uniq (Elem n t x k a ch p).

Lemma Uniq_inv e : Uniq e ->
  NoDup (map snd (eattrs e)) /\ NoDup (child_names (echildren e)) /\ Forall (fun c => Uniq (snd c)) (echildren e).
Proof. intros H; inversion H; subst; simpl; auto. Qed.
Lemma Uniq_make e :
  NoDup (map snd (eattrs e)) -> NoDup (child_names (echildren e)) ->
  Forall (fun c => Uniq (snd c)) (echildren e) -> Uniq e.
Proof. destruct e; simpl; intros; constructor; auto. Qed.

(* ---------- field accessors under the setters ---------- *)
Lemma ename_set_children e c : ename (set_children e c) = ename e. Proof. now destruct e. Qed.
Lemma echildren_set_children e c : echildren (set_children e c) = c. Proof. now destruct e. Qed.
Lemma eattrs_set_children e c : eattrs (set_children e c) = eattrs e. Proof. now destruct e. Qed.
Lemma ename_set_pos e p : ename (set_pos e p) = ename e. Proof. now destruct e. Qed.
Lemma echildren_set_pos e p : echildren (set_pos e p) = echildren e. Proof. now destruct e. Qed.
Lemma eattrs_set_pos e p : eattrs (set_pos e p) = eattrs e. Proof. now destruct e. Qed.
Lemma ename_set_text e b : ename (set_text e b) = ename e. Proof. now destruct e. Qed.
Lemma echildren_set_text e b : echildren (set_text e b) = echildren e. Proof. now destruct e. Qed.
Lemma eattrs_set_text e b : eattrs (set_text e b) = eattrs e. Proof. now destruct e. Qed.
Lemma ename_set_multiple e : ename (set_multiple e) = ename e. Proof. now destruct e. Qed.
Lemma echildren_set_multiple e : echildren (set_multiple e) = echildren e. Proof. now destruct e. Qed.
Lemma eattrs_set_multiple e : eattrs (set_multiple e) = eattrs e. Proof. now destruct e. Qed.
Lemma ename_increment e : ename (increment e) = ename e. Proof. now destruct e. Qed.
Lemma echildren_increment e : echildren (increment e) = echildren e. Proof. now destruct e. Qed.
Lemma eattrs_increment e : eattrs (increment e) = eattrs e. Proof. now destruct e. Qed.
Lemma ename_merge_attr e l : ename (merge_attr e l) = ename e. Proof. now destruct e. Qed.
Lemma echildren_merge_attr e l : echildren (merge_attr e l) = echildren e. Proof. now destruct e. Qed.
Lemma eattrs_merge_attr e l : eattrs (merge_attr e l) = merge_necessity str_eqb (eattrs e) l.
Proof. now destruct e. Qed.

Lemma Uniq_set_pos e p : Uniq e -> Uniq (set_pos e p).
Proof. intros H; inversion H; subst; simpl; constructor; auto. Qed.
Lemma Uniq_set_text e b : Uniq e -> Uniq (set_text e b).
Proof. intros H; inversion H; subst; simpl; constructor; auto. Qed.
Lemma Uniq_set_multiple e : Uniq e -> Uniq (set_multiple e).
Proof. intros H; inversion H; subst; simpl; constructor; auto. Qed.
Lemma Uniq_increment e : Uniq e -> Uniq (increment e).
Proof. intros H; inversion H; subst; simpl; constructor; auto. Qed.
Lemma Uniq_set_count e k : Uniq e -> Uniq (set_count e k).
Proof. intros H; inversion H; subst; simpl; constructor; auto. Qed.
Lemma Uniq_set_children e c :
  Uniq e -> NoDup (child_names c) -> Forall (fun x => Uniq (snd x)) c -> Uniq (set_children e c).
Proof. intros H; inversion H; subst; simpl; constructor; auto. Qed.

(* ---------- get_child ---------- *)
Lemma get_child_some l n c : get_child l n = Some c -> In c l /\ cname c = n.
Proof.
  induction l as [|d l IH]; simpl; [discriminate|].
  destruct (str_eqb_spec (ename (snd d)) n) as [E|E].
  - intros [= <-]. auto.
  - intros H. destruct (IH H). auto.
Qed.
Lemma get_child_none l n : get_child l n = None <-> ~ In n (child_names l).
Proof.
  unfold child_names, cname. induction l as [|d l IH]; simpl; [tauto|].
  destruct (str_eqb_spec (ename (snd d)) n) as [E|E].
  - split; [discriminate|]. intros H; exfalso; apply H; auto.
  - rewrite IH. tauto.
Qed.
Lemma get_child_in_nodup l c :
  NoDup (child_names l) -> In c l -> get_child l (cname c) = Some c.
Proof.
  induction l as [|d l IH]; simpl; [tauto|].
  intros Hnd [->|Hin]; inversion Hnd as [|? ? Hd Hl]; subst.
  - unfold cname. now rewrite str_eqb_refl.
  - destruct (str_eqb_spec (ename (snd d)) (cname c)) as [E|E]; [|auto].
    exfalso. apply Hd. unfold child_names, cname in *. rewrite E. apply in_map_iff. exists c; auto.
Qed.
Lemma get_child_app l1 l2 n :
  get_child (l1 ++ l2) n = match get_child l1 n with Some c => Some c | None => get_child l2 n end.
Proof. induction l1 as [|d l1 IH]; simpl; auto. destruct (str_eqb _ _); auto. Qed.

(* ---------- remove_child ---------- *)
Fixpoint remove_first (n : str) (l : list str) : list str :=
  match l with [] => [] | x :: r => if str_eqb x n then r else x :: remove_first n r end.

Lemma remove_child_fst l n : fst (remove_child l n) = get_child l n.
Proof.
  induction l as [|d l IH]; simpl; auto.
  destruct (str_eqb _ _); simpl; auto.
  destruct (remove_child l n) as [f r]; simpl in *; auto.
Qed.
Lemma remove_child_names l n : child_names (snd (remove_child l n)) = remove_first n (child_names l).
Proof.
  unfold child_names, cname. induction l as [|d l IH]; simpl; auto.
  destruct (str_eqb _ _); simpl; auto.
  destruct (remove_child l n) as [f r]; simpl in *. now rewrite IH.
Qed.
Lemma remove_child_none l n : get_child l n = None -> snd (remove_child l n) = l.
Proof.
  induction l as [|d l IH]; simpl; auto.
  destruct (str_eqb _ _); [discriminate|]. intros H.
  destruct (remove_child l n) as [f r]; simpl in *. now rewrite IH.
Qed.
Lemma remove_child_incl l n c : In c (snd (remove_child l n)) -> In c l.
Proof.
  induction l as [|d l IH]; simpl; auto.
  destruct (str_eqb _ _); simpl; auto.
  destruct (remove_child l n) as [f r]; simpl in *. intros [H|H]; auto.
Qed.
Lemma remove_first_incl n l x : In x (remove_first n l) -> In x l.
Proof. induction l as [|y l IH]; simpl; auto. destruct (str_eqb y n); simpl; intuition. Qed.
Lemma remove_first_nodup n l : NoDup l -> NoDup (remove_first n l).
Proof.
  induction l as [|y l IH]; simpl; auto. intros H; inversion H; subst.
  destruct (str_eqb y n); auto. constructor; auto. intros Hc. apply remove_first_incl in Hc. tauto.
Qed.
Lemma remove_first_notin n l : NoDup l -> ~ In n (remove_first n l).
Proof.
  induction l as [|y l IH]; simpl; auto. intros H; inversion H; subst.
  destruct (str_eqb_spec y n) as [E|E]; [subst; auto|].
  simpl. intros [Hc|Hc]; [congruence|]. now apply IH.
Qed.
Lemma remove_first_other n m l : m <> n -> In m l -> In m (remove_first n l).
Proof.
  induction l as [|y l IH]; simpl; auto. intros Hne [->|Hin].
  - destruct (str_eqb_spec m n); [congruence|]. simpl; auto.
  - destruct (str_eqb y n); simpl; auto.
Qed.
Lemma remove_first_absent n l : ~ In n l -> remove_first n l = l.
Proof.
  induction l as [|y l IH]; simpl; auto. intros H.
  destruct (str_eqb_spec y n); [subst; tauto|]. f_equal. tauto.
Qed.
Lemma remove_child_nodup l n : NoDup (child_names l) -> NoDup (child_names (snd (remove_child l n))).
Proof. intros. rewrite remove_child_names. now apply remove_first_nodup. Qed.
Lemma remove_child_absent l n :
  NoDup (child_names l) -> get_child (snd (remove_child l n)) n = None.
Proof. intros. apply get_child_none. rewrite remove_child_names. now apply remove_first_notin. Qed.
Lemma get_child_remove_other l n m :
  m <> n -> get_child (snd (remove_child l n)) m = get_child l m.
Proof.
  intros Hne. induction l as [|d l IH]; simpl; auto.
  destruct (str_eqb_spec (ename (snd d)) n) as [E|E]; simpl.
  - destruct (str_eqb_spec (ename (snd d)) m); [congruence|auto].
  - destruct (remove_child l n) as [f r]; simpl in *.
    destruct (str_eqb (ename (snd d)) m); auto.
Qed.
Lemma remove_child_Forall (P : nec * element -> Prop) l n :
  Forall P l -> Forall P (snd (remove_child l n)).
Proof.
  intros H. apply Forall_forall. intros c Hc. apply remove_child_incl in Hc.
  rewrite Forall_forall in H. auto.
Qed.
Lemma remove_child_perm l n c :
  get_child l n = Some c -> Permutation l (c :: snd (remove_child l n)).
Proof.
  induction l as [|d l IH]; simpl; [discriminate|].
  destruct (str_eqb _ _); simpl.
  - intros [= <-]. apply Permutation_refl.
  - intros H. destruct (remove_child l n) as [f r]; simpl in *.
    eapply perm_trans; [apply perm_skip, IH, H|]. apply perm_swap.
Qed.

(* ---------- add_unique_elem / add_unique_child / set_child_optional ---------- *)
Lemma add_unique_elem_fresh l c :
  ~ In (cname c) (child_names l) -> add_unique_elem l c = l ++ [c].
Proof.
  intros H. unfold add_unique_elem.
  replace (existsb (child_eqb c) l) with false; auto.
  symmetry. apply not_true_is_false. intros Hex. apply existsb_exists in Hex.
  destruct Hex as [d [Hd He]]. apply H. unfold child_eqb in He.
  apply andb_true_iff in He. destruct He as [_ He]. apply str_eqb_eq in He.
  unfold cname. rewrite He. apply in_map_iff. exists d; auto.
Qed.

Lemma add_unique_child_present e c x :
  get_child (echildren e) (ename c) = Some x -> add_unique_child e c = e.
Proof. unfold add_unique_child. now intros ->. Qed.

Definition with_pos (e c : element) : element :=
  match epos c with None => set_pos c (Some (List.length (echildren e))) | Some _ => c end.
Lemma ename_with_pos e c : ename (with_pos e c) = ename c.
Proof. unfold with_pos. destruct (epos c); auto. apply ename_set_pos. Qed.

Lemma add_unique_child_fresh e c :
  get_child (echildren e) (ename c) = None ->
  add_unique_child e c = set_children e (echildren e ++ [(Mand, with_pos e c)]).
Proof.
  intros H. unfold add_unique_child. rewrite H. fold (with_pos e c).
  rewrite add_unique_elem_fresh; auto.
  apply get_child_none in H. unfold cname. simpl. now rewrite ename_with_pos.
Qed.

Lemma set_child_optional_absent e n :
  get_child (echildren e) n = None -> set_child_optional e n = e.
Proof.
  intros H. unfold set_child_optional.
  pose proof (remove_child_fst (echildren e) n) as F. rewrite H in F.
  destruct (remove_child (echildren e) n) as [f r]; simpl in F. now subst.
Qed.
Lemma set_child_optional_present e n c :
  NoDup (child_names (echildren e)) -> get_child (echildren e) n = Some c ->
  set_child_optional e n
  = set_children e (snd (remove_child (echildren e) n) ++ [(Opt, snd c)]).
Proof.
  intros Hnd H. unfold set_child_optional.
  pose proof (remove_child_fst (echildren e) n) as F. rewrite H in F.
  pose proof (remove_child_names (echildren e) n) as Nm.
  destruct (remove_child (echildren e) n) as [f r]; simpl in *. subst f.
  rewrite add_unique_elem_fresh; auto.
  unfold cname; simpl. destruct (get_child_some _ _ _ H) as [_ E]. unfold cname in E. rewrite E.
  rewrite Nm. now apply remove_first_notin.
Qed.

Lemma child_names_app a b : child_names (a ++ b) = child_names a ++ child_names b.
Proof. apply map_app. Qed.

Lemma nodup_snoc (l : list str) x : NoDup l -> ~ In x l -> NoDup (l ++ [x]).
Proof.
  intros Hl Hx. apply NoDup_rev in Hl. rewrite <- (rev_involutive (l ++ [x])).
  apply NoDup_rev. rewrite rev_app_distr. simpl. constructor; auto.
  now rewrite <- in_rev.
Qed.

Lemma Uniq_add_unique_child e c : Uniq e -> Uniq c -> Uniq (add_unique_child e c).
Proof.
  intros He Hc. destruct (get_child (echildren e) (ename c)) eqn:G.
  - now rewrite (add_unique_child_present _ _ _ G).
  - rewrite (add_unique_child_fresh _ _ G).
    destruct (Uniq_inv _ He) as (Ha & Hn & Hf).
    apply Uniq_set_children; auto.
    + rewrite child_names_app. simpl. apply nodup_snoc; auto.
      unfold cname; simpl. rewrite ename_with_pos. now apply get_child_none.
    + apply Forall_app. split; auto. constructor; auto. simpl.
      unfold with_pos. destruct (epos c); auto. now apply Uniq_set_pos.
Qed.

Lemma Uniq_set_child_optional e n : Uniq e -> Uniq (set_child_optional e n).
Proof.
  intros He. destruct (Uniq_inv _ He) as (Ha & Hn & Hf).
  destruct (get_child (echildren e) n) as [c|] eqn:G.
  - rewrite (set_child_optional_present _ _ _ Hn G).
    destruct (get_child_some _ _ _ G) as [Hin Hc].
    apply Uniq_set_children; auto.
    + rewrite child_names_app. simpl. apply nodup_snoc.
      * now apply remove_child_nodup.
      * unfold cname at 1; simpl. unfold cname in Hc. rewrite Hc.
        rewrite remove_child_names. now apply remove_first_notin.
    + apply Forall_app. split; [now apply remove_child_Forall|].
      constructor; auto. simpl. rewrite Forall_forall in Hf. now apply (Hf c).
  - now rewrite (set_child_optional_absent _ _ G).
Qed.

(* ---------- merge_necessity keeps attribute names unique, whatever the second list ---------- *)
Lemma merge_second_nodup_any (res o : list (nec * str)) :
  NoDup (map snd res) -> NoDup (map snd (merge_second str_eqb res o)).
Proof.
  revert res. induction o as [|[t y] o IH]; intros res H; simpl; auto.
  destruct (find_nec str_eqb y res) eqn:F; auto.
  apply IH. rewrite map_app. simpl. apply nodup_snoc; auto.
  apply (find_nec_none str_eqb str_eqb_spec) in F. exact F.
Qed.
Lemma merge_nodup_any (v o : list (nec * str)) :
  NoDup (map snd v) -> NoDup (map snd (merge_necessity str_eqb v o)).
Proof.
  intros H. unfold merge_necessity. apply merge_second_nodup_any.
  change (map snd (merge_first str_eqb v o)) with (items (merge_first str_eqb v o)).
  now rewrite items_merge_first.
Qed.
Lemma Uniq_merge_attr e l : Uniq e -> Uniq (merge_attr e l).
Proof.
  intros H. inversion H; subst. simpl. constructor; auto. now apply merge_nodup_any.
Qed.

(* ---------- Element::new ---------- *)
Lemma add_unique_attr_names (l : list (nec * str)) x :
  Forall (fun a => fst a = Mand) l ->
  NoDup (map snd l) ->
  NoDup (map snd (add_unique_attr l (Mand, x)))
  /\ Forall (fun a => fst a = Mand) (add_unique_attr l (Mand, x))
  /\ (forall y, In y (map snd (add_unique_attr l (Mand, x))) <-> In y (map snd l) \/ y = x).
Proof.
  intros Hm Hnd. unfold add_unique_attr.
  destruct (existsb (attr_eqb (Mand, x)) l) eqn:E.
  - split; auto. split; auto. intros y. split; auto. intros [H| ->]; auto.
    apply existsb_exists in E. destruct E as [a [Ha He]]. unfold attr_eqb in He. simpl in He.
    apply andb_true_iff in He. destruct He as [_ He]. apply str_eqb_eq in He. subst.
    apply in_map_iff. exists a; auto.
  - assert (Hx : ~ In x (map snd l)).
    { intros Hin. apply in_map_iff in Hin. destruct Hin as [a [Ea Ha]].
      assert (existsb (attr_eqb (Mand, x)) l = true); [|congruence].
      apply existsb_exists. exists a. split; auto. unfold attr_eqb. simpl.
      rewrite Forall_forall in Hm. rewrite (Hm a Ha). simpl. subst. apply str_eqb_refl. }
    split; [|split].
    + rewrite map_app. simpl. now apply nodup_snoc.
    + apply Forall_app. split; auto.
    + intros y. rewrite map_app, in_app_iff. simpl. intuition.
Qed.
Lemma new_element_attrs_aux (a : list str) : forall acc,
  Forall (fun x => fst x = Mand) acc -> NoDup (map snd acc) ->
  let r := fold_left (fun acc x => add_unique_attr acc (Mand, x)) a acc in
  NoDup (map snd r) /\ Forall (fun x => fst x = Mand) r
  /\ (forall y, In y (map snd r) <-> In y (map snd acc) \/ In y a).
Proof.
  induction a as [|x a IH]; intros acc Hm Hnd; simpl.
  - split; auto. split; auto. intros; tauto.
  - destruct (add_unique_attr_names acc x Hm Hnd) as (H1 & H2 & H3).
    destruct (IH _ H2 H1) as (I1 & I2 & I3). split; auto. split; auto.
    intros y. rewrite I3, H3. intuition.
Qed.
Lemma Uniq_new_element n a : Uniq (new_element n a).
Proof.
  unfold new_element. constructor; [|constructor|constructor].
  apply (new_element_attrs_aux a []); constructor.
Qed.
Lemma new_element_attr_names n a y :
  In y (map snd (eattrs (new_element n a))) <-> In y a.
Proof.
  unfold new_element; simpl.
  destruct (new_element_attrs_aux a [] (Forall_nil _) (NoDup_nil _)) as (_ & _ & H).
  rewrite H. simpl. tauto.
Qed.
Lemma new_element_attrs_nodup n a :
  NoDup a -> eattrs (new_element n a) = map (fun x => (Mand, x)) a.
Proof.
  unfold new_element; simpl. intros Hnd.
  enough (G : forall acc, (forall x, In x a -> ~ In x (map snd acc)) -> Forall (fun x => fst x = Mand) acc ->
            fold_left (fun acc x => add_unique_attr acc (Mand, x)) a acc = acc ++ map (fun x => (Mand, x)) a).
  { apply (G []); auto. }
  induction a as [|x a IH]; intros acc Hd Hm; simpl; [now rewrite app_nil_r|].
  inversion Hnd as [|? ? Hx Ha]; subst.
  assert (E : add_unique_attr acc (Mand, x) = acc ++ [(Mand, x)]).
  { unfold add_unique_attr. destruct (existsb (attr_eqb (Mand, x)) acc) eqn:E; auto.
    apply existsb_exists in E. destruct E as [b [Hb He]]. unfold attr_eqb in He. simpl in He.
    apply andb_true_iff in He. destruct He as [_ He]. apply str_eqb_eq in He.
    exfalso. apply (Hd x); simpl; auto. apply in_map_iff. exists b; auto. }
  rewrite E. rewrite IH; auto.
  - now rewrite <- app_assoc.
  - intros y Hy. rewrite map_app, in_app_iff. simpl. intros [H|[H|H]]; [| |destruct H].
    + apply (Hd y); simpl; auto.
    + subst. tauto.
  - apply Forall_app; auto.
Qed.
