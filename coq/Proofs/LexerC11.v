(* C11 at byte level, end to end: a comment written where character data may stand does not change
   what the library infers from the bytes.  Three steps: (1) events of kind EMisc can be dropped
   from any stream (event level, every stream); (2) the lexer's behaviour does not depend on the
   offset except in the position of an error; (3) Proofs/LexerProofs.run_comment. *)
From XSG.Model Require Import Strings Necessity Element Parser Dom Lexer.
From XSG.Proofs Require Import StringsProofs NecessityProofs ElementProofs ParserTotal SkelProofs
  ParserFaults LexerProofs.
From Coq Require Import String Lia.

(* ---------- (1) dropping EMisc ---------- *)
Definition is_misc (ev : event) : bool := match ev with EMisc => true | _ => false end.
Definition drop_misc (evs : list event) : list event := filter (fun ev => negb (is_misc ev)) evs.

Lemma drop_misc_length evs : (List.length (drop_misc evs) <= List.length evs)%nat.
Proof. induction evs as [|e l IH]; [auto|]. unfold drop_misc in *. cbn [filter]. destruct (negb _); cbn [List.length]; lia. Qed.
Lemma drop_misc_app a b : drop_misc (a ++ b) = drop_misc a ++ drop_misc b.
Proof. unfold drop_misc. apply filter_app. Qed.

Theorem drop_misc_build_struct f : forall evs root known,
  (List.length evs < f)%nat ->
  build_struct f (drop_misc evs) root known = map_rest drop_misc (build_struct f evs root known).
Proof.
  induction f as [|f IH]; intros evs root known Hlen; [lia|].
  destruct evs as [|ev evs]; [reflexivity|].
  cbn [List.length] in Hlen.
  destruct ev as [n attrs|n attrs| |t|t| |p id];
    try (change (drop_misc (?e :: evs)) with (e :: drop_misc evs)).
  - rewrite !build_struct_S. unfold tag_step.
    destruct n as [name|id]; [|reflexivity].
    destruct (attr_keys attrs) as [e|keys]; [reflexivity|].
    rewrite IH by lia.
    destruct (build_struct f evs (open_c0 root name keys known) []) as [[child rest']|e|] eqn:Hs;
      try reflexivity.
    cbn [map_rest]. apply IH.
    apply build_struct_suffix in Hs. destruct Hs as [pre ->]. rewrite app_length in Hlen. lia.
  - rewrite !build_struct_S. unfold tag_step.
    destruct n as [name|id]; [|reflexivity].
    destruct (attr_keys attrs) as [e|keys]; [reflexivity|].
    apply IH. lia.
  - rewrite !build_struct_S. reflexivity.
  - rewrite !build_struct_S. destruct t as [u|id]; [|reflexivity]. apply IH; lia.
  - rewrite !build_struct_S. destruct t as [u|id]; [|reflexivity]. apply IH; lia.
  - change (drop_misc (EMisc :: evs)) with (drop_misc evs).
    rewrite (build_struct_S f (EMisc :: evs)). rewrite <- IH by lia.
    apply build_struct_fuel; pose proof (drop_misc_length evs); lia.
  - rewrite !build_struct_S. reflexivity.
Qed.

Theorem drop_misc_into_struct_ev evs : into_struct_ev (drop_misc evs) = into_struct_ev evs.
Proof.
  unfold into_struct_ev, fuel_for.
  rewrite <- (take_root_map_rest drop_misc (build_struct (S (List.length evs)) evs wrapper [])).
  rewrite <- drop_misc_build_struct by lia. f_equal.
  apply build_struct_fuel; pose proof (drop_misc_length evs); lia.
Qed.
Theorem drop_misc_extend_struct_ev root evs :
  extend_struct_ev root (drop_misc evs) = extend_struct_ev root evs.
Proof.
  unfold extend_struct_ev, fuel_for.
  rewrite <- (take_root_map_rest drop_misc
                (build_struct (S (List.length evs)) evs (add_unique_child wrapper root) [])).
  rewrite <- drop_misc_build_struct by lia. f_equal.
  apply build_struct_fuel; pose proof (drop_misc_length evs); lia.
Qed.

Corollary misc_anywhere_into_struct_ev a b :
  into_struct_ev (a ++ EMisc :: b) = into_struct_ev (a ++ b).
Proof.
  rewrite <- (drop_misc_into_struct_ev (a ++ EMisc :: b)), <- (drop_misc_into_struct_ev (a ++ b)).
  now rewrite !drop_misc_app.
Qed.
Corollary misc_anywhere_extend_struct_ev root a b :
  extend_struct_ev root (a ++ EMisc :: b) = extend_struct_ev root (a ++ b).
Proof.
  rewrite <- (drop_misc_extend_struct_ev root (a ++ EMisc :: b)),
          <- (drop_misc_extend_struct_ev root (a ++ b)).
  now rewrite !drop_misc_app.
Qed.

(* ---------- (2) the offset only shows in the position of an error ---------- *)
Definition erase_pos (ev : event) : event := match ev with EErr _ id => EErr 0 id | e => e end.
Definition no_reader_error (evs : list event) : bool :=
  forallb (fun ev => match ev with EErr _ _ => false | _ => true end) evs.

Definition same_mode (x y : lstate) : Prop := md x = md y /\ opened x = opened y.

Lemma close_tag_pos c p q op :
  snd (fst (close_tag c p op)) = snd (fst (close_tag c q op))
  /\ snd (close_tag c p op) = snd (close_tag c q op)
  /\ map erase_pos (fst (fst (close_tag c p op))) = map erase_pos (fst (fst (close_tag c q op))).
Proof.
  unfold close_tag. destruct c as [|b c']; [auto|].
  destruct (b =? B_slash).
  - destruct op as [|expected op']; [auto|]. destruct (bytes_eqb _ _); auto.
  - destruct (strip_slash _); auto.
Qed.
Lemma close_pi_pos c p q :
  snd (close_pi c p) = snd (close_pi c q)
  /\ map erase_pos (fst (close_pi c p)) = map erase_pos (fst (close_pi c q)).
Proof. unfold close_pi. destruct (rev c) as [|l [|? ?]]; auto. destruct (l =? B_q); auto. Qed.
Lemma close_comment_pos c p q :
  snd (close_comment c p) = snd (close_comment c q)
  /\ map erase_pos (fst (close_comment c p)) = map erase_pos (fst (close_comment c q)).
Proof. unfold close_comment. destruct (starts_with _ _); auto. Qed.
Lemma close_cdata_pos c p q :
  snd (close_cdata c p) = snd (close_cdata c q)
  /\ map erase_pos (fst (close_cdata c p)) = map erase_pos (fst (close_cdata c q)).
Proof. unfold close_cdata. destruct (starts_with _ _); auto. Qed.
Lemma close_doctype_pos c p q :
  snd (close_doctype c p) = snd (close_doctype c q)
  /\ map erase_pos (fst (close_doctype c p)) = map erase_pos (fst (close_doctype c q)).
Proof. unfold close_doctype. destruct (starts_with_uncased _ _); auto. destruct (drop_ws _); auto. Qed.

Lemma step_pos x y b :
  same_mode x y ->
  same_mode (fst (lex_step x b)) (fst (lex_step y b))
  /\ map erase_pos (snd (lex_step x b)) = map erase_pos (snd (lex_step y b)).
Proof.
  destruct x as [m p op], y as [m' q op']. unfold same_mode. cbn [md opened]. intros [<- <-].
  unfold lex_step. cbn [md pos opened].
  destruct m as [acc| |qt acc|acc| |acc|acc|bal acc|].
  - destruct (b =? B_lt); cbn [fst snd md opened st]; auto.
  - destruct (b =? B_bang); [cbn; auto|]. destruct (b =? B_q); [cbn; auto|].
    destruct (b =? B_gt); [|cbn; auto].
    pose proof (close_tag_pos [] (p + 1) (q + 1) op) as (H1 & H2 & H3).
    destruct (close_tag [] (p + 1) op) as [[e1 m1] o1], (close_tag [] (q + 1) op) as [[e2 m2] o2].
    cbn [fst snd md opened st] in *. subst. auto.
  - destruct qt; try (cbn; auto; fail).
    destruct (b =? B_gt); [|cbn; auto].
    pose proof (close_tag_pos (rev acc) (p + 1) (q + 1) op) as (H1 & H2 & H3).
    destruct (close_tag (rev acc) (p + 1) op) as [[e1 m1] o1], (close_tag (rev acc) (q + 1) op) as [[e2 m2] o2].
    cbn [fst snd md opened st] in *. subst. auto.
  - destruct acc as [|l acc']; [cbn; auto|].
    destruct ((b =? B_gt) && (l =? B_q))%bool; [|cbn; auto].
    pose proof (close_pi_pos (rev (l :: acc')) (p + 1) (q + 1)) as (H1 & H2).
    destruct (close_pi (rev (l :: acc')) (p + 1)) as [e1 m1], (close_pi (rev (l :: acc')) (q + 1)) as [e2 m2].
    cbn [fst snd md opened st] in *. subst. auto.
  - destruct (b =? B_lbr); [cbn; auto|]. destruct (b =? B_dash); [cbn; auto|].
    destruct ((b =? 68) || (b =? 100))%bool; cbn; auto.
  - destruct (b =? B_gt); [|cbn; auto].
    destruct acc as [|d1 [|d2 acc']]; try (cbn; auto; fail).
    destruct ((d1 =? B_dash) && (d2 =? B_dash) && (5 <=? List.length (d1 :: d2 :: acc'))%nat)%bool; [|cbn; auto].
    pose proof (close_comment_pos (rev (d1 :: d2 :: acc')) (p + 1) (q + 1)) as (H1 & H2).
    destruct (close_comment (rev (d1 :: d2 :: acc')) (p + 1)) as [e1 m1],
             (close_comment (rev (d1 :: d2 :: acc')) (q + 1)) as [e2 m2].
    cbn [fst snd md opened st] in *. subst. auto.
  - destruct (b =? B_gt); [|cbn; auto].
    destruct acc as [|d1 [|d2 acc']]; try (cbn; auto; fail).
    destruct ((d1 =? B_rbr) && (d2 =? B_rbr))%bool; [|cbn; auto].
    pose proof (close_cdata_pos (rev (d1 :: d2 :: acc')) (p + 1) (q + 1)) as (H1 & H2).
    destruct (close_cdata (rev (d1 :: d2 :: acc')) (p + 1)) as [e1 m1],
             (close_cdata (rev (d1 :: d2 :: acc')) (q + 1)) as [e2 m2].
    cbn [fst snd md opened st] in *. subst. auto.
  - destruct (b =? B_lt); [cbn; auto|]. destruct (b =? B_gt); [|cbn; auto].
    destruct (bal =? 0); [|cbn; auto].
    pose proof (close_doctype_pos (rev acc) (p + 1) (q + 1)) as (H1 & H2).
    destruct (close_doctype (rev acc) (p + 1)) as [e1 m1], (close_doctype (rev acc) (q + 1)) as [e2 m2].
    cbn [fst snd md opened st] in *. subst. auto.
  - cbn; auto.
Qed.

Lemma eof_pos x y : same_mode x y -> map erase_pos (lex_eof x) = map erase_pos (lex_eof y).
Proof.
  destruct x as [m p op], y as [m' q op']. unfold same_mode, lex_eof. cbn [md opened pos]. intros [<- _].
  destruct m as [[|? ?]| | | | | | | |]; reflexivity.
Qed.

Lemma lex_from_pos : forall bs x y,
  same_mode x y -> map erase_pos (lex_from x bs) = map erase_pos (lex_from y bs).
Proof.
  induction bs as [|b r IH]; intros x y H; cbn [lex_from].
  - now apply eof_pos.
  - destruct (step_pos x y b H) as [H1 H2].
    destruct (lex_step x b) as [x' e1], (lex_step y b) as [y' e2]. cbn [fst snd] in *.
    rewrite !map_app, H2. f_equal. now apply IH.
Qed.

Lemma erase_pos_eq : forall l1 l2,
  map erase_pos l1 = map erase_pos l2 -> no_reader_error l2 = true -> l1 = l2.
Proof.
  induction l1 as [|a l1 IH]; intros [|b l2] H Hn; try discriminate; [reflexivity|].
  cbn [map] in H. injection H as Hab Hl. cbn [no_reader_error forallb] in Hn.
  apply andb_prop in Hn. destruct Hn as [Hb Hn]. f_equal; [|now apply IH].
  destruct b; try discriminate Hb; destruct a; cbn [erase_pos] in Hab; congruence.
Qed.

Lemma no_reader_error_app a b :
  no_reader_error (a ++ b) = true -> no_reader_error b = true.
Proof. unfold no_reader_error. rewrite forallb_app. intros H. apply andb_prop in H. tauto. Qed.

(* ---------- (3) the comment ---------- *)
Theorem comment_irrelevant_events : forall a c b,
  no_gt c = true ->
  md (fst (lex_run lex_init a)) = MText [] ->
  no_reader_error (lex_from lex_init (a ++ b)) = true ->
  lex_from lex_init (a ++ (lit "<!--" ++ c ++ lit "-->") ++ b)
  = snd (lex_run lex_init a) ++ EMisc :: lex_from (fst (lex_run lex_init a)) b
  /\ lex_from lex_init (a ++ b) = snd (lex_run lex_init a) ++ lex_from (fst (lex_run lex_init a)) b.
Proof.
  intros a c b Hc Hm Hn.
  rewrite (lex_from_app a b) in *. split; [|reflexivity].
  rewrite lex_from_app. destruct (lex_run lex_init a) as [[m p op] ea]. cbn [fst snd md] in *. subst m.
  rewrite lex_from_app.
  change {| md := MText []; pos := p; opened := op |} with (st (MText []) p op) in *.
  rewrite (run_comment c p op Hc). cbn [fst snd app]. do 2 f_equal.
  apply erase_pos_eq; [|eapply no_reader_error_app; exact Hn].
  apply lex_from_pos. split; reflexivity.
Qed.

Theorem bytes_comment_irrelevant : forall a c b,
  no_gt c = true ->
  md (fst (lex_run lex_init a)) = MText [] ->
  no_reader_error (lex_from lex_init (a ++ b)) = true ->
  into_struct_ev (lex_from lex_init (a ++ (lit "<!--" ++ c ++ lit "-->") ++ b))
  = into_struct_ev (lex_from lex_init (a ++ b)).
Proof.
  intros a c b Hc Hm Hn. destruct (comment_irrelevant_events a c b Hc Hm Hn) as [-> ->].
  apply misc_anywhere_into_struct_ev.
Qed.
Theorem bytes_comment_irrelevant_extend : forall root a c b,
  no_gt c = true ->
  md (fst (lex_run lex_init a)) = MText [] ->
  no_reader_error (lex_from lex_init (a ++ b)) = true ->
  extend_struct_ev root (lex_from lex_init (a ++ (lit "<!--" ++ c ++ lit "-->") ++ b))
  = extend_struct_ev root (lex_from lex_init (a ++ b)).
Proof.
  intros root a c b Hc Hm Hn. destruct (comment_irrelevant_events a c b Hc Hm Hn) as [-> ->].
  apply misc_anywhere_extend_struct_ev.
Qed.

(* non-vacuity: a place inside a document, and the same result *)
Lemma example_comment_place :
  md (fst (lex_run lex_init (s "<a x='1'><b/>"))) = MText []
  /\ no_reader_error (lex_from lex_init (s "<a x='1'><b/>" ++ s "t<b/></a>")) = true
  /\ exists e, into_struct_ev (lex_from lex_init (s "<a x='1'><b/>" ++ s "<!-- note -->" ++ s "t<b/></a>")) = Ok e
               /\ into_struct_ev (lex_from lex_init (s "<a x='1'><b/>" ++ s "t<b/></a>")) = Ok e.
Proof. split; [|split]; [vm_compute; reflexivity|vm_compute; reflexivity|]. eexists. split; vm_compute; reflexivity. Qed.
