(* C16 — hand-built trees.  Every public construction operation (Model/Ops.v), applied at any
   node of any tree, keeps the invariant Uniq (sibling names and attribute names unique under
   every parent); lookup / removal address the child with the given name; adding a present
   name is a no-op; set_child_optional keeps the child's subtree; refinement of the child list
   to an ordered map name -> tag. *)
From Coq Require Import String.
From XSG.Model Require Import Strings Necessity Element Parser Ops.
From XSG.Proofs Require Import StringsProofs NecessityProofs ElementProofs.
From Coq Require Import Lia Permutation.
Local Open Scope list_scope.

(* ================================================================================== *)
(* 1. every function used by [step] keeps the node's own name                          *)
(* ================================================================================== *)
Lemma ename_add_unique_child e c : ename (add_unique_child e c) = ename e.
Proof.
  unfold add_unique_child. destruct (get_child (echildren e) (ename c)); auto.
  apply ename_set_children.
Qed.
Lemma ename_set_child_optional e n : ename (set_child_optional e n) = ename e.
Proof.
  unfold set_child_optional. destruct (remove_child (echildren e) n) as [[c|] r]; auto.
  apply ename_set_children.
Qed.
Lemma ename_remove_at e n :
  ename (set_children e (snd (remove_child (echildren e) n))) = ename e.
Proof. apply ename_set_children. Qed.

Lemma set_children_same e : set_children e (echildren e) = e.
Proof. now destruct e. Qed.

(* ================================================================================== *)
(* 2. update_first / get_at / update_at                                               *)
(* ================================================================================== *)
Lemma update_first_names l n g :
  (forall x, ename (g x) = ename x) -> child_names (update_first l n g) = child_names l.
Proof.
  intros Hg. unfold child_names, cname. induction l as [|d l IH]; cbn [update_first map]; auto.
  destruct (str_eqb (ename (snd d)) n); cbn [map snd].
  - now rewrite Hg.
  - now rewrite IH.
Qed.

Lemma update_first_Forall (P : element -> Prop) l n g :
  (forall x, P x -> P (g x)) ->
  Forall (fun c => P (snd c)) l -> Forall (fun c => P (snd c)) (update_first l n g).
Proof.
  intros Hg H. induction H as [|d l Hd Hl IH]; cbn [update_first]; auto.
  destruct (str_eqb (ename (snd d)) n); constructor; cbn [snd]; auto.
Qed.

Lemma get_child_update_first l n g :
  (forall x, ename (g x) = ename x) ->
  get_child (update_first l n g) n
  = option_map (fun c => (fst c, g (snd c))) (get_child l n).
Proof.
  intros Hg. induction l as [|d l IH]; cbn [update_first get_child option_map]; auto.
  destruct (str_eqb (ename (snd d)) n) eqn:E; cbn [get_child snd option_map].
  - now rewrite Hg, E.
  - now rewrite E.
Qed.

Lemma get_child_update_first_other l n m g :
  (forall x, ename (g x) = ename x) -> m <> n ->
  get_child (update_first l n g) m = get_child l m.
Proof.
  intros Hg Hne. induction l as [|d l IH]; cbn [update_first get_child]; auto.
  destruct (str_eqb_spec (ename (snd d)) n) as [E|E]; cbn [get_child snd].
  - rewrite Hg. destruct (str_eqb_spec (ename (snd d)) m) as [E'|E']; [congruence|reflexivity].
  - destruct (str_eqb (ename (snd d)) m); auto.
Qed.

Lemma update_first_absent l n g : get_child l n = None -> update_first l n g = l.
Proof.
  induction l as [|d l IH]; cbn [update_first get_child]; auto.
  destruct (str_eqb (ename (snd d)) n); [discriminate|]. intros H. now rewrite IH.
Qed.

Lemma update_first_id l n g c :
  get_child l n = Some c -> g (snd c) = snd c -> update_first l n g = l.
Proof.
  induction l as [|d l IH]; cbn [update_first get_child]; [discriminate|].
  destruct (str_eqb (ename (snd d)) n).
  - intros [= ->] Hg. rewrite Hg. now destruct c.
  - intros H Hg. now rewrite IH.
Qed.

Lemma ename_update_at f :
  (forall x, ename (f x) = ename x) -> forall p e, ename (update_at e p f) = ename e.
Proof. intros Hn [|n r] e; cbn [update_at]; auto. apply ename_set_children. Qed.

(* every addressable subtree of a Uniq tree is Uniq *)
Lemma Uniq_get_at p : forall e x, get_at e p = Some x -> Uniq e -> Uniq x.
Proof.
  induction p as [|n r IH]; intros e x; cbn [get_at].
  - intros [= <-]; auto.
  - destruct (get_child (echildren e) n) as [c|] eqn:G; [|discriminate].
    intros H He. apply (IH (snd c) x H).
    destruct (Uniq_inv _ He) as (_ & _ & Hf). rewrite Forall_forall in Hf.
    destruct (get_child_some _ _ _ G) as [Hin _]. now apply (Hf c).
Qed.

(* a local modification that keeps Uniq and the node's name keeps Uniq of the whole tree *)
Lemma Uniq_update_at f :
  (forall x, Uniq x -> Uniq (f x)) -> (forall x, ename (f x) = ename x) ->
  forall p e, Uniq e -> Uniq (update_at e p f).
Proof.
  intros Hu Hn. induction p as [|n r IH]; intros e He; cbn [update_at]; auto.
  destruct (Uniq_inv _ He) as (_ & Hnd & Hf).
  apply Uniq_set_children; auto.
  - rewrite update_first_names; auto. intros x. now apply ename_update_at.
  - apply (update_first_Forall Uniq); auto.
Qed.

(* update_at modifies exactly the node get_at finds *)
Lemma get_at_update_at f :
  (forall x, ename (f x) = ename x) ->
  forall p e, get_at (update_at e p f) p = option_map f (get_at e p).
Proof.
  intros Hn. induction p as [|n r IH]; intros e; cbn [update_at get_at]; auto.
  rewrite echildren_set_children, get_child_update_first.
  - destruct (get_child (echildren e) n) as [c|]; cbn [option_map snd]; auto.
  - intros x. now apply ename_update_at.
Qed.

(* an unresolved path makes the operation a no-op *)
Lemma update_at_unresolved f : forall p e, get_at e p = None -> update_at e p f = e.
Proof.
  induction p as [|n r IH]; intros e; cbn [update_at get_at]; [discriminate|].
  destruct (get_child (echildren e) n) as [c|] eqn:G; intros H.
  - rewrite (update_first_id _ _ _ c G); [apply set_children_same|]. now apply IH.
  - rewrite (update_first_absent _ _ _ G). apply set_children_same.
Qed.

(* ================================================================================== *)
(* 3. the invariant is kept by every operation, hence holds in every reachable state   *)
(* ================================================================================== *)
Lemma Uniq_remove_at y n : Uniq y -> Uniq (set_children y (snd (remove_child (echildren y) n))).
Proof.
  intros Hy. destruct (Uniq_inv _ Hy) as (_ & Hnd & Hf).
  apply Uniq_set_children; auto.
  - now apply remove_child_nodup.
  - now apply (remove_child_Forall (fun c => Uniq (snd c))).
Qed.

Theorem ops_unique_step : forall e o, Uniq e -> Uniq (fst (step e o)).
Proof.
  intros e o He.
  destruct o as [p n a|src dst|src n dst|p n|p n|p l|p|p b|p]; cbn [step].
  - (* OAdd *) cbn [fst]. apply Uniq_update_at; auto.
    + intros x Hx. apply Uniq_add_unique_child; auto. apply Uniq_new_element.
    + intros x. apply ename_add_unique_child.
  - (* OAddCopy *) destruct (get_at e src) as [c|] eqn:G; cbn [fst]; auto.
    pose proof (Uniq_get_at _ _ _ G He) as Hc.
    apply Uniq_update_at; auto.
    + intros x Hx. now apply Uniq_add_unique_child.
    + intros x. apply ename_add_unique_child.
  - (* OMove *) destruct (get_at e src) as [sn|] eqn:G; cbn [fst]; auto.
    pose proof (Uniq_get_at _ _ _ G He) as Hsn.
    destruct (Uniq_inv _ Hsn) as (_ & Hnd & Hf).
    pose proof (remove_child_fst (echildren sn) n) as F.
    pose proof (remove_child_nodup (echildren sn) n Hnd) as Rn.
    pose proof (remove_child_Forall (fun c => Uniq (snd c)) (echildren sn) n Hf) as Rf.
    destruct (remove_child (echildren sn) n) as [[x|] rest]; cbn [fst snd] in *; auto.
    assert (Hx : Uniq (snd x)).
    { symmetry in F. destruct (get_child_some _ _ _ F) as [Hin _].
      rewrite Forall_forall in Hf. now apply (Hf x). }
    apply Uniq_update_at.
    + intros d Hd. now apply Uniq_add_unique_child.
    + intros d. apply ename_add_unique_child.
    + apply Uniq_update_at; auto.
      * intros y Hy. now apply Uniq_set_children.
      * intros y. apply ename_set_children.
  - (* OOpt *) cbn [fst]. apply Uniq_update_at; auto.
    + intros x Hx. now apply Uniq_set_child_optional.
    + intros x. apply ename_set_child_optional.
  - (* ORemove *) destruct (get_at e p) as [x|]; cbn [fst]; auto.
    apply Uniq_update_at; auto.
    + intros y Hy. now apply Uniq_remove_at.
    + intros y. apply ename_set_children.
  - (* OMerge *) cbn [fst]. apply Uniq_update_at; auto.
    + intros x Hx. now apply Uniq_merge_attr.
    + intros x. apply ename_merge_attr.
  - (* OMultiple *) cbn [fst]. apply Uniq_update_at; auto.
    + apply Uniq_set_multiple.
    + apply ename_set_multiple.
  - (* OText *) cbn [fst]. apply Uniq_update_at; auto.
    + intros x Hx. now apply Uniq_set_text.
    + intros x. apply ename_set_text.
  - (* OIncr *) cbn [fst]. apply Uniq_update_at; auto.
    + apply Uniq_increment.
    + apply ename_increment.
Qed.

Lemma Uniq_run_ops : forall ops e, Uniq e -> Uniq (run_ops e ops).
Proof.
  unfold run_ops. induction ops as [|o ops IH]; intros e He; cbn [fold_left]; auto.
  apply IH. now apply ops_unique_step.
Qed.

Theorem ops_unique : forall n a ops, Uniq (run_ops (new_element n a) ops).
Proof. intros n a ops. apply Uniq_run_ops, Uniq_new_element. Qed.

(* the invariant spelled out: in every reachable state, at every addressable node, sibling
   names and attribute names are pairwise distinct *)
Theorem ops_unique_everywhere : forall n a ops p x,
  get_at (run_ops (new_element n a) ops) p = Some x ->
  NoDup (child_names (echildren x)) /\ NoDup (map snd (eattrs x)).
Proof.
  intros n a ops p x G.
  destruct (Uniq_inv _ (Uniq_get_at _ _ _ G (ops_unique n a ops))) as (Ha & Hn & _). auto.
Qed.

(* the root keeps its name *)
Lemma ename_step e o : ename (fst (step e o)) = ename e.
Proof.
  destruct o as [p n a|src dst|src n dst|p n|p n|p l|p|p b|p]; cbn [step].
  - apply ename_update_at. intros x. apply ename_add_unique_child.
  - destruct (get_at e src); cbn [fst]; auto.
    apply ename_update_at. intros x. apply ename_add_unique_child.
  - destruct (get_at e src) as [sn|]; cbn [fst]; auto.
    destruct (remove_child (echildren sn) n) as [[x|] rest]; cbn [fst]; auto.
    rewrite ename_update_at; [|intros d; apply ename_add_unique_child].
    apply ename_update_at. intros y. apply ename_set_children.
  - apply ename_update_at. intros x. apply ename_set_child_optional.
  - destruct (get_at e p); cbn [fst]; auto.
    apply ename_update_at. intros y. apply ename_set_children.
  - apply ename_update_at. intros x. apply ename_merge_attr.
  - apply ename_update_at. apply ename_set_multiple.
  - apply ename_update_at. intros x. apply ename_set_text.
  - apply ename_update_at. apply ename_increment.
Qed.

(* ================================================================================== *)
(* 4. adding a present name changes nothing                                           *)
(* ================================================================================== *)
Theorem ops_add_present_noop : forall e c x,
  get_child (echildren e) (ename c) = Some x -> add_unique_child e c = e.
Proof. exact add_unique_child_present. Qed.

(* the same at the level of operations: OAdd of a name present under the addressed node *)
Theorem ops_add_present_noop_op : forall e p n a x c,
  get_at e p = Some x -> get_child (echildren x) n = Some c ->
  fst (step e (OAdd p n a)) = e.
Proof.
  intros e p n a x c G H. cbn [step fst]. revert e G.
  induction p as [|m r IH]; intros e G; cbn [update_at get_at] in *.
  - injection G as ->. now apply (add_unique_child_present _ _ c).
  - destruct (get_child (echildren e) m) as [d|] eqn:Gd; [|discriminate].
    rewrite (update_first_id _ _ _ d Gd); [apply set_children_same|]. now apply IH.
Qed.

(* ================================================================================== *)
(* 5. lookup and removal address the child with the given name                         *)
(* ================================================================================== *)
Theorem ops_lookup_sound : forall l n c, get_child l n = Some c -> In c l /\ cname c = n.
Proof. exact get_child_some. Qed.
Theorem ops_lookup_complete : forall l c,
  NoDup (child_names l) -> In c l -> get_child l (cname c) = Some c.
Proof. exact get_child_in_nodup. Qed.
Theorem ops_lookup_none : forall l n, get_child l n = None <-> ~ In n (child_names l).
Proof. exact get_child_none. Qed.

Theorem ops_remove_returns_lookup : forall l n, fst (remove_child l n) = get_child l n.
Proof. exact remove_child_fst. Qed.
Theorem ops_remove_removes : forall l n,
  NoDup (child_names l) -> get_child (snd (remove_child l n)) n = None.
Proof. exact remove_child_absent. Qed.
Theorem ops_remove_keeps_others : forall l n m,
  m <> n -> get_child (snd (remove_child l n)) m = get_child l m.
Proof. exact get_child_remove_other. Qed.
Theorem ops_remove_order : forall l n,
  child_names (snd (remove_child l n)) = remove_first n (child_names l).
Proof. exact remove_child_names. Qed.
Theorem ops_remove_absent_noop : forall l n, get_child l n = None -> snd (remove_child l n) = l.
Proof. exact remove_child_none. Qed.

(* NoDup is needed for ops_remove_removes: only the first child of that name is removed *)
Example ops_remove_removes_needs_nodup :
  let a := new_element (s "a") [] in
  get_child (snd (remove_child [(Mand, a); (Opt, a)] (s "a"))) (s "a") = Some (Opt, a).
Proof. vm_compute. reflexivity. Qed.

(* the operation ORemove at a resolved path: returns the looked-up child, afterwards the name
   is absent under that node and every other name resolves as before *)
Theorem ops_remove_op : forall e p n x, Uniq e -> get_at e p = Some x ->
  snd (step e (ORemove p n)) = get_child (echildren x) n /\
  exists x', get_at (fst (step e (ORemove p n))) p = Some x' /\
             get_child (echildren x') n = None /\
             (forall m, m <> n -> get_child (echildren x') m = get_child (echildren x) m) /\
             child_names (echildren x') = remove_first n (child_names (echildren x)).
Proof.
  intros e p n x He G. cbn [step]. rewrite G. cbn [fst snd].
  split; [apply remove_child_fst|].
  exists (set_children x (snd (remove_child (echildren x) n))).
  rewrite get_at_update_at, G; [|intros y; apply ename_set_children].
  cbn [option_map]. rewrite echildren_set_children.
  split; [reflexivity|]. split; [|split].
  - apply remove_child_absent.
    destruct (Uniq_inv _ (Uniq_get_at _ _ _ G He)) as (_ & Hn & _). exact Hn.
  - intros m Hm. now apply get_child_remove_other.
  - apply remove_child_names.
Qed.

(* ================================================================================== *)
(* 6. set_child_optional                                                              *)
(* ================================================================================== *)
Theorem ops_optional_keeps_subtree : forall e n,
  NoDup (child_names (echildren e)) ->
  get_child (echildren (set_child_optional e n)) n
  = option_map (fun c => (Opt, snd c)) (get_child (echildren e) n).
Proof.
  intros e n Hnd. destruct (get_child (echildren e) n) as [c|] eqn:G.
  - rewrite (set_child_optional_present _ _ _ Hnd G), echildren_set_children, get_child_app,
      (remove_child_absent _ _ Hnd).
    cbn [get_child snd option_map]. destruct (get_child_some _ _ _ G) as [_ Hc].
    unfold cname in Hc. now rewrite Hc, str_eqb_refl.
  - rewrite (set_child_optional_absent _ _ G), G. reflexivity.
Qed.

(* no NoDup needed here *)
Theorem ops_optional_keeps_others : forall e n m,
  m <> n -> get_child (echildren (set_child_optional e n)) m = get_child (echildren e) m.
Proof.
  intros e n m Hne. unfold set_child_optional.
  pose proof (remove_child_fst (echildren e) n) as F.
  pose proof (get_child_remove_other (echildren e) n m Hne) as O.
  destruct (remove_child (echildren e) n) as [[c|] r]; cbn [fst snd] in F, O; auto.
  rewrite echildren_set_children. unfold add_unique_elem.
  destruct (existsb (child_eqb (Opt, snd c)) r); auto.
  rewrite get_child_app, O. destruct (get_child (echildren e) m); auto.
  cbn [get_child snd]. symmetry in F. destruct (get_child_some _ _ _ F) as [_ Hc].
  unfold cname in Hc. rewrite Hc. destruct (str_eqb_spec n m); congruence.
Qed.

(* NoDup is needed for ops_optional_keeps_subtree: with two children of one name the first is
   dropped and the second (another subtree) answers the lookup *)
Example ops_optional_keeps_subtree_needs_nodup :
  let a1 := new_element (s "a") [s "x"] in
  let a2 := new_element (s "a") [s "y"] in
  let e := set_children (new_element (s "r") []) [(Mand, a1); (Opt, a2)] in
  get_child (echildren e) (s "a") = Some (Mand, a1) /\
  get_child (echildren (set_child_optional e (s "a"))) (s "a") = Some (Opt, a2).
Proof. vm_compute. split; reflexivity. Qed.

(* ================================================================================== *)
(* 7. refinement: the child list as an ordered map  name -> tag                        *)
(* ================================================================================== *)
(* abstract operations on the ordered list of names *)
Definition names_add (n : str) (names : list str) : list str :=
  if mem n names then names else names ++ [n].
Definition names_opt (n : str) (names : list str) : list str :=
  if mem n names then remove_first n names ++ [n] else names.
(* names_remove is remove_first of ElementProofs.v *)

Theorem ops_refine_add_names : forall e c,
  child_names (echildren (add_unique_child e c))
  = if mem (ename c) (child_names (echildren e)) then child_names (echildren e)
    else child_names (echildren e) ++ [ename c].
Proof.
  intros e c. destruct (get_child (echildren e) (ename c)) as [x|] eqn:G.
  - rewrite (add_unique_child_present _ _ _ G).
    destruct (get_child_some _ _ _ G) as [Hin Hc].
    replace (mem (ename c) (child_names (echildren e))) with true; auto.
    symmetry. apply mem_spec. rewrite <- Hc. unfold child_names. now apply in_map.
  - rewrite (add_unique_child_fresh _ _ G), echildren_set_children, child_names_app.
    apply get_child_none in G. apply mem_false in G. rewrite G.
    unfold child_names at 2, cname. cbn [map snd]. now rewrite ename_with_pos.
Qed.

Theorem ops_refine_opt_names : forall e n,
  NoDup (child_names (echildren e)) ->
  child_names (echildren (set_child_optional e n))
  = if mem n (child_names (echildren e)) then remove_first n (child_names (echildren e)) ++ [n]
    else child_names (echildren e).
Proof.
  intros e n Hnd. destruct (get_child (echildren e) n) as [c|] eqn:G.
  - rewrite (set_child_optional_present _ _ _ Hnd G), echildren_set_children, child_names_app,
      remove_child_names.
    destruct (get_child_some _ _ _ G) as [Hin Hc].
    replace (mem n (child_names (echildren e))) with true.
    + change (child_names [(Opt, snd c)]) with [cname c]. now rewrite Hc.
    + symmetry. apply mem_spec. rewrite <- Hc. unfold child_names. now apply in_map.
  - rewrite (set_child_optional_absent _ _ G).
    apply get_child_none in G. apply mem_false in G. now rewrite G.
Qed.

Theorem ops_refine_add_names' : forall e c,
  child_names (echildren (add_unique_child e c)) = names_add (ename c) (child_names (echildren e)).
Proof. exact ops_refine_add_names. Qed.
Theorem ops_refine_opt_names' : forall e n, NoDup (child_names (echildren e)) ->
  child_names (echildren (set_child_optional e n)) = names_opt n (child_names (echildren e)).
Proof. exact ops_refine_opt_names. Qed.

(* without NoDup the equation for set_child_optional is false *)
Example ops_refine_opt_names_needs_nodup :
  let a := new_element (s "a") [] in
  let e := set_children (new_element (s "r") []) [(Mand, a); (Opt, a)] in
  child_names (echildren (set_child_optional e (s "a"))) = [s "a"] /\
  names_opt (s "a") (child_names (echildren e)) = [s "a"; s "a"].
Proof. vm_compute. split; reflexivity. Qed.

(* the same with the tags: the ordered association list  name -> necessity *)
Definition child_tags (l : list (nec * element)) : list (str * nec) :=
  map (fun c => (cname c, fst c)) l.
Fixpoint remove_key (n : str) (m : list (str * nec)) : list (str * nec) :=
  match m with
  | [] => []
  | x :: r => if str_eqb (fst x) n then r else x :: remove_key n r
  end.
Definition tags_add (n : str) (m : list (str * nec)) : list (str * nec) :=
  if mem n (map fst m) then m else m ++ [(n, Mand)].
Definition tags_opt (n : str) (m : list (str * nec)) : list (str * nec) :=
  if mem n (map fst m) then remove_key n m ++ [(n, Opt)] else m.

Lemma child_tags_names l : map fst (child_tags l) = child_names l.
Proof. unfold child_tags, child_names. rewrite map_map. reflexivity. Qed.
Lemma child_tags_app a b : child_tags (a ++ b) = child_tags a ++ child_tags b.
Proof. apply map_app. Qed.

Theorem ops_refine_remove_tags : forall l n,
  child_tags (snd (remove_child l n)) = remove_key n (child_tags l).
Proof.
  intros l n. unfold child_tags. induction l as [|d l IH]; cbn [remove_child map remove_key]; auto.
  cbn [fst]. unfold cname at 2.
  destruct (str_eqb (ename (snd d)) n); cbn [snd map]; auto.
  destruct (remove_child l n) as [f r]; cbn [snd map] in *. now rewrite IH.
Qed.

Theorem ops_refine_add_tags : forall e c,
  child_tags (echildren (add_unique_child e c)) = tags_add (ename c) (child_tags (echildren e)).
Proof.
  intros e c. unfold tags_add. rewrite child_tags_names.
  destruct (get_child (echildren e) (ename c)) as [x|] eqn:G.
  - rewrite (add_unique_child_present _ _ _ G).
    destruct (get_child_some _ _ _ G) as [Hin Hc].
    replace (mem (ename c) (child_names (echildren e))) with true; auto.
    symmetry. apply mem_spec. rewrite <- Hc. unfold child_names. now apply in_map.
  - rewrite (add_unique_child_fresh _ _ G), echildren_set_children, child_tags_app.
    apply get_child_none in G. apply mem_false in G. rewrite G.
    unfold child_tags at 2, cname. cbn [map snd fst]. now rewrite ename_with_pos.
Qed.

Theorem ops_refine_opt_tags : forall e n,
  NoDup (child_names (echildren e)) ->
  child_tags (echildren (set_child_optional e n)) = tags_opt n (child_tags (echildren e)).
Proof.
  intros e n Hnd. unfold tags_opt. rewrite child_tags_names.
  destruct (get_child (echildren e) n) as [c|] eqn:G.
  - rewrite (set_child_optional_present _ _ _ Hnd G), echildren_set_children, child_tags_app,
      ops_refine_remove_tags.
    destruct (get_child_some _ _ _ G) as [Hin Hc].
    replace (mem n (child_names (echildren e))) with true.
    + change (child_tags [(Opt, snd c)]) with [(cname c, Opt)]. now rewrite Hc.
    + symmetry. apply mem_spec. rewrite <- Hc. unfold child_names. now apply in_map.
  - rewrite (set_child_optional_absent _ _ G).
    apply get_child_none in G. apply mem_false in G. now rewrite G.
Qed.

(* pointwise reading of the tags *)
Theorem ops_add_new_is_mandatory : forall e c,
  get_child (echildren e) (ename c) = None ->
  get_child (echildren (add_unique_child e c)) (ename c) = Some (Mand, with_pos e c).
Proof.
  intros e c G.
  rewrite (add_unique_child_fresh _ _ G), echildren_set_children, get_child_app, G.
  cbn [get_child snd]. now rewrite ename_with_pos, str_eqb_refl.
Qed.

(* the inserted child is the given one up to its position stamp *)
Lemma with_pos_fields e c :
  ename (with_pos e c) = ename c /\ etext (with_pos e c) = etext c /\
  estandalone (with_pos e c) = estandalone c /\ ecount (with_pos e c) = ecount c /\
  eattrs (with_pos e c) = eattrs c /\ echildren (with_pos e c) = echildren c.
Proof. unfold with_pos. destruct c as [n t x k a ch [q|]]; cbn; repeat split; reflexivity. Qed.

Theorem ops_add_keeps_existing : forall e c m x,
  get_child (echildren e) m = Some x -> get_child (echildren (add_unique_child e c)) m = Some x.
Proof.
  intros e c m x H. destruct (get_child (echildren e) (ename c)) as [y|] eqn:G.
  - now rewrite (add_unique_child_present _ _ _ G).
  - now rewrite (add_unique_child_fresh _ _ G), echildren_set_children, get_child_app, H.
Qed.
Theorem ops_add_keeps_others : forall e c m,
  m <> ename c -> get_child (echildren (add_unique_child e c)) m = get_child (echildren e) m.
Proof.
  intros e c m Hne. destruct (get_child (echildren e) (ename c)) as [y|] eqn:G.
  - now rewrite (add_unique_child_present _ _ _ G).
  - rewrite (add_unique_child_fresh _ _ G), echildren_set_children, get_child_app.
    destruct (get_child (echildren e) m); auto.
    cbn [get_child snd]. rewrite ename_with_pos.
    destruct (str_eqb_spec (ename c) m); congruence.
Qed.

Theorem ops_optional_is_optional : forall e n c,
  NoDup (child_names (echildren e)) -> get_child (echildren e) n = Some c ->
  get_child (echildren (set_child_optional e n)) n = Some (Opt, snd c).
Proof. intros e n c Hnd G. now rewrite ops_optional_keeps_subtree, G. Qed.

(* the operations OAdd / OOpt at a resolved path act on the addressed node as the abstract
   map operations; OOpt keeps the subtree and the other children *)
Theorem ops_add_op : forall e p n a x, get_at e p = Some x ->
  exists x', get_at (fst (step e (OAdd p n a))) p = Some x' /\
             child_tags (echildren x') = tags_add n (child_tags (echildren x)) /\
             (forall m c, get_child (echildren x) m = Some c -> get_child (echildren x') m = Some c).
Proof.
  intros e p n a x G. cbn [step fst].
  exists (add_unique_child x (new_element n a)).
  rewrite get_at_update_at, G; [|intros y; apply ename_add_unique_child].
  split; [reflexivity|]. split.
  - apply (ops_refine_add_tags x (new_element n a)).
  - intros m c. apply ops_add_keeps_existing.
Qed.

Theorem ops_optional_op : forall e p n x, Uniq e -> get_at e p = Some x ->
  exists x', get_at (fst (step e (OOpt p n))) p = Some x' /\
             get_child (echildren x') n
               = option_map (fun c => (Opt, snd c)) (get_child (echildren x) n) /\
             (forall m, m <> n -> get_child (echildren x') m = get_child (echildren x) m) /\
             child_tags (echildren x') = tags_opt n (child_tags (echildren x)).
Proof.
  intros e p n x He G. cbn [step fst].
  exists (set_child_optional x n).
  rewrite get_at_update_at, G; [|intros y; apply ename_set_child_optional].
  destruct (Uniq_inv _ (Uniq_get_at _ _ _ G He)) as (_ & Hn & _).
  split; [reflexivity|]. split; [|split].
  - now apply ops_optional_keeps_subtree.
  - intros m Hm. now apply ops_optional_keeps_others.
  - now apply ops_refine_opt_tags.
Qed.

(* ================================================================================== *)
(* 8. non-vacuity                                                                      *)
(* ================================================================================== *)
Definition ex_ops : list op :=
  [ OAdd [] (s "a") [s "x"; s "x"; s "y"];      (* add (duplicate attribute given) *)
    OAdd [] (s "b") [];                         (* add *)
    OOpt [] (s "a");                            (* optional: a moves to the end as Opt *)
    OAdd [] (s "a") [s "z"];                    (* add again: present, no-op *)
    OAdd [s "b"] (s "c") [];                    (* add below b *)
    OAdd [s "b"] (s "d") [];
    OMove [s "b"] (s "c") [];                   (* move c from b to the root *)
    OAddCopy [s "b"] [s "a"];                   (* copy of b below a *)
    OMerge [s "a"] [(Mand, s "y"); (Mand, s "w"); (Opt, s "w")];
    OMultiple [s "a"]; OText [s "c"] true; OIncr [s "c"];
    ORemove [] (s "b") ]%string.                (* remove *)
Definition ex_tree : element := run_ops (new_element (s "r"%string) []) ex_ops.

Example ops_example_ops_length : List.length ex_ops = 13%nat.
Proof. reflexivity. Qed.

Example ops_example_run :
  child_tags (echildren ex_tree) = [(s "a", Opt); (s "c", Mand)]%string /\
  option_map (fun x => child_tags (echildren x)) (get_at ex_tree [s "a"]%string)
    = Some [(s "b"%string, Mand)] /\
  option_map (fun x => child_tags (echildren x)) (get_at ex_tree [s "a"; s "b"]%string)
    = Some [(s "d"%string, Mand)] /\
  option_map eattrs (get_at ex_tree [s "a"]%string)
    = Some [(Opt, s "x"); (Mand, s "y"); (Opt, s "w")]%string /\
  snd (step (run_ops (new_element (s "r"%string) []) (removelast ex_ops)) (ORemove [] (s "b"%string)))
    = option_map (fun c => (Mand, c)) (get_at (run_ops (new_element (s "r"%string) []) (removelast ex_ops)) [s "b"%string]).
Proof. vm_compute. repeat split; reflexivity. Qed.

Example ops_example_Uniq : Uniq ex_tree.
Proof. apply ops_unique. Qed.

Example ops_example_unique_step :
  Uniq ex_tree /\ List.length (echildren ex_tree) = 2%nat /\
  Uniq (fst (step ex_tree (OMove [s "a"] (s "b") []%list)))%string.
Proof.
  split; [apply ops_example_Uniq|]. split; [vm_compute; reflexivity|].
  apply ops_unique_step, ops_example_Uniq.
Qed.

Example ops_example_add_present :
  exists x, get_child (echildren ex_tree) (s "a"%string) = Some x /\
            add_unique_child ex_tree (new_element (s "a"%string) [s "other"%string]) = ex_tree.
Proof.
  assert (H : exists x, get_child (echildren ex_tree) (ename (new_element (s "a"%string) [s "other"%string])) = Some x).
  { vm_compute. eexists. reflexivity. }
  destruct H as [x Hx]. exists x. split; [exact Hx|].
  exact (ops_add_present_noop _ _ _ Hx).
Qed.

Example ops_example_remove :
  NoDup (child_names (echildren ex_tree)) /\
  (exists c, get_child (echildren ex_tree) (s "a"%string) = Some c) /\
  get_child (snd (remove_child (echildren ex_tree) (s "a"%string))) (s "a"%string) = None /\
  (exists c, get_child (snd (remove_child (echildren ex_tree) (s "a"%string))) (s "c"%string) = Some c).
Proof.
  destruct (Uniq_inv _ ops_example_Uniq) as (_ & Hn & _).
  split; [exact Hn|]. split; [vm_compute; eexists; reflexivity|].
  split; [now apply ops_remove_removes|].
  rewrite ops_remove_keeps_others; [vm_compute; eexists; reflexivity|].
  vm_compute. discriminate.
Qed.

Example ops_example_optional :
  NoDup (child_names (echildren ex_tree)) /\
  (exists c, get_child (echildren ex_tree) (s "c"%string) = Some (Mand, c) /\
             echildren c = [] /\ etext c = true /\
             get_child (echildren (set_child_optional ex_tree (s "c"%string))) (s "c"%string) = Some (Opt, c)) /\
  child_tags (echildren (set_child_optional ex_tree (s "a"%string)))
    = [(s "c", Mand); (s "a", Opt)]%string.
Proof.
  destruct (Uniq_inv _ ops_example_Uniq) as (_ & Hn & _).
  split; [exact Hn|]. split.
  - assert (H : exists c, get_child (echildren ex_tree) (s "c"%string) = Some (Mand, c)
                          /\ echildren c = [] /\ etext c = true).
    { vm_compute. eexists. repeat split; reflexivity. }
    destruct H as (c & G & H1 & H2). exists c. repeat split; auto.
    now rewrite (ops_optional_is_optional _ _ _ Hn G).
  - rewrite (ops_refine_opt_tags _ _ Hn). vm_compute. reflexivity.
Qed.

(* ================================================================================== *)
(* 9. history: before the repair (no early return on a present name) uniqueness failed *)
(* ================================================================================== *)
Theorem ops_unique_prefix_refuted :
  exists p c, Uniq p /\ Uniq c /\
    ~ NoDup (child_names (echildren
        (add_unique_child_prefix (set_child_optional (add_unique_child_prefix p c) (ename c)) c))).
Proof.
  exists (new_element (s "r"%string) []), (new_element (s "a"%string) []).
  split; [apply Uniq_new_element|]. split; [apply Uniq_new_element|].
  assert (E : child_names (echildren
        (add_unique_child_prefix
           (set_child_optional
              (add_unique_child_prefix (new_element (s "r"%string) []) (new_element (s "a"%string) []))
              (ename (new_element (s "a"%string) []))) (new_element (s "a"%string) [])))
      = [s "a"; s "a"]%string).
  { vm_compute. reflexivity. }
  rewrite E. intros H. inversion H as [|y l Hy Hl]; subst. apply Hy. left. reflexivity.
Qed.

(* the repaired operation on the same sequence keeps one child *)
Example ops_unique_repaired_same_sequence :
  let p := new_element (s "r"%string) [] in
  let c := new_element (s "a"%string) [] in
  child_tags (echildren (add_unique_child (set_child_optional (add_unique_child p c) (ename c)) c))
  = [(s "a"%string, Opt)].
Proof. vm_compute. reflexivity. Qed.
