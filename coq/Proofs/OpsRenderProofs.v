(* C16, last sentence: "Rendering any tree built this way [by any sequence of the public
   construction operations] yields well-formed output (as in C04) whose fields reflect exactly
   the tree's children, attributes, optionality, multiplicity and text."
   The pieces exist: every reachable tree is Uniq (OpsProofs.ops_unique), every Uniq tree with
   acceptable names renders to output accepted by the well-formedness oracle (WfProofs.render_wf),
   every tree renders to output accepted by the reflection oracle (ReflectProofs.render_reflects).
   What is proved here is the missing link -- acceptability of names (`tree_names_ok`) is an
   invariant of the state machine of Model/Ops.v as soon as every name that an operation
   INTRODUCES is acceptable (`op_names_ok`) -- and the composition `ops_render_ok`. *)
From Coq Require Import String Setoid.
From XSG.Model Require Import Strings Chars Convert Necessity Element Parser Render Ops.
From XSG.Corr Require Import Common Oracles.
From XSG.Proofs Require Import StringsProofs NecessityProofs ElementProofs OpsProofs
     ConvertProofs ReflectProofs WfProofs.
Local Open Scope list_scope.

(* ================================================================================== *)
(* 1. the names an operation introduces                                               *)
(* ================================================================================== *)
(* OAdd brings the name of the new child and its attribute names, OMerge attribute names;
   OAddCopy / OMove transport subtrees that are already in the tree; the paths and the names
   given to OOpt / ORemove / OMove are only looked up. *)
Definition op_names_ok (o : op) : bool :=
  match o with
  | OAdd _ n attrs => name_ok n && forallb name_ok attrs
  | OMerge _ l => forallb (fun a => name_ok (snd a)) l
  | OAddCopy _ _ | OMove _ _ _ | OOpt _ _ | ORemove _ _
  | OMultiple _ | OText _ _ | OIncr _ => true
  end.

Lemma op_names_ok_reading (o : op) :
  op_names_ok o =
  match o with
  | OAdd _ n attrs => name_ok n && forallb name_ok attrs
  | OMerge _ l => forallb (fun a => name_ok (snd a)) l
  | OAddCopy _ _ | OMove _ _ _ | OOpt _ _ | ORemove _ _
  | OMultiple _ | OText _ _ | OIncr _ => true
  end.
Proof. reflexivity. Qed.

(* ================================================================================== *)
(* 2. reading of tree_names_ok; the node-local functions                              *)
(* ================================================================================== *)
Lemma tno_iff e : tree_names_ok e = true <->
  name_ok (ename e) = true
  /\ Forall (fun a => name_ok (snd a) = true) (eattrs e)
  /\ Forall (fun c => tree_names_ok (snd c) = true) (echildren e).
Proof.
  rewrite tree_names_ok_eq, !andb_true_iff, !Forall_forall, !forallb_forall. tauto.
Qed.

Lemma tno_children e : tree_names_ok e = true ->
  Forall (fun c => tree_names_ok (snd c) = true) (echildren e).
Proof. intros H. apply tno_iff in H. destruct H as (_ & _ & H). exact H. Qed.

(* the predicate looks at the name, the attributes and the children only *)
Lemma tno_same e e' :
  ename e' = ename e -> eattrs e' = eattrs e -> echildren e' = echildren e ->
  tree_names_ok e' = tree_names_ok e.
Proof.
  intros H1 H2 H3. rewrite (tree_names_ok_eq e'), (tree_names_ok_eq e), H1, H2, H3. reflexivity.
Qed.

Lemma tno_set_pos c p : tree_names_ok (set_pos c p) = tree_names_ok c.
Proof. apply tno_same; [apply ename_set_pos|apply eattrs_set_pos|apply echildren_set_pos]. Qed.
Lemma tno_set_text c b : tree_names_ok (set_text c b) = tree_names_ok c.
Proof. apply tno_same; [apply ename_set_text|apply eattrs_set_text|apply echildren_set_text]. Qed.
Lemma tno_set_multiple c : tree_names_ok (set_multiple c) = tree_names_ok c.
Proof.
  apply tno_same; [apply ename_set_multiple|apply eattrs_set_multiple|apply echildren_set_multiple].
Qed.
Lemma tno_increment c : tree_names_ok (increment c) = tree_names_ok c.
Proof. apply tno_same; [apply ename_increment|apply eattrs_increment|apply echildren_increment]. Qed.

Lemma tno_with_pos e c : tree_names_ok c = true -> tree_names_ok (with_pos e c) = true.
Proof. intros H. unfold with_pos. destruct (epos c); auto. now rewrite tno_set_pos. Qed.

Lemma tno_set_children e c :
  tree_names_ok e = true -> Forall (fun d => tree_names_ok (snd d) = true) c ->
  tree_names_ok (set_children e c) = true.
Proof.
  intros He Hc. apply tno_iff in He. destruct He as (H1 & H2 & _). apply tno_iff.
  rewrite ename_set_children, eattrs_set_children, echildren_set_children. auto.
Qed.

(* Element::new: the attribute names are among those given *)
Lemma tno_new_element n a :
  name_ok n = true -> forallb name_ok a = true -> tree_names_ok (new_element n a) = true.
Proof.
  intros Hn Ha. apply tno_iff. split; [exact Hn|]. split.
  - apply Forall_forall. intros x Hx. rewrite forallb_forall in Ha. apply Ha.
    apply (new_element_attr_names n a). now apply in_map.
  - unfold new_element. cbn [echildren]. constructor.
Qed.

Lemma tno_add_unique_child e c :
  tree_names_ok e = true -> tree_names_ok c = true -> tree_names_ok (add_unique_child e c) = true.
Proof.
  intros He Hc. destruct (get_child (echildren e) (ename c)) as [x|] eqn:G.
  - now rewrite (add_unique_child_present _ _ _ G).
  - rewrite (add_unique_child_fresh _ _ G). apply tno_set_children; auto.
    apply Forall_app. split; [now apply tno_children|].
    constructor; [|constructor]. cbn [snd]. now apply tno_with_pos.
Qed.

Lemma tno_set_child_optional e n :
  tree_names_ok e = true -> tree_names_ok (set_child_optional e n) = true.
Proof.
  intros He. pose proof (tno_children e He) as Hf. unfold set_child_optional.
  pose proof (remove_child_fst (echildren e) n) as F.
  pose proof (remove_child_Forall (fun d => tree_names_ok (snd d) = true) (echildren e) n Hf) as R.
  destruct (remove_child (echildren e) n) as [[c|] r]; cbn [fst snd] in F, R; auto.
  apply tno_set_children; auto. unfold add_unique_elem.
  destruct (existsb (child_eqb (Opt, snd c)) r); auto.
  apply Forall_app. split; auto. constructor; [|constructor]. cbn [snd].
  symmetry in F. destruct (get_child_some _ _ _ F) as [Hin _].
  rewrite Forall_forall in Hf. now apply (Hf c).
Qed.

Lemma tno_remove_at y n :
  tree_names_ok y = true ->
  tree_names_ok (set_children y (snd (remove_child (echildren y) n))) = true.
Proof.
  intros Hy. apply tno_set_children; auto.
  apply (remove_child_Forall (fun d => tree_names_ok (snd d) = true)). now apply tno_children.
Qed.

(* merge_necessity: every name of the result is a name of one of the two lists (no NoDup
   hypothesis on the second list, unlike NecessityProofs.merge_union) *)
Lemma merge_second_names (res o : list (nec * str)) x :
  In x (map snd (merge_second str_eqb res o)) -> In x (map snd res) \/ In x (map snd o).
Proof.
  revert res. induction o as [|[t y] o IH]; intros res H; cbn [merge_second] in H.
  - now left.
  - cbn [map snd]. destruct (find_nec str_eqb y res).
    + destruct (IH _ H) as [H1|H1]; [now left|right; now right].
    + destruct (IH _ H) as [H1|H1]; [|right; now right].
      rewrite map_app, in_app_iff in H1. cbn [map snd In] in H1.
      destruct H1 as [H1|[H1|[]]]; [now left|right; now left].
Qed.

Lemma merge_names (v o : list (nec * str)) x :
  In x (map snd (merge_necessity str_eqb v o)) -> In x (map snd v) \/ In x (map snd o).
Proof.
  unfold merge_necessity. intros H. apply merge_second_names in H.
  destruct H as [H|H]; [left|now right].
  change (map snd (merge_first str_eqb v o)) with (items (merge_first str_eqb v o)) in H.
  now rewrite items_merge_first in H.
Qed.

Lemma merge_names_ok (v o : list (nec * str)) :
  Forall (fun a => name_ok (snd a) = true) v -> Forall (fun a => name_ok (snd a) = true) o ->
  Forall (fun a => name_ok (snd a) = true) (merge_necessity str_eqb v o).
Proof.
  intros Hv Ho. rewrite Forall_forall in Hv, Ho. apply Forall_forall. intros a Ha.
  assert (Hin : In (snd a) (map snd (merge_necessity str_eqb v o))) by now apply in_map.
  apply merge_names in Hin.
  destruct Hin as [H|H]; apply in_map_iff in H; destruct H as [b [Eb Hb]]; rewrite <- Eb; auto.
Qed.

Lemma tno_merge_attr e l :
  tree_names_ok e = true -> forallb (fun a => name_ok (snd a)) l = true ->
  tree_names_ok (merge_attr e l) = true.
Proof.
  intros He Hl. apply tno_iff in He. destruct He as (H1 & H2 & H3). apply tno_iff.
  rewrite ename_merge_attr, eattrs_merge_attr, echildren_merge_attr.
  split; [exact H1|]. split; [|exact H3].
  apply merge_names_ok; [exact H2|].
  apply Forall_forall. rewrite forallb_forall in Hl. exact Hl.
Qed.

(* ================================================================================== *)
(* 3. addressing: get_at / update_at                                                  *)
(* ================================================================================== *)
(* every addressable subtree of an acceptable tree is acceptable *)
Lemma tno_get_at p : forall e x,
  get_at e p = Some x -> tree_names_ok e = true -> tree_names_ok x = true.
Proof.
  induction p as [|n r IH]; intros e x; cbn [get_at].
  - intros [= <-]; auto.
  - destruct (get_child (echildren e) n) as [c|] eqn:G; [|discriminate].
    intros H He. apply (IH (snd c) x H).
    pose proof (tno_children e He) as Hf. rewrite Forall_forall in Hf.
    destruct (get_child_some _ _ _ G) as [Hin _]. now apply (Hf c).
Qed.

(* a local modification that keeps acceptability keeps it for the whole tree *)
Lemma tno_update_at f :
  (forall x, tree_names_ok x = true -> tree_names_ok (f x) = true) ->
  forall p e, tree_names_ok e = true -> tree_names_ok (update_at e p f) = true.
Proof.
  intros Hf. induction p as [|n r IH]; intros e He; cbn [update_at]; auto.
  apply tno_set_children; auto.
  apply (update_first_Forall (fun x => tree_names_ok x = true)); auto.
  now apply tno_children.
Qed.

(* ================================================================================== *)
(* 4. the invariant                                                                    *)
(* ================================================================================== *)
Theorem tree_names_ok_step : forall e o,
  tree_names_ok e = true -> op_names_ok o = true -> tree_names_ok (fst (step e o)) = true.
Proof.
  intros e o He Ho.
  destruct o as [p n a|src dst|src n dst|p n|p n|p l|p|p b|p]; cbn [step op_names_ok] in *.
  - (* OAdd *) cbn [fst]. apply andb_true_iff in Ho. destruct Ho as [Hn Ha].
    apply tno_update_at; auto.
    intros x Hx. apply tno_add_unique_child; auto. now apply tno_new_element.
  - (* OAddCopy *) destruct (get_at e src) as [c|] eqn:G; cbn [fst]; auto.
    pose proof (tno_get_at _ _ _ G He) as Hc.
    apply tno_update_at; auto. intros x Hx. now apply tno_add_unique_child.
  - (* OMove *) destruct (get_at e src) as [sn|] eqn:G; cbn [fst]; auto.
    pose proof (tno_get_at _ _ _ G He) as Hsn.
    pose proof (tno_children sn Hsn) as Hf.
    pose proof (remove_child_fst (echildren sn) n) as F.
    pose proof (remove_child_Forall (fun d => tree_names_ok (snd d) = true) (echildren sn) n Hf) as Rf.
    destruct (remove_child (echildren sn) n) as [[x|] rest]; cbn [fst snd] in *; auto.
    assert (Hx : tree_names_ok (snd x) = true).
    { symmetry in F. destruct (get_child_some _ _ _ F) as [Hin _].
      rewrite Forall_forall in Hf. now apply (Hf x). }
    apply tno_update_at.
    + intros d Hd. now apply tno_add_unique_child.
    + apply tno_update_at; auto. intros y Hy. now apply tno_set_children.
  - (* OOpt *) cbn [fst]. apply tno_update_at; auto.
    intros x Hx. now apply tno_set_child_optional.
  - (* ORemove *) destruct (get_at e p) as [x|]; cbn [fst]; auto.
    apply tno_update_at; auto. intros y Hy. now apply tno_remove_at.
  - (* OMerge *) cbn [fst]. apply tno_update_at; auto.
    intros x Hx. now apply tno_merge_attr.
  - (* OMultiple *) cbn [fst]. apply tno_update_at; auto.
    intros x Hx. now rewrite tno_set_multiple.
  - (* OText *) cbn [fst]. apply tno_update_at; auto.
    intros x Hx. now rewrite tno_set_text.
  - (* OIncr *) cbn [fst]. apply tno_update_at; auto.
    intros x Hx. now rewrite tno_increment.
Qed.

Lemma tno_run_ops : forall ops e,
  tree_names_ok e = true -> forallb op_names_ok ops = true -> tree_names_ok (run_ops e ops) = true.
Proof.
  unfold run_ops. induction ops as [|o ops IH]; intros e He Hops; cbn [fold_left]; auto.
  cbn [forallb] in Hops. apply andb_true_iff in Hops. destruct Hops as [Ho Hops].
  apply IH; auto. now apply tree_names_ok_step.
Qed.

Theorem tree_names_ok_run : forall n a ops,
  name_ok n = true -> forallb name_ok a = true -> forallb op_names_ok ops = true ->
  tree_names_ok (run_ops (new_element n a) ops) = true.
Proof. intros n a ops Hn Ha Hops. apply tno_run_ops; auto. now apply tno_new_element. Qed.

(* ================================================================================== *)
(* 5. the render clause of C16                                                         *)
(* ================================================================================== *)
Theorem ops_render_ok : forall o n a ops,
  name_ok n = true -> forallb name_ok a = true -> forallb op_names_ok ops = true ->
  literal_ok (attribute_prefix o) = true -> literal_ok (text_identifier o) = true ->
  let e := run_ops (new_element n a) ops in
  wf_b (map erase (render_abs o e)) = true /\
  reflects_b o e (map erase (render_abs o e)) = true.
Proof.
  intros o n a ops Hn Ha Hops Hp Ht e. split.
  - apply render_wf; auto.
    + apply ops_unique.
    + now apply tree_names_ok_run.
  - apply render_reflects.
Qed.

(* the same from any acceptable, Uniq starting tree (e.g. a parsed one) *)
Theorem ops_render_ok_from : forall o e0 ops,
  Uniq e0 -> tree_names_ok e0 = true -> forallb op_names_ok ops = true ->
  literal_ok (attribute_prefix o) = true -> literal_ok (text_identifier o) = true ->
  let e := run_ops e0 ops in
  wf_b (map erase (render_abs o e)) = true /\
  reflects_b o e (map erase (render_abs o e)) = true.
Proof.
  intros o e0 ops U He Hops Hp Ht e. split.
  - apply render_wf; auto.
    + now apply Uniq_run_ops.
    + now apply tno_run_ops.
  - apply render_reflects.
Qed.

(* ================================================================================== *)
(* 6. examples                                                                         *)
(* ================================================================================== *)
(* add, add with keyword names (`type`, attributes `fn` `self`), add below a child, optional,
   merge attributes (one new, prefixed), move, remove, text, multiple, increment *)
Definition ro_ops : list op :=
  [ OAdd [] (s "a") [s "x"];
    OAdd [] (s "type") [s "fn"; s "self"];
    OAdd [s "type"] (s "c") [s "k"];
    OAdd [] (s "b") [];
    OOpt [] (s "a");
    OMerge [s "a"] [(Mand, s "x"); (Opt, s "xs:w")];
    OMove [s "type"] (s "c") [s "a"];
    OAddCopy [s "a"] [s "type"];
    ORemove [] (s "b");
    OText [s "a"; s "c"] true;
    OMultiple [s "type"];
    OIncr [s "type"] ]%string.
Definition ro_tree : element := run_ops (new_element (s "r"%string) [s "id"%string]) ro_ops.

Example ro_ops_length : List.length ro_ops = 12%nat.
Proof. reflexivity. Qed.

Example ro_hyps :
  name_ok (s "r"%string) = true /\ forallb name_ok [s "id"%string] = true
  /\ forallb op_names_ok ro_ops = true
  /\ literal_ok (attribute_prefix quick_xml_de) = true /\ literal_ok (text_identifier quick_xml_de) = true
  /\ literal_ok (attribute_prefix serde_xml_rs) = true /\ literal_ok (text_identifier serde_xml_rs) = true.
Proof. vm_compute. repeat split; reflexivity. Qed.

(* the shape of the tree that was built *)
Example ro_tree_shape :
  child_tags (echildren ro_tree) = [(s "type", Mand); (s "a", Opt)]%string /\
  option_map (fun x => child_tags (echildren x)) (get_at ro_tree [s "a"]%string)
    = Some [(s "c"%string, Mand)] /\
  option_map (fun x => child_tags (echildren x)) (get_at ro_tree [s "type"]%string)
    = Some [(s "a"%string, Mand)] /\
  option_map eattrs (get_at ro_tree [s "a"]%string) = Some [(Mand, s "x"); (Opt, s "xs:w")]%string /\
  option_map estandalone (get_at ro_tree [s "type"]%string) = Some false /\
  option_map etext (get_at ro_tree [s "a"; s "c"]%string) = Some true.
Proof. vm_compute. repeat split; reflexivity. Qed.

(* both oracles, evaluated *)
Example ro_oracles_computed :
  tree_names_ok ro_tree = true
  /\ wf_b (map erase (render_abs quick_xml_de ro_tree)) = true
  /\ reflects_b quick_xml_de ro_tree (map erase (render_abs quick_xml_de ro_tree)) = true
  /\ wf_b (map erase (render_abs serde_xml_rs ro_tree)) = true
  /\ reflects_b serde_xml_rs ro_tree (map erase (render_abs serde_xml_rs ro_tree)) = true
  /\ map (fun d => (sd_name d, map f_ident (sd_fields d))) (render_abs quick_xml_de ro_tree)
     = [ (s "R", [s "id"; s "a"; s "r_type"]);
         (s "RA", [s "x"; s "xs_w"; s "c"]);
         (s "RAC", [s "k"; s "text"]);
         (s "Type", [s "type_fn"; s "type_self"; s "a"]);
         (s "TypeA", [s "x"; s "xs_w"; s "c"]);
         (s "TypeAC", [s "k"]) ]%string.
Proof. vm_compute. repeat split; reflexivity. Qed.

(* ... and by the theorems *)
Example ro_step_by_theorem :
  tree_names_ok ro_tree = true /\
  tree_names_ok (fst (step ro_tree (OMove [s "type"] (s "a") [s "a"])))%string = true.
Proof.
  destruct ro_hyps as (Hn & Ha & Hops & _).
  assert (H : tree_names_ok ro_tree = true) by (apply tree_names_ok_run; assumption).
  split; [exact H|]. apply tree_names_ok_step; [exact H|reflexivity].
Qed.

Example ro_render_by_theorem :
  wf_b (map erase (render_abs quick_xml_de ro_tree)) = true /\
  reflects_b quick_xml_de ro_tree (map erase (render_abs quick_xml_de ro_tree)) = true.
Proof.
  destruct ro_hyps as (Hn & Ha & Hops & Hp & Ht & _).
  exact (ops_render_ok quick_xml_de _ _ _ Hn Ha Hops Hp Ht).
Qed.

(* the hypothesis on the introduced names is needed: a child named `1a` *)
Example ops_render_needs_names :
  let ops := [OAdd [] (s "a") []; OAdd [] (s "1a") []]%string in
  let e := run_ops (new_element (s "r"%string) []) ops in
  name_ok (s "r"%string) = true /\ forallb op_names_ok ops = false
  /\ op_names_ok (OAdd [] (s "1a"%string) []) = false
  /\ Uniq e /\ tree_names_ok e = false
  /\ wf_b (map erase (render_abs quick_xml_de e)) = false
  /\ reflects_b quick_xml_de e (map erase (render_abs quick_xml_de e)) = true.
Proof.
  cbv zeta. split; [vm_compute; reflexivity|]. split; [vm_compute; reflexivity|].
  split; [vm_compute; reflexivity|]. split; [apply ops_unique|].
  split; [vm_compute; reflexivity|]. split; vm_compute; reflexivity.
Qed.

(* ... also for the attribute names of OAdd and of OMerge *)
Example ops_render_needs_attr_names :
  let ops1 := [OAdd [] (s "a") [s "1k"]]%string in
  let ops2 := [OMerge [] [(Opt, s "1k")]]%string in
  let e1 := run_ops (new_element (s "r"%string) []) ops1 in
  let e2 := run_ops (new_element (s "r"%string) []) ops2 in
  forallb op_names_ok ops1 = false /\ wf_b (map erase (render_abs quick_xml_de e1)) = false /\
  forallb op_names_ok ops2 = false /\ wf_b (map erase (render_abs quick_xml_de e2)) = false.
Proof. vm_compute. repeat split; reflexivity. Qed.
