(* Structure of the renderer (Model/Render.v: render_abs_at / render_abs / print_struct):
   sorting the per-child results = walking the sorted children, the shape of every struct,
   independence from the options (C10) and the field / struct order (C09). *)
From Coq Require Import String Lia Permutation Sorted RelationClasses.
From XSG.Model Require Import Strings Chars Convert Necessity Element Render.
From XSG.Proofs Require Import StringsProofs ElementProofs.
(* (Coq.Sorting.Sorted also exports a `sort`; the model's `Render.sort` must come last) *)

(* ====================================================================== *)
(* 1. generic list facts                                                   *)
(* ====================================================================== *)
Lemma flat_map_map {A B C} (f : B -> list C) (g : A -> B) l :
  flat_map f (map g l) = flat_map (fun x => f (g x)) l.
Proof. induction l as [|x l IH]; simpl; auto. now rewrite IH. Qed.

Lemma flat_map_ext_in {A B} (f g : A -> list B) l :
  (forall x, In x l -> f x = g x) -> flat_map f l = flat_map g l.
Proof.
  induction l as [|x l IH]; simpl; intros H; auto.
  rewrite (H x), IH; auto.
Qed.

Lemma map_flat_map {A B C} (h : B -> C) (f : A -> list B) l :
  map h (flat_map f l) = flat_map (fun x => map h (f x)) l.
Proof. induction l as [|x l IH]; simpl; auto. now rewrite map_app, IH. Qed.

Lemma filter_map_all {A B} (p : B -> bool) (f : A -> B) l :
  (forall x, p (f x) = true) -> filter p (map f l) = map f l.
Proof. intros H. induction l as [|x l IH]; simpl; auto. now rewrite H, IH. Qed.

Lemma filter_map_none {A B} (p : B -> bool) (f : A -> B) l :
  (forall x, p (f x) = false) -> filter p (map f l) = [].
Proof. intros H. induction l as [|x l IH]; simpl; auto. now rewrite H, IH. Qed.

Lemma map_const_repeat {A B} (f : A -> B) (b : B) l :
  (forall x, f x = b) -> map f l = repeat b (List.length l).
Proof. intros H. induction l as [|x l IH]; simpl; auto. now rewrite H, IH. Qed.

(* ====================================================================== *)
(* 2. insertion sort                                                       *)
(* ====================================================================== *)
Section Isort.
  Context {A : Type} (leb : A -> A -> bool).

  Lemma insert_perm x l : Permutation (x :: l) (insert leb x l).
  Proof.
    induction l as [|y l IH]; simpl; auto.
    destruct (leb x y); auto.
    eapply perm_trans; [apply perm_swap|]. now apply perm_skip.
  Qed.

  Lemma isort_perm l : Permutation l (isort leb l).
  Proof.
    induction l as [|x l IH]; simpl; auto.
    eapply perm_trans; [apply perm_skip, IH|]. apply insert_perm.
  Qed.

  Lemma isort_in x l : In x (isort leb l) <-> In x l.
  Proof.
    split; apply Permutation_in; [apply Permutation_sym|]; apply isort_perm.
  Qed.

  Lemma isort_length l : List.length (isort leb l) = List.length l.
  Proof. symmetry. apply Permutation_length, isort_perm. Qed.

  Lemma isort_Forall (P : A -> Prop) l : Forall P l -> Forall P (isort leb l).
  Proof. apply Permutation_Forall, isort_perm. Qed.

  (* --- the result is sorted as soon as the comparison is total --- *)
  Definition lebR (a b : A) : Prop := leb a b = true.

  Lemma HdRel_insert y x l : HdRel lebR y l -> lebR y x -> HdRel lebR y (insert leb x l).
  Proof.
    intros Hl Hx. destruct l as [|z l]; simpl; [now constructor|].
    destruct (leb x z); constructor; auto. now inversion Hl.
  Qed.

  Section Total.
    Context (total : forall a b, leb a b = true \/ leb b a = true).

    Lemma insert_sorted x l : Sorted lebR l -> Sorted lebR (insert leb x l).
    Proof.
      induction l as [|y l IH]; simpl; intros Hs.
      - repeat constructor.
      - destruct (leb x y) eqn:E.
        + constructor; auto.
        + inversion Hs as [|? ? Hl Hy]; subst. constructor; auto.
          apply HdRel_insert; auto. unfold lebR. destruct (total x y); congruence.
    Qed.

    Lemma isort_sorted l : Sorted lebR (isort leb l).
    Proof. induction l as [|x l IH]; simpl; [constructor|now apply insert_sorted]. Qed.

    Lemma isort_strongly_sorted l :
      (forall a b c, leb a b = true -> leb b c = true -> leb a c = true) ->
      StronglySorted lebR (isort leb l).
    Proof.
      intros tr. apply Sorted_StronglySorted; [|apply isort_sorted].
      intros a b c. apply tr.
    Qed.
  End Total.

  (* --- stability: elements that compare equal keep their relative order (needs only
         transitivity: insertion only jumps over strictly smaller elements) --- *)
  Section Stable.
    Context (trans : forall a b c, leb a b = true -> leb b c = true -> leb a c = true).
    Definition eqv (x y : A) : bool := leb x y && leb y x.

    Lemma insert_stable x a l : filter (eqv x) (insert leb a l) = filter (eqv x) (a :: l).
    Proof.
      induction l as [|y l IH]; [reflexivity|].
      cbn [insert]. destruct (leb a y) eqn:E; [reflexivity|].
      cbn [filter] in *. rewrite IH.
      destruct (eqv x a) eqn:Ea; [|reflexivity].
      destruct (eqv x y) eqn:Ey; [|reflexivity].
      exfalso. unfold eqv in *. apply andb_true_iff in Ea, Ey.
      destruct Ea as [_ Hax], Ey as [Hxy _].
      rewrite (trans _ _ _ Hax Hxy) in E. discriminate.
    Qed.

    Lemma isort_stable x l : filter (eqv x) (isort leb l) = filter (eqv x) l.
    Proof.
      induction l as [|a l IH]; [reflexivity|].
      cbn [isort fold_right]. fold (isort leb l). rewrite insert_stable.
      cbn [filter]. now rewrite IH.
    Qed.
  End Stable.
End Isort.

Lemma Sorted_map {A K} (R : K -> K -> Prop) (key : A -> K) l :
  Sorted (fun a b => R (key a) (key b)) l -> Sorted R (map key l).
Proof.
  induction 1 as [|x l Hs IH Hh]; simpl; constructor; auto.
  destruct Hh; simpl; constructor; auto.
Qed.

(* sorting by a key with a total comparison on keys sorts the keys *)
Lemma isort_sorted_key {A K} (lebK : K -> K -> bool) (key : A -> K) l :
  (forall a b, lebK a b = true \/ lebK b a = true) ->
  Sorted (fun a b => lebK a b = true) (map key (isort (fun a b => lebK (key a) (key b)) l)).
Proof.
  intros total. apply Sorted_map.
  apply (isort_sorted (fun a b => lebK (key a) (key b))). intros a b. apply total.
Qed.

(* the lemma that justifies the model: sorting the per-item results by the item's key
   is mapping over the sorted items *)
Lemma insert_map_key {A B} (leb : A -> A -> bool) (f : A -> B) x l :
  insert (fun p q => leb (fst p) (fst q)) (x, f x) (map (fun a => (a, f a)) l)
  = map (fun a => (a, f a)) (insert leb x l).
Proof.
  induction l as [|y l IH]; simpl; auto.
  destruct (leb x y); simpl; auto. now rewrite IH.
Qed.

Lemma isort_map_key {A B} (leb : A -> A -> bool) (f : A -> B) l :
  isort (fun p q => leb (fst p) (fst q)) (map (fun a => (a, f a)) l)
  = map (fun a => (a, f a)) (isort leb l).
Proof.
  induction l as [|x l IH]; simpl; auto.
  fold (isort (fun p q : A * B => leb (fst p) (fst q)) (map (fun a => (a, f a)) l)).
  fold (isort leb l). rewrite IH. apply insert_map_key.
Qed.

(* ====================================================================== *)
(* 3. the orders used by the renderer are total and transitive             *)
(* ====================================================================== *)
Lemma str_ltb_asym a b : str_ltb a b = true -> str_ltb b a = false.
Proof.
  revert b. induction a as [|x a IH]; intros [|y b]; simpl; auto; try discriminate.
  destruct (N.ltb_spec x y), (N.ltb_spec y x); auto; try lia; discriminate.
Qed.

Lemma str_leb_total a b : str_leb a b = true \/ str_leb b a = true.
Proof.
  unfold str_leb. destruct (str_ltb b a) eqn:E; auto.
  right. now rewrite (str_ltb_asym _ _ E).
Qed.

Lemma str_leb_trans a b c : str_leb a b = true -> str_leb b c = true -> str_leb a c = true.
Proof.
  unfold str_leb. rewrite !negb_true_iff.
  revert b c. induction a as [|x a IH]; intros [|y b] [|z c]; simpl; auto; try discriminate.
  destruct (N.ltb_spec y x), (N.ltb_spec x y), (N.ltb_spec z y), (N.ltb_spec y z),
           (N.ltb_spec z x), (N.ltb_spec x z); auto; try discriminate; try lia.
  apply IH.
Qed.

Lemma str_leb_refl a : str_leb a a = true.
Proof. destruct (str_leb_total a a); auto. Qed.

Lemma pos_leb_total a b : pos_leb a b = true \/ pos_leb b a = true.
Proof.
  destruct a as [x|], b as [y|]; simpl; auto.
  destruct (Nat.leb_spec x y), (Nat.leb_spec y x); auto; lia.
Qed.

Lemma pos_leb_trans a b c : pos_leb a b = true -> pos_leb b c = true -> pos_leb a c = true.
Proof.
  destruct a as [x|], b as [y|], c as [z|]; simpl; auto; try discriminate.
  rewrite !Nat.leb_le. lia.
Qed.

Lemma by_pos_total a b : by_pos a b = true \/ by_pos b a = true.
Proof. apply pos_leb_total. Qed.
Lemma by_pos_trans a b c : by_pos a b = true -> by_pos b c = true -> by_pos a c = true.
Proof. apply pos_leb_trans. Qed.
Lemma by_name_total a b : by_name a b = true \/ by_name b a = true.
Proof. apply str_leb_total. Qed.
Lemma by_name_trans a b c : by_name a b = true -> by_name b c = true -> by_name a c = true.
Proof. apply str_leb_trans. Qed.

(* ====================================================================== *)
(* 4. the pieces of one struct, named                                      *)
(* ====================================================================== *)
Definition order_leb (o : options) : nec * element -> nec * element -> bool :=
  match sort o with Unsorted => by_pos | XmlName => by_name end.
Definition sorted_children (o : options) (e : element) : list (nec * element) :=
  isort (order_leb o) (echildren e).
Definition sorted_attrs (o : options) (e : element) : list (nec * str) :=
  match sort o with
  | XmlName => isort (fun a b => str_leb (snd a) (snd b)) (eattrs e)
  | Unsorted => eattrs e
  end.

(* identifier bound to an XML name (falls back to the XML name itself) *)
Definition bound (m : idmap) (real : str) (t : idty) : str :=
  match id_get m real t with Some x => x | None => real end.
Definition struct_name_at (tbl : name_table) (p : path) : str :=
  match table_get tbl p with Some x => x | None => [] end.
Definition derive_attr (o : options) : option str :=
  if is_nil (derive o) then None else Some (derive o).

Definition attr_field (o : options) (m : idmap) (a : nec * str) : field :=
  let real := snd a in
  let an := bound m real TAttr in
  let local := if starts_with_xmlns real then real else remove_namespace real in
  let serde_name := attribute_prefix o ++ local in
  {| f_kind := FAttr; f_xml := real;
     f_rename := if str_eqb an serde_name then None else Some serde_name;
     f_ident := an;
     f_wrap := match fst a with Mand => WPlain | Opt => WOption end;
     f_ty := TyString |}.

Definition text_fields (o : options) (m : idmap) (e : element) : list field :=
  if etext e then
    [{| f_kind := FText; f_xml := s "text"; f_rename := Some (text_identifier o);
        f_ident := bound m (s "text") TText;
        f_wrap := WOption; f_ty := TyString |}]
  else [].

Definition child_field (tbl : name_table) (m : idmap) (path1 : path) (c : nec * element) : field :=
  let ce := snd c in
  let real := ename ce in
  let plain := remove_namespace real in
  let cn := bound m real TChild in
  {| f_kind := FChild; f_xml := real;
     f_rename := if str_eqb cn plain then None else Some plain;
     f_ident := cn;
     f_wrap := child_wrap (estandalone ce) (fst c);
     f_ty := if contains_only_text ce then TyString
             else TyStruct (struct_name_at tbl (path1 ++ [real])) |}.

(* the structs contributed by one child (none for a text-only child) *)
Definition child_structs (o : options) (tbl : name_table) (path1 : path) (c : nec * element)
  : list structdef :=
  if contains_only_text (snd c) then [] else render_abs_at o tbl (snd c) path1.

(* the struct of the node itself *)
Definition head_struct (o : options) (tbl : name_table) (e : element) (pth : path) : structdef :=
  let path1 := pth ++ [ename e] in
  let m := id_new e in
  {| sd_derive := derive_attr o;
     sd_name := struct_name_at tbl path1;
     sd_fields := map (attr_field o m) (sorted_attrs o e)
                  ++ text_fields o m e
                  ++ map (child_field tbl m path1) (sorted_children o e) |}.

(* step 1: the local `go` of render_abs_at is a map (by computation) *)
Lemma render_abs_at_unfold o tbl e pth :
  render_abs_at o tbl e pth =
  let path1 := pth ++ [ename e] in
  let m := id_new e in
  let rendered :=
    map (fun c => (c, (child_field tbl m path1 c, child_structs o tbl path1 c))) (echildren e) in
  let sorted := match sort o with
                | XmlName => isort (fun a b => by_name (fst a) (fst b)) rendered
                | Unsorted => isort (fun a b => by_pos (fst a) (fst b)) rendered end in
  {| sd_derive := derive_attr o;
     sd_name := struct_name_at tbl path1;
     sd_fields := map (attr_field o m) (sorted_attrs o e) ++ text_fields o m e
                  ++ map (fun x => fst (snd x)) sorted |}
  :: flat_map (fun x => snd (snd x)) sorted.
Proof. destruct e as [n t x k a ch p]. reflexivity. Qed.

(* step 2 = render_struct_shape: own struct, then the structs of the children in field order *)
Lemma render_struct_shape o tbl e pth :
  render_abs_at o tbl e pth =
  head_struct o tbl e pth
  :: flat_map (fun c => if contains_only_text (snd c) then []
                        else render_abs_at o tbl (snd c) (pth ++ [ename e]))
              (sorted_children o e).
Proof.
  rewrite render_abs_at_unfold. cbv zeta.
  unfold head_struct, sorted_children, order_leb.
  destruct (sort o); rewrite isort_map_key, map_map, flat_map_map; reflexivity.
Qed.

Lemma head_struct_fields o tbl e pth :
  sd_fields (head_struct o tbl e pth)
  = map (attr_field o (id_new e)) (sorted_attrs o e)
    ++ text_fields o (id_new e) e
    ++ map (child_field tbl (id_new e) (pth ++ [ename e])) (sorted_children o e).
Proof. reflexivity. Qed.

(* ====================================================================== *)
(* 5. every struct is the head struct of some node                         *)
(* ====================================================================== *)
Lemma render_Forall (P : structdef -> Prop) o tbl :
  (forall e pth, P (head_struct o tbl e pth)) ->
  forall e pth, Forall P (render_abs_at o tbl e pth).
Proof.
  intros HP e. induction e as [n t x k a ch p IH] using element_ind'. intros pth.
  rewrite render_struct_shape. constructor; [apply HP|].
  apply Forall_flat_map. unfold sorted_children. apply isort_Forall.
  cbn [echildren]. eapply Forall_impl; [|exact IH].
  intros c Hc. cbv beta in Hc. destruct (contains_only_text (snd c)); [constructor|apply Hc].
Qed.

Lemma render_abs_Forall (P : structdef -> Prop) o :
  (forall tbl e pth, P (head_struct o tbl e pth)) ->
  forall e, Forall P (render_abs o e).
Proof. intros HP e. unfold render_abs, render_abs_ord. apply render_Forall. apply HP. Qed.

(* ====================================================================== *)
(* 6. C10: the options                                                     *)
(* ====================================================================== *)
Lemma render_at_derive o tbl e pth :
  Forall (fun d => sd_derive d = if is_nil (derive o) then None else Some (derive o))
         (render_abs_at o tbl e pth).
Proof. apply render_Forall. reflexivity. Qed.

Lemma render_derive o e :
  Forall (fun d => sd_derive d = if is_nil (derive o) then None else Some (derive o))
         (render_abs o e).
Proof. apply render_at_derive. Qed.

(* --- renames --- *)
Definition rename_spec (o : options) (f : field) : Prop :=
  (f_kind f = FAttr ->
   f_rename f = (let sn := attribute_prefix o
                           ++ (if starts_with_xmlns (f_xml f) then f_xml f
                               else remove_namespace (f_xml f)) in
                 if str_eqb (f_ident f) sn then None else Some sn)) /\
  (f_kind f = FChild ->
   f_rename f = (let sn := remove_namespace (f_xml f) in
                 if str_eqb (f_ident f) sn then None else Some sn)) /\
  (f_kind f = FText -> f_rename f = Some (text_identifier o)).

Lemma head_rename_spec o tbl e pth :
  Forall (rename_spec o) (sd_fields (head_struct o tbl e pth)).
Proof.
  rewrite head_struct_fields. apply Forall_app; split; [|apply Forall_app; split].
  - apply Forall_map, Forall_forall. intros a _.
    unfold rename_spec, attr_field. cbn [f_kind f_xml f_rename f_ident].
    repeat split; intros H; try discriminate H; reflexivity.
  - unfold text_fields. destruct (etext e); constructor; [|constructor].
    unfold rename_spec. cbn [f_kind f_xml f_rename f_ident].
    repeat split; intros H; try discriminate H; reflexivity.
  - apply Forall_map, Forall_forall. intros c _.
    unfold rename_spec, child_field. cbn [f_kind f_xml f_rename f_ident].
    repeat split; intros H; try discriminate H; reflexivity.
Qed.

Lemma render_at_rename o tbl e pth :
  Forall (fun d => Forall (rename_spec o) (sd_fields d)) (render_abs_at o tbl e pth).
Proof. apply render_Forall. intros. apply head_rename_spec. Qed.

Lemma render_rename o e :
  Forall (fun d => Forall (rename_spec o) (sd_fields d)) (render_abs o e).
Proof. apply render_at_rename. Qed.

(* --- everything but the serde names / derive depends on `sort` only --- *)
Definition erase_field (f : field) : fkind * str * str * wrap * tyname :=
  (f_kind f, f_xml f, f_ident f, f_wrap f, f_ty f).
Definition erase_bindings (d : structdef) : str * list (fkind * str * str * wrap * tyname) :=
  (sd_name d, map erase_field (sd_fields d)).

Lemma sorted_children_sort o1 o2 e : sort o1 = sort o2 -> sorted_children o1 e = sorted_children o2 e.
Proof. intros H. unfold sorted_children, order_leb. now rewrite H. Qed.
Lemma sorted_attrs_sort o1 o2 e : sort o1 = sort o2 -> sorted_attrs o1 e = sorted_attrs o2 e.
Proof. intros H. unfold sorted_attrs. now rewrite H. Qed.

Lemma head_erase o1 o2 tbl e pth :
  sort o1 = sort o2 ->
  erase_bindings (head_struct o1 tbl e pth) = erase_bindings (head_struct o2 tbl e pth).
Proof.
  intros H. unfold erase_bindings. rewrite !head_struct_fields.
  cbn [head_struct sd_name]. f_equal.
  rewrite !map_app, !map_map.
  rewrite (sorted_attrs_sort o1 o2 e H), (sorted_children_sort o1 o2 e H).
  f_equal. f_equal. unfold text_fields. destruct (etext e); reflexivity.
Qed.

Lemma render_at_orthogonal o1 o2 tbl e :
  sort o1 = sort o2 -> forall pth,
  map erase_bindings (render_abs_at o1 tbl e pth) = map erase_bindings (render_abs_at o2 tbl e pth).
Proof.
  intros H. induction e as [n t x k a ch p IH] using element_ind'. intros pth.
  rewrite !render_struct_shape. cbn [map]. f_equal; [now apply head_erase|].
  rewrite !map_flat_map. rewrite (sorted_children_sort o1 o2 _ H).
  apply flat_map_ext_in. intros c Hc.
  apply isort_in in Hc. cbn [echildren] in Hc.
  rewrite Forall_forall in IH.
  destruct (contains_only_text (snd c)); [reflexivity|]. now apply IH.
Qed.

Lemma render_orthogonal o1 o2 e :
  sort o1 = sort o2 ->
  map erase_bindings (render_abs o1 e) = map erase_bindings (render_abs o2 e).
Proof. intros H. unfold render_abs, render_abs_ord. now apply render_at_orthogonal. Qed.

(* --- the printed form of the derive attribute --- *)
Lemma print_struct_derive d :
  match sd_derive d with
  | Some x => exists rest, print_struct d = s "#[derive(" ++ x ++ s ")]" ++ nl ++ s "pub struct " ++ rest
  | None => exists rest, print_struct d = s "pub struct " ++ rest
  end.
Proof.
  unfold print_struct. destruct (sd_derive d) as [x|]; eexists.
  - rewrite <- !app_assoc. reflexivity.
  - reflexivity.
Qed.

Lemma render_print_derive o e :
  Forall (fun d => exists rest,
            print_struct d
            = (if is_nil (derive o) then []
               else s "#[derive(" ++ derive o ++ s ")]" ++ nl) ++ s "pub struct " ++ rest)
         (render_abs o e).
Proof.
  eapply Forall_impl; [|apply render_derive].
  intros d Hd. cbv beta in Hd. pose proof (print_struct_derive d) as P. rewrite Hd in P.
  destruct (is_nil (derive o)); destruct P as [rest P]; exists rest; rewrite P.
  - reflexivity.
  - rewrite <- !app_assoc. reflexivity.
Qed.
