(* List facts used by the exactness proof: first-appearance dedup, index of a name. *)
From XSG.Model Require Import Strings Necessity Element Parser Dom Spec.
From XSG.Proofs Require Import StringsProofs.
From Coq Require Import Lia Permutation.

Lemma filter_neq_in x y l : In y (filter (fun z => negb (str_eqb x z)) l) <-> In y l /\ x <> y.
Proof.
  rewrite filter_In. split; intros [H1 H2]; split; auto.
  - intros E. subst. now rewrite str_eqb_refl in H2.
  - apply negb_true_iff. now apply str_eqb_neq.
Qed.
Lemma dedup_in x l : In x (dedup l) <-> In x l.
Proof.
  induction l as [|y l IH]; simpl; [tauto|].
  rewrite filter_neq_in, IH. destruct (str_eqb_spec y x); subst; intuition.
Qed.
Lemma dedup_nodup l : NoDup (dedup l).
Proof.
  induction l as [|y l IH]; simpl; constructor.
  - rewrite filter_neq_in. tauto.
  - now apply NoDup_filter.
Qed.
Lemma filter_filter {A} (f g : A -> bool) l : filter f (filter g l) = filter (fun x => g x && f x) l.
Proof.
  induction l as [|x l IH]; simpl; auto.
  destruct (g x) eqn:G; simpl; [destruct (f x) eqn:F; simpl; now rewrite IH | auto].
Qed.
Lemma filter_id {A} (f : A -> bool) l : (forall x, In x l -> f x = true) -> filter f l = l.
Proof.
  induction l as [|x l IH]; simpl; auto. intros H. rewrite (H x); auto. f_equal. auto.
Qed.
Lemma dedup_nodup_id l : NoDup l -> dedup l = l.
Proof.
  induction l as [|x l IH]; simpl; auto. intros H; inversion H as [|? ? Hx Hl]; subst.
  rewrite IH; auto. f_equal. apply filter_id. intros y Hy.
  apply negb_true_iff, str_eqb_neq. intros ->. tauto.
Qed.
Lemma dedup_app a b :
  dedup (a ++ b) = dedup a ++ filter (fun y => negb (mem y a)) (dedup b).
Proof.
  induction a as [|x a IH]; simpl.
  - symmetry. apply filter_id. reflexivity.
  - f_equal. rewrite IH, filter_app, filter_filter. f_equal.
    apply filter_ext. intros y. rewrite (str_eqb_sym y x).
    destruct (str_eqb x y), (mem y a); reflexivity.
Qed.
Lemma dedup_idem l : dedup (dedup l) = dedup l.
Proof. apply dedup_nodup_id, dedup_nodup. Qed.

(* index of the first occurrence (length when absent) *)
Fixpoint index_of (m : str) (l : list str) : nat :=
  match l with [] => O | x :: r => if str_eqb x m then O else S (index_of m r) end.
Lemma index_of_app_in m l l' : In m l -> index_of m (l ++ l') = index_of m l.
Proof.
  induction l as [|x l IH]; simpl; [tauto|]. intros [->|H].
  - now rewrite str_eqb_refl.
  - destruct (str_eqb x m); auto.
Qed.
Lemma index_of_app_notin m l l' : ~ In m l -> index_of m (l ++ l') = (length l + index_of m l')%nat.
Proof.
  induction l as [|x l IH]; simpl; auto. intros H.
  destruct (str_eqb_spec x m); [subst; tauto|]. rewrite IH; tauto.
Qed.
Lemma index_of_lt m l : In m l -> (index_of m l < length l)%nat.
Proof.
  induction l as [|x l IH]; simpl; [tauto|]. intros [->|H].
  - rewrite str_eqb_refl. lia.
  - destruct (str_eqb x m); [lia|]. apply IH in H. lia.
Qed.

(* two duplicate-free lists with the same members have the same length *)
Lemma nodup_same_length (a b : list str) :
  NoDup a -> NoDup b -> (forall x, In x a <-> In x b) -> length a = length b.
Proof.
  intros Ha Hb H. apply Permutation_length. apply NoDup_Permutation; auto.
Qed.

Lemma mem_app x a b : mem x (a ++ b) = mem x a || mem x b.
Proof. unfold mem. apply existsb_app. Qed.
Lemma mem_dedup x l : mem x (dedup l) = mem x l.
Proof.
  destruct (mem x l) eqn:E.
  - apply mem_spec. apply dedup_in. now apply mem_spec.
  - apply mem_false. rewrite dedup_in. now apply mem_false.
Qed.
